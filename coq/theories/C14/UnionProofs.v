(* C14 — union: what tsk_table_collection_union adds (tables.c 13191-13379).
   Node and edge level: the nodes of `other` mapped to NULL are appended in order with their
   row data, every edge of `other` that touches one of them is added with its ends renumbered,
   nothing else is added to these two tables, and the rows of `self` stay. *)
From Coq Require Import List ZArith Bool Lia ZifyBool Permutation.
From TskVerif Require Import Base.Common C14.Model C14.Spec C14.Basics C14.SubsetInd.
Import ListNotations.
Open Scope Z_scope.

Lemma NULL_neg' : NULL = -1.
Proof. reflexivity. Qed.

(* ---- specification side ---- *)
Definition is_new (mapping : list Z) (k : Z) : bool :=
  match getz mapping k with Ok m => m =? NULL | _ => false end.

(* ids of other's nodes that are new to self, in order *)
Fixpoint new_ids_from (k : Z) (mapping : list Z) : list Z :=
  match mapping with
  | [] => []
  | m :: rest => if m =? NULL then k :: new_ids_from (k + 1) rest else new_ids_from (k + 1) rest
  end.
Definition new_ids (mapping : list Z) : list Z := new_ids_from 0 mapping.

(* the id a node of `other` has in the union *)
Definition union_node_id (self : tables) (mapping : list Z) (k : Z) : Z :=
  match getz mapping k with
  | Ok m => if m =? NULL then zlen (t_nodes self) + rank (is_new mapping) k else m
  | _ => NULL
  end.

Definition edge_is_new (mapping : list Z) (e : edge) : bool :=
  is_new mapping (e_parent e) || is_new mapping (e_child e).
Definition union_edge (self : tables) (mapping : list Z) (e : edge) : edge :=
  mkE (e_left e) (e_right e) (union_node_id self mapping (e_parent e))
      (union_node_id self mapping (e_child e)) (e_md e).

(* what a new node row keeps from the row of `other` *)
Definition new_node_row (other : tables) (add_populations : bool) (k : Z) (r' : node) : Prop :=
  exists r, getz (t_nodes other) k = Ok r /\
    n_flags r' = n_flags r /\ n_time r' = n_time r /\ n_md r' = n_md r /\
    (n_pop r = NULL <-> n_pop r' = NULL) /\ (add_populations = false -> n_pop r' = n_pop r) /\
    (n_ind r = NULL -> n_ind r' = NULL).

(* the two parts of check_integrity(other, 0) the node / edge part of union relies on *)
Definition node_refs_ok (t : tables) : Prop :=
  forall r, In r (t_nodes t) ->
    ref_ok (zlen (t_populations t)) (n_pop r) = true /\ ref_ok (zlen (t_individuals t)) (n_ind r) = true.
Definition edge_refs_ok (t : tables) : Prop :=
  forall e, In e (t_edges t) ->
    in_range (zlen (t_nodes t)) (e_parent e) = true /\ in_range (zlen (t_nodes t)) (e_child e) = true.

(* ---- one call of add_and_remap_node in the union loop ---- *)
Lemma add_node_union other addp s k r :
  node_refs_ok other ->
  getz (t_nodes other) k = Ok r ->
  exists s' r',
    add_and_remap_node other addp s k = Ok s' /\
    st_nodes s' = st_nodes s ++ [r'] /\ new_node_row other addp k r' /\
    st_nmap s' = upd (st_nmap s) k (zlen (st_nodes s)) /\
    (exists xi, st_inds s' = st_inds s ++ xi) /\
    (exists xp, st_pops s' = st_pops s ++ xp) /\
    (addp = false -> st_pops s' = st_pops s).
Proof.
  intros R G. unfold add_and_remap_node, get_row. rewrite G. cbn [bind].
  destruct (R r (getz_In _ _ _ G)) as [Rp Ri].
  (* individual part *)
  assert (exists inds imap new_ind xi,
    (if n_ind r =? NULL then Ok (st_inds s, st_imap s, NULL)
     else do cur <- mget (st_imap s) (zlen (t_individuals other)) (n_ind r);
          if cur =? NULL
          then do row <- match getz (t_individuals other) (n_ind r) with Ok a => Ok a | _ => Err ERR_INDIVIDUAL_OOB end;
               Ok (st_inds s ++ [row], upd (st_imap s) (n_ind r) (zlen (st_inds s)), zlen (st_inds s))
          else Ok (st_inds s, st_imap s, cur)) = Ok (inds, imap, new_ind)
    /\ inds = st_inds s ++ xi /\ (n_ind r = NULL -> new_ind = NULL)) as [inds [imap [new_ind [xi [-> [Ei En]]]]]].
  { destruct (n_ind r =? NULL) eqn:E.
    - exists (st_inds s), (st_imap s), NULL, []. rewrite app_nil_r. auto.
    - apply ref_ok_cases in Ri as [Ri|[_ Ri]]. { apply Z.eqb_neq in E. contradiction. }
      unfold mget. rewrite Ri. cbn [bind].
      assert (n_ind r <> NULL) as N by (now apply Z.eqb_neq).
      destruct (st_imap s (n_ind r) =? NULL).
      + destruct (getz_in_range _ _ Ri) as [row ->]. cbn [bind]. do 3 eexists. exists [row]. repeat split; auto. contradiction.
      + do 3 eexists. exists []. rewrite app_nil_r. repeat split; auto. contradiction. }
  cbn [bind].
  (* population part *)
  assert (exists pops pmap new_pop xp,
    (if n_pop r =? NULL then Ok (st_pops s, st_pmap s, NULL)
     else do pmap1 <- (if addp then Ok (st_pmap s) else mset (st_pmap s) (zlen (t_populations other)) (n_pop r) (n_pop r));
          do cur <- mget pmap1 (zlen (t_populations other)) (n_pop r);
          if cur =? NULL
          then do row <- match getz (t_populations other) (n_pop r) with Ok a => Ok a | _ => Err ERR_POPULATION_OOB end;
               Ok (st_pops s ++ [row], upd pmap1 (n_pop r) (zlen (st_pops s)), zlen (st_pops s))
          else Ok (st_pops s, pmap1, cur)) = Ok (pops, pmap, new_pop)
    /\ pops = st_pops s ++ xp /\ (addp = false -> xp = [] /\ new_pop = n_pop r)
    /\ (n_pop r = NULL <-> new_pop = NULL)) as [pops [pmap [new_pop [xp [-> [Ep [Ea En']]]]]]].
  { destruct (n_pop r =? NULL) eqn:E.
    - apply Z.eqb_eq in E. exists (st_pops s), (st_pmap s), NULL, []. rewrite app_nil_r, E. repeat split; auto.
    - apply ref_ok_cases in Rp as [Rp|[_ Rp]]. { apply Z.eqb_neq in E. contradiction. }
      assert (n_pop r <> NULL) as N by (now apply Z.eqb_neq).
      destruct addp.
      + cbn [bind]. unfold mget. rewrite Rp. cbn [bind].
        destruct (st_pmap s (n_pop r) =? NULL) eqn:F.
        * destruct (getz_in_range _ _ Rp) as [row ->]. cbn [bind]. do 3 eexists. exists [row].
          split; [reflexivity|]. split; auto. split; [discriminate|].
          pose proof (zlen_nonneg (st_pops s)). rewrite NULL_neg' in *. split; intros; lia.
        * do 3 eexists. exists []. rewrite app_nil_r. split; [reflexivity|]. split; auto. split; [discriminate|].
          apply Z.eqb_neq in F. split; intros; contradiction.
      + unfold mset, mget. rewrite Rp. cbn [bind].
        rewrite (upd_same (st_pmap s) (n_pop r)). rewrite E.
        do 3 eexists. exists []. rewrite app_nil_r. split; [reflexivity|]. repeat split; auto; intros; contradiction. }
  cbn [bind]. do 2 eexists. split; [reflexivity|]. cbn [st_nodes st_nmap st_inds st_pops].
  split; [reflexivity|]. split.
  { exists r. cbn [n_flags n_time n_md n_pop n_ind]. repeat split; auto; try tauto. }
  split; [reflexivity|]. split; [eauto|]. split; [eauto|].
  intros ->. destruct (Ea eq_refl) as [-> _]. now rewrite app_nil_r in Ep.
Qed.

(* ---- 13268-13278: the node loop of union ---- *)
Lemma getz_mid {A} (pre : list A) m suf : getz (pre ++ m :: suf) (zlen pre) = Ok m.
Proof. replace (zlen pre) with (zlen pre + 0) by lia. rewrite getz_app_r by lia. apply getz_cons_0. Qed.

Lemma union_nodes_spec other addp full :
  node_refs_ok other ->
  zlen full <= zlen (t_nodes other) ->
  forall suf pre s, full = pre ++ suf ->
  exists s' rows,
    union_nodes other addp (zlen pre) suf s = Ok s' /\
    st_nodes s' = st_nodes s ++ rows /\
    Forall2 (new_node_row other addp) (new_ids_from (zlen pre) suf) rows /\
    (forall j, st_nmap s' j =
       if (zlen pre <=? j) && (j <? zlen full)
       then match getz full j with
            | Ok m => if m =? NULL
                      then zlen (st_nodes s) + count_from (is_new full) (zlen pre) (Z.to_nat (j - zlen pre))
                      else m
            | _ => NULL end
       else st_nmap s j) /\
    (exists xi, st_inds s' = st_inds s ++ xi) /\
    (exists xp, st_pops s' = st_pops s ++ xp) /\
    (addp = false -> st_pops s' = st_pops s).
Proof.
  intros R B. induction suf as [|m suf IH]; intros pre s F.
  - exists s, []. cbn [union_nodes new_ids_from]. rewrite app_nil_r. repeat split; auto; try (exists []; now rewrite app_nil_r).
    intros j. assert (zlen full = zlen pre) as -> by (rewrite F, app_nil_r; reflexivity).
    assert ((zlen pre <=? j) && (j <? zlen pre) = false) as -> by lia. reflexivity.
  - assert (full = (pre ++ [m]) ++ suf) as F' by (rewrite <- app_assoc; exact F).
    assert (zlen (pre ++ [m]) = zlen pre + 1) as Z1 by (rewrite zlen_app, zlen_cons, zlen_nil; lia).
    assert (zlen full = zlen pre + 1 + zlen suf) as ZF by (rewrite F', zlen_app, Z1; lia).
    pose proof (zlen_nonneg suf) as Ns. pose proof (zlen_nonneg pre) as Np.
    assert (getz full (zlen pre) = Ok m) as G by (rewrite F; apply getz_mid).
    assert (is_new full (zlen pre) = (m =? NULL)) as K by (unfold is_new; now rewrite G).
    cbn [union_nodes new_ids_from]. destruct (m =? NULL) eqn:E; cbn [negb].
    + (* new node *)
      destruct (getz_in_range (t_nodes other) (zlen pre)) as [r Hr]. { apply in_range_iff. lia. }
      destruct (add_node_union other addp s (zlen pre) r R Hr) as [s1 [r' [A1 [A2 [A3 [A4 [[xi1 A5] [[xp1 A6] A7]]]]]]]].
      rewrite A1. cbn [bind].
      destruct (IH (pre ++ [m]) s1 F') as [s' [rows [I1 [I2 [I3 [I4 [[xi I5] [[xp I6] I7]]]]]]]].
      rewrite Z1 in I1, I3. rewrite I1. exists s', (r' :: rows). split; [reflexivity|].
      split. { rewrite I2, A2, <- app_assoc. reflexivity. }
      split. { constructor; auto. }
      split.
      { intros j. rewrite I4, Z1, A2, A4, zlen_app, zlen_cons, zlen_nil.
        destruct (Z.eq_dec j (zlen pre)) as [->|N].
        - assert ((zlen pre + 1 <=? zlen pre) && (zlen pre <? zlen full) = false) as -> by lia.
          rewrite upd_same' by reflexivity.
          assert ((zlen pre <=? zlen pre) && (zlen pre <? zlen full) = true) as -> by lia.
          rewrite G, E, Z.sub_diag. cbn. lia.
        - rewrite upd_other by auto.
          destruct ((zlen pre <=? j) && (j <? zlen full)) eqn:Rg.
          + assert ((zlen pre + 1 <=? j) && (j <? zlen full) = true) as -> by lia.
            destruct (getz full j) as [mj| | |]; auto. destruct (mj =? NULL); auto.
            replace (Z.to_nat (j - zlen pre)) with (S (Z.to_nat (j - (zlen pre + 1)))) by lia.
            cbn [count_from]. rewrite K. lia.
          + assert ((zlen pre + 1 <=? j) && (j <? zlen full) = false) as -> by lia. reflexivity. }
      split. { exists (xi1 ++ xi). now rewrite I5, A5, app_assoc. }
      split. { exists (xp1 ++ xp). now rewrite I6, A6, app_assoc. }
      intros Ha. rewrite I7, A7; auto.
    + (* shared node *)
      cbn [bind].
      set (s1 := mkSt (st_inds s) (st_pops s) (st_nodes s) (st_imap s) (st_pmap s) (upd (st_nmap s) (zlen pre) m)).
      destruct (IH (pre ++ [m]) s1 F') as [s' [rows [I1 [I2 [I3 [I4 [I5 [I6 I7]]]]]]]].
      rewrite Z1 in I1, I3. rewrite I1. exists s', rows. split; [reflexivity|].
      split; [exact I2|]. split; [exact I3|]. split; [|auto].
      intros j. rewrite I4, Z1. cbn [s1 st_nodes st_nmap].
      destruct (Z.eq_dec j (zlen pre)) as [->|N].
      * assert ((zlen pre + 1 <=? zlen pre) && (zlen pre <? zlen full) = false) as -> by lia.
        rewrite upd_same' by reflexivity.
        assert ((zlen pre <=? zlen pre) && (zlen pre <? zlen full) = true) as -> by lia.
        now rewrite G, E.
      * rewrite upd_other by auto.
        destruct ((zlen pre <=? j) && (j <? zlen full)) eqn:Rg.
        -- assert ((zlen pre + 1 <=? j) && (j <? zlen full) = true) as -> by lia.
           destruct (getz full j) as [mj| | |]; auto. destruct (mj =? NULL); auto.
           replace (Z.to_nat (j - zlen pre)) with (S (Z.to_nat (j - (zlen pre + 1)))) by lia.
           cbn [count_from]. rewrite K. lia.
        -- assert ((zlen pre + 1 <=? j) && (j <? zlen full) = false) as -> by lia. reflexivity.
Qed.

(* ---- 13290-13303: edges ---- *)
Lemma union_edges_spec self mapping nmap no es :
  zlen mapping = no ->
  (forall j, 0 <= j < no -> nmap j = union_node_id self mapping j) ->
  (forall e, In e es -> in_range no (e_parent e) = true /\ in_range no (e_child e) = true) ->
  union_edges mapping nmap no es = Ok (map (union_edge self mapping) (filter (edge_is_new mapping) es)).
Proof.
  intros L M. induction es as [|e es IH]; intros H; auto.
  cbn [union_edges]. destruct (H e (or_introl eq_refl)) as [Hp Hc].
  destruct (getz_in_range mapping (e_parent e)) as [mp Gp]. { now rewrite L. }
  destruct (getz_in_range mapping (e_child e)) as [mc Gc]. { now rewrite L. }
  rewrite Gp, Gc. cbn [bind]. rewrite IH by (intros; apply H; now right). cbn [bind].
  cbn [filter].
  assert (edge_is_new mapping e = (mp =? NULL) || (mc =? NULL)) as -> by (unfold edge_is_new, is_new; now rewrite Gp, Gc).
  destruct ((mp =? NULL) || (mc =? NULL)); auto.
  unfold mget. rewrite Hp, Hc. cbn [bind map]. unfold union_edge at 1.
  rewrite !M by (now apply in_range_iff). reflexivity.
Qed.

(* ---- union_raw: nodes and edges ---- *)
Definition union_adds (self other : tables) (mapping : list Z) (addp : bool) (u : tables) : Prop :=
  (exists rows, t_nodes u = t_nodes self ++ rows /\
                Forall2 (new_node_row other addp) (new_ids mapping) rows) /\
  (exists xi, t_individuals u = t_individuals self ++ xi) /\
  (exists xp, t_populations u = t_populations self ++ xp) /\
  (addp = false -> t_populations u = t_populations self).

Lemma firstn_app_exact {A} (a b : list A) : firstn (length a) (a ++ b) = a.
Proof. induction a; cbn; auto. now f_equal. Qed.

Lemma union_raw_spec self other mapping addp u :
  node_refs_ok other -> edge_refs_ok other ->
  zlen mapping = zlen (t_nodes other) ->
  union_raw self other mapping addp = Ok u ->
  union_adds self other mapping addp u /\
  t_edges u = t_edges self ++ map (union_edge self mapping) (filter (edge_is_new mapping) (t_edges other)).
Proof.
  intros R Re L H. unfold union_raw in H.
  destruct (seed_individual_map self other 0 mapping mnull) as [imap0| | |]; cbn [bind] in H; try discriminate.
  destruct (union_nodes_spec other addp mapping R ltac:(lia) mapping []
              (mkSt (t_individuals self) (t_populations self) (t_nodes self) imap0 mnull mnull) eq_refl)
    as [s [rows [U1 [U2 [U3 [U4 [[xi U5] [[xp U6] U7]]]]]]]].
  rewrite zlen_nil in U1, U3, U4. rewrite U1 in H. cbn [bind st_nodes st_inds st_pops] in *.
  destruct (remap_new_parents (st_imap s) (zlen (t_individuals other))
                              (skipn (length (t_individuals self)) (st_inds s))) as [new_inds| | |];
    cbn [bind] in H; try discriminate.
  rewrite (union_edges_spec self mapping (st_nmap s) (zlen (t_nodes other)) (t_edges other)) in H; auto.
  2:{ intros j Hj. rewrite U4. assert ((0 <=? j) && (j <? zlen mapping) = true) as -> by lia.
      unfold union_node_id. destruct (getz mapping j) as [m| | |]; auto. destruct (m =? NULL); auto.
      rewrite Z.sub_0_r. reflexivity. }
  cbn [bind] in H.
  destruct (union_sites mapping (st_nmap s) (zlen (t_nodes other)) (t_sites other) 0 (t_mutations other)
                        (t_sites self) (t_mutations self)) as [[ss ms]| | |]; cbn [bind] in H; try discriminate.
  inversion H; subst u; clear H. cbn [t_nodes t_edges t_individuals t_populations].
  split; [|reflexivity]. unfold union_adds. cbn [t_nodes t_individuals t_populations].
  split. { exists rows. split; auto. }
  split. { rewrite U5, firstn_app_exact. eauto. }
  split. { eauto. } exact U7.
Qed.

(* ---- the sorting / de-duplication / parent computation after the merge does not touch
        nodes, individuals, populations and only permutes the edges ---- *)
Lemma insert_perm {A} (le : A -> A -> bool) x l : Permutation (insert le x l) (x :: l).
Proof.
  induction l as [|y l IH]; cbn [insert]; auto.
  destruct (le x y); auto. rewrite IH. apply perm_swap.
Qed.

Lemma isort_perm {A} (le : A -> A -> bool) l : Permutation (isort le l) l.
Proof.
  unfold isort. induction l as [|x l IH]; cbn [fold_right]; auto.
  rewrite insert_perm. now constructor.
Qed.

Lemma sort_tables_keeps t t' : sort_tables t = Ok t' ->
  t_nodes t' = t_nodes t /\ Permutation (t_edges t') (t_edges t) /\
  t_individuals t' = t_individuals t /\ t_populations t' = t_populations t.
Proof.
  unfold sort_tables. destruct (sort_sites_mutations mutation_le (t_sites t) (t_mutations t)) as [[ss ms]| | |];
    cbn [bind]; intros H; inversion H; subst. cbn. repeat split; auto. apply isort_perm.
Qed.

Lemma dedup_keeps t t' : deduplicate_sites t = Ok t' ->
  t_nodes t' = t_nodes t /\ t_edges t' = t_edges t /\
  t_individuals t' = t_individuals t /\ t_populations t' = t_populations t.
Proof.
  unfold deduplicate_sites. destruct (dedup_sites (t_sites t) None 0 0 mnull) as [ss m].
  destruct (if zlen ss <? zlen (t_sites t) then _ else _) as [ms| | |]; cbn [bind]; intros H; inversion H; subst.
  cbn. auto.
Qed.

Lemma parents_keeps t t' : compute_mutation_parents t = Ok t' ->
  t_nodes t' = t_nodes t /\ t_edges t' = t_edges t /\
  t_individuals t' = t_individuals t /\ t_populations t' = t_populations t.
Proof.
  unfold compute_mutation_parents. destruct (contradictory (t_edges t)); [discriminate|].
  destruct (parents_sites _ _ _ _ _ _) as [ms| | |]; cbn [bind]; intros H; inversion H; subst. cbn. auto.
Qed.

Theorem union_adds_exactly_weak : forall self other mapping check_shared add_populations u,
  node_refs_ok other -> edge_refs_ok other ->
  union self other mapping check_shared add_populations = Ok u ->
  (* the node mapping was well formed *)
  zlen mapping = zlen (t_nodes other) /\ bad_map self mapping = false /\
  (* nodes: self's rows, then exactly the nodes of other mapped to NULL, in order;
     individuals / populations: self's rows stay a prefix (unchanged when not adding populations) *)
  union_adds self other mapping add_populations u /\
  (* edges: self's edges plus exactly the edges of other with a new parent or child,
     renumbered; up to the order imposed by the final sort *)
  Permutation (t_edges u)
              (t_edges self ++ map (union_edge self mapping) (filter (edge_is_new mapping) (t_edges other))).
Proof.
  intros self other mapping chk addp u R Re H. unfold union in H.
  destruct (zlen mapping =? zlen (t_nodes other)) eqn:L; cbn [negb] in H; [|discriminate].
  apply Z.eqb_eq in L.
  destruct (bad_map self mapping) eqn:BM; [discriminate|].
  destruct (if chk then check_subset_equality self other mapping else Ok tt) as [[]| | |]; cbn [bind] in H; try discriminate.
  destruct (union_raw self other mapping addp) as [t1| | |] eqn:U; cbn [bind] in H; try discriminate.
  destruct (check_node_populations t1) as [[]| | |]; cbn [bind] in H; try discriminate.
  destruct (sort_tables t1) as [t2| | |] eqn:S1; cbn [bind] in H; try discriminate.
  destruct (deduplicate_sites t2) as [t3| | |] eqn:D; cbn [bind] in H; try discriminate.
  destruct (sort_tables t3) as [t4| | |] eqn:S2; cbn [bind] in H; try discriminate.
  destruct (union_raw_spec _ _ _ _ _ R Re L U) as [[[rows [N1 N2]] [I1 [P1 P2]]] E1].
  destruct (sort_tables_keeps _ _ S1) as [a1 [a2 [a3 a4]]].
  destruct (dedup_keeps _ _ D) as [b1 [b2 [b3 b4]]].
  destruct (sort_tables_keeps _ _ S2) as [c1 [c2 [c3 c4]]].
  destruct (parents_keeps _ _ H) as [d1 [d2 [d3 d4]]].
  split; auto. split; auto. split.
  - unfold union_adds. rewrite d1, c1, b1, a1, d3, c3, b3, a3, d4, c4, b4, a4.
    split; eauto.
  - rewrite d2, c2, b2, a2, E1. reflexivity.
Qed.

Theorem union_adds_exactly_lemma : forall self other mapping check_shared add_populations u,
  refs_in_range other = true ->
  union self other mapping check_shared add_populations = Ok u ->
  zlen mapping = zlen (t_nodes other) /\ bad_map self mapping = false /\
  union_adds self other mapping add_populations u /\
  Permutation (t_edges u)
              (t_edges self ++ map (union_edge self mapping) (filter (edge_is_new mapping) (t_edges other))).
Proof.
  intros self other mapping chk addp u R. apply union_adds_exactly_weak.
  - intros r Hr. now apply refs_nodes.
  - intros e He. now apply refs_edges.
Qed.

(* refusal: with check_shared_equality the two shared portions (subset on the mapped nodes,
   canonicalised) must be equal row for row; otherwise TSK_ERR_UNION_DIFF_HISTORIES *)
Theorem union_refuses_lemma : forall self other mapping add_populations s1 o1 s2 o2,
  zlen mapping = zlen (t_nodes other) -> bad_map self mapping = false ->
  subset self (fst (shared_lists 0 mapping)) false false = Ok s1 ->
  subset other (snd (shared_lists 0 mapping)) false false = Ok o1 ->
  canonicalise s1 false = Ok s2 -> canonicalise o1 false = Ok o2 ->
  tables_eqb s2 o2 = false ->
  union self other mapping true add_populations = Err ERR_UNION_DIFF_HISTORIES.
Proof.
  intros self other mapping addp s1 o1 s2 o2 L B S O CS CO NE. unfold union.
  rewrite L, Z.eqb_refl, B. cbn [negb]. unfold check_subset_equality.
  destruct (shared_lists 0 mapping) as [a b]. cbn [fst snd] in *.
  rewrite S. cbn [bind]. rewrite O. cbn [bind]. rewrite CS. cbn [bind]. rewrite CO. cbn [bind].
  rewrite NE. reflexivity.
Qed.

(* with the check on, a successful union means the two canonicalised shared portions were
   found equal row for row *)
Theorem union_checked_equal_lemma : forall self other mapping add_populations u,
  union self other mapping true add_populations = Ok u ->
  exists s1 o1 s2 o2,
    subset self (fst (shared_lists 0 mapping)) false false = Ok s1 /\
    subset other (snd (shared_lists 0 mapping)) false false = Ok o1 /\
    canonicalise s1 false = Ok s2 /\ canonicalise o1 false = Ok o2 /\
    tables_eqb s2 o2 = true.
Proof.
  intros self other mapping addp u H. unfold union in H.
  destruct (negb (zlen mapping =? zlen (t_nodes other))); [discriminate|].
  destruct (bad_map self mapping); [discriminate|].
  unfold check_subset_equality in H. destruct (shared_lists 0 mapping) as [a b]. cbn [fst snd].
  destruct (subset self a false false) as [s1| | |] eqn:E1; cbn [bind] in H; try discriminate.
  destruct (subset other b false false) as [o1| | |] eqn:E2; cbn [bind] in H; try discriminate.
  destruct (canonicalise s1 false) as [s2| | |] eqn:E3; cbn [bind] in H; try discriminate.
  destruct (canonicalise o1 false) as [o2| | |] eqn:E4; cbn [bind] in H; try discriminate.
  destruct (tables_eqb s2 o2) eqn:E; cbn [bind] in H; try discriminate.
  exists s1, o1, s2, o2. repeat split; assumption.
Qed.
