(* C14 — subset: the model of tsk_table_collection_subset returns exactly [spec_subset]
   on every table collection whose references are in range and every in-range node list
   (any order, duplicates allowed), and TSK_ERR_NODE_OUT_OF_BOUNDS otherwise. *)
From Coq Require Import List ZArith Bool Lia ZifyBool.
From TskVerif Require Import Base.Common C14.Model C14.Spec C14.Basics C14.SubsetInd C14.SubsetLoop C14.SubsetRows.
Import ListNotations.
Open Scope Z_scope.

Lemma unused_identity k rows : 0 <= k -> unused_populations identity_map k rows = [].
Proof.
  revert k. induction rows as [|r rows IH]; intros k Hk; auto.
  cbn [unused_populations]. unfold identity_map at 1.
  assert (k =? NULL = false) as -> by (rewrite NULL_neg; lia). apply IH. lia.
Qed.

Lemma node_pops_ok t nodes :
  refs_in_range t = true ->
  forall p, In p (node_pops t nodes) -> ref_ok (zlen (t_populations t)) p = true.
Proof.
  intros R p Hp. unfold node_pops in Hp. apply in_map_iff in Hp as [u [E _]].
  unfold node_row in E. destruct (getz (t_nodes t) u) eqn:G; subst p; try reflexivity.
  apply getz_In in G. now destruct (refs_nodes t R _ G).
Qed.

Lemma split_first_bad {A} (f : A -> bool) l :
  forallb f l = false -> exists pre x suf, l = pre ++ x :: suf /\ forallb f pre = true /\ f x = false.
Proof.
  induction l as [|a l IH]; intros H. { discriminate. }
  cbn [forallb] in H. destruct (f a) eqn:E.
  - cbn [andb] in H. destruct (IH H) as [pre [x [suf [-> [P X]]]]].
    exists (a :: pre), x, suf. repeat split; auto. cbn [forallb]. now rewrite E, P.
  - exists [], a, l. repeat split; auto.
Qed.

Lemma imap_nonnull t nodes ku imap :
  refs_in_range t = true ->
  agree_on (zlen (t_individuals t)) imap (ind_map t nodes ku) ->
  forall u r, In u nodes -> node_row t u = Some r -> n_ind r <> NULL -> imap (n_ind r) <> NULL.
Proof.
  intros R A u r Hu Hr N.
  assert (In r (t_nodes t)) as Ir.
  { unfold node_row in Hr. destruct (getz (t_nodes t) u) eqn:G; inversion Hr; subst. eapply getz_In; eauto. }
  destruct (refs_nodes t R r Ir) as [_ Ri]. apply ref_ok_cases in Ri as [Ri|[_ Ri]]; [contradiction|].
  rewrite (A (n_ind r)) by (now apply in_range_iff).
  intros E. apply kept_map_null_iff in E. unfold ind_kept in E. apply orb_false_iff in E as [_ E].
  unfold ind_referenced in E. rewrite <- not_true_iff_false in E. apply E.
  apply existsb_exists. exists u. split; auto. rewrite Hr. apply Z.eqb_refl.
Qed.

Theorem subset_exact_lemma : forall t nodes ku ncp,
  refs_in_range t = true ->
  forallb (in_range (zlen (t_nodes t))) nodes = true ->
  subset t nodes ku ncp = Ok (spec_subset t nodes ku ncp).
Proof.
  intros t nodes ku ncp R H. unfold subset.
  (* marks and the individual map *)
  assert (exists marks,
    (if ku then Ok (fun _ : Z => 0) else mfold (mark_individual t) nodes mnull) = Ok marks /\
    agree_on (zlen (t_individuals t)) (renumber marks (zrange (length (t_individuals t))) 0) (ind_map t nodes ku))
    as [marks [-> A]].
  { destruct ku.
    - eexists. split; [reflexivity|]. apply imap_spec; [reflexivity|discriminate].
    - destruct (marks_spec t nodes R H) as [m [Hm Sm]]. exists m. split; auto.
      apply imap_spec; [discriminate|auto]. }
  cbn [bind]. set (imap := renumber marks (zrange (length (t_individuals t))) 0) in *.
  (* individuals *)
  rewrite (subset_individuals_spec imap (ind_map t nodes ku) (ind_kept t nodes ku)); auto; try lia.
  2:{ intros i _. apply ind_map_null. }
  2:{ apply (refs_individuals t R). }
  cbn [bind]. fold (spec_individuals t nodes ku).
  (* node loop *)
  destruct (node_loop t nodes (spec_individuals t nodes ku) imap
                      (if ncp then t_populations t else []) (if ncp then identity_map else mnull) R H
                      (imap_nonnull t nodes ku imap R A))
    as [s [Hs [Si [Sm [Sp [Sn [So _]]]]]]].
  rewrite Hs. cbn [bind].
  (* edges *)
  rewrite (subset_edges_spec nodes) by (auto; apply (refs_edges t R)). cbn [bind].
  (* mutations, first pass *)
  destruct (pass1_spec nodes (st_nmap s) (zlen (t_nodes t)) (zlen (t_sites t)) (t_mutations t) Sn
                       (t_mutations t) [] 0 mnull mnull eq_refl) as [mmap [smarks [P1 [Pm Ps]]]].
  { intros m Hm. destruct (refs_mutations t R m Hm) as [? [? ?]]. auto. }
  rewrite zlen_nil in P1. rewrite P1. cbn [bind].
  (* sites *)
  pose proof (subset_sites_spec ku (t_sites t) 0 0 smarks ltac:(lia)) as SS. cbn zeta in SS.
  destruct (subset_sites ku (t_sites t) 0 0 smarks) as [ss smap]. cbn [fst snd] in SS. destruct SS as [S1 S2].
  assert (forall i, (ku || negb (smarks i =? NULL)) = site_kept t nodes ku i) as KS.
  { intros i. unfold site_kept, site_referenced. rewrite Ps. cbn [mnull]. 
    assert (mnull i =? NULL = true) as -> by reflexivity. cbn [andb]. now rewrite negb_involutive. }
  (* mutations, last pass *)
  rewrite (subset_mutations_spec nodes (st_nmap s) mmap smap
             (kept_map (mut_kept t nodes)) (kept_map (site_kept t nodes ku))); auto.
  2:{ intros q Hq. rewrite Pm, zlen_nil. fold (zlen (t_mutations t)).
      assert ((0 <=? q) && (q <? zlen (t_mutations t)) = true) as -> by lia. cbn [andb].
      unfold kept_map. change (keepq nodes (t_mutations t) q) with (mut_kept t nodes q).
      destruct (mut_kept t nodes q); auto. rewrite Z.add_0_l, Z.sub_0_r. reflexivity. }
  2:{ intros i Hi. rewrite S2. assert ((0 <=? i) && (i <? 0 + zlen (t_sites t)) = true) as -> by lia. cbn [andb].
      rewrite KS. unfold kept_map. destruct (site_kept t nodes ku i) eqn:K.
      - rewrite Z.add_0_l, Z.sub_0_r. unfold rank. apply count_from_ext. intros; apply KS.
      - specialize (KS i). rewrite K in KS. apply orb_false_iff in KS as [_ KS].
        apply negb_false_iff in KS. now apply Z.eqb_eq. }
  2:{ apply (refs_mutations t R). }
  cbn [bind]. f_equal. unfold spec_subset. f_equal.
  - (* nodes *)
    rewrite So. change (flat_map _ nodes) with (nodes_out t (pop_map t nodes ncp) (ind_map t nodes ku) nodes).
    apply nodes_out_ext. intros u r Hu Hr.
    assert (In r (t_nodes t)) as Ir.
    { unfold node_row in Hr. destruct (getz (t_nodes t) u) eqn:G; inversion Hr; subst. eapply getz_In; eauto. }
    destruct (refs_nodes t R r Ir) as [Rp Ri]. split.
    + unfold remap_ref. destruct (n_pop r =? NULL) eqn:E; auto. unfold pop_map. destruct ncp.
      * rewrite pop_fold_identity in Sp. { now inversion Sp. }
        intros p Hp. apply (node_pops_ok t nodes R) in Hp. apply ref_ok_cases in Hp as [?|[_ Hp]]; auto.
        apply in_range_iff in Hp. lia.
      * destruct (pop_fold_fresh (t_populations t) (node_pops t nodes) (node_pops_ok t nodes R)) as [_ [F2 _]].
        rewrite <- Sp in F2. cbn [snd] in F2. apply F2.
    + unfold remap_ref. destruct (n_ind r =? NULL) eqn:E; auto.
      apply ref_ok_cases in Ri as [Ri|[_ Ri]]. { apply Z.eqb_neq in E. contradiction. }
      apply A. now apply in_range_iff.
  - (* sites *)
    unfold spec_sites. rewrite S1. apply filteri_ext. intros; apply KS.
  - (* individuals *) exact Si.
  - (* populations *)
    unfold spec_populations. destruct ncp.
    + rewrite pop_fold_identity in Sp.
      2:{ intros p Hp. apply (node_pops_ok t nodes R) in Hp. apply ref_ok_cases in Hp as [?|[_ Hp]]; auto.
          apply in_range_iff in Hp. lia. }
      inversion Sp as [[E1 E2]]. rewrite ?E1, ?E2. destruct ku; auto. rewrite unused_identity by lia. apply app_nil_r.
    + destruct (pop_fold_fresh (t_populations t) (node_pops t nodes) (node_pops_ok t nodes R)) as [F1 [F2 _]].
      rewrite <- Sp in F1, F2. cbn [fst snd] in F1, F2. rewrite F1. fold (pop_order t nodes).
      destruct ku; [|now rewrite app_nil_r]. f_equal. now apply unused_populations_spec.
Qed.

(* a node id outside the node table is refused with TSK_ERR_NODE_OUT_OF_BOUNDS *)
Theorem subset_out_of_range_lemma : forall t nodes ku ncp,
  refs_in_range t = true ->
  forallb (in_range (zlen (t_nodes t))) nodes = false ->
  subset t nodes ku ncp = Err ERR_NODE_OOB.
Proof.
  intros t nodes ku ncp R H. unfold subset. destruct ku.
  2:{ rewrite marks_oob by auto. reflexivity. }
  cbn [bind]. set (imap := renumber (fun _ : Z => 0) (zrange (length (t_individuals t))) 0).
  assert (agree_on (zlen (t_individuals t)) imap (ind_map t nodes true)) as A.
  { apply imap_spec; [reflexivity|discriminate]. }
  rewrite (subset_individuals_spec imap (ind_map t nodes true) (ind_kept t nodes true)); auto; try lia.
  2:{ intros i _. apply ind_map_null. }
  2:{ apply (refs_individuals t R). }
  cbn [bind].
  set (inds0 := map (spec_individual (ind_map t nodes true)) (filteri (ind_kept t nodes true) 0 (t_individuals t))).
  destruct (split_first_bad _ _ H) as [pre [x [suf [E [P X]]]]].
  assert (agree_on (zlen (t_individuals t)) imap (ind_map t pre true)) as A'.
  { apply imap_spec; [reflexivity|discriminate]. }
  destruct (node_loop t pre inds0 imap
                      (if ncp then t_populations t else []) (if ncp then identity_map else mnull) R P
                      (imap_nonnull t pre true imap R A'))
    as [s [Hs _]].
  rewrite E, mfold_app, Hs. cbn [bind mfold].
  unfold add_and_remap_node, get_row, getz. rewrite X. reflexivity.
Qed.
