(* C14 — union, sites and mutations of the final result (after sort, deduplicate_sites, sort,
   compute_mutation_parents): one site per position; every site row comes from self or from a
   site of `other` that carries a mutation on a new node, and every such position is present;
   the mutations are self's plus exactly other's mutations on new nodes (node renumbered,
   derived state / time / metadata kept), up to order, site id and the recomputed parent. *)
From Coq Require Import List ZArith Bool Lia ZifyBool Permutation Sorted RelationClasses.
From TskVerif Require Import Base.Common C14.Model C14.Spec C14.Basics C14.SubsetInd C14.UnionProofs
     C14.UnionRows C14.SortProofs.
Import ListNotations.
Open Scope Z_scope.

Lemma isort_id {A} (le : A -> A -> bool) l :
  Sorted (fun a b => le a b = true) l -> isort le l = l.
Proof.
  unfold isort. induction 1 as [|x l S IH H]; cbn [fold_right]; auto.
  rewrite IH. destruct H as [|y l H]; cbn [insert]; auto. now rewrite H.
Qed.

Lemma sort_sites_sorted_id ss k :
  Sorted (fun a b => s_pos a <= s_pos b) ss -> map snd (isort site_le (index_from k ss)) = ss.
Proof.
  intros S. rewrite isort_id. { apply index_from_snd. }
  revert k. induction S as [|s l S IH H]; intros k; cbn [index_from]; constructor; auto.
  destruct H as [|s' l H]; cbn [index_from]; constructor.
  unfold site_le. cbn [fst snd]. destruct (Z.compare_spec (s_pos s) (s_pos s')); auto; lia.
Qed.

Lemma sort_tables_sites_id t t' :
  sort_tables t = Ok t' -> Sorted (fun a b => s_pos a <= s_pos b) (t_sites t) -> t_sites t' = t_sites t.
Proof.
  unfold sort_tables, sort_sites_mutations. intros H S.
  destruct (mfold _ (t_mutations t) []) as [ms1| | |]; cbn [bind] in H; try discriminate.
  destruct (mfold _ (isort mutation_le (index_from 0 ms1)) []) as [ms2| | |]; cbn [bind] in H; try discriminate.
  inversion H; subst. cbn [t_sites]. now apply sort_sites_sorted_id.
Qed.

Lemma strongly_lt_le (l : list site) :
  StronglySorted (fun a b => s_pos a < s_pos b) l -> Sorted (fun a b => s_pos a <= s_pos b) l.
Proof.
  intros S. apply StronglySorted_Sorted.
  induction S as [|a l S IH F]; constructor; auto. eapply Forall_impl; [|exact F]. cbv beta. intros; lia.
Qed.

Definition union_raw_sites (self other : tables) (mapping : list Z) : list site :=
  t_sites self ++ filteri (site_has_new mapping (t_mutations other)) 0 (t_sites other).
Definition union_raw_mutations (self other : tables) (mapping : list Z) : list mutation :=
  t_mutations self ++
  map (fun m => union_mut self mapping
                  (zlen (t_sites self) + rank (site_has_new mapping (t_mutations other)) (m_site m)) m)
      (filter (mut_new mapping) (t_mutations other)).

Theorem union_sites_mutations_lemma : forall self other mapping check_shared add_populations u,
  node_refs_ok other ->
  grouped 0 (length (t_sites other)) (t_mutations other) = true ->
  (forall m, In m (t_mutations other) -> in_range (zlen (t_nodes other)) (m_node m) = true) ->
  union self other mapping check_shared add_populations = Ok u ->
  (* mutations *)
  Permutation (map mut_core (t_mutations u)) (map mut_core (union_raw_mutations self other mapping)) /\
  (* sites: merged by position *)
  StronglySorted (fun a b => s_pos a < s_pos b) (t_sites u) /\
  (forall s, In s (t_sites u) -> In s (union_raw_sites self other mapping)) /\
  (forall s, In s (union_raw_sites self other mapping) -> exists s', In s' (t_sites u) /\ s_pos s' = s_pos s).
Proof.
  intros self other mapping chk addp u R G Rm H. unfold union in H.
  destruct (zlen mapping =? zlen (t_nodes other)) eqn:L; cbn [negb] in H; [|discriminate].
  apply Z.eqb_eq in L.
  destruct (bad_map self mapping); [discriminate|].
  destruct (if chk then check_subset_equality self other mapping else Ok tt) as [[]| | |]; cbn [bind] in H; try discriminate.
  destruct (union_raw self other mapping addp) as [t1| | |] eqn:U; cbn [bind] in H; try discriminate.
  destruct (check_node_populations t1) as [[]| | |]; cbn [bind] in H; try discriminate.
  destruct (sort_tables t1) as [t2| | |] eqn:S1; cbn [bind] in H; try discriminate.
  destruct (deduplicate_sites t2) as [t3| | |] eqn:D; cbn [bind] in H; try discriminate.
  destruct (sort_tables t3) as [t4| | |] eqn:S2; cbn [bind] in H; try discriminate.
  destruct (union_raw_sites_mutations _ _ _ _ _ R L G Rm U) as [Rs Rmu].
  fold (union_raw_sites self other mapping) in Rs. fold (union_raw_mutations self other mapping) in Rmu.
  destruct (sort_tables_spec _ _ S1) as [_ [_ [_ [_ [_ [a1 [a2 a3]]]]]]].
  assert (StronglySorted (fun a b => s_pos a <= s_pos b) (t_sites t2)) as SS2.
  { apply Sorted_StronglySorted; auto. intros x y z; lia. }
  destruct (deduplicate_sites_spec _ _ D SS2) as [b1 [b2 [b3 b4]]].
  pose proof (sort_tables_sites_id _ _ S2 (strongly_lt_le _ b1)) as c1.
  destruct (sort_tables_spec _ _ S2) as [_ [_ [_ [_ [_ [_ [_ c3]]]]]]].
  destruct (compute_mutation_parents_spec _ _ H) as [d1 d2].
  split; [|split; [|split]].
  - rewrite d2, c3, b4, a3, Rmu. reflexivity.
  - rewrite d1, c1. exact b1.
  - intros s Hs. rewrite d1, c1 in Hs. apply b2 in Hs. rewrite <- Rs. eapply Permutation_in; eauto.
  - intros s Hs. rewrite <- Rs in Hs. apply (Permutation_in _ (Permutation_sym a1)) in Hs.
    destruct (b3 s Hs) as [s' [A B]]. exists s'. rewrite d1, c1. auto.
Qed.

(* non-vacuity: Examples.ex_other is sorted, hence grouped, and has a mutation on a new node *)
From TskVerif Require Import C14.Examples.
Example ex_other_grouped : grouped 0 (length (t_sites ex_other)) (t_mutations ex_other) = true.
Proof. vm_compute. reflexivity. Qed.
Example ex_other_new_mutations :
  length (filter (mut_new ex_mapping) (t_mutations ex_other)) = 1%nat /\
  length (filteri (site_has_new ex_mapping (t_mutations ex_other)) 0 (t_sites ex_other)) = 1%nat.
Proof. vm_compute. split; reflexivity. Qed.
Example ex_canonicalise_ok : is_ok (canonicalise ex_t false) = true.
Proof. vm_compute. reflexivity. Qed.
Example ex_sort_ok : is_ok (sort_tables ex_self) = true.
Proof. vm_compute. reflexivity. Qed.
