(* C14 — basic lemmas: checked access, id maps, rank / kept_map / filteri, renumber. *)
From Coq Require Import List ZArith Bool Lia ZifyBool.
From TskVerif Require Import Base.Common C14.Model C14.Spec.
Import ListNotations.
Open Scope Z_scope.

Global Arguments NULL : simpl never.

(* ------------------------------------------------------------------ basics *)
Lemma in_range_iff n i : in_range n i = true <-> 0 <= i < n.
Proof. unfold in_range. rewrite andb_true_iff, Z.leb_le, Z.ltb_lt. tauto. Qed.

Lemma in_range_false n i : in_range n i = false <-> ~ (0 <= i < n).
Proof. rewrite <- in_range_iff. destruct (in_range n i); split; congruence. Qed.

Lemma zlen_nonneg {A} (l : list A) : 0 <= zlen l.
Proof. unfold zlen. lia. Qed.

Lemma zlen_app {A} (a b : list A) : zlen (a ++ b) = zlen a + zlen b.
Proof. unfold zlen. rewrite app_length. lia. Qed.

Lemma zlen_cons {A} (a : A) (l : list A) : zlen (a :: l) = 1 + zlen l.
Proof. unfold zlen. simpl length. lia. Qed.

Lemma zlen_nil A : zlen (@nil A) = 0.
Proof. reflexivity. Qed.

Lemma zlen_map {A B} (f : A -> B) l : zlen (map f l) = zlen l.
Proof. unfold zlen. now rewrite map_length. Qed.

Lemma getz_nil {A} i : getz (@nil A) i = OOB.
Proof.
  unfold getz. destruct (in_range (zlen (@nil A)) i) eqn:E; auto.
  apply in_range_iff in E. rewrite zlen_nil in E. lia.
Qed.

Lemma getz_cons_0 {A} (a : A) l : getz (a :: l) 0 = Ok a.
Proof.
  unfold getz. rewrite zlen_cons.
  assert (in_range (1 + zlen l) 0 = true) as -> by (apply in_range_iff; pose proof (zlen_nonneg l); lia).
  reflexivity.
Qed.

Lemma getz_cons_S {A} (a : A) l k : 0 <= k -> getz (a :: l) (k + 1) = getz l k.
Proof.
  intros Hk. unfold getz. rewrite zlen_cons.
  destruct (in_range (zlen l) k) eqn:E.
  - assert (in_range (1 + zlen l) (k + 1) = true) as -> by (apply in_range_iff; apply in_range_iff in E; lia).
    unfold get. assert (k + 1 <? 0 = false) as -> by lia. assert (k <? 0 = false) as -> by lia.
    replace (Z.to_nat (k + 1)) with (S (Z.to_nat k)) by lia. reflexivity.
  - assert (in_range (1 + zlen l) (k + 1) = false) as ->; auto.
    apply in_range_false. apply in_range_false in E. lia.
Qed.

Lemma getz_neg {A} (l : list A) k : k < 0 -> getz l k = OOB.
Proof.
  intros. unfold getz. assert (in_range (zlen l) k = false) as ->; auto. apply in_range_false. lia.
Qed.

Lemma getz_in_range {A} (l : list A) k : in_range (zlen l) k = true -> exists a, getz l k = Ok a.
Proof.
  revert k. induction l as [|a l IH]; intros k H.
  - apply in_range_iff in H. rewrite zlen_nil in H. lia.
  - apply in_range_iff in H. rewrite zlen_cons in H.
    destruct (Z.eq_dec k 0) as [->|N]. { eexists. apply getz_cons_0. }
    replace k with ((k - 1) + 1) by lia. rewrite getz_cons_S by lia.
    apply IH. apply in_range_iff. lia.
Qed.

Lemma getz_ok_range {A} (l : list A) k a : getz l k = Ok a -> in_range (zlen l) k = true.
Proof. unfold getz. destruct (in_range (zlen l) k); congruence. Qed.

Lemma getz_app_l {A} (l1 l2 : list A) k : in_range (zlen l1) k = true -> getz (l1 ++ l2) k = getz l1 k.
Proof.
  revert k. induction l1 as [|a l IH]; intros k H.
  - apply in_range_iff in H. rewrite zlen_nil in H. lia.
  - apply in_range_iff in H. rewrite zlen_cons in H. simpl app.
    destruct (Z.eq_dec k 0) as [->|N]. { now rewrite !getz_cons_0. }
    replace k with ((k - 1) + 1) by lia. rewrite !getz_cons_S by lia.
    apply IH. apply in_range_iff. lia.
Qed.

Lemma getz_app_r {A} (l1 l2 : list A) k : 0 <= k -> getz (l1 ++ l2) (zlen l1 + k) = getz l2 k.
Proof.
  intros Hk. induction l1 as [|a l IH].
  - rewrite zlen_nil. now rewrite Z.add_0_l.
  - rewrite zlen_cons. simpl app. replace (1 + zlen l + k) with ((zlen l + k) + 1) by lia.
    rewrite getz_cons_S by (pose proof (zlen_nonneg l); lia). exact IH.
Qed.

Lemma upd_same' m i v k : k = i -> upd m i v k = v.
Proof. intros ->. unfold upd. now rewrite Z.eqb_refl. Qed.
Lemma upd_same m i v : upd m i v i = v.
Proof. now apply upd_same'. Qed.
Lemma upd_other m i v k : k <> i -> upd m i v k = m k.
Proof. unfold upd. intros. destruct (k =? i) eqn:E; auto. apply Z.eqb_eq in E. contradiction. Qed.

Lemma mfold_app {A S} (f : S -> A -> res S) l1 l2 s :
  mfold f (l1 ++ l2) s = (do s' <- mfold f l1 s; mfold f l2 s').
Proof.
  revert s. induction l1 as [|a l IH]; intros s; simpl; auto.
  destruct (f s a); simpl; auto.
Qed.

Lemma listed_app nodes x u : listed (nodes ++ [x]) u = listed nodes u || (u =? x).
Proof. unfold listed. rewrite existsb_app. simpl. now rewrite orb_false_r. Qed.

Lemma listed_In nodes u : listed nodes u = true <-> In u nodes.
Proof.
  unfold listed. rewrite existsb_exists. split.
  - intros [x [H E]]. apply Z.eqb_eq in E. now subst.
  - intros H. exists u. split; auto. apply Z.eqb_refl.
Qed.

(* ------------------------------------------------------------------ last_index *)
Lemma last_index_from_app s l x u acc :
  last_index_from s (l ++ [x]) u acc = if x =? u then s + zlen l else last_index_from s l u acc.
Proof.
  revert s acc. induction l as [|y l IH]; intros s acc; simpl.
  - rewrite zlen_nil. destruct (x =? u); auto. lia.
  - rewrite IH. rewrite zlen_cons. destruct (x =? u); auto. lia.
Qed.

Lemma node_index_snoc nodes x u :
  node_index (nodes ++ [x]) u = if x =? u then zlen nodes else node_index nodes u.
Proof. unfold node_index. rewrite last_index_from_app. now rewrite Z.add_0_l. Qed.

Lemma node_index_not_listed nodes u : listed nodes u = false -> node_index nodes u = NULL.
Proof.
  induction nodes as [|x nodes IH] using rev_ind; intros H; auto.
  rewrite listed_app in H. apply orb_false_iff in H as [H1 H2].
  rewrite node_index_snoc. rewrite Z.eqb_sym, H2. auto.
Qed.

(* a listed node is mapped to a position of the list that holds it *)
Lemma node_index_listed nodes u :
  listed nodes u = true -> getz nodes (node_index nodes u) = Ok u.
Proof.
  induction nodes as [|x nodes IH] using rev_ind; intros H. { discriminate. }
  rewrite listed_app in H. rewrite node_index_snoc.
  destruct (x =? u) eqn:E.
  - apply Z.eqb_eq in E. subst. replace (zlen nodes) with (zlen nodes + 0) by lia.
    rewrite getz_app_r by lia. apply getz_cons_0.
  - rewrite Z.eqb_sym, E, orb_false_r in H. specialize (IH H).
    rewrite getz_app_l; auto. eapply getz_ok_range; eauto.
Qed.

Lemma node_index_null_iff nodes u : node_index nodes u = NULL <-> listed nodes u = false.
Proof.
  split; [|apply node_index_not_listed].
  intros H. destruct (listed nodes u) eqn:E; auto.
  apply node_index_listed in E. rewrite H in E. rewrite getz_neg in E by (unfold NULL; lia). discriminate.
Qed.

(* ------------------------------------------------------------------ rank / kept_map / filteri *)
Lemma count_from_nonneg keep s n : 0 <= count_from keep s n.
Proof. revert s. induction n; intros s; simpl; [lia|]. specialize (IHn (s + 1)). destruct (keep s); lia. Qed.

Lemma count_from_snoc keep s n :
  count_from keep s (S n) = count_from keep s n + (if keep (s + Z.of_nat n) then 1 else 0).
Proof.
  revert s. induction n; intros s.
  - cbn [count_from]. replace (s + Z.of_nat 0) with s by lia. destruct (keep s); lia.
  - change (count_from keep s (S (S n))) with ((if keep s then 1 else 0) + count_from keep (s + 1) (S n)).
    rewrite IHn. cbn [count_from].
    replace (s + 1 + Z.of_nat n) with (s + Z.of_nat (S n)) by lia. lia.
Qed.

Lemma rank_nonneg keep k : 0 <= rank keep k.
Proof. apply count_from_nonneg. Qed.

Lemma rank_succ keep k : 0 <= k -> rank keep (k + 1) = rank keep k + (if keep k then 1 else 0).
Proof.
  intros H. unfold rank. replace (Z.to_nat (k + 1)) with (S (Z.to_nat k)) by lia.
  rewrite count_from_snoc. rewrite Z.add_0_l, Z2Nat.id by lia. reflexivity.
Qed.

Lemma rank_0 keep : rank keep 0 = 0.
Proof. reflexivity. Qed.

Lemma rank_mono keep a b : 0 <= a <= b -> rank keep a <= rank keep b.
Proof.
  intros [Ha Hab]. pattern b. apply Zlt_lower_bound_ind with (z := a); auto.
  intros x IH Hx. destruct (Z.eq_dec x a) as [->|N]; [lia|].
  replace x with ((x - 1) + 1) by lia. rewrite rank_succ by lia.
  specialize (IH (x - 1)). destruct (keep (x - 1)); lia.
Qed.

(* the new ids are strictly increasing along the retained rows: injective, order preserving *)
Lemma rank_strict keep a b : 0 <= a < b -> keep a = true -> rank keep a < rank keep b.
Proof.
  intros H K. assert (rank keep (a + 1) <= rank keep b) by (apply rank_mono; lia).
  rewrite rank_succ, K in H0 by lia. lia.
Qed.

Lemma kept_map_null_iff keep k : kept_map keep k = NULL <-> keep k = false.
Proof.
  unfold kept_map. destruct (keep k); split; auto; try discriminate.
  pose proof (rank_nonneg keep k). unfold NULL. lia.
Qed.

Lemma filteri_ext {A} keep1 keep2 (l : list A) k :
  (forall j, k <= j < k + zlen l -> keep1 j = keep2 j) -> filteri keep1 k l = filteri keep2 k l.
Proof.
  revert k. induction l as [|a l IH]; intros k H; simpl; auto.
  rewrite zlen_cons in H. pose proof (zlen_nonneg l).
  rewrite (H k) by lia. rewrite (IH (k + 1)) by (intros; apply H; lia). reflexivity.
Qed.

Lemma filteri_length {A} keep (l : list A) k :
  zlen (filteri keep k l) = count_from keep k (length l).
Proof.
  revert k. induction l as [|a l IH]; intros k; simpl; auto.
  destruct (keep k); [rewrite zlen_cons|]; rewrite IH; lia.
Qed.

Lemma filteri_app {A} keep (l1 l2 : list A) k :
  filteri keep k (l1 ++ l2) = filteri keep k l1 ++ filteri keep (k + zlen l1) l2.
Proof.
  revert k. induction l1 as [|a l IH]; intros k; simpl.
  - rewrite zlen_nil. now rewrite Z.add_0_r.
  - rewrite zlen_cons. rewrite IH. replace (k + 1 + zlen l) with (k + (1 + zlen l)) by lia.
    destruct (keep k); auto.
Qed.

(* the retained row with old id k is at position rank k of the output *)
Lemma filteri_getz {A} keep (l : list A) k a :
  getz l k = Ok a -> keep k = true -> getz (filteri keep 0 l) (rank keep k) = Ok a.
Proof.
  induction l as [|x l IH] using rev_ind; intros G K. { rewrite getz_nil in G. discriminate. }
  rewrite filteri_app, Z.add_0_l. simpl filteri.
  pose proof (getz_ok_range _ _ _ G) as R. apply in_range_iff in R. rewrite zlen_app, zlen_cons, zlen_nil in R.
  destruct (Z.eq_dec k (zlen l)) as [->|N].
  - replace (zlen l) with (zlen l + 0) in G by lia. rewrite getz_app_r in G by lia.
    rewrite getz_cons_0 in G. inversion G; subst. rewrite K.
    assert (rank keep (zlen l) = zlen (filteri keep 0 l)) as ->.
    { rewrite filteri_length. unfold rank, zlen. now rewrite Nat2Z.id. }
    replace (zlen (filteri keep 0 l)) with (zlen (filteri keep 0 l) + 0) at 1 by lia.
    rewrite getz_app_r by lia. apply getz_cons_0.
  - assert (in_range (zlen l) k = true) as Rk by (apply in_range_iff; lia).
    rewrite getz_app_l in G by auto. specialize (IH G K).
    rewrite getz_app_l; auto. eapply getz_ok_range; eauto.
Qed.

(* ------------------------------------------------------------------ renumber (12976-12982) *)
Lemma renumber_spec m s n j k :
  0 <= j ->
  renumber m (zrange_from s n) j k =
    if (s <=? k) && (k <? s + Z.of_nat n)
    then (if m k =? NULL then NULL else j + count_from (fun i => negb (m i =? NULL)) s (Z.to_nat (k - s)))
    else m k.
Proof.
  revert m s j. induction n as [|n IH]; intros m s j Hj.
  - simpl. assert ((s <=? k) && (k <? s + 0) = false) as -> by lia. reflexivity.
  - simpl zrange_from. simpl renumber.
    destruct (m s =? NULL) eqn:Ms.
    + rewrite IH by lia.
      destruct (Z.eq_dec k s) as [->|N].
      * assert ((s + 1 <=? s) && (s <? s + 1 + Z.of_nat n) = false) as -> by lia.
        assert ((s <=? s) && (s <? s + Z.of_nat (S n)) = true) as -> by lia.
        rewrite Ms. apply Z.eqb_eq in Ms. auto.
      * destruct ((s <=? k) && (k <? s + Z.of_nat (S n))) eqn:R.
        -- assert ((s + 1 <=? k) && (k <? s + 1 + Z.of_nat n) = true) as -> by lia.
           destruct (m k =? NULL); auto.
           replace (Z.to_nat (k - s)) with (S (Z.to_nat (k - (s + 1)))) by lia.
           cbn [count_from]. rewrite Ms. cbn [negb]. lia.
        -- assert ((s + 1 <=? k) && (k <? s + 1 + Z.of_nat n) = false) as -> by lia. auto.
    + rewrite IH by lia.
      destruct (Z.eq_dec k s) as [->|N].
      * assert ((s + 1 <=? s) && (s <? s + 1 + Z.of_nat n) = false) as -> by lia.
        assert ((s <=? s) && (s <? s + Z.of_nat (S n)) = true) as -> by lia.
        rewrite upd_same' by reflexivity. rewrite Ms. rewrite Z.sub_diag. simpl. lia.
      * rewrite upd_other by auto.
        destruct ((s <=? k) && (k <? s + Z.of_nat (S n))) eqn:R.
        -- assert ((s + 1 <=? k) && (k <? s + 1 + Z.of_nat n) = true) as -> by lia.
           destruct (m k =? NULL); auto.
           replace (Z.to_nat (k - s)) with (S (Z.to_nat (k - (s + 1)))) by lia.
           cbn [count_from]. rewrite Ms. cbn [negb].
           assert (count_from (fun i => negb (upd m s j i =? NULL)) (s + 1) (Z.to_nat (k - (s + 1)))
                   = count_from (fun i => negb (m i =? NULL)) (s + 1) (Z.to_nat (k - (s + 1)))) as ->; [|lia].
           clear. generalize (Z.to_nat (k - (s + 1))) as c. intros c.
           assert (forall a, s < a -> count_from (fun i => negb (upd m s j i =? NULL)) a c
                                    = count_from (fun i => negb (m i =? NULL)) a c) as X.
           { induction c; intros a Ha; simpl; auto. rewrite upd_other by lia. rewrite IHc by lia. auto. }
           apply X. lia.
        -- assert ((s + 1 <=? k) && (k <? s + 1 + Z.of_nat n) = false) as -> by lia. auto.
Qed.

Lemma count_from_ext k1 k2 s n :
  (forall i, s <= i < s + Z.of_nat n -> k1 i = k2 i) -> count_from k1 s n = count_from k2 s n.
Proof.
  revert s. induction n; intros s H; simpl; auto.
  rewrite H by lia. rewrite IHn; auto. intros. apply H. lia.
Qed.

(* the individual map built by the C code is [kept_map] on the table's index range *)
Lemma renumber_kept_map m n (keep : Z -> bool) k :
  (forall i, 0 <= i < Z.of_nat n -> (m i =? NULL) = negb (keep i)) ->
  0 <= k < Z.of_nat n ->
  renumber m (zrange n) 0 k = kept_map keep k.
Proof.
  intros H Hk. unfold zrange. rewrite renumber_spec by lia.
  assert ((0 <=? k) && (k <? 0 + Z.of_nat n) = true) as -> by lia.
  unfold kept_map. rewrite H by lia. destruct (keep k); simpl; auto.
  rewrite ?Z.add_0_l, ?Z.sub_0_r. unfold rank. apply count_from_ext.
  intros i Hi. rewrite H by lia. now rewrite negb_involutive.
Qed.
