(* C14 — subset, part 1: the individual map and the individual table (tables.c 12959-13009). *)
From Coq Require Import List ZArith Bool Lia ZifyBool.
From TskVerif Require Import Base.Common C14.Model C14.Spec C14.Basics.
Import ListNotations.
Open Scope Z_scope.

(* ---- what refs_in_range gives ---- *)
Lemma refs_nodes t : refs_in_range t = true ->
  forall r, In r (t_nodes t) ->
    ref_ok (zlen (t_populations t)) (n_pop r) = true /\ ref_ok (zlen (t_individuals t)) (n_ind r) = true.
Proof.
  unfold refs_in_range. rewrite !andb_true_iff. intros [[[H _] _] _] r Hr.
  rewrite forallb_forall in H. specialize (H r Hr). now apply andb_true_iff in H.
Qed.

Lemma refs_edges t : refs_in_range t = true ->
  forall e, In e (t_edges t) ->
    in_range (zlen (t_nodes t)) (e_parent e) = true /\ in_range (zlen (t_nodes t)) (e_child e) = true.
Proof.
  unfold refs_in_range. rewrite !andb_true_iff. intros [[[_ H] _] _] r Hr.
  rewrite forallb_forall in H. specialize (H r Hr). now apply andb_true_iff in H.
Qed.

Lemma refs_mutations t : refs_in_range t = true ->
  forall m, In m (t_mutations t) ->
    in_range (zlen (t_nodes t)) (m_node m) = true /\ in_range (zlen (t_sites t)) (m_site m) = true /\
    ref_ok (zlen (t_mutations t)) (m_parent m) = true.
Proof.
  unfold refs_in_range. rewrite !andb_true_iff. intros [[_ H] _] r Hr.
  rewrite forallb_forall in H. specialize (H r Hr). rewrite !andb_true_iff in H. tauto.
Qed.

Lemma refs_individuals t : refs_in_range t = true ->
  forall r, In r (t_individuals t) -> forall p, In p (i_parents r) -> ref_ok (zlen (t_individuals t)) p = true.
Proof.
  unfold refs_in_range. rewrite !andb_true_iff. intros [_ H] r Hr p Hp.
  rewrite forallb_forall in H. specialize (H r Hr). rewrite forallb_forall in H. auto.
Qed.

Lemma ref_ok_cases n x : ref_ok n x = true -> x = NULL \/ (x <> NULL /\ in_range n x = true).
Proof.
  unfold ref_ok. intros H. apply orb_true_iff in H as [H|H].
  - left. now apply Z.eqb_eq.
  - right. split; auto. apply in_range_iff in H. unfold NULL. lia.
Qed.

Lemma getz_In {A} (l : list A) k a : getz l k = Ok a -> In a l.
Proof.
  revert k. induction l as [|x l IH]; intros k H. { rewrite getz_nil in H. discriminate. }
  destruct (Z.eq_dec k 0) as [->|N]. { rewrite getz_cons_0 in H. inversion H. now left. }
  destruct (Z_lt_dec k 0). { rewrite getz_neg in H by lia. discriminate. }
  replace k with ((k - 1) + 1) in H by lia. rewrite getz_cons_S in H by lia. right. eauto.
Qed.

Lemma node_row_some t u : in_range (zlen (t_nodes t)) u = true -> exists r, node_row t u = Some r /\ In r (t_nodes t).
Proof.
  intros H. destruct (getz_in_range _ _ H) as [r Hr]. exists r. unfold node_row. rewrite Hr.
  split; auto. eapply getz_In; eauto.
Qed.

Lemma get_row_node t u r : node_row t u = Some r -> get_row (t_nodes t) u ERR_NODE_OOB = Ok r.
Proof. unfold node_row, get_row. destruct (getz (t_nodes t) u); congruence. Qed.

Lemma ind_referenced_app t nodes x i :
  ind_referenced t (nodes ++ [x]) i =
  ind_referenced t nodes i || match node_row t x with Some r => n_ind r =? i | None => false end.
Proof. unfold ind_referenced. rewrite existsb_app. simpl. now rewrite orb_false_r. Qed.

(* ---- 12965-12974: the marks ---- *)
Lemma marks_spec t nodes :
  refs_in_range t = true ->
  forallb (in_range (zlen (t_nodes t))) nodes = true ->
  exists m, mfold (mark_individual t) nodes mnull = Ok m /\
            forall i, 0 <= i -> m i = if ind_referenced t nodes i then 0 else NULL.
Proof.
  intros R. induction nodes as [|x nodes IH] using rev_ind; intros H.
  - exists mnull. split; auto.
  - rewrite forallb_app in H. apply andb_true_iff in H as [H1 H2]. simpl in H2. rewrite andb_true_r in H2.
    destruct (IH H1) as [m [Hm Sm]]. rewrite mfold_app, Hm. simpl.
    destruct (node_row_some t x H2) as [r [Hr Ir]].
    unfold mark_individual. rewrite (get_row_node _ _ _ Hr). simpl.
    destruct (refs_nodes t R r Ir) as [_ Hi].
    destruct (n_ind r =? NULL) eqn:E.
    + exists m. split; auto. intros i Hi0. rewrite ind_referenced_app, Hr, Sm by auto.
      apply Z.eqb_eq in E. assert (n_ind r =? i = false) as -> by (unfold NULL in E; lia).
      now rewrite orb_false_r.
    + apply ref_ok_cases in Hi as [Hi|[_ Hi]]. { apply Z.eqb_neq in E. contradiction. }
      unfold mset. rewrite Hi. eexists. split; [reflexivity|].
      intros i Hi0. rewrite ind_referenced_app, Hr.
      destruct (n_ind r =? i) eqn:F.
      * apply Z.eqb_eq in F. subst. rewrite upd_same' by reflexivity. rewrite orb_true_r. auto.
      * rewrite upd_other by (apply Z.eqb_neq in F; congruence). rewrite orb_false_r. auto.
Qed.

(* a node out of range is reported (first offending entry) *)
Lemma marks_oob t nodes :
  refs_in_range t = true ->
  forallb (in_range (zlen (t_nodes t))) nodes = false ->
  mfold (mark_individual t) nodes mnull = Err ERR_NODE_OOB.
Proof.
  intros R. induction nodes as [|x nodes IH] using rev_ind; intros H. { discriminate. }
  rewrite forallb_app in H. simpl in H. rewrite andb_true_r in H.
  rewrite mfold_app.
  destruct (forallb (in_range (zlen (t_nodes t))) nodes) eqn:E.
  - destruct (marks_spec t nodes R E) as [m [Hm _]]. rewrite Hm. simpl in *.
    unfold mark_individual, get_row, getz. rewrite H. reflexivity.
  - rewrite IH; auto.
Qed.

(* ---- 12976-12982: the individual map ---- *)
Definition agree_on (n : Z) (m1 m2 : zmap) : Prop := forall i, 0 <= i < n -> m1 i = m2 i.

Lemma imap_spec t nodes ku marks :
  (ku = true -> marks = (fun _ : Z => 0)) ->
  (ku = false -> forall i, 0 <= i -> marks i = if ind_referenced t nodes i then 0 else NULL) ->
  agree_on (zlen (t_individuals t))
           (renumber marks (zrange (length (t_individuals t))) 0) (ind_map t nodes ku).
Proof.
  intros H1 H2 i Hi. unfold ind_map. apply renumber_kept_map; [|unfold zlen in Hi; lia].
  intros j Hj. unfold ind_kept. destruct ku.
  - rewrite H1 by auto. reflexivity.
  - rewrite H2 by (auto; lia). simpl. destruct (ind_referenced t nodes j); reflexivity.
Qed.

(* ---- 12986-12999: parents ---- *)
Lemma spec_parents_cons m p ps :
  spec_parents m (p :: ps) =
  if (p =? NULL) || negb (m p =? NULL) then remap_ref m p :: spec_parents m ps else spec_parents m ps.
Proof. unfold spec_parents. cbn [filter]. destruct ((p =? NULL) || negb (m p =? NULL)); reflexivity. Qed.

Lemma remap_parents_spec imap m ni ps :
  agree_on ni imap m ->
  (forall p, In p ps -> ref_ok ni p = true) ->
  remap_parents imap ni ps = Ok (spec_parents m ps).
Proof.
  intros A. induction ps as [|p ps IH]; intros H. { reflexivity. }
  cbn [remap_parents]. rewrite IH by (intros; apply H; now right). cbn [bind].
  rewrite spec_parents_cons. unfold remap_ref.
  destruct (p =? NULL) eqn:E.
  - reflexivity.
  - cbn [orb]. assert (ref_ok ni p = true) as Hp by (apply H; now left).
    apply ref_ok_cases in Hp as [Hp|[_ Hp]]. { apply Z.eqb_neq in E. contradiction. }
    unfold mget. rewrite Hp. cbn [bind]. rewrite (A p) by (now apply in_range_iff).
    destruct (m p =? NULL) eqn:F; reflexivity.
Qed.

(* ---- 12983-13009: the individual table ---- *)
Lemma subset_individuals_spec imap m keep ni k rows :
  0 <= k ->
  agree_on ni imap m ->
  k + zlen rows <= ni ->
  (forall i, 0 <= i < ni -> (m i =? NULL) = negb (keep i)) ->
  (forall r, In r rows -> forall p, In p (i_parents r) -> ref_ok ni p = true) ->
  subset_individuals imap ni k rows = Ok (map (spec_individual m) (filteri keep k rows)).
Proof.
  revert k. induction rows as [|r rows IH]; intros k Hk A L K P. { reflexivity. }
  rewrite zlen_cons in L. pose proof (zlen_nonneg rows).
  simpl. rewrite (IH (k + 1)); try lia; auto. 2:{ intros; eapply P; eauto. now right. }
  simpl. rewrite (A k) by lia. rewrite (K k) by lia.
  destruct (keep k); simpl; auto.
  rewrite (remap_parents_spec imap m) ; auto. intros p Hp. eapply P; eauto. now left.
Qed.

Lemma ind_map_null t nodes ku i : (ind_map t nodes ku i =? NULL) = negb (ind_kept t nodes ku i).
Proof.
  unfold ind_map. destruct (ind_kept t nodes ku i) eqn:E; simpl.
  - apply Z.eqb_neq. intros H. apply kept_map_null_iff in H. congruence.
  - apply Z.eqb_eq. now apply kept_map_null_iff.
Qed.
