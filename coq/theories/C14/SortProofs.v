(* C14 — the sorters used by union / canonicalise (model of tsk_table_sorter_run): the result is a
   permutation of the input in key order.  qsort is modelled by insertion sort; the only facts
   used about a comparison are that it is total (sortedness) — all comparisons here are. *)
From Coq Require Import List ZArith Bool Lia ZifyBool Permutation Sorted.
From TskVerif Require Import Base.Common C14.Model C14.Spec C14.Basics C14.UnionProofs.
Import ListNotations.
Open Scope Z_scope.

Section Isort.
  Context {A : Type} (le : A -> A -> bool).
  Hypothesis total : forall x y, le x y = true \/ le y x = true.
  Let R := fun a b => le a b = true.

  Lemma insert_hd x l a : R a x -> HdRel R a l -> HdRel R a (insert le x l).
  Proof. intros Hax H. destruct l as [|y l]; cbn [insert]. { now constructor. }
    destruct (le x y); constructor; auto. now inversion H. Qed.

  Lemma insert_sorted x l : Sorted R l -> Sorted R (insert le x l).
  Proof.
    induction l as [|y l IH]; intros S; cbn [insert]. { repeat constructor. }
    inversion S as [|? ? S' H]; subst. destruct (le x y) eqn:E.
    - constructor; [exact S|]. constructor. exact E.
    - constructor; [now apply IH|]. apply insert_hd; [|exact H]. destruct (total x y) as [T|T]; [congruence|exact T].
  Qed.

  Lemma isort_sorted l : Sorted R (isort le l).
  Proof. unfold isort. induction l as [|x l IH]; cbn [fold_right]. { constructor. } now apply insert_sorted. Qed.
End Isort.

(* ---- totality of the comparison functions (cmp_edge, cmp_site, cmp_mutation) ---- *)
Lemma edge_le_total tm x y : edge_le tm x y = true \/ edge_le tm y x = true.
Proof.
  unfold edge_le.
  destruct (Z.compare_spec (tm (e_parent x)) (tm (e_parent y))) as [E1|E1|E1];
  destruct (Z.compare_spec (tm (e_parent y)) (tm (e_parent x))) as [F1|F1|F1]; try lia; auto.
  destruct (Z.compare_spec (e_parent x) (e_parent y)) as [E2|E2|E2];
  destruct (Z.compare_spec (e_parent y) (e_parent x)) as [F2|F2|F2]; try lia; auto.
  destruct (Z.compare_spec (e_child x) (e_child y)) as [E3|E3|E3];
  destruct (Z.compare_spec (e_child y) (e_child x)) as [F3|F3|F3]; try lia; auto.
Qed.

Lemma site_le_total x y : site_le x y = true \/ site_le y x = true.
Proof.
  unfold site_le.
  destruct (Z.compare_spec (s_pos (snd x)) (s_pos (snd y))) as [E1|E1|E1];
  destruct (Z.compare_spec (s_pos (snd y)) (s_pos (snd x))) as [F1|F1|F1]; try lia; auto.
Qed.

Lemma time_cmp_desc_flip a b :
  match time_cmp_desc a b with Lt => time_cmp_desc b a = Gt | Gt => time_cmp_desc b a = Lt | Eq => time_cmp_desc b a = Eq end.
Proof.
  destruct a as [x|], b as [y|]; cbn; auto.
  destruct (Z.compare_spec y x); destruct (Z.compare_spec x y); auto; lia.
Qed.

Lemma mutation_le_total x y : mutation_le x y = true \/ mutation_le y x = true.
Proof.
  unfold mutation_le.
  destruct (Z.compare_spec (m_site (snd x)) (m_site (snd y))) as [E1|E1|E1];
  destruct (Z.compare_spec (m_site (snd y)) (m_site (snd x))) as [F1|F1|F1]; try lia; auto.
  pose proof (time_cmp_desc_flip (m_time (snd x)) (m_time (snd y))) as T.
  destruct (time_cmp_desc (m_time (snd x)) (m_time (snd y))); rewrite T; auto. lia.
Qed.

(* ---- edges: tsk_table_sorter_sort_edges ---- *)
Theorem sort_edges_spec t :
  Permutation (sort_edges t) (t_edges t) /\
  Sorted (fun a b => edge_le (node_time (t_nodes t)) a b = true) (sort_edges t).
Proof. split; [apply isort_perm|apply isort_sorted, edge_le_total]. Qed.

(* ---- generic shape of the "copy back" loops ---- *)
Lemma mfold_snoc {A B} (g : list B -> A -> res (list B)) (f : A -> res B) l :
  (forall acc x, g acc x = do y <- f x; Ok (acc ++ [y])) ->
  forall acc r, mfold g l acc = Ok r ->
  exists ys, r = acc ++ ys /\ Forall2 (fun x y => f x = Ok y) l ys.
Proof.
  intros Hg. induction l as [|x l IH]; intros acc r H; cbn [mfold] in H.
  - inversion H. exists []. rewrite app_nil_r. auto.
  - rewrite Hg in H. destruct (f x) as [y| | |] eqn:E; cbn [bind] in H; try discriminate.
    destruct (IH _ _ H) as [ys [-> F]]. exists (y :: ys). rewrite <- app_assoc. auto.
Qed.

Lemma index_from_snd {A} (l : list A) k : map snd (index_from k l) = l.
Proof. revert k. induction l as [|a l IH]; intros k; cbn; auto. now rewrite IH. Qed.

(* what a mutation row keeps through sort / deduplicate_sites / compute_mutation_parents *)
Definition mut_core (m : mutation) : Z * list Z * option Z * list Z :=
  (m_node m, m_derived m, m_time m, m_md m).

Lemma sorted_site_pos (l : list (Z * site)) :
  Sorted (fun a b => site_le a b = true) l -> Sorted (fun a b => s_pos a <= s_pos b) (map snd l).
Proof.
  induction 1 as [|a l S IH Hd]; cbn [map]; constructor; auto.
  destruct Hd as [|b l Hab]; cbn [map]; constructor.
  cbv beta in Hab. unfold site_le in Hab.
  destruct (Z.compare_spec (s_pos (snd a)) (s_pos (snd b))); cbn in Hab; try discriminate; lia.
Qed.

Lemma sort_sites_mutations_spec mle ss ms ss' ms' :
  sort_sites_mutations mle ss ms = Ok (ss', ms') ->
  Permutation ss' ss /\
  Sorted (fun a b => s_pos a <= s_pos b) ss' /\
  Permutation (map mut_core ms') (map mut_core ms).
Proof.
  unfold sort_sites_mutations. intros H.
  destruct (mfold _ ms []) as [ms1| | |] eqn:E1; cbn [bind] in H; try discriminate.
  destruct (mfold _ (isort mle (index_from 0 ms1)) []) as [ms2| | |] eqn:E2; cbn [bind] in H; try discriminate.
  inversion H; subst; clear H.
  split; [|split].
  - rewrite <- (index_from_snd ss 0) at 2. apply Permutation_map. apply isort_perm.
  - apply sorted_site_pos. apply isort_sorted, site_le_total.
  - apply (mfold_snoc _ (fun m => do s <- mget (positions_from 0 (isort site_le (index_from 0 ss)) mnull) (zlen ss) (m_site m);
                                    Ok (set_site m s))) in E1 as [ys [-> F1]].
    2:{ intros acc x. destruct (mget _ _ _); reflexivity. }
    apply (mfold_snoc _ (fun im : Z * mutation =>
                         do p <- (if m_parent (snd im) =? NULL then Ok NULL
                                  else mget (positions_from 0 (isort mle (index_from 0 ys)) mnull) (zlen ms) (m_parent (snd im)));
                         Ok (set_parent (snd im) p))) in E2 as [zs [-> F2]].
    2:{ intros acc x. destruct (if m_parent (snd x) =? NULL then _ else _); reflexivity. }
    cbn [app] in *.
    assert (map mut_core ys = map mut_core ms) as <-.
    { clear - F1. induction F1 as [|m y l l' Hy _ IH]; cbn [map]; auto. rewrite IH. f_equal.
      destruct (mget _ _ _); cbn [bind] in Hy; inversion Hy. reflexivity. }
    assert (map mut_core zs = map mut_core (map snd (isort mle (index_from 0 ys)))) as ->.
    { clear - F2. induction F2 as [|im z l l' Hz _ IH]; cbn [map]; auto. rewrite IH. f_equal.
      destruct (if m_parent (snd im) =? NULL then _ else _); cbn [bind] in Hz; inversion Hz. reflexivity. }
    apply Permutation_map. rewrite <- (index_from_snd ys 0) at 2. apply Permutation_map. apply isort_perm.
Qed.

Theorem sort_tables_spec t t' : sort_tables t = Ok t' ->
  t_nodes t' = t_nodes t /\ t_individuals t' = t_individuals t /\ t_populations t' = t_populations t /\
  Permutation (t_edges t') (t_edges t) /\
  Sorted (fun a b => edge_le (node_time (t_nodes t)) a b = true) (t_edges t') /\
  Permutation (t_sites t') (t_sites t) /\ Sorted (fun a b => s_pos a <= s_pos b) (t_sites t') /\
  Permutation (map mut_core (t_mutations t')) (map mut_core (t_mutations t)).
Proof.
  unfold sort_tables. destruct (sort_sites_mutations mutation_le (t_sites t) (t_mutations t)) as [[ss ms]| | |] eqn:E;
    cbn [bind]; intros H; inversion H; subst. cbn.
  destruct (sort_sites_mutations_spec _ _ _ _ _ E) as [P1 [S1 P2]].
  destruct (sort_edges_spec t). repeat split; auto.
Qed.

(* ---- deduplicate_sites on sorted sites: one row per position, the first one wins ---- *)
Lemma dedup_sites_spec ss : forall last j count m,
  StronglySorted (fun a b => s_pos a <= s_pos b) ss ->
  (forall p, last = Some p -> forall s, In s ss -> p <= s_pos s) ->
  let r := fst (dedup_sites ss last j count m) in
  StronglySorted (fun a b => s_pos a < s_pos b) r /\
  (forall p, last = Some p -> forall s, In s r -> p < s_pos s) /\
  (forall s, In s r -> In s ss) /\
  (forall s, In s ss -> (exists s', In s' r /\ s_pos s' = s_pos s) \/ last = Some (s_pos s)).
Proof.
  induction ss as [|s ss IH]; intros last j count m S L; cbn zeta.
  - cbn. repeat split; try constructor; intros; contradiction.
  - inversion S as [|? ? S' F]; subst. rewrite Forall_forall in F.
    cbn [dedup_sites].
    destruct (match last with Some p => p =? s_pos s | None => false end) eqn:Same.
    + destruct last as [p|]; [|discriminate]. apply Z.eqb_eq in Same. subst p.
      specialize (IH (Some (s_pos s)) (j + 1) count (upd m j (count - 1)) S').
      destruct IH as [I1 [I2 [I3 I4]]]. { intros p E s0 H0. inversion E; subst. now apply F. }
      split; [exact I1|]. split; [exact I2|]. split. { intros; right; auto. }
      intros s0 [<-|H0]; [now right|]. destruct (I4 s0 H0) as [X|X]; auto.
    + specialize (IH (Some (s_pos s)) (j + 1) (count + 1) (upd m j count) S').
      destruct (dedup_sites ss (Some (s_pos s)) (j + 1) (count + 1) (upd m j count)) as [rest m'] eqn:D.
      cbn [fst] in *. destruct IH as [I1 [I2 [I3 I4]]]. { intros p E s0 H0. inversion E; subst. now apply F. }
      split. { constructor; auto. apply Forall_forall. intros s0 H0. now apply (I2 (s_pos s)). }
      split.
      { intros p E s0 [<-|H0].
        - subst last. apply Z.eqb_neq in Same. specialize (L p eq_refl s (or_introl eq_refl)). lia.
        - specialize (I2 _ eq_refl s0 H0). subst last. specialize (L p eq_refl s (or_introl eq_refl)). lia. }
      split. { intros s0 [<-|H0]; [now left|right; auto]. }
      intros s0 [<-|H0]. { left. exists s. split; auto. now left. }
      destruct (I4 s0 H0) as [[s' [A B]]|X].
      * left. exists s'. split; auto. now right.
      * inversion X as [X']. left. exists s. split; [now left|auto].
Qed.

Lemma deduplicate_sites_spec t t' :
  deduplicate_sites t = Ok t' ->
  StronglySorted (fun a b => s_pos a <= s_pos b) (t_sites t) ->
  StronglySorted (fun a b => s_pos a < s_pos b) (t_sites t') /\
  (forall s, In s (t_sites t') -> In s (t_sites t)) /\
  (forall s, In s (t_sites t) -> exists s', In s' (t_sites t') /\ s_pos s' = s_pos s) /\
  map mut_core (t_mutations t') = map mut_core (t_mutations t).
Proof.
  unfold deduplicate_sites. intros H S.
  pose proof (dedup_sites_spec (t_sites t) None 0 0 mnull S ltac:(discriminate)) as D. cbn zeta in D.
  destruct (dedup_sites (t_sites t) None 0 0 mnull) as [ss m]. cbn [fst] in D.
  destruct D as [D1 [_ [D3 D4]]].
  destruct (if zlen ss <? zlen (t_sites t) then _ else _) as [ms| | |] eqn:E; cbn [bind] in H; inversion H; subst.
  cbn [t_sites t_mutations]. split; auto. split; auto. split.
  { intros s Hs. destruct (D4 s Hs) as [X|X]; [exact X|discriminate]. }
  destruct (zlen ss <? zlen (t_sites t)); [|now inversion E].
  apply (mfold_snoc _ (fun mu => do s <- mget m (zlen (t_sites t)) (m_site mu); Ok (set_site mu s))) in E as [ys [-> F]].
  2:{ intros acc x. destruct (mget _ _ _); reflexivity. }
  cbn [app]. clear - F. induction F as [|mu y l l' Hy _ IH]; cbn [map]; auto. rewrite IH. f_equal.
  destruct (mget _ _ _); cbn [bind] in Hy; inversion Hy. reflexivity.
Qed.

(* ---- compute_mutation_parents only rewrites the parent column ---- *)
Lemma site_parents_core nn es x first ms r :
  site_parents nn es x first ms = Ok r -> map mut_core r = map mut_core ms.
Proof.
  unfold site_parents.
  match goal with |- context [fold_left ?f ms ([], mnull, first)] => set (F := f) end.
  assert (forall ms p, map mut_core (fst (fst (fold_left F ms p))) = map mut_core (fst (fst p)) ++ map mut_core ms) as X.
  { subst F. clear. induction ms as [|m ms IH]; intros [[acc b] j]; cbn [fold_left].
    - cbn [fst]. now rewrite app_nil_r.
    - rewrite IH. cbn [fst]. rewrite map_app, <- app_assoc. reflexivity. }
  specialize (X ms ([], mnull, first)).
  destruct (fold_left F ms ([], mnull, first)) as [[ms1 bottom] j']. cbn [fst map app] in X.
  intros H.
  destruct (if 1 <? zlen ms then _ else _) as [ms2| | |] eqn:E; cbn [bind] in H; try discriminate.
  destruct (mfold _ ms2 first); cbn [bind] in H; try discriminate. inversion H; subst r.
  rewrite <- X. destruct (1 <? zlen ms); [|now inversion E].
  apply (mfold_snoc _ (fun m => if m_parent m =? NULL
                                then do p <- climb nn (parent_at es x) bottom (parent_at es x (m_node m)); Ok (set_parent m p)
                                else Ok m)) in E as [ys [-> FF]].
  2:{ intros acc m. destruct (m_parent m =? NULL); [destruct (climb _ _ _ _)|]; reflexivity. }
  cbn [app]. clear - FF. induction FF as [|m y l l' Hy _ IH]; cbn [map]; auto. rewrite IH. f_equal.
  destruct (m_parent m =? NULL); [destruct (climb _ _ _ _); cbn [bind] in Hy|]; inversion Hy; reflexivity.
Qed.

Lemma parents_sites_core nn es ss : forall s first ms r,
  parents_sites nn es ss s first ms = Ok r -> map mut_core r = map mut_core ms.
Proof.
  induction ss as [|st ss IH]; intros s first ms r H; cbn [parents_sites] in H.
  - inversion H. rewrite map_map. reflexivity.
  - destruct (span_site s ms) as [run rest] eqn:Sp.
    destruct (site_parents nn es (s_pos st) first run) as [run'| | |] eqn:E1; cbn [bind] in H; try discriminate.
    destruct (parents_sites nn es ss (s + 1) (first + zlen run) rest) as [rest'| | |] eqn:E2; cbn [bind] in H; try discriminate.
    inversion H; subst r. rewrite map_app, (site_parents_core _ _ _ _ _ _ E1), (IH _ _ _ _ E2), <- map_app.
    f_equal.
    clear - Sp. revert run rest Sp. induction ms as [|m ms IHm]; intros run rest Sp; cbn [span_site] in Sp.
    + now inversion Sp.
    + destruct (m_site m =? s).
      * destruct (span_site s ms) as [a b]. inversion Sp; subst. cbn [app]. f_equal. now apply IHm.
      * now inversion Sp.
Qed.

Lemma compute_mutation_parents_spec t t' :
  compute_mutation_parents t = Ok t' ->
  t_sites t' = t_sites t /\ map mut_core (t_mutations t') = map mut_core (t_mutations t).
Proof.
  unfold compute_mutation_parents. destruct (contradictory (t_edges t)); [discriminate|].
  destruct (parents_sites _ _ _ _ _ _) as [ms| | |] eqn:E; cbn [bind]; intros H; inversion H; subst. cbn.
  split; auto. eapply parents_sites_core; eauto.
Qed.

(* ---- canonicalise = subset on all nodes, then the canonical sorters: the canonical form is
        that subset with edges / sites sorted, mutations and individuals permuted (ids
        renumbered), node rows kept up to the individual column ---- *)
Definition ind_core (r : individual) : Z * list Z * list Z := (i_flags r, i_loc r, i_md r).
Definition node_core (r : node) : Z * Z * Z * list Z := (n_flags r, n_time r, n_pop r, n_md r).

Lemma sort_individuals_canonical_spec ns inds ns' inds' :
  sort_individuals_canonical ns inds = Ok (ns', inds') ->
  map node_core ns' = map node_core ns /\
  Permutation (map ind_core inds') (map ind_core inds).
Proof.
  unfold sort_individuals_canonical. intros H.
  destruct (individual_num_descendants inds) as [ndesc| | |]; cbn [bind] in H; try discriminate.
  set (sorted := isort (individual_canonical_le ndesc (first_nodes ns)) (index_from 0 inds)) in *.
  destruct (mfold _ sorted []) as [i2| | |] eqn:E1; cbn [bind] in H; try discriminate.
  destruct (mfold _ ns []) as [n2| | |] eqn:E2; cbn [bind] in H; try discriminate.
  inversion H; subst; clear H. split.
  - match type of E2 with mfold ?g _ _ = _ =>
      apply (mfold_snoc g (fun nd => do i <- (if n_ind nd =? NULL then Ok NULL
                                              else mget (positions_from 0 sorted mnull) (zlen inds) (n_ind nd));
                                     Ok (mkN (n_flags nd) (n_time nd) (n_pop nd) i (n_md nd)))) in E2 as [ys [-> F]] end.
    2:{ intros acc x. destruct (if n_ind x =? NULL then _ else _); reflexivity. }
    cbn [app]. clear E1. induction F as [|nd y l l' Hy _ IH]; cbn [map]; auto. rewrite IH. f_equal.
    destruct (if n_ind nd =? NULL then _ else _); cbn [bind] in Hy; inversion Hy. reflexivity.
  - match type of E1 with mfold ?g _ _ = _ =>
      apply (mfold_snoc g (fun ir : Z * individual =>
               do ps <- mfold (fun a p => do p' <- (if p =? NULL then Ok NULL
                                                    else mget (positions_from 0 sorted mnull) (zlen inds) p);
                                          Ok (a ++ [p'])) (i_parents (snd ir)) [];
               Ok (mkI (i_flags (snd ir)) (i_loc (snd ir)) ps (i_md (snd ir))))) in E1 as [ys [-> F]] end.
    2:{ intros acc x. destruct (mfold _ (i_parents (snd x)) []); reflexivity. }
    cbn [app].
    assert (map ind_core ys = map ind_core (map snd sorted)) as ->.
    { clear - F. induction F as [|ir y l l' Hy _ IH]; cbn [map]; auto. rewrite IH. f_equal.
      destruct (mfold _ (i_parents (snd ir)) []); cbn [bind] in Hy; inversion Hy. reflexivity. }
    apply Permutation_map. unfold sorted. rewrite <- (index_from_snd inds 0) at 2. apply Permutation_map. apply isort_perm.
Qed.

Theorem canonicalise_spec t ku c :
  canonicalise t ku = Ok c ->
  exists t1,
    subset t (zrange (length (t_nodes t))) ku false = Ok t1 /\
    map node_core (t_nodes c) = map node_core (t_nodes t1) /\
    t_populations c = t_populations t1 /\
    Permutation (t_edges c) (t_edges t1) /\
    Sorted (fun a b => edge_le (node_time (t_nodes t1)) a b = true) (t_edges c) /\
    Permutation (t_sites c) (t_sites t1) /\ Sorted (fun a b => s_pos a <= s_pos b) (t_sites c) /\
    Permutation (map mut_core (t_mutations c)) (map mut_core (t_mutations t1)) /\
    Permutation (map ind_core (t_individuals c)) (map ind_core (t_individuals t1)).
Proof.
  unfold canonicalise. intros H.
  destruct (subset t (zrange (length (t_nodes t))) ku false) as [t1| | |]; cbn [bind] in H; try discriminate.
  destruct (mutation_num_descendants (t_mutations t1)) as [nd| | |]; cbn [bind] in H; try discriminate.
  destruct (sort_sites_mutations _ (t_sites t1) (t_mutations t1)) as [[ss ms]| | |] eqn:E1; cbn [bind] in H; try discriminate.
  destruct (sort_individuals_canonical (t_nodes t1) (t_individuals t1)) as [[ns inds]| | |] eqn:E2; cbn [bind] in H; try discriminate.
  inversion H; subst c; clear H. exists t1. split; [reflexivity|]. cbn.
  destruct (sort_sites_mutations_spec _ _ _ _ _ E1) as [P1 [S1 P2]].
  destruct (sort_individuals_canonical_spec _ _ _ _ E2) as [N1 I1].
  destruct (sort_edges_spec t1). repeat split; auto.
Qed.
