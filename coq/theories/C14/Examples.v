(* C14 — non-vacuity: concrete inputs that meet the hypotheses of the theorems and on which
   the conclusions are non-trivial (checked by computation). *)
From Coq Require Import List ZArith Bool Lia.
From TskVerif Require Import Base.Common C14.Model C14.Spec.
Import ListNotations.
Open Scope Z_scope.

(* 5 nodes: samples 0,1,2 (time 0), 3 (time 1) over 0 and 1, root 4 (time 2) over 3 and 2.
   two populations, three individuals (individual 1 has parents [2; NULL; 0]), two sites, four
   mutations with a parent chain; metadata on every table. *)
Definition ex_t : tables :=
  mkT [mkN 1 0 1 0 [7]; mkN 1 0 0 0 []; mkN 1 0 1 1 [1;2]; mkN 0 1 (-1) 2 []; mkN 0 2 0 (-1) [9]]
      [mkE 0 10 3 0 [5]; mkE 0 10 3 1 []; mkE 0 4 4 2 [6]; mkE 4 10 4 2 []; mkE 0 10 4 3 [8]]
      [mkS 2 [65] []; mkS 7 [67] [3]]
      [mkM 0 4 [71] (-1) None [];  mkM 0 3 [84] 0 None [4]; mkM 0 0 [65] 1 None []; mkM 1 2 [84] (-1) None [1]]
      [mkI 0 [] [] [11]; mkI 1 [3;4] [2; -1; 0] []; mkI 2 [] [] [12]]
      [mkP [21]; mkP [22]].

Example ex_refs : refs_in_range ex_t = true.
Proof. reflexivity. Qed.

(* subset on [3; 0; 2] (not sorted, proper subset), removing unreferenced, reordering populations *)
Example ex_subset :
  subset ex_t [3; 0; 2] false false =
  Ok (mkT [mkN 0 1 (-1) 2 []; mkN 1 0 0 0 [7]; mkN 1 0 0 1 [1;2]]
          [mkE 0 10 0 1 [5]]                                   (* only 3 -> 0 has both ends listed *)
          [mkS 2 [65] []; mkS 7 [67] [3]]
          [mkM 0 0 [84] (-1) None [4];                          (* parent (on node 4) dropped -> NULL *)
           mkM 0 1 [65] 0 None [];                              (* parent renumbered 1 -> 0 *)
           mkM 1 2 [84] (-1) None [1]]
          [mkI 0 [] [] [11]; mkI 1 [3;4] [2; -1; 0] []; mkI 2 [] [] [12]]
          [mkP [22]]).                                          (* population 1 becomes 0; 0 unreferenced *)
Proof. vm_compute. reflexivity. Qed.

(* node list with a repeated id: one row per occurrence, references go to the last one *)
Example ex_subset_dup :
  option_map t_edges (match subset ex_t [0; 3; 0] false false with Ok t => Some t | _ => None end)
  = Some [mkE 0 10 1 2 [5]].
Proof. vm_compute. reflexivity. Qed.

(* keep_unreferenced / no_change_populations: an individual whose parent is not retained *)
Example ex_subset_parent_dropped :
  option_map t_individuals (match subset ex_t [2] false true with Ok t => Some t | _ => None end)
  = Some [mkI 1 [3;4] [-1] []].        (* parents [2; NULL; 0]: 2 and 0 are not retained *)
Proof. vm_compute. reflexivity. Qed.

Example ex_subset_oob : subset ex_t [0; 5] false false = Err ERR_NODE_OOB.
Proof. vm_compute. reflexivity. Qed.
Example ex_subset_oob_keep : subset ex_t [0; -1] true true = Err ERR_NODE_OOB.
Proof. vm_compute. reflexivity. Qed.

Example ex_identity : subset ex_t (zrange 5) true true = Ok ex_t.
Proof. vm_compute. reflexivity. Qed.

(* with the flags on (Python defaults) the identity list is NOT the identity: population order
   and unreferenced rows change — which is why subset_identity is stated for the flags above *)
Example ex_identity_needs_flags :
  option_map t_populations (match subset ex_t (zrange 5) false false with Ok t => Some t | _ => None end)
  = Some [mkP [22]; mkP [21]].
Proof. vm_compute. reflexivity. Qed.

(* --- union: self = subset on the old part {4,3,0,1}, other = subset on {4,3,2} --- *)
Definition ex_self : tables :=
  match py_subset ex_t [4; 3; 0; 1] false false with Ok t => t | _ => mkT [] [] [] [] [] [] end.
Definition ex_other : tables :=
  match py_subset ex_t [4; 3; 2] false false with Ok t => t | _ => mkT [] [] [] [] [] [] end.
Definition ex_mapping : list Z := mapping_of [4; 3; 0; 1] [4; 3; 2].

Example ex_mapping_val : ex_mapping = [0; 1; -1].
Proof. reflexivity. Qed.

Example ex_union_ok : is_ok (union ex_self ex_other ex_mapping true true) = true.
Proof. vm_compute. reflexivity. Qed.

(* the union has all five nodes, all five edges, both sites, all four mutations *)
Example ex_union_sizes :
  match union ex_self ex_other ex_mapping true true with
  | Ok u => (length (t_nodes u), length (t_edges u), length (t_sites u), length (t_mutations u),
             length (t_individuals u), length (t_populations u))
  | _ => (0, 0, 0, 0, 0, 0)%nat
  end = (5, 5, 2, 4, 3, 3)%nat.
Proof. vm_compute. reflexivity. Qed.

(* shared portion altered in `other` (metadata of the shared node 4): refused *)
Definition ex_other_bad : tables :=
  mkT (match t_nodes ex_other with n0 :: rest => mkN (n_flags n0) (n_time n0) (n_pop n0) (n_ind n0) [99] :: rest | [] => [] end)
      (t_edges ex_other) (t_sites ex_other) (t_mutations ex_other) (t_individuals ex_other) (t_populations ex_other).
Example ex_union_refused : union ex_self ex_other_bad ex_mapping true true = Err ERR_UNION_DIFF_HISTORIES.
Proof. vm_compute. reflexivity. Qed.
Example ex_union_unchecked : is_ok (union ex_self ex_other_bad ex_mapping false true) = true.
Proof. vm_compute. reflexivity. Qed.
