(* C14 — subset: the statements of the property, derived from [subset_exact_lemma]. *)
From Coq Require Import List ZArith Bool Lia ZifyBool.
From TskVerif Require Import Base.Common C14.Model C14.Spec C14.Basics C14.SubsetInd C14.SubsetLoop
     C14.SubsetRows C14.SubsetMain.
Import ListNotations.
Open Scope Z_scope.

(* success of the model implies the node list was in range *)
Lemma subset_ok_in_range t nodes ku ncp t' :
  refs_in_range t = true -> subset t nodes ku ncp = Ok t' ->
  forallb (in_range (zlen (t_nodes t))) nodes = true /\ t' = spec_subset t nodes ku ncp.
Proof.
  intros R H. destruct (forallb (in_range (zlen (t_nodes t))) nodes) eqn:E.
  - split; auto. rewrite subset_exact_lemma in H by auto. now inversion H.
  - rewrite subset_out_of_range_lemma in H by auto. discriminate.
Qed.

(* (a) nodes: the listed nodes, in the listed order, row data unchanged, references remapped *)
Lemma subset_nodes_exact_lemma t nodes ku ncp t' :
  refs_in_range t = true -> subset t nodes ku ncp = Ok t' ->
  Forall2 (fun u r' => exists r, getz (t_nodes t) u = Ok r /\ r' = spec_node t nodes ku ncp r)
          nodes (t_nodes t').
Proof.
  intros R H. destruct (subset_ok_in_range _ _ _ _ _ R H) as [IR ->]. cbn [spec_subset t_nodes].
  generalize (spec_node t nodes ku ncp) as f. intros f.
  clear H. induction nodes as [|u nodes IH]; cbn [flat_map]. { constructor. }
  cbn [forallb] in IR. apply andb_true_iff in IR as [I1 I2].
  destruct (getz_in_range _ _ I1) as [r Hr]. unfold node_row at 1. rewrite Hr. cbn [app].
  constructor; eauto.
Qed.

(* (b) edges: exactly the input edges with both ends listed, order kept, ends renumbered to
   positions of the node list that hold the original end points *)
Lemma subset_edges_exact_lemma t nodes ku ncp t' :
  refs_in_range t = true -> subset t nodes ku ncp = Ok t' ->
  t_edges t' = map (spec_edge nodes) (filter (edge_kept nodes) (t_edges t)) /\
  forall e, In e (filter (edge_kept nodes) (t_edges t)) ->
    getz nodes (e_parent (spec_edge nodes e)) = Ok (e_parent e) /\
    getz nodes (e_child (spec_edge nodes e)) = Ok (e_child e) /\
    e_left (spec_edge nodes e) = e_left e /\ e_right (spec_edge nodes e) = e_right e /\
    e_md (spec_edge nodes e) = e_md e.
Proof.
  intros R H. destruct (subset_ok_in_range _ _ _ _ _ R H) as [IR ->]. split; [reflexivity|].
  intros e He. apply filter_In in He as [_ K]. unfold edge_kept in K. apply andb_true_iff in K as [K1 K2].
  cbn. repeat split; auto using node_index_listed.
Qed.

(* filter on rows = filteri on the row ids *)
Lemma filter_filteri {A} (f : A -> bool) (l pre : list A) :
  filter f l = filteri (fun k => match getz (pre ++ l) k with Ok a => f a | _ => false end) (zlen pre) l.
Proof.
  revert pre. induction l as [|a l IH]; intros pre; auto.
  cbn [filter filteri].
  assert (getz (pre ++ a :: l) (zlen pre) = Ok a) as ->.
  { replace (zlen pre) with (zlen pre + 0) by lia. rewrite getz_app_r by lia. apply getz_cons_0. }
  specialize (IH (pre ++ [a])). rewrite <- app_assoc in IH. cbn [app] in IH.
  rewrite zlen_app, zlen_cons, zlen_nil in IH. replace (zlen pre + (1 + 0)) with (zlen pre + 1) in IH by lia.
  rewrite <- IH. reflexivity.
Qed.

(* (c) mutations and sites *)
Lemma subset_mutations_sites_exact_lemma t nodes ku ncp t' :
  refs_in_range t = true -> subset t nodes ku ncp = Ok t' ->
  (* sites: the referenced ones (all when keep_unreferenced), rows and order unchanged *)
  t_sites t' = filteri (site_kept t nodes ku) 0 (t_sites t) /\
  (* mutations: those on listed nodes, order kept *)
  t_mutations t' = map (spec_mutation t nodes ku) (filter (mut_kept_row nodes) (t_mutations t)) /\
  forall m, In m (filter (mut_kept_row nodes) (t_mutations t)) ->
    let m' := spec_mutation t nodes ku m in
    (* node: a position of the list holding the original node *)
    getz nodes (m_node m') = Ok (m_node m) /\
    (* site: the new id designates the original site row *)
    getz (t_sites t') (m_site m') = getz (t_sites t) (m_site m) /\
    (* parent: NULL stays NULL; a dropped parent becomes NULL; a retained parent is renumbered
       to the output row that was made from it *)
    (m_parent m = NULL -> m_parent m' = NULL) /\
    (forall pm, getz (t_mutations t) (m_parent m) = Ok pm -> mut_kept_row nodes pm = false -> m_parent m' = NULL) /\
    (forall pm, getz (t_mutations t) (m_parent m) = Ok pm -> mut_kept_row nodes pm = true ->
                getz (t_mutations t') (m_parent m') = Ok (spec_mutation t nodes ku pm)) /\
    m_derived m' = m_derived m /\ m_time m' = m_time m /\ m_md m' = m_md m.
Proof.
  intros R H. destruct (subset_ok_in_range _ _ _ _ _ R H) as [IR ->].
  split; [reflexivity|]. split; [reflexivity|].
  intros m Hm. cbn zeta. apply filter_In in Hm as [Im K].
  destruct (refs_mutations t R m Im) as [Rn [Rs Rp]].
  cbn [spec_subset t_sites t_mutations spec_mutation m_node m_site m_parent m_derived m_time m_md].
  split. { now apply node_index_listed. }
  split.
  { destruct (getz_in_range _ _ Rs) as [srow Hs]. rewrite Hs. unfold spec_sites.
    assert (site_kept t nodes ku (m_site m) = true) as SK.
    { unfold site_kept, site_referenced. apply orb_true_iff. right. apply existsb_exists.
      exists m. split; auto. now rewrite K, Z.eqb_refl. }
    unfold kept_map. rewrite SK. now apply filteri_getz. }
  split. { intros ->. reflexivity. }
  split.
  { intros pm G Kp. unfold remap_ref. destruct (m_parent m =? NULL); auto.
    apply kept_map_null_iff. unfold mut_kept. now rewrite G. }
  split.
  { intros pm G Kp. unfold remap_ref.
    assert (m_parent m =? NULL = false) as ->.
    { apply Z.eqb_neq. intros E. rewrite E, getz_neg in G by (rewrite NULL_neg; lia). discriminate. }
    assert (mut_kept t nodes (m_parent m) = true) as MK by (unfold mut_kept; now rewrite G).
    unfold kept_map. rewrite MK. unfold spec_mutations.
    rewrite (filter_filteri (mut_kept_row nodes) (t_mutations t) []). cbn [app]. rewrite zlen_nil.
    change (fun k => match getz (t_mutations t) k with Ok a => mut_kept_row nodes a | _ => false end)
      with (mut_kept t nodes).
    pose proof (filteri_getz (mut_kept t nodes) (t_mutations t) (m_parent m) pm G MK) as X.
    revert X. generalize (rank (mut_kept t nodes) (m_parent m)) as k.
    generalize (filteri (mut_kept t nodes) 0 (t_mutations t)) as l.
    intros l. induction l as [|a l IHl]; intros k X. { rewrite getz_nil in X. discriminate. }
    cbn [map]. destruct (Z.eq_dec k 0) as [->|N].
    - rewrite getz_cons_0 in *. now inversion X.
    - destruct (Z_lt_dec k 0). { rewrite getz_neg in X by lia. discriminate. }
      replace k with ((k - 1) + 1) in * by lia. rewrite getz_cons_S in * by lia. auto. }
  auto.
Qed.

Lemma NoDup_snoc {A} (l : list A) x : NoDup l -> ~ In x l -> NoDup (l ++ [x]).
Proof.
  induction l as [|a l IH]; intros N I; cbn [app]. { repeat constructor; auto. }
  inversion N; subst. constructor.
  - rewrite in_app_iff. cbn [In]. intros [?|[->|[]]]; auto. apply I. now left.
  - apply IH; auto. intros X. apply I. now right.
Qed.

Lemma index_of_inj l : forall k p q, 0 <= k -> listed l p = true -> listed l q = true ->
  index_of p l k = index_of q l k -> p = q.
Proof.
  induction l as [|x l IH]; intros k p q Hk Hp Hq E. { discriminate. }
  unfold listed in Hp, Hq. cbn [existsb] in Hp, Hq. cbn [index_of] in E.
  rewrite (Z.eqb_sym p x) in Hp. rewrite (Z.eqb_sym q x) in Hq.
  destruct (x =? p) eqn:E1, (x =? q) eqn:E2.
  - apply Z.eqb_eq in E1, E2. congruence.
  - cbn [orb] in Hq. pose proof (index_of_in q l (k + 1) Hq ltac:(lia)). lia.
  - cbn [orb] in Hp. pose proof (index_of_in p l (k + 1) Hp ltac:(lia)). lia.
  - cbn [orb] in Hp, Hq. apply (IH (k + 1)); auto. lia.
Qed.

(* (d) individuals and populations *)
Lemma subset_refs_exact_lemma t nodes ku ncp t' :
  refs_in_range t = true -> subset t nodes ku ncp = Ok t' ->
  (* individuals: exactly the referenced ones (all of them when keep_unreferenced), in table
     order; parents remapped, parents that are not retained removed *)
  t_individuals t' = map (spec_individual (ind_map t nodes ku))
                         (filteri (ind_kept t nodes ku) 0 (t_individuals t)) /\
  (* the individual renumbering is strictly increasing on retained ids (injective, order kept) *)
  (forall i j, 0 <= i < j -> ind_kept t nodes ku i = true -> ind_kept t nodes ku j = true ->
               0 <= ind_map t nodes ku i < ind_map t nodes ku j) /\
  (* a retained individual is found under its new id, apart from the parents column *)
  (forall i r, getz (t_individuals t) i = Ok r -> ind_kept t nodes ku i = true ->
               getz (t_individuals t') (ind_map t nodes ku i) = Ok (spec_individual (ind_map t nodes ku) r)) /\
  (* populations *)
  t_populations t' = spec_populations t nodes ku ncp /\
  (ncp = true -> t_populations t' = t_populations t /\ forall p, pop_map t nodes ncp p = p) /\
  (ncp = false ->
     (* first-use order: no duplicates, exactly the non-NULL populations of the listed nodes *)
     NoDup (pop_order t nodes) /\
     (forall p, In p (pop_order t nodes) <-> In p (node_pops t nodes) /\ p <> NULL) /\
     (* a referenced population is found, unchanged, under its new id *)
     (forall p, In p (pop_order t nodes) ->
                getz (t_populations t') (pop_map t nodes ncp p) = getz (t_populations t) p) /\
     (* injective on the referenced ones *)
     (forall p q, In p (pop_order t nodes) -> In q (pop_order t nodes) ->
                  pop_map t nodes ncp p = pop_map t nodes ncp q -> p = q) /\
     (* without keep_unreferenced nothing else is retained *)
     (ku = false -> zlen (t_populations t') = zlen (pop_order t nodes))).
Proof.
  intros R H. destruct (subset_ok_in_range _ _ _ _ _ R H) as [IR ->].
  cbn [spec_subset t_individuals t_populations].
  split; [reflexivity|]. split.
  { intros i j Hij Ki Kj. unfold ind_map, kept_map. rewrite Ki, Kj. split.
    - apply rank_nonneg. - apply rank_strict; auto. }
  split.
  { intros i r G K. unfold spec_individuals.
    pose proof (filteri_getz (ind_kept t nodes ku) (t_individuals t) i r G K) as X.
    change (ind_map t nodes ku i) with (kept_map (ind_kept t nodes ku) i). unfold kept_map. rewrite K.
    revert X. generalize (rank (ind_kept t nodes ku) i) as k.
    generalize (filteri (ind_kept t nodes ku) 0 (t_individuals t)) as l.
    intros l. induction l as [|a l IHl]; intros k X. { rewrite getz_nil in X. discriminate. }
    cbn [map]. destruct (Z.eq_dec k 0) as [->|N].
    - rewrite getz_cons_0 in *. now inversion X.
    - destruct (Z_lt_dec k 0). { rewrite getz_neg in X by lia. discriminate. }
      replace k with ((k - 1) + 1) in * by lia. rewrite getz_cons_S in * by lia. auto. }
  split; [reflexivity|]. split.
  { intros ->. unfold spec_populations, pop_map. split; auto. }
  intros ->. unfold spec_populations, pop_map.
  pose proof (pop_fold_fresh (t_populations t) (node_pops t nodes) (node_pops_ok t nodes R)) as [_ [_ F3]].
  fold (pop_order t nodes) in F3.
  (* facts about first_uses *)
  assert (forall ps, NoDup (first_uses ps) /\ forall p, In p (first_uses ps) <-> In p ps /\ p <> NULL) as FU.
  { intros ps. induction ps as [|p ps [N I]] using rev_ind.
    - split; [constructor|]. intros p. cbn. tauto.
    - rewrite first_uses_snoc. destruct (p =? NULL) eqn:E.
      + cbn [orb]. split; auto. intros q. rewrite I, in_app_iff. cbn [In]. apply Z.eqb_eq in E.
        split; [tauto|]. intros [[?|[<-|[]]] ?]; tauto.
      + cbn [orb]. destruct (listed (first_uses ps) p) eqn:L.
        * split; auto. intros q. rewrite I, in_app_iff. cbn [In]. split; [tauto|].
          intros [[?|[<-|[]]] ?]; auto. apply I. now apply listed_In.
        * split.
          -- apply NoDup_snoc; auto. intros X. apply listed_In in X. congruence.
          -- intros q. rewrite !in_app_iff, I. cbn [In]. apply Z.eqb_neq in E.
             split; [intros [?|[<-|[]]]; tauto|]. intros [[?|[<-|[]]] ?]; tauto. }
  destruct (FU (node_pops t nodes)) as [ND IN]. fold (pop_order t nodes) in ND, IN.
  split; auto. split; auto. split.
  { intros p Hp. apply listed_In in Hp.
    pose proof (index_of_in p (pop_order t nodes) 0 Hp ltac:(lia)) as B.
    rewrite getz_app_l by (rewrite rows_of_len by auto; apply in_range_iff; lia).
    revert Hp F3. generalize (pop_order t nodes) as l. clear. intros l.
    assert (forall k, 0 <= k -> listed l p = true -> forallb (in_range (zlen (t_populations t))) l = true ->
                      getz (rows_of (t_populations t) l) (index_of p l k - k) = getz (t_populations t) p) as X.
    { induction l as [|x l IH]; intros k Hk L F. { discriminate. }
      cbn [forallb] in F. apply andb_true_iff in F as [F1 F2].
      destruct (getz_in_range _ _ F1) as [row Hrow].
      unfold rows_of. cbn [flat_map index_of]. rewrite Hrow. fold (rows_of (t_populations t) l). cbn [app].
      unfold listed in L. cbn [existsb] in L. rewrite Z.eqb_sym in L.
      destruct (x =? p) eqn:E.
      - apply Z.eqb_eq in E. subst x. rewrite Z.sub_diag, getz_cons_0. auto.
      - cbn [orb] in L. pose proof (index_of_in p l (k + 1) L ltac:(lia)).
        replace (index_of p l (k + 1) - k) with ((index_of p l (k + 1) - (k + 1)) + 1) by lia.
        rewrite getz_cons_S by lia. apply IH; auto. lia. }
    intros L F. specialize (X 0 ltac:(lia) L F). now rewrite Z.sub_0_r in X. }
  split.
  { intros p q Hp Hq E. apply listed_In in Hp, Hq. eapply index_of_inj; eauto. lia. }
  intros ->. rewrite app_nil_r. now apply rows_of_len.
Qed.
