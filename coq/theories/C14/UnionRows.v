(* C14 — union, sites and mutations (tables.c 13305-13335): with `other`'s mutations grouped by
   site (what a sorted table gives), union appends exactly other's mutations that sit on new
   nodes (node renumbered, parent NULL — recomputed later —, derived state / time / metadata
   kept) and exactly other's sites that carry such a mutation (rows unchanged, in order). *)
From Coq Require Import List ZArith Bool Lia ZifyBool Permutation Sorted.
From TskVerif Require Import Base.Common C14.Model C14.Spec C14.Basics C14.SubsetInd C14.UnionProofs.
Import ListNotations.
Open Scope Z_scope.

Definition mut_new (mapping : list Z) (m : mutation) : bool := is_new mapping (m_node m).
Definition site_has_new (mapping : list Z) (ms : list mutation) (s : Z) : bool :=
  existsb (fun m => (m_site m =? s) && mut_new mapping m) ms.
Definition union_mut (self : tables) (mapping : list Z) (sm : Z) (m : mutation) : mutation :=
  mkM sm (union_node_id self mapping (m_node m)) (m_derived m) NULL (m_time m) (m_md m).

(* the mutation list consists of the runs of sites sid, sid+1, …, sid+n-1 in this order
   (the cursor of the C loop then consumes every row) *)
Fixpoint grouped (sid : Z) (n : nat) (ms : list mutation) : bool :=
  match n with
  | O => match ms with [] => true | _ => false end
  | S n' => grouped (sid + 1) n' (snd (span_site sid ms))
  end.

Definition is_nil {A} (l : list A) : bool := match l with [] => true | _ => false end.

Lemma span_site_cons s m ms :
  span_site s (m :: ms) = if m_site m =? s then (m :: fst (span_site s ms), snd (span_site s ms)) else ([], m :: ms).
Proof. cbn [span_site]. destruct (m_site m =? s); auto. now destruct (span_site s ms). Qed.

Lemma span_site_app s ms : ms = fst (span_site s ms) ++ snd (span_site s ms).
Proof.
  induction ms as [|m ms IH]; auto. rewrite span_site_cons. destruct (m_site m =? s); cbn [fst snd app]; auto.
  now f_equal.
Qed.

Lemma span_site_run s ms : forall m, In m (fst (span_site s ms)) -> m_site m = s.
Proof.
  induction ms as [|x ms IH]; intros m H. { destruct H. }
  rewrite span_site_cons in H. destruct (m_site x =? s) eqn:E; cbn [fst] in H; [|destruct H].
  destruct H as [<-|H]; auto. now apply Z.eqb_eq.
Qed.

Lemma grouped_sites sid n : forall ms, grouped sid n ms = true -> forall m, In m ms -> sid <= m_site m < sid + Z.of_nat n.
Proof.
  revert sid. induction n as [|n IH]; intros sid ms G m Hm.
  - destruct ms; [destruct Hm|discriminate].
  - cbn [grouped] in G. rewrite (span_site_app sid ms) in Hm. apply in_app_or in Hm as [Hm|Hm].
    + apply span_site_run in Hm. lia.
    + specialize (IH _ _ G m Hm). lia.
Qed.

(* a table sorted by site with in-range site ids is grouped *)
Lemma span_rest_props sid ms :
  (forall m, In m ms -> sid <= m_site m) ->
  StronglySorted (fun a b => m_site a <= m_site b) ms ->
  (forall m, In m (snd (span_site sid ms)) -> sid < m_site m /\ In m ms) /\
  StronglySorted (fun a b => m_site a <= m_site b) (snd (span_site sid ms)).
Proof.
  induction ms as [|x ms IH]; intros L S. { cbn. split; [intros m []|constructor]. }
  inversion S as [|? ? S' F]; subst. rewrite Forall_forall in F.
  rewrite span_site_cons. destruct (m_site x =? sid) eqn:E; cbn [snd].
  - destruct IH as [I1 I2]; auto. { intros; apply L; now right. }
    split; auto. intros m Hm. destruct (I1 m Hm). split; auto. now right.
  - apply Z.eqb_neq in E. pose proof (L x (or_introl eq_refl)). split; auto.
    intros m [<-|Hm]; split; auto; try lia; try (now left); try (now right).
    specialize (F m Hm). lia.
Qed.

Lemma sorted_grouped n : forall sid ms,
  (forall m, In m ms -> sid <= m_site m < sid + Z.of_nat n) ->
  StronglySorted (fun a b => m_site a <= m_site b) ms ->
  grouped sid n ms = true.
Proof.
  induction n as [|n IH]; intros sid ms R S.
  - destruct ms as [|m ms]; auto. specialize (R m (or_introl eq_refl)). lia.
  - cbn [grouped]. destruct (span_rest_props sid ms) as [P1 P2]; auto. { intros m Hm. specialize (R m Hm). lia. }
    apply IH; auto. intros m Hm. destruct (P1 m Hm) as [A B]. specialize (R m B). lia.
Qed.

(* ---- one site: the inner while loop ---- *)
Section Run.
  Variables (self : tables) (mapping : list Z) (nmap : zmap) (no : Z).
  Hypothesis Lm : zlen mapping = no.
  Hypothesis Hn : forall j, 0 <= j < no -> nmap j = union_node_id self mapping j.

  Lemma run_spec st_ sid : forall ms sites_out muts_out smapped,
    (forall m, In m ms -> in_range no (m_node m) = true) ->
    union_site_run mapping nmap no st_ sid ms sites_out muts_out smapped =
    let newrun := filter (mut_new mapping) (fst (span_site sid ms)) in
    let sm := if smapped =? NULL then zlen sites_out else smapped in
    Ok (snd (span_site sid ms),
        if (smapped =? NULL) && negb (is_nil newrun) then sites_out ++ [st_] else sites_out,
        muts_out ++ map (union_mut self mapping sm) newrun).
  Proof.
    induction ms as [|m ms IH]; intros sites_out muts_out smapped R; cbn zeta.
    - cbn. now rewrite andb_false_r, app_nil_r.
    - cbn [union_site_run]. rewrite span_site_cons. destruct (m_site m =? sid) eqn:E.
      2:{ cbn [fst snd filter map is_nil negb]. now rewrite andb_false_r, app_nil_r. }
      cbn [fst snd filter].
      assert (in_range no (m_node m) = true) as Rm by (apply R; now left).
      destruct (getz_in_range mapping (m_node m)) as [mn G]. { now rewrite Lm. }
      rewrite G. cbn [bind].
      assert (mut_new mapping m = (mn =? NULL)) as -> by (unfold mut_new, is_new; now rewrite G).
      assert (forall m0, In m0 ms -> in_range no (m_node m0) = true) as R' by (intros; apply R; now right).
      destruct (mn =? NULL) eqn:N.
      + cbn [is_nil negb]. rewrite andb_true_r. unfold mget. rewrite Rm. cbn [bind].
        rewrite Hn by (now apply in_range_iff).
        destruct (smapped =? NULL) eqn:Sn.
        * rewrite IH by auto. cbn zeta.
          pose proof (zlen_nonneg sites_out).
          assert (zlen sites_out =? NULL = false) as -> by (rewrite NULL_neg'; lia).
          cbn [andb map]. rewrite <- app_assoc. reflexivity.
        * rewrite IH by auto. cbn zeta. rewrite Sn. cbn [andb map]. rewrite <- app_assoc. reflexivity.
      + rewrite IH by auto. reflexivity.
  Qed.

  (* ---- all sites: the outer for loop ---- *)
  Lemma sites_spec : forall ss sid ms sites_out muts_out,
    grouped sid (length ss) ms = true ->
    (forall m, In m ms -> in_range no (m_node m) = true) ->
    union_sites mapping nmap no ss sid ms sites_out muts_out =
    Ok (sites_out ++ filteri (site_has_new mapping ms) sid ss,
        muts_out ++ map (fun m => union_mut self mapping
                                    (zlen sites_out + count_from (site_has_new mapping ms) sid (Z.to_nat (m_site m - sid))) m)
                        (filter (mut_new mapping) ms)).
  Proof.
    induction ss as [|s ss IH]; intros sid ms sites_out muts_out G R.
    - cbn [length grouped] in G. destruct ms; [|discriminate]. cbn. now rewrite !app_nil_r.
    - cbn [union_sites]. rewrite run_spec by auto. cbn zeta. cbn [bind].
      assert (NULL =? NULL = true) as -> by reflexivity. cbn [andb].
      cbn [length grouped] in G.
      set (run := fst (span_site sid ms)) in *. set (rest := snd (span_site sid ms)) in *.
      assert (ms = run ++ rest) as Ems by apply span_site_app.
      assert (forall m, In m run -> m_site m = sid) as Rs by apply span_site_run.
      pose proof (grouped_sites _ _ _ G) as Gr.
      assert (site_has_new mapping ms sid = negb (is_nil (filter (mut_new mapping) run))) as Hsid.
      { unfold site_has_new. rewrite Ems, existsb_app.
        assert (existsb (fun m => (m_site m =? sid) && mut_new mapping m) rest = false) as ->.
        { apply not_true_iff_false. intros X. apply existsb_exists in X as [m [Im X]].
          apply andb_true_iff in X as [X _]. apply Z.eqb_eq in X. specialize (Gr m Im). lia. }
        rewrite orb_false_r. clear - Rs. induction run as [|x run IHr]; auto.
        cbn [existsb filter]. rewrite (Rs x (or_introl eq_refl)), Z.eqb_refl. cbn [andb].
        destruct (mut_new mapping x); cbn [orb is_nil negb]; auto. apply IHr. intros; apply Rs; now right. }
      assert (forall s0, sid < s0 -> site_has_new mapping rest s0 = site_has_new mapping ms s0) as Hrest.
      { intros s0 Hs0. unfold site_has_new. rewrite Ems, existsb_app.
        assert (existsb (fun m => (m_site m =? s0) && mut_new mapping m) run = false) as ->; auto.
        apply not_true_iff_false. intros X. apply existsb_exists in X as [m [Im X]].
        apply andb_true_iff in X as [X _]. apply Z.eqb_eq in X. specialize (Rs m Im). lia. }
      rewrite IH; auto. 2:{ intros m Hm. apply R. rewrite Ems. apply in_or_app. now right. }
      f_equal. f_equal.
      + (* sites *)
        cbn [filteri]. rewrite Hsid.
        rewrite (filteri_ext (site_has_new mapping rest) (site_has_new mapping ms)) by (intros; apply Hrest; lia).
        destruct (negb (is_nil (filter (mut_new mapping) run))); [now rewrite <- app_assoc|reflexivity].
      + (* mutations *)
        rewrite <- app_assoc. f_equal.
        replace (filter (mut_new mapping) ms) with (filter (mut_new mapping) run ++ filter (mut_new mapping) rest)
          by (rewrite <- filter_app, <- Ems; reflexivity).
        rewrite map_app. f_equal.
        * apply map_ext_in. intros m Hm. apply filter_In in Hm as [Hm _]. rewrite (Rs m Hm), Z.sub_diag.
          cbn [Z.to_nat count_from]. now rewrite Z.add_0_r.
        * apply map_ext_in. intros m Hm. apply filter_In in Hm as [Hm _]. specialize (Gr m Hm).
          f_equal. replace (Z.to_nat (m_site m - sid)) with (S (Z.to_nat (m_site m - (sid + 1)))) by lia.
          cbn [count_from]. rewrite Hsid.
          rewrite (count_from_ext (site_has_new mapping rest) (site_has_new mapping ms)) by (intros; apply Hrest; lia).
          destruct (negb (is_nil (filter (mut_new mapping) run))).
          -- rewrite zlen_app, zlen_cons, zlen_nil. lia.
          -- lia.
  Qed.
End Run.

(* ---- union_raw: sites and mutations ---- *)
Lemma union_raw_sites_mutations self other mapping addp u :
  node_refs_ok other ->
  zlen mapping = zlen (t_nodes other) ->
  grouped 0 (length (t_sites other)) (t_mutations other) = true ->
  (forall m, In m (t_mutations other) -> in_range (zlen (t_nodes other)) (m_node m) = true) ->
  union_raw self other mapping addp = Ok u ->
  t_sites u = t_sites self ++ filteri (site_has_new mapping (t_mutations other)) 0 (t_sites other) /\
  t_mutations u = t_mutations self ++
     map (fun m => union_mut self mapping
                     (zlen (t_sites self) + rank (site_has_new mapping (t_mutations other)) (m_site m)) m)
         (filter (mut_new mapping) (t_mutations other)).
Proof.
  intros R L G Rm H. unfold union_raw in H.
  destruct (seed_individual_map self other 0 mapping mnull) as [imap0| | |]; cbn [bind] in H; try discriminate.
  destruct (union_nodes_spec other addp mapping R ltac:(lia) mapping []
              (mkSt (t_individuals self) (t_populations self) (t_nodes self) imap0 mnull mnull) eq_refl)
    as [s [rows [U1 [U2 [U3 [U4 _]]]]]].
  rewrite zlen_nil in U1, U4. rewrite U1 in H. cbn [bind st_nodes] in *.
  destruct (remap_new_parents _ _ _) as [new_inds| | |]; cbn [bind] in H; try discriminate.
  destruct (union_edges _ _ _ _) as [new_edges| | |]; cbn [bind] in H; try discriminate.
  rewrite (sites_spec self mapping (st_nmap s) (zlen (t_nodes other)) L) in H; auto.
  2:{ intros j Hj. rewrite U4. assert ((0 <=? j) && (j <? zlen mapping) = true) as -> by lia.
      unfold union_node_id. destruct (getz mapping j) as [m| | |]; auto. destruct (m =? NULL); auto.
      rewrite Z.sub_0_r. reflexivity. }
  cbn [bind] in H. inversion H; subst u. cbn [t_sites t_mutations]. split; auto.
  f_equal. apply map_ext. intros m. unfold rank. now rewrite Z.sub_0_r.
Qed.
