(* C14 — the sorter's id maps (tsk_table_sorter_sort_sites / sort_mutations, 7010-7118):
   site_id_map and mutation_id_map send an old id to the position its row has after sorting;
   mutations are in the order of the comparison function (cmp_mutation, or cmp_mutation_canonical
   with the descendant counts) and carry the remapped site and parent. *)
From Coq Require Import List ZArith Bool Lia ZifyBool Permutation Sorted.
From TskVerif Require Import Base.Common C14.Model C14.Spec C14.Basics C14.SubsetInd C14.UnionProofs C14.SortProofs.
Import ListNotations.
Open Scope Z_scope.

Lemma positions_from_notin {A} (l : list (Z * A)) : forall k m old,
  ~ In old (map fst l) -> positions_from k l m old = m old.
Proof.
  induction l as [|[o a] l IH]; intros k m old H; cbn [positions_from]; auto.
  cbn [map fst In] in H. rewrite IH by tauto. apply upd_other. intros ->. tauto.
Qed.

Lemma positions_from_in {A} (l : list (Z * A)) : forall k m old a i,
  NoDup (map fst l) -> getz l i = Ok (old, a) -> positions_from k l m old = k + i.
Proof.
  induction l as [|[o b] l IH]; intros k m old a i N G. { rewrite getz_nil in G. discriminate. }
  cbn [map fst] in N. inversion N as [|? ? Nin N']; subst. cbn [positions_from].
  destruct (Z.eq_dec i 0) as [->|Ni].
  - rewrite getz_cons_0 in G. inversion G; subst. rewrite positions_from_notin by auto.
    rewrite upd_same' by reflexivity. lia.
  - destruct (Z_lt_dec i 0). { rewrite getz_neg in G by lia. discriminate. }
    replace i with ((i - 1) + 1) in G by lia. rewrite getz_cons_S in G by lia.
    rewrite (IH (k + 1) _ old a (i - 1)); auto. lia.
Qed.

Lemma index_from_fst {A} (l : list A) k : map fst (index_from k l) = zrange_from k (length l).
Proof. revert k. induction l as [|a l IH]; intros k; cbn; auto. now rewrite IH. Qed.

Lemma zrange_from_In s n x : In x (zrange_from s n) <-> s <= x < s + Z.of_nat n.
Proof.
  revert s. induction n as [|n IH]; intros s; cbn [zrange_from In]. { lia. }
  rewrite IH. lia.
Qed.

Lemma zrange_from_NoDup s n : NoDup (zrange_from s n).
Proof.
  revert s. induction n as [|n IH]; intros s; cbn [zrange_from]; constructor; auto.
  rewrite zrange_from_In. lia.
Qed.

Lemma index_from_getz {A} (l : list A) : forall k i a, getz l i = Ok a -> getz (index_from k l) i = Ok (k + i, a).
Proof.
  induction l as [|x l IH]; intros k i a G. { rewrite getz_nil in G. discriminate. }
  cbn [index_from]. destruct (Z.eq_dec i 0) as [->|N].
  - rewrite getz_cons_0 in *. inversion G. now rewrite Z.add_0_r.
  - destruct (Z_lt_dec i 0). { rewrite getz_neg in G by lia. discriminate. }
    replace i with ((i - 1) + 1) in G by lia. replace i with ((i - 1) + 1) at 1 by lia.
    rewrite getz_cons_S in G by lia. rewrite getz_cons_S by lia. rewrite (IH (k + 1) _ _ G). f_equal. f_equal. lia.
Qed.

Lemma In_getz {A} (l : list A) a : In a l -> exists i, getz l i = Ok a.
Proof.
  induction l as [|x l IH]; intros H. { destruct H. }
  destruct H as [<-|H]. { exists 0. apply getz_cons_0. }
  destruct (IH H) as [i G]. exists (i + 1). rewrite getz_cons_S; auto.
  apply getz_ok_range in G. apply in_range_iff in G. lia.
Qed.

Lemma getz_map' {A B} (f : A -> B) l k a : getz l k = Ok a -> getz (map f l) k = Ok (f a).
Proof.
  revert k. induction l as [|x l IH]; intros k H. { rewrite getz_nil in H. discriminate. }
  cbn [map]. destruct (Z.eq_dec k 0) as [->|N]. { rewrite getz_cons_0 in *. now inversion H. }
  destruct (Z_lt_dec k 0). { rewrite getz_neg in H by lia. discriminate. }
  replace k with ((k - 1) + 1) in H by lia. replace k with ((k - 1) + 1) by lia.
  rewrite getz_cons_S in H by lia. rewrite getz_cons_S by lia. apply IH. exact H.
Qed.

(* the id map of a sorted copy of an indexed table *)
Lemma sorted_id_map {A} (le : Z * A -> Z * A -> bool) (l : list A) p a :
  getz l p = Ok a ->
  getz (isort le (index_from 0 l)) (positions_from 0 (isort le (index_from 0 l)) mnull p) = Ok (p, a).
Proof.
  intros G. set (sorted := isort le (index_from 0 l)).
  assert (Permutation sorted (index_from 0 l)) as P by apply isort_perm.
  assert (NoDup (map fst sorted)) as N.
  { eapply Permutation_NoDup; [apply Permutation_map, Permutation_sym, P|].
    rewrite index_from_fst. apply zrange_from_NoDup. }
  assert (In (p, a) sorted) as I.
  { eapply Permutation_in; [apply Permutation_sym, P|]. eapply getz_In.
    pose proof (index_from_getz l 0 p a G) as X. rewrite Z.add_0_l in X. exact X. }
  destruct (In_getz _ _ I) as [i Gi]. rewrite (positions_from_in sorted 0 mnull p a i N Gi). now rewrite Z.add_0_l.
Qed.

Theorem sort_sites_mutations_remap : forall mle ss ms ss' ms',
  (forall x y, mle x y = true \/ mle y x = true) ->
  sort_sites_mutations mle ss ms = Ok (ss', ms') ->
  let smap := positions_from 0 (isort site_le (index_from 0 ss)) mnull in
  (* site_id_map: an old site id designates the same row after sorting *)
  (forall s a, getz ss s = Ok a -> getz ss' (smap s) = Ok a) /\
  exists sorted,
    (* the mutations, with the new site id, in the order of the comparison function *)
    Permutation sorted (index_from 0 (map (fun m => set_site m (smap (m_site m))) ms)) /\
    Sorted (fun a b => mle a b = true) sorted /\
    let pmap := positions_from 0 sorted mnull in
    ms' = map (fun im => set_parent (snd im) (remap_ref pmap (m_parent (snd im)))) sorted /\
    (* mutation_id_map: an old mutation id designates the output row made from it *)
    (forall p m, getz ms p = Ok m -> exists m1, getz sorted (pmap p) = Ok (p, m1)).
Proof.
  intros mle ss ms ss' ms' total H. cbn zeta. unfold sort_sites_mutations in H.
  set (smap := positions_from 0 (isort site_le (index_from 0 ss)) mnull) in *.
  destruct (mfold _ ms []) as [ms1| | |] eqn:E1; cbn [bind] in H; try discriminate.
  destruct (mfold _ (isort mle (index_from 0 ms1)) []) as [ms2| | |] eqn:E2; cbn [bind] in H; try discriminate.
  inversion H; subst ss' ms'; clear H.
  split.
  { intros s a G. pose proof (sorted_id_map site_le ss s a G) as X. fold smap in X.
    now apply (getz_map' snd) in X. }
  apply (mfold_snoc _ (fun m => do s <- mget smap (zlen ss) (m_site m); Ok (set_site m s))) in E1 as [ys [-> F1]].
  2:{ intros acc x. destruct (mget _ _ _); reflexivity. }
  cbn [app] in *.
  assert (ys = map (fun m => set_site m (smap (m_site m))) ms) as Eys.
  { clear - F1. induction F1 as [|m y l l' Hy _ IH]; cbn [map]; auto. rewrite IH. f_equal.
    unfold mget in Hy. destruct (in_range (zlen ss) (m_site m)); cbn [bind] in Hy;
      [injection Hy as <-; reflexivity|discriminate]. }
  set (sorted := isort mle (index_from 0 ys)) in *.
  exists sorted. split. { rewrite <- Eys. apply isort_perm. }
  split. { apply isort_sorted. exact total. }
  cbn zeta. split.
  - apply (mfold_snoc _ (fun im : Z * mutation =>
                           do p <- (if m_parent (snd im) =? NULL then Ok NULL
                                    else mget (positions_from 0 sorted mnull) (zlen ms) (m_parent (snd im)));
                           Ok (set_parent (snd im) p))) in E2 as [zs [-> F2]].
    2:{ intros acc x. destruct (if m_parent (snd x) =? NULL then _ else _); reflexivity. }
    cbn [app]. set (pm := positions_from 0 sorted mnull) in *. clearbody pm. clear - F2.
    induction F2 as [|im z l l' Hz _ IH]; cbn [map]; auto. rewrite IH. f_equal.
    unfold remap_ref. destruct (m_parent (snd im) =? NULL). { cbn [bind] in Hz. injection Hz as <-. reflexivity. }
    unfold mget in Hz. destruct (in_range (zlen ms) (m_parent (snd im))); cbn [bind] in Hz;
      [injection Hz as <-; reflexivity|discriminate].
  - intros p m G. exists (set_site m (smap (m_site m))). apply sorted_id_map.
    rewrite Eys. now apply (getz_map' (fun m0 => set_site m0 (smap (m_site m0)))).
Qed.

(* cmp_mutation_canonical (6815-6837) is total as well, so the theorem covers canonicalise *)
Lemma mutation_canonical_le_total nd x y :
  mutation_canonical_le nd x y = true \/ mutation_canonical_le nd y x = true.
Proof.
  unfold mutation_canonical_le.
  destruct (Z.compare_spec (m_site (snd x)) (m_site (snd y))) as [E1|E1|E1];
  destruct (Z.compare_spec (m_site (snd y)) (m_site (snd x))) as [F1|F1|F1]; try lia; auto.
  pose proof (time_cmp_desc_flip (m_time (snd x)) (m_time (snd y))) as T.
  destruct (time_cmp_desc (m_time (snd x)) (m_time (snd y))); rewrite T; auto.
  destruct (Z.compare_spec (nd (fst y)) (nd (fst x))) as [E2|E2|E2];
  destruct (Z.compare_spec (nd (fst x)) (nd (fst y))) as [F2|F2|F2]; try lia; auto.
  destruct (Z.compare_spec (m_node (snd x)) (m_node (snd y))) as [E3|E3|E3];
  destruct (Z.compare_spec (m_node (snd y)) (m_node (snd x))) as [F3|F3|F3]; try lia; auto.
Qed.

(* ---- canonical individual order (tsk_table_sorter_sort_individuals_canonical, 7353-7450) ---- *)
Lemma individual_canonical_le_total nd fn x y :
  individual_canonical_le nd fn x y = true \/ individual_canonical_le nd fn y x = true.
Proof.
  unfold individual_canonical_le.
  destruct (Z.compare_spec (nd (fst y)) (nd (fst x))) as [E1|E1|E1];
  destruct (Z.compare_spec (nd (fst x)) (nd (fst y))) as [F1|F1|F1]; try lia; auto.
  destruct (Z.compare_spec (fn (fst x)) (fn (fst y))) as [E2|E2|E2];
  destruct (Z.compare_spec (fn (fst y)) (fn (fst x))) as [F2|F2|F2]; try lia; auto.
Qed.

(* individuals come out in the order of cmp_individual_canonical (number of descendants
   descending, first referring node, id); parents and the individual column of the nodes are
   renumbered by a map that sends an old id to the output row made from it *)
Theorem sort_individuals_canonical_remap : forall ns inds ns' inds',
  sort_individuals_canonical ns inds = Ok (ns', inds') ->
  exists ndesc sorted,
    individual_num_descendants inds = Ok ndesc /\
    Permutation sorted (index_from 0 inds) /\
    Sorted (fun a b => individual_canonical_le ndesc (first_nodes ns) a b = true) sorted /\
    let idmap := positions_from 0 sorted mnull in
    inds' = map (fun ir => mkI (i_flags (snd ir)) (i_loc (snd ir))
                               (map (remap_ref idmap) (i_parents (snd ir))) (i_md (snd ir))) sorted /\
    ns' = map (fun nd => mkN (n_flags nd) (n_time nd) (n_pop nd) (remap_ref idmap (n_ind nd)) (n_md nd)) ns /\
    (forall p r, getz inds p = Ok r -> getz sorted (idmap p) = Ok (p, r)).
Proof.
  intros ns inds ns' inds' H. unfold sort_individuals_canonical in H.
  destruct (individual_num_descendants inds) as [ndesc| | |]; cbn [bind] in H; try discriminate.
  set (sorted := isort (individual_canonical_le ndesc (first_nodes ns)) (index_from 0 inds)) in *.
  destruct (mfold _ sorted []) as [i2| | |] eqn:E1; cbn [bind] in H; try discriminate.
  destruct (mfold _ ns []) as [n2| | |] eqn:E2; cbn [bind] in H; try discriminate.
  inversion H; subst ns' inds'; clear H.
  exists ndesc, sorted. split; [reflexivity|]. split; [apply isort_perm|].
  split; [apply isort_sorted, individual_canonical_le_total|]. cbn zeta.
  set (idmap := positions_from 0 sorted mnull) in *.
  split; [|split].
  - match type of E1 with mfold ?g _ _ = _ =>
      apply (mfold_snoc g (fun ir : Z * individual =>
               do ps <- mfold (fun a p => do p' <- (if p =? NULL then Ok NULL else mget idmap (zlen inds) p);
                                          Ok (a ++ [p'])) (i_parents (snd ir)) [];
               Ok (mkI (i_flags (snd ir)) (i_loc (snd ir)) ps (i_md (snd ir))))) in E1 as [ys [-> F]] end.
    2:{ intros acc x. destruct (mfold _ (i_parents (snd x)) []); reflexivity. }
    cbn [app]. clearbody idmap. clear - F. induction F as [|ir y l l' Hy _ IH]; cbn [map]; auto. rewrite IH. f_equal.
    destruct (mfold _ (i_parents (snd ir)) []) as [ps| | |] eqn:Ep; cbn [bind] in Hy; try discriminate.
    injection Hy as <-. f_equal.
    apply (mfold_snoc _ (fun p => if p =? NULL then Ok NULL else mget idmap (zlen inds) p)) in Ep as [zs [-> Fp]].
    2:{ intros acc p. destruct (if p =? NULL then _ else _); reflexivity. }
    cbn [app]. clear - Fp. induction Fp as [|p z l l' Hz _ IHp]; cbn [map]; auto. rewrite IHp. f_equal.
    unfold remap_ref. destruct (p =? NULL). { now injection Hz as <-. }
    unfold mget in Hz. destruct (in_range (zlen inds) p); [now injection Hz as <-|discriminate].
  - match type of E2 with mfold ?g _ _ = _ =>
      apply (mfold_snoc g (fun nd => do i <- (if n_ind nd =? NULL then Ok NULL else mget idmap (zlen inds) (n_ind nd));
                                     Ok (mkN (n_flags nd) (n_time nd) (n_pop nd) i (n_md nd)))) in E2 as [ys [-> F]] end.
    2:{ intros acc x. destruct (if n_ind x =? NULL then _ else _); reflexivity. }
    cbn [app]. clearbody idmap. clear - F. induction F as [|nd y l l' Hy _ IH]; cbn [map]; auto. rewrite IH. f_equal.
    unfold remap_ref. destruct (n_ind nd =? NULL). { cbn [bind] in Hy. now injection Hy as <-. }
    unfold mget in Hy. destruct (in_range (zlen inds) (n_ind nd)); cbn [bind] in Hy; [now injection Hy as <-|discriminate].
  - intros p r G. apply sorted_id_map. exact G.
Qed.
