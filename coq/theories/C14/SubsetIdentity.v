(* C14 — subset by the identity node list with keep_unreferenced and no_change_populations
   (Python: reorder_populations=False, remove_unreferenced=False) returns the input. *)
From Coq Require Import List ZArith Bool Lia ZifyBool.
From TskVerif Require Import Base.Common C14.Model C14.Spec C14.Basics C14.SubsetInd C14.SubsetLoop
     C14.SubsetRows C14.SubsetMain.
Import ListNotations.
Open Scope Z_scope.

Lemma zrange_from_snoc s n : zrange_from s (S n) = zrange_from s n ++ [s + Z.of_nat n].
Proof.
  revert s. induction n; intros s.
  - cbn. now rewrite Z.add_0_r.
  - change (zrange_from s (S (S n))) with (s :: zrange_from (s + 1) (S n)). rewrite IHn.
    cbn [zrange_from app]. do 3 f_equal. lia.
Qed.

Lemma zrange_snoc n : zrange (S n) = zrange n ++ [Z.of_nat n].
Proof. unfold zrange. now rewrite zrange_from_snoc. Qed.

Lemma zrange_len n : zlen (zrange n) = Z.of_nat n.
Proof.
  induction n. { reflexivity. }
  rewrite zrange_snoc, zlen_app, IHn, zlen_cons, zlen_nil. lia.
Qed.

Lemma listed_zrange n u : listed (zrange n) u = in_range (Z.of_nat n) u.
Proof.
  induction n. { cbn. unfold in_range. lia. }
  rewrite zrange_snoc, listed_app, IHn. unfold in_range. lia.
Qed.

Lemma node_index_zrange n u : in_range (Z.of_nat n) u = true -> node_index (zrange n) u = u.
Proof.
  induction n; intros H. { unfold in_range in H. lia. }
  rewrite zrange_snoc, node_index_snoc, zrange_len.
  destruct (Z.of_nat n =? u) eqn:E. { lia. }
  apply IHn. unfold in_range in *. lia.
Qed.

Lemma forallb_zrange n : forallb (in_range (Z.of_nat n)) (zrange n) = true.
Proof.
  apply forallb_forall. intros u Hu. apply listed_In in Hu. now rewrite listed_zrange in Hu.
Qed.

Lemma count_from_all keep s n :
  (forall i, s <= i < s + Z.of_nat n -> keep i = true) -> count_from keep s n = Z.of_nat n.
Proof.
  revert s. induction n; intros s H. { reflexivity. }
  cbn [count_from]. rewrite H by lia. rewrite IHn by (intros; apply H; lia). lia.
Qed.

Lemma kept_map_all keep k :
  0 <= k -> (forall i, 0 <= i <= k -> keep i = true) -> kept_map keep k = k.
Proof.
  intros Hk H. unfold kept_map, rank. rewrite H by lia.
  rewrite count_from_all by (intros; apply H; lia). lia.
Qed.

Lemma filteri_all {A} keep (l : list A) k :
  (forall i, k <= i < k + zlen l -> keep i = true) -> filteri keep k l = l.
Proof.
  revert k. induction l as [|a l IH]; intros k H; auto.
  rewrite zlen_cons in H. pose proof (zlen_nonneg l).
  cbn [filteri]. rewrite H by lia. f_equal. apply IH. intros; apply H; lia.
Qed.

Lemma filter_all {A} (f : A -> bool) l : (forall a, In a l -> f a = true) -> filter f l = l.
Proof.
  induction l as [|a l IH]; intros H; auto. cbn [filter]. rewrite H by now left.
  f_equal. apply IH. intros; apply H; now right.
Qed.

Lemma map_id_in {A} (f : A -> A) l : (forall a, In a l -> f a = a) -> map f l = l.
Proof.
  induction l as [|a l IH]; intros H; auto. cbn [map]. rewrite H by now left.
  f_equal. apply IH. intros; apply H; now right.
Qed.

Lemma flat_map_ext_in' {A B} (f g : A -> list B) l :
  (forall a, In a l -> f a = g a) -> flat_map f l = flat_map g l.
Proof.
  induction l as [|a l IH]; intros H; auto. cbn [flat_map]. rewrite H by now left.
  f_equal. apply IH. intros; apply H; now right.
Qed.

Lemma flat_map_rows {A B} (f : A -> B) (l : list A) :
  flat_map (fun u => match getz l u with Ok r => [f r] | _ => [] end) (zrange (length l)) = map f l.
Proof.
  induction l as [|a l IH] using rev_ind. { reflexivity. }
  rewrite app_length. cbn [length]. replace (length l + 1)%nat with (S (length l)) by lia.
  rewrite zrange_snoc, flat_map_app, map_app. f_equal.
  - rewrite <- IH. apply flat_map_ext_in'. intros u Hu. apply listed_In in Hu. rewrite listed_zrange in Hu.
    rewrite getz_app_l; auto.
  - cbn [flat_map map]. fold (zlen l). replace (zlen l) with (zlen l + 0) by lia.
    rewrite getz_app_r by lia. rewrite getz_cons_0. reflexivity.
Qed.

Lemma flat_map_node_rows t (f : node -> node) :
  flat_map (fun u => match node_row t u with Some r => [f r] | None => [] end) (zrange (length (t_nodes t)))
  = map f (t_nodes t).
Proof.
  rewrite <- flat_map_rows. apply flat_map_ext_in'. intros u _. unfold node_row.
  destruct (getz (t_nodes t) u); reflexivity.
Qed.

Lemma remap_ref_id m n x : ref_ok n x = true -> (forall k, 0 <= k < n -> m k = k) -> remap_ref m x = x.
Proof.
  intros H M. unfold remap_ref. destruct (x =? NULL) eqn:E. { apply Z.eqb_eq in E. auto. }
  apply ref_ok_cases in H as [H|[_ H]]. { apply Z.eqb_neq in E. contradiction. }
  apply M. now apply in_range_iff.
Qed.

Theorem subset_identity_lemma : forall t,
  refs_in_range t = true ->
  subset t (zrange (length (t_nodes t))) true true = Ok t.
Proof.
  intros t R. rewrite subset_exact_lemma; [|exact R|exact (forallb_zrange (length (t_nodes t)))]. f_equal.
  set (nodes := zrange (length (t_nodes t))).
  assert (forall u, in_range (zlen (t_nodes t)) u = true -> listed nodes u = true) as L.
  { intros u Hu. unfold nodes. now rewrite listed_zrange. }
  assert (forall u, in_range (zlen (t_nodes t)) u = true -> node_index nodes u = u) as NI.
  { intros u Hu. unfold nodes. now apply node_index_zrange. }
  assert (forall k, 0 <= k -> ind_map t nodes true k = k) as IM.
  { intros k Hk. apply kept_map_all; auto. }
  destruct t as [ns es ss ms inds pops]. unfold spec_subset. cbn [t_nodes t_edges t_sites t_mutations t_individuals t_populations] in *.
  f_equal.
  - (* nodes *)
    unfold nodes. rewrite (flat_map_node_rows (mkT ns es ss ms inds pops)). cbn [t_nodes]. apply map_id_in.
    intros r Hr. destruct (refs_nodes _ R r Hr) as [Rp Ri]. cbn [t_populations t_individuals] in *.
    unfold spec_node. rewrite (remap_ref_id _ _ _ Rp) by (intros; reflexivity).
    rewrite (remap_ref_id _ _ _ Ri) by (intros; apply IM; lia). now destruct r.
  - (* edges *)
    unfold spec_edges. cbn [t_edges]. rewrite filter_all.
    + apply map_id_in. intros e He. destruct (refs_edges _ R e He) as [Hp Hc]. cbn [t_nodes] in *.
      unfold spec_edge. rewrite !NI by auto. now destruct e.
    + intros e He. destruct (refs_edges _ R e He) as [Hp Hc]. cbn [t_nodes] in *.
      unfold edge_kept. now rewrite !L.
  - (* sites *)
    unfold spec_sites. cbn [t_sites]. apply filteri_all. reflexivity.
  - (* mutations *)
    unfold spec_mutations. cbn [t_mutations].
    assert (forall m, In m ms -> mut_kept_row nodes m = true) as MK.
    { intros m Hm. destruct (refs_mutations _ R m Hm) as [Hn _]. cbn [t_nodes] in *. unfold mut_kept_row. now apply L. }
    rewrite filter_all by auto. apply map_id_in. intros m Hm.
    destruct (refs_mutations _ R m Hm) as [Hn [Hs Hp]]. cbn [t_nodes t_sites t_mutations] in *.
    unfold spec_mutation. rewrite NI by auto.
    rewrite kept_map_all; [|apply in_range_iff in Hs; lia|reflexivity].
    rewrite (remap_ref_id _ _ _ Hp).
    + now destruct m.
    + intros k Hk. apply kept_map_all; [lia|]. intros i Hi. unfold mut_kept. cbn [t_mutations].
      destruct (getz_in_range ms i) as [mi Hmi]. { apply in_range_iff. lia. }
      rewrite Hmi. apply MK. eapply getz_In; eauto.
  - (* individuals *)
    unfold spec_individuals. cbn [t_individuals]. rewrite filteri_all by reflexivity.
    apply map_id_in. intros r Hr. unfold spec_individual.
    assert (spec_parents (ind_map {| t_nodes := ns; t_edges := es; t_sites := ss; t_mutations := ms;
                                     t_individuals := inds; t_populations := pops |} nodes true) (i_parents r) = i_parents r) as ->.
    2:{ now destruct r. }
    pose proof (refs_individuals _ R r Hr) as P. cbn [t_individuals] in P.
    unfold spec_parents. rewrite filter_all.
    + apply map_id_in. intros p Hp. apply (remap_ref_id _ (zlen inds)); auto. intros; apply IM; lia.
    + intros p Hp. specialize (P p Hp). apply ref_ok_cases in P as [->|[N P]]; auto.
      rewrite IM by (apply in_range_iff in P; lia). apply orb_true_iff. right.
      apply negb_true_iff. now apply Z.eqb_neq.
Qed.
