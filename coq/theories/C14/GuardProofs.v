(* C14 — the integrity guard: when the modelled tsk_table_collection_check_integrity(…,0)
   passes, every reference is in range; so the subset / union theorems hold for EVERY table
   collection once stated for the guarded functions. *)
From Coq Require Import List ZArith Bool Lia ZifyBool Permutation.
From TskVerif Require Import Base.Common C14.Model C14.Spec C14.Basics C14.SubsetInd C14.SubsetMain
     C14.UnionProofs.
Import ListNotations.
Open Scope Z_scope.

Lemma first_code_zero {A} (f : A -> Z) l : first_code f l = 0 -> forall a, In a l -> f a = 0.
Proof.
  induction l as [|x l IH]; intros H a Ha. { destruct Ha. }
  cbn [first_code] in H. destruct (f x =? 0) eqn:E.
  - destruct Ha as [<-|Ha]; auto. now apply Z.eqb_eq.
  - apply Z.eqb_neq in E. contradiction.
Qed.

Lemma mutation_codes_zero t : forall ms j prev nk nu,
  mutation_codes t ms j prev nk nu = 0 ->
  forall m, In m ms ->
    in_range (zlen (t_nodes t)) (m_node m) = true /\ in_range (zlen (t_sites t)) (m_site m) = true /\
    ref_ok (zlen (t_mutations t)) (m_parent m) = true.
Proof.
  induction ms as [|x ms IH]; intros j prev nk nu H m Hm. { destruct Hm. }
  cbn [mutation_codes] in H.
  destruct (out_of (zlen (t_sites t)) (m_site x)) eqn:E1; [discriminate|].
  destruct (out_of (zlen (t_nodes t)) (m_node x)) eqn:E2; [discriminate|].
  destruct ((m_parent x <? NULL) || (zlen (t_mutations t) <=? m_parent x)) eqn:E3; [discriminate|].
  destruct (m_parent x =? j); [discriminate|].
  destruct (match m_time x with Some tm => _ | None => false end); [discriminate|].
  cbv zeta in H.
  destruct ((0 <? _) && (0 <? _)); [discriminate|].
  match type of H with (if ?c =? 0 then _ else _) = 0 => destruct (c =? 0) eqn:Ec end.
  2:{ apply Z.eqb_neq in Ec. contradiction. }
  destruct Hm as [<-|Hm]; [|eapply IH; eauto].
  unfold out_of in E1, E2. unfold ref_ok, in_range. rewrite NULL_neg' in *. repeat split; lia.
Qed.

Lemma individual_codes_zero ni : forall rows j,
  individual_codes ni rows j = 0 ->
  forall r, In r rows -> forall p, In p (i_parents r) -> ref_ok ni p = true.
Proof.
  induction rows as [|x rows IH]; intros j H r Hr p Hp. { destruct Hr. }
  cbn [individual_codes] in H.
  match type of H with (if ?c =? 0 then _ else _) = 0 => destruct (c =? 0) eqn:Ec end.
  2:{ apply Z.eqb_neq in Ec. contradiction. }
  destruct Hr as [<-|Hr]; [|eapply IH; eauto].
  apply Z.eqb_eq in Ec. pose proof (first_code_zero _ _ Ec p Hp) as X. cbv beta in X.
  unfold ref_ok, in_range, out_of in *. destruct (p =? NULL) eqn:E; auto. cbn [negb andb orb] in *.
  destruct ((p <? 0) || (ni <=? p)) eqn:F; [discriminate|]. lia.
Qed.

Theorem guard_gives_refs : forall t, check_integrity0 t = Ok tt -> refs_in_range t = true.
Proof.
  intros t H. unfold check_integrity0 in H.
  destruct (integrity_code t =? 0) eqn:E; [|discriminate]. apply Z.eqb_eq in E.
  unfold integrity_code in E.
  destruct (first_code (node_code _ _) (t_nodes t) =? 0) eqn:C1; cbn [negb] in E.
  2:{ apply Z.eqb_neq in C1. contradiction. }
  destruct (first_code (edge_code _) (t_edges t) =? 0) eqn:C2; cbn [negb] in E.
  2:{ apply Z.eqb_neq in C2. contradiction. }
  destruct (first_code site_code (t_sites t) =? 0) eqn:C3; cbn [negb] in E.
  2:{ apply Z.eqb_neq in C3. contradiction. }
  destruct (mutation_codes t (t_mutations t) 0 None 0 0 =? 0) eqn:C4; cbn [negb] in E.
  2:{ apply Z.eqb_neq in C4. contradiction. }
  apply Z.eqb_eq in C1, C2, C4.
  unfold refs_in_range. rewrite !andb_true_iff. repeat split.
  - apply forallb_forall. intros r Hr. pose proof (first_code_zero _ _ C1 r Hr) as X.
    unfold node_code in X.
    destruct ((n_pop r <? NULL) || (zlen (t_populations t) <=? n_pop r)) eqn:A; [discriminate|].
    destruct ((n_ind r <? NULL) || (zlen (t_individuals t) <=? n_ind r)) eqn:B; [discriminate|].
    unfold ref_ok, in_range. rewrite NULL_neg' in *. lia.
  - apply forallb_forall. intros e He. pose proof (first_code_zero _ _ C2 e He) as X.
    unfold edge_code in X. cbv zeta in X.
    destruct (e_parent e =? NULL); [discriminate|].
    destruct (out_of (zlen (t_nodes t)) (e_parent e)) eqn:A; [discriminate|].
    destruct (e_child e =? NULL); [discriminate|].
    destruct (out_of (zlen (t_nodes t)) (e_child e)) eqn:B; [discriminate|].
    unfold out_of, in_range in *. lia.
  - apply forallb_forall. intros m Hm.
    destruct (mutation_codes_zero t _ _ _ _ _ C4 m Hm) as [A [B C]]. now rewrite A, B, C.
  - apply forallb_forall. intros r Hr. apply forallb_forall. intros p Hp.
    eapply individual_codes_zero; eauto.
Qed.

(* subset, for every table collection: the guard's error, or out-of-bounds, or exactly the spec *)
Theorem subset_total_lemma : forall t nodes ku ncp,
  subset_checked t nodes ku ncp =
  if integrity_code t =? 0
  then (if forallb (in_range (zlen (t_nodes t))) nodes
        then Ok (spec_subset t nodes ku ncp) else Err ERR_NODE_OOB)
  else Err (integrity_code t).
Proof.
  intros t nodes ku ncp. unfold subset_checked.
  destruct (check_integrity0 t) as [[]| | |] eqn:G; unfold check_integrity0 in G;
    destruct (integrity_code t =? 0) eqn:E; try discriminate; cbn [bind].
  - assert (refs_in_range t = true) as R by (apply guard_gives_refs; unfold check_integrity0; now rewrite E).
    destruct (forallb (in_range (zlen (t_nodes t))) nodes) eqn:F.
    + now apply subset_exact_lemma.
    + now apply subset_out_of_range_lemma.
  - now inversion G.
Qed.

(* union, for every pair of table collections: a guard error, or the union theorems apply *)
Theorem union_total_lemma : forall self other mapping chk addp,
  union_checked self other mapping chk addp =
  if negb (integrity_code self =? 0) then Err (integrity_code self)
  else if negb (integrity_code other =? 0) then Err (integrity_code other)
  else union self other mapping chk addp.
Proof.
  intros. unfold union_checked, check_integrity0.
  destruct (integrity_code self =? 0); cbn [negb bind]; auto.
  destruct (integrity_code other =? 0); cbn [negb bind]; auto.
Qed.

Theorem union_checked_adds_exactly_lemma : forall self other mapping chk addp u,
  union_checked self other mapping chk addp = Ok u ->
  refs_in_range self = true /\ refs_in_range other = true /\
  union self other mapping chk addp = Ok u.
Proof.
  intros self other mapping chk addp u H. rewrite union_total_lemma in H.
  destruct (integrity_code self =? 0) eqn:E1; cbn [negb] in H; [|discriminate].
  destruct (integrity_code other =? 0) eqn:E2; cbn [negb] in H; [|discriminate].
  repeat split; auto; apply guard_gives_refs; unfold check_integrity0; now rewrite ?E1, ?E2.
Qed.

(* non-vacuity *)
From TskVerif Require Import C14.Examples.
Example ex_guard_ok : check_integrity0 ex_t = Ok tt.
Proof. vm_compute. reflexivity. Qed.
Example ex_guard_bad_parent :
  check_integrity0 (mkT (t_nodes ex_t) [mkE 0 10 7 0 []] [] [] (t_individuals ex_t) (t_populations ex_t))
  = Err ERR_NODE_OOB.
Proof. vm_compute. reflexivity. Qed.
Example ex_guard_order :      (* node errors come before edge errors *)
  check_integrity0 (mkT [mkN 0 0 5 (-1) []] [mkE 0 10 (-1) 0 []] [] [] [] []) = Err ERR_POPULATION_OOB.
Proof. vm_compute. reflexivity. Qed.

(* ---- collection-level attributes in the shared-portion check ---- *)
Theorem union_attrs_refused_lemma : forall a_self a_other self other mapping addp,
  attrs_eqb a_self a_other = false ->
  is_ok (union_with_attrs a_self a_other self other mapping true addp) = false /\
  (zlen mapping = zlen (t_nodes other) -> bad_map self mapping = false ->
   (check_subset_equality self other mapping = Ok tt \/
    check_subset_equality self other mapping = Err ERR_UNION_DIFF_HISTORIES) ->
   union_with_attrs a_self a_other self other mapping true addp = Err ERR_UNION_DIFF_HISTORIES).
Proof.
  intros a_s a_o self other mapping addp N. unfold union_with_attrs. rewrite N. cbn [negb andb].
  split.
  - destruct (negb (zlen mapping =? zlen (t_nodes other))); auto. destruct (bad_map self mapping); auto.
    destruct (check_subset_equality self other mapping); auto.
  - intros L B [H|H]; rewrite L, Z.eqb_refl, B, H; reflexivity.
Qed.

Theorem union_attrs_equal_lemma : forall a_self a_other self other mapping chk addp,
  (chk = false \/ attrs_eqb a_self a_other = true) ->
  union_with_attrs a_self a_other self other mapping chk addp = union self other mapping chk addp.
Proof.
  intros a_s a_o self other mapping chk addp H. unfold union_with_attrs, union.
  destruct (negb (zlen mapping =? zlen (t_nodes other))); auto. destruct (bad_map self mapping); auto.
  destruct H as [->| ->]; auto. cbn [negb]. now rewrite andb_false_r.
Qed.

Example ex_union_attrs_refused :       (* no shared node at all, other in different time units *)
  union_with_attrs [[20]; [103]] [[20]; [121]] ex_self ex_other [-1; -1; -1] true true = Err ERR_UNION_DIFF_HISTORIES.
Proof. vm_compute. reflexivity. Qed.
Example ex_union_attrs_ok : is_ok (union_with_attrs [[20]; [103]] [[20]; [103]] ex_self ex_other [-1; -1; -1] true true) = true.
Proof. vm_compute. reflexivity. Qed.
