(* C14 — executable model of subset / union in /repo/c/tskit/tables.c.

   Modelled line by line (row level: a table is a list of row records, ragged columns are
   [list Z]):
     tsk_table_collection_add_and_remap_node      tables.c 12823-12889
     tsk_table_collection_subset                  tables.c 12891-13120
     tsk_check_subset_equality                    tables.c 13122-13189
     tsk_table_collection_union                   tables.c 13191-13379
   and, because union / the shared-portion check call them,
     tsk_table_sorter_run with the default and the canonical sorters  (6903-7521)
     tsk_table_collection_canonicalise            12235-12271
     tsk_table_collection_deduplicate_sites       12277-12345
     tsk_table_collection_compute_mutation_parents 12347-12461 (per-site part; the marginal
       tree is taken from the edge rows by definition instead of the index sweep).
   The Python wrappers (tables.py TableCollection.subset = C subset + sort) are [py_subset].

   Id maps are the malloc'ed arrays of the C code: total functions [Z -> Z] initialised to
   TSK_NULL (memset 0xff) and read through [mget] with the array length, so that an index
   outside the array is a visible [OOB], never a default value.
   Coordinates and times are only compared by these functions, so they are [Z] (DESIGN 3.2);
   an unknown mutation time is [None].
   tsk_table_collection_check_integrity(…, 0) at the entry of subset/union/sort is NOT
   modelled (property C02): the theorems and the correspondence take tables that pass it; a
   reference outside a table shows up as [OOB].  Migrations are outside the table type
   (both functions refuse any collection that has them). *)
From Coq Require Import List ZArith Bool Lia.
From TskVerif Require Import Base.Common.
Import ListNotations.
Open Scope Z_scope.

Definition NULL : Z := -1.
Definition ERR_NODE_OOB : Z := -202.              (* TSK_ERR_NODE_OUT_OF_BOUNDS *)
Definition ERR_POPULATION_OOB : Z := -204.
Definition ERR_INDIVIDUAL_OOB : Z := -207.
Definition ERR_CONTRADICTORY_CHILDREN : Z := -311.
Definition ERR_MUTATION_PARENT_AFTER_CHILD : Z := -502.
Definition ERR_MUTATION_PARENT_INCONSISTENT : Z := -503.
Definition ERR_UNION_BAD_MAP : Z := -1400.
Definition ERR_UNION_DIFF_HISTORIES : Z := -1401.
Definition ERR_INDIVIDUAL_PARENT_CYCLE : Z := -1702.

Record node := mkN { n_flags : Z; n_time : Z; n_pop : Z; n_ind : Z; n_md : list Z }.
Record edge := mkE { e_left : Z; e_right : Z; e_parent : Z; e_child : Z; e_md : list Z }.
Record site := mkS { s_pos : Z; s_anc : list Z; s_md : list Z }.
Record mutation := mkM { m_site : Z; m_node : Z; m_derived : list Z; m_parent : Z;
                         m_time : option Z; m_md : list Z }.
Record individual := mkI { i_flags : Z; i_loc : list Z; i_parents : list Z; i_md : list Z }.
Record population := mkP { p_md : list Z }.
Record tables := mkT { t_nodes : list node; t_edges : list edge; t_sites : list site;
                       t_mutations : list mutation; t_individuals : list individual;
                       t_populations : list population }.

(* ---- boolean equality of rows (what tsk_*_table_equals compares at row level) ---- *)
Definition node_eqb (a b : node) : bool :=
  (n_flags a =? n_flags b) && (n_time a =? n_time b) && (n_pop a =? n_pop b) &&
  (n_ind a =? n_ind b) && zlist_eqb (n_md a) (n_md b).
Definition edge_eqb (a b : edge) : bool :=
  (e_left a =? e_left b) && (e_right a =? e_right b) && (e_parent a =? e_parent b) &&
  (e_child a =? e_child b) && zlist_eqb (e_md a) (e_md b).
Definition site_eqb (a b : site) : bool :=
  (s_pos a =? s_pos b) && zlist_eqb (s_anc a) (s_anc b) && zlist_eqb (s_md a) (s_md b).
Definition mutation_eqb (a b : mutation) : bool :=
  (m_site a =? m_site b) && (m_node a =? m_node b) && zlist_eqb (m_derived a) (m_derived b) &&
  (m_parent a =? m_parent b) && opt_eqb Z.eqb (m_time a) (m_time b) && zlist_eqb (m_md a) (m_md b).
Definition individual_eqb (a b : individual) : bool :=
  (i_flags a =? i_flags b) && zlist_eqb (i_loc a) (i_loc b) && zlist_eqb (i_parents a) (i_parents b) &&
  zlist_eqb (i_md a) (i_md b).
Definition population_eqb (a b : population) : bool := zlist_eqb (p_md a) (p_md b).
Definition tables_eqb (a b : tables) : bool :=
  list_eqb node_eqb (t_nodes a) (t_nodes b) && list_eqb edge_eqb (t_edges a) (t_edges b) &&
  list_eqb site_eqb (t_sites a) (t_sites b) && list_eqb mutation_eqb (t_mutations a) (t_mutations b) &&
  list_eqb individual_eqb (t_individuals a) (t_individuals b) &&
  list_eqb population_eqb (t_populations a) (t_populations b).
Definition res_tables_eqb (r : res tables) (b : tables) : bool :=
  match r with Ok a => tables_eqb a b | _ => false end.
Definition res_err_is (r : res tables) (c : Z) : bool :=
  match r with Err c' => c' =? c | _ => false end.

(* ---- id maps ---- *)
Definition zmap := Z -> Z.
Definition mnull : zmap := fun _ => NULL.
Definition upd (m : zmap) (i v : Z) : zmap := fun k => if k =? i then v else m k.
Definition in_range (n i : Z) : bool := (0 <=? i) && (i <? n).
Definition mget (m : zmap) (n i : Z) : res Z := if in_range n i then Ok (m i) else OOB.
(* a write through the array: outside [0,n) it is a heap overflow in C, [OOB] here *)
Definition mset (m : zmap) (n i v : Z) : res zmap := if in_range n i then Ok (upd m i v) else OOB.

(* checked row access.  [Base.Common.get] converts the index to [nat] first, which is
   unusable for an index like 2^31-1; compare with the length first. *)
Definition getz {A} (l : list A) (i : Z) : res A :=
  if in_range (zlen l) i then get l i else OOB.

(* tsk_X_table_get_row: bounds-checked, returns the library error for that table *)
Definition get_row {A} (l : list A) (i : Z) (code : Z) : res A :=
  match getz l i with Ok a => Ok a | _ => Err code end.

Fixpoint zrange_from (s : Z) (n : nat) : list Z :=
  match n with O => [] | S n' => s :: zrange_from (s + 1) n' end.
Definition zrange (n : nat) : list Z := zrange_from 0 n.

Fixpoint mfold {A S} (f : S -> A -> res S) (l : list A) (s : S) : res S :=
  match l with [] => Ok s | a :: l' => do s' <- f s a; mfold f l' s' end.

(* ------------------------------------------------------------------------------------ *)
(* tsk_table_collection_add_and_remap_node (12823-12889)                                 *)
(* ------------------------------------------------------------------------------------ *)
Record st := mkSt { st_inds : list individual; st_pops : list population; st_nodes : list node;
                    st_imap : zmap; st_pmap : zmap; st_nmap : zmap }.

Definition add_and_remap_node (other : tables) (add_populations : bool) (s : st) (node_id : Z) : res st :=
  let ni := zlen (t_individuals other) in
  let np := zlen (t_populations other) in
  do nd <- get_row (t_nodes other) node_id ERR_NODE_OOB;
  do '(inds, imap, new_ind) <-
     (if n_ind nd =? NULL then Ok (st_inds s, st_imap s, NULL) else
      do cur <- mget (st_imap s) ni (n_ind nd);
      if cur =? NULL then
        do row <- get_row (t_individuals other) (n_ind nd) ERR_INDIVIDUAL_OOB;
        let id := zlen (st_inds s) in
        Ok (st_inds s ++ [row], upd (st_imap s) (n_ind nd) id, id)
      else Ok (st_inds s, st_imap s, cur));
  do '(pops, pmap, new_pop) <-
     (if n_pop nd =? NULL then Ok (st_pops s, st_pmap s, NULL) else
      do pmap1 <- (if add_populations then Ok (st_pmap s) else mset (st_pmap s) np (n_pop nd) (n_pop nd));
      do cur <- mget pmap1 np (n_pop nd);
      if cur =? NULL then
        do row <- get_row (t_populations other) (n_pop nd) ERR_POPULATION_OOB;
        let id := zlen (st_pops s) in
        Ok (st_pops s ++ [row], upd pmap1 (n_pop nd) id, id)
      else Ok (st_pops s, pmap1, cur));
  let id := zlen (st_nodes s) in
  Ok (mkSt inds pops (st_nodes s ++ [mkN (n_flags nd) (n_time nd) new_pop new_ind (n_md nd)])
           imap pmap (upd (st_nmap s) node_id id)).

(* ------------------------------------------------------------------------------------ *)
(* tsk_table_collection_subset (12891-13120)                                             *)
(* ------------------------------------------------------------------------------------ *)

(* 12965-12974: mark the individuals of the listed nodes (bounds check of the node list) *)
Definition mark_individual (t : tables) (m : zmap) (u : Z) : res zmap :=
  do nd <- get_row (t_nodes t) u ERR_NODE_OOB;
  if n_ind nd =? NULL then Ok m else mset m (zlen (t_individuals t)) (n_ind nd) 0.

(* 12976-12982: number the marked entries in table order *)
Fixpoint renumber (m : zmap) (ks : list Z) (j : Z) : zmap :=
  match ks with
  | [] => m
  | k :: ks' => if m k =? NULL then renumber m ks' j else renumber (upd m k j) ks' (j + 1)
  end.

(* 12986-12999: parents of a retained individual: NULL stays, a retained parent is remapped,
   a parent that is not retained is removed from the list *)
Fixpoint remap_parents (imap : zmap) (ni : Z) (ps : list Z) : res (list Z) :=
  match ps with
  | [] => Ok []
  | p :: ps' =>
      do rest <- remap_parents imap ni ps';
      if p =? NULL then Ok (NULL :: rest) else
      do np <- mget imap ni p;
      if np =? NULL then Ok rest else Ok (np :: rest)
  end.

Fixpoint subset_individuals (imap : zmap) (ni : Z) (k : Z) (rows : list individual) : res (list individual) :=
  match rows with
  | [] => Ok []
  | r :: rows' =>
      do rest <- subset_individuals imap ni (k + 1) rows';
      if imap k =? NULL then Ok rest else
      do ps <- remap_parents imap ni (i_parents r);
      Ok (mkI (i_flags r) (i_loc r) ps (i_md r) :: rest)
  end.

(* 13028-13041 *)
Fixpoint unused_populations (pmap : zmap) (k : Z) (rows : list population) : list population :=
  match rows with
  | [] => []
  | r :: rows' => if pmap k =? NULL then r :: unused_populations pmap (k + 1) rows'
                  else unused_populations pmap (k + 1) rows'
  end.

(* 13043-13056 *)
Fixpoint subset_edges (nmap : zmap) (nn : Z) (es : list edge) : res (list edge) :=
  match es with
  | [] => Ok []
  | e :: es' =>
      do p <- mget nmap nn (e_parent e);
      do c <- mget nmap nn (e_child e);
      do rest <- subset_edges nmap nn es';
      if negb (p =? NULL) && negb (c =? NULL)
      then Ok (mkE (e_left e) (e_right e) p c (e_md e) :: rest) else Ok rest
  end.

(* 13061-13072: first pass over the mutations: mutation_map and the marks in site_map *)
Fixpoint mutation_pass1 (nmap : zmap) (nn ns : Z) (ms : list mutation) (k j : Z) (mmap smap : zmap)
  : res (zmap * zmap) :=
  match ms with
  | [] => Ok (mmap, smap)
  | m :: ms' =>
      do u <- mget nmap nn (m_node m);
      if u =? NULL then mutation_pass1 nmap nn ns ms' (k + 1) j mmap smap else
      do cur <- mget smap ns (m_site m);
      let smap' := if cur =? NULL then upd smap (m_site m) 1 else smap in
      mutation_pass1 nmap nn ns ms' (k + 1) (j + 1) (upd mmap k j) smap'
  end.

(* 13074-13088 *)
Fixpoint subset_sites (keep : bool) (ss : list site) (k j : Z) (smap : zmap) : list site * zmap :=
  match ss with
  | [] => ([], smap)
  | s :: ss' =>
      if keep || negb (smap k =? NULL) then
        let '(rest, smap') := subset_sites keep ss' (k + 1) (j + 1) (upd smap k j) in (s :: rest, smap')
      else subset_sites keep ss' (k + 1) j smap
  end.

(* 13089-13109 *)
Fixpoint subset_mutations (nmap mmap smap : zmap) (nn nm ns : Z) (ms : list mutation) : res (list mutation) :=
  match ms with
  | [] => Ok []
  | m :: ms' =>
      do u <- mget nmap nn (m_node m);
      do rest <- subset_mutations nmap mmap smap nn nm ns ms';
      if u =? NULL then Ok rest else
      do par <- (if m_parent m =? NULL then Ok NULL else mget mmap nm (m_parent m));
      do s <- mget smap ns (m_site m);
      Ok (mkM s u (m_derived m) par (m_time m) (m_md m) :: rest)
  end.

Definition identity_map : zmap := fun k => k.

Definition subset (t : tables) (nodes : list Z) (keep_unreferenced no_change_populations : bool)
  : res tables :=
  let nn := zlen (t_nodes t) in
  let ni := zlen (t_individuals t) in
  let np := zlen (t_populations t) in
  let ns := zlen (t_sites t) in
  let nm := zlen (t_mutations t) in
  (* 12944-12953 *)
  let pops0 := if no_change_populations then t_populations t else [] in
  let pmap0 := if no_change_populations then identity_map else mnull in
  (* 12959-12982 *)
  do marks <- (if keep_unreferenced then Ok (fun _ : Z => 0) else mfold (mark_individual t) nodes mnull);
  let imap := renumber marks (zrange (length (t_individuals t))) 0 in
  (* 12983-13009 *)
  do inds <- subset_individuals imap ni 0 (t_individuals t);
  (* 13012-13018 *)
  do s <- mfold (add_and_remap_node t true) nodes (mkSt inds pops0 [] imap pmap0 mnull);
  (* 13028-13041 *)
  let pops := if keep_unreferenced then st_pops s ++ unused_populations (st_pmap s) 0 (t_populations t)
              else st_pops s in
  do es <- subset_edges (st_nmap s) nn (t_edges t);
  do '(mmap, smarks) <- mutation_pass1 (st_nmap s) nn ns (t_mutations t) 0 0 mnull mnull;
  let '(ss, smap) := subset_sites keep_unreferenced (t_sites t) 0 0 smarks in
  do ms <- subset_mutations (st_nmap s) mmap smap nn nm ns (t_mutations t);
  Ok (mkT (st_nodes s) es ss ms (st_inds s) pops).

(* ------------------------------------------------------------------------------------ *)
(* sorting (tsk_table_sorter_run, 7452-7521).  libc qsort with a comparison that is a   *)
(* total order on the rows met here (ties are broken by the row id) is modelled by a     *)
(* stable insertion sort.  Edges: cmp_edge has no id tie-break; rows with equal          *)
(* (time, parent, child, left) do not occur in tables that pass TSK_CHECK_TREES.         *)
(* ------------------------------------------------------------------------------------ *)
Section Sort.
  Context {A : Type} (le : A -> A -> bool).
  Fixpoint insert (x : A) (l : list A) : list A :=
    match l with
    | [] => [x]
    | y :: l' => if le x y then x :: l else y :: insert x l'
    end.
  (* stable: an element is inserted after the elements already there that are <= it; we
     insert from the right so earlier rows stay first among equals *)
  Definition isort (l : list A) : list A := fold_right insert [] l.
End Sort.

Definition lex2 (a b : Z * Z) : comparison :=
  match Z.compare (fst a) (fst b) with Eq => Z.compare (snd a) (snd b) | c => c end.

(* cmp_edge 6855-6875: (time[parent], parent, child, left) *)
Definition edge_le (time_of : Z -> Z) (a b : edge) : bool :=
  match Z.compare (time_of (e_parent a)) (time_of (e_parent b)) with
  | Lt => true | Gt => false
  | Eq => match Z.compare (e_parent a) (e_parent b) with
          | Lt => true | Gt => false
          | Eq => match Z.compare (e_child a) (e_child b) with
                  | Lt => true | Gt => false
                  | Eq => e_left a <=? e_left b
                  end
          end
  end.

Definition node_time (ns : list node) (u : Z) : Z :=
  match getz ns u with Ok nd => n_time nd | _ => 0 end.

Definition sort_edges (t : tables) : list edge := isort (edge_le (node_time (t_nodes t))) (t_edges t).

(* index a list: (id, row) *)
Fixpoint index_from {A} (k : Z) (l : list A) : list (Z * A) :=
  match l with [] => [] | a :: l' => (k, a) :: index_from (k + 1) l' end.

(* map old id -> new position, from the sorted list of (old id, row) *)
Fixpoint positions_from {A} (k : Z) (l : list (Z * A)) (m : zmap) : zmap :=
  match l with [] => m | (old, _) :: l' => positions_from (k + 1) l' (upd m old k) end.

(* cmp_site 6778-6795: position then id *)
Definition site_le (a b : Z * site) : bool :=
  match Z.compare (s_pos (snd a)) (s_pos (snd b)) with
  | Lt => true | Gt => false | Eq => fst a <=? fst b end.

(* cmp_mutation 6797-6813: site, then time (descending) when both are known, then id *)
Definition time_cmp_desc (a b : option Z) : comparison :=
  match a, b with
  | Some x, Some y => Z.compare y x
  | _, _ => Eq
  end.
Definition mutation_le (a b : Z * mutation) : bool :=
  match Z.compare (m_site (snd a)) (m_site (snd b)) with
  | Lt => true | Gt => false
  | Eq => match time_cmp_desc (m_time (snd a)) (m_time (snd b)) with
          | Lt => true | Gt => false | Eq => fst a <=? fst b end
  end.

Definition set_site (m : mutation) (s : Z) : mutation :=
  mkM s (m_node m) (m_derived m) (m_parent m) (m_time m) (m_md m).
Definition set_parent (m : mutation) (p : Z) : mutation :=
  mkM (m_site m) (m_node m) (m_derived m) p (m_time m) (m_md m).

(* tsk_table_sorter_sort_sites + sort_mutations (7010-7118), generic in the comparison *)
Definition sort_sites_mutations (mle : Z * mutation -> Z * mutation -> bool)
           (ss : list site) (ms : list mutation) : res (list site * list mutation) :=
  let sorted_sites := isort site_le (index_from 0 ss) in
  let site_id_map := positions_from 0 sorted_sites mnull in
  let ns := zlen ss in
  do ms1 <- mfold (fun acc m => do s <- mget site_id_map ns (m_site m); Ok (acc ++ [set_site m s])) ms [];
  let sorted := isort mle (index_from 0 ms1) in
  let mutation_id_map := positions_from 0 sorted mnull in
  let nm := zlen ms in
  do ms2 <- mfold (fun acc (im : Z * mutation) =>
                     let m := snd im in
                     do p <- (if m_parent m =? NULL then Ok NULL else mget mutation_id_map nm (m_parent m));
                     Ok (acc ++ [set_parent m p])) sorted [];
  Ok (map snd sorted_sites, ms2).

(* tsk_table_collection_sort(self, NULL, 0): edges, sites, mutations; individuals untouched *)
Definition sort_tables (t : tables) : res tables :=
  do '(ss, ms) <- sort_sites_mutations mutation_le (t_sites t) (t_mutations t);
  Ok (mkT (t_nodes t) (sort_edges t) ss ms (t_individuals t) (t_populations t)).

(* ---- canonical sorters ---- *)

(* 7142-7156: number of descendants of each mutation through the parent column *)
Fixpoint bump_ancestors (fuel : nat) (parent_of : Z -> res Z) (p : Z) (cnt : zmap) (limit : Z) : res zmap :=
  if p =? NULL then Ok cnt else
  match fuel with
  | O => Err ERR_MUTATION_PARENT_INCONSISTENT
  | S f =>
      let c := cnt p + 1 in
      if limit <? c then Err ERR_MUTATION_PARENT_INCONSISTENT else
      do p' <- parent_of p;
      bump_ancestors f parent_of p' (upd cnt p c) limit
  end.

Definition mutation_num_descendants (ms : list mutation) : res zmap :=
  let nm := zlen ms in
  let parent_of := fun p => do m <- getz ms p; Ok (m_parent m) in
  mfold (fun cnt m => bump_ancestors (S (length ms)) parent_of (m_parent m) cnt nm) ms (fun _ => 0).

(* cmp_mutation_canonical 6815-6837 *)
Definition mutation_canonical_le (nd : zmap) (a b : Z * mutation) : bool :=
  match Z.compare (m_site (snd a)) (m_site (snd b)) with
  | Lt => true | Gt => false
  | Eq => match time_cmp_desc (m_time (snd a)) (m_time (snd b)) with
          | Lt => true | Gt => false
          | Eq => match Z.compare (nd (fst b)) (nd (fst a)) with
                  | Lt => true | Gt => false
                  | Eq => match Z.compare (m_node (snd a)) (m_node (snd b)) with
                          | Lt => true | Gt => false | Eq => fst a <=? fst b end
                  end
          end
  end.

(* tsk_individual_table_topological_sort 7200-7276 with num_descendants *)
Definition count_children (inds : list individual) : zmap :=
  fold_left (fun cnt r => fold_left (fun c p => if p =? NULL then c else upd c p (c p + 1)) (i_parents r) cnt)
            inds (fun _ => 0).

Fixpoint topo_loop (fuel : nat) (inds : list individual) (queue : list Z) (incoming ndesc : zmap)
  : res (zmap * zmap) :=
  match queue with
  | [] => Ok (incoming, ndesc)
  | j :: queue' =>
      match fuel with
      | O => Fuel
      | S f =>
          do r <- getz inds j;
          let '(incoming', ndesc', added) :=
            fold_left (fun '(inc, nde, add) p =>
                         if p =? NULL then (inc, nde, add) else
                         let inc' := upd inc p (inc p - 1) in
                         let nde' := upd nde p (nde p + 1 + nde j) in
                         if inc' p =? 0 then (inc', nde', add ++ [p]) else (inc', nde', add))
                      (i_parents r) (incoming, ndesc, []) in
          topo_loop f inds (queue' ++ added) incoming' ndesc'
      end
  end.

Definition individual_num_descendants (inds : list individual) : res zmap :=
  let incoming := count_children inds in
  let ids := zrange (length inds) in
  let start := filter (fun i => incoming i =? 0) (rev ids) in
  do '(incoming', ndesc) <- topo_loop (S (length inds)) inds start incoming (fun _ => 0);
  if existsb (fun i => 0 <? incoming' i) ids then Err ERR_INDIVIDUAL_PARENT_CYCLE else Ok ndesc.

(* cmp_individual_canonical 6839-6853: num_descendants descending, first node, id *)
Definition individual_canonical_le (nd fn : zmap) (a b : Z * individual) : bool :=
  match Z.compare (nd (fst b)) (nd (fst a)) with
  | Lt => true | Gt => false
  | Eq => match Z.compare (fn (fst a)) (fn (fst b)) with
          | Lt => true | Gt => false | Eq => fst a <=? fst b end
  end.

(* 7394-7400 *)
Definition first_nodes (ns : list node) : zmap :=
  fold_left (fun fn '(j, nd) => if n_ind nd =? NULL then fn else upd fn (n_ind nd) (Z.min j (fn (n_ind nd))))
            (index_from 0 ns) (fun _ => zlen ns).

(* tsk_table_sorter_sort_individuals_canonical 7353-7450 *)
Definition sort_individuals_canonical (ns : list node) (inds : list individual)
  : res (list node * list individual) :=
  do ndesc <- individual_num_descendants inds;
  let fn := first_nodes ns in
  let sorted := isort (individual_canonical_le ndesc fn) (index_from 0 inds) in
  let idmap := positions_from 0 sorted mnull in
  let ni := zlen inds in
  let remap := fun p => if p =? NULL then Ok NULL else mget idmap ni p in
  do inds' <- mfold (fun acc (ir : Z * individual) =>
                       let r := snd ir in
                       do ps <- mfold (fun a p => do p' <- remap p; Ok (a ++ [p'])) (i_parents r) [];
                       Ok (acc ++ [mkI (i_flags r) (i_loc r) ps (i_md r)])) sorted [];
  do ns' <- mfold (fun acc nd => do i <- remap (n_ind nd);
                                 Ok (acc ++ [mkN (n_flags nd) (n_time nd) (n_pop nd) i (n_md nd)])) ns [];
  Ok (ns', inds').

(* tsk_table_collection_canonicalise(self, options) 12235-12271 *)
Definition canonicalise (t : tables) (keep_unreferenced : bool) : res tables :=
  do t1 <- subset t (zrange (length (t_nodes t))) keep_unreferenced false;
  let es := sort_edges t1 in
  do ndesc <- mutation_num_descendants (t_mutations t1);
  do '(ss, ms) <- sort_sites_mutations (mutation_canonical_le ndesc) (t_sites t1) (t_mutations t1);
  do '(ns, inds) <- sort_individuals_canonical (t_nodes t1) (t_individuals t1);
  Ok (mkT ns es ss ms inds (t_populations t1)).

(* ------------------------------------------------------------------------------------ *)
(* tsk_check_subset_equality (13122-13189)                                               *)
(* ------------------------------------------------------------------------------------ *)
Fixpoint shared_lists (k : Z) (mapping : list Z) : list Z * list Z :=
  match mapping with
  | [] => ([], [])
  | m :: rest =>
      let '(a, b) := shared_lists (k + 1) rest in
      if m =? NULL then (a, b) else (m :: a, k :: b)
  end.

Definition check_subset_equality (self other : tables) (mapping : list Z) : res unit :=
  let '(self_nodes, other_nodes) := shared_lists 0 mapping in
  do s1 <- subset self self_nodes false false;
  do o1 <- subset other other_nodes false false;
  do s2 <- canonicalise s1 false;
  do o2 <- canonicalise o1 false;
  if tables_eqb s2 o2 then Ok tt else Err ERR_UNION_DIFF_HISTORIES.

(* ------------------------------------------------------------------------------------ *)
(* tsk_table_collection_deduplicate_sites (12277-12345), on sorted sites                 *)
(* ------------------------------------------------------------------------------------ *)
Fixpoint dedup_sites (ss : list site) (last : option Z) (j count : Z) (m : zmap) : list site * zmap :=
  match ss with
  | [] => ([], m)
  | s :: ss' =>
      let same := match last with Some p => p =? s_pos s | None => false end in
      if same then dedup_sites ss' (Some (s_pos s)) (j + 1) count (upd m j (count - 1))
      else let '(rest, m') := dedup_sites ss' (Some (s_pos s)) (j + 1) (count + 1) (upd m j count) in
           (s :: rest, m')
  end.

Definition deduplicate_sites (t : tables) : res tables :=
  let '(ss, m) := dedup_sites (t_sites t) None 0 0 mnull in
  let ns := zlen (t_sites t) in
  do ms <- (if zlen ss <? ns
            then mfold (fun acc mu => do s <- mget m ns (m_site mu); Ok (acc ++ [set_site mu s])) (t_mutations t) []
            else Ok (t_mutations t));
  Ok (mkT (t_nodes t) (t_edges t) ss ms (t_individuals t) (t_populations t)).

(* ------------------------------------------------------------------------------------ *)
(* tsk_table_collection_compute_mutation_parents (12347-12461).  The marginal tree at a  *)
(* site is read off the edge rows: parent_at x u = parent of the edge with               *)
(* left <= x < right and child u (TSK_CHECK_TREES, run first by the C code, makes it     *)
(* unique; two overlapping edges for one child are reported as the C code does).         *)
(* ------------------------------------------------------------------------------------ *)
Definition covers (e : edge) (x : Z) : bool := (e_left e <=? x) && (x <? e_right e).

Definition parent_at (es : list edge) (x u : Z) : Z :=
  match find (fun e => covers e x && (e_child e =? u)) es with
  | Some e => e_parent e | None => NULL end.

Fixpoint contradictory (es : list edge) : bool :=
  match es with
  | [] => false
  | e :: es' =>
      existsb (fun f => (e_child f =? e_child e) && (e_left e <? e_right f) && (e_left f <? e_right e)) es'
      || contradictory es'
  end.

Fixpoint climb (fuel : nat) (par : Z -> Z) (bottom : zmap) (u : Z) : res Z :=
  if u =? NULL then Ok NULL else
  if negb (bottom u =? NULL) then Ok (bottom u) else
  match fuel with O => Fuel | S f => climb f par bottom (par u) end.

(* one site: [ms] = the run of mutations of this site, first id [first] *)
Definition site_parents (nn : nat) (es : list edge) (x : Z) (first : Z) (ms : list mutation) : res (list mutation) :=
  (* 12416-12423 *)
  let '(ms1, bottom, _) :=
    fold_left (fun '(acc, bottom, j) m =>
                 let u := m_node m in
                 let p := if bottom u =? NULL then NULL else bottom u in
                 (acc ++ [set_parent m p], upd bottom u j, j + 1))
              ms ([], mnull, first) in
  (* 12425-12440 *)
  do ms2 <- (if 1 <? zlen ms then
               mfold (fun acc m =>
                        if m_parent m =? NULL then
                          do p <- climb nn (parent_at es x) bottom (parent_at es x (m_node m));
                          Ok (acc ++ [set_parent m p])
                        else Ok (acc ++ [m])) ms1 []
             else Ok ms1);
  (* 12442-12450 *)
  do _ <- mfold (fun j m => if j <? m_parent m then Err ERR_MUTATION_PARENT_AFTER_CHILD else Ok (j + 1)) ms2 first;
  Ok ms2.

Fixpoint span_site (s : Z) (ms : list mutation) : list mutation * list mutation :=
  match ms with
  | [] => ([], [])
  | m :: ms' => if m_site m =? s then let '(a, b) := span_site s ms' in (m :: a, b) else ([], ms)
  end.

Fixpoint parents_sites (nn : nat) (es : list edge) (ss : list site) (s first : Z) (ms : list mutation)
  : res (list mutation) :=
  match ss with
  | [] => Ok (map (fun m => set_parent m NULL) ms)      (* parents were memset to NULL *)
  | st :: ss' =>
      let '(run, rest) := span_site s ms in
      do run' <- site_parents nn es (s_pos st) first run;
      do rest' <- parents_sites nn es ss' (s + 1) (first + zlen run) rest;
      Ok (run' ++ rest')
  end.

Definition compute_mutation_parents (t : tables) : res tables :=
  if contradictory (t_edges t) then Err ERR_CONTRADICTORY_CHILDREN else
  do ms <- parents_sites (S (length (t_nodes t))) (t_edges t) (t_sites t) 0 0 (t_mutations t);
  Ok (mkT (t_nodes t) (t_edges t) (t_sites t) ms (t_individuals t) (t_populations t)).

(* ------------------------------------------------------------------------------------ *)
(* tsk_table_collection_union (13191-13379)                                              *)
(* ------------------------------------------------------------------------------------ *)

(* 13219-13228 *)
Definition bad_map (self : tables) (mapping : list Z) : bool :=
  existsb (fun m => (zlen (t_nodes self) <=? m) || (m <? NULL)) mapping.

(* 13260-13266 *)
Fixpoint seed_individual_map (self other : tables) (k : Z) (mapping : list Z) (imap : zmap) : res zmap :=
  match mapping with
  | [] => Ok imap
  | m :: rest =>
      do nd <- getz (t_nodes other) k;
      do imap' <- (if negb (m =? NULL) && negb (n_ind nd =? NULL) then
                     do snd_ <- getz (t_nodes self) m;
                     mset imap (zlen (t_individuals other)) (n_ind nd) (n_ind snd_)
                   else Ok imap);
      seed_individual_map self other (k + 1) rest imap'
  end.

(* 13268-13278 *)
Fixpoint union_nodes (other : tables) (add_populations : bool) (k : Z) (mapping : list Z) (s : st) : res st :=
  match mapping with
  | [] => Ok s
  | m :: rest =>
      do s' <- (if negb (m =? NULL)
                then Ok (mkSt (st_inds s) (st_pops s) (st_nodes s) (st_imap s) (st_pmap s) (upd (st_nmap s) k m))
                else add_and_remap_node other add_populations s k);
      union_nodes other add_populations (k + 1) rest s'
  end.

(* 13282-13287: parents of the individuals added by this call *)
Fixpoint remap_new_parents (imap : zmap) (ni : Z) (rows : list individual) : res (list individual) :=
  match rows with
  | [] => Ok []
  | r :: rows' =>
      do ps <- mfold (fun acc p => if p =? NULL then Ok (acc ++ [NULL])
                                   else do p' <- mget imap ni p; Ok (acc ++ [p'])) (i_parents r) [];
      do rest <- remap_new_parents imap ni rows';
      Ok (mkI (i_flags r) (i_loc r) ps (i_md r) :: rest)
  end.

(* 13290-13303 *)
Fixpoint union_edges (mapping : list Z) (nmap : zmap) (no : Z) (es : list edge) : res (list edge) :=
  match es with
  | [] => Ok []
  | e :: es' =>
      do mp <- getz mapping (e_parent e);
      do mc <- getz mapping (e_child e);
      do rest <- union_edges mapping nmap no es';
      if (mp =? NULL) || (mc =? NULL) then
        do p <- mget nmap no (e_parent e);
        do c <- mget nmap no (e_child e);
        Ok (mkE (e_left e) (e_right e) p c (e_md e) :: rest)
      else Ok rest
  end.

(* 13306-13335: the running cursor [i] over other's mutations, site by site *)
Fixpoint union_site_run (mapping : list Z) (nmap : zmap) (no : Z) (st_ : site) (sid : Z)
         (ms : list mutation) (sites_out : list site) (muts_out : list mutation) (smapped : Z)
  : res (list mutation * list site * list mutation) :=
  match ms with
  | [] => Ok ([], sites_out, muts_out)
  | m :: ms' =>
      if m_site m =? sid then
        do mn <- getz mapping (m_node m);
        if mn =? NULL then
          let '(sites_out', sm) := if smapped =? NULL then (sites_out ++ [st_], zlen sites_out)
                                   else (sites_out, smapped) in
          do u <- mget nmap no (m_node m);
          union_site_run mapping nmap no st_ sid ms' sites_out'
                         (muts_out ++ [mkM sm u (m_derived m) NULL (m_time m) (m_md m)]) sm
        else union_site_run mapping nmap no st_ sid ms' sites_out muts_out smapped
      else Ok (ms, sites_out, muts_out)
  end.

Fixpoint union_sites (mapping : list Z) (nmap : zmap) (no : Z) (ss : list site) (sid : Z)
         (ms : list mutation) (sites_out : list site) (muts_out : list mutation)
  : res (list site * list mutation) :=
  match ss with
  | [] => Ok (sites_out, muts_out)
  | s :: ss' =>
      do '(ms', sites_out', muts_out') <- union_site_run mapping nmap no s sid ms sites_out muts_out NULL;
      union_sites mapping nmap no ss' (sid + 1) ms' sites_out' muts_out'
  end.

(* everything up to (not including) "sorting, deduplicating, and computing parents" *)
Definition union_raw (self other : tables) (mapping : list Z) (add_populations : bool) : res tables :=
  let no := zlen (t_nodes other) in
  let nio := zlen (t_individuals other) in
  do imap0 <- seed_individual_map self other 0 mapping mnull;
  do s <- union_nodes other add_populations 0 mapping
            (mkSt (t_individuals self) (t_populations self) (t_nodes self) imap0 mnull mnull);
  let nis := length (t_individuals self) in
  do new_inds <- remap_new_parents (st_imap s) nio (skipn nis (st_inds s));
  let inds := firstn nis (st_inds s) ++ new_inds in
  do new_edges <- union_edges mapping (st_nmap s) no (t_edges other);
  do '(ss, ms) <- union_sites mapping (st_nmap s) no (t_sites other) 0 (t_mutations other)
                              (t_sites self) (t_mutations self);
  Ok (mkT (st_nodes s) (t_edges self ++ new_edges) ss ms inds (st_pops s)).

(* population ids of the new nodes are checked by the integrity check inside sort
   (TSK_ERR_POPULATION_OUT_OF_BOUNDS when add_populations = false names a population
   that self does not have) *)
Definition check_node_populations (t : tables) : res unit :=
  if existsb (fun nd => (n_pop nd <? NULL) || (zlen (t_populations t) <=? n_pop nd)) (t_nodes t)
  then Err ERR_POPULATION_OOB else Ok tt.

Definition union (self other : tables) (mapping : list Z) (check_shared add_populations : bool)
  : res tables :=
  if negb (zlen mapping =? zlen (t_nodes other)) then Err ERR_UNION_BAD_MAP else
  if bad_map self mapping then Err ERR_UNION_BAD_MAP else
  do _ <- (if check_shared then check_subset_equality self other mapping else Ok tt);
  do t1 <- union_raw self other mapping add_populations;
  do _ <- check_node_populations t1;
  do t2 <- sort_tables t1;
  do t3 <- deduplicate_sites t2;
  do t4 <- sort_tables t3;
  compute_mutation_parents t4.

(* ------------------------------------------------------------------------------------ *)
(* Python wrappers: TableCollection.subset = C subset, then sort (tables.py 4104-4110)    *)
(* ------------------------------------------------------------------------------------ *)
Definition py_subset (t : tables) (nodes : list Z) (keep_unreferenced no_change_populations : bool) : res tables :=
  do t' <- subset t nodes keep_unreferenced no_change_populations;
  sort_tables t'.

Fixpoint index_of (u : Z) (l : list Z) (k : Z) : Z :=
  match l with [] => NULL | x :: l' => if x =? u then k else index_of u l' (k + 1) end.
Definition mapping_of (A B : list Z) : list Z := map (fun u => index_of u A 0) B.

(* the split / re-join experiment of the property: two subsets of one collection, unioned *)
Definition split_join (t : tables) (A B : list Z) (keep_unreferenced no_change_populations
                       check_shared add_populations : bool) : res tables :=
  do s <- py_subset t A keep_unreferenced no_change_populations;
  do o <- py_subset t B keep_unreferenced no_change_populations;
  union s o (mapping_of A B) check_shared add_populations.

(* ------------------------------------------------------------------------------------ *)
(* tsk_table_collection_check_integrity(self, 0) (tables.c 10574-11004, 11133-11180), the *)
(* call both subset and union make first.  Modelled: everything that is expressible on    *)
(* this table type, in the C order (nodes, edges, sites, mutations, individuals; first    *)
(* failing row, first failing test of the row).  Not expressible here and therefore not   *)
(* modelled: non-finite values, the sequence length (right > L, position >= L), ragged    *)
(* column offsets, migrations.  0 = no error.                                             *)
(* ------------------------------------------------------------------------------------ *)
Definition ERR_SITE_OOB : Z := -205.
Definition ERR_MUTATION_OOB : Z := -206.
Definition ERR_NULL_PARENT : Z := -300.
Definition ERR_NULL_CHILD : Z := -301.
Definition ERR_BAD_NODE_TIME_ORDERING : Z := -306.
Definition ERR_BAD_EDGE_INTERVAL : Z := -307.
Definition ERR_LEFT_LESS_ZERO : Z := -310.
Definition ERR_BAD_SITE_POSITION : Z := -402.
Definition ERR_MUTATION_PARENT_DIFFERENT_SITE : Z := -500.
Definition ERR_MUTATION_PARENT_EQUAL : Z := -501.
Definition ERR_MUTATION_TIME_YOUNGER_THAN_NODE : Z := -506.
Definition ERR_MUTATION_TIME_OLDER_THAN_PARENT : Z := -507.
Definition ERR_MUTATION_TIME_BOTH : Z := -509.
Definition ERR_INDIVIDUAL_SELF_PARENT : Z := -1701.

Fixpoint first_code {A} (f : A -> Z) (l : list A) : Z :=
  match l with
  | [] => 0
  | a :: l' => let c := f a in if c =? 0 then first_code f l' else c
  end.

Definition out_of (n x : Z) : bool := (x <? 0) || (n <=? x).

(* 10585-10603 *)
Definition node_code (np ni : Z) (r : node) : Z :=
  if (n_pop r <? NULL) || (np <=? n_pop r) then ERR_POPULATION_OOB else
  if (n_ind r <? NULL) || (ni <=? n_ind r) then ERR_INDIVIDUAL_OOB else 0.

(* 10637-10680 *)
Definition edge_code (ns : list node) (e : edge) : Z :=
  let nn := zlen ns in
  if e_parent e =? NULL then ERR_NULL_PARENT else
  if out_of nn (e_parent e) then ERR_NODE_OOB else
  if e_child e =? NULL then ERR_NULL_CHILD else
  if out_of nn (e_child e) then ERR_NODE_OOB else
  if e_left e <? 0 then ERR_LEFT_LESS_ZERO else
  if e_right e <=? e_left e then ERR_BAD_EDGE_INTERVAL else
  if node_time ns (e_parent e) <=? node_time ns (e_child e) then ERR_BAD_NODE_TIME_ORDERING else 0.

(* 10735-10743 *)
Definition site_code (s : site) : Z := if s_pos s <? 0 then ERR_BAD_SITE_POSITION else 0.

(* 10781-10845; state = previous row's site and the known / unknown counters of the run *)
Fixpoint mutation_codes (t : tables) (ms : list mutation) (j : Z) (prev : option Z) (nk nu : Z) : Z :=
  match ms with
  | [] => 0
  | m :: ms' =>
      if out_of (zlen (t_sites t)) (m_site m) then ERR_SITE_OOB else
      if out_of (zlen (t_nodes t)) (m_node m) then ERR_NODE_OOB else
      if (m_parent m <? NULL) || (zlen (t_mutations t) <=? m_parent m) then ERR_MUTATION_OOB else
      if m_parent m =? j then ERR_MUTATION_PARENT_EQUAL else
      if match m_time m with Some tm => tm <? node_time (t_nodes t) (m_node m) | None => false end
      then ERR_MUTATION_TIME_YOUNGER_THAN_NODE else
      let reset := match prev with Some s => negb (s =? m_site m) | None => false end in
      let nk0 := if reset then 0 else nk in
      let nu0 := if reset then 0 else nu in
      let nk1 := match m_time m with Some _ => nk0 + 1 | None => nk0 end in
      let nu1 := match m_time m with Some _ => nu0 | None => nu0 + 1 end in
      if (0 <? nu1) && (0 <? nk1) then ERR_MUTATION_TIME_BOTH else
      let c := if m_parent m =? NULL then 0 else
               match getz (t_mutations t) (m_parent m) with
               | Ok pm =>
                   if negb (m_site pm =? m_site m) then ERR_MUTATION_PARENT_DIFFERENT_SITE else
                   match m_time m, m_time pm with
                   | Some tm, Some tp => if tp <? tm then ERR_MUTATION_TIME_OLDER_THAN_PARENT else 0
                   | _, _ => 0
                   end
               | _ => 0
               end in
      if c =? 0 then mutation_codes t ms' (j + 1) (Some (m_site m)) nk1 nu1 else c
  end.

(* 10948-10967 *)
Fixpoint individual_codes (ni : Z) (rows : list individual) (j : Z) : Z :=
  match rows with
  | [] => 0
  | r :: rows' =>
      let c := first_code (fun p => if negb (p =? NULL) && out_of ni p then ERR_INDIVIDUAL_OOB
                                    else if p =? j then ERR_INDIVIDUAL_SELF_PARENT else 0) (i_parents r) in
      if c =? 0 then individual_codes ni rows' (j + 1) else c
  end.

Definition integrity_code (t : tables) : Z :=
  let c1 := first_code (node_code (zlen (t_populations t)) (zlen (t_individuals t))) (t_nodes t) in
  if negb (c1 =? 0) then c1 else
  let c2 := first_code (edge_code (t_nodes t)) (t_edges t) in
  if negb (c2 =? 0) then c2 else
  let c3 := first_code site_code (t_sites t) in
  if negb (c3 =? 0) then c3 else
  let c4 := mutation_codes t (t_mutations t) 0 None 0 0 in
  if negb (c4 =? 0) then c4 else
  individual_codes (zlen (t_individuals t)) (t_individuals t) 0.

Definition check_integrity0 (t : tables) : res unit :=
  let c := integrity_code t in if c =? 0 then Ok tt else Err c.

(* the functions as the library runs them: guard first (subset 12917, union 13211-13218) *)
Definition subset_checked (t : tables) (nodes : list Z) (keep_unreferenced no_change_populations : bool)
  : res tables :=
  do _ <- check_integrity0 t;
  subset t nodes keep_unreferenced no_change_populations.

Definition union_checked (self other : tables) (mapping : list Z) (check_shared add_populations : bool)
  : res tables :=
  do _ <- check_integrity0 self;
  do _ <- check_integrity0 other;
  union self other mapping check_shared add_populations.

(* ------------------------------------------------------------------------------------ *)
(* Collection-level attributes in the shared-portion check.  tsk_check_subset_equality    *)
(* ends with tsk_table_collection_equals(…, IGNORE_TS_METADATA | IGNORE_PROVENANCE |       *)
(* IGNORE_REFERENCE_SEQUENCE) (13176-13181), which — besides the rows — compares the       *)
(* sequence length, time_units and the metadata schema of every table.  These are not     *)
(* part of [tables]; they are passed separately as a list of byte strings                 *)
(* [sequence_length; time_units; schema of each of the seven tables].  The check runs      *)
(* whenever check_shared_equality is on — also when no node is shared.                     *)
(* ------------------------------------------------------------------------------------ *)
Definition attrs := list (list Z).
Definition attrs_eqb (a b : attrs) : bool := list_eqb zlist_eqb a b.

Definition union_with_attrs (a_self a_other : attrs) (self other : tables) (mapping : list Z)
           (check_shared add_populations : bool) : res tables :=
  if negb (zlen mapping =? zlen (t_nodes other)) then Err ERR_UNION_BAD_MAP else
  if bad_map self mapping then Err ERR_UNION_BAD_MAP else
  if check_shared && negb (attrs_eqb a_self a_other) then
    match check_subset_equality self other mapping with
    | Ok _ => Err ERR_UNION_DIFF_HISTORIES
    | Err c => Err c | OOB => OOB | Fuel => Fuel
    end
  else union self other mapping check_shared add_populations.

(* ------------------------------------------------------------------------------------ *)
(* Python wrappers as thin compositions.                                                  *)
(*   TableCollection.subset (tables.py 4098-4115): cast the node list, C subset with       *)
(*     KEEP_UNREFERENCED = not remove_unreferenced, NO_CHANGE_POPULATIONS = not            *)
(*     reorder_populations, then self.sort(), then one provenance row if asked.            *)
(*   TreeSequence.subset (trees.py 7246-7253): dump_tables(), TableCollection.subset,      *)
(*     tables.tree_sequence() — no shortcut for any node list: the identity list with      *)
(*     remove_unreferenced=False still reorders the populations.                           *)
(*   TreeSequence.union (trees.py 7300-7309): dump both, TableCollection.union (= the C    *)
(*     function, which sorts itself), tree_sequence().                                     *)
(* The number of provenance rows added is the second component.                            *)
(* ------------------------------------------------------------------------------------ *)
Definition tc_subset (t : tables) (nodes : list Z) (record_provenance reorder_populations remove_unreferenced : bool)
  : res (tables * Z) :=
  do t' <- py_subset t nodes (negb remove_unreferenced) (negb reorder_populations);
  Ok (t', if record_provenance then 1 else 0).

Definition ts_subset (t : tables) (nodes : list Z) (record_provenance reorder_populations remove_unreferenced : bool)
  : res (tables * Z) :=
  tc_subset t nodes record_provenance reorder_populations remove_unreferenced.

Definition ts_union (self other : tables) (mapping : list Z) (check_shared add_populations record_provenance : bool)
  : res (tables * Z) :=
  do u <- union self other mapping check_shared add_populations;
  Ok (u, if record_provenance then 1 else 0).
Definition res_tables_prov_eqb (r : res (tables * Z)) (b : tables) (k : Z) : bool :=
  match r with Ok (a, k') => tables_eqb a b && (k' =? k) | _ => false end.
