(* C14 — the Python wrappers: TreeSequence.subset = TableCollection.subset = C subset, then the
   sorter; for every node list (no identity shortcut) and both flags. *)
From Coq Require Import List ZArith Bool Lia ZifyBool Permutation Sorted.
From TskVerif Require Import Base.Common C14.Model C14.Spec C14.Basics C14.SubsetMain C14.UnionProofs C14.SortProofs.
Import ListNotations.
Open Scope Z_scope.

Theorem ts_subset_is_subset_then_sort_lemma : forall t nodes prov rp ru,
  ts_subset t nodes prov rp ru = tc_subset t nodes prov rp ru /\
  tc_subset t nodes prov rp ru =
    (do t1 <- subset t nodes (negb ru) (negb rp);
     do t2 <- sort_tables t1;
     Ok (t2, if prov then 1 else 0)).
Proof.
  intros. split; [reflexivity|]. unfold tc_subset, py_subset.
  destruct (subset t nodes (negb ru) (negb rp)); cbn [bind]; auto.
Qed.

(* what the wrapper returns, in terms of the specification of subset *)
Theorem ts_subset_spec_lemma : forall t nodes prov rp ru t' k,
  refs_in_range t = true ->
  ts_subset t nodes prov rp ru = Ok (t', k) ->
  let sp := spec_subset t nodes (negb ru) (negb rp) in
  forallb (in_range (zlen (t_nodes t))) nodes = true /\
  k = (if prov then 1 else 0) /\
  t_nodes t' = t_nodes sp /\ t_individuals t' = t_individuals sp /\ t_populations t' = t_populations sp /\
  Permutation (t_edges t') (t_edges sp) /\
  Sorted (fun a b => edge_le (node_time (t_nodes sp)) a b = true) (t_edges t') /\
  Permutation (t_sites t') (t_sites sp) /\ Sorted (fun a b => s_pos a <= s_pos b) (t_sites t') /\
  Permutation (map mut_core (t_mutations t')) (map mut_core (t_mutations sp)).
Proof.
  intros t nodes prov rp ru t' k R H. cbn zeta.
  destruct (ts_subset_is_subset_then_sort_lemma t nodes prov rp ru) as [_ E]. unfold ts_subset in H. rewrite E in H.
  destruct (forallb (in_range (zlen (t_nodes t))) nodes) eqn:F.
  2:{ rewrite subset_out_of_range_lemma in H by auto. discriminate. }
  rewrite subset_exact_lemma in H by auto. cbn [bind] in H.
  destruct (sort_tables (spec_subset t nodes (negb ru) (negb rp))) as [t2| | |] eqn:S; cbn [bind] in H; try discriminate.
  inversion H; subst. destruct (sort_tables_spec _ _ S) as [a [b [c [d [e [f [g h]]]]]]].
  repeat split; auto.
Qed.

Theorem ts_union_is_union_lemma : forall self other mapping chk addp prov,
  ts_union self other mapping chk addp prov =
  match union self other mapping chk addp with
  | Ok u => Ok (u, if prov then 1 else 0) | Err c => Err c | OOB => OOB | Fuel => Fuel end.
Proof. intros. unfold ts_union. destruct (union self other mapping chk addp); reflexivity. Qed.
