(* C14 — split with subset, re-join with union: the population every node refers to.  For every
   listed node of T the node found at [cover_id] in the re-joined collection refers to a
   population row equal to the one the original node refers to (NULL stays NULL), provided new
   populations are added (add_populations) or the population table was left alone by subset
   (no_change_populations, ids then agree). *)
From Coq Require Import List ZArith Bool Lia ZifyBool Permutation.
From TskVerif Require Import Base.Common C14.Model C14.Spec C14.Basics C14.SubsetInd C14.SubsetLoop
     C14.SubsetRows C14.SubsetMain C14.SubsetCorollaries C14.UnionProofs C14.UnionRefs C14.InverseProofs.
Import ListNotations.
Open Scope Z_scope.

Lemma rows_of_getz {A} (l : list A) ids : forall j k,
  forallb (in_range (zlen l)) ids = true -> getz ids j = Ok k -> getz (rows_of l ids) j = getz l k.
Proof.
  induction ids as [|x ids IH]; intros j k F G. { rewrite getz_nil in G. discriminate. }
  cbn [forallb] in F. apply andb_true_iff in F as [F1 F2].
  destruct (getz_in_range _ _ F1) as [r Hr]. unfold rows_of. cbn [flat_map]. rewrite Hr. cbn [app].
  fold (rows_of l ids). destruct (Z.eq_dec j 0) as [->|N].
  - rewrite getz_cons_0 in *. inversion G; subst. now rewrite Hr.
  - destruct (Z_lt_dec j 0). { rewrite getz_neg in G by lia. discriminate. }
    replace j with ((j - 1) + 1) in G by lia. replace j with ((j - 1) + 1) by lia.
    rewrite getz_cons_S in G by lia. rewrite getz_cons_S by lia. auto.
Qed.

Lemma new_ids_from_range mapping : forall s k, In k (new_ids_from s mapping) -> s <= k < s + zlen mapping.
Proof.
  induction mapping as [|m mapping IH]; intros s k H; cbn [new_ids_from] in H. { destruct H. }
  rewrite zlen_cons. pose proof (zlen_nonneg mapping).
  destruct (m =? NULL); [destruct H as [<-|H]; [lia|]|]; specialize (IH _ _ H); lia.
Qed.

Lemma rows_of_index_of {A} (rows : list A) l p : forall k, 0 <= k ->
  listed l p = true -> forallb (in_range (zlen rows)) l = true ->
  getz (rows_of rows l) (index_of p l k - k) = getz rows p.
Proof.
  induction l as [|x l IH]; intros k Hk L F. { discriminate. }
  cbn [forallb] in F. apply andb_true_iff in F as [F1 F2].
  destruct (getz_in_range _ _ F1) as [row Hrow].
  unfold rows_of. cbn [flat_map index_of]. rewrite Hrow. fold (rows_of rows l). cbn [app].
  unfold listed in L. cbn [existsb] in L. rewrite Z.eqb_sym in L.
  destruct (x =? p) eqn:E.
  - apply Z.eqb_eq in E. subst x. rewrite Z.sub_diag, getz_cons_0. auto.
  - cbn [orb] in L. pose proof (index_of_in p l (k + 1) L ltac:(lia)).
    replace (index_of p l (k + 1) - k) with ((index_of p l (k + 1) - (k + 1)) + 1) by lia.
    rewrite getz_cons_S by lia. apply IH; auto. lia.
Qed.

Theorem subset_union_inverse_populations_lemma :
  forall T A B ku ncp chk addp S O U,
  refs_in_range T = true ->
  NoDup A -> NoDup B ->
  (addp = true \/ ncp = true) ->
  subset T A ku ncp = Ok S ->
  subset T B ku ncp = Ok O ->
  union S O (mapping_of A B) chk addp = Ok U ->
  forall u r, listed A u || listed B u = true -> getz (t_nodes T) u = Ok r ->
    exists r', getz (t_nodes U) (cover_id A B u) = Ok r' /\
      (n_pop r = NULL -> n_pop r' = NULL) /\
      (n_pop r <> NULL -> getz (t_populations U) (n_pop r') = getz (t_populations T) (n_pop r)).
Proof.
  intros T A B ku ncp chk addp S O U R NA NB Dom HS HO HU u r L G.
  destruct (subset_refs_exact_lemma _ _ _ _ _ R HS) as [_ [_ [_ [PS [PSt PSf]]]]].
  destruct (subset_refs_exact_lemma _ _ _ _ _ R HO) as [_ [_ [_ [PO [POt POf]]]]].
  destruct (subset_ok_in_range _ _ _ _ _ R HS) as [IA ES].
  destruct (subset_ok_in_range _ _ _ _ _ R HO) as [IB EO].
  assert (node_refs_ok O) as RO by (rewrite EO; now apply spec_subset_node_refs).
  destruct (union_refs_exact_lemma _ _ _ _ _ _ RO HU) as [imap0 [_ [_ [N1 [N2 _]]]]]. cbn zeta in N1, N2.
  assert (node_row T u = Some r) as Hr by (unfold node_row; now rewrite G).
  assert (In r (t_nodes T)) as Ir by (eapply getz_In; eauto).
  destruct (refs_nodes T R r Ir) as [Rp _].
  assert (zlen (t_nodes S) = zlen A) as LA by (rewrite ES; now apply spec_subset_nodes_len).
  assert (zlen (t_nodes O) = zlen B) as LB by (rewrite EO; now apply spec_subset_nodes_len).
  unfold cover_id. destruct (listed A u) eqn:LAu.
  - (* a node of self *)
    pose proof (node_index_listed A u LAu) as GA.
    assert (getz (t_nodes S) (node_index A u) = Ok (node_out (pop_map T A ncp) (ind_map T A ku) r)) as GS.
    { rewrite ES. cbn [spec_subset t_nodes].
      change (flat_map _ A) with (nodes_out T (pop_map T A ncp) (ind_map T A ku) A).
      now apply (nodes_out_getz T _ _ A _ u r IA GA Hr). }
    eexists. split.
    { rewrite N1, getz_app_l by (eapply getz_ok_range; eauto). exact GS. }
    cbn [node_out n_pop]. unfold remap_ref. split.
    { intros E. rewrite E. reflexivity. }
    intros Np. destruct (n_pop r =? NULL) eqn:Npb. { apply Z.eqb_eq in Npb. contradiction. }
    apply ref_ok_cases in Rp as [Rp|[_ Rp]]; [contradiction|].
    destruct (getz_in_range _ _ Rp) as [prow Hprow].
    assert (getz (t_populations S) (pop_map T A ncp (n_pop r)) = getz (t_populations T) (n_pop r)) as X.
    { destruct ncp.
      - destruct (PSt eq_refl) as [E1 E2]. now rewrite E1, E2.
      - destruct (PSf eq_refl) as [_ [In1 [Gt _]]]. apply Gt. apply In1. split; auto.
        unfold node_pops. apply in_map_iff. exists u. rewrite Hr. split; auto. now apply listed_In. }
    rewrite N2, getz_app_l; auto. rewrite Hprow in X. eapply getz_ok_range; eauto.
  - (* a node new to self *)
    cbn [orb] in L. pose proof (node_index_listed B u L) as GB.
    set (k := node_index B u) in *. set (mp := mapping_of A B) in *.
    assert (is_new mp k = true) as K by (unfold mp, k; rewrite is_new_at by auto; now rewrite LAu).
    assert (0 <= k) as Nk by (apply getz_ok_range in GB; apply in_range_iff in GB; lia).
    pose proof (new_ids_getz mp mp [] k eq_refl) as X. rewrite zlen_nil, Z.sub_0_r in X.
    specialize (X Nk K). fold (rank (is_new mp) k) in X. change (new_ids_from 0 mp) with (new_ids mp) in X.
    assert (zlen mp = zlen B) as Lmp by (unfold mp, mapping_of; apply zlen_map).
    assert (forallb (in_range (zlen (t_nodes O))) (new_ids mp) = true) as Fn.
    { apply forallb_forall. intros j Hj. apply new_ids_from_range in Hj. apply in_range_iff. lia. }
    assert (getz (t_nodes O) k = Ok (node_out (pop_map T B ncp) (ind_map T B ku) r)) as GO.
    { rewrite EO. cbn [spec_subset t_nodes].
      change (flat_map _ B) with (nodes_out T (pop_map T B ncp) (ind_map T B ku) B).
      now apply (nodes_out_getz T _ _ B _ u r IB GB Hr). }
    set (r0 := node_out (pop_map T B ncp) (ind_map T B ku) r) in *.
    assert (getz (union_new_rows O mp) (rank (is_new mp) k) = Ok r0) as Gr.
    { unfold union_new_rows. rewrite (rows_of_getz _ _ _ k Fn X). exact GO. }
    eexists. split.
    { rewrite N1, <- LA, getz_app_r by apply rank_nonneg. apply (getz_map _ _ _ _ Gr). }
    cbn [new_node_exact n_pop]. unfold r0 at 1 2 3. cbn [node_out n_pop]. unfold remap_ref at 1 2 3. split.
    { intros E. rewrite E. assert (NULL =? NULL = true) as -> by reflexivity.
      destruct addp; [unfold remap_ref|]; reflexivity. }
    intros Np. assert (n_pop r =? NULL = false) as Npb by now apply Z.eqb_neq.
    apply ref_ok_cases in Rp as [Rp|[_ Rp]]; [contradiction|].
    destruct (getz_in_range _ _ Rp) as [prow Hprow].
    set (q := pop_map T B ncp (n_pop r)).
    assert (getz (t_populations O) q = Ok prow) as GOq.
    { rewrite <- Hprow. unfold q. destruct ncp.
      - destruct (POt eq_refl) as [E1 E2]. now rewrite E1, E2.
      - destruct (POf eq_refl) as [_ [In1 [Gt _]]]. apply Gt. apply In1. split; auto.
        unfold node_pops. apply in_map_iff. exists u. rewrite Hr. split; auto. now apply listed_In. }
    assert (q <> NULL) as Nq.
    { intros E. rewrite E, getz_neg in GOq by (rewrite NULL_neg'; lia). discriminate. }
    assert (remap_ref (pop_map T B ncp) (n_pop r) = q) as Eq1 by (unfold remap_ref, q; now rewrite Npb).
    assert (n_pop r0 = q) as Eq2 by (unfold r0; cbn [node_out n_pop]; exact Eq1).
    rewrite ?Eq1, ?Eq2.
    destruct addp.
    + (* a new population row *)
      unfold remap_ref. apply Z.eqb_neq in Nq. rewrite Nq. apply Z.eqb_neq in Nq.
      set (fp := first_uses (map n_pop (union_new_rows O mp))) in *.
      assert (listed fp q = true) as Lq.
      { apply listed_In. apply first_uses_In. split; auto. apply in_map_iff. exists r0. split.
        - unfold r0. cbn [node_out n_pop]. unfold remap_ref. now rewrite Npb.
        - eapply getz_In; eauto. }
      rewrite Lq, N2, getz_app_r by (pose proof (index_of_in q fp 0 Lq ltac:(lia)); lia).
      assert (forallb (in_range (zlen (t_populations O))) fp = true) as Ffp.
      { apply forallb_forall. intros x Hx. apply first_uses_In in Hx as [Hx Nx].
        apply in_map_iff in Hx as [rx [<- Hrx]]. unfold union_new_rows, rows_of in Hrx.
        apply in_flat_map in Hrx as [j [_ Hrx]]. destruct (getz (t_nodes O) j) eqn:Gj; try contradiction.
        destruct Hrx as [<-|[]]. destruct (RO _ (getz_In _ _ _ Gj)) as [Rq _].
        apply ref_ok_cases in Rq as [?|[_ ?]]; [contradiction|auto]. }
      pose proof (rows_of_index_of (t_populations O) fp q 0 ltac:(lia) Lq Ffp) as Y.
      rewrite Z.sub_0_r in Y. rewrite Y, GOq. now rewrite Hprow.
    + (* ids kept: the population table was not renumbered *)
      destruct Dom as [D|D]; [discriminate|]. subst ncp.
      destruct (POt eq_refl) as [E1 E2]. destruct (PSt eq_refl) as [E3 _].
      unfold q. rewrite E2, N2, app_nil_r, E3. reflexivity.
Qed.

(* ---- the individual every node refers to ---- *)
From TskVerif Require Import C14.SortProofs.

Lemma nodes_out_getz_inv t pm im nodes k r0 :
  forallb (in_range (zlen (t_nodes t))) nodes = true ->
  getz (nodes_out t pm im nodes) k = Ok r0 ->
  exists w r, getz nodes k = Ok w /\ node_row t w = Some r /\ r0 = node_out pm im r.
Proof.
  intros F G. pose proof (getz_ok_range _ _ _ G) as Rk. rewrite nodes_out_len in Rk by auto.
  destruct (getz_in_range _ _ Rk) as [w Hw].
  assert (in_range (zlen (t_nodes t)) w = true) as Rw.
  { rewrite forallb_forall in F. apply F. eapply getz_In; eauto. }
  destruct (node_row_some t w Rw) as [r [Hr _]]. exists w, r. split; auto. split; auto.
  rewrite (nodes_out_getz t pm im nodes k w r F Hw Hr) in G. now inversion G.
Qed.

Theorem subset_union_inverse_individuals_lemma :
  forall T A B ku ncp chk addp S O U,
  refs_in_range T = true ->
  NoDup A -> NoDup B ->
  subset T A ku ncp = Ok S ->
  subset T B ku ncp = Ok O ->
  union S O (mapping_of A B) chk addp = Ok U ->
  forall u r, listed A u || listed B u = true -> getz (t_nodes T) u = Ok r ->
    exists r', getz (t_nodes U) (cover_id A B u) = Ok r' /\
      (n_ind r = NULL -> n_ind r' = NULL) /\
      (forall irow, getz (t_individuals T) (n_ind r) = Ok irow ->
         exists irow', getz (t_individuals U) (n_ind r') = Ok irow' /\ ind_core irow' = ind_core irow).
Proof.
  intros T A B ku ncp chk addp S O U R NA NB HS HO HU u r L G.
  destruct (subset_refs_exact_lemma _ _ _ _ _ R HS) as [_ [_ [IS3 _]]].
  destruct (subset_refs_exact_lemma _ _ _ _ _ R HO) as [_ [IO2 [IO3 _]]].
  destruct (subset_ok_in_range _ _ _ _ _ R HS) as [IA ES].
  destruct (subset_ok_in_range _ _ _ _ _ R HO) as [IB EO].
  assert (node_refs_ok O) as RO by (rewrite EO; now apply spec_subset_node_refs).
  destruct (union_refs_exact_lemma _ _ _ _ _ _ RO HU) as [imap0 [_ [Seed [N1 [_ N3]]]]]. cbn zeta in N1, N3.
  assert (node_row T u = Some r) as Hr by (unfold node_row; now rewrite G).
  assert (zlen (t_nodes S) = zlen A) as LA by (rewrite ES; now apply spec_subset_nodes_len).
  assert (forall w rw, listed A w = true -> node_row T w = Some rw ->
            getz (t_nodes S) (node_index A w) = Ok (node_out (pop_map T A ncp) (ind_map T A ku) rw)) as SA.
  { intros w rw Lw Hw. rewrite ES. cbn [spec_subset t_nodes].
    change (flat_map _ A) with (nodes_out T (pop_map T A ncp) (ind_map T A ku) A).
    apply (nodes_out_getz T _ _ A _ w rw IA (node_index_listed A w Lw) Hw). }
  (* an individual referenced by a listed node of A is found in U under its id in S *)
  assert (forall w rw irow, listed A w = true -> node_row T w = Some rw -> getz (t_individuals T) (n_ind rw) = Ok irow ->
            exists irow', getz (t_individuals U) (ind_map T A ku (n_ind rw)) = Ok irow' /\ ind_core irow' = ind_core irow) as InA.
  { intros w rw irow Lw Hw Gi.
    assert (ind_kept T A ku (n_ind rw) = true) as K.
    { unfold ind_kept. apply orb_true_iff. right. unfold ind_referenced. apply existsb_exists.
      exists w. split; [now apply listed_In|]. rewrite Hw. apply Z.eqb_refl. }
    pose proof (IS3 _ _ Gi K) as X. eexists. split.
    - rewrite N3, getz_app_l; [exact X|]. eapply getz_ok_range; eauto.
    - reflexivity. }
  unfold cover_id. destruct (listed A u) eqn:LAu.
  - eexists. split.
    { rewrite N1, getz_app_l by (rewrite LA; eapply getz_ok_range; apply (node_index_listed A u LAu)).
      apply (SA u r LAu Hr). }
    cbn [node_out n_ind]. unfold remap_ref. split. { intros E. rewrite E. reflexivity. }
    intros irow Gi. destruct (n_ind r =? NULL) eqn:E.
    { apply Z.eqb_eq in E. rewrite E, getz_neg in Gi by (rewrite NULL_neg'; lia). discriminate. }
    apply (InA u r irow LAu Hr Gi).
  - cbn [orb] in L. pose proof (node_index_listed B u L) as GB.
    set (k := node_index B u) in *. set (mp := mapping_of A B) in *.
    assert (is_new mp k = true) as K by (unfold mp, k; rewrite is_new_at by auto; now rewrite LAu).
    assert (0 <= k) as Nk by (apply getz_ok_range in GB; apply in_range_iff in GB; lia).
    pose proof (new_ids_getz mp mp [] k eq_refl) as X. rewrite zlen_nil, Z.sub_0_r in X.
    specialize (X Nk K). fold (rank (is_new mp) k) in X. change (new_ids_from 0 mp) with (new_ids mp) in X.
    assert (zlen (t_nodes O) = zlen B) as LB by (rewrite EO; now apply spec_subset_nodes_len).
    assert (zlen mp = zlen B) as Lmp by (unfold mp, mapping_of; apply zlen_map).
    assert (forallb (in_range (zlen (t_nodes O))) (new_ids mp) = true) as Fn.
    { apply forallb_forall. intros j Hj. apply new_ids_from_range in Hj. apply in_range_iff. lia. }
    assert (t_nodes O = nodes_out T (pop_map T B ncp) (ind_map T B ku) B) as EOn by (rewrite EO; reflexivity).
    assert (getz (t_nodes O) k = Ok (node_out (pop_map T B ncp) (ind_map T B ku) r)) as GO.
    { rewrite EOn. now apply (nodes_out_getz T _ _ B _ u r IB GB Hr). }
    set (r0 := node_out (pop_map T B ncp) (ind_map T B ku) r) in *.
    assert (getz (union_new_rows O mp) (rank (is_new mp) k) = Ok r0) as Gr.
    { unfold union_new_rows. rewrite (rows_of_getz _ _ _ k Fn X). exact GO. }
    eexists. split.
    { rewrite N1, <- LA, getz_app_r by apply rank_nonneg. apply (getz_map _ _ _ _ Gr). }
    cbn [new_node_exact n_ind]. split.
    { intros E. unfold r0. cbn [node_out n_ind]. unfold remap_ref. rewrite E. reflexivity. }
    intros irow Gi.
    assert (n_ind r =? NULL = false) as Nib.
    { apply Z.eqb_neq. intros E. rewrite E, getz_neg in Gi by (rewrite NULL_neg'; lia). discriminate. }
    assert (ind_kept T B ku (n_ind r) = true) as KB.
    { unfold ind_kept. apply orb_true_iff. right. unfold ind_referenced. apply existsb_exists.
      exists u. split; [now apply listed_In|]. rewrite Hr. apply Z.eqb_refl. }
    set (q := ind_map T B ku (n_ind r)).
    assert (n_ind r0 = q) as Eq2 by (unfold r0, q; cbn [node_out n_ind]; unfold remap_ref; now rewrite Nib).
    assert (getz (t_individuals O) q = Ok (spec_individual (ind_map T B ku) irow)) as GOq by (apply IO3; auto).
    assert (q <> NULL) as Nq.
    { intros E. rewrite E, getz_neg in GOq by (rewrite NULL_neg'; lia). discriminate. }
    rewrite Eq2. unfold remap_ref. apply Z.eqb_neq in Nq. rewrite Nq. apply Z.eqb_neq in Nq.
    destruct (imap0 q =? NULL) eqn:Sd.
    + (* not identified through a shared node: appended *)
      set (fi := first_uses (filter (fun i => imap0 i =? NULL) (map n_ind (union_new_rows O mp)))) in *.
      assert (listed fi q = true) as Lq.
      { apply listed_In. apply first_uses_In. split; auto. apply filter_In. split; auto.
        apply in_map_iff. exists r0. split; auto. eapply getz_In; eauto. }
      rewrite Lq.
      assert (forallb (in_range (zlen (t_individuals O))) fi = true) as Ffi.
      { apply forallb_forall. intros x Hx. apply first_uses_In in Hx as [Hx Nx]. apply filter_In in Hx as [Hx _].
        apply in_map_iff in Hx as [rx [<- Hrx]]. unfold union_new_rows, rows_of in Hrx.
        apply in_flat_map in Hrx as [j [_ Hrx]]. destruct (getz (t_nodes O) j) eqn:Gj; try contradiction.
        destruct Hrx as [<-|[]]. destruct (RO _ (getz_In _ _ _ Gj)) as [_ Rq].
        apply ref_ok_cases in Rq as [?|[_ ?]]; [contradiction|auto]. }
      pose proof (rows_of_index_of (t_individuals O) fi q 0 ltac:(lia) Lq Ffi) as Y. rewrite Z.sub_0_r, GOq in Y.
      eexists. split.
      * rewrite N3, getz_app_r by (pose proof (index_of_in q fi 0 Lq ltac:(lia)); lia).
        apply (getz_map _ _ _ _ Y).
      * reflexivity.
    + (* identified with an individual of self through a shared node *)
      apply Z.eqb_neq in Sd. destruct (Seed q Sd) as [j [mj [rO [rS [Gm [Nm [GOj [GSm [EqO EqS]]]]]]]]].
      rewrite EOn in GOj. destruct (nodes_out_getz_inv _ _ _ _ _ _ IB GOj) as [w [rw [Gw [Hw ->]]]].
      unfold mp, mapping_of in Gm. rewrite (getz_map (fun x => index_of x A 0) B j w Gw) in Gm. inversion Gm; subst mj.
      assert (listed A w = true) as LAw.
      { destruct (listed A w) eqn:E; auto. apply index_of_null_iff in E. contradiction. }
      rewrite index_of_node_index in GSm by auto. rewrite (SA w rw LAw Hw) in GSm. inversion GSm; subst rS.
      cbn [node_out n_ind] in EqO, EqS. unfold remap_ref in EqO, EqS.
      destruct (n_ind rw =? NULL) eqn:Ew. { contradiction. }
      (* same individual of T: the renumbering of B is injective on retained individuals *)
      assert (ind_kept T B ku (n_ind rw) = true) as KBw.
      { unfold ind_kept. apply orb_true_iff. right. unfold ind_referenced. apply existsb_exists.
        exists w. split; [eapply getz_In; eauto|]. rewrite Hw. apply Z.eqb_refl. }
      assert (In rw (t_nodes T)) as Irw.
      { unfold node_row in Hw. destruct (getz (t_nodes T) w) eqn:Gt; inversion Hw; subst. eapply getz_In; eauto. }
      destruct (refs_nodes T R rw Irw) as [_ Riw]. apply ref_ok_cases in Riw as [Riw|[_ Riw]].
      { apply Z.eqb_neq in Ew. contradiction. }
      apply in_range_iff in Riw.
      pose proof (getz_ok_range _ _ _ Gi) as Rii. apply in_range_iff in Rii.
      assert (n_ind rw = n_ind r) as Same.
      { unfold q in EqO. destruct (Z.lt_total (n_ind rw) (n_ind r)) as [Lt|[Eq|Gt]]; auto.
        - pose proof (IO2 (n_ind rw) (n_ind r) ltac:(lia) KBw KB). lia.
        - pose proof (IO2 (n_ind r) (n_ind rw) ltac:(lia) KB KBw). lia. }
      rewrite EqS, Same.
      assert (getz (t_individuals T) (n_ind rw) = Ok irow) as Gi' by now rewrite Same.
      destruct (InA w rw irow LAw Hw Gi') as [irow' [A1 A2]].
      rewrite Same in A1. eauto.
Qed.
