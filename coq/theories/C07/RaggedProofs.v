(* C07 — the ragged (metadata, metadata_offset) columns under the memcpy copy-back of
   tsk_table_sorter_sort_edges / _sort_migrations. *)
From Coq Require Import List ZArith Bool Lia Permutation Sorted.
From TskVerif Require Import Base.Common C07.Model C07.ListLemmas C07.CmpLemmas C07.SortProofs.
Import ListNotations.
Open Scope Z_scope.

(* the C layout of a list of byte rows *)
Fixpoint offsets_of (a : Z) (rows : list (list Z)) : list Z :=
  match rows with [] => [a] | r :: t => a :: offsets_of (a + zlen r) t end.
Fixpoint starts (a : Z) (rows : list (list Z)) : list Z :=
  match rows with [] => [] | r :: t => a :: starts (a + zlen r) t end.
Fixpoint spans_of (a : Z) (rows : list (list Z)) : list (Z * Z) :=
  match rows with [] => [] | r :: t => (a, zlen r) :: spans_of (a + zlen r) t end.

Lemma zlen_app {A} (a b : list A) : zlen (a ++ b) = zlen a + zlen b.
Proof. unfold zlen. rewrite app_length. lia. Qed.
Lemma zlen_nonneg {A} (a : list A) : 0 <= zlen a.
Proof. unfold zlen. lia. Qed.
Lemma zlen_cons {A} (x : A) l : zlen (x :: l) = zlen l + 1.
Proof. unfold zlen. simpl. lia. Qed.

Lemma offsets_of_starts a rows : offsets_of a rows = starts a rows ++ [a + zlen (concat rows)].
Proof.
  revert a; induction rows as [|r t IH]; intro a; simpl.
  - f_equal. unfold zlen. simpl. lia.
  - rewrite IH, zlen_app. f_equal. f_equal. f_equal. lia.
Qed.

Lemma starts_length a rows : length (starts a rows) = length rows.
Proof. revert a; induction rows; intro; simpl; auto. Qed.

Lemma get_app_mid {A} (pre : list A) x post : get (pre ++ x :: post) (zlen pre) = Ok x.
Proof.
  apply get_nth_error. split; [apply zlen_nonneg|]. unfold zlen. rewrite Nat2Z.id.
  rewrite nth_error_app2 by lia. now rewrite Nat.sub_diag.
Qed.

Lemma offsets_of_head a rows : exists tl, offsets_of a rows = a :: tl.
Proof. destruct rows; simpl; eauto. Qed.

Lemma get_offsets_head a rows : get (offsets_of a rows) 0 = Ok a.
Proof. destruct rows; reflexivity. Qed.

Lemma spans_from_offsets rows : forall pre a,
  spans_from (pre ++ offsets_of a rows) (zlen pre) (length rows) = Ok (spans_of a rows).
Proof.
  induction rows as [|r t IH]; intros pre a; simpl; auto.
  rewrite get_app_mid. simpl.
  assert (Z1 : zlen pre + 1 = zlen (pre ++ [a])) by (rewrite zlen_app; reflexivity).
  assert (G2 : get (pre ++ a :: offsets_of (a + zlen r) t) (zlen pre + 1) = Ok (a + zlen r)).
  { destruct (offsets_of_head (a + zlen r) t) as [tl E]. rewrite E.
    replace (pre ++ a :: (a + zlen r) :: tl) with ((pre ++ [a]) ++ (a + zlen r) :: tl)
      by (rewrite <- app_assoc; reflexivity).
    rewrite Z1. apply get_app_mid. }
  rewrite G2. simpl.
  replace (pre ++ a :: offsets_of (a + zlen r) t) with ((pre ++ [a]) ++ offsets_of (a + zlen r) t)
    by (rewrite <- app_assoc; reflexivity).
  rewrite Z1, IH. simpl. do 3 f_equal. lia.
Qed.

Lemma firstn_app_exact {A} (a b : list A) : firstn (length a) (a ++ b) = a.
Proof. rewrite firstn_app, Nat.sub_diag, firstn_all. simpl. apply app_nil_r. Qed.
Lemma skipn_app_exact {A} (a b : list A) : skipn (length a) (a ++ b) = b.
Proof. rewrite skipn_app, Nat.sub_diag, skipn_all. reflexivity. Qed.

Lemma slice_mid pre r post : slice (pre ++ r ++ post) (zlen pre) (zlen r) = Ok r.
Proof.
  unfold slice. pose proof (zlen_nonneg pre). pose proof (zlen_nonneg r). pose proof (zlen_nonneg post).
  replace (zlen pre <? 0) with false by (symmetry; apply Z.ltb_ge; lia).
  replace (zlen r <? 0) with false by (symmetry; apply Z.ltb_ge; lia).
  replace (zlen (pre ++ r ++ post) <? zlen pre + zlen r) with false
    by (symmetry; apply Z.ltb_ge; rewrite !zlen_app; lia).
  simpl. unfold zlen. rewrite !Nat2Z.id. rewrite skipn_app_exact, firstn_app_exact. reflexivity.
Qed.

Lemma slice_length buf off len r : slice buf off len = Ok r -> zlen r = len.
Proof.
  unfold slice. destruct ((off <? 0) || (len <? 0) || (zlen buf <? off + len)) eqn:C; [discriminate|].
  intro H; inversion H; subst; clear H.
  apply orb_false_iff in C as [C C3]. apply orb_false_iff in C as [C1 C2].
  apply Z.ltb_ge in C1, C2, C3. unfold zlen in *.
  rewrite firstn_length, skipn_length. lia.
Qed.

Lemma slices_of_spans rows : forall pre post,
  Forall2 (fun sp r => slice (pre ++ concat rows ++ post) (fst sp) (snd sp) = Ok r)
          (spans_of (zlen pre) rows) rows.
Proof.
  induction rows as [|r t IH]; intros pre post; simpl; constructor.
  - simpl. rewrite <- app_assoc. apply slice_mid.
  - specialize (IH (pre ++ r) post). rewrite zlen_app in IH.
    rewrite <- !app_assoc in IH. rewrite <- app_assoc. exact IH.
Qed.

Lemma write_at_mid A M R r :
  zlen M = zlen r -> write_at (A ++ M ++ R) (zlen A) r = Ok (A ++ r ++ R).
Proof.
  intro E. unfold write_at. pose proof (zlen_nonneg A).
  replace (zlen A <? 0) with false by (symmetry; apply Z.ltb_ge; lia).
  replace (zlen (A ++ M ++ R) <? zlen A + zlen r) with false
    by (symmetry; apply Z.ltb_ge; rewrite !zlen_app; pose proof (zlen_nonneg R); lia).
  simpl. unfold zlen in *. rewrite Nat2Z.id, firstn_app_exact.
  replace (length A + length r)%nat with (length (A ++ M)) by (rewrite app_length; lia).
  rewrite (app_assoc A M R), skipn_app_exact. reflexivity.
Qed.

Lemma copy_back_spec old spans rs :
  Forall2 (fun sp r => slice old (fst sp) (snd sp) = Ok r) spans rs ->
  forall A M B, zlen M = zlen (concat rs) ->
    copy_back old spans (zlen A) (A ++ M ++ B) = Ok (A ++ concat rs ++ B, starts (zlen A) rs).
Proof.
  induction 1 as [|[off len] r spans rs Hs F IH]; intros A M B E; simpl in *.
  - unfold zlen in E. simpl in E. destruct M; [|simpl in E; lia]. reflexivity.
  - rewrite Hs. simpl. rewrite zlen_app in E.
    pose proof (slice_length _ _ _ _ Hs) as Lr.
    pose proof (zlen_nonneg r). pose proof (zlen_nonneg (concat rs)).
    set (M1 := firstn (length r) M). set (M2 := skipn (length r) M).
    assert (EM : M = M1 ++ M2) by (symmetry; apply firstn_skipn).
    assert (L1 : zlen M1 = zlen r).
    { unfold M1, zlen in *. rewrite firstn_length. lia. }
    assert (L2 : zlen M2 = zlen (concat rs)).
    { unfold M2, zlen in *. rewrite skipn_length. lia. }
    rewrite EM, <- app_assoc. rewrite (write_at_mid A M1 (M2 ++ B) r L1). simpl.
    replace (zlen A + len) with (zlen (A ++ r)) by (rewrite zlen_app; lia).
    replace (A ++ r ++ M2 ++ B) with ((A ++ r) ++ M2 ++ B) by (rewrite <- app_assoc; reflexivity).
    rewrite (IH (A ++ r) M2 B L2). simpl. rewrite <- !app_assoc. rewrite zlen_app.
    replace (zlen A + zlen r) with (zlen A + len) by lia. subst len. reflexivity.
Qed.

Lemma Permutation_concat_zlen (a b : list (list Z)) :
  Permutation a b -> zlen (concat a) = zlen (concat b).
Proof.
  induction 1; simpl; auto; rewrite ?zlen_app in *; lia.
Qed.

Lemma ragged_rows_wf mds : ragged_rows (concat mds) (offsets_of 0 mds) (length mds) = Ok mds.
Proof.
  unfold ragged_rows.
  pose proof (spans_from_offsets mds [] 0) as S. change (zlen (@nil Z)) with 0 in S. simpl in S.
  rewrite S. simpl. apply mapM_ok_intro.
  pose proof (slices_of_spans mds [] []) as F. change (zlen (@nil Z)) with 0 in F. simpl in F.
  rewrite app_nil_r in F. exact F.
Qed.

(* ---------------------------------------------------------------------- *)
(* the core of both sorters (start = 0): rows with their metadata are permuted *)
(* ---------------------------------------------------------------------- *)
Section Ragged.
  Context {X R : Type} (row : R -> X) (off len : R -> Z).

  Definition md_of (old : list Z) (e : R) : list Z := val [] (slice old (off e) (len e)).

  Lemma ragged_sort_core_at old (A : list Z) (mds : list (list Z)) (xs : list X) (recs sorted : list R) :
    old = A ++ concat mds -> length xs = length mds ->
    Forall2 (fun x e => row e = fst x /\ slice old (off e) (len e) = Ok (snd x)) (combine xs mds) recs ->
    Permutation recs sorted ->
    exists mds',
      copy_back old (map (fun e => (off e, len e)) sorted) (zlen A) old = Ok (A ++ concat mds', starts (zlen A) mds') /\
      Permutation (combine xs mds) (combine (map row sorted) mds') /\
      length mds' = length sorted /\ zlen (concat mds') = zlen (concat mds) /\
      mds' = map (md_of old) sorted /\ map (md_of old) recs = mds /\ map row recs = xs.
  Proof.
    intros Eo Lx F P. exists (map (md_of old) sorted).
    assert (Full : map (fun e => (row e, md_of old e)) recs = combine xs mds).
    { clear P. induction F as [|x e l l' [H1 H2] F IH]; simpl; auto.
      rewrite IH. unfold md_of. rewrite H2. simpl. rewrite H1. now destruct x. }
    assert (MdRecs : map (md_of old) recs = mds).
    { assert (map snd (map (fun e => (row e, md_of old e)) recs) = map snd (combine xs mds)) by now rewrite Full.
      rewrite map_map in H. simpl in H. etransitivity; [exact H|].
      clear - Lx. revert mds Lx. induction xs; intros [|m mds] L; simpl in *; try discriminate; auto.
      f_equal. apply IHxs. lia. }
    assert (SlOk : Forall (fun e => slice old (off e) (len e) = Ok (md_of old e)) sorted).
    { apply Forall_forall. intros e He.
      assert (In e recs) by (eapply Permutation_in; [symmetry; eauto|auto]).
      clear - F H. induction F as [|x e' l l' [H1 H2] F IH]; [inversion H|].
      destruct H as [->|H]; auto. unfold md_of. now rewrite H2. }
    assert (Lz : zlen (concat (map (md_of old) sorted)) = zlen (concat mds)).
    { rewrite <- MdRecs. apply Permutation_concat_zlen. apply Permutation_map. now symmetry. }
    assert (RowRecs : map row recs = xs).
    { assert (map fst (map (fun e => (row e, md_of old e)) recs) = map fst (combine xs mds)) by now rewrite Full.
      rewrite map_map in H. simpl in H. etransitivity; [exact H|].
      clear - Lx. revert mds Lx. induction xs; intros [|m mds] L; simpl in *; try discriminate; auto.
      f_equal. apply IHxs. lia. }
    split; [|split; [|split; [|split; [|split; [|split]]]]]; auto.
    - pose proof (copy_back_spec old (map (fun e => (off e, len e)) sorted) (map (md_of old) sorted)) as CB.
      specialize (CB ltac:(clear - SlOk; induction SlOk; simpl; constructor; auto)).
      specialize (CB A (concat mds) []). rewrite !app_nil_r in CB. rewrite <- Eo in CB.
      apply CB. now rewrite Lz.
    - rewrite <- Full. rewrite combine_map_l. now apply Permutation_map.
    - now rewrite map_length.
  Qed.

  Lemma ragged_sort_core old (mds : list (list Z)) (xs : list X) (recs sorted : list R) :
    old = concat mds -> length xs = length mds ->
    Forall2 (fun x e => row e = fst x /\ slice old (off e) (len e) = Ok (snd x)) (combine xs mds) recs ->
    Permutation recs sorted ->
    exists mds',
      copy_back old (map (fun e => (off e, len e)) sorted) 0 old = Ok (concat mds', starts 0 mds') /\
      Permutation (combine xs mds) (combine (map row sorted) mds') /\
      length mds' = length sorted /\ zlen (concat mds') = zlen (concat mds) /\
      mds' = map (md_of old) sorted /\ map (md_of old) recs = mds /\ map row recs = xs.
  Proof.
    intros Eo Lx F P. exists (map (md_of old) sorted).
    assert (Full : map (fun e => (row e, md_of old e)) recs = combine xs mds).
    { clear P. induction F as [|x e l l' [H1 H2] F IH]; simpl; auto.
      rewrite IH. unfold md_of. rewrite H2. simpl. rewrite H1. now destruct x. }
    assert (MdRecs : map (md_of old) recs = mds).
    { assert (map snd (map (fun e => (row e, md_of old e)) recs) = map snd (combine xs mds)) by now rewrite Full.
      rewrite map_map in H. simpl in H. etransitivity; [exact H|].
      clear - Lx. revert mds Lx. induction xs; intros [|m mds] L; simpl in *; try discriminate; auto.
      f_equal. apply IHxs. lia. }
    assert (SlOk : Forall (fun e => slice old (off e) (len e) = Ok (md_of old e)) sorted).
    { apply Forall_forall. intros e He.
      assert (In e recs) by (eapply Permutation_in; [symmetry; eauto|auto]).
      clear - F H. induction F as [|x e' l l' [H1 H2] F IH]; [inversion H|].
      destruct H as [->|H]; auto. unfold md_of. now rewrite H2. }
    assert (Lz : zlen (concat (map (md_of old) sorted)) = zlen (concat mds)).
    { rewrite <- MdRecs. apply Permutation_concat_zlen. apply Permutation_map. now symmetry. }
    assert (RowRecs : map row recs = xs).
    { assert (map fst (map (fun e => (row e, md_of old e)) recs) = map fst (combine xs mds)) by now rewrite Full.
      rewrite map_map in H. simpl in H. etransitivity; [exact H|].
      clear - Lx. revert mds Lx. induction xs; intros [|m mds] L; simpl in *; try discriminate; auto.
      f_equal. apply IHxs. lia. }
    split; [|split; [|split; [|split; [|split; [|split]]]]]; auto.
    - pose proof (copy_back_spec old (map (fun e => (off e, len e)) sorted) (map (md_of old) sorted)) as CB.
      specialize (CB ltac:(clear - SlOk; induction SlOk; simpl; constructor; auto)).
      specialize (CB [] old []). change (zlen (@nil Z)) with 0 in CB. simpl in CB.
      rewrite !app_nil_r in CB. apply CB. rewrite Lz. now subst old.
    - rewrite <- Full. rewrite combine_map_l. now apply Permutation_map.
    - now rewrite map_length.
  Qed.
End Ragged.
