(* C07 — composing the pieces: sort() followed by build_index() turns a referentially
   intact, logically consistent collection (in any row order) into a table meeting
   [valid_for_parents], so compute_mutation_parents() then assigns the nearest mutation above. *)
From Coq Require Import List ZArith Bool Lia Permutation Sorted.
From TskVerif Require Import Base.Common C07.Model C07.ListLemmas C07.CmpLemmas C07.SortProofs
     C07.RaggedProofs C07.TopProofs C07.IdemProofs C07.MutParentsProofs C07.SweepProofs C07.IndexProofs.
Import ListNotations.
Open Scope Z_scope.

(* order-free validity of the content *)
Record consistent_input (t : tables) : Prop := {
  ci_edges : forall e, In e (t_edges t) ->
      0 <= e_left e < e_right e /\ e_right e <= t_L t /\ 0 <= e_child e < zlen (t_nodes t) /\
      0 <= e_parent e < zlen (t_nodes t) /\ node_rank t (e_child e) < node_rank t (e_parent e);
  ci_consistent : consistent (t_edges t);
  ci_sites : forall s, In s (t_sites t) -> 0 <= s_pos s < t_L t;
  ci_muts : forall m, In m (t_muts t) -> 0 <= m_node m < zlen (t_nodes t)
}.

Lemma Sorted_combine_msite mp l : length mp = length l ->
  Sorted mut_le (combine mp l) -> Sorted (fun a b => m_site a <= m_site b) l.
Proof.
  revert mp; induction l as [|x t IH]; intros [|j mp] L S; simpl in *; try discriminate; constructor.
  - eapply IH; [|inversion S; eauto]. lia.
  - inversion S as [|? ? S1 Hd]; subst. destruct t as [|y t], mp as [|k mp]; simpl in *; try discriminate; constructor.
    inversion Hd as [|? ? H]; subst. unfold mut_le in H. simpl in H. lia.
Qed.

Lemma Forall2_in_r {A B} (R : A -> B -> Prop) l l' b : Forall2 R l l' -> In b l' -> exists a, In a l /\ R a b.
Proof.
  induction 1; intros []; subst.
  - exists x. split; auto. now left.
  - destruct (IHForall2 H1) as (a & I & Ra). exists a. split; auto. now right.
Qed.

Theorem sort_index_valid Q t mds gds t1 t2 :
  qsorts_ok Q -> check_refs t = true -> edges_wf t mds -> migs_wf t gds -> consistent_input t ->
  table_sort Q None t = Ok t1 -> build_index Q t1 = Ok t2 ->
  exists insE outsE, valid_for_parents t2 insE outsE.
Proof.
  intros HQ CR EW GW [Ce Cc Cs Cm] E1 E2.
  destruct (table_sort_spec Q HQ t mds gds CR EW GW) as (t1' & mds' & gds' & sp & mp & E1' & P).
  rewrite E1 in E1'. inversion E1'; subst t1'. clear E1'.
  destruct P as (EW' & GW' & Pe & _ & _ & _ & (Psp & Fs & Ss) & (Pmp & Fm & Sm) & (SL & Sn & _ & _) & _).
  destruct (build_index_spec Q HQ t1 t2 E2) as (ins & outs & insE & outsE & -> & _ & _ & Ri & Ro & Si & So & Ai & Ao).
  destruct EW as (_ & _ & Le). destruct EW' as (_ & _ & Le').
  assert (Pes : Permutation (t_edges t) (t_edges t1)).
  { apply (Permutation_map fst) in Pe. rewrite !map_fst_combine in Pe by auto. exact Pe. }
  assert (Rk : forall v, node_rank (set_index t1 (Some (ins, outs))) v = node_rank t v).
  { intro v. unfold node_rank. simpl. now rewrite <- Sn. }
  exists insE, outsE. constructor; simpl.
  - intros e He. rewrite <- SL, <- Sn, !Rk. apply Ce. eapply Permutation_in; [symmetry; exact Pes | exact He].
  - intros a b Ha Hb. apply Cc; eapply Permutation_in; try (symmetry; exact Pes); auto.
  - exists ins, outs. auto.
  - exact Si.
  - exact So.
  - exact Ai.
  - exact Ao.
  - eapply Sorted_combine_pos; [|exact Ss]. eapply Forall2_length'; eauto.
  - intros s Hs. rewrite <- SL.
    destruct (Forall2_in_r _ _ _ _ Fs Hs) as (i & _ & G). apply Cs. eapply get_in; eauto.
  - eapply Sorted_combine_msite; [|exact Sm]. eapply Forall2_length'; eauto.
  - intros m' Hm'. destruct (Forall2_in_r _ _ _ _ Fm Hm') as (j & _ & m & G & I).
    destruct I as (In_ & _ & _ & _ & Is & _). rewrite <- Sn, In_. split.
    + apply Cm. eapply get_in; eauto.
    + apply get_lt in Is. lia.
Qed.

(* the pipeline statement: whatever the row order of a consistent collection, after sort()
   and build_index() a successful compute_mutation_parents() has written the nearest mutation
   above for every mutation *)
Theorem sort_index_parents_nearest Q t mds gds t1 t2 t3 :
  qsorts_ok Q -> check_refs t = true -> edges_wf t mds -> migs_wf t gds -> consistent_input t ->
  table_sort Q None t = Ok t1 -> build_index Q t1 = Ok t2 -> compute_mutation_parents t2 = Ok t3 ->
  forall s site k, nth_error (t_sites t2) s = Some site ->
    (k < length (site_block (t_muts t2) (Z.of_nat s)))%nat ->
    let first := site_first (t_muts t2) (Z.of_nat s) in
    exists m', nth_error (t_muts t3) (Z.to_nat first + k) = Some m' /\
      nearest_above (parent_at (t_edges t2) (s_pos site))
                    (map m_node (site_block (t_muts t2) (Z.of_nat s))) first k (m_parent m').
Proof.
  intros HQ CR EW GW CI E1 E2 E3 s site k Hs Hk first.
  destruct (sort_index_valid Q t mds gds t1 t2 HQ CR EW GW CI E1 E2) as (insE & outsE & V).
  destruct (mutation_parents_nearest_proof' t2 t3 insE outsE V E3) as (_ & _ & N).
  destruct (N s site k Hs Hk) as (m' & A & B & _). eauto.
Qed.

(* ---------------------------------------------------------------------- *)
(* build_index always succeeds on the output of sort() (no duplicate edge keys) *)
(* ---------------------------------------------------------------------- *)
From TskVerif Require Import C07.EdgeOrderProofs.

Theorem sort_then_build_index_ok Q t mds gds t1 :
  qsorts_ok Q -> check_refs t = true -> edges_wf t mds -> migs_wf t gds ->
  NoDup (map (edge_key (map n_time (t_nodes t))) (t_edges t)) ->
  table_sort Q None t = Ok t1 -> exists t2, build_index Q t1 = Ok t2.
Proof.
  intros HQ CR EW GW ND E1.
  destruct (table_sort_spec Q HQ t mds gds CR EW GW) as (t1' & mds' & gds' & sp & mp & E1' & P).
  rewrite E1 in E1'. inversion E1'; subst t1'. clear E1'.
  pose proof (sort_post_check_refs t t1 _ _ _ _ _ _ CR EW GW P) as CR1.
  destruct P as (EW' & _ & Pe & _ & Se & _ & _ & _ & (_ & Sn & _ & _) & _).
  destruct EW as (_ & _ & Le). destruct EW' as (_ & _ & Le').
  assert (Pes : Permutation (t_edges t) (t_edges t1)).
  { apply (Permutation_map fst) in Pe. rewrite !map_fst_combine in Pe by auto. exact Pe. }
  destruct (check_refs_spec t1 CR1) as [RGe _].
  set (time := map n_time (t_nodes t1)).
  assert (Zt : zlen time = zlen (t_nodes t1)) by (unfold time, zlen; now rewrite map_length).
  unfold build_index. rewrite CR1. cbn [negb]. fold time.
  replace (length (t_nodes t1)) with (Z.to_nat (zlen time)) by (rewrite Zt; unfold zlen; lia).
  rewrite edge_order_accepts_sorted.
  - cbn [bind negb].
    assert (Tot : forall (h : Z -> erow -> Z -> index_sort) (je : Z * erow), In je (indexed 0 (t_edges t1)) ->
              exists y, (do tp <- get time (e_parent (snd je)); Ok (h (fst je) (snd je) tp)) = Ok y).
    { intros h [j e] Hin. simpl. apply indexed_get, get_in in Hin.
      destruct (get_ok_iff time (e_parent e)) as [_ G]. destruct G as [x G]; [rewrite Zt; auto|].
      rewrite G. simpl. eauto. }
    match goal with |- context [bind (mapM ?f ?l) _] =>
      destruct (mapM_total f l) as [l1 M1];
        [intros je Hin; exact (Tot (fun j e tp => mkIS j (e_left e) tp (e_parent e) (e_child e)) je Hin)|]
    end.
    rewrite M1. cbn [bind].
    match goal with |- context [bind (mapM ?f ?l) _] =>
      destruct (mapM_total f l) as [l2 M2];
        [intros je Hin; exact (Tot (fun j e tp => mkIS j (e_right e) (- tp) (- e_parent e) (- e_child e)) je Hin)|]
    end.
    rewrite M2. cbn [bind]. eauto.
  - intros e He. rewrite Zt. auto.
  - unfold time. rewrite <- Sn. exact Se.
  - unfold time. rewrite <- Sn. eapply Permutation_NoDup; [|exact ND]. now apply Permutation_map.
Qed.
