(* C07 — the edge sweep of compute_mutation_parents (tables.c 12393-12408, 12454): with
   insertion / removal orders that list every edge, sorted by left / right, the [parent]
   array at the time a site is processed is the parent map of the tree covering the site. *)
From Coq Require Import List ZArith Bool Lia Permutation Sorted.
From TskVerif Require Import Base.Common C07.Model C07.ListLemmas C07.SortProofs C07.RaggedProofs
     C07.MutParentsProofs.
Import ListNotations.
Open Scope Z_scope.

(* ---------------------------------------------------------------------- *)
(* parent maps defined from the edge rows                                   *)
(* ---------------------------------------------------------------------- *)
(* parent of the first edge with child c satisfying P, else NULL *)
Definition pfun (P : erow -> bool) (es : list erow) (c : Z) : Z :=
  match find (fun e => (e_child e =? c) && P e) es with Some e => e_parent e | None => NULL end.

Definition covers (x : Z) (e : erow) : bool := (e_left e <=? x) && (x <? e_right e).
(* the tree at coordinate x *)
Definition parent_at (es : list erow) (x : Z) : Z -> Z := pfun (covers x) es.

Definition overlap (a b : erow) : Prop := e_left a < e_right b /\ e_left b < e_right a.
(* no contradictory edges: two edges of one child that overlap are the same row *)
Definition consistent (es : list erow) : Prop :=
  forall a b, In a es -> In b es -> e_child a = e_child b -> overlap a b -> a = b.

Lemma pfun_ext P P' es c :
  (forall e, In e es -> e_child e = c -> P e = P' e) -> pfun P es c = pfun P' es c.
Proof.
  unfold pfun. intro H. induction es as [|e tl IH]; simpl; auto.
  destruct (e_child e =? c) eqn:E; simpl.
  - apply Z.eqb_eq in E. rewrite <- (H e) by (auto; now left).
    destruct (P e); auto. apply IH. intros; apply H; auto; now right.
  - apply IH. intros; apply H; auto; now right.
Qed.

Lemma pfun_some P es c e :
  In e es -> e_child e = c -> P e = true ->
  (forall e', In e' es -> e_child e' = c -> P e' = true -> e_parent e' = e_parent e) ->
  pfun P es c = e_parent e.
Proof.
  unfold pfun. intros Hin Hc Hp U.
  destruct (find (fun e0 => (e_child e0 =? c) && P e0) es) as [e'|] eqn:F.
  - apply find_some in F as [I F]. apply andb_true_iff in F as [F1 F2]. apply Z.eqb_eq in F1. auto.
  - exfalso. pose proof (find_none _ _ F e Hin) as N. simpl in N.
    rewrite Hp, andb_true_r in N. apply Z.eqb_neq in N. auto.
Qed.

Lemma pfun_none P es c :
  (forall e, In e es -> e_child e = c -> P e = false) -> pfun P es c = NULL.
Proof.
  unfold pfun. intro H.
  destruct (find (fun e0 => (e_child e0 =? c) && P e0) es) as [e'|] eqn:F; auto.
  apply find_some in F as [I F]. apply andb_true_iff in F as [F1 F2]. apply Z.eqb_eq in F1.
  rewrite (H e' I F1) in F2. discriminate.
Qed.

Lemma pfun_cases P es c :
  (pfun P es c = NULL /\ forall e, In e es -> e_child e = c -> P e = false) \/
  (exists e, In e es /\ e_child e = c /\ P e = true /\ pfun P es c = e_parent e).
Proof.
  unfold pfun. destruct (find (fun e0 => (e_child e0 =? c) && P e0) es) as [e'|] eqn:F.
  - right. apply find_some in F as [I F]. apply andb_true_iff in F as [F1 F2]. apply Z.eqb_eq in F1.
    exists e'. auto.
  - left. split; auto. intros e I Hc. pose proof (find_none _ _ F e I) as N. simpl in N.
    apply andb_false_iff in N as [N|N]; auto. apply Z.eqb_neq in N. contradiction.
Qed.

(* ---------------------------------------------------------------------- *)
(* the two inner loops on edge records                                      *)
(* ---------------------------------------------------------------------- *)
(* edges named by an index list *)
Definition rows_of (edges : list erow) (ix : list Z) (rs : list erow) : Prop :=
  Forall2 (fun k e => get edges k = Ok e) ix rs.

(* split of a list sorted by key at the run of elements with key = x *)
Lemma sorted_run_split (key : erow -> Z) (x : Z) (l : list erow) :
  Sorted (fun a b => key a <= key b) l -> (forall e, In e l -> x <= key e) ->
  exists run rest, l = run ++ rest /\ (forall e, In e run -> key e = x) /\
                   (forall e, In e rest -> x < key e) /\
                   (match rest with [] => True | e :: _ => x < key e end).
Proof.
  intros S Ge. induction l as [|e tl IH].
  - exists [], []. repeat split; auto; intros ? [].
  - assert (S' : Sorted (fun a b => key a <= key b) tl) by now inversion S.
    destruct (Z.eq_dec (key e) x) as [E|N].
    + destruct IH as (run & rest & E1 & E2 & E3 & E4); auto. { intros; apply Ge; now right. }
      exists (e :: run), rest. subst tl. repeat split; auto. intros y [<-|Hy]; auto.
    + exists [], (e :: tl). simpl. assert (x < key e) by (specialize (Ge e (or_introl eq_refl)); lia).
      repeat split; auto; [intros ? []|].
      apply Sorted_StronglySorted in S; [|intros a b c; lia]. inversion S; subst.
      rewrite Forall_forall in H3. intros y [<-|Hy]; auto. specialize (H3 y Hy). lia.
Qed.

Lemma find_app' {A} (f : A -> bool) l1 l2 :
  find f (l1 ++ l2) = match find f l1 with Some x => Some x | None => find f l2 end.
Proof. induction l1 as [|x t IH]; simpl; auto. destruct (f x); auto. Qed.

(* sweep_out on a run of edges ending at [left] followed by edges ending later *)
Lemma sweep_out_run edges left : forall ix run rest_ix rest parent f,
  rows_of edges ix run -> rows_of edges rest_ix rest ->
  (forall e, In e run -> e_right e = left /\ 0 <= e_child e < zlen parent) ->
  (match rest with [] => True | e :: _ => e_right e <> left end) ->
  arr_is parent f ->
  exists parent',
    sweep_out edges left (ix ++ rest_ix) parent = Ok (rest_ix, parent') /\
    zlen parent' = zlen parent /\
    arr_is parent' (fun c => if existsb (fun e => e_child e =? c) run then NULL else f c).
Proof.
  induction ix as [|k ix IH]; intros run rest_ix rest parent f R1 R2 Hr Hd A.
  - inversion R1; subst. simpl. exists parent. split; [|split; auto].
    destruct R2 as [|k e rest_ix rest G R2]; simpl; auto.
    rewrite G. simpl. replace (e_right e =? left) with false; auto.
    symmetry. now apply Z.eqb_neq.
  - inversion R1 as [|? e ? run' G R1']; subst. simpl. rewrite G. simpl.
    destruct (Hr e (or_introl eq_refl)) as [Er Rc]. rewrite Er, Z.eqb_refl.
    destruct (set_spec parent (e_child e) NULL Rc) as (p1 & Es & _). rewrite Es. simpl.
    destruct (arr_is_set _ _ _ _ _ A Es) as [A1 Z1].
    destruct (IH run' rest_ix rest p1 (upd f (e_child e) NULL) R1' R2) as (p' & E' & Z' & A'); auto.
    { intros e' He'. rewrite Z1. apply Hr. now right. }
    exists p'. split; auto. split; [congruence|].
    eapply arr_is_ext; [exact A'|]. intros c Hc. simpl. unfold upd.
    rewrite (Z.eqb_sym (e_child e) c). destruct (c =? e_child e); simpl; auto.
    destruct (existsb (fun e0 => e_child e0 =? c) run'); auto.
Qed.

Lemma sweep_in_run edges left : forall ix run rest_ix rest parent f,
  rows_of edges ix run -> rows_of edges rest_ix rest ->
  (forall e, In e run -> e_left e = left /\ 0 <= e_child e < zlen parent) ->
  (match rest with [] => True | e :: _ => e_left e <> left end) ->
  arr_is parent f ->
  exists parent',
    sweep_in edges left (ix ++ rest_ix) parent = Ok (rest_ix, parent') /\
    zlen parent' = zlen parent /\
    arr_is parent' (fun c => match find (fun e => e_child e =? c) (rev run) with
                             | Some e => e_parent e | None => f c end).
Proof.
  induction ix as [|k ix IH]; intros run rest_ix rest parent f R1 R2 Hr Hd A.
  - inversion R1; subst. simpl. exists parent. split; [|split; auto].
    destruct R2 as [|k e rest_ix rest G R2]; simpl; auto.
    rewrite G. simpl. replace (e_left e =? left) with false; auto.
    symmetry. now apply Z.eqb_neq.
  - inversion R1 as [|? e ? run' G R1']; subst. simpl. rewrite G. simpl.
    destruct (Hr e (or_introl eq_refl)) as [Er Rc]. rewrite Er, Z.eqb_refl.
    destruct (set_spec parent (e_child e) (e_parent e) Rc) as (p1 & Es & _). rewrite Es. simpl.
    destruct (arr_is_set _ _ _ _ _ A Es) as [A1 Z1].
    destruct (IH run' rest_ix rest p1 (upd f (e_child e) (e_parent e)) R1' R2) as (p' & E' & Z' & A'); auto.
    { intros e' He'. rewrite Z1. apply Hr. now right. }
    exists p'. split; auto. split; [congruence|].
    eapply arr_is_ext; [exact A'|]. intros c Hc. simpl.
    rewrite find_app'. destruct (find (fun e0 => e_child e0 =? c) (rev run')); auto.
    simpl. unfold upd. rewrite (Z.eqb_sym (e_child e) c). destruct (c =? e_child e); auto.
Qed.

(* ---------------------------------------------------------------------- *)
(* where the mutation cursor stands after the site loop                      *)
(* ---------------------------------------------------------------------- *)
Lemma sites_loop_state fuel parent right : forall sites sid muts mid bottom mparent r,
  Sorted (fun a b => m_site a <= m_site b) muts -> (forall m, In m muts -> sid <= m_site m) ->
  sites_loop fuel parent right sites sid muts mid bottom mparent = Ok r ->
  exists taken, muts = taken ++ fst (snd (fst r)) /\ snd (snd (fst r)) = mid + zlen taken /\
    (forall m, In m taken -> m_site m < snd (fst (fst r))) /\
    (forall m, In m (fst (snd (fst r))) -> snd (fst (fst r)) <= m_site m) /\
    Sorted (fun a b => m_site a <= m_site b) (fst (snd (fst r))).
Proof.
  induction sites as [|s tl IH]; intros sid muts mid bottom mparent r S Ge L; simpl in L.
  - inversion L; subst; simpl. exists []. simpl. change (zlen (@nil mutation)) with 0.
    repeat split; auto; try lia; try (intros ? []).
  - destruct (s_pos s <? right).
    + destruct (take_site_sorted sid muts S Ge) as (B1 & B2 & B3).
      destruct (take_site_split sid muts) as [Esp Esite].
      destruct (do_site fuel parent (map m_node (fst (take_site sid muts))) mid bottom mparent)
        as [[b1 m1]| | |]; simpl in L; try discriminate.
      destruct (IH _ _ _ _ _ _ B3 B2 L) as (taken & E1 & E2 & E3 & E4 & E5).
      exists (fst (take_site sid muts) ++ taken). rewrite <- app_assoc, <- E1.
      split; auto. split; [rewrite E2, zlen_app; lia|]. split; auto.
      intros m Hm. apply in_app_or in Hm as [Hm|Hm]; auto.
      rewrite (Esite m Hm).
      (* sid < final site id: the recursive call starts at sid + 1 and never decreases *)
      clear - L.
      assert (G : forall sites a muts mid b mp r, sites_loop fuel parent right sites a muts mid b mp = Ok r ->
                    a <= snd (fst (fst r))).
      { clear. induction sites as [|s tl IH]; intros a muts mid b mp r L; simpl in L.
        - inversion L; simpl; lia.
        - destruct (s_pos s <? right); [|inversion L; simpl; lia].
          destruct (do_site _ _ _ _ _ _) as [[b1 m1]| | |]; simpl in L; try discriminate.
          apply IH in L. lia. }
      apply G in L. lia.
    + inversion L; subst; simpl. exists []. simpl. change (zlen (@nil mutation)) with 0.
      repeat split; auto; try lia; try (intros ? []).
Qed.

(* ---------------------------------------------------------------------- *)
(* the outer loop                                                           *)
(* ---------------------------------------------------------------------- *)
Definition P_head (left : Z) (e : erow) : bool := (e_left e <? left) && (left <=? e_right e).
Definition P_mid (left : Z) (e : erow) : bool := (e_left e <? left) && (left <? e_right e).

Lemma Sorted_head_min (key : erow -> Z) e l :
  Sorted (fun a b => key a <= key b) (e :: l) -> forall x, In x (e :: l) -> key e <= key x.
Proof.
  intros S x Hx. apply Sorted_StronglySorted in S; [|intros a b c; lia].
  inversion S; subst. destruct Hx as [<-|Hx]; [lia|]. rewrite Forall_forall in H2. auto.
Qed.

Lemma Sorted_app_r {A} (R : A -> A -> Prop) l1 l2 : Sorted R (l1 ++ l2) -> Sorted R l2.
Proof. induction l1; simpl; auto. intro S. apply IHl1. now inversion S. Qed.

Lemma rows_of_app_inv edges ix rs1 rs2 :
  rows_of edges ix (rs1 ++ rs2) ->
  exists ix1 ix2, ix = ix1 ++ ix2 /\ rows_of edges ix1 rs1 /\ rows_of edges ix2 rs2.
Proof.
  revert ix; induction rs1 as [|r rs1 IH]; intros ix R; simpl in R.
  - exists [], ix. repeat split; auto. constructor.
  - inversion R as [|k ? ix' ? G R']; subst.
    destruct (IH ix' R') as (i1 & i2 & E & R1 & R2). exists (k :: i1), i2. subst.
    repeat split; auto. constructor; auto.
Qed.

Lemma nearest_anc_ext_par par par' has v r :
  (forall w, par w = par' w) -> nearest_anc par has v r -> nearest_anc par' has v r.
Proof.
  intros E H. induction H.
  - constructor.
  - now apply na_here.
  - apply na_up; auto. now rewrite <- E.
Qed.

Section Sweep.
  Variables (edges : list erow) (L n M : Z) (rank : Z -> Z).
  Variable allmuts : list mutation.
  Variables (fuel0 : nat).

  Hypothesis Hedges : forall e, In e edges ->
    0 <= e_left e < e_right e /\ e_right e <= L /\ 0 <= e_child e < n /\ 0 <= e_parent e < n /\
    rank (e_child e) < rank (e_parent e).
  Hypothesis Hcons : consistent edges.
  Hypothesis Hrank : forall v, 0 <= v < n -> rank v <= M.
  Hypothesis Hmuts_sorted : Sorted (fun a b => m_site a <= m_site b) allmuts.
  Hypothesis Hmuts_range : forall m, In m allmuts -> 0 <= m_node m < n /\ 0 <= m_site m.

  (* the tree at x is a forest with increasing rank *)
  Lemma parent_at_forest x v :
    parent_at edges x v = NULL \/ (0 <= parent_at edges x v < n /\ rank v < rank (parent_at edges x v)).
  Proof.
    unfold parent_at. destruct (pfun_cases (covers x) edges v) as [[E _]|(e & I & C & _ & E)]; auto.
    right. rewrite E. destruct (Hedges e I) as (_ & _ & _ & Rp & Rk). subst v. auto.
  Qed.

  (* edge cursors and parent array at the head of an outer iteration *)
  Record einv (left : Z) (ins outs : list Z) (insE outsE : list erow) (parent : list Z) : Prop := {
    i_ins : rows_of edges ins insE;
    i_outs : rows_of edges outs outsE;
    i_ins_sorted : Sorted (fun a b => e_left a <= e_left b) insE;
    i_outs_sorted : Sorted (fun a b => e_right a <= e_right b) outsE;
    i_ins_all : forall e, In e edges -> left <= e_left e -> In e insE;
    i_outs_all : forall e, In e edges -> left <= e_right e -> In e outsE;
    i_ins_in : forall e, In e insE -> In e edges /\ left <= e_left e;
    i_outs_in : forall e, In e outsE -> In e edges /\ left <= e_right e;
    i_parent : arr_is parent (pfun (P_head left) edges);
    i_parent_len : zlen parent = n
  }.

  Definition next_right (ins outs : list Z) : res Z :=
    do right1 <- match ins with [] => Ok L | k :: _ => do e <- get edges k; Ok (Z.min L (e_left e)) end;
    match outs with [] => Ok right1 | k :: _ => do e <- get edges k; Ok (Z.min right1 (e_right e)) end.

  Lemma existsb_child_in c run :
    existsb (fun e => e_child e =? c) run = true <-> exists e, In e run /\ e_child e = c.
  Proof.
    rewrite existsb_exists. split; intros (e & I & H); exists e; split; auto;
      [now apply Z.eqb_eq | now apply Z.eqb_eq].
  Qed.

  Lemma sweep_step_correct left ins outs insE outsE parent :
    einv left ins outs insE outsE parent -> 0 <= left < L ->
    exists ins' outs' insE' outsE' parent1 parent2 right,
      sweep_out edges left outs parent = Ok (outs', parent1) /\
      sweep_in edges left ins parent1 = Ok (ins', parent2) /\
      next_right ins' outs' = Ok right /\
      left < right <= L /\
      arr_is parent2 (parent_at edges left) /\
      (forall x c, left <= x < right -> parent_at edges x c = parent_at edges left c) /\
      einv right ins' outs' insE' outsE' parent2.
  Proof.
    intros [Ri Ro Si So Ai Ao Ii Io Ap Lp] [L0 LL].
    (* removal run *)
    destruct (sorted_run_split e_right left outsE So) as (run_o & rest_o & Eo & Ro1 & Ro2 & Ro3).
    { intros e He. apply Io; auto. }
    subst outsE. destruct (rows_of_app_inv _ _ _ _ Ro) as (ox1 & ox2 & -> & Rox1 & Rox2).
    destruct (sweep_out_run edges left ox1 run_o ox2 rest_o parent (pfun (P_head left) edges) Rox1 Rox2)
      as (p1 & Eout & Z1 & A1); auto.
    { intros e He. split; [auto|]. rewrite Lp. apply Hedges. apply Io. apply in_or_app. now left. }
    { destruct rest_o; auto. lia. }
    assert (A1' : arr_is p1 (pfun (P_mid left) edges)).
    { eapply arr_is_ext; [exact A1|]. intros c Hc. simpl.
      destruct (existsb (fun e => e_child e =? c) run_o) eqn:X.
      - apply existsb_child_in in X as (e & Ie & Ce). symmetry. apply pfun_none.
        intros e' Ie' Ce'. unfold P_mid. apply andb_false_iff.
        destruct (Z_lt_dec (e_left e') left) as [Hl|Hl]; [|left; apply Z.ltb_ge; lia].
        destruct (Z_lt_dec left (e_right e')) as [Hr|Hr]; [|right; apply Z.ltb_ge; lia].
        exfalso. assert (Iee : In e edges) by (apply Io; apply in_or_app; now left).
        pose proof (Ro1 e Ie) as Er. destruct (Hedges e Iee) as (Hlr & _).
        assert (e = e') by (apply Hcons; auto; [congruence | unfold overlap; lia]).
        subst e'. lia.
      - apply pfun_ext. intros e' Ie' Ce'. unfold P_head, P_mid. f_equal.
        destruct (Z.eq_dec (e_right e') left) as [E|N].
        + exfalso. assert (In e' (run_o ++ rest_o)) by (apply Ao; auto; lia).
          apply in_app_or in H as [H|H].
          * assert (existsb (fun e => e_child e =? c) run_o = true) by (apply existsb_child_in; eauto).
            congruence.
          * specialize (Ro2 e' H). lia.
        + destruct (left <=? e_right e') eqn:C1, (left <? e_right e') eqn:C2; auto;
            try apply Z.leb_le in C1; try apply Z.leb_gt in C1; try apply Z.ltb_lt in C2; try apply Z.ltb_ge in C2; lia. }
    (* insertion run *)
    destruct (sorted_run_split e_left left insE Si) as (run_i & rest_i & Ei & Ri1 & Ri2 & Ri3).
    { intros e He. apply Ii; auto. }
    subst insE. destruct (rows_of_app_inv _ _ _ _ Ri) as (ix1 & ix2 & -> & Rix1 & Rix2).
    destruct (sweep_in_run edges left ix1 run_i ix2 rest_i p1 (pfun (P_mid left) edges) Rix1 Rix2)
      as (p2 & Ein & Z2 & A2); auto.
    { intros e He. split; [auto|]. rewrite Z1, Lp. apply Hedges. apply Ii. apply in_or_app. now left. }
    { destruct rest_i; auto. lia. }
    assert (A2' : arr_is p2 (parent_at edges left)).
    { eapply arr_is_ext; [exact A2|]. intros c Hc. simpl. unfold parent_at.
      destruct (find (fun e => e_child e =? c) (rev run_i)) as [e|] eqn:F.
      - apply find_some in F as [Ie Ce]. apply in_rev in Ie. apply Z.eqb_eq in Ce.
        assert (Iee : In e edges) by (apply Ii; apply in_or_app; now left).
        pose proof (Ri1 e Ie) as El. destruct (Hedges e Iee) as (Hlr & _).
        symmetry. apply pfun_some; auto.
        + unfold covers. apply andb_true_iff. split; [apply Z.leb_le | apply Z.ltb_lt]; lia.
        + intros e' Ie' Ce' Cv. unfold covers in Cv. apply andb_true_iff in Cv as [C1 C2].
          apply Z.leb_le in C1. apply Z.ltb_lt in C2.
          assert (e' = e) by (apply Hcons; auto; [congruence | unfold overlap; lia]). now subst.
      - apply pfun_ext. intros e' Ie' Ce'. unfold P_mid, covers. f_equal.
        destruct (Z.eq_dec (e_left e') left) as [E|N].
        + exfalso. assert (In e' (run_i ++ rest_i)) by (apply Ai; auto; lia).
          apply in_app_or in H as [H|H].
          * pose proof (find_none _ _ F e' (proj1 (in_rev _ _) H)) as Nn. simpl in Nn.
            apply Z.eqb_neq in Nn. contradiction.
          * specialize (Ri2 e' H). lia.
        + destruct (e_left e' <? left) eqn:C1, (e_left e' <=? left) eqn:C2; auto;
            try apply Z.ltb_lt in C1; try apply Z.ltb_ge in C1; try apply Z.leb_le in C2; try apply Z.leb_gt in C2; lia. }
    (* the end of the tree *)
    assert (Sri : Sorted (fun a b => e_left a <= e_left b) rest_i) by (eapply Sorted_app_r; eauto).
    assert (Sro : Sorted (fun a b => e_right a <= e_right b) rest_o) by (eapply Sorted_app_r; eauto).
    set (r1 := match rest_i with [] => L | e :: _ => Z.min L (e_left e) end).
    set (right := match rest_o with [] => r1 | e :: _ => Z.min r1 (e_right e) end).
    assert (Enr : next_right ix2 ox2 = Ok right).
    { unfold next_right, right, r1.
      destruct Rix2 as [|k e ix2' rest_i' G Rix2']; simpl;
        [|rewrite G; simpl]; (destruct Rox2 as [|k2 e2 ox2' rest_o' G2 Rox2']; simpl; [|rewrite G2; simpl]); reflexivity. }
    assert (R1 : left < r1 <= L /\ forall e, In e rest_i -> r1 <= e_left e).
    { unfold r1. destruct rest_i as [|e tl]; [split; [lia | intros ? []]|].
      split; [lia|]. intros x Hx. pose proof (Sorted_head_min e_left e tl Sri x Hx). lia. }
    assert (R2 : left < right <= L /\ (forall e, In e rest_i -> right <= e_left e) /\
                 (forall e, In e rest_o -> right <= e_right e)).
    { destruct R1 as [R1a R1b]. unfold right. destruct rest_o as [|e tl].
      - split; [lia|]. split; auto. intros ? [].
      - split; [lia|]. split.
        + intros x Hx. specialize (R1b x Hx). lia.
        + intros x Hx. pose proof (Sorted_head_min e_right e tl Sro x Hx). lia. }
    destruct R2 as (Rr & Rli & Rro).
    (* membership of every edge relative to [left] and [right] *)
    assert (Kl : forall e, In e edges -> e_left e < right -> e_left e <= left).
    { intros e Ie Hl. destruct (Z_le_gt_dec (e_left e) left); auto. exfalso.
      assert (In e (run_i ++ rest_i)) by (apply Ai; auto; lia).
      apply in_app_or in H as [H|H]; [specialize (Ri1 e H); lia | specialize (Rli e H); lia]. }
    assert (Kr : forall e, In e edges -> left < e_right e -> right <= e_right e).
    { intros e Ie Hr. assert (In e (run_o ++ rest_o)) by (apply Ao; auto; lia).
      apply in_app_or in H as [H|H]; [specialize (Ro1 e H); lia | auto]. }
    exists ix2, ox2, rest_i, rest_o, p1, p2, right.
    split; auto. split; auto. split; auto. split; auto. split; auto. split.
    - intros x c Hx. unfold parent_at. apply pfun_ext. intros e Ie _. unfold covers.
      destruct (e_left e <=? x) eqn:C1, (x <? e_right e) eqn:C2, (e_left e <=? left) eqn:C3, (left <? e_right e) eqn:C4;
        simpl; auto; exfalso;
        try apply Z.leb_le in C1; try apply Z.leb_gt in C1; try apply Z.ltb_lt in C2; try apply Z.ltb_ge in C2;
        try apply Z.leb_le in C3; try apply Z.leb_gt in C3; try apply Z.ltb_lt in C4; try apply Z.ltb_ge in C4.
      all: try (pose proof (Kl e Ie ltac:(lia)); lia).
      all: try (pose proof (Kr e Ie ltac:(lia)); lia).
      all: try lia.
    - constructor; auto.
      + intros e Ie Hl. assert (In e (run_i ++ rest_i)) by (apply Ai; auto; lia).
        apply in_app_or in H as [H|H]; auto. specialize (Ri1 e H). lia.
      + intros e Ie Hr. assert (In e (run_o ++ rest_o)) by (apply Ao; auto; lia).
        apply in_app_or in H as [H|H]; auto. specialize (Ro1 e H). lia.
      + intros e He. split; [apply Ii; apply in_or_app; now right | auto].
      + intros e He. split; [apply Io; apply in_or_app; now right | auto].
      + eapply arr_is_ext; [exact A2'|]. intros c Hc. unfold parent_at. apply pfun_ext.
        intros e Ie _. unfold covers, P_head.
        destruct (e_left e <=? left) eqn:C3, (left <? e_right e) eqn:C4, (e_left e <? right) eqn:C1, (right <=? e_right e) eqn:C2;
          simpl; auto; exfalso;
          try apply Z.ltb_lt in C1; try apply Z.ltb_ge in C1; try apply Z.leb_le in C2; try apply Z.leb_gt in C2;
          try apply Z.leb_le in C3; try apply Z.leb_gt in C3; try apply Z.ltb_lt in C4; try apply Z.ltb_ge in C4.
        all: try (pose proof (Kl e Ie ltac:(lia)); lia).
        all: try (pose proof (Kr e Ie ltac:(lia)); lia).
        all: try lia.
      + congruence.
  Qed.

  (* ------------------------------------------------------------------ *)
  (* counting rows of a site-sorted mutation list                         *)
  (* ------------------------------------------------------------------ *)
  Lemma block_below muts a b : a < b ->
    zlen (filter (fun m => m_site m <? a) muts) + zlen (filter (fun m => m_site m =? a) muts)
    <= zlen (filter (fun m => m_site m <? b) muts).
  Proof.
    intro H. induction muts as [|m tl IH]; simpl; [lia|].
    destruct (m_site m <? a) eqn:C1, (m_site m =? a) eqn:C2, (m_site m <? b) eqn:C3;
      rewrite ?zlen_cons; try lia;
      try apply Z.ltb_lt in C1; try apply Z.ltb_ge in C1; try apply Z.eqb_eq in C2; try apply Z.eqb_neq in C2;
      try apply Z.ltb_lt in C3; try apply Z.ltb_ge in C3; lia.
  Qed.

  (* the part of the state that concerns sites and mutations *)
  Record minv (left : Z) (sites : list site) (sid : Z) (muts : list mutation) (mid : Z)
              (bottom mparent : list Z) (fm : Z -> Z) : Prop := {
    i_sites_sorted : Sorted (fun a b => s_pos a <= s_pos b) sites;
    i_sites_lo : forall s, In s sites -> left <= s_pos s /\ s_pos s < L;
    i_muts : exists done, allmuts = done ++ muts /\ mid = zlen done /\
                          (forall m, In m done -> m_site m < sid) /\ (forall m, In m muts -> sid <= m_site m);
    i_muts_sorted : Sorted (fun a b => m_site a <= m_site b) muts;
    i_bottom : arr_is bottom (fun _ => NULL);
    i_bottom_len : zlen bottom = n;
    i_mparent : arr_is mparent fm;
    i_mparent_len : zlen mparent = zlen allmuts;
    i_mparent_null : forall i, mid <= i -> fm i = NULL
  }.

  Lemma site_block_suffix done muts sid s :
    allmuts = done ++ muts -> (forall m, In m done -> m_site m < sid) -> sid <= s ->
    site_block allmuts s = site_block muts s /\ site_first allmuts s = zlen done + site_first muts s.
  Proof.
    intros E Hd Hs. unfold site_block, site_first. rewrite E, !filter_app.
    rewrite (filter_none (fun m => m_site m =? s) done) by (intros x Hx; apply Z.eqb_neq; specialize (Hd x Hx); lia).
    rewrite (filter_all (fun m => m_site m <? s) done) by (intros x Hx; apply Z.ltb_lt; specialize (Hd x Hx); lia).
    rewrite zlen_app. auto.
  Qed.

  (* the specification of the finished column for the sites from [sid] on *)
  Definition sites_done (sites : list site) (sid : Z) (fmF : Z -> Z) : Prop :=
    forall j s, nth_error sites j = Some s ->
      let sx := sid + Z.of_nat j in
      let first := site_first allmuts sx in
      forall k, (k < length (site_block allmuts sx))%nat ->
        nearest_above (parent_at edges (s_pos s)) (map m_node (site_block allmuts sx)) first k
                      (fmF (first + Z.of_nat k)) /\
        fmF (first + Z.of_nat k) <= first + Z.of_nat k.

  Theorem parents_loop_correct wfuel : forall fuel left ins outs insE outsE parent sites sid muts mid bottom mparent fm mpF,
    einv left ins outs insE outsE parent -> 0 <= left ->
    minv left sites sid muts mid bottom mparent fm ->
    parents_loop fuel wfuel L edges ins outs left parent sites sid muts mid bottom mparent = Ok mpF ->
    zlen mpF = zlen mparent /\
    exists fmF, arr_is mpF fmF /\ (forall i, i < mid -> fmF i = fm i) /\ sites_done sites sid fmF.
  Proof.
    induction fuel as [|fuel IH];
      intros left ins outs insE outsE parent sites sid muts mid bottom mparent fm mpF EI L0 MI PL;
      simpl in PL; [discriminate|].
    destruct (negb (match ins with [] => false | _ :: _ => true end) && negb (left <? L)) eqn:Exit.
    - (* loop exit: no edge left to insert and left >= L; no site can remain *)
      inversion PL; subst mpF. split; auto. exists fm. split; [apply MI|]. split; auto.
      apply andb_true_iff in Exit as [_ E2]. apply negb_true_iff, Z.ltb_ge in E2.
      intros j s Hj. exfalso. destruct (i_sites_lo _ _ _ _ _ _ _ _ MI s (nth_error_In _ _ Hj)). lia.
    - (* loop body *)
      assert (LL : left < L).
      { apply andb_false_iff in Exit as [E|E].
        - apply negb_false_iff in E. destruct ins as [|k ins']; [discriminate|].
          pose proof (i_ins _ _ _ _ _ _ EI) as Ri. inversion Ri as [|? e ? ? G R']; subst.
          destruct (i_ins_in _ _ _ _ _ _ EI e (or_introl eq_refl)) as [Ie Hl].
          destruct (Hedges e Ie) as (H1 & H2 & _). lia.
        - apply negb_false_iff, Z.ltb_lt in E. exact E. }
      destruct (sweep_step_correct left ins outs insE outsE parent EI (conj L0 LL))
        as (ins' & outs' & insE' & outsE' & p1 & p2 & right & Eo & Ei & En & Rr & A2 & Same & EI').
      rewrite Eo in PL. simpl in PL. rewrite Ei in PL. simpl in PL.
      unfold next_right in En.
      destruct (match ins' with [] => Ok L | k :: _ => do e <- get edges k; Ok (Z.min L (e_left e)) end)
        as [r1| | |] eqn:E1; simpl in En; try discriminate.
      simpl in PL. rewrite En in PL. simpl in PL.
      destruct MI as [Ss Slo (done & Ed & Emid & Hd & Hm) Sm Ab Lb Am Lm Nl].
      assert (Zp2 : zlen p2 = n) by (apply (i_parent_len _ _ _ _ _ _ EI')).
      destruct (sites_loop wfuel p2 right sites sid muts mid bottom mparent) as [r| | |] eqn:SL;
        simpl in PL; try discriminate.
      destruct r as [[[sites' sid'] [muts' mid']] [bottom' mparent']].
      (* the site loop under the tree at [left] *)
      destruct (sites_loop_correct wfuel p2 (parent_at edges left) rank M right A2) with
          (sites := sites) (sid := sid) (muts := muts) (mid := mid) (bottom := bottom) (mparent := mparent)
          (fm := fm) (sites' := sites') (sid' := sid') (muts' := muts') (mid' := mid')
          (bottom' := bottom') (mparent' := mparent')
        as (n0 & S1 & S2 & S3 & S4 & S5 & S6 & S7 & S8 & S9 & S10 & fm1 & Am1 & O1 & N1 & F1); auto.
      { intros v Hv. rewrite Zp2 in *. apply parent_at_forest. }
      { intros v Hv. rewrite Zp2 in Hv. auto. }
      { congruence. }
      { intros m Hm'. rewrite Zp2. apply Hmuts_range. rewrite Ed. apply in_or_app. now right. }
      { rewrite Emid. apply zlen_nonneg. }
      { rewrite Lm, Emid. rewrite Ed at 1. rewrite zlen_app. lia. }
      destruct (sites_loop_state wfuel p2 right sites sid muts mid bottom mparent _ Sm Hm SL)
        as (taken & T1 & T2 & T3 & T4 & T5). simpl in T1, T2, T3, T4, T5.
      (* next iteration *)
      destruct (IH right ins' outs' insE' outsE' p2 sites' sid' muts' mid' bottom' mparent' fm1 mpF EI'
                  ltac:(lia)) as (ZF & fmF & AF & OF & DF); auto.
      { constructor; auto.
        - rewrite S1 in Ss. eapply Sorted_app_r; eauto.
        - intros s Hs. split; [|apply Slo; rewrite S1; apply in_or_app; now right].
          destruct sites' as [|s0 tl]; [inversion Hs|].
          assert (Ssub : Sorted (fun a b => s_pos a <= s_pos b) (s0 :: tl)) by (rewrite S1 in Ss; eapply Sorted_app_r; eauto).
          apply Sorted_StronglySorted in Ssub; [|intros a b c; lia].
          inversion Ssub; subst. destruct Hs as [<-|Hs]; [lia|]. rewrite Forall_forall in H2.
          specialize (H2 s Hs). lia.
        - exists (done ++ taken). rewrite <- app_assoc, <- T1. split; auto.
          split; [rewrite zlen_app; lia|]. split; auto.
          intros m Hm'. apply in_app_or in Hm' as [Hm'|Hm']; auto.
          specialize (Hd m Hm'). lia.
        - congruence.
        - congruence. }
      split; [congruence|]. exists fmF. split; auto. split.
      + intros i Hi. rewrite OF by lia. apply O1; auto.
      + (* sites of this tree, then the later ones *)
        intros j s Hj sx first k Hk.
        destruct (Nat.lt_ge_cases j n0) as [Jl|Jg].
        * (* processed under the tree at [left] *)
          assert (Hs_in : In s (firstn n0 sites)).
          { rewrite S1 in Hj. rewrite nth_error_app1 in Hj by lia. eapply nth_error_In; eauto. }
          rewrite Forall_forall in S4. pose proof (S4 s Hs_in) as Hpos.
          destruct (Slo s (nth_error_In _ _ Hj)) as [Hlo _].
          pose proof (blocks_nth n0 sid muts mid j Sm Hm Jl) as B.
          rewrite Forall_forall in F1. specialize (F1 _ (nth_error_In _ _ B)). simpl in F1.
          destruct (site_block_suffix done muts sid sx Ed Hd ltac:(unfold sx; lia)) as [Eb Ef].
          unfold first. fold sx in B, F1. rewrite Eb, Ef, <- Emid.
          rewrite Eb in Hk. specialize (F1 k ltac:(now rewrite map_length)).
          destruct F1 as [F1a F1b].
          assert (Below : mid + site_first muts sx + Z.of_nat k < mid').
          { assert (Hsx : sx < sid') by (unfold sx; lia).
            pose proof (block_below allmuts sx sid' Hsx) as BB.
            assert (Emid' : zlen (filter (fun m => m_site m <? sid') allmuts) = mid').
            { rewrite Ed, T1, app_assoc, filter_app.
              rewrite (filter_all _ (done ++ taken)), (filter_none _ muts').
              - rewrite app_nil_r, zlen_app. lia.
              - intros x Hx. apply Z.ltb_ge. auto.
              - intros x Hx. apply Z.ltb_lt. apply in_app_or in Hx as [Hx|Hx]; auto.
                specialize (Hd x Hx). lia. }
            change (zlen (filter (fun m => m_site m <? sx) allmuts)) with (site_first allmuts sx) in BB.
            change (filter (fun m => m_site m =? sx) allmuts) with (site_block allmuts sx) in BB.
            rewrite Ef, Eb, Emid' in BB.
            assert (Z.of_nat k < zlen (site_block muts sx)) by (unfold zlen; lia). lia. }
          rewrite OF by exact Below. split; auto.
          destruct F1a as (u & Nu & Fa). exists u. split; auto. simpl in *.
          destruct (last_on (firstn k (map m_node (site_block muts sx))) (mid + site_first muts sx) u NULL =? NULL); auto.
          rewrite (Same (s_pos s) u ltac:(lia)).
          eapply nearest_anc_ext_par; [|exact Fa]. intros c. symmetry. apply Same. lia.
        * (* a later tree *)
          assert (Hj' : nth_error sites' (j - n0) = Some s).
          { rewrite S1 in Hj. rewrite nth_error_app2 in Hj by lia. now rewrite S2 in Hj. }
          specialize (DF (j - n0)%nat s Hj'). simpl in DF.
          replace (sid' + Z.of_nat (j - n0)) with sx in DF by (unfold sx; lia).
          apply DF. exact Hk.
  Qed.
End Sweep.

(* ---------------------------------------------------------------------- *)
(* compute_mutation_parents on a valid, sorted, indexed table               *)
(* ---------------------------------------------------------------------- *)
Fixpoint zmax (l : list Z) : Z := match l with [] => 0 | x :: t => Z.max x (zmax t) end.
Lemma zmax_ge l x : In x l -> x <= zmax l.
Proof. induction l; simpl; intros []; subst; try lia. specialize (IHl H). lia. Qed.

Definition node_rank (t : tables) (v : Z) : Z := val 0 (get (map n_time (t_nodes t)) v).

(* what TSK_CHECK_TREES (C02's subject) establishes, as far as this function needs it *)
Record valid_for_parents (t : tables) (insE outsE : list erow) : Prop := {
  v_edges : forall e, In e (t_edges t) ->
      0 <= e_left e < e_right e /\ e_right e <= t_L t /\ 0 <= e_child e < zlen (t_nodes t) /\
      0 <= e_parent e < zlen (t_nodes t) /\ node_rank t (e_child e) < node_rank t (e_parent e);
  v_consistent : consistent (t_edges t);
  v_index : exists ins outs, t_index t = Some (ins, outs) /\
      rows_of (t_edges t) ins insE /\ rows_of (t_edges t) outs outsE;
  v_ins_sorted : Sorted (fun a b => e_left a <= e_left b) insE;
  v_outs_sorted : Sorted (fun a b => e_right a <= e_right b) outsE;
  v_ins_all : forall e, In e (t_edges t) <-> In e insE;
  v_outs_all : forall e, In e (t_edges t) <-> In e outsE;
  v_sites_sorted : Sorted (fun a b => s_pos a <= s_pos b) (t_sites t);
  v_sites_range : forall s, In s (t_sites t) -> 0 <= s_pos s < t_L t;
  v_muts_sorted : Sorted (fun a b => m_site a <= m_site b) (t_muts t);
  v_muts_range : forall m, In m (t_muts t) -> 0 <= m_node m < zlen (t_nodes t) /\ 0 <= m_site m
}.

Lemma block_within muts a :
  zlen (filter (fun m => m_site m <? a) muts) + zlen (filter (fun m => m_site m =? a) muts) <= zlen muts.
Proof.
  induction muts as [|m tl IH]; simpl; [lia|].
  destruct (m_site m <? a) eqn:C1, (m_site m =? a) eqn:C2; rewrite ?zlen_cons; try lia.
Qed.

Lemma arr_is_repeat x k : arr_is (repeat x k) (fun _ => x).
Proof.
  intros v Hv. rewrite zlen_repeat in Hv. apply get_nth_error. split; [lia|].
  rewrite nth_error_repeat; auto. lia.
Qed.

Theorem mutation_parents_nearest_proof' t t' insE outsE :
  valid_for_parents t insE outsE ->
  compute_mutation_parents t = Ok t' ->
  length (t_muts t') = length (t_muts t) /\
  (forall j m', nth_error (t_muts t') j = Some m' ->
     exists m, nth_error (t_muts t) j = Some m /\ m' = mut_set_parent m (m_parent m')) /\
  forall s site k, nth_error (t_sites t) s = Some site ->
    (k < length (site_block (t_muts t) (Z.of_nat s)))%nat ->
    let first := site_first (t_muts t) (Z.of_nat s) in
    exists m', nth_error (t_muts t') (Z.to_nat first + k) = Some m' /\
      nearest_above (parent_at (t_edges t) (s_pos site))
                    (map m_node (site_block (t_muts t) (Z.of_nat s))) first k (m_parent m') /\
      m_parent m' <= first + Z.of_nat k.
Proof.
  intros V C. destruct V as [Ve Vc (ins & outs & Ix & Ri & Ro) Si So Ai Ao Ss Sr Ms Mr].
  unfold compute_mutation_parents in C. rewrite Ix in C.
  set (n := length (t_nodes t)) in *. set (nm := length (t_muts t)) in *.
  destruct (parents_loop (2 * length (t_edges t) + 2) (S n) (t_L t) (t_edges t) ins outs 0
              (repeat NULL n) (t_sites t) 0 (t_muts t) 0 (repeat NULL n) (repeat NULL nm)) as [mp| | |] eqn:PL;
    simpl in C; try discriminate.
  rewrite mapM_pure in C. simpl in C. inversion C; subst t'. clear C. simpl.
  destruct (parents_loop_correct (t_edges t) (t_L t) (zlen (t_nodes t)) (zmax (map n_time (t_nodes t)))
              (node_rank t) (t_muts t) Ve Vc) with
      (wfuel := S n) (fuel := (2 * length (t_edges t) + 2)%nat) (left := 0) (ins := ins) (outs := outs)
      (insE := insE) (outsE := outsE) (parent := repeat NULL n) (sites := t_sites t) (sid := 0)
      (muts := t_muts t) (mid := 0) (bottom := repeat NULL n) (mparent := repeat NULL nm)
      (fm := fun _ : Z => NULL) (mpF := mp)
    as (Zmp & fmF & AF & _ & DF); auto; try lia.
  - intros v Hv. unfold node_rank.
    destruct (get_ok_iff (map n_time (t_nodes t)) v) as [_ G].
    destruct G as [x G]; [unfold zlen in *; rewrite map_length; lia|]. rewrite G. simpl.
    apply zmax_ge. eapply get_in; eauto.
  - constructor; auto.
    + intros e Ie _. now apply Ai.
    + intros e Ie _. now apply Ao.
    + intros e Ie. apply Ai in Ie. split; auto. apply Ve in Ie. lia.
    + intros e Ie. apply Ao in Ie. split; auto. apply Ve in Ie. lia.
    + eapply arr_is_ext; [apply arr_is_repeat|]. intros c Hc. symmetry. apply pfun_none.
      intros e Ie _. unfold P_head. apply Ve in Ie. apply andb_false_iff. left. apply Z.ltb_ge. lia.
    + apply zlen_repeat.
  - constructor; auto; try apply arr_is_repeat; try apply zlen_repeat.
    exists []. simpl. change (zlen (@nil mutation)) with 0. repeat split; auto; try (intros ? []).
    intros m Hm. apply Mr in Hm. lia.
  - rewrite zlen_repeat in Zmp.
    assert (Lmp : length mp = nm) by (unfold zlen in Zmp; lia).
    split; [rewrite map_length, combine_length; lia|]. split.
    + intros j m' Hj. rewrite nth_error_map in Hj.
      destruct (nth_error (combine (t_muts t) mp) j) as [[m p]|] eqn:Nc; simpl in Hj; [|discriminate].
      inversion Hj; subst m'. exists m. simpl. split; [|reflexivity].
      clear - Nc. revert mp j Nc. induction (t_muts t) as [|x l IH]; intros [|y mp] [|j] Nc; simpl in *; try discriminate.
      * now inversion Nc.
      * eauto.
    + intros s site k Hs Hk. set (first := site_first (t_muts t) (Z.of_nat s)).
      specialize (DF s site Hs). simpl in DF. specialize (DF k Hk). fold first in DF.
      destruct DF as [D1 D2].
      pose proof (block_within (t_muts t) (Z.of_nat s)) as BW.
      change (zlen (filter (fun m => m_site m <? Z.of_nat s) (t_muts t))) with first in BW.
      change (filter (fun m => m_site m =? Z.of_nat s) (t_muts t)) with (site_block (t_muts t) (Z.of_nat s)) in BW.
      assert (F0 : 0 <= first) by (unfold first, site_first; apply zlen_nonneg).
      assert (Rg : 0 <= first + Z.of_nat k < zlen mp).
      { unfold zlen in *. lia. }
      pose proof (AF _ Rg) as G. apply get_nth_error in G as [_ G].
      replace (Z.to_nat (first + Z.of_nat k)) with (Z.to_nat first + k)%nat in G by lia.
      assert (exists m, nth_error (t_muts t) (Z.to_nat first + k) = Some m) as [m Nm].
      { destruct (nth_error (t_muts t) (Z.to_nat first + k)) eqn:E; eauto.
        apply nth_error_None in E. unfold zlen in *. lia. }
      exists (mut_set_parent m (fmF (first + Z.of_nat k))).
      split; [|simpl; auto].
      rewrite nth_error_map.
      assert (nth_error (combine (t_muts t) mp) (Z.to_nat first + k) = Some (m, fmF (first + Z.of_nat k))).
      { clear - Nm G. revert Nm G. generalize (Z.to_nat first + k)%nat as j. generalize (fmF (first + Z.of_nat k)) as p.
        intros p j. revert mp j. induction (t_muts t) as [|x l IH]; intros [|y mp] [|j] Nm G; simpl in *; try discriminate.
        - inversion Nm; inversion G; subst; auto.
        - eauto. }
      rewrite H. reflexivity.
Qed.
