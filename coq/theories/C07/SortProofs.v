(* C07 — what tsk_table_sorter_sort_sites / _sort_mutations do, for every qsort that
   returns a sorted permutation. *)
From Coq Require Import List ZArith Bool Lia Permutation Sorted.
From TskVerif Require Import Base.Common C07.Model C07.ListLemmas C07.CmpLemmas.
Import ListNotations.
Open Scope Z_scope.

Definition val {A} (d : A) (r : res A) : A := match r with Ok a => a | _ => d end.

Lemma mapM_eq_map {A B} (f : A -> res B) (g : A -> B) l :
  (forall x, In x l -> f x = Ok (g x)) -> mapM f l = Ok (map g l).
Proof.
  induction l as [|x t IH]; intro H; simpl; auto.
  rewrite (H x) by now left. simpl. rewrite IH by (intros; apply H; now right). reflexivity.
Qed.

Lemma combine_fst_snd {A B} (l : list (A * B)) : combine (map fst l) (map snd l) = l.
Proof. induction l as [|[a b] t IH]; simpl; congruence. Qed.

Lemma combine_map_l {A B C} (f : A -> B) (g : A -> C) l :
  combine (map f l) (map g l) = map (fun x => (f x, g x)) l.
Proof. induction l; simpl; congruence. Qed.

Lemma Forall2_map_same {A B C} (R : B -> C -> Prop) (f : A -> B) (g : A -> C) l :
  Forall (fun x => R (f x) (g x)) l -> Forall2 R (map f l) (map g l).
Proof. induction 1; simpl; constructor; auto. Qed.

Lemma perm_zseq_nth n sp i :
  Permutation (zseq 0 n) sp -> 0 <= i < Z.of_nat n -> exists p, nth_error sp p = Some i.
Proof.
  intros P R. apply In_nth_error. eapply Permutation_in; eauto. apply zseq_in. lia.
Qed.

Lemma nth_error_get {A} (l : list A) p a : nth_error l p = Some a -> get l (Z.of_nat p) = Ok a.
Proof. apply get_of_nat. Qed.

Lemma zlen_repeat {A} (x : A) n : zlen (repeat x n) = Z.of_nat n.
Proof. unfold zlen. now rewrite repeat_length. Qed.

(* ---------------------------------------------------------------------- *)
(* the image of a row under the two id maps                                *)
(* ---------------------------------------------------------------------- *)
(* sp / mp list, in output order, the ORIGINAL row id of every output site / mutation *)
Definition mut_image (sp mp : list Z) (m m' : mutation) : Prop :=
  m_node m' = m_node m /\ m_time m' = m_time m /\ m_der m' = m_der m /\ m_md m' = m_md m /\
  get sp (m_site m') = Ok (m_site m) /\
  (m_parent m = NULL -> m_parent m' = NULL) /\
  (m_parent m <> NULL -> get mp (m_parent m') = Ok (m_parent m)).

Definition sites_witness (sites sites' : list site) (sp : list Z) : Prop :=
  Permutation (zseq 0 (length sites)) sp /\
  Forall2 (fun i s' => get sites i = Ok s') sp sites' /\
  Sorted site_le (combine sp sites').

Definition muts_witness (muts muts' : list mutation) (sp mp : list Z) : Prop :=
  Permutation (zseq 0 (length muts)) mp /\
  Forall2 (fun j m' => exists m, get muts j = Ok m /\ mut_image sp mp m m') mp muts' /\
  Sorted mut_le (combine mp muts').

Definition inverse_of (sp idmap : list Z) : Prop :=
  forall p i, nth_error sp p = Some i -> get idmap i = Ok (Z.of_nat p).

Section WithQ.
  Variable Q : qsorts.
  Hypothesis HQ : qsorts_ok Q.

  Lemma HQ_site : sorts_by cmp_site (qs_site Q). Proof. apply HQ. Qed.
  Lemma HQ_mut : sorts_by cmp_mutation (qs_mut Q). Proof. apply HQ. Qed.
  Lemma HQ_mutc : sorts_by cmp_mutation_canonical (qs_mutc Q). Proof. apply HQ. Qed.

  (* 7011 *)
  Lemma sort_sites_spec sites :
    exists sites' idmap sp,
      sort_sites Q sites = Ok (sites', idmap) /\ sites_witness sites sites' sp /\
      length idmap = length sites /\ inverse_of sp idmap.
  Proof.
    unfold sort_sites. set (srt := qs_site Q (indexed 0 sites)).
    destruct (HQ_site (indexed 0 sites)) as [P S]. fold srt in P, S.
    assert (Psp : Permutation (zseq 0 (length sites)) (map fst srt)).
    { rewrite <- (indexed_fst 0 sites). now apply Permutation_map. }
    destruct (Permutation_zseq_range _ _ Psp) as (ND & RG & LN).
    destruct (fill_id_map_spec (map fst srt) 0 (repeat NULL (length sites)) ND) as (idmap & E & L & Inv & _).
    { intros id Hid. rewrite zlen_repeat. now apply RG. }
    rewrite E. simpl. exists (map snd srt), idmap, (map fst srt).
    split; [reflexivity|]. split; [|split].
    - split; [exact Psp|]. split.
      + apply Forall2_map_same. apply Forall_forall. intros [i s] Hin. simpl.
        apply indexed_get. eapply Permutation_in; [symmetry; eauto | auto].
      + rewrite combine_fst_snd. eapply Sorted_impl; [|exact S]. intros a b. apply cmp_site_le.
    - rewrite L. apply repeat_length.
    - intros p i Hp. rewrite (Inv p i Hp). f_equal.
  Qed.

  (* remap of one row, as a total function (used once the reads are known to succeed) *)
  Definition new_parent (idmap : list Z) (m : mutation) : Z :=
    if m_parent m =? NULL then NULL else val NULL (get idmap (m_parent m)).

  Lemma remap_parent_eq idmap m :
    (m_parent m <> NULL -> exists p, get idmap (m_parent m) = Ok p) ->
    remap_parent idmap m = Ok (mut_set_parent m (new_parent idmap m)).
  Proof.
    intro H. unfold remap_parent, new_parent. destruct (m_parent m =? NULL) eqn:E; auto.
    apply Z.eqb_neq in E. destruct (H E) as [p Hp]. rewrite Hp. reflexivity.
  Qed.

  (* 7058 *)
  Lemma sort_mutations_spec sp idmap muts ns :
    Permutation (zseq 0 ns) sp -> inverse_of sp idmap ->
    (forall m, In m muts -> 0 <= m_site m < Z.of_nat ns /\ NULL <= m_parent m < zlen muts) ->
    exists muts' mp, sort_mutations Q idmap muts = Ok muts' /\ muts_witness muts muts' sp mp.
  Proof.
    intros Psp Inv RG. unfold sort_mutations.
    set (h := fun jm : Z * mutation =>
                (fst jm, mut_set_site (snd jm) (val NULL (get idmap (m_site (snd jm)))))).
    assert (SiteOk : forall m, In m muts -> exists p, nth_error sp p = Some (m_site m) /\
                                 get idmap (m_site m) = Ok (Z.of_nat p)).
    { intros m Hm. destruct (perm_zseq_nth ns sp (m_site m) Psp) as [p Hp]; [apply RG, Hm|].
      exists p. split; auto. }
    rewrite (mapM_eq_map _ h).
    2:{ intros [j m] Hin. simpl. apply indexed_get in Hin. apply get_in in Hin.
        destruct (SiteOk m Hin) as (p & _ & E). unfold h. simpl. rewrite E. reflexivity. }
    simpl. set (recs := map h (indexed 0 muts)). set (srt := qs_mut Q recs).
    destruct (HQ_mut recs) as [P S]. fold srt in P, S.
    assert (Pmp : Permutation (zseq 0 (length muts)) (map fst srt)).
    { rewrite <- (indexed_fst 0 muts).
      replace (map fst (indexed 0 muts)) with (map fst recs)
        by (unfold recs; rewrite map_map; reflexivity).
      now apply Permutation_map. }
    destruct (Permutation_zseq_range _ _ Pmp) as (ND & RGm & LN).
    destruct (fill_id_map_spec (map fst srt) 0 (repeat NULL (length muts)) ND) as (idmap2 & E & L & Inv2 & _).
    { intros id Hid. rewrite zlen_repeat. now apply RGm. }
    rewrite E. simpl.
    (* every sorted record comes from an input row *)
    assert (Orig : forall r, In r srt -> exists m, get muts (fst r) = Ok m /\ r = h (fst r, m)).
    { intros r Hr. assert (Hin : In r recs) by (eapply Permutation_in; [symmetry; eauto | auto]).
      unfold recs in Hin. apply in_map_iff in Hin as ([j m] & Hh & Hin). apply indexed_get in Hin.
      exists m. subst r. simpl. auto. }
    assert (ParOk : forall r, In r srt -> m_parent (snd r) <> NULL ->
                      exists p, nth_error (map fst srt) p = Some (m_parent (snd r)) /\
                                get idmap2 (m_parent (snd r)) = Ok (Z.of_nat p)).
    { intros r Hr Hn. destruct (Orig r Hr) as (m & G & Er). rewrite Er in Hn |- *.
      unfold h in Hn |- *. simpl in Hn |- *.
      destruct (RG m (get_in _ _ _ G)) as [_ Rp]. unfold NULL in *.
      destruct (perm_zseq_nth (length muts) (map fst srt) (m_parent m) Pmp) as [p Hp];
        [unfold zlen in Rp; lia|].
      exists p. split; auto. rewrite (Inv2 p _ Hp). f_equal. }
    rewrite (mapM_eq_map _ (fun r => mut_set_parent (snd r) (new_parent idmap2 (snd r)))).
    2:{ intros r Hr. apply remap_parent_eq. intro Hn. destruct (ParOk r Hr Hn) as (p & _ & G). eauto. }
    eexists. exists (map fst srt). split; [reflexivity|]. split; [exact Pmp|]. split.
    - apply Forall2_map_same. apply Forall_forall. intros r Hr.
      destruct (Orig r Hr) as (m & G & Er). exists m. split; auto.
      destruct (SiteOk m (get_in _ _ _ G)) as (p & Hp & Gp).
      assert (Sr : snd r = mut_set_site m (Z.of_nat p)).
      { rewrite Er. unfold h. simpl. rewrite Gp. reflexivity. }
      unfold mut_image. rewrite Sr. simpl. repeat split; auto.
      + now apply nth_error_get.
      + intro Hn. unfold new_parent. simpl. rewrite Hn. reflexivity.
      + intro Hn. unfold new_parent. simpl.
        destruct (m_parent m =? NULL) eqn:En; [apply Z.eqb_eq in En; contradiction|].
        destruct (ParOk r Hr) as (q & Hq & Gq); [rewrite Sr; exact Hn|].
        rewrite Sr in Gq, Hq. simpl in Gq, Hq. rewrite Gq. simpl. now apply nth_error_get.
    - rewrite combine_map_l. apply Sorted_map_iff.
      eapply Sorted_impl; [|exact S]. intros a b Hab. apply cmp_mutation_le in Hab.
      unfold mut_le in *. simpl. exact Hab.
  Qed.
End WithQ.
