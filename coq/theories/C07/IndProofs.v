(* C07 — tsk_table_collection_individual_topological_sort (TableCollection.sort_individuals,
   tables.c 7201 / 7279): whenever it returns Ok the individual rows are permuted (parents
   renamed), every parent precedes its children, and nodes.individual of EVERY node is the new
   id of its old individual.  The proof is the invariant of Kahn's algorithm as coded:
   incoming_edge_count[p] = number of parent slots naming p among the unprocessed individuals. *)
From Coq Require Import List ZArith Bool Lia Permutation Sorted.
From TskVerif Require Import Base.Common C07.Model C07.ListLemmas C07.SortProofs C07.RaggedProofs
     C07.MutParentsProofs C07.TopProofs C07.SweepProofs.
Import ListNotations.
Open Scope Z_scope.

(* ---------------------------------------------------------------------- *)
(* counting occurrences                                                    *)
(* ---------------------------------------------------------------------- *)
Fixpoint occ (p : Z) (l : list Z) : Z :=
  match l with [] => 0 | x :: t => (if x =? p then 1 else 0) + occ p t end.

Lemma occ_nonneg p l : 0 <= occ p l.
Proof. induction l as [|x t IH]; simpl; [lia|]. destruct (x =? p); lia. Qed.
Lemma occ_app p a b : occ p (a ++ b) = occ p a + occ p b.
Proof. induction a as [|x t IH]; simpl; [lia|]. rewrite IH. lia. Qed.
Lemma occ_pos_in p l : 0 < occ p l <-> In p l.
Proof.
  induction l as [|x t IH]; simpl; [split; [lia | tauto]|].
  pose proof (occ_nonneg p t). destruct (x =? p) eqn:E.
  - apply Z.eqb_eq in E. split; [auto | lia].
  - apply Z.eqb_neq in E. rewrite <- IH. split; [intro; right; lia | intros [?|?]; [contradiction | lia]].
Qed.
Lemma occ_zero_not_in p l : occ p l = 0 <-> ~ In p l.
Proof. rewrite <- occ_pos_in. pose proof (occ_nonneg p l). lia. Qed.

(* ---------------------------------------------------------------------- *)
(* the three counting loops                                                *)
(* ---------------------------------------------------------------------- *)
Definition ps_ok (n : Z) (ps : list Z) : Prop := forall p, In p ps -> p = NULL \/ 0 <= p < n.

Lemma count_parents_spec ps : forall c f,
  arr_is c f -> ps_ok (zlen c) ps ->
  exists c', count_parents ps c = Ok c' /\ zlen c' = zlen c /\ arr_is c' (fun p => f p + occ p ps).
Proof.
  induction ps as [|p tl IH]; intros c f A R; simpl.
  - exists c. repeat split; auto. eapply arr_is_ext; eauto. intros; lia.
  - assert (Rt : ps_ok (zlen c) tl) by (intros x Hx; apply R; now right).
    destruct (p =? NULL) eqn:E.
    + apply Z.eqb_eq in E. destruct (IH c f A Rt) as (c' & E' & Z' & A'). exists c'. repeat split; auto.
      eapply arr_is_ext; [exact A'|]. intros v Hv. simpl.
      replace (p =? v) with false; [lia|]. symmetry. apply Z.eqb_neq. unfold NULL in E. rewrite Z' in Hv. lia.
    + apply Z.eqb_neq in E. destruct (R p (or_introl eq_refl)) as [?|Rp]; [contradiction|].
      rewrite (A p Rp). simpl. destruct (set_spec c p (f p + 1) Rp) as (c1 & Es & _). rewrite Es. simpl.
      destruct (arr_is_set _ _ _ _ _ A Es) as [A1 Z1].
      destruct (IH c1 _ A1) as (c' & E' & Z' & A'); [now rewrite Z1|].
      exists c'. split; auto. split; [congruence|].
      eapply arr_is_ext; [exact A'|]. intros v Hv. simpl. unfold upd.
      rewrite (Z.eqb_sym p v). destruct (v =? p) eqn:Ev; [apply Z.eqb_eq in Ev; subst|]; lia.
Qed.

(* relax: counts go down by the number of slots; exactly the parents whose count reaches 0 are
   appended, once each *)
Lemma relax_spec ps : forall c f q,
  arr_is c f -> ps_ok (zlen c) ps -> (forall p, 0 <= p < zlen c -> occ p ps <= f p) ->
  exists c' nw, relax ps c q = Ok (c', q ++ nw) /\ zlen c' = zlen c /\
    arr_is c' (fun p => f p - occ p ps) /\ NoDup nw /\
    (forall p, In p nw <-> 0 <= p < zlen c /\ 0 < occ p ps /\ f p - occ p ps = 0).
Proof.
  induction ps as [|p tl IH]; intros c f q A R Le; simpl.
  - exists c, []. rewrite app_nil_r. split; auto. split; auto. split.
    { eapply arr_is_ext; eauto. intros; lia. }
    split; [constructor|]. intro p. simpl. split; [intros [] | lia].
  - assert (Rt : ps_ok (zlen c) tl) by (intros x Hx; apply R; now right).
    destruct (p =? NULL) eqn:E.
    + apply Z.eqb_eq in E.
      destruct (IH c f q A Rt) as (c' & nw & E' & Z' & A' & ND & In_).
      { intros v Hv. specialize (Le v Hv). simpl in Le.
        replace (p =? v) with false in Le; [lia|]. symmetry. apply Z.eqb_neq. unfold NULL in E. lia. }
      exists c', nw. split; auto. split; auto. split.
      { eapply arr_is_ext; [exact A'|]. intros v Hv. simpl.
        replace (p =? v) with false; [lia|]. symmetry. apply Z.eqb_neq. unfold NULL in E. rewrite Z' in Hv. lia. }
      split; auto. intro v. rewrite In_. simpl.
      destruct (p =? v) eqn:Ev.
      * apply Z.eqb_eq in Ev. unfold NULL in E. split; intros (H1 & H2 & H3); exfalso; lia.
      * split; intros (H1 & H2 & H3); repeat split; auto; lia.
    + apply Z.eqb_neq in E. destruct (R p (or_introl eq_refl)) as [?|Rp]; [contradiction|].
      rewrite (A p Rp). simpl. destruct (set_spec c p (f p - 1) Rp) as (c1 & Es & _). rewrite Es. simpl.
      destruct (arr_is_set _ _ _ _ _ A Es) as [A1 Z1].
      pose proof (Le p Rp) as Lp. simpl in Lp. rewrite Z.eqb_refl in Lp.
      destruct (IH c1 (upd f p (f p - 1)) (if f p - 1 =? 0 then q ++ [p] else q) A1)
        as (c' & nw & E' & Z' & A' & ND & In_).
      { now rewrite Z1. }
      { intros v Hv. rewrite Z1 in Hv. specialize (Le v Hv). simpl in Le. unfold upd.
        destruct (v =? p) eqn:Ev.
        - apply Z.eqb_eq in Ev. subst v. rewrite Z.eqb_refl in Le. lia.
        - rewrite (Z.eqb_sym p v), Ev in Le. lia. }
      rewrite E'. rewrite Z1 in *.
      assert (Upd : forall v, upd f p (f p - 1) v - occ v tl = f v - ((if p =? v then 1 else 0) + occ v tl)).
      { intro v. unfold upd. rewrite (Z.eqb_sym p v). destruct (v =? p) eqn:Ev; [apply Z.eqb_eq in Ev; subst|]; lia. }
      destruct (f p - 1 =? 0) eqn:Z0.
      * apply Z.eqb_eq in Z0. pose proof (occ_nonneg p tl).
        assert (Op : occ p tl = 0) by lia.
        assert (Np : ~ In p nw).
        { intro H0. apply In_ in H0 as (_ & H0 & _). lia. }
        exists c', (p :: nw). rewrite <- app_assoc. simpl. split; auto. split; auto. split.
        { eapply arr_is_ext; [exact A'|]. intros v Hv. apply Upd. }
        split; [constructor; auto|].
        intro v. simpl. rewrite In_. rewrite Upd. unfold upd. split.
        -- intros [<-|(H1 & H2 & H3)].
           ++ rewrite Z.eqb_refl. repeat split; try lia.
           ++ repeat split; try lia; try exact H3; destruct (p =? v); cbv iota; lia.
        -- intros (H1 & H2 & H3). destruct (Z.eq_dec p v) as [->|N]; [now left|right].
           replace (p =? v) with false in *; [|symmetry; now apply Z.eqb_neq].
           repeat split; try lia.
      * apply Z.eqb_neq in Z0. exists c', nw. split; auto. split; auto. split.
        { eapply arr_is_ext; [exact A'|]. intros v Hv. apply Upd. }
        split; auto. intro v. rewrite In_, Upd. unfold upd. split.
        -- intros (H1 & H2 & H3). repeat split; try lia; try exact H3; destruct (p =? v); cbv iota; lia.
        -- intros (H1 & H2 & H3). destruct (Z.eq_dec p v) as [->|N].
           ++ rewrite Z.eqb_refl in *. pose proof (occ_nonneg v tl). repeat split; try lia.
           ++ replace (p =? v) with false in *; [|symmetry; now apply Z.eqb_neq]. repeat split; try lia.
Qed.

Lemma initial_todo_spec c f : arr_is c f -> forall k, Z.of_nat k <= zlen c ->
  exists l, initial_todo k c = Ok l /\ NoDup l /\
            (forall i, In i l <-> 0 <= i < Z.of_nat k /\ f i = 0).
Proof.
  intros A. induction k as [|k IH]; intro Hk; simpl.
  - exists []. split; auto. split; [constructor|]. intro i. simpl. split; [intros [] | lia].
  - rewrite (A (Z.of_nat k)) by lia. simpl. destruct IH as (l & E & ND & In_); [lia|]. rewrite E. simpl.
    destruct (f (Z.of_nat k) =? 0) eqn:Z0.
    + apply Z.eqb_eq in Z0. exists (Z.of_nat k :: l). split; auto. split.
      * constructor; auto. rewrite In_. lia.
      * intro i. simpl. rewrite In_. split; [intros [<-|?]; lia|].
        intros [H1 H2]. destruct (Z.eq_dec (Z.of_nat k) i); [now left | right; lia].
    + apply Z.eqb_neq in Z0. exists l. split; auto. split; auto.
      intro i. rewrite In_. split; [lia|]. intros [H1 H2].
      destruct (Z.eq_dec (Z.of_nat k) i); [subst; contradiction | lia].
Qed.

(* ---------------------------------------------------------------------- *)
(* Kahn's invariant                                                        *)
(* ---------------------------------------------------------------------- *)
Definition par (inds : list individual) (j : Z) : list Z :=
  match get inds j with Ok r => i_parents r | _ => [] end.
(* number of parent slots naming p among the individuals U *)
Definition cnt (inds : list individual) (U : list Z) (p : Z) : Z := occ p (flat_map (par inds) U).

Lemma cnt_ge inds U p j : In j U -> occ p (par inds j) <= cnt inds U p.
Proof.
  unfold cnt. induction U as [|x t IH]; simpl; [tauto|]. rewrite occ_app.
  pose proof (occ_nonneg p (par inds x)). pose proof (occ_nonneg p (flat_map (par inds) t)).
  intros [->|H1]; [lia|]. specialize (IH H1). lia.
Qed.

Lemma cnt_remove inds U p j : NoDup U -> In j U ->
  cnt inds U p = occ p (par inds j) + cnt inds (remove Z.eq_dec j U) p.
Proof.
  unfold cnt. induction U as [|x t IH]; intros ND Hin; simpl; [destruct Hin|].
  inversion ND; subst. rewrite occ_app. destruct (Z.eq_dec j x) as [->|N].
  - rewrite notin_remove by assumption. reflexivity.
  - destruct Hin as [->|Hin]; [contradiction|]. simpl. rewrite occ_app. rewrite (IH H2 Hin). lia.
Qed.

Lemma NoDup_remove' (l : list Z) j : NoDup l -> NoDup (remove Z.eq_dec j l).
Proof.
  induction 1 as [|x t Hn ND IH]; simpl; [constructor|]. destruct (Z.eq_dec j x); auto.
  constructor; auto. intro H. apply in_remove in H as [H _]. contradiction.
Qed.

Lemma NoDup_app_intro {A} (a b : list A) :
  NoDup a -> NoDup b -> (forall x, In x a -> ~ In x b) -> NoDup (a ++ b).
Proof.
  induction 1 as [|x t Hn ND IH]; intros Nb D; simpl; auto.
  constructor.
  - intro H. apply in_app_or in H as [H|H]; [contradiction | eapply D; eauto; now left].
  - apply IH; auto. intros y Hy. apply D. now right.
Qed.

Record kinv (inds : list individual) (n : Z) (c done pending U : list Z) : Prop := {
  k_c : arr_is c (cnt inds U);
  k_clen : zlen c = n;
  k_U : NoDup U;
  k_Uin : forall j, In j U <-> 0 <= j < n /\ ~ In j done;
  k_nd : NoDup (done ++ pending);
  k_rng : forall j, In j (done ++ pending) -> 0 <= j < n;
  k_q : forall p, 0 <= p < n -> (In p (done ++ pending) <-> cnt inds U p = 0);
  k_ord : forall k p j, nth_error done k = Some p -> 0 <= j < n -> In p (par inds j) ->
                        exists k', (k' < k)%nat /\ nth_error done k' = Some j
}.

Lemma topo_loop_spec inds n :
  n = zlen inds ->
  (forall j r, get inds j = Ok r -> ps_ok n (i_parents r)) ->
  forall fuel c done pending U done' c',
  kinv inds n c done pending U ->
  topo_loop fuel inds c done pending = Ok (done', c') ->
  exists U', kinv inds n c' done' [] U'.
Proof.
  intros Hn Hps. induction fuel as [|fuel IH]; intros c done pending U done' c' K T; simpl in T; [discriminate|].
  destruct pending as [|j rest].
  - inversion T; subst. eauto.
  - destruct K as [Kc Kl KU KUin Knd Krng Kq Kord].
    assert (Rj : 0 <= j < n) by (apply Krng; apply in_or_app; right; now left).
    destruct (get_ok_iff inds j) as [_ G]. destruct G as [r Gr]; [now rewrite <- Hn|].
    rewrite Gr in T. simpl in T.
    assert (Pj : par inds j = i_parents r) by (unfold par; now rewrite Gr).
    assert (Nj : ~ In j done).
    { intro H. apply NoDup_remove_2 in Knd. apply Knd. apply in_or_app. now left. }
    assert (Uj : In j U) by (apply KUin; auto).
    destruct (relax_spec (i_parents r) c (cnt inds U) rest Kc) as (c1 & nw & E1 & Z1 & A1 & NDw & Inw).
    { rewrite Kl. eapply Hps; eauto. }
    { intros p Hp. rewrite <- Pj. now apply cnt_ge. }
    rewrite E1 in T. simpl in T.
    apply (IH c1 (done ++ [j]) (rest ++ nw) (remove Z.eq_dec j U) done' c'); auto.
    rewrite Kl in *.
    assert (Cnt' : forall p, cnt inds (remove Z.eq_dec j U) p = cnt inds U p - occ p (i_parents r)).
    { intro p. rewrite (cnt_remove inds U p j KU Uj), Pj. lia. }
    assert (Xeq : (done ++ [j]) ++ rest ++ nw = (done ++ j :: rest) ++ nw).
    { rewrite <- !app_assoc. reflexivity. }
    constructor.
    + eapply arr_is_ext; [exact A1|]. intros p Hp. now rewrite Cnt'.
    + congruence.
    + now apply NoDup_remove'.
    + intro x. split.
      * intro H. apply in_remove in H as [H Nx]. apply KUin in H as [H1 H2]. split; auto.
        intro H3. apply in_app_or in H3 as [H3|[H3|[]]]; [contradiction | congruence].
      * intros [H1 H2]. apply in_in_remove.
        -- intro; subst. apply H2. apply in_or_app. right. now left.
        -- apply KUin. split; auto. intro; apply H2. apply in_or_app. now left.
    + rewrite Xeq. apply NoDup_app_intro; auto.
      intros x Hx Hw. apply Inw in Hw as (Hr & Ho & Hz).
      apply (Kq x Hr) in Hx. lia.
    + rewrite Xeq. intros x Hx. apply in_app_or in Hx as [Hx|Hx]; [now apply Krng|].
      apply Inw in Hx. tauto.
    + rewrite Xeq. intros p Hp. rewrite Cnt'. pose proof (occ_nonneg p (i_parents r)) as O0. split.
      * intro H. apply in_app_or in H as [H|H].
        -- apply (Kq p Hp) in H. pose proof (cnt_ge inds U p j Uj) as Ge. rewrite Pj in Ge. lia.
        -- apply Inw in H. tauto.
      * intro H. destruct (Z.eq_dec (occ p (i_parents r)) 0) as [E0|N0].
        -- apply in_or_app. left. apply (Kq p Hp). lia.
        -- apply in_or_app. right. apply Inw. repeat split; try lia.
    + intros k p i Hk Ri Hpi.
      destruct (Nat.lt_ge_cases k (length done)) as [Lk|Gk].
      * rewrite nth_error_app1 in Hk by auto.
        destruct (Kord k p i Hk Ri Hpi) as (k' & Lk' & Hk'). exists k'. split; auto.
        rewrite nth_error_app1 by lia. auto.
      * rewrite nth_error_app2 in Hk by auto.
        destruct (k - length done)%nat as [|m] eqn:Ek; simpl in Hk; [|destruct m; discriminate].
        inversion Hk; subst p. clear Hk.
        (* every child of j is already processed: otherwise the count of j would not be 0 *)
        assert (Hi : In i done).
        { destruct (in_dec Z.eq_dec i done) as [H|H]; auto. exfalso.
          assert (In i U) by (apply KUin; auto).
          pose proof (cnt_ge inds U j i H0) as Ge.
          assert (cnt inds U j = 0) by (apply (Kq j Rj); apply in_or_app; right; now left).
          apply occ_pos_in in Hpi. lia. }
        destruct (In_nth_error _ _ Hi) as [k' Hk'].
        assert ((k' < length done)%nat) by (apply nth_error_Some; congruence).
        exists k'. split; [lia|]. rewrite nth_error_app1 by auto. auto.
Qed.

(* ---------------------------------------------------------------------- *)
(* 7201: the traversal order                                               *)
(* ---------------------------------------------------------------------- *)
Lemma flat_map_par inds : flat_map (par inds) (zseq 0 (length inds)) = flat_map i_parents inds.
Proof.
  rewrite !flat_map_concat_map. f_equal.
  pose proof (map_get_zseq inds []) as M. change (zlen (@nil individual)) with 0 in M. simpl in M.
  assert (E : map (par inds) (zseq 0 (length inds))
              = map (fun r => match r with Ok x => i_parents x | _ => [] end) (map (get inds) (zseq 0 (length inds))))
    by (rewrite map_map; reflexivity).
  rewrite E, M, map_map. reflexivity.
Qed.

Definition inds_ok (inds : list individual) : Prop :=
  forall j r, get inds j = Ok r -> ps_ok (zlen inds) (i_parents r).

Theorem topological_order_spec inds order :
  inds_ok inds -> topological_order inds = Ok order ->
  Permutation (zseq 0 (length inds)) order /\
  (* every child comes before its parents in the traversal order *)
  (forall l1 p l2 j, order = l1 ++ p :: l2 -> 0 <= j < zlen inds -> In p (par inds j) -> In j l1).
Proof.
  intros Hok T. unfold topological_order in T. set (n := length inds) in *.
  destruct (count_parents_spec (flat_map i_parents inds) (repeat 0 n) (fun _ => 0) (arr_is_repeat 0 n))
    as (c0 & E0 & Z0 & A0).
  { rewrite zlen_repeat. intros p Hp. apply in_flat_map in Hp as (r & Hr & Hp).
    destruct (In_nth_error _ _ Hr) as [k Hk]. eapply (Hok (Z.of_nat k) r); eauto. now apply get_of_nat. }
  rewrite E0 in T. cbn [bind] in T. rewrite zlen_repeat in Z0.
  assert (A0' : arr_is c0 (cnt inds (zseq 0 n))).
  { eapply arr_is_ext; [exact A0|]. intros p Hp. unfold cnt. simpl. now rewrite flat_map_par. }
  destruct (initial_todo_spec c0 _ A0' n) as (todo & E1 & ND1 & In1); [lia|].
  rewrite E1 in T. cbn [bind] in T.
  destruct (topo_loop (S n) inds c0 [] todo) as [[done c']| | |] eqn:TL; cbn [bind fst snd] in T; try discriminate.
  destruct (existsb (fun x => 0 <? x) c') eqn:Ex; [discriminate|]. inversion T; subst order. clear T.
  destruct (topo_loop_spec inds (Z.of_nat n) eq_refl Hok (S n) c0 [] todo (zseq 0 n) done c') as (U' & K); auto.
  { constructor; auto.
    - apply zseq_NoDup.
    - intro j. rewrite zseq_in. simpl. tauto.
    - intros j Hj. simpl in Hj. apply In1 in Hj. tauto.
    - intros p Hp. simpl. rewrite In1. tauto.
    - intros k p j Hk. destruct k; discriminate. }
  destruct K as [Kc Kl KU KUin Knd Krng Kq Kord]. rewrite app_nil_r in *.
  assert (All : forall p, 0 <= p < Z.of_nat n -> In p done).
  { intros p Hp. apply (Kq p Hp).
    pose proof (occ_nonneg p (flat_map (par inds) U')) as Ge. fold (cnt inds U' p) in Ge.
    destruct (Z.eq_dec (cnt inds U' p) 0) as [|N]; auto. exfalso.
    assert (Hin : In (cnt inds U' p) c') by (eapply get_in; apply Kc; rewrite Kl; exact Hp).
    assert (existsb (fun x => 0 <? x) c' = true).
    { apply existsb_exists. exists (cnt inds U' p). split; auto. apply Z.ltb_lt. lia. }
    congruence. }
  split.
  - apply NoDup_Permutation; auto; [apply zseq_NoDup|].
    intro x. rewrite zseq_in. split; [intro; apply All; lia | intro H; apply Krng in H; lia].
  - intros l1 p l2 j E Rj Hp.
    assert (Hk : nth_error done (length l1) = Some p).
    { rewrite E, nth_error_app2, Nat.sub_diag by lia. reflexivity. }
    destruct (Kord _ _ _ Hk Rj Hp) as (k' & Lk & Hk').
    rewrite E, nth_error_app1 in Hk' by lia. eapply nth_error_In; eauto.
Qed.

(* ---------------------------------------------------------------------- *)
(* 7279: sort_individuals                                                  *)
(* ---------------------------------------------------------------------- *)
(* [ids] lists, in output order, the ORIGINAL id of every output individual *)
Definition id_image (ids : list Z) (x x' : Z) : Prop :=
  (x = NULL /\ x' = NULL) \/ (x <> NULL /\ get ids x' = Ok x).
Definition ind_image (ids : list Z) (r r' : individual) : Prop :=
  i_flags r' = i_flags r /\ i_loc r' = i_loc r /\ i_md r' = i_md r /\
  Forall2 (id_image ids) (i_parents r) (i_parents r').

Lemma check_inds_spec t : check_inds t = true ->
  inds_ok (t_inds t) /\ (forall nd, In nd (t_nodes t) -> NULL <= n_ind nd < zlen (t_inds t)).
Proof.
  unfold check_inds. rewrite andb_true_iff. intros [H1 H2]. split.
  - intros j r G p Hp. rewrite forallb_forall in H1. apply indexed_get in G.
    specialize (H1 _ G). simpl in H1. rewrite forallb_forall in H1. specialize (H1 p Hp).
    apply orb_true_iff in H1 as [H1|H1]; [left; now apply Z.eqb_eq|].
    apply andb_true_iff in H1 as [H1 _]. unfold in_range in H1.
    rewrite andb_true_iff, Z.leb_le, Z.ltb_lt in H1. now right.
  - intros nd Hn. rewrite forallb_forall in H2. specialize (H2 nd Hn).
    rewrite andb_true_iff, Z.leb_le, Z.ltb_lt in H2. exact H2.
Qed.

Lemma Forall2_map_same' {A B C} (R : B -> C -> Prop) (f : A -> B) (g : A -> C) l :
  Forall (fun x => R (f x) (g x)) l -> Forall2 R (map f l) (map g l).
Proof. induction 1; simpl; constructor; auto. Qed.

Lemma Forall2_map_r {A C} (R : A -> C -> Prop) (g : A -> C) l :
  Forall (fun x => R x (g x)) l -> Forall2 R l (map g l).
Proof. induction 1; simpl; constructor; auto. Qed.

Theorem sort_individuals_spec t t' :
  sort_individuals t = Ok t' ->
  exists ids,
    Permutation (zseq 0 (length (t_inds t))) ids /\
    t' = set_inds_nodes t (t_inds t') (t_nodes t') /\
    Forall2 (fun i r' => exists r, get (t_inds t) i = Ok r /\ ind_image ids r r') ids (t_inds t') /\
    Forall2 (fun nd nd' => nd' = node_set_ind nd (n_ind nd') /\ id_image ids (n_ind nd) (n_ind nd'))
            (t_nodes t) (t_nodes t') /\
    (* every parent precedes its children *)
    (forall q r' p', nth_error (t_inds t') q = Some r' -> In p' (i_parents r') -> p' <> NULL -> p' < Z.of_nat q).
Proof.
  unfold sort_individuals. intro S.
  destruct (check_refs t && check_inds t) eqn:CK; cbn [negb] in S; [|discriminate].
  apply andb_true_iff in CK as [_ CI]. destruct (check_inds_spec t CI) as [Hok Hnd].
  set (inds := t_inds t) in *. set (n := length inds).
  destruct (topological_order inds) as [order| | |] eqn:TO; cbn [bind] in S; try discriminate.
  destruct (topological_order_spec inds order Hok TO) as [Pord Kord].
  set (ids := rev order) in *.
  assert (Pids : Permutation (zseq 0 n) ids) by (eapply Permutation_trans; [exact Pord | apply Permutation_rev]).
  destruct (Permutation_zseq_range _ _ Pids) as (NDi & RGi & Li).
  (* rows in new order *)
  set (row := fun i => val (mkInd 0 [] [] []) (get inds i)).
  rewrite (mapM_eq_map _ row) in S.
  2:{ intros i Hi. apply RGi in Hi. destruct (get_ok_iff inds i) as [_ G].
      destruct G as [r G]; [unfold zlen, n in *; lia|]. unfold row. rewrite G. reflexivity. }
  cbn [bind] in S.
  destruct (fill_id_map_spec ids 0 (repeat NULL n) NDi) as (idmap & Ef & Lf & Inv & _).
  { intros id Hid. rewrite zlen_repeat. now apply RGi. }
  fold n in S. rewrite Ef in S. cbn [bind] in S.
  (* renaming of one id *)
  set (rn := fun x => if x =? NULL then NULL else val NULL (get idmap x)).
  assert (Rn : forall x, NULL <= x < Z.of_nat n -> remap_id idmap x = Ok (rn x) /\ id_image ids x (rn x)).
  { intros x Hx. unfold remap_id, rn. destruct (x =? NULL) eqn:E.
    - apply Z.eqb_eq in E. split; auto. now left.
    - apply Z.eqb_neq in E. unfold NULL in *.
      destruct (perm_zseq_nth n ids x Pids) as [q Hq]; [lia|].
      rewrite (Inv q x Hq). simpl. split; [reflexivity|]. right. split; auto. now apply get_of_nat. }
  set (newrow := fun r => ind_set_parents r (map rn (i_parents r))).
  assert (RowIn : forall i, In i ids -> exists r, get inds i = Ok r /\ row i = r).
  { intros i Hi. apply RGi in Hi. destruct (get_ok_iff inds i) as [_ G].
    destruct G as [r G]; [unfold zlen, n in *; lia|]. exists r. unfold row. rewrite G. auto. }
  assert (ParOk : forall i r, In i ids -> get inds i = Ok r -> forall p, In p (i_parents r) -> NULL <= p < Z.of_nat n).
  { intros i r Hi G p Hp. destruct (Hok i r G p Hp) as [->|H]; unfold NULL, zlen, n in *; lia. }
  rewrite (mapM_eq_map _ newrow) in S.
  2:{ intros r Hr. apply in_map_iff in Hr as (i & <- & Hi). destruct (RowIn i Hi) as (r & G & ->).
      rewrite (mapM_eq_map _ rn); [reflexivity|]. intros p Hp. apply Rn. eapply ParOk; eauto. }
  cbn [bind] in S.
  rewrite (mapM_eq_map _ (fun nd => node_set_ind nd (rn (n_ind nd)))) in S.
  2:{ intros nd Hn. destruct (Rn (n_ind nd)) as [E _]; [specialize (Hnd nd Hn); unfold zlen, n, inds in *; lia|].
      rewrite E. reflexivity. }
  cbn [bind] in S. inversion S; subst t'. clear S. cbn [t_inds t_nodes set_inds_nodes].
  exists ids. split; [exact Pids|]. split; [reflexivity|]. split; [|split].
  - rewrite map_map. apply Forall2_map_r. apply Forall_forall. intros i Hi.
    destruct (RowIn i Hi) as (r & G & E). exists r. split; auto. rewrite E. unfold newrow, ind_image. simpl.
    repeat split; auto. apply Forall2_map_r. apply Forall_forall. intros p Hp.
    apply Rn. eapply ParOk; eauto.
  - apply Forall2_map_r. apply Forall_forall. intros nd Hn. simpl. split; auto.
    apply Rn. specialize (Hnd nd Hn). unfold zlen, n, inds in *. lia.
  - intros q r' p' Hq Hp' Np'.
    rewrite map_map, nth_error_map in Hq. destruct (nth_error ids q) as [x|] eqn:Nx; [|discriminate].
    simpl in Hq. inversion Hq; subst r'. clear Hq. unfold newrow in Hp'. simpl in Hp'.
    apply in_map_iff in Hp' as (p & <- & Hp).
    destruct (RowIn x (nth_error_In _ _ Nx)) as (r & G & Er). rewrite Er in Hp.
    pose proof (ParOk x r (nth_error_In _ _ Nx) G p Hp) as Rp.
    assert (Np : p <> NULL) by (intro E; apply Np'; unfold rn; rewrite E; reflexivity).
    destruct (Rn p Rp) as [_ [[? _]|[_ Gp]]]; [contradiction|].
    (* p sits at position rn p of ids; x (a child of p) must come later *)
    set (qp := rn p) in *. pose proof (get_lt _ _ _ Gp) as Rqp.
    apply get_nth_error in Gp as [_ Gp].
    destruct (nth_error_split ids (Z.to_nat qp) Gp) as (a & b & Eids & La).
    assert (Eord : order = rev b ++ p :: rev a).
    { rewrite <- (rev_involutive order). fold ids. rewrite Eids, rev_app_distr. simpl. now rewrite <- app_assoc. }
    assert (Rx : 0 <= x < zlen inds) by (apply RGi, (nth_error_In _ _ Nx)).
    assert (Pin : In p (par inds x)) by (unfold par; rewrite G; exact Hp).
    pose proof (Kord _ _ _ x Eord Rx Pin) as Hxb. apply in_rev in Hxb.
    (* x is in b, so its position is beyond |a| *)
    destruct (Nat.lt_ge_cases (Z.to_nat qp) q) as [?|Hge]; [lia|]. exfalso.
    rewrite Eids in Nx, NDi.
    assert (In x (a ++ [p])).
    { destruct (Nat.lt_ge_cases q (length a)) as [Hl|Hl].
      - rewrite nth_error_app1 in Nx by auto. apply in_or_app. left. eapply nth_error_In; eauto.
      - assert (q = length a) by lia. subst q. rewrite nth_error_app2, Nat.sub_diag in Nx by lia.
        simpl in Nx. inversion Nx. apply in_or_app. right. now left. }
    replace (a ++ p :: b) with ((a ++ [p]) ++ b) in NDi by (rewrite <- app_assoc; reflexivity).
    clear - NDi H Hxb. induction (a ++ [p]) as [|y l IH]; simpl in *; [tauto|].
    inversion NDi; subst. destruct H as [->|H]; auto. apply H2. apply in_or_app. now right.
Qed.
