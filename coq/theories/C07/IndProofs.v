(* C07 — tsk_table_collection_individual_topological_sort (TableCollection.sort_individuals,
   tables.c 7201 / 7279): whenever it returns Ok the individual rows are permuted (parents
   renamed), every parent precedes its children, and nodes.individual of EVERY node is the new
   id of its old individual.  The proof is the invariant of Kahn's algorithm as coded:
   incoming_edge_count[p] = number of parent slots naming p among the unprocessed individuals. *)
From Coq Require Import List ZArith Bool Lia Permutation Sorted.
From TskVerif Require Import Base.Common C07.Model C07.ListLemmas C07.SortProofs C07.RaggedProofs
     C07.MutParentsProofs C07.TopProofs.
Import ListNotations.
Open Scope Z_scope.

(* ---------------------------------------------------------------------- *)
(* counting occurrences                                                    *)
(* ---------------------------------------------------------------------- *)
Fixpoint occ (p : Z) (l : list Z) : Z :=
  match l with [] => 0 | x :: t => (if x =? p then 1 else 0) + occ p t end.

Lemma occ_nonneg p l : 0 <= occ p l.
Proof. induction l as [|x t IH]; simpl; [lia|]. destruct (x =? p); lia. Qed.
Lemma occ_app p a b : occ p (a ++ b) = occ p a + occ p b.
Proof. induction a as [|x t IH]; simpl; [lia|]. rewrite IH. lia. Qed.
Lemma occ_pos_in p l : 0 < occ p l <-> In p l.
Proof.
  induction l as [|x t IH]; simpl; [split; [lia | tauto]|].
  pose proof (occ_nonneg p t). destruct (x =? p) eqn:E.
  - apply Z.eqb_eq in E. split; [auto | lia].
  - apply Z.eqb_neq in E. rewrite <- IH. split; [intro; right; lia | intros [?|?]; [contradiction | lia]].
Qed.
Lemma occ_zero_not_in p l : occ p l = 0 <-> ~ In p l.
Proof. rewrite <- occ_pos_in. pose proof (occ_nonneg p l). lia. Qed.

(* ---------------------------------------------------------------------- *)
(* the three counting loops                                                *)
(* ---------------------------------------------------------------------- *)
Definition ps_ok (n : Z) (ps : list Z) : Prop := forall p, In p ps -> p = NULL \/ 0 <= p < n.

Lemma count_parents_spec ps : forall c f,
  arr_is c f -> ps_ok (zlen c) ps ->
  exists c', count_parents ps c = Ok c' /\ zlen c' = zlen c /\ arr_is c' (fun p => f p + occ p ps).
Proof.
  induction ps as [|p tl IH]; intros c f A R; simpl.
  - exists c. repeat split; auto. eapply arr_is_ext; eauto. intros; lia.
  - assert (Rt : ps_ok (zlen c) tl) by (intros x Hx; apply R; now right).
    destruct (p =? NULL) eqn:E.
    + apply Z.eqb_eq in E. destruct (IH c f A Rt) as (c' & E' & Z' & A'). exists c'. repeat split; auto.
      eapply arr_is_ext; [exact A'|]. intros v Hv. simpl.
      replace (p =? v) with false; [lia|]. symmetry. apply Z.eqb_neq. unfold NULL in E. rewrite Z' in Hv. lia.
    + apply Z.eqb_neq in E. destruct (R p (or_introl eq_refl)) as [?|Rp]; [contradiction|].
      rewrite (A p Rp). simpl. destruct (set_spec c p (f p + 1) Rp) as (c1 & Es & _). rewrite Es. simpl.
      destruct (arr_is_set _ _ _ _ _ A Es) as [A1 Z1].
      destruct (IH c1 _ A1) as (c' & E' & Z' & A'); [now rewrite Z1|].
      exists c'. split; auto. split; [congruence|].
      eapply arr_is_ext; [exact A'|]. intros v Hv. simpl. unfold upd.
      rewrite (Z.eqb_sym p v). destruct (v =? p) eqn:Ev; [apply Z.eqb_eq in Ev; subst|]; lia.
Qed.

(* relax: counts go down by the number of slots; exactly the parents whose count reaches 0 are
   appended, once each *)
Lemma relax_spec ps : forall c f q,
  arr_is c f -> ps_ok (zlen c) ps -> (forall p, 0 <= p < zlen c -> occ p ps <= f p) ->
  exists c' nw, relax ps c q = Ok (c', q ++ nw) /\ zlen c' = zlen c /\
    arr_is c' (fun p => f p - occ p ps) /\ NoDup nw /\
    (forall p, In p nw <-> 0 <= p < zlen c /\ 0 < occ p ps /\ f p - occ p ps = 0).
Proof.
  induction ps as [|p tl IH]; intros c f q A R Le; simpl.
  - exists c, []. rewrite app_nil_r. split; auto. split; auto. split.
    { eapply arr_is_ext; eauto. intros; lia. }
    split; [constructor|]. intro p. simpl. split; [intros [] | lia].
  - assert (Rt : ps_ok (zlen c) tl) by (intros x Hx; apply R; now right).
    destruct (p =? NULL) eqn:E.
    + apply Z.eqb_eq in E.
      destruct (IH c f q A Rt) as (c' & nw & E' & Z' & A' & ND & In_).
      { intros v Hv. specialize (Le v Hv). simpl in Le.
        replace (p =? v) with false in Le; [lia|]. symmetry. apply Z.eqb_neq. unfold NULL in E. lia. }
      exists c', nw. split; auto. split; auto. split.
      { eapply arr_is_ext; [exact A'|]. intros v Hv. simpl.
        replace (p =? v) with false; [lia|]. symmetry. apply Z.eqb_neq. unfold NULL in E. rewrite Z' in Hv. lia. }
      split; auto. intro v. rewrite In_. simpl.
      destruct (p =? v) eqn:Ev.
      * apply Z.eqb_eq in Ev. unfold NULL in E. split; intros (H1 & H2 & H3); exfalso; lia.
      * split; intros (H1 & H2 & H3); repeat split; auto; lia.
    + apply Z.eqb_neq in E. destruct (R p (or_introl eq_refl)) as [?|Rp]; [contradiction|].
      rewrite (A p Rp). simpl. destruct (set_spec c p (f p - 1) Rp) as (c1 & Es & _). rewrite Es. simpl.
      destruct (arr_is_set _ _ _ _ _ A Es) as [A1 Z1].
      pose proof (Le p Rp) as Lp. simpl in Lp. rewrite Z.eqb_refl in Lp.
      destruct (IH c1 (upd f p (f p - 1)) (if f p - 1 =? 0 then q ++ [p] else q) A1)
        as (c' & nw & E' & Z' & A' & ND & In_).
      { now rewrite Z1. }
      { intros v Hv. rewrite Z1 in Hv. specialize (Le v Hv). simpl in Le. unfold upd.
        destruct (v =? p) eqn:Ev.
        - apply Z.eqb_eq in Ev. subst v. rewrite Z.eqb_refl in Le. lia.
        - rewrite (Z.eqb_sym p v), Ev in Le. lia. }
      rewrite E'. rewrite Z1 in *.
      assert (Upd : forall v, upd f p (f p - 1) v - occ v tl = f v - ((if p =? v then 1 else 0) + occ v tl)).
      { intro v. unfold upd. rewrite (Z.eqb_sym p v). destruct (v =? p) eqn:Ev; [apply Z.eqb_eq in Ev; subst|]; lia. }
      destruct (f p - 1 =? 0) eqn:Z0.
      * apply Z.eqb_eq in Z0. pose proof (occ_nonneg p tl).
        assert (Op : occ p tl = 0) by lia.
        assert (Np : ~ In p nw).
        { intro H0. apply In_ in H0 as (_ & H0 & _). lia. }
        exists c', (p :: nw). rewrite <- app_assoc. simpl. split; auto. split; auto. split.
        { eapply arr_is_ext; [exact A'|]. intros v Hv. apply Upd. }
        split; [constructor; auto|].
        intro v. simpl. rewrite In_. rewrite Upd. unfold upd. split.
        -- intros [<-|(H1 & H2 & H3)].
           ++ rewrite Z.eqb_refl. repeat split; try lia.
           ++ repeat split; try lia; try exact H3; destruct (p =? v); cbv iota; lia.
        -- intros (H1 & H2 & H3). destruct (Z.eq_dec p v) as [->|N]; [now left|right].
           replace (p =? v) with false in *; [|symmetry; now apply Z.eqb_neq].
           repeat split; try lia.
      * apply Z.eqb_neq in Z0. exists c', nw. split; auto. split; auto. split.
        { eapply arr_is_ext; [exact A'|]. intros v Hv. apply Upd. }
        split; auto. intro v. rewrite In_, Upd. unfold upd. split.
        -- intros (H1 & H2 & H3). repeat split; try lia; try exact H3; destruct (p =? v); cbv iota; lia.
        -- intros (H1 & H2 & H3). destruct (Z.eq_dec p v) as [->|N].
           ++ rewrite Z.eqb_refl in *. pose proof (occ_nonneg v tl). repeat split; try lia.
           ++ replace (p =? v) with false in *; [|symmetry; now apply Z.eqb_neq]. repeat split; try lia.
Qed.

Lemma initial_todo_spec c f : arr_is c f -> forall k, Z.of_nat k <= zlen c ->
  exists l, initial_todo k c = Ok l /\ NoDup l /\
            (forall i, In i l <-> 0 <= i < Z.of_nat k /\ f i = 0).
Proof.
  intros A. induction k as [|k IH]; intro Hk; simpl.
  - exists []. split; auto. split; [constructor|]. intro i. simpl. split; [intros [] | lia].
  - rewrite (A (Z.of_nat k)) by lia. simpl. destruct IH as (l & E & ND & In_); [lia|]. rewrite E. simpl.
    destruct (f (Z.of_nat k) =? 0) eqn:Z0.
    + apply Z.eqb_eq in Z0. exists (Z.of_nat k :: l). split; auto. split.
      * constructor; auto. rewrite In_. lia.
      * intro i. simpl. rewrite In_. split; [intros [<-|?]; lia|].
        intros [H1 H2]. destruct (Z.eq_dec (Z.of_nat k) i); [now left | right; lia].
    + apply Z.eqb_neq in Z0. exists l. split; auto. split; auto.
      intro i. rewrite In_. split; [lia|]. intros [H1 H2].
      destruct (Z.eq_dec (Z.of_nat k) i); [subst; contradiction | lia].
Qed.
