(* C07 — tsk_table_sorter_sort_edges / _sort_migrations / tsk_table_sorter_run /
   tsk_table_collection_sort as a whole (default arguments: sort everything). *)
From Coq Require Import List ZArith Bool Lia Permutation Sorted.
From TskVerif Require Import Base.Common C07.Model C07.ListLemmas C07.CmpLemmas C07.SortProofs
     C07.RaggedProofs.
Import ListNotations.
Open Scope Z_scope.

Lemma Sorted_impl_in {A} (R R' : A -> A -> Prop) l :
  (forall a b, In a l -> In b l -> R a b -> R' a b) -> Sorted R l -> Sorted R' l.
Proof.
  induction l as [|x t IH]; intros H S; constructor; inversion S; subst.
  - apply IH; auto. intros; apply H; auto; now right.
  - destruct t; constructor. inversion H3; subst. apply H; auto; [now left | right; now left].
Qed.

(* the ragged columns are the C layout of the byte rows [mds] *)
Definition edges_wf (t : tables) (mds : list (list Z)) : Prop :=
  t_emd t = concat mds /\ t_eoff t = offsets_of 0 mds /\ length mds = length (t_edges t).
Definition migs_wf (t : tables) (gds : list (list Z)) : Prop :=
  t_gmd t = concat gds /\ t_goff t = offsets_of 0 gds /\ length gds = length (t_migs t).

(* documented edge order: time of parent, parent, child, left *)
Definition edge_key (time : list Z) (e : erow) : list Z :=
  [val 0 (get time (e_parent e)); e_parent e; e_child e; e_left e].
Definition edge_le (time : list Z) (a b : erow) : Prop := lex_le (edge_key time a) (edge_key time b).
Definition mig_le (a b : grow) : Prop := lex_le (mig_key a) (mig_key b).

Lemma edges_wf_rows t mds : edges_wf t mds -> edge_rows t = Ok (combine (t_edges t) mds).
Proof. intros (E1 & E2 & L). unfold edge_rows. rewrite E1, E2, <- L, ragged_rows_wf. reflexivity. Qed.
Lemma migs_wf_rows t gds : migs_wf t gds -> mig_rows t = Ok (combine (t_migs t) gds).
Proof. intros (E1 & E2 & L). unfold mig_rows. rewrite E1, E2, <- L, ragged_rows_wf. reflexivity. Qed.

Lemma skipn_offsets_last mds n : n = length mds ->
  skipn n (offsets_of 0 mds) = [zlen (concat mds)].
Proof.
  intros ->. rewrite offsets_of_starts. rewrite <- (starts_length 0 mds), skipn_app_exact.
  reflexivity.
Qed.

(* the records handed to qsort *)
Definition edge_recs (t : tables) (mds : list (list Z)) : list edge_sort :=
  map (fun rs : erow * (Z * Z) =>
         mkES (fst rs) (val 0 (get (map n_time (t_nodes t)) (e_parent (fst rs)))) (fst (snd rs)) (snd (snd rs)))
      (combine (t_edges t) (spans_of 0 mds)).
Definition edge_md (t : tables) : edge_sort -> list Z := md_of es_off es_len (t_emd t).
Definition mig_recs (t : tables) (gds : list (list Z)) : list mig_sort :=
  map (fun rs : grow * (Z * Z) => mkGS (fst rs) (fst (snd rs)) (snd (snd rs)))
      (combine (t_migs t) (spans_of 0 gds)).
Definition mig_md (t : tables) : mig_sort -> list Z := md_of gs_off gs_len (t_gmd t).

Lemma spans_of_length a mds : length (spans_of a mds) = length mds.
Proof. revert a; induction mds; intro; simpl; auto. Qed.

Section WithQ.
  Variable Q : qsorts.
  Hypothesis HQ : qsorts_ok Q.

  Lemma HQ_edge : sorts_by cmp_edge (qs_edge Q). Proof. apply HQ. Qed.
  Lemma HQ_mig : sorts_by cmp_migration (qs_mig Q). Proof. apply HQ. Qed.

  (* ------------------------------------------------------------------ *)
  (* 6904 with start = 0                                                  *)
  (* ------------------------------------------------------------------ *)
  Lemma sort_edges_spec0 t mds :
    edges_wf t mds ->
    (forall e, In e (t_edges t) -> 0 <= e_parent e < zlen (t_nodes t)) ->
    exists es' mds',
      sort_edges Q 0 t = Ok (set_edges t es' (concat mds') (offsets_of 0 mds')) /\
      length mds' = length es' /\
      Permutation (combine (t_edges t) mds) (combine es' mds') /\
      Sorted (edge_le (map n_time (t_nodes t))) es' /\
      es' = map es_row (qs_edge Q (edge_recs t mds)) /\
      mds' = map (edge_md t) (qs_edge Q (edge_recs t mds)) /\
      map es_row (edge_recs t mds) = t_edges t /\ map (edge_md t) (edge_recs t mds) = mds.
  Proof.
    intros (E1 & E2 & L) RG. unfold sort_edges. simpl.
    set (time := map n_time (t_nodes t)).
    rewrite E2. rewrite <- L.
    pose proof (spans_from_offsets mds [] 0) as SF. change (zlen (@nil Z)) with 0 in SF. simpl in SF.
    rewrite SF. simpl.
    set (g := fun rs : erow * (Z * Z) =>
                mkES (fst rs) (val 0 (get time (e_parent (fst rs)))) (fst (snd rs)) (snd (snd rs))).
    rewrite (mapM_eq_map _ g).
    2:{ intros [e sp] Hin. simpl. apply in_combine_l in Hin. destruct (RG e Hin) as [R1 R2].
        destruct (get_ok_iff time (e_parent e)) as [_ G].
        destruct G as [tm G]; [unfold time, zlen in *; rewrite map_length; lia|].
        unfold g. simpl. fold time. rewrite G. reflexivity. }
    simpl. set (recs := map g (combine (t_edges t) (spans_of 0 mds))).
    set (sorted := qs_edge Q recs). destruct (HQ_edge recs) as [P S]. fold sorted in P, S.
    assert (F : Forall2 (fun x e => es_row e = fst x /\ slice (t_emd t) (es_off e) (es_len e) = Ok (snd x))
                        (combine (t_edges t) mds) recs).
    { pose proof (slices_of_spans mds [] []) as Sl. change (zlen (@nil Z)) with 0 in Sl. simpl in Sl.
      rewrite app_nil_r in Sl. rewrite <- E1 in Sl. unfold recs. clear - Sl L.
      revert L. generalize (t_edges t) as es. induction Sl as [|sp r sps rs H F IH]; intros [|e es] L;
        simpl in *; try discriminate; constructor; auto. }
    destruct (ragged_sort_core es_row es_off es_len (t_emd t) mds (t_edges t) recs sorted E1 (eq_sym L) F P)
      as (mds' & CB & Pm & Lm & Lz & Em & MdR & RowR).
    rewrite (get_offsets_head 0 mds). cbn [bind]. rewrite CB. simpl.
    exists (map es_row sorted), mds'. split; [|split; [|split; [|split; [|split; [|split; [|split]]]]]];
      [ | | | | reflexivity | exact Em | exact RowR | exact MdR ].
    - assert (EO : starts 0 mds' ++ skipn (length sorted) (offsets_of 0 mds) = offsets_of 0 mds').
      { rewrite (offsets_of_starts 0 mds'). f_equal. rewrite skipn_offsets_last.
        + simpl. now rewrite Lz.
        + rewrite <- (Permutation_length P). unfold recs.
          rewrite map_length, combine_length, spans_of_length. lia. }
      unfold set_edges. simpl. rewrite EO. reflexivity.
    - now rewrite map_length.
    - exact Pm.
    - apply Sorted_map_iff. eapply Sorted_impl_in; [|exact S].
      intros a b Ha Hb Hab. apply cmp_edge_le in Hab.
      assert (Tm : forall e, In e sorted -> es_time e = val 0 (get time (e_parent (es_row e)))).
      { intros e He. assert (In e recs) by (eapply Permutation_in; [symmetry; eauto | auto]).
        unfold recs in H. apply in_map_iff in H as (x & <- & _). reflexivity. }
      unfold edge_le, edge_key. fold time. rewrite <- (Tm a Ha), <- (Tm b Hb). exact Hab.
  Qed.

  (* ------------------------------------------------------------------ *)
  (* 6959 with start = 0                                                  *)
  (* ------------------------------------------------------------------ *)
  Lemma sort_migrations_spec0 t gds :
    migs_wf t gds ->
    exists gs' gds',
      sort_migrations Q 0 t = Ok (set_migs t gs' (concat gds') (offsets_of 0 gds')) /\
      length gds' = length gs' /\
      Permutation (combine (t_migs t) gds) (combine gs' gds') /\
      Sorted mig_le gs' /\
      gs' = map gs_row (qs_mig Q (mig_recs t gds)) /\
      gds' = map (mig_md t) (qs_mig Q (mig_recs t gds)) /\
      map gs_row (mig_recs t gds) = t_migs t /\ map (mig_md t) (mig_recs t gds) = gds.
  Proof.
    intros (E1 & E2 & L). unfold sort_migrations. simpl.
    rewrite E2. rewrite <- L.
    pose proof (spans_from_offsets gds [] 0) as SF. change (zlen (@nil Z)) with 0 in SF. simpl in SF.
    rewrite SF. simpl.
    set (g := fun rs : grow * (Z * Z) => mkGS (fst rs) (fst (snd rs)) (snd (snd rs))).
    set (recs := map g (combine (t_migs t) (spans_of 0 gds))).
    set (sorted := qs_mig Q recs). destruct (HQ_mig recs) as [P S]. fold sorted in P, S.
    assert (F : Forall2 (fun x e => gs_row e = fst x /\ slice (t_gmd t) (gs_off e) (gs_len e) = Ok (snd x))
                        (combine (t_migs t) gds) recs).
    { pose proof (slices_of_spans gds [] []) as Sl. change (zlen (@nil Z)) with 0 in Sl. simpl in Sl.
      rewrite app_nil_r in Sl. rewrite <- E1 in Sl. unfold recs. clear - Sl L.
      revert L. generalize (t_migs t) as es. induction Sl as [|sp r sps rs H F IH]; intros [|e es] L;
        simpl in *; try discriminate; constructor; auto. }
    destruct (ragged_sort_core gs_row gs_off gs_len (t_gmd t) gds (t_migs t) recs sorted E1 (eq_sym L) F P)
      as (gds' & CB & Pm & Lm & Lz & Em & MdR & RowR).
    rewrite (get_offsets_head 0 gds). cbn [bind]. rewrite CB. simpl.
    exists (map gs_row sorted), gds'. split; [|split; [|split; [|split; [|split; [|split; [|split]]]]]];
      [ | | | | reflexivity | exact Em | exact RowR | exact MdR ].
    - assert (EO : starts 0 gds' ++ skipn (length sorted) (offsets_of 0 gds) = offsets_of 0 gds').
      { rewrite (offsets_of_starts 0 gds'). f_equal. rewrite skipn_offsets_last.
        + simpl. now rewrite Lz.
        + rewrite <- (Permutation_length P). unfold recs.
          rewrite map_length, combine_length, spans_of_length. lia. }
      unfold set_migs. simpl. rewrite EO. reflexivity.
    - now rewrite map_length.
    - exact Pm.
    - apply Sorted_map_iff. eapply Sorted_impl; [|exact S].
      intros a b Hab. apply cmp_migration_le in Hab. exact Hab.
  Qed.

  (* ------------------------------------------------------------------ *)
  (* check_refs                                                           *)
  (* ------------------------------------------------------------------ *)
  Lemma in_range_spec x n : in_range x n = true <-> 0 <= x < n.
  Proof. unfold in_range. rewrite andb_true_iff, Z.leb_le, Z.ltb_lt. tauto. Qed.

  Lemma check_refs_spec t : check_refs t = true ->
    (forall e, In e (t_edges t) -> 0 <= e_parent e < zlen (t_nodes t)) /\
    (forall m, In m (t_muts t) -> 0 <= m_site m < zlen (t_sites t) /\ NULL <= m_parent m < zlen (t_muts t)).
  Proof.
    unfold check_refs. rewrite !andb_true_iff. intros [[H1 H2] _]. split.
    - intros e He. rewrite forallb_forall in H1. specialize (H1 e He).
      apply andb_true_iff in H1 as [H1 _]. now apply in_range_spec.
    - intros m Hm. rewrite forallb_forall in H2.
      destruct (In_nth_error _ _ Hm) as [p Hp].
      assert (In (Z.of_nat p, m) (indexed 0 (t_muts t))) by (apply indexed_get; now apply get_of_nat).
      specialize (H2 _ H). simpl in H2. rewrite !andb_true_iff in H2.
      destruct H2 as [[[[A _] B] C] _]. apply in_range_spec in A.
      apply Z.leb_le in B. apply Z.ltb_lt in C. auto.
  Qed.

  (* ------------------------------------------------------------------ *)
  (* 12216 / 7453: sort() with default arguments                          *)
  (* ------------------------------------------------------------------ *)
  Definition sort_post (t t' : tables) (mds gds mds' gds' : list (list Z)) (sp mp : list Z) : Prop :=
    edges_wf t' mds' /\ migs_wf t' gds' /\
    Permutation (combine (t_edges t) mds) (combine (t_edges t') mds') /\
    Permutation (combine (t_migs t) gds) (combine (t_migs t') gds') /\
    Sorted (edge_le (map n_time (t_nodes t))) (t_edges t') /\
    Sorted mig_le (t_migs t') /\
    sites_witness (t_sites t) (t_sites t') sp /\
    muts_witness (t_muts t) (t_muts t') sp mp /\
    same_nodes_inds_pops t t' /\ t_index t' = None.

  Theorem table_sort_spec t mds gds :
    check_refs t = true -> edges_wf t mds -> migs_wf t gds ->
    exists t' mds' gds' sp mp,
      table_sort Q None t = Ok t' /\ sort_post t t' mds gds mds' gds' sp mp.
  Proof.
    intros CR EW GW. unfold table_sort. rewrite CR.
    destruct (check_refs_spec t CR) as [RGe RGm].
    unfold sorter_run. simpl.
    replace (zlen (t_edges t) <? 0) with false by (symmetry; apply Z.ltb_ge; apply zlen_nonneg).
    replace (zlen (t_migs t) <? 0) with false by (symmetry; apply Z.ltb_ge; apply zlen_nonneg).
    simpl.
    (* edges *)
    destruct (sort_edges_spec0 (set_index t None) mds) as (es' & mds' & E1 & Le & Pe & Se & _); auto.
    rewrite E1. simpl.
    set (t1 := set_edges (set_index t None) es' (concat mds') (offsets_of 0 mds')).
    (* migrations *)
    assert (GW1 : migs_wf t1 gds) by exact GW.
    assert (Hm : exists gs' gds', (if 0 <? zlen (t_migs t) then sort_migrations Q 0 t1 else Ok t1)
                                  = Ok (set_migs t1 gs' (concat gds') (offsets_of 0 gds')) /\
                                  length gds' = length gs' /\
                                  Permutation (combine (t_migs t) gds) (combine gs' gds') /\
                                  Sorted mig_le gs').
    { destruct (0 <? zlen (t_migs t)) eqn:Z0.
      - destruct (sort_migrations_spec0 t1 gds GW1) as (gs' & gds' & A & B & C & D & _). eauto 8.
      - apply Z.ltb_ge in Z0. destruct GW as (G1 & G2 & G3).
        assert (Em : t_migs t = []) by (destruct (t_migs t); auto; unfold zlen in Z0; simpl in Z0; lia).
        assert (Eg : gds = []) by (rewrite Em in G3; destruct gds; auto; discriminate).
        exists [], []. subst gds. simpl. split; [|split; [|split]]; auto; [|rewrite Em; constructor].
        f_equal. unfold set_migs, t1, set_edges, set_index. simpl. simpl in G1, G2. rewrite Em, G1, G2. reflexivity. }
    destruct Hm as (gs' & gds' & E2 & Lg & Pg & Sg). rewrite E2. simpl.
    set (t2 := set_migs t1 gs' (concat gds') (offsets_of 0 gds')).
    (* sites *)
    destruct (sort_sites_spec Q HQ (t_sites t)) as (sites' & idmap & sp & E3 & SW & Li & Inv).
    change (t_sites t2) with (t_sites t). rewrite E3. simpl.
    (* mutations *)
    destruct SW as (Psp & F2 & Ss).
    destruct (sort_mutations_spec Q HQ sp idmap (t_muts t) (length (t_sites t)) Psp Inv) as (muts' & mp & E4 & MW).
    { intros m Hm. apply RGm in Hm. unfold zlen in Hm. exact Hm. }
    change (t_muts t2) with (t_muts t). rewrite E4. simpl.
    eexists. exists mds', gds', sp, mp. split; [reflexivity|].
    unfold sort_post. simpl. destruct MW as (M1 & M2 & M3). repeat split; auto.
  Qed.
End WithQ.

(* ---------------------------------------------------------------------- *)
(* consequences in the vocabulary of the property                          *)
(* ---------------------------------------------------------------------- *)
Lemma map_get_zseq {A} (l : list A) : forall pre,
  map (get (pre ++ l)) (zseq (zlen pre) (length l)) = map Ok l.
Proof.
  induction l as [|x t IH]; intro pre; simpl; auto.
  rewrite get_app_mid. f_equal.
  replace (pre ++ x :: t) with ((pre ++ [x]) ++ t) by (rewrite <- app_assoc; reflexivity).
  replace (zlen pre + 1) with (zlen (pre ++ [x])) by (rewrite zlen_app; reflexivity).
  apply IH.
Qed.

Lemma map_Ok_inj {A} (a b : list A) : map (@Ok A) a = map (@Ok A) b -> a = b.
Proof.
  revert b; induction a; intros [|y b] H; simpl in *; try discriminate; auto.
  inversion H. f_equal; auto.
Qed.

Lemma perm_of_witness {A B} (f : A -> B) (l : list A) (l' : list B) sp :
  Permutation (zseq 0 (length l)) sp ->
  Forall2 (fun i y => exists x, get l i = Ok x /\ y = f x) sp l' ->
  Permutation (map f l) l'.
Proof.
  intros P F.
  assert (E1 : map (fun i => match get l i with Ok x => Ok (f x) | _ => OOB end) (zseq 0 (length l))
               = map Ok (map f l)).
  { pose proof (map_get_zseq l []) as M. change (zlen (@nil A)) with 0 in M. simpl in M.
    rewrite <- (map_map (get l) (fun r => match r with Ok x => Ok (f x) | _ => OOB end)), M.
    rewrite !map_map. reflexivity. }
  assert (E2 : map (fun i => match get l i with Ok x => Ok (f x) | _ => OOB end) sp = map Ok l').
  { clear - F. induction F as [|i y sp l' (x & G & ->) F IH]; simpl; auto. rewrite G, IH. reflexivity. }
  pose proof (Permutation_map (fun i => match get l i with Ok x => Ok (f x) | _ => @OOB B end) P) as PM.
  rewrite E1, E2 in PM.
  apply Permutation_map_inv in PM as (l3 & E3 & P3). apply map_Ok_inj in E3. subst l3.
  now symmetry.
Qed.

Definition mut_content (m : mutation) : Z * option Z * list Z * list Z :=
  (m_node m, m_time m, m_der m, m_md m).

Lemma sites_witness_perm sites sites' sp : sites_witness sites sites' sp -> Permutation sites sites'.
Proof.
  intros (P & F & _). rewrite <- (map_id sites).
  apply (perm_of_witness (fun s => s) sites sites' sp P).
  clear - F. induction F; constructor; eauto.
Qed.

Lemma muts_witness_perm muts muts' sp mp :
  muts_witness muts muts' sp mp -> Permutation (map mut_content muts) (map mut_content muts').
Proof.
  intros (P & F & _).
  apply (perm_of_witness mut_content muts (map mut_content muts') mp P).
  clear - F. induction F as [|j m' mp0 muts0 (m & G & I) F IH]; simpl; constructor; auto.
  exists m. split; auto. destruct I as (I1 & I2 & I3 & I4 & _). unfold mut_content. congruence.
Qed.

Theorem sort_permutes_proof : forall Q, qsorts_ok Q -> forall t mds gds,
  check_refs t = true -> edges_wf t mds -> migs_wf t gds ->
  exists t' mds' gds', table_sort Q None t = Ok t' /\
    edges_wf t' mds' /\ migs_wf t' gds' /\
    Permutation (combine (t_edges t) mds) (combine (t_edges t') mds') /\
    Permutation (combine (t_migs t) gds) (combine (t_migs t') gds') /\
    Permutation (t_sites t) (t_sites t') /\
    Permutation (map mut_content (t_muts t)) (map mut_content (t_muts t')) /\
    same_nodes_inds_pops t t'.
Proof.
  intros Q HQ t mds gds CR EW GW.
  destruct (table_sort_spec Q HQ t mds gds CR EW GW) as (t' & mds' & gds' & sp & mp & E & P).
  destruct P as (P1 & P2 & P3 & P4 & P5 & P6 & P7 & P8 & P9 & P10).
  exists t', mds', gds'.
  split; [exact E|]. split; [exact P1|]. split; [exact P2|]. split; [exact P3|]. split; [exact P4|].
  split; [eapply sites_witness_perm; eauto|]. split; [eapply muts_witness_perm; eauto|]. exact P9.
Qed.

Theorem sort_sorted_proof : forall Q, qsorts_ok Q -> forall t mds gds,
  check_refs t = true -> edges_wf t mds -> migs_wf t gds ->
  exists t' sp mp, table_sort Q None t = Ok t' /\
    Sorted (edge_le (map n_time (t_nodes t))) (t_edges t') /\
    Sorted mig_le (t_migs t') /\
    sites_witness (t_sites t) (t_sites t') sp /\
    muts_witness (t_muts t) (t_muts t') sp mp.
Proof.
  intros Q HQ t mds gds CR EW GW.
  destruct (table_sort_spec Q HQ t mds gds CR EW GW) as (t' & mds' & gds' & sp & mp & E & P).
  destruct P as (P1 & P2 & P3 & P4 & P5 & P6 & P7 & P8 & P9 & P10).
  exists t', sp, mp. auto.
Qed.

Theorem sort_remaps_proof : forall Q, qsorts_ok Q -> forall t mds gds,
  check_refs t = true -> edges_wf t mds -> migs_wf t gds ->
  exists t' sp mp, table_sort Q None t = Ok t' /\
    Permutation (zseq 0 (length (t_sites t))) sp /\
    Permutation (zseq 0 (length (t_muts t))) mp /\
    Forall2 (fun i s' => get (t_sites t) i = Ok s') sp (t_sites t') /\
    Forall2 (fun j m' => exists m, get (t_muts t) j = Ok m /\ mut_image sp mp m m') mp (t_muts t').
Proof.
  intros Q HQ t mds gds CR EW GW.
  destruct (sort_sorted_proof Q HQ t mds gds CR EW GW) as (t' & sp & mp & E & _ & _ & (S1 & S2 & _) & (M1 & M2 & _)).
  exists t', sp, mp. auto.
Qed.
