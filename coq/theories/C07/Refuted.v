(* C07 — witnesses for the parts of the property that the code does not satisfy.  Each is
   evaluated on the executable model (stdlib merge sort instance, the one the
   correspondence compares with the implementation) and replayed on the real code by the
   harness (corpus/C07/*.jsonl). *)
From Coq Require Import List ZArith Bool Lia Permutation Sorted.
From TskVerif Require Import Base.Common C07.Model C07.ListLemmas C07.CmpLemmas C07.SortProofs
     C07.RaggedProofs C07.TopProofs.
Import ListNotations.
Open Scope Z_scope.

Definition is_Ok {A} (r : res A) : option A := match r with Ok a => Some a | _ => None end.

(* ---------------------------------------------------------------------- *)
(* F11: canonicalise depends on the row order of two sites sharing a position *)
(* ---------------------------------------------------------------------- *)
(* canonicalise = subset(all nodes) + canonical sorter run (12236).  On these tables
   (no individuals, no populations, every site referenced, no migrations) subset is the
   identity, so the canonical sorter run IS canonicalise. *)
Definition f11_nodes := [mkNode 1 0 (-1) (-1) []].
Definition f11_a : tables :=
  mkTables 10 f11_nodes [] [] [0]
    [mkSite 5 [65] [120]; mkSite 5 [67] [121]]
    [mkMut 0 0 (-1) None [84] []; mkMut 1 0 (-1) None [71] []]
    [] [] [0] [] [] None.
(* the same collection with the two site rows exchanged (mutation.site follows the rows) *)
Definition f11_b : tables :=
  mkTables 10 f11_nodes [] [] [0]
    [mkSite 5 [67] [121]; mkSite 5 [65] [120]]
    [mkMut 1 0 (-1) None [84] []; mkMut 0 0 (-1) None [71] []]
    [] [] [0] [] [] None.

Theorem canonicalise_ties_refuted_proof :
  Permutation (t_sites f11_a) (t_sites f11_b) /\
  (forall m, In m (t_muts f11_a) ->
     exists m', In m' (t_muts f11_b) /\ mut_content m' = mut_content m /\
                nth_error (t_sites f11_b) (Z.to_nat (m_site m')) = nth_error (t_sites f11_a) (Z.to_nat (m_site m))) /\
  exists oa ob, sorter_run Qmerge true None f11_a = Ok oa /\ sorter_run Qmerge true None f11_b = Ok ob /\
                map s_anc (t_sites oa) = [[65]; [67]] /\ map s_anc (t_sites ob) = [[67]; [65]].
Proof.
  split; [apply perm_swap|]. split.
  - intros m [<-|[<-|[]]].
    + exists (mkMut 1 0 (-1) None [84] []). split; [simpl; auto | split; reflexivity].
    + exists (mkMut 0 0 (-1) None [71] []). split; [simpl; auto | split; reflexivity].
  - eexists; eexists. split; [vm_compute; reflexivity|]. split; [vm_compute; reflexivity|].
    split; reflexivity.
Qed.

(* the canonical mutation comparator falls back to the row id when parents are not the
   nearest mutation above (here: not computed yet) *)
Definition mtie_a : tables :=
  mkTables 10 f11_nodes [] [] [0] [mkSite 5 [65] []]
    [mkMut 0 0 (-1) None [84] [1]; mkMut 0 0 (-1) None [71] [2]] [] [] [0] [] [] None.
Definition mtie_b : tables :=
  mkTables 10 f11_nodes [] [] [0] [mkSite 5 [65] []]
    [mkMut 0 0 (-1) None [71] [2]; mkMut 0 0 (-1) None [84] [1]] [] [] [0] [] [] None.

Theorem canonicalise_mutation_tie_refuted_proof :
  Permutation (t_muts mtie_a) (t_muts mtie_b) /\
  exists oa ob, sorter_run Qmerge true None mtie_a = Ok oa /\ sorter_run Qmerge true None mtie_b = Ok ob /\
                t_muts oa <> t_muts ob.
Proof.
  split; [apply perm_swap|]. eexists; eexists.
  split; [vm_compute; reflexivity|]. split; [vm_compute; reflexivity|]. discriminate.
Qed.

(* ---------------------------------------------------------------------- *)
(* sort(edge_start > 0) with edge metadata corrupts the metadata column     *)
(* ---------------------------------------------------------------------- *)
Definition es_mds : list (list Z) := [[97; 97; 97; 97]; [99; 99]; [98]].
Definition es_tables : tables :=
  mkTables 10
    [mkNode 1 0 (-1) (-1) []; mkNode 1 0 (-1) (-1) []; mkNode 0 1 (-1) (-1) []; mkNode 0 2 (-1) (-1) []]
    [mkE 0 10 2 0; mkE 0 10 3 2; mkE 0 10 2 1]
    (concat es_mds) (offsets_of 0 es_mds) [] [] [] [] [0] [] [] None.

(* The PINNED code (before "fix: sort with edge_start > 0 keeps the metadata of the unsorted
   prefix", /repo bd01493) restarted the copy-back at offset 0 whatever [start] was.  This is
   that variant of tsk_table_sorter_sort_edges, kept only to record the defect; Model.sort_edges
   is the repaired function (PartialProofs.sort_edges_start_spec). *)
Definition sort_edges_pinned (Q : qsorts) (start : Z) (t : tables) : res tables :=
  let edges := t_edges t in
  let s := Z.to_nat start in
  let rest := skipn s edges in
  do spans <- spans_from (t_eoff t) start (length rest);
  do recs <- mapM (fun rs : erow * (Z * Z) =>
                     do tm <- get (map n_time (t_nodes t)) (e_parent (fst rs));
                     Ok (mkES (fst rs) tm (fst (snd rs)) (snd (snd rs))))
                  (combine rest spans);
  let sorted := qs_edge Q recs in
  do r <- copy_back (t_emd t) (map (fun e => (es_off e, es_len e)) sorted) 0 (t_emd t);
  let off' := firstn s (t_eoff t) ++ snd r ++ skipn (s + length sorted) (t_eoff t) in
  Ok (set_edges t (firstn s edges ++ map es_row sorted) (fst r) off').

(* pinned: the row before edge_start loses its metadata "aaaa" and the last row receives bytes
   of other rows; repaired: the prefix row is untouched and the two sorted rows keep theirs *)
Theorem sort_edge_start_metadata_pinned_refuted_proof :
  check_refs es_tables = true /\ edges_wf es_tables es_mds /\
  edge_rows es_tables = Ok [(mkE 0 10 2 0, [97; 97; 97; 97]); (mkE 0 10 3 2, [99; 99]); (mkE 0 10 2 1, [98])] /\
  (exists t', sort_edges_pinned Qmerge 1 es_tables = Ok t' /\
     edge_rows t' = Ok [(mkE 0 10 2 0, []); (mkE 0 10 2 1, [98]); (mkE 0 10 3 2, [99; 99; 97; 99; 99; 98])]) /\
  (exists t', py_sort Qmerge 1 0 0 es_tables = Ok t' /\
     edge_rows t' = Ok [(mkE 0 10 2 0, [97; 97; 97; 97]); (mkE 0 10 2 1, [98]); (mkE 0 10 3 2, [99; 99])]).
Proof.
  split; [reflexivity|]. split; [repeat split; reflexivity|]. split; [vm_compute; reflexivity|].
  split; eexists; (split; [vm_compute; reflexivity|]); vm_compute; reflexivity.
Qed.

(* ---------------------------------------------------------------------- *)
(* sort() does not move a parent mutation before its child when times are    *)
(* unknown: the repair pipeline then fails                                    *)
(* ---------------------------------------------------------------------- *)
(* node 0 below node 1; site at 5 with the mutation on node 0 (child, parent = row 1)
   listed before the mutation on node 1 (its parent) *)
Definition ro_tables : tables :=
  mkTables 10
    [mkNode 1 0 (-1) (-1) []; mkNode 0 1 (-1) (-1) []]
    [mkE 0 10 1 0] [] [0; 0]
    [mkSite 5 [65] []]
    [mkMut 0 0 1 None [84] []; mkMut 0 1 (-1) None [67] []]
    [] [] [0] [] [] None.

Theorem repair_mutation_order_refuted_proof :
  check_refs ro_tables = true /\
  repair Qmerge ro_tables = Err E_MUTATION_PARENT_AFTER_CHILD.
Proof. split; vm_compute; reflexivity. Qed.

(* ---------------------------------------------------------------------- *)
(* ties: two admissible qsorts give different outputs                        *)
(* ---------------------------------------------------------------------- *)
Lemma Qmerge_rev_ok : qsorts_ok Qmerge_rev.
Proof.
  destruct Qmerge_ok as (A & B & C & D & E & F & G).
  repeat split; simpl;
    try (eapply Permutation_trans; [apply Permutation_rev|]);
    first [ apply A | apply B | apply C | apply D | apply E | apply F | apply G ].
Qed.

(* two migrations equal on (time, source, dest, left, node), different right *)
Definition gt_gds : list (list Z) := [[]; []].
Definition gt_tables : tables :=
  mkTables 10 [mkNode 1 0 0 (-1) []] [] [] [0] [] []
    [mkG 0 5 0 0 1 1; mkG 0 10 0 0 1 1] (concat gt_gds) (offsets_of 0 gt_gds) [] [[]; []] None.

Theorem sort_migration_tie_refuted_proof :
  qsorts_ok Qmerge /\ qsorts_ok Qmerge_rev /\ check_refs gt_tables = true /\
  exists a b, table_sort Qmerge None gt_tables = Ok a /\ table_sort Qmerge_rev None gt_tables = Ok b /\
              t_migs a <> t_migs b.
Proof.
  split; [apply Qmerge_ok|]. split; [apply Qmerge_rev_ok|]. split; [reflexivity|].
  eexists; eexists. split; [vm_compute; reflexivity|]. split; [vm_compute; reflexivity|]. discriminate.
Qed.
