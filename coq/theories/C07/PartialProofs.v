(* C07 — sort(edge_start = k): on an edge table WITHOUT metadata the rows before k are
   untouched and the rows from k on are a sorted permutation of the old ones (with metadata the
   copy-back is wrong: Refuted.v); and the (site_start, mutation_start) = (len, len) form leaves
   sites and mutations untouched. *)
From Coq Require Import List ZArith Bool Lia Permutation Sorted.
From TskVerif Require Import Base.Common C07.Model C07.ListLemmas C07.CmpLemmas C07.SortProofs
     C07.RaggedProofs C07.TopProofs C07.IdemProofs.
Import ListNotations.
Open Scope Z_scope.

Lemma get_repeat {A} (x : A) m k : 0 <= k < Z.of_nat m -> get (repeat x m) k = Ok x.
Proof.
  intro H. apply get_nth_error. split; [lia|]. apply nth_error_repeat. lia.
Qed.

Lemma spans_from_zeros m : forall len k, 0 <= k -> k + Z.of_nat len < Z.of_nat m ->
  spans_from (repeat 0 m) k len = Ok (repeat (0, 0) len).
Proof.
  induction len as [|len IH]; intros k K0 Kn; simpl; auto.
  rewrite !get_repeat by lia. simpl. rewrite IH by lia. reflexivity.
Qed.

Lemma copy_back_zeros len : copy_back [] (repeat (0, 0) len) 0 [] = Ok ([], repeat 0 len).
Proof.
  induction len; simpl; auto. unfold slice, write_at. simpl. rewrite IHlen. reflexivity.
Qed.

Lemma map_const {A B} (f : A -> B) (c : B) l : (forall x, In x l -> f x = c) -> map f l = repeat c (length l).
Proof. induction l; simpl; intro H; auto. rewrite H by now left. f_equal. apply IHl. intros; apply H; now right. Qed.

Lemma firstn_repeat' {A} (x : A) a b : firstn a (repeat x (a + b)) = repeat x a.
Proof. rewrite repeat_app. rewrite <- (repeat_length x a) at 1. apply firstn_app_exact. Qed.
Lemma skipn_repeat' {A} (x : A) a b : skipn a (repeat x (a + b)) = repeat x b.
Proof. rewrite repeat_app. rewrite <- (repeat_length x a) at 1. apply skipn_app_exact. Qed.

Lemma skipn_In' {A} (l : list A) n x : In x (skipn n l) -> In x l.
Proof. intro H. rewrite <- (firstn_skipn n l). apply in_or_app. now right. Qed.

Section WithQ.
  Variable Q : qsorts.
  Hypothesis HQ : qsorts_ok Q.

  (* 6904 with an arbitrary start, no edge metadata *)
  Theorem sort_edges_start_no_metadata t start :
    t_emd t = [] -> t_eoff t = repeat 0 (S (length (t_edges t))) ->
    0 <= start <= zlen (t_edges t) ->
    (forall e, In e (t_edges t) -> 0 <= e_parent e < zlen (t_nodes t)) ->
    exists es',
      sort_edges Q start t = Ok (set_edges t (firstn (Z.to_nat start) (t_edges t) ++ es') [] (t_eoff t)) /\
      Permutation (skipn (Z.to_nat start) (t_edges t)) es' /\
      Sorted (edge_le (map n_time (t_nodes t))) es'.
  Proof.
    intros Emd Eoff Rs RG. unfold sort_edges.
    set (s := Z.to_nat start). set (rest := skipn s (t_edges t)).
    set (time := map n_time (t_nodes t)).
    assert (Ls : (s + length rest = length (t_edges t))%nat).
    { unfold rest. rewrite skipn_length. unfold zlen in Rs. lia. }
    rewrite Eoff, Emd. rewrite spans_from_zeros by (unfold zlen in *; lia). simpl.
    set (g := fun rs : erow * (Z * Z) =>
                mkES (fst rs) (val 0 (get time (e_parent (fst rs)))) (fst (snd rs)) (snd (snd rs))).
    rewrite (mapM_eq_map _ g).
    2:{ intros [e sp] Hin. simpl. apply in_combine_l in Hin.
        assert (In e (t_edges t)) by (unfold rest in Hin; eapply skipn_In'; eauto).
        destruct (RG e H) as [R1 R2].
        destruct (get_ok_iff time (e_parent e)) as [_ G].
        destruct G as [tm G]; [unfold time, zlen in *; rewrite map_length; lia|].
        unfold g. simpl. fold time. rewrite G. reflexivity. }
    simpl. set (recs := map g (combine rest (repeat (0, 0) (length rest)))).
    set (sorted := qs_edge Q recs). destruct (HQ_edge Q HQ recs) as [P Sd]. fold sorted in P, Sd.
    assert (Zero : forall e, In e sorted -> (es_off e, es_len e) = (0, 0)).
    { intros e He. assert (In e recs) by (eapply Permutation_in; [symmetry; eauto | auto]).
      unfold recs in H. apply in_map_iff in H as ([r sp] & <- & Hin). apply in_combine_r in Hin.
      apply repeat_spec in Hin. subst sp. reflexivity. }
    rewrite (map_const (fun e => (es_off e, es_len e)) (0, 0) sorted Zero).
    rewrite copy_back_zeros. simpl.
    assert (Lsorted : length sorted = length rest).
    { rewrite <- (Permutation_length P). unfold recs. rewrite map_length, combine_length, repeat_length. lia. }
    exists (map es_row sorted). split; [|split].
    - f_equal. unfold set_edges. f_equal.
      change (0 :: repeat 0 (length (t_edges t))) with (repeat 0 (S (length (t_edges t)))).
      replace (S (length (t_edges t))) with (s + (length rest + 1))%nat by lia.
      rewrite firstn_repeat'. rewrite Lsorted.
      replace (s + (length rest + 1))%nat with ((s + length rest) + 1)%nat by lia.
      rewrite skipn_repeat'. rewrite <- !repeat_app. f_equal. lia.
    - assert (E : map es_row recs = rest).
      { unfold recs. rewrite map_map. simpl.
        transitivity (map fst (combine rest (repeat (0, 0) (length rest)))).
        - apply map_ext. intros [e sp]. reflexivity.
        - apply map_fst_combine. now rewrite repeat_length. }
      rewrite <- E. now apply Permutation_map.
    - apply Sorted_map_iff. eapply Sorted_impl_in; [|exact Sd].
      intros a b Ha Hb Hab. apply cmp_edge_le in Hab.
      assert (Tm : forall e, In e sorted -> es_time e = val 0 (get time (e_parent (es_row e)))).
      { intros e He. assert (In e recs) by (eapply Permutation_in; [symmetry; eauto | auto]).
        unfold recs in H. apply in_map_iff in H as (x & <- & _). reflexivity. }
      unfold edge_le, edge_key. fold time. rewrite <- (Tm a Ha), <- (Tm b Hb). exact Hab.
  Qed.
End WithQ.

(* the sorters only write their own table *)
Lemma sort_edges_frame Q s t t1 :
  sort_edges Q s t = Ok t1 -> t1 = set_edges t (t_edges t1) (t_emd t1) (t_eoff t1).
Proof.
  unfold sort_edges. intro H.
  destruct (spans_from _ _ _); simpl in H; try discriminate.
  destruct (mapM _ _); simpl in H; try discriminate.
  destruct (copy_back _ _ _ _); simpl in H; try discriminate.
  inversion H. reflexivity.
Qed.

Lemma sort_migrations_frame Q s t t1 :
  sort_migrations Q s t = Ok t1 -> t1 = set_migs t (t_migs t1) (t_gmd t1) (t_goff t1).
Proof.
  unfold sort_migrations. intro H.
  destruct (spans_from _ _ _); simpl in H; try discriminate.
  destruct (copy_back _ _ _ _); simpl in H; try discriminate.
  inversion H. reflexivity.
Qed.

(* sort(edge_start, site_start = len(sites), mutation_start = len(mutations)): sites and
   mutations (and nodes, individuals, populations) are returned untouched, whatever happens
   to edges and migrations *)
Theorem sort_skip_sites_untouched_proof Q es t t' :
  py_sort Q es (zlen (t_sites t)) (zlen (t_muts t)) t = Ok t' ->
  t_sites t' = t_sites t /\ t_muts t' = t_muts t /\ same_nodes_inds_pops t t'.
Proof.
  unfold py_sort, table_sort. destruct (check_refs t); [|discriminate].
  unfold sorter_run. cbn [bm_edges bm_migrations bm_sites bm_mutations].
  destruct ((es <? 0) || (zlen (t_edges t) <? es)); [discriminate|].
  replace ((0 <? 0) || (zlen (t_migs t) <? 0)) with false
    by (symmetry; apply orb_false_iff; split; [reflexivity | apply Z.ltb_ge; apply zlen_nonneg]).
  rewrite !Z.eqb_refl. cbn [andb negb].
  destruct (sort_edges Q es (set_index t None)) as [t1| | |] eqn:E1; simpl; try discriminate.
  pose proof (sort_edges_frame _ _ _ _ E1) as F1.
  destruct (0 <? zlen (t_migs t1)).
  - destruct (sort_migrations Q 0 t1) as [t2| | |] eqn:E2; simpl; try discriminate.
    pose proof (sort_migrations_frame _ _ _ _ E2) as F2.
    intro H; inversion H; subst t'. rewrite F2, F1. unfold same_nodes_inds_pops. simpl. repeat split; reflexivity.
  - intro H; inversion H; subst t'. rewrite F1. unfold same_nodes_inds_pops. simpl. repeat split; reflexivity.
Qed.
