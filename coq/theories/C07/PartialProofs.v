(* C07 — sort(edge_start = k): on an edge table WITHOUT metadata the rows before k are
   untouched and the rows from k on are a sorted permutation of the old ones (with metadata the
   copy-back is wrong: Refuted.v); and the (site_start, mutation_start) = (len, len) form leaves
   sites and mutations untouched. *)
From Coq Require Import List ZArith Bool Lia Permutation Sorted.
From TskVerif Require Import Base.Common C07.Model C07.ListLemmas C07.CmpLemmas C07.SortProofs
     C07.RaggedProofs C07.TopProofs C07.IdemProofs.
Import ListNotations.
Open Scope Z_scope.

Lemma offsets_of_app a x y :
  offsets_of a (x ++ y) = starts a x ++ offsets_of (a + zlen (concat x)) y.
Proof.
  revert a; induction x as [|r t IH]; intro a; simpl.
  - change (zlen (@nil Z)) with 0. now rewrite Z.add_0_r.
  - rewrite IH, zlen_app.
    replace (a + zlen r + zlen (concat t)) with (a + (zlen r + zlen (concat t))) by lia. reflexivity.
Qed.

Lemma skipn_In' {A} (l : list A) n x : In x (skipn n l) -> In x l.
Proof. intro H. rewrite <- (firstn_skipn n l). apply in_or_app. now right. Qed.

Lemma skipn_offsets_last_at a mds n : n = length mds ->
  skipn n (offsets_of a mds) = [a + zlen (concat mds)].
Proof.
  intros ->. rewrite offsets_of_starts. rewrite <- (starts_length a mds), skipn_app_exact. reflexivity.
Qed.

Section WithQ.
  Variable Q : qsorts.
  Hypothesis HQ : qsorts_ok Q.

  (* 6904 with an arbitrary start, with metadata (after the fix of the copy-back offset) *)
  Theorem sort_edges_start_spec t mds start :
    edges_wf t mds -> 0 <= start <= zlen (t_edges t) ->
    (forall e, In e (t_edges t) -> 0 <= e_parent e < zlen (t_nodes t)) ->
    let s := Z.to_nat start in
    exists es' mds',
      sort_edges Q start t
        = Ok (set_edges t (firstn s (t_edges t) ++ es') (concat (firstn s mds ++ mds'))
                        (offsets_of 0 (firstn s mds ++ mds'))) /\
      length mds' = length es' /\
      Permutation (combine (skipn s (t_edges t)) (skipn s mds)) (combine es' mds') /\
      Sorted (edge_le (map n_time (t_nodes t))) es'.
  Proof.
    intros (E1 & E2 & L) Rs RG s. unfold sort_edges. fold s.
    set (pre := firstn s mds). set (suf := skipn s mds). set (A := concat pre).
    set (rest := skipn s (t_edges t)). set (time := map n_time (t_nodes t)).
    assert (Emds : mds = pre ++ suf) by (symmetry; apply firstn_skipn).
    assert (Lpre : length pre = s).
    { unfold pre. rewrite firstn_length. unfold zlen in Rs. lia. }
    assert (Lsuf : length rest = length suf).
    { unfold rest, suf. rewrite !skipn_length. lia. }
    assert (Eoff : t_eoff t = starts 0 pre ++ offsets_of (zlen A) suf).
    { rewrite E2. rewrite Emds at 1. rewrite offsets_of_app. reflexivity. }
    assert (Emd : t_emd t = A ++ concat suf).
    { rewrite E1. rewrite Emds at 1. apply concat_app. }
    assert (Zst : zlen (starts 0 pre) = start).
    { unfold zlen. rewrite starts_length, Lpre. unfold s. lia. }
    rewrite Eoff.
    replace (spans_from (starts 0 pre ++ offsets_of (zlen A) suf) start (length rest))
      with (spans_from (starts 0 pre ++ offsets_of (zlen A) suf) (zlen (starts 0 pre)) (length suf))
      by (rewrite Zst, Lsuf; reflexivity).
    rewrite spans_from_offsets. cbn [bind].
    set (g := fun rs : erow * (Z * Z) =>
                mkES (fst rs) (val 0 (get time (e_parent (fst rs)))) (fst (snd rs)) (snd (snd rs))).
    rewrite (mapM_eq_map _ g).
    2:{ intros [e sp] Hin. simpl. apply in_combine_l in Hin.
        assert (In e (t_edges t)) by (unfold rest in Hin; eapply skipn_In'; eauto).
        destruct (RG e H) as [R1 R2].
        destruct (get_ok_iff time (e_parent e)) as [_ G].
        destruct G as [tm G]; [unfold time, zlen in *; rewrite map_length; lia|].
        unfold g. simpl. fold time. rewrite G. reflexivity. }
    cbn [bind]. set (recs := map g (combine rest (spans_of (zlen A) suf))).
    set (sorted := qs_edge Q recs). destruct (HQ_edge Q HQ recs) as [P Sd]. fold sorted in P, Sd.
    (* the copy-back starts at metadata_offset[start] = |A| *)
    assert (G0 : get (starts 0 pre ++ offsets_of (zlen A) suf) start = Ok (zlen A)).
    { destruct (offsets_of_head (zlen A) suf) as [tl Eh]. rewrite Eh, <- Zst. apply get_app_mid. }
    rewrite G0. cbn [bind].
    assert (F : Forall2 (fun x e => es_row e = fst x /\ slice (t_emd t) (es_off e) (es_len e) = Ok (snd x))
                        (combine rest suf) recs).
    { pose proof (slices_of_spans suf A []) as Sl. rewrite app_nil_r in Sl. rewrite <- Emd in Sl.
      unfold recs. clear - Sl Lsuf. revert Lsuf. generalize rest as es.
      induction Sl as [|sp r sps rs H F IH]; intros [|e es] L; simpl in *; try discriminate; constructor; auto. }
    destruct (ragged_sort_core_at es_row es_off es_len (t_emd t) A suf rest recs sorted Emd Lsuf F P)
      as (mds' & CB & Pm & Lm & Lz & Em & _ & _).
    rewrite CB. cbn [bind fst snd].
    exists (map es_row sorted), mds'. split; [|split; [|split]].
    - f_equal. unfold set_edges. f_equal.
      + unfold A. rewrite concat_app. reflexivity.
      + assert (Ls : length sorted = length suf).
        { rewrite <- (Permutation_length P). unfold recs.
          rewrite map_length, combine_length, spans_of_length. lia. }
        rewrite <- Lpre at 1. rewrite <- (starts_length 0 pre) at 1. rewrite firstn_app_exact.
        replace (s + length sorted)%nat with (length (starts 0 pre) + length suf)%nat
          by (rewrite starts_length; lia).
        rewrite skipn_app. rewrite skipn_all2 by lia.
        replace (length (starts 0 pre) + length suf - length (starts 0 pre))%nat with (length suf) by lia.
        rewrite (skipn_offsets_last_at (zlen A) suf (length suf) eq_refl). simpl.
        rewrite offsets_of_app. fold A. rewrite (offsets_of_starts (0 + zlen A) mds').
        rewrite Z.add_0_l, Lz. reflexivity.
    - now rewrite map_length.
    - exact Pm.
    - apply Sorted_map_iff. eapply Sorted_impl_in; [|exact Sd].
      intros a b Ha Hb Hab. apply cmp_edge_le in Hab.
      assert (Tm : forall e, In e sorted -> es_time e = val 0 (get time (e_parent (es_row e)))).
      { intros e He. assert (In e recs) by (eapply Permutation_in; [symmetry; eauto | auto]).
        unfold recs in H. apply in_map_iff in H as (x & <- & _). reflexivity. }
      unfold edge_le, edge_key. fold time. rewrite <- (Tm a Ha), <- (Tm b Hb). exact Hab.
  Qed.
End WithQ.

(* the sorters only write their own table *)
Lemma sort_edges_frame Q s t t1 :
  sort_edges Q s t = Ok t1 -> t1 = set_edges t (t_edges t1) (t_emd t1) (t_eoff t1).
Proof.
  unfold sort_edges. intro H.
  destruct (spans_from _ _ _); simpl in H; try discriminate.
  destruct (mapM _ _); simpl in H; try discriminate.
  destruct (get (t_eoff t) s); simpl in H; try discriminate.
  destruct (copy_back _ _ _ _); simpl in H; try discriminate.
  inversion H. reflexivity.
Qed.

Lemma sort_migrations_frame Q s t t1 :
  sort_migrations Q s t = Ok t1 -> t1 = set_migs t (t_migs t1) (t_gmd t1) (t_goff t1).
Proof.
  unfold sort_migrations. intro H.
  destruct (spans_from _ _ _); simpl in H; try discriminate.
  destruct (get (t_goff t) s); simpl in H; try discriminate.
  destruct (copy_back _ _ _ _); simpl in H; try discriminate.
  inversion H. reflexivity.
Qed.

(* sort(edge_start, site_start = len(sites), mutation_start = len(mutations)): sites and
   mutations (and nodes, individuals, populations) are returned untouched, whatever happens
   to edges and migrations *)
Theorem sort_skip_sites_untouched_proof Q es t t' :
  py_sort Q es (zlen (t_sites t)) (zlen (t_muts t)) t = Ok t' ->
  t_sites t' = t_sites t /\ t_muts t' = t_muts t /\ same_nodes_inds_pops t t'.
Proof.
  unfold py_sort, table_sort. destruct (check_refs t); [|discriminate].
  unfold sorter_run. cbn [bm_edges bm_migrations bm_sites bm_mutations].
  destruct ((es <? 0) || (zlen (t_edges t) <? es)); [discriminate|].
  replace ((0 <? 0) || (zlen (t_migs t) <? 0)) with false
    by (symmetry; apply orb_false_iff; split; [reflexivity | apply Z.ltb_ge; apply zlen_nonneg]).
  rewrite !Z.eqb_refl. cbn [andb negb].
  destruct (sort_edges Q es (set_index t None)) as [t1| | |] eqn:E1; simpl; try discriminate.
  pose proof (sort_edges_frame _ _ _ _ E1) as F1.
  destruct (0 <? zlen (t_migs t1)).
  - destruct (sort_migrations Q 0 t1) as [t2| | |] eqn:E2; simpl; try discriminate.
    pose proof (sort_migrations_frame _ _ _ _ E2) as F2.
    intro H; inversion H; subst t'. rewrite F2, F1. unfold same_nodes_inds_pops. simpl. repeat split; reflexivity.
  - intro H; inversion H; subst t'. rewrite F1. unfold same_nodes_inds_pops. simpl. repeat split; reflexivity.
Qed.
