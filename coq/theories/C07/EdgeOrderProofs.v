(* C07 — the TSK_CHECK_EDGE_ORDERING loop (tables.c 10537-10571, as modelled by
   [edge_order_loop]) accepts every edge table that is sorted by the sort() comparator and has
   no two rows with the same key: so build_index succeeds on the output of sort(). *)
From Coq Require Import List ZArith Bool Lia Permutation Sorted.
From TskVerif Require Import Base.Common C07.Model C07.ListLemmas C07.CmpLemmas C07.SortProofs
     C07.RaggedProofs C07.TopProofs C07.IdemProofs.
Import ListNotations.
Open Scope Z_scope.

Definition tm (time : list Z) (v : Z) : Z := val 0 (get time v).

(* (time, id) of a parent, lexicographically *)
Definition plt (time : list Z) (a b : Z) : Prop := tm time a < tm time b \/ (tm time a = tm time b /\ a < b).

Lemma set_bool_spec (l : list bool) i x :
  0 <= i < zlen l -> exists l', set l i x = Ok l' /\ zlen l' = zlen l /\ get l' i = Ok x /\
                                (forall k, k <> i -> get l' k = get l k).
Proof.
  intro R. destruct (set_spec l i x R) as (l' & E & L & G & O). exists l'. repeat split; auto.
  unfold zlen. now rewrite L.
Qed.

Lemma edge_order_loop_sorted time : forall l seen le,
  (forall e, In e (le :: l) -> 0 <= e_parent e < zlen time) -> zlen seen = zlen time ->
  StronglySorted (edge_le time) (le :: l) ->
  NoDup (map (edge_key time) (le :: l)) ->
  (forall q b, get seen q = Ok b -> b = true -> plt time q (e_parent le)) ->
  edge_order_loop time seen (Some le) l = Ok true.
Proof.
  induction l as [|e tl IH]; intros seen le Rg Zs SS ND Inv; simpl; auto.
  inversion SS as [|x1 x2 SS' Fa]; subst x1 x2. rewrite Forall_forall in Fa.
  assert (NDt : NoDup (map (edge_key time) (e :: tl))) by (inversion ND; auto).
  assert (Kd : edge_key time le <> edge_key time e).
  { inversion ND as [|x1 x2 Nin ND']. intro E. apply Nin. rewrite E. simpl. now left. }
  assert (Re : 0 <= e_parent e < zlen time) by (apply Rg; right; now left).
  assert (Rl : 0 <= e_parent le < zlen time) by (apply Rg; now left).
  destruct (get_ok_iff seen (e_parent e)) as [_ Gs]. destruct Gs as [sp Gs]; [now rewrite Zs|].
  destruct (get_ok_iff time (e_parent e)) as [_ Gt]. destruct (Gt Re) as [tp Gtp].
  destruct (get_ok_iff time (e_parent le)) as [_ Gt']. destruct (Gt' Rl) as [tl_ Gtl].
  assert (Tp : tm time (e_parent e) = tp) by (unfold tm; now rewrite Gtp).
  assert (Tl : tm time (e_parent le) = tl_) by (unfold tm; now rewrite Gtl).
  (* le <= e in the sort order, and their keys differ *)
  pose proof (Fa e (or_introl eq_refl)) as Le. unfold edge_le, edge_key in Le. simpl in Le.
  fold (tm time (e_parent le)) in Le. fold (tm time (e_parent e)) in Le. rewrite Tp, Tl in Le.
  unfold edge_key in Kd. fold (tm time (e_parent le)) in Kd. fold (tm time (e_parent e)) in Kd.
  rewrite Tp, Tl in Kd.
  rewrite Gs. simpl.
  assert (sp = false).
  { destruct sp; auto. exfalso. specialize (Inv _ _ Gs eq_refl). unfold plt in Inv. rewrite Tp, Tl in Inv. lia. }
  subst sp. rewrite Gtp. simpl. rewrite Gtl. simpl.
  assert (Rt : forall x, In x (e :: tl) -> 0 <= e_parent x < zlen time) by (intros; apply Rg; now right).
  destruct (tp <? tl_) eqn:C1; [apply Z.ltb_lt in C1; lia|]. apply Z.ltb_ge in C1.
  destruct (tp =? tl_) eqn:C2.
  - apply Z.eqb_eq in C2.
    destruct (e_parent e =? e_parent le) eqn:C3.
    + apply Z.eqb_eq in C3.
      destruct (e_child e <? e_child le) eqn:C4; [apply Z.ltb_lt in C4; lia|]. apply Z.ltb_ge in C4.
      destruct ((e_child e =? e_child le) && (e_left e <=? e_left le)) eqn:C5.
      * exfalso. apply andb_true_iff in C5 as [C5 C6]. apply Z.eqb_eq in C5. apply Z.leb_le in C6.
        apply Kd. f_equal; [lia|]. f_equal; [lia|]. f_equal; [lia|]. f_equal. lia.
      * apply IH; auto.
        intros q b G Hb. specialize (Inv q b G Hb). rewrite C3. exact Inv.
    + apply Z.eqb_neq in C3.
      destruct (set_bool_spec seen (e_parent le) true) as (seen' & Es & Zs' & Gs' & Os); [now rewrite Zs|].
      rewrite Es. simpl. apply IH; auto; [congruence|].
      intros q b G Hb. unfold plt. rewrite Tp.
      destruct (Z.eq_dec q (e_parent le)) as [->|N].
      * rewrite Tl. lia.
      * rewrite Os in G by auto. specialize (Inv q b G Hb). unfold plt in Inv. rewrite Tl in Inv. lia.
  - apply Z.eqb_neq in C2. apply IH; auto.
    intros q b G Hb. specialize (Inv q b G Hb). unfold plt in *. rewrite Tp, Tl in *. lia.
Qed.

Lemma get_repeat' {A} (x : A) m k : 0 <= k < Z.of_nat m -> get (repeat x m) k = Ok x.
Proof. intro H. apply get_nth_error. split; [lia|]. apply nth_error_repeat. lia. Qed.

Lemma edge_le_trans time a b c : edge_le time a b -> edge_le time b c -> edge_le time a c.
Proof. unfold edge_le. apply lex_le_trans; reflexivity. Qed.

Theorem edge_order_accepts_sorted time edges :
  (forall e, In e edges -> 0 <= e_parent e < zlen time) ->
  Sorted (edge_le time) edges -> NoDup (map (edge_key time) edges) ->
  edge_order_loop time (repeat false (Z.to_nat (zlen time))) None edges = Ok true.
Proof.
  intros Rg S ND. destruct edges as [|e tl]; simpl; auto.
  assert (Re : 0 <= e_parent e < zlen time) by (apply Rg; now left).
  assert (Zr : zlen (repeat false (Z.to_nat (zlen time))) = zlen time).
  { unfold zlen. rewrite repeat_length. lia. }
  rewrite get_repeat' by (unfold zlen in *; lia). simpl.
  destruct (get_ok_iff time (e_parent e)) as [_ Gt]. destruct (Gt Re) as [tp Gtp]. rewrite Gtp. simpl.
  apply edge_order_loop_sorted; auto.
  - apply Sorted_StronglySorted; auto. intros a b c. apply edge_le_trans.
  - intros q b G Hb. exfalso. apply get_in in G. apply repeat_spec in G. congruence.
Qed.
