(* C07 — non-vacuity: concrete inputs that meet the hypotheses of the theorems of
   Props/C07.v and on which the model does something visible. *)
From Coq Require Import List ZArith Bool Lia Permutation Sorted.
From TskVerif Require Import Base.Common C07.Model C07.ListLemmas C07.CmpLemmas C07.SortProofs
     C07.RaggedProofs C07.TopProofs.
Import ListNotations.
Open Scope Z_scope.

(* 5 nodes (times 0 0 1 2 2), 4 shuffled edges with metadata, two sites sharing position 4
   plus one at 2, four mutations (a parent chain on node 0 listed child first), two
   migrations out of time order. *)
Definition ex_mds : list (list Z) := [[97; 97]; []; [98]; [99; 99; 99]].
Definition ex_gds : list (list Z) := [[7]; [8; 9]].
Definition ex_tables : tables :=
  mkTables 10
    [mkNode 1 0 0 (-1) []; mkNode 1 0 0 (-1) [1]; mkNode 0 1 0 (-1) []; mkNode 0 2 1 (-1) []; mkNode 0 2 (-1) (-1) []]
    [mkE 0 10 3 2; mkE 5 10 2 1; mkE 0 10 2 0; mkE 0 5 4 1]
    (concat ex_mds) (offsets_of 0 ex_mds)
    [mkSite 4 [65] [1]; mkSite 2 [67] []; mkSite 4 [71] [2]]
    [mkMut 2 0 2 (Some 0) [84] []; mkMut 0 2 (-1) (Some 1) [65] [5]; mkMut 2 0 (-1) (Some 1) [67] [];
     mkMut 1 1 (-1) None [71] []]
    [mkG 0 10 1 0 1 3; mkG 0 5 0 1 0 1]
    (concat ex_gds) (offsets_of 0 ex_gds)
    [mkInd 0 [] [] []] [[1]; [2]] None.

Example ex_meets_hypotheses :
  check_refs ex_tables = true /\ edges_wf ex_tables ex_mds /\ migs_wf ex_tables ex_gds.
Proof. repeat split; reflexivity. Qed.

(* the sort really moves rows, remaps site 2 -> 2, site 0 -> 1, site 1 -> 0 and the parent *)
Example ex_sorted :
  option_map (fun t => (t_edges t, map m_site (t_muts t), map m_parent (t_muts t), map s_pos (t_sites t)))
             (match table_sort Qmerge None ex_tables with Ok t => Some t | _ => None end)
  = Some ([mkE 0 10 2 0; mkE 5 10 2 1; mkE 0 10 3 2; mkE 0 5 4 1], [0; 1; 2; 2], [-1; -1; -1; 2], [2; 4; 4]).
Proof. vm_compute. reflexivity. Qed.
