(* C07 — non-vacuity: concrete inputs that meet the hypotheses of the theorems of
   Props/C07.v and on which the model does something visible. *)
From Coq Require Import List ZArith Bool Lia Permutation Sorted.
From TskVerif Require Import Base.Common C07.Model C07.ListLemmas C07.CmpLemmas C07.SortProofs
     C07.RaggedProofs C07.TopProofs.
Import ListNotations.
Open Scope Z_scope.

(* 5 nodes (times 0 0 1 2 2), 4 shuffled edges with metadata, two sites sharing position 4
   plus one at 2, four mutations (a parent chain on node 0 listed child first), two
   migrations out of time order. *)
Definition ex_mds : list (list Z) := [[97; 97]; []; [98]; [99; 99; 99]].
Definition ex_gds : list (list Z) := [[7]; [8; 9]].
Definition ex_tables : tables :=
  mkTables 10
    [mkNode 1 0 0 (-1) []; mkNode 1 0 0 (-1) [1]; mkNode 0 1 0 (-1) []; mkNode 0 2 1 (-1) []; mkNode 0 2 (-1) (-1) []]
    [mkE 0 10 3 2; mkE 5 10 2 1; mkE 0 10 2 0; mkE 0 5 4 1]
    (concat ex_mds) (offsets_of 0 ex_mds)
    [mkSite 4 [65] [1]; mkSite 2 [67] []; mkSite 4 [71] [2]]
    [mkMut 2 0 2 (Some 0) [84] []; mkMut 0 2 (-1) (Some 1) [65] [5]; mkMut 2 0 (-1) (Some 1) [67] [];
     mkMut 1 1 (-1) None [71] []]
    [mkG 0 10 1 0 1 3; mkG 0 5 0 1 0 1]
    (concat ex_gds) (offsets_of 0 ex_gds)
    [mkInd 0 [] [] []] [[1]; [2]] None.

Example ex_meets_hypotheses :
  check_refs ex_tables = true /\ edges_wf ex_tables ex_mds /\ migs_wf ex_tables ex_gds.
Proof. repeat split; reflexivity. Qed.

(* the sort really moves rows, remaps site 2 -> 2, site 0 -> 1, site 1 -> 0 and the parent *)
Example ex_sorted :
  option_map (fun t => (t_edges t, map m_site (t_muts t), map m_parent (t_muts t), map s_pos (t_sites t)))
             (match table_sort Qmerge None ex_tables with Ok t => Some t | _ => None end)
  = Some ([mkE 0 10 2 0; mkE 5 10 2 1; mkE 0 10 3 2; mkE 0 5 4 1], [0; 1; 2; 2], [-1; -1; -1; 2], [2; 4; 4]).
Proof. vm_compute. reflexivity. Qed.

(* ---------------------------------------------------------------------- *)
(* do_site_correct: a chain 0 -> 1 -> 2 (node 2 the root), four mutations of one site with row ids 5..8 in a table of 10 mutations                       *)
(* ---------------------------------------------------------------------- *)
From TskVerif Require Import C07.MutParentsProofs.

Definition ex_parent : list Z := [1; 2; -1].
Definition ex_par (v : Z) : Z := if v =? 0 then 1 else if v =? 1 then 2 else -1.

Example ex_do_site_hypotheses :
  arr_is ex_parent ex_par /\
  (forall v, 0 <= v < zlen ex_parent ->
     ex_par v = NULL \/ (0 <= ex_par v < zlen ex_parent /\ (fun x => x) v < (fun x => x) (ex_par v))) /\
  (forall v, 0 <= v < zlen ex_parent -> (fun x => x) v <= 2) /\
  arr_is (repeat NULL 3) (fun _ => NULL) /\ arr_is (repeat NULL 10) (fun _ => NULL).
Proof.
  assert (C3 : forall v, 0 <= v < 3 -> v = 0 \/ v = 1 \/ v = 2) by (intros; lia).
  split; [|split; [|split; [|split]]].
  - intros v Hv. destruct (C3 v Hv) as [-> | [-> | ->]]; reflexivity.
  - intros v Hv. destruct (C3 v Hv) as [-> | [-> | ->]]; vm_compute;
      first [ now left | right; repeat split; discriminate ].
  - intros v Hv. change (zlen ex_parent) with 3 in Hv. lia.
  - intros v Hv. destruct (C3 v Hv) as [-> | [-> | ->]]; reflexivity.
  - intros v Hv. change (zlen (repeat NULL 10)) with 10 in Hv.
    assert (v = 0 \/ v = 1 \/ v = 2 \/ v = 3 \/ v = 4 \/ v = 5 \/ v = 6 \/ v = 7 \/ v = 8 \/ v = 9) by lia.
    repeat (destruct H as [-> | H]; [reflexivity|]). subst; reflexivity.
Qed.

(* rows 5..8 on nodes 2, 1, 0, 0: the root mutation has no parent; the one on node 1 finds
   the root's; the first on node 0 finds the one on node 1; the second on node 0 takes the
   earlier one on the same node *)
Example ex_do_site_result :
  do_site 4 ex_parent [2; 1; 0; 0] 5 (repeat NULL 3) (repeat NULL 10)
  = Ok (repeat NULL 3, [-1; -1; -1; -1; -1; -1; 5; 6; 7; -1]).
Proof. vm_compute. reflexivity. Qed.

(* a child listed before its parent on another node is reported *)
Example ex_do_site_error :
  do_site 4 ex_parent [2; 0; 0; 1] 5 (repeat NULL 3) (repeat NULL 10) = Err E_MUTATION_PARENT_AFTER_CHILD.
Proof. vm_compute. reflexivity. Qed.

(* the whole mutation loop under one tree: two sites, six mutations *)
Definition ex_muts2 : list mutation :=
  [mkMut 0 2 7 None [] []; mkMut 0 1 7 None [] []; mkMut 0 0 7 None [] []; mkMut 0 0 7 None [] [];
   mkMut 1 1 7 None [] []; mkMut 1 1 7 None [] []].
Example ex_sites_loop :
  sites_loop 4 ex_parent 10 [mkSite 1 [] []; mkSite 3 [] []] 0 ex_muts2 0 (repeat NULL 3) (repeat NULL 6)
  = Ok (([], 2), ([], 6), (repeat NULL 3, [-1; 0; 1; 2; -1; 4])).
Proof. vm_compute. reflexivity. Qed.
Example ex_muts2_sorted : Sorted (fun a b => m_site a <= m_site b) ex_muts2 /\
  site_block ex_muts2 1 = [mkMut 1 1 7 None [] []; mkMut 1 1 7 None [] []] /\ site_first ex_muts2 1 = 4.
Proof. split; [repeat constructor; simpl; lia | split; reflexivity]. Qed.

(* ---------------------------------------------------------------------- *)
(* mutation_parents_nearest: a valid, sorted, indexed table                  *)
(* ---------------------------------------------------------------------- *)
From TskVerif Require Import C07.SweepProofs.

Definition ex_valid : tables :=
  mkTables 10
    [mkNode 1 0 (-1) (-1) []; mkNode 0 1 (-1) (-1) []; mkNode 0 2 (-1) (-1) []]
    [mkE 0 10 1 0; mkE 0 6 2 1] [] [0; 0; 0]
    [mkSite 3 [] []; mkSite 7 [] []]
    ex_muts2
    [] [] [0] [] [] (Some ([0; 1], [1; 0])).

Example ex_valid_for_parents :
  valid_for_parents ex_valid [mkE 0 10 1 0; mkE 0 6 2 1] [mkE 0 6 2 1; mkE 0 10 1 0].
Proof.
  constructor.
  - intros e [<- | [<- | []]]; vm_compute; repeat split; congruence.
  - intros a b [<- | [<- | []]] [<- | [<- | []]] Hc Ho; try reflexivity; vm_compute in Hc; discriminate.
  - exists [0; 1], [1; 0]. split; [reflexivity|]. split; repeat constructor.
  - repeat constructor; simpl; lia.
  - repeat constructor; simpl; lia.
  - intro e; simpl; tauto.
  - intro e; simpl; tauto.
  - repeat constructor; simpl; lia.
  - intros s [<- | [<- | []]]; simpl; lia.
  - repeat constructor; simpl; lia.
  - intros m Hm. simpl in Hm. unfold ex_muts2 in Hm.
    repeat (destruct Hm as [<- | Hm]; [vm_compute; repeat split; congruence|]). destruct Hm.
Qed.

(* site 0 (position 3) is under the chain 0 -> 1 -> 2; at site 1 (position 7) node 1 is a root *)
Example ex_valid_parents :
  option_map (fun t => map m_parent (t_muts t))
             (match compute_mutation_parents ex_valid with Ok t => Some t | _ => None end)
  = Some [-1; 0; 1; 2; -1; 4].
Proof. vm_compute. reflexivity. Qed.

(* partial sort without edge metadata: row 0 stays, rows 1.. are sorted *)
Definition ex_nomd : tables :=
  mkTables 10
    [mkNode 1 0 (-1) (-1) []; mkNode 1 0 (-1) (-1) []; mkNode 0 1 (-1) (-1) []; mkNode 0 2 (-1) (-1) []]
    [mkE 0 10 3 2; mkE 0 10 2 1; mkE 0 10 2 0] [] (repeat 0 4) [] [] [] [] [0] [] [] None.
Example ex_partial_sort :
  t_emd ex_nomd = [] /\ t_eoff ex_nomd = repeat 0 (S (length (t_edges ex_nomd))) /\
  option_map t_edges (match sort_edges Qmerge 1 ex_nomd with Ok t => Some t | _ => None end)
  = Some [mkE 0 10 3 2; mkE 0 10 2 0; mkE 0 10 2 1].
Proof. repeat split; vm_compute; reflexivity. Qed.

(* build_index on the table above recomputes exactly the index used there *)
Example ex_build_index :
  option_map t_index
    (match build_index Qmerge (set_sites_muts (set_index ex_valid None) (t_sites ex_valid)
                                 (map (fun m => mut_set_parent m NULL) ex_muts2))
     with Ok t => Some t | _ => None end)
  = Some (Some ([0; 1], [1; 0])).
Proof. vm_compute. reflexivity. Qed.

(* the pipeline theorem: the shuffled collection [ex_tables] is a consistent input, and
   sort + build_index + compute_mutation_parents succeed on it *)
From TskVerif Require Import C07.IndexProofs C07.PipelineProofs.

Example ex_consistent_input : consistent_input ex_tables.
Proof.
  constructor.
  - intros e [<- | [<- | [<- | [<- | []]]]]; vm_compute; repeat split; congruence.
  - intros a b [<- | [<- | [<- | [<- | []]]]] [<- | [<- | [<- | [<- | []]]]] Hc [O1 O2];
      try reflexivity; vm_compute in Hc, O1, O2; try discriminate; exfalso; auto.
  - intros s [<- | [<- | [<- | []]]]; simpl; lia.
  - intros m [<- | [<- | [<- | [<- | []]]]]; vm_compute; split; congruence.
Qed.

Example ex_pipeline :
  match table_sort Qmerge None ex_tables with
  | Ok t1 => match build_index Qmerge t1 with
             | Ok t2 => match compute_mutation_parents t2 with
                        | Ok t3 => Some (map m_site (t_muts t3), map m_node (t_muts t3), map m_parent (t_muts t3))
                        | _ => None end
             | _ => None end
  | _ => None end
  = Some ([0; 1; 2; 2], [1; 2; 0; 0], [-1; -1; -1; 2]).
Proof. vm_compute. reflexivity. Qed.

(* deduplicate_sites on the sorted example: positions 2, 4, 4 -> 2, 4; the two mutations of the
   second site at position 4 move to the first one *)
Example ex_dedup :
  match table_sort Qmerge None ex_tables with
  | Ok t1 => (check_refs t1, map s_pos (t_sites t1),
              match deduplicate_sites t1 with
              | Ok t2 => Some (map s_pos (t_sites t2), map m_site (t_muts t2))
              | _ => None end)
  | _ => (false, [], None)
  end = (true, [2; 4; 4], Some ([2; 4], [0; 1; 1; 1])).
Proof. vm_compute. reflexivity. Qed.

(* squash: [0,3) [3,5) of (2,0) abut and merge; (2,1) and the later (2,0) piece stay *)
From TskVerif Require Import C07.SquashProofs.
Example ex_squash :
  squash_edges Qmerge [mkE 3 5 2 0; mkE 0 3 2 0; mkE 0 10 2 1; mkE 7 10 2 0]
  = Ok [mkE 0 5 2 0; mkE 7 10 2 0; mkE 0 10 2 1].
Proof. vm_compute. reflexivity. Qed.

(* sort_idempotent / sort_fixed_point_sorted: [ex_tables] has no comparator ties, and sorting
   its sorted form again changes nothing *)
From TskVerif Require Import C07.IdemProofs.
Example ex_no_key_ties : no_key_ties ex_tables.
Proof.
  split; [|split].
  - vm_compute. repeat constructor; simpl; intuition congruence.
  - vm_compute. repeat constructor; simpl; intuition congruence.
  - intros a b Ha Hb. simpl in Ha, Hb.
    repeat (destruct Ha as [<- | Ha]; [repeat (destruct Hb as [<- | Hb]; [vm_compute; intros; auto; try discriminate|]); destruct Hb|]).
    destruct Ha.
Qed.

Example ex_idempotent :
  match table_sort Qmerge None ex_tables with
  | Ok t1 => Some (J_eqb (j_res (table_sort Qmerge None t1)) (j_res (Ok t1)))
  | _ => None end = Some true.
Proof. vm_compute. reflexivity. Qed.

(* sort_individuals: the diploid pedigree of /verif/seeded/C07-1/demo.py (kid, mum, dad, gran
   listed children first; two nodes per individual, so more nodes than individuals) *)
Definition ex_pedigree : tables :=
  mkTables 10
    (flat_map (fun i => [mkNode 0 0 (-1) i []; mkNode 0 0 (-1) i []]) [0; 1; 2; 3])
    [] [] [0] [] [] [] [] [0]
    [mkInd 0 [] [1; 2] [107]; mkInd 0 [] [3; -1] [109]; mkInd 0 [] [-1; -1] [100]; mkInd 0 [] [-1; -1] [103]]
    [] None.
Example ex_sort_individuals :
  option_map (fun t => (map i_md (t_inds t), map i_parents (t_inds t), map n_ind (t_nodes t)))
             (match sort_individuals ex_pedigree with Ok t => Some t | _ => None end)
  = Some ([[103]; [100]; [109]; [107]], [[-1; -1]; [-1; -1]; [0; -1]; [2; 1]], [3; 3; 2; 2; 1; 1; 0; 0]).
Proof. vm_compute. reflexivity. Qed.

(* repair_pipeline: [ex_tables] (shuffled rows, duplicate site position, a child mutation listed
   before its parent but with a strictly older parent time) meets every hypothesis, and the
   pipeline runs to the end *)
From TskVerif Require Import C07.RepairProofs.
Example ex_repair_pipeline :
  match repair Qmerge ex_tables with
  | Ok t => Some (map s_pos (t_sites t), map m_site (t_muts t), map m_node (t_muts t), map m_parent (t_muts t))
  | _ => None end
  = Some ([2; 4], [0; 1; 1; 1], [1; 2; 0; 0], [-1; -1; 1; 2]).
Proof. vm_compute. reflexivity. Qed.

(* sort_row_multiset: the same rows in two orders (edges with metadata, migrations, sites) *)
From TskVerif Require Import C07.RowOrderProofs.
Definition ro_a : tables :=
  mkTables 10 [mkNode 1 0 0 (-1) []; mkNode 1 0 0 (-1) []; mkNode 0 1 0 (-1) []]
    [mkE 0 10 2 1; mkE 0 10 2 0] (concat [[7]; [8; 9]]) (offsets_of 0 [[7]; [8; 9]])
    [mkSite 5 [65] []; mkSite 2 [67] [1]] []
    [mkG 0 10 1 0 1 3; mkG 0 5 0 1 0 1] (concat [[]; [4]]) (offsets_of 0 [[]; [4]]) [] [[]; []] None.
Definition ro_b : tables :=
  mkTables 10 [mkNode 1 0 0 (-1) []; mkNode 1 0 0 (-1) []; mkNode 0 1 0 (-1) []]
    [mkE 0 10 2 0; mkE 0 10 2 1] (concat [[8; 9]; [7]]) (offsets_of 0 [[8; 9]; [7]])
    [mkSite 2 [67] [1]; mkSite 5 [65] []] []
    [mkG 0 5 0 1 0 1; mkG 0 10 1 0 1 3] (concat [[4]; []]) (offsets_of 0 [[4]; []]) [] [[]; []] None.
Example ex_row_multiset :
  Permutation (combine (t_edges ro_a) [[7]; [8; 9]]) (combine (t_edges ro_b) [[8; 9]; [7]]) /\
  Permutation (t_sites ro_a) (t_sites ro_b) /\ ro_a <> ro_b /\
  table_sort Qmerge None ro_a = table_sort Qmerge None ro_b.
Proof.
  split; [apply perm_swap|]. split; [apply perm_swap|]. split; [discriminate|]. vm_compute. reflexivity.
Qed.
