(* C07 — executable model of the sort / repair tools of /repo/c/tskit/tables.c.

   Modelled line by line (line numbers of tables.c at the pinned commit):
     cmp_site 6779, cmp_mutation 6798, cmp_mutation_canonical 6816, cmp_edge 6856,
     cmp_migration 6878, tsk_table_sorter_sort_edges 6904, _sort_migrations 6959,
     _sort_sites 7011, _sort_mutations 7058, _sort_mutations_canonical 7121,
     tsk_table_sorter_run 7453, tsk_table_collection_sort 12216,
     tsk_table_collection_deduplicate_sites 12278,
     tsk_table_collection_compute_mutation_parents 12348,
     cmp_index_sort 10363, tsk_table_collection_build_index 11306,
     edge part of tsk_table_collection_check_edge_integrity 10466 (ordering),
     cmp_edge_cl 13382, tsk_squash_edges 13401, tsk_edge_table_squash 3334.

   Numbers: genome coordinates and times are only compared, so they are Z (the harness
   maps them through a strictly monotone map).  A mutation time is [option Z], [None] =
   TSK_UNKNOWN_TIME.  Edge and migration metadata are kept in the C layout (one byte
   buffer + an offset column) because the sorters copy them with memcpy at computed
   offsets — the row view [edge_rows] is derived and may fail.  Sites, mutations are
   re-added row by row in C (tsk_*_table_add_row on a cleared table), so the row level is
   the faithful level there.

   libc qsort is not modelled: every function takes a record [Q : qsorts] of sorting
   functions, one per element type/comparator; the proofs assume only [qsorts_ok Q]
   (output is a permutation of the input and adjacent elements satisfy cmp <= 0) inside a
   Section.  [Qmerge] instantiates it with the stdlib merge sort for execution. *)
From Coq Require Import List ZArith Bool Lia Permutation Sorted Orders Mergesort.
From TskVerif Require Import Base.Common.
Import ListNotations.
Open Scope Z_scope.

Definition NULL : Z := -1.

(* error classes (the harness maps the TSK_ERR_* identifier of the message to these) *)
Definition E_EDGE_OUT_OF_BOUNDS : Z := 1.
Definition E_MIGRATION_OUT_OF_BOUNDS : Z := 2.
Definition E_SORT_OFFSET_NOT_SUPPORTED : Z := 3.
Definition E_BAD_REF : Z := 4.                 (* any reference check of check_integrity(0) *)
Definition E_UNSORTED_SITES : Z := 5.
Definition E_MUTATION_PARENT_AFTER_CHILD : Z := 6.
Definition E_MUTATION_PARENT_INCONSISTENT : Z := 7.
Definition E_EDGES_NOT_SORTED : Z := 8.        (* any of the TSK_CHECK_EDGE_ORDERING errors *)
Definition E_CANT_PROCESS_EDGES_WITH_METADATA : Z := 9.
Definition E_BAD_EDGES_CONTRADICTORY_CHILDREN : Z := 10.

(* ---------------------------------------------------------------------- *)
(* rows and tables                                                        *)
(* ---------------------------------------------------------------------- *)
Record node := mkNode { n_flags : Z; n_time : Z; n_pop : Z; n_ind : Z; n_md : list Z }.
Record erow := mkE { e_left : Z; e_right : Z; e_parent : Z; e_child : Z }.
Record site := mkSite { s_pos : Z; s_anc : list Z; s_md : list Z }.
Record mutation := mkMut { m_site : Z; m_node : Z; m_parent : Z; m_time : option Z;
                           m_der : list Z; m_md : list Z }.
Record grow := mkG { g_left : Z; g_right : Z; g_node : Z; g_source : Z; g_dest : Z; g_time : Z }.
Record individual := mkInd { i_flags : Z; i_loc : list Z; i_parents : list Z; i_md : list Z }.

Record tables := mkTables {
  t_L : Z;
  t_nodes : list node;
  t_edges : list erow; t_emd : list Z; t_eoff : list Z;     (* fixed columns; metadata; metadata_offset *)
  t_sites : list site;
  t_muts : list mutation;
  t_migs : list grow; t_gmd : list Z; t_goff : list Z;
  t_inds : list individual;
  t_pops : list (list Z);
  t_index : option (list Z * list Z)                          (* edge_insertion_order, edge_removal_order *)
}.

Definition set_edges t es md off :=
  mkTables (t_L t) (t_nodes t) es md off (t_sites t) (t_muts t) (t_migs t) (t_gmd t) (t_goff t)
           (t_inds t) (t_pops t) (t_index t).
Definition set_migs t gs md off :=
  mkTables (t_L t) (t_nodes t) (t_edges t) (t_emd t) (t_eoff t) (t_sites t) (t_muts t) gs md off
           (t_inds t) (t_pops t) (t_index t).
Definition set_sites_muts t ss ms :=
  mkTables (t_L t) (t_nodes t) (t_edges t) (t_emd t) (t_eoff t) ss ms (t_migs t) (t_gmd t) (t_goff t)
           (t_inds t) (t_pops t) (t_index t).
Definition set_index t ix :=
  mkTables (t_L t) (t_nodes t) (t_edges t) (t_emd t) (t_eoff t) (t_sites t) (t_muts t) (t_migs t)
           (t_gmd t) (t_goff t) (t_inds t) (t_pops t) ix.

Definition mut_set_site (m : mutation) (s : Z) :=
  mkMut s (m_node m) (m_parent m) (m_time m) (m_der m) (m_md m).
Definition mut_set_parent (m : mutation) (p : Z) :=
  mkMut (m_site m) (m_node m) p (m_time m) (m_der m) (m_md m).

(* ---------------------------------------------------------------------- *)
(* small helpers                                                          *)
(* ---------------------------------------------------------------------- *)
Fixpoint mapM {A B} (f : A -> res B) (l : list A) : res (list B) :=
  match l with
  | [] => Ok []
  | x :: t => do y <- f x; do ys <- mapM f t; Ok (y :: ys)
  end.

Fixpoint indexed {A} (i : Z) (l : list A) : list (Z * A) :=
  match l with [] => [] | x :: t => (i, x) :: indexed (i + 1) t end.

(* a[ids[0]] = j; a[ids[1]] = j+1; ...  (the id-map loops) *)
Fixpoint fill_id_map (ids : list Z) (j : Z) (a : list Z) : res (list Z) :=
  match ids with
  | [] => Ok a
  | id :: t => do a' <- set a id j; fill_id_map t (j + 1) a'
  end.

(* (a > b) - (a < b) *)
Definition cmp3 (a b : Z) : Z := (if b <? a then 1 else 0) - (if a <? b then 1 else 0).

(* old[off .. off+len) ; memcpy source *)
Definition slice (buf : list Z) (off len : Z) : res (list Z) :=
  if (off <? 0) || (len <? 0) || (zlen buf <? off + len) then OOB
  else Ok (firstn (Z.to_nat len) (skipn (Z.to_nat off) buf)).

(* memcpy(buf + off, bytes, |bytes|) *)
Definition write_at (buf : list Z) (off : Z) (bytes : list Z) : res (list Z) :=
  if (off <? 0) || (zlen buf <? off + zlen bytes) then OOB
  else Ok (firstn (Z.to_nat off) buf ++ bytes ++ skipn (Z.to_nat off + length bytes) buf).

(* ---------------------------------------------------------------------- *)
(* sort records and comparators                                           *)
(* ---------------------------------------------------------------------- *)
(* edge_sort_t 6741 *)
Record edge_sort := mkES { es_row : erow; es_time : Z; es_off : Z; es_len : Z }.
(* migration_sort_t 6767 *)
Record mig_sort := mkGS { gs_row : grow; gs_off : Z; gs_len : Z }.
(* tsk_site_t / tsk_mutation_t rows carry their id *)
Definition site_sort := (Z * site)%type.
Definition mut_sort := (Z * mutation)%type.
(* mutation_canonical_sort_t 6756 *)
Record mutc_sort := mkMC { mc_id : Z; mc_mut : mutation; mc_nd : Z }.
(* index_sort_t *)
Record index_sort := mkIS { is_index : Z; is_first : Z; is_second : Z; is_third : Z; is_fourth : Z }.

Definition then_cmp (r : Z) (k : Z) : Z := if r =? 0 then k else r.

(* 6856 *)
Definition cmp_edge (a b : edge_sort) : Z :=
  then_cmp (cmp3 (es_time a) (es_time b))
  (then_cmp (cmp3 (e_parent (es_row a)) (e_parent (es_row b)))
  (then_cmp (cmp3 (e_child (es_row a)) (e_child (es_row b)))
            (cmp3 (e_left (es_row a)) (e_left (es_row b))))).

(* 6878 *)
Definition cmp_migration (a b : mig_sort) : Z :=
  let ra := gs_row a in let rb := gs_row b in
  then_cmp (cmp3 (g_time ra) (g_time rb))
  (then_cmp (cmp3 (g_source ra) (g_source rb))
  (then_cmp (cmp3 (g_dest ra) (g_dest rb))
  (then_cmp (cmp3 (g_left ra) (g_left rb))
            (cmp3 (g_node ra) (g_node rb))))).

(* 6779 *)
Definition cmp_site (a b : site_sort) : Z :=
  then_cmp (cmp3 (s_pos (snd a)) (s_pos (snd b))) (cmp3 (fst a) (fst b)).

(* (ia->time < ib->time) - (ia->time > ib->time) when both known, else the previous ret (0) *)
Definition cmp_time_desc (ta tb : option Z) : Z :=
  match ta, tb with Some x, Some y => cmp3 y x | _, _ => 0 end.

(* 6798 *)
Definition cmp_mutation (a b : mut_sort) : Z :=
  then_cmp (cmp3 (m_site (snd a)) (m_site (snd b)))
  (then_cmp (cmp_time_desc (m_time (snd a)) (m_time (snd b)))
            (cmp3 (fst a) (fst b))).

(* 6816 *)
Definition cmp_mutation_canonical (a b : mutc_sort) : Z :=
  then_cmp (cmp3 (m_site (mc_mut a)) (m_site (mc_mut b)))
  (then_cmp (cmp_time_desc (m_time (mc_mut a)) (m_time (mc_mut b)))
  (then_cmp (cmp3 (mc_nd b) (mc_nd a))
  (then_cmp (cmp3 (m_node (mc_mut a)) (m_node (mc_mut b)))
            (cmp3 (mc_id a) (mc_id b))))).

(* 10363 *)
Definition cmp_index_sort (a b : index_sort) : Z :=
  then_cmp (cmp3 (is_first a) (is_first b))
  (then_cmp (cmp3 (is_second a) (is_second b))
  (then_cmp (cmp3 (is_third a) (is_third b))
            (cmp3 (is_fourth a) (is_fourth b)))).

(* 13382 *)
Definition cmp_edge_cl (a b : erow) : Z :=
  then_cmp (cmp3 (e_parent a) (e_parent b))
  (then_cmp (cmp3 (e_child a) (e_child b))
            (cmp3 (e_left a) (e_left b))).

(* ---------------------------------------------------------------------- *)
(* qsort: assumed behaviour                                               *)
(* ---------------------------------------------------------------------- *)
Record qsorts := mkQ {
  qs_edge : list edge_sort -> list edge_sort;
  qs_mig : list mig_sort -> list mig_sort;
  qs_site : list site_sort -> list site_sort;
  qs_mut : list mut_sort -> list mut_sort;
  qs_mutc : list mutc_sort -> list mutc_sort;
  qs_index : list index_sort -> list index_sort;
  qs_edge_cl : list erow -> list erow
}.

Definition sorts_by {A} (cmp : A -> A -> Z) (f : list A -> list A) : Prop :=
  forall l, Permutation l (f l) /\ Sorted (fun a b => cmp a b <= 0) (f l).

Definition qsorts_ok (Q : qsorts) : Prop :=
  sorts_by cmp_edge (qs_edge Q) /\ sorts_by cmp_migration (qs_mig Q) /\
  sorts_by cmp_site (qs_site Q) /\ sorts_by cmp_mutation (qs_mut Q) /\
  sorts_by cmp_mutation_canonical (qs_mutc Q) /\ sorts_by cmp_index_sort (qs_index Q) /\
  sorts_by cmp_edge_cl (qs_edge_cl Q).

(* ---------------------------------------------------------------------- *)
(* reference checks (the part of check_integrity(0) the sorters rely on)  *)
(* ---------------------------------------------------------------------- *)
Definition in_range (x n : Z) : bool := (0 <=? x) && (x <? n).

Definition check_refs (t : tables) : bool :=
  let nn := zlen (t_nodes t) in
  let ns := zlen (t_sites t) in
  let nm := zlen (t_muts t) in
  forallb (fun e => in_range (e_parent e) nn && in_range (e_child e) nn) (t_edges t) &&
  forallb (fun jm => let m := snd jm in
             in_range (m_site m) ns && in_range (m_node m) nn &&
             (NULL <=? m_parent m) && (m_parent m <? nm) && negb (m_parent m =? fst jm))
          (indexed 0 (t_muts t)) &&
  forallb (fun g => in_range (g_node g) nn) (t_migs t).

(* ---------------------------------------------------------------------- *)
(* ragged copy-back shared by sort_edges / sort_migrations                *)
(* ---------------------------------------------------------------------- *)
(* for (j...) { memcpy(md + moff, old + off_j, len_j); offs[start+j] = moff; moff += len_j; } *)
Fixpoint copy_back (old : list Z) (spans : list (Z * Z)) (moff : Z) (md : list Z)
  : res (list Z * list Z) :=
  match spans with
  | [] => Ok (md, [])
  | (off, len) :: tl =>
      do bytes <- slice old off len;
      do md1 <- write_at md moff bytes;
      do r <- copy_back old tl (moff + len) md1;
      Ok (fst r, moff :: snd r)
  end.

(* spans (offset[k], offset[k+1]-offset[k]) of rows start .. n-1 *)
Fixpoint spans_from (off : list Z) (k : Z) (n : nat) : res (list (Z * Z)) :=
  match n with
  | O => Ok []
  | S n' => do a <- get off k; do b <- get off (k + 1);
            do tl <- spans_from off (k + 1) n'; Ok ((a, b - a) :: tl)
  end.

(* 6904: tsk_table_sorter_sort_edges(self, start) *)
Definition sort_edges (Q : qsorts) (start : Z) (t : tables) : res tables :=
  let edges := t_edges t in
  let s := Z.to_nat start in
  let rest := skipn s edges in
  do spans <- spans_from (t_eoff t) start (length rest);
  do recs <- mapM (fun rs : erow * (Z * Z) =>
                     do tm <- get (map n_time (t_nodes t)) (e_parent (fst rs));
                     Ok (mkES (fst rs) tm (fst (snd rs)) (snd (snd rs))))
                  (combine rest spans);
  let sorted := qs_edge Q recs in
  (* copy back from metadata_offset[start] (6937, after "fix: sort with edge_start > 0 keeps the
     metadata of the unsorted prefix"; the pinned code restarted at 0: Refuted.v) *)
  do m0 <- get (t_eoff t) start;
  do r <- copy_back (t_emd t) (map (fun e => (es_off e, es_len e)) sorted) m0 (t_emd t);
  let off' := firstn s (t_eoff t) ++ snd r ++ skipn (s + length sorted) (t_eoff t) in
  Ok (set_edges t (firstn s edges ++ map es_row sorted) (fst r) off').

(* 6959: tsk_table_sorter_sort_migrations(self, start) *)
Definition sort_migrations (Q : qsorts) (start : Z) (t : tables) : res tables :=
  let migs := t_migs t in
  let s := Z.to_nat start in
  let rest := skipn s migs in
  do spans <- spans_from (t_goff t) start (length rest);
  let recs := map (fun rs : grow * (Z * Z) => mkGS (fst rs) (fst (snd rs)) (snd (snd rs)))
                  (combine rest spans) in
  let sorted := qs_mig Q recs in
  do m0 <- get (t_goff t) start;
  do r <- copy_back (t_gmd t) (map (fun e => (gs_off e, gs_len e)) sorted) m0 (t_gmd t);
  let off' := firstn s (t_goff t) ++ snd r ++ skipn (s + length sorted) (t_goff t) in
  Ok (set_migs t (firstn s migs ++ map gs_row sorted) (fst r) off').

(* 7011: tsk_table_sorter_sort_sites: returns the new rows and site_id_map *)
Definition sort_sites (Q : qsorts) (sites : list site) : res (list site * list Z) :=
  let sorted := qs_site Q (indexed 0 sites) in
  do idmap <- fill_id_map (map fst sorted) 0 (repeat NULL (length sites));
  Ok (map snd sorted, idmap).

Definition remap_parent (idmap : list Z) (m : mutation) : res mutation :=
  if m_parent m =? NULL then Ok (mut_set_parent m NULL)
  else do p <- get idmap (m_parent m); Ok (mut_set_parent m p).

(* 7058: tsk_table_sorter_sort_mutations *)
Definition sort_mutations (Q : qsorts) (site_id_map : list Z) (muts : list mutation)
  : res (list mutation) :=
  do recs <- mapM (fun jm : Z * mutation =>
                     do s <- get site_id_map (m_site (snd jm)); Ok (fst jm, mut_set_site (snd jm) s))
                  (indexed 0 muts);
  let sorted := qs_mut Q recs in
  do idmap <- fill_id_map (map fst sorted) 0 (repeat NULL (length muts));
  mapM (fun jm : Z * mutation => remap_parent idmap (snd jm)) sorted.

(* 7146-7156: for each j: p = parent[j]; while (p != NULL) { nd[p]++; if (nd[p] > n) error; p = parent[p]; } *)
Fixpoint count_up (fuel : nat) (parents : list Z) (n : Z) (p : Z) (nd : list Z) : res (list Z) :=
  match fuel with
  | O => Fuel
  | S f =>
      if p =? NULL then Ok nd else
      do c <- get nd p;
      do nd' <- set nd p (c + 1);
      if n <? c + 1 then Err E_MUTATION_PARENT_INCONSISTENT else
      do p' <- get parents p;
      count_up f parents n p' nd'
  end.

Fixpoint num_descendants_loop (fuel : nat) (parents : list Z) (n : Z) (todo : list Z) (nd : list Z)
  : res (list Z) :=
  match todo with
  | [] => Ok nd
  | p :: tl => do nd' <- count_up fuel parents n p nd; num_descendants_loop fuel parents n tl nd'
  end.

Definition num_descendants (muts : list mutation) : res (list Z) :=
  let n := zlen muts in
  let parents := map m_parent muts in
  (* one walk increments some counter at every step and stops once a counter exceeds n *)
  num_descendants_loop (S (length muts * S (length muts))) parents n parents
                       (repeat 0 (length muts)).

(* 7121: tsk_table_sorter_sort_mutations_canonical *)
Definition sort_mutations_canonical (Q : qsorts) (site_id_map : list Z) (muts : list mutation)
  : res (list mutation) :=
  do nd <- num_descendants muts;
  do recs <- mapM (fun jm : (Z * mutation) * Z =>
                     do s <- get site_id_map (m_site (snd (fst jm)));
                     Ok (mkMC (fst (fst jm)) (mut_set_site (snd (fst jm)) s) (snd jm)))
                  (combine (indexed 0 muts) nd);
  let sorted := qs_mutc Q recs in
  do idmap <- fill_id_map (map mc_id sorted) 0 (repeat NULL (length muts));
  mapM (fun r : mutc_sort => remap_parent idmap (mc_mut r)) sorted.

(* tsk_bookmark_t restricted to the fields the sorter reads *)
Record bookmark := mkBM { bm_edges : Z; bm_migrations : Z; bm_sites : Z; bm_mutations : Z }.

(* 7453: tsk_table_sorter_run (individuals are only sorted by canonicalise: see
   [sort_individuals_canonical] is NOT modelled; [canonical] selects the mutation sorter) *)
Definition sorter_run (Q : qsorts) (canonical : bool) (start : option bookmark) (t : tables)
  : res tables :=
  let bm := match start with Some b => b | None => mkBM 0 0 0 0 end in
  if (bm_edges bm <? 0) || (zlen (t_edges t) <? bm_edges bm) then Err E_EDGE_OUT_OF_BOUNDS else
  if (bm_migrations bm <? 0) || (zlen (t_migs t) <? bm_migrations bm) then Err E_MIGRATION_OUT_OF_BOUNDS else
  let skip := match start with
              | Some b => (bm_sites b =? zlen (t_sites t)) && (bm_mutations b =? zlen (t_muts t))
              | None => false end in
  if negb skip && (negb (bm_sites bm =? 0) || negb (bm_mutations bm =? 0))
  then Err E_SORT_OFFSET_NOT_SUPPORTED else
  let t0 := set_index t None in                                   (* drop_index 7485 *)
  do t1 <- sort_edges Q (bm_edges bm) t0;
  do t2 <- (if 0 <? zlen (t_migs t1) then sort_migrations Q (bm_migrations bm) t1 else Ok t1);
  if skip then Ok t2 else
  do sm <- sort_sites Q (t_sites t2);
  do ms <- (if canonical then sort_mutations_canonical Q (snd sm) (t_muts t2)
            else sort_mutations Q (snd sm) (t_muts t2));
  Ok (set_sites_muts t2 (fst sm) ms).

(* 12216: tsk_table_collection_sort = sorter_init (check_integrity(0), here its reference
   part) + sorter_run *)
Definition table_sort (Q : qsorts) (start : option bookmark) (t : tables) : res tables :=
  if check_refs t then sorter_run Q false start t else Err E_BAD_REF.

(* the Python entry point TableCollection.sort(edge_start, site_start, mutation_start):
   _tskitmodule.c 7226 builds a bookmark with migrations = 0 *)
Definition py_sort (Q : qsorts) (edge_start site_start mutation_start : Z) (t : tables) : res tables :=
  table_sort Q (Some (mkBM edge_start 0 site_start mutation_start)) t.

(* ---------------------------------------------------------------------- *)
(* row views                                                              *)
(* ---------------------------------------------------------------------- *)
Definition ragged_rows (md off : list Z) (n : nat) : res (list (list Z)) :=
  do spans <- spans_from off 0 n;
  mapM (fun s : Z * Z => slice md (fst s) (snd s)) spans.

Definition edge_rows (t : tables) : res (list (erow * list Z)) :=
  do mds <- ragged_rows (t_emd t) (t_eoff t) (length (t_edges t));
  Ok (combine (t_edges t) mds).

Definition mig_rows (t : tables) : res (list (grow * list Z)) :=
  do mds <- ragged_rows (t_gmd t) (t_goff t) (length (t_migs t));
  Ok (combine (t_migs t) mds).

(* ---------------------------------------------------------------------- *)
(* 12278: deduplicate_sites                                               *)
(* ---------------------------------------------------------------------- *)
Fixpoint sites_sorted (last : Z) (l : list site) : bool :=
  match l with [] => true | s :: t => (last <=? s_pos s) && sites_sorted (s_pos s) t end.

(* the loop 12316-12331: returns kept rows (reversed accumulator avoided: direct) and site_id_map *)
Fixpoint dedup_loop (last : Z) (count : Z) (l : list site) : list site * list Z :=
  match l with
  | [] => ([], [])
  | s :: t =>
      let isnew := negb (s_pos s =? last) in
      let count' := if isnew then count + 1 else count in
      let r := dedup_loop (s_pos s) count' t in
      ((if isnew then s :: fst r else fst r), (count' - 1) :: snd r)
  end.

Definition deduplicate_sites (t : tables) : res tables :=
  match t_sites t with
  | [] => Ok t
  | s0 :: _ =>
      if negb (check_refs t) then Err E_BAD_REF else
      if negb (sites_sorted (s_pos s0) (t_sites t)) then Err E_UNSORTED_SITES else
      let r := dedup_loop (-1) 0 (t_sites t) in
      if zlen (fst r) <? zlen (t_sites t) then
        do ms <- mapM (fun m => do s <- get (snd r) (m_site m); Ok (mut_set_site m s)) (t_muts t);
        Ok (set_sites_muts t (fst r) ms)
      else Ok (set_sites_muts t (fst r) (t_muts t))
  end.

(* ---------------------------------------------------------------------- *)
(* 11306: build_index (with the TSK_CHECK_EDGE_ORDERING loop of 10466)    *)
(* ---------------------------------------------------------------------- *)
(* state: last (parent, child, left) and parent_seen *)
Fixpoint edge_order_loop (time : list Z) (seen : list bool) (last : option erow) (l : list erow)
  : res bool :=
  match l with
  | [] => Ok true
  | e :: tl =>
      do sp <- get seen (e_parent e);
      if (sp : bool) then Ok false else
      do tp <- get time (e_parent e);
      match last with
      | None => edge_order_loop time seen (Some e) tl
      | Some le =>
          do tl_ <- get time (e_parent le);
          if tp <? tl_ then Ok false else
          if tp =? tl_ then
            if e_parent e =? e_parent le then
              if e_child e <? e_child le then Ok false else
              if (e_child e =? e_child le) && (e_left e <=? e_left le) then Ok false
              else edge_order_loop time seen (Some e) tl
            else
              do seen' <- set seen (e_parent le) true;
              edge_order_loop time seen' (Some e) tl
          else edge_order_loop time seen (Some e) tl
      end
  end.

Definition build_index (Q : qsorts) (t : tables) : res tables :=
  if negb (check_refs t) then Err E_BAD_REF else
  let time := map n_time (t_nodes t) in
  do ok <- edge_order_loop time (repeat false (length (t_nodes t))) None (t_edges t);
  if negb ok then Err E_EDGES_NOT_SORTED else
  do ins <- mapM (fun je : Z * erow => let e := snd je in
                    do tp <- get time (e_parent e);
                    Ok (mkIS (fst je) (e_left e) tp (e_parent e) (e_child e)))
                 (indexed 0 (t_edges t));
  do rem <- mapM (fun je : Z * erow => let e := snd je in
                    do tp <- get time (e_parent e);
                    Ok (mkIS (fst je) (e_right e) (- tp) (- e_parent e) (- e_child e)))
                 (indexed 0 (t_edges t));
  Ok (set_index t (Some (map is_index (qs_index Q ins), map is_index (qs_index Q rem)))).

(* ---------------------------------------------------------------------- *)
(* 13401 / 3334: squash                                                   *)
(* ---------------------------------------------------------------------- *)
(* the loop over k >= 1 with group start [g] (= edges[j]) and previous edge [prev] (= edges[k-1]) *)
Fixpoint squash_loop (g prev : erow) (l : list erow) : res (list erow) :=
  match l with
  | [] => Ok [mkE (e_left g) (e_right prev) (e_parent g) (e_child g)]
  | e :: tl =>
      if (e_parent prev =? e_parent e) && (e_child prev =? e_child e) && (e_left e <? e_right prev)
      then Err E_BAD_EDGES_CONTRADICTORY_CHILDREN else
      if negb (e_parent prev =? e_parent e) || negb (e_right prev =? e_left e)
         || negb (e_child g =? e_child e)
      then do r <- squash_loop e e tl;
           Ok (mkE (e_left g) (e_right prev) (e_parent g) (e_child g) :: r)
      else squash_loop g e tl
  end.

Definition squash_edges (Q : qsorts) (edges : list erow) : res (list erow) :=
  match edges with
  | [] | [_] => Ok edges
  | _ =>
      match qs_edge_cl Q edges with
      | [] => Ok []
      | e0 :: tl => squash_loop e0 e0 tl
      end
  end.

Definition edge_table_squash (Q : qsorts) (t : tables) : res tables :=
  if 0 <? zlen (t_emd t) then Err E_CANT_PROCESS_EDGES_WITH_METADATA else
  do es <- squash_edges Q (t_edges t);
  (* tsk_edge_table_clear: metadata_length = 0, offsets all 0 *)
  Ok (set_edges t es [] (repeat 0 (S (length es)))).

(* ---------------------------------------------------------------------- *)
(* 12348: compute_mutation_parents                                        *)
(* ---------------------------------------------------------------------- *)
(* while (tk < M && edges.right[O[tk]] == left) { parent[child] = NULL; tk++ }  — the cursor
   is the remaining suffix of O *)
Fixpoint sweep_out (edges : list erow) (left : Z) (Outs : list Z) (parent : list Z)
  : res (list Z * list Z) :=
  match Outs with
  | [] => Ok (Outs, parent)
  | k :: Outs' =>
      do e <- get edges k;
      if e_right e =? left then
        do parent' <- set parent (e_child e) NULL; sweep_out edges left Outs' parent'
      else Ok (Outs, parent)
  end.

Fixpoint sweep_in (edges : list erow) (left : Z) (Ins : list Z) (parent : list Z)
  : res (list Z * list Z) :=
  match Ins with
  | [] => Ok (Ins, parent)
  | k :: Ins' =>
      do e <- get edges k;
      if e_left e =? left then
        do parent' <- set parent (e_child e) (e_parent e); sweep_in edges left Ins' parent'
      else Ok (Ins, parent)
  end.

(* first pass 12416-12423 over the mutations of one site, ids j, j+1, ...:
   if (bottom[u] != NULL) mparent[j] = bottom[u]; bottom[u] = j *)
Fixpoint site_first_pass (nodes_of : list Z) (j : Z) (bottom mparent : list Z)
  : res (list Z * list Z) :=
  match nodes_of with
  | [] => Ok (bottom, mparent)
  | u :: tl =>
      do b <- get bottom u;
      do mparent' <- (if b =? NULL then Ok mparent else set mparent j b);
      do bottom' <- set bottom u j;
      site_first_pass tl (j + 1) bottom' mparent'
  end.

(* u = parent[node]; while (u != NULL && bottom[u] == NULL) u = parent[u]; *)
Fixpoint walk_up (fuel : nat) (parent bottom : list Z) (u : Z) : res Z :=
  match fuel with
  | O => Fuel
  | S f =>
      if u =? NULL then Ok NULL else
      do b <- get bottom u;
      if b =? NULL then do u' <- get parent u; walk_up f parent bottom u' else Ok u
  end.

(* second pass 12429-12439 *)
Fixpoint site_second_pass (fuel : nat) (parent bottom : list Z) (nodes_of : list Z) (j : Z)
         (mparent : list Z) : res (list Z) :=
  match nodes_of with
  | [] => Ok mparent
  | nd :: tl =>
      do mp <- get mparent j;
      do mparent' <-
        (if mp =? NULL then
           do u0 <- get parent nd;
           do u <- walk_up fuel parent bottom u0;
           if u =? NULL then Ok mparent else do b <- get bottom u; set mparent j b
         else Ok mparent);
      site_second_pass fuel parent bottom tl (j + 1) mparent'
  end.

(* reset 12442-12450 with the sortedness check *)
Fixpoint site_reset (nodes_of : list Z) (j : Z) (bottom mparent : list Z) : res (list Z) :=
  match nodes_of with
  | [] => Ok bottom
  | u :: tl =>
      do bottom' <- set bottom u NULL;
      do mp <- get mparent j;
      if j <? mp then Err E_MUTATION_PARENT_AFTER_CHILD
      else site_reset tl (j + 1) bottom' mparent
  end.

(* one site: [nodes_of] = nodes of its mutations first .. first+len-1 *)
Definition do_site (fuel : nat) (parent : list Z) (nodes_of : list Z) (first : Z)
           (bottom mparent : list Z) : res (list Z * list Z) :=
  do r <- site_first_pass nodes_of first bottom mparent;
  do mparent2 <- (if 1 <? zlen nodes_of
                  then site_second_pass fuel parent (fst r) nodes_of first (snd r)
                  else Ok (snd r));
  do bottom' <- site_reset nodes_of first (fst r) mparent2;
  Ok (bottom', mparent2).

(* mutations with site == [site] at the front of the remaining rows *)
Fixpoint take_site (sid : Z) (l : list mutation) : list mutation * list mutation :=
  match l with
  | [] => ([], [])
  | m :: tl => if m_site m =? sid then let r := take_site sid tl in (m :: fst r, snd r)
               else ([], l)
  end.

(* while (site < num_sites && position[site] < right) { ... site++ } *)
Fixpoint sites_loop (fuel : nat) (parent : list Z) (right : Z) (sites : list site) (sid : Z)
         (muts : list mutation) (mid : Z) (bottom mparent : list Z)
  : res ((list site * Z) * (list mutation * Z) * (list Z * list Z)) :=
  match sites with
  | [] => Ok ((sites, sid), (muts, mid), (bottom, mparent))
  | s :: tl =>
      if s_pos s <? right then
        let r := take_site sid muts in
        do bm <- do_site fuel parent (map m_node (fst r)) mid bottom mparent;
        sites_loop fuel parent right tl (sid + 1) (snd r) (mid + zlen (fst r)) (fst bm) (snd bm)
      else Ok ((sites, sid), (muts, mid), (bottom, mparent))
  end.

(* outer while (tj < M || left < L) *)
Fixpoint parents_loop (fuel : nat) (wfuel : nat) (L : Z) (edges : list erow) (Ins Outs : list Z) (left : Z)
         (parent : list Z) (sites : list site) (sid : Z) (muts : list mutation) (mid : Z)
         (bottom mparent : list Z) : res (list Z) :=
  match fuel with
  | O => Fuel
  | S f =>
      if negb (match Ins with [] => false | _ => true end) && negb (left <? L) then Ok mparent else
      do ro <- sweep_out edges left Outs parent;
      do ri <- sweep_in edges left Ins (snd ro);
      let Ins' := fst ri in let Outs' := fst ro in
      do right1 <- match Ins' with [] => Ok L | k :: _ => do e <- get edges k; Ok (Z.min L (e_left e)) end;
      do right <- match Outs' with [] => Ok right1 | k :: _ => do e <- get edges k; Ok (Z.min right1 (e_right e)) end;
      do r <- sites_loop wfuel (snd ri) right sites sid muts mid bottom mparent;
      let '((sites', sid'), (muts', mid'), (bottom', mparent')) := r in
      parents_loop f wfuel L edges Ins' Outs' right (snd ri) sites' sid' muts' mid' bottom' mparent'
  end.

(* The integrity check TSK_CHECK_TREES that precedes the sweep is the subject of C02 and is
   not modelled here: the theorems about this function assume a valid, sorted, indexed
   table explicitly; the correspondence only runs it on tables the implementation accepts. *)
Definition compute_mutation_parents (t : tables) : res tables :=
  match t_index t with
  | None => Err E_BAD_REF
  | Some (Ins, Outs) =>
      let n := length (t_nodes t) in
      let nm := length (t_muts t) in
      do mp <- parents_loop (2 * length (t_edges t) + 2) (S n) (t_L t) (t_edges t) Ins Outs 0
                 (repeat NULL n) (t_sites t) 0 (t_muts t) 0 (repeat NULL n) (repeat NULL nm);
      do ms <- mapM (fun mp : mutation * Z => Ok (mut_set_parent (fst mp) (snd mp)))
                    (combine (t_muts t) mp);
      Ok (set_sites_muts t (t_sites t) ms)
  end.

(* ---------------------------------------------------------------------- *)
(* 7201 / 7279: individual topological sort (TableCollection.sort_individuals) *)
(* ---------------------------------------------------------------------- *)
Definition E_INDIVIDUAL_PARENT_CYCLE : Z := 11.

Definition node_set_ind (nd : node) (x : Z) : node := mkNode (n_flags nd) (n_time nd) (n_pop nd) x (n_md nd).
Definition ind_set_parents (r : individual) (ps : list Z) : individual :=
  mkInd (i_flags r) (i_loc r) ps (i_md r).
Definition set_inds_nodes t inds nodes :=
  mkTables (t_L t) nodes (t_edges t) (t_emd t) (t_eoff t) (t_sites t) (t_muts t) (t_migs t) (t_gmd t)
           (t_goff t) inds (t_pops t) (t_index t).

(* the individual / node part of check_integrity(0): 10797 and 10455 *)
Definition check_inds (t : tables) : bool :=
  let n := zlen (t_inds t) in
  forallb (fun jr => forallb (fun p => (p =? NULL) || (in_range p n && negb (p =? fst jr)))
                             (i_parents (snd jr))) (indexed 0 (t_inds t)) &&
  forallb (fun nd => (NULL <=? n_ind nd) && (n_ind nd <? n)) (t_nodes t).

(* 7229-7233: incoming_edge_count[parents[i]]++ over the flat parents column *)
Fixpoint count_parents (ps : list Z) (c : list Z) : res (list Z) :=
  match ps with
  | [] => Ok c
  | p :: tl => if p =? NULL then count_parents tl c
               else do x <- get c p; do c' <- set c p (x + 1); count_parents tl c'
  end.

(* 7236-7241: for (i = n-1; i >= 0; i--) if (count[i] == 0) order[insertion++] = i *)
Fixpoint initial_todo (k : nat) (c : list Z) : res (list Z) :=
  match k with
  | O => Ok []
  | S k' => do x <- get c (Z.of_nat k'); do rest <- initial_todo k' c;
            Ok (if x =? 0 then Z.of_nat k' :: rest else rest)
  end.

(* 7249-7261: the parents of the individual being processed; newly free parents are appended
   to the queue [q] *)
Fixpoint relax (ps : list Z) (c q : list Z) : res (list Z * list Z) :=
  match ps with
  | [] => Ok (c, q)
  | p :: tl => if p =? NULL then relax tl c q
               else do x <- get c p; do c' <- set c p (x - 1);
                    relax tl c' (if x - 1 =? 0 then q ++ [p] else q)
  end.

(* 7246-7263: while (current_todo < todo_insertion_point); [done] = order[0..current),
   [pending] = order[current..insertion) *)
Fixpoint topo_loop (fuel : nat) (inds : list individual) (c done pending : list Z)
  : res (list Z * list Z) :=
  match fuel with
  | O => Fuel
  | S f =>
      match pending with
      | [] => Ok (done, c)
      | j :: rest =>
          do r <- get inds j;
          do cq <- relax (i_parents r) c rest;
          topo_loop f inds (fst cq) (done ++ [j]) (snd cq)
      end
  end.

(* 7201: traversal order, or the cycle error of 7266-7271 *)
Definition topological_order (inds : list individual) : res (list Z) :=
  let n := length inds in
  do c0 <- count_parents (flat_map i_parents inds) (repeat 0 n);
  do todo <- initial_todo n c0;
  do r <- topo_loop (S n) inds c0 [] todo;
  if existsb (fun x => 0 <? x) (snd r) then Err E_INDIVIDUAL_PARENT_CYCLE else Ok (fst r).

Definition remap_id (idmap : list Z) (x : Z) : res Z := if x =? NULL then Ok NULL else get idmap x.

(* 7279: rows are re-added for i = n-1 .. 0 as copy[order[i]]; new_id_map[order[i]] = new id;
   then the parents column and nodes.individual are rewritten through new_id_map.  The
   topological sort of the copy runs BEFORE the individual table is cleared (after "fix:
   sort_individuals leaves the individual table untouched when it finds a parent cycle"), so the
   cycle error leaves the tables as they were — which is all an [Err] result says here. *)
Definition sort_individuals (t : tables) : res tables :=
  if negb (check_refs t && check_inds t) then Err E_BAD_REF else
  let inds := t_inds t in
  do order <- topological_order inds;
  let ids := rev order in
  do rows <- mapM (get inds) ids;
  do idmap <- fill_id_map ids 0 (repeat NULL (length inds));
  do rows' <- mapM (fun r => do ps <- mapM (remap_id idmap) (i_parents r); Ok (ind_set_parents r ps)) rows;
  do nodes' <- mapM (fun nd => do x <- remap_id idmap (n_ind nd); Ok (node_set_ind nd x)) (t_nodes t);
  Ok (set_inds_nodes t rows' nodes').

(* ---------------------------------------------------------------------- *)
(* 7354: tsk_table_sorter_sort_individuals_canonical (canonicalise)          *)
(* ---------------------------------------------------------------------- *)
(* individual_canonical_sort_t 6761 *)
Record indc_sort := mkIC { ic_id : Z; ic_ind : individual; ic_first_node : Z; ic_nd : Z }.

(* 6840 *)
Definition cmp_individual_canonical (a b : indc_sort) : Z :=
  then_cmp (cmp3 (ic_nd b) (ic_nd a))
  (then_cmp (cmp3 (ic_first_node a) (ic_first_node b))
            (cmp3 (ic_id a) (ic_id b))).

(* the loop body 7249-7261 with count_descendants: num_descendants[p] += 1 + num_descendants[j] *)
Fixpoint relax_nd (ps : list Z) (c q nd : list Z) (ndj : Z) : res (list Z * list Z * list Z) :=
  match ps with
  | [] => Ok (c, q, nd)
  | p :: tl => if p =? NULL then relax_nd tl c q nd ndj
               else do x <- get c p; do c' <- set c p (x - 1);
                    do y <- get nd p; do nd' <- set nd p (y + 1 + ndj);
                    relax_nd tl c' (if x - 1 =? 0 then q ++ [p] else q) nd' ndj
  end.

Fixpoint topo_loop_nd (fuel : nat) (inds : list individual) (c pending nd : list Z)
  : res (list Z * list Z) :=
  match fuel with
  | O => Fuel
  | S f =>
      match pending with
      | [] => Ok (c, nd)
      | j :: rest =>
          do r <- get inds j;
          do ndj <- get nd j;
          do x <- relax_nd (i_parents r) c rest nd ndj;
          topo_loop_nd f inds (fst (fst x)) (snd (fst x)) (snd x)
      end
  end.

(* first node referring to each individual (7389-7400) *)
Fixpoint first_nodes (nodes : list node) (j : Z) (fn : list Z) : res (list Z) :=
  match nodes with
  | [] => Ok fn
  | nd :: tl => if n_ind nd =? NULL then first_nodes tl (j + 1) fn
                else do x <- get fn (n_ind nd); do fn' <- set fn (n_ind nd) (Z.min j x);
                     first_nodes tl (j + 1) fn'
  end.

Definition sort_individuals_canonical (qs_ind : list indc_sort -> list indc_sort) (t : tables) : res tables :=
  let inds := t_inds t in
  let n := length inds in
  do c0 <- count_parents (flat_map i_parents inds) (repeat 0 n);
  do todo <- initial_todo n c0;
  do r <- topo_loop_nd (S n) inds c0 todo (repeat 0 n);
  if existsb (fun x => 0 <? x) (fst r) then Err E_INDIVIDUAL_PARENT_CYCLE else
  do fn <- first_nodes (t_nodes t) 0 (repeat (zlen (t_nodes t)) n);
  let recs := map (fun x : (Z * individual) * (Z * Z) =>
                     mkIC (fst (fst x)) (snd (fst x)) (fst (snd x)) (snd (snd x)))
                  (combine (indexed 0 inds) (combine fn (snd r))) in
  let sorted := qs_ind recs in
  do idmap <- fill_id_map (map ic_id sorted) 0 (repeat NULL n);
  do rows' <- mapM (fun r => do ps <- mapM (remap_id idmap) (i_parents (ic_ind r));
                             Ok (ind_set_parents (ic_ind r) ps)) sorted;
  do nodes' <- mapM (fun nd => do x <- remap_id idmap (n_ind nd); Ok (node_set_ind nd x)) (t_nodes t);
  Ok (set_inds_nodes t rows' nodes').

(* 12236: canonicalise after the subset step (tsk_table_collection_subset is not modelled) *)
Definition canonical_sorter_run (Q : qsorts) (qs_ind : list indc_sort -> list indc_sort) (t : tables)
  : res tables :=
  do t1 <- sorter_run Q true None t;
  sort_individuals_canonical qs_ind t1.

(* ---------------------------------------------------------------------- *)
(* execution instance: stdlib merge sort                                   *)
(* ---------------------------------------------------------------------- *)
Lemma cmp3_total a b : cmp3 a b <= 0 \/ cmp3 b a <= 0.
Proof. unfold cmp3. destruct (a <? b) eqn:A, (b <? a) eqn:B; lia. Qed.

Lemma cmp3_antisym a b : cmp3 b a = - cmp3 a b.
Proof. unfold cmp3. destruct (a <? b), (b <? a); lia. Qed.

Lemma then_cmp_antisym r k r' k' : r' = - r -> k' = - k -> then_cmp r' k' = - then_cmp r k.
Proof. intros -> ->. unfold then_cmp. destruct (r =? 0) eqn:E.
  - apply Z.eqb_eq in E. subst. reflexivity.
  - assert (- r =? 0 = false) by (apply Z.eqb_neq; apply Z.eqb_neq in E; lia). now rewrite H. Qed.

Lemma cmp_time_desc_antisym a b : cmp_time_desc b a = - cmp_time_desc a b.
Proof. destruct a, b; simpl; try reflexivity. apply cmp3_antisym. Qed.

Lemma cmp_edge_antisym a b : cmp_edge b a = - cmp_edge a b.
Proof. unfold cmp_edge. repeat apply then_cmp_antisym; apply cmp3_antisym. Qed.
Lemma cmp_migration_antisym a b : cmp_migration b a = - cmp_migration a b.
Proof. unfold cmp_migration. cbv zeta. repeat apply then_cmp_antisym; apply cmp3_antisym. Qed.
Lemma cmp_site_antisym a b : cmp_site b a = - cmp_site a b.
Proof. unfold cmp_site. repeat apply then_cmp_antisym; apply cmp3_antisym. Qed.
Lemma cmp_mutation_antisym a b : cmp_mutation b a = - cmp_mutation a b.
Proof. unfold cmp_mutation. repeat apply then_cmp_antisym;
  first [apply cmp3_antisym | apply cmp_time_desc_antisym]. Qed.
Lemma cmp_mutation_canonical_antisym a b : cmp_mutation_canonical b a = - cmp_mutation_canonical a b.
Proof. unfold cmp_mutation_canonical. repeat apply then_cmp_antisym;
  first [apply cmp3_antisym | apply cmp_time_desc_antisym]. Qed.
Lemma cmp_index_sort_antisym a b : cmp_index_sort b a = - cmp_index_sort a b.
Proof. unfold cmp_index_sort. repeat apply then_cmp_antisym; apply cmp3_antisym. Qed.
Lemma cmp_edge_cl_antisym a b : cmp_edge_cl b a = - cmp_edge_cl a b.
Proof. unfold cmp_edge_cl. repeat apply then_cmp_antisym; apply cmp3_antisym. Qed.

Lemma leb_total_of {A} (cmp : A -> A -> Z) (anti : forall a b, cmp b a = - cmp a b) :
  forall a b, (cmp a b <=? 0) = true \/ (cmp b a <=? 0) = true.
Proof. intros a b. rewrite (anti a b).
  destruct (cmp a b <=? 0) eqn:E; [now left|right]. apply Z.leb_gt in E. apply Z.leb_le. lia. Qed.

Lemma Sorted_leb_le {A} (cmp : A -> A -> Z) l :
  Sorted (fun a b => is_true (cmp a b <=? 0)) l -> Sorted (fun a b => cmp a b <= 0) l.
Proof. induction 1; constructor; auto. destruct H0; constructor. now apply Z.leb_le. Qed.

Module LEdge <: TotalLeBool'.
  Definition t := edge_sort.
  Definition leb (a b : t) : bool := cmp_edge a b <=? 0.
  Infix "<=?" := leb (at level 70, no associativity).
  Definition leb_total := leb_total_of cmp_edge cmp_edge_antisym.
End LEdge.
Module LMig <: TotalLeBool'.
  Definition t := mig_sort.
  Definition leb (a b : t) : bool := cmp_migration a b <=? 0.
  Infix "<=?" := leb (at level 70, no associativity).
  Definition leb_total := leb_total_of cmp_migration cmp_migration_antisym.
End LMig.
Module LSite <: TotalLeBool'.
  Definition t := site_sort.
  Definition leb (a b : t) : bool := cmp_site a b <=? 0.
  Infix "<=?" := leb (at level 70, no associativity).
  Definition leb_total := leb_total_of cmp_site cmp_site_antisym.
End LSite.
Module LMut <: TotalLeBool'.
  Definition t := mut_sort.
  Definition leb (a b : t) : bool := cmp_mutation a b <=? 0.
  Infix "<=?" := leb (at level 70, no associativity).
  Definition leb_total := leb_total_of cmp_mutation cmp_mutation_antisym.
End LMut.
Module LMutC <: TotalLeBool'.
  Definition t := mutc_sort.
  Definition leb (a b : t) : bool := cmp_mutation_canonical a b <=? 0.
  Infix "<=?" := leb (at level 70, no associativity).
  Definition leb_total := leb_total_of cmp_mutation_canonical cmp_mutation_canonical_antisym.
End LMutC.
Module LIndex <: TotalLeBool'.
  Definition t := index_sort.
  Definition leb (a b : t) : bool := cmp_index_sort a b <=? 0.
  Infix "<=?" := leb (at level 70, no associativity).
  Definition leb_total := leb_total_of cmp_index_sort cmp_index_sort_antisym.
End LIndex.
Module LEdgeCl <: TotalLeBool'.
  Definition t := erow.
  Definition leb (a b : t) : bool := cmp_edge_cl a b <=? 0.
  Infix "<=?" := leb (at level 70, no associativity).
  Definition leb_total := leb_total_of cmp_edge_cl cmp_edge_cl_antisym.
End LEdgeCl.

Module SEdge := Sort LEdge.
Module SMig := Sort LMig.
Module SSite := Sort LSite.
Module SMut := Sort LMut.
Module SMutC := Sort LMutC.
Module SIndex := Sort LIndex.
Module SEdgeCl := Sort LEdgeCl.

Lemma cmp_individual_canonical_antisym a b : cmp_individual_canonical b a = - cmp_individual_canonical a b.
Proof. unfold cmp_individual_canonical. repeat apply then_cmp_antisym; apply cmp3_antisym. Qed.
Module LIndC <: TotalLeBool'.
  Definition t := indc_sort.
  Definition leb (a b : t) : bool := cmp_individual_canonical a b <=? 0.
  Infix "<=?" := leb (at level 70, no associativity).
  Definition leb_total := leb_total_of cmp_individual_canonical cmp_individual_canonical_antisym.
End LIndC.
Module SIndC := Sort LIndC.
Definition qs_ind_merge : list indc_sort -> list indc_sort := SIndC.sort.
Lemma qs_ind_merge_ok : sorts_by cmp_individual_canonical qs_ind_merge.
Proof. intro l. split; [apply SIndC.Permuted_sort | apply Sorted_leb_le, SIndC.Sorted_sort]. Qed.

Definition Qmerge : qsorts :=
  mkQ SEdge.sort SMig.sort SSite.sort SMut.sort SMutC.sort SIndex.sort SEdgeCl.sort.

Lemma Qmerge_ok : qsorts_ok Qmerge.
Proof.
  repeat split;
    first [ apply SEdge.Permuted_sort | apply SMig.Permuted_sort | apply SSite.Permuted_sort
          | apply SMut.Permuted_sort | apply SMutC.Permuted_sort | apply SIndex.Permuted_sort
          | apply SEdgeCl.Permuted_sort
          | apply Sorted_leb_le;
            first [ apply SEdge.Sorted_sort | apply SMig.Sorted_sort | apply SSite.Sorted_sort
                  | apply SMut.Sorted_sort | apply SMutC.Sorted_sort | apply SIndex.Sorted_sort
                  | apply SEdgeCl.Sorted_sort ] ].
Qed.

(* a second, differently behaving instance (reverse-stable: merge sort of the reversed
   input), used by the correspondence to show the assumptions do not pin tie order *)
Definition Qmerge_rev : qsorts :=
  mkQ (fun l => SEdge.sort (rev l)) (fun l => SMig.sort (rev l)) (fun l => SSite.sort (rev l))
      (fun l => SMut.sort (rev l)) (fun l => SMutC.sort (rev l)) (fun l => SIndex.sort (rev l))
      (fun l => SEdgeCl.sort (rev l)).

(* ---------------------------------------------------------------------- *)
(* observation trees for the correspondence                               *)
(* ---------------------------------------------------------------------- *)
Definition j_bytes (l : list Z) : J := jz_list l.
Definition j_erow (e : erow) : J := JL [JZ (e_left e); JZ (e_right e); JZ (e_parent e); JZ (e_child e)].
Definition j_site (s : site) : J := JL [JZ (s_pos s); j_bytes (s_anc s); j_bytes (s_md s)].
Definition j_mut (m : mutation) : J :=
  JL [JZ (m_site m); JZ (m_node m); j_bytes (m_der m); JZ (m_parent m); jopt (m_time m); j_bytes (m_md m)].
Definition j_grow (g : grow) : J :=
  JL [JZ (g_left g); JZ (g_right g); JZ (g_node g); JZ (g_source g); JZ (g_dest g); JZ (g_time g)].
Definition j_tables (t : tables) : J :=
  JL [JL (map j_erow (t_edges t)); j_bytes (t_emd t); j_bytes (t_eoff t);
      JL (map j_site (t_sites t)); JL (map j_mut (t_muts t));
      JL (map j_grow (t_migs t)); j_bytes (t_gmd t); j_bytes (t_goff t)].

Definition j_res (r : res tables) : J :=
  match r with
  | Ok t => JL [JZ 0; j_tables t]
  | Err c => JL [JZ 1; JZ c]
  | OOB => JL [JZ 2]
  | Fuel => JL [JZ 3]
  end.

Definition same_nodes_inds_pops (a b : tables) : Prop :=
  t_L a = t_L b /\ t_nodes a = t_nodes b /\ t_inds a = t_inds b /\ t_pops a = t_pops b.

Definition j_index (t : tables) : J :=
  match t_index t with Some (a, b) => JL [j_bytes a; j_bytes b] | None => JN end.
Definition j_parents (t : tables) : J := j_bytes (map m_parent (t_muts t)).

Definition j_res_with (f : tables -> J) (r : res tables) : J :=
  match r with
  | Ok t => JL [JZ 0; f t]
  | Err c => JL [JZ 1; JZ c]
  | OOB => JL [JZ 2]
  | Fuel => JL [JZ 3]
  end.

(* the repair pipeline of the property text *)
Definition repair (Q : qsorts) (t : tables) : res tables :=
  do t1 <- py_sort Q 0 0 0 t;
  do t2 <- deduplicate_sites t1;
  do t3 <- py_sort Q 0 0 0 t2;
  do t4 <- build_index Q t3;
  compute_mutation_parents t4.

Definition j_ind (r : individual) : J := JL [JZ (i_flags r); j_bytes (i_loc r); j_bytes (i_parents r); j_bytes (i_md r)].
Definition j_inds_nodes (t : tables) : J := JL [JL (map j_ind (t_inds t)); j_bytes (map n_ind (t_nodes t))].

Definition j_tables_inds (t : tables) : J := JL [j_tables t; j_inds_nodes t].
