(* C07 — generic facts about the helpers of Model.v: mapM, indexed, fill_id_map,
   ragged buffers (slice / write_at / copy_back), sorted permutations. *)
From Coq Require Import List ZArith Bool Lia Permutation Sorted.
From TskVerif Require Import Base.Common C07.Model.
Import ListNotations.
Open Scope Z_scope.

(* ---------------------------------------------------------------------- *)
(* get / set                                                              *)
(* ---------------------------------------------------------------------- *)
Lemma get_nth_error {A} (l : list A) i a :
  get l i = Ok a <-> 0 <= i /\ nth_error l (Z.to_nat i) = Some a.
Proof.
  unfold get. destruct (i <? 0) eqn:E.
  - apply Z.ltb_lt in E. split; [discriminate | lia].
  - apply Z.ltb_ge in E. destruct (nth_error l (Z.to_nat i)) eqn:N; split; intro H.
    + inversion H; subst. auto.
    + destruct H as [_ H]. congruence.
    + discriminate.
    + destruct H; discriminate.
Qed.

Lemma get_of_nat {A} (l : list A) (p : nat) a :
  nth_error l p = Some a -> get l (Z.of_nat p) = Ok a.
Proof. intro H. apply get_nth_error. split; [lia|]. now rewrite Nat2Z.id. Qed.

Lemma get_lt {A} (l : list A) i a : get l i = Ok a -> 0 <= i < zlen l.
Proof. intro H. apply get_ok_iff. eauto. Qed.

Lemma get_in {A} (l : list A) i a : get l i = Ok a -> In a l.
Proof. intro H. apply get_nth_error in H as [_ H]. eapply nth_error_In; eauto. Qed.

Lemma get_map {A B} (f : A -> B) l i a : get l i = Ok a -> get (map f l) i = Ok (f a).
Proof.
  intro H. apply get_nth_error in H as [H0 H]. apply get_nth_error. split; auto.
  rewrite nth_error_map, H. reflexivity.
Qed.

Lemma get_not_ok_cases {A} (l : list A) i : (exists a, get l i = Ok a) \/ get l i = OOB.
Proof.
  unfold get. destruct (i <? 0); [now right|]. destruct (nth_error l (Z.to_nat i)); eauto.
Qed.

Lemma set_nat_spec {A} (l : list A) i a :
  (i < length l)%nat ->
  exists l', set_nat l i a = Some l' /\ length l' = length l /\
             nth_error l' i = Some a /\ (forall k, k <> i -> nth_error l' k = nth_error l k).
Proof.
  revert i; induction l as [|h t IH]; intros [|i] Hlt; simpl in *; try lia.
  - exists (a :: t). repeat split; auto. intros [|k] Hk; [congruence | reflexivity].
  - destruct (IH i) as (t' & E & Hl & Hn & Ho); [lia|]. rewrite E.
    exists (h :: t'). simpl. repeat split; auto. intros [|k] Hk; simpl; auto.
Qed.

Lemma set_nat_none {A} (l : list A) i a : set_nat l i a = None -> (length l <= i)%nat.
Proof.
  revert i; induction l as [|h t IH]; intros [|i] H; simpl in *; try lia; try discriminate.
  destruct (set_nat t i a) eqn:E; [discriminate|]. apply IH in E. lia.
Qed.

Lemma set_spec {A} (l : list A) i a :
  0 <= i < zlen l ->
  exists l', set l i a = Ok l' /\ length l' = length l /\ get l' i = Ok a /\
             (forall k, k <> i -> get l' k = get l k).
Proof.
  intros H. unfold set, zlen in *. destruct (i <? 0) eqn:E; [apply Z.ltb_lt in E; lia|].
  destruct (set_nat_spec l (Z.to_nat i) a) as (l' & E' & Hl & Hn & Ho); [lia|].
  rewrite E'. exists l'. repeat split; auto.
  - apply get_nth_error. split; [lia | auto].
  - intros k Hk. unfold get. destruct (k <? 0) eqn:Ek; auto.
    apply Z.ltb_ge in Ek. rewrite Ho; auto. intro. apply Hk. apply Z2Nat.inj; lia.
Qed.

Lemma set_nat_some_lt {A} (l : list A) i a l' : set_nat l i a = Some l' -> (i < length l)%nat.
Proof.
  revert i l'; induction l as [|h t IH]; intros [|i] l' H; simpl in *; try discriminate; try lia.
  destruct (set_nat t i a) eqn:E; [|discriminate]. apply IH in E. lia.
Qed.

Lemma set_ok_inv {A} (l : list A) i a l' :
  set l i a = Ok l' -> 0 <= i < zlen l /\ length l' = length l /\ get l' i = Ok a /\
                       (forall k, k <> i -> get l' k = get l k).
Proof.
  intro H. assert (R : 0 <= i < zlen l).
  { unfold set in H. destruct (i <? 0) eqn:E; [discriminate|]. apply Z.ltb_ge in E.
    destruct (set_nat l (Z.to_nat i) a) eqn:S; [|discriminate].
    apply set_nat_some_lt in S. unfold zlen. lia. }
  split; auto. destruct (set_spec l i a R) as (l2 & E & H1 & H2 & H3).
  rewrite E in H. inversion H; subst. auto.
Qed.

(* ---------------------------------------------------------------------- *)
(* mapM                                                                   *)
(* ---------------------------------------------------------------------- *)
Lemma mapM_ok_inv {A B} (f : A -> res B) l l' :
  mapM f l = Ok l' -> Forall2 (fun x y => f x = Ok y) l l'.
Proof.
  revert l'; induction l as [|x t IH]; intros l' H; simpl in H.
  - inversion H. constructor.
  - destruct (f x) eqn:E; try discriminate. simpl in H.
    destruct (mapM f t) eqn:E2; try discriminate. simpl in H. inversion H; subst.
    constructor; auto.
Qed.

Lemma mapM_ok_intro {A B} (f : A -> res B) l l' :
  Forall2 (fun x y => f x = Ok y) l l' -> mapM f l = Ok l'.
Proof. induction 1; simpl; auto. rewrite H, IHForall2. reflexivity. Qed.

Lemma mapM_total {A B} (f : A -> res B) l :
  (forall x, In x l -> exists y, f x = Ok y) -> exists l', mapM f l = Ok l'.
Proof.
  induction l as [|x t IH]; intro H; simpl; eauto.
  destruct (H x) as [y E]; [now left|]. rewrite E. simpl.
  destruct IH as [l' E2]; [intros; apply H; now right|]. rewrite E2. simpl. eauto.
Qed.

Lemma mapM_pure {A B} (g : A -> B) l : mapM (fun x => Ok (g x)) l = Ok (map g l).
Proof. induction l; simpl; auto. rewrite IHl. reflexivity. Qed.

Lemma Forall2_length' {A B} (R : A -> B -> Prop) l l' : Forall2 R l l' -> length l = length l'.
Proof. induction 1; simpl; auto. Qed.

Lemma Forall2_map_eq {A B} (f g : A -> B) l l' :
  Forall2 (fun x y => f x = g y) l l' -> map f l = map g l'.
Proof. induction 1; simpl; congruence. Qed.

(* errors of mapM are errors of some element *)
Lemma mapM_not_ok {A B} (f : A -> res B) l r :
  mapM f l = r -> (forall l', r <> Ok l') -> exists x, In x l /\ f x = match r with Ok _ => f x | Err c => Err c | OOB => OOB | Fuel => Fuel end /\ (forall y, f x <> Ok y).
Proof.
  revert r; induction l as [|x t IH]; intros r H N; simpl in H.
  - subst. exfalso. eapply N; eauto.
  - destruct (f x) eqn:E; simpl in H.
    + destruct (mapM f t) eqn:E2; simpl in H.
      * subst. exfalso. eapply N; eauto.
      * destruct (IH (Err code) eq_refl) as (y & I & F & G); [discriminate|]. subst.
        exists y. split; [now right|]. auto.
      * destruct (IH OOB eq_refl) as (y & I & F & G); [discriminate|]. subst.
        exists y. split; [now right|]. auto.
      * destruct (IH Fuel eq_refl) as (y & I & F & G); [discriminate|]. subst.
        exists y. split; [now right|]. auto.
    + subst. exists x. split; [now left|]. rewrite E. split; auto. discriminate.
    + subst. exists x. split; [now left|]. rewrite E. split; auto. discriminate.
    + subst. exists x. split; [now left|]. rewrite E. split; auto. discriminate.
Qed.

(* ---------------------------------------------------------------------- *)
(* indexed                                                                *)
(* ---------------------------------------------------------------------- *)
Fixpoint zseq (i : Z) (n : nat) : list Z :=
  match n with O => [] | S n' => i :: zseq (i + 1) n' end.

Lemma indexed_snd {A} i (l : list A) : map snd (indexed i l) = l.
Proof. revert i; induction l; intro i; simpl; congruence. Qed.

Lemma indexed_fst {A} i (l : list A) : map fst (indexed i l) = zseq i (length l).
Proof. revert i; induction l; intro i; simpl; congruence. Qed.

Lemma indexed_length {A} i (l : list A) : length (indexed i l) = length l.
Proof. revert i; induction l; intro i; simpl; auto. Qed.

Lemma indexed_in {A} i (l : list A) j x :
  In (j, x) (indexed i l) <-> i <= j /\ nth_error l (Z.to_nat (j - i)) = Some x.
Proof.
  revert i; induction l as [|a t IH]; intro i; simpl.
  - split; [tauto|]. intros [_ H]. destruct (Z.to_nat (j - i)); discriminate.
  - rewrite IH. split.
    + intros [H | [H1 H2]].
      * inversion H; subst. rewrite Z.sub_diag. simpl. auto with zarith.
      * split; [lia|]. replace (Z.to_nat (j - i)) with (S (Z.to_nat (j - (i + 1)))) by lia. auto.
    + intros [H1 H2]. destruct (Z.eq_dec i j) as [->|N].
      * rewrite Z.sub_diag in H2. simpl in H2. inversion H2. now left.
      * right. split; [lia|].
        replace (Z.to_nat (j - i)) with (S (Z.to_nat (j - (i + 1)))) in H2 by lia. auto.
Qed.

Lemma indexed_get {A} (l : list A) j x : In (j, x) (indexed 0 l) <-> get l j = Ok x.
Proof. rewrite indexed_in, get_nth_error. rewrite Z.sub_0_r. tauto. Qed.

Lemma zseq_in i n x : In x (zseq i n) <-> i <= x < i + Z.of_nat n.
Proof.
  revert i; induction n; intro i; simpl; [lia|]. rewrite IHn. lia.
Qed.

Lemma zseq_NoDup i n : NoDup (zseq i n).
Proof.
  revert i; induction n; intro i; simpl; constructor; auto. rewrite zseq_in. lia.
Qed.

Lemma zseq_length i n : length (zseq i n) = n.
Proof. revert i; induction n; intro; simpl; auto. Qed.

Lemma indexed_NoDup {A} i (l : list A) : NoDup (indexed i l).
Proof.
  apply (NoDup_map_inv fst). rewrite indexed_fst. apply zseq_NoDup.
Qed.

(* ---------------------------------------------------------------------- *)
(* fill_id_map: the inverse permutation                                   *)
(* ---------------------------------------------------------------------- *)
Lemma fill_id_map_spec ids : forall j a,
  NoDup ids -> (forall id, In id ids -> 0 <= id < zlen a) ->
  exists a', fill_id_map ids j a = Ok a' /\ length a' = length a /\
    (forall p id, nth_error ids p = Some id -> get a' id = Ok (j + Z.of_nat p)) /\
    (forall k, ~ In k ids -> get a' k = get a k).
Proof.
  induction ids as [|id t IH]; intros j a ND R; simpl.
  - exists a. repeat split; auto. intros [|p] id H; discriminate.
  - inversion ND; subst.
    destruct (set_spec a id j) as (a1 & E & L1 & G1 & O1); [apply R; now left|].
    rewrite E. simpl.
    destruct (IH (j + 1) a1) as (a' & E' & L' & P' & K'); auto.
    { intros x Hx. unfold zlen. rewrite L1. apply R. now right. }
    exists a'. rewrite E'. repeat split; [congruence| |].
    + intros [|p] x Hp; simpl in Hp.
      * inversion Hp; subst. rewrite K'; auto. rewrite G1. f_equal. lia.
      * rewrite (P' p x Hp). f_equal. lia.
    + intros k Hk. rewrite K' by (intro; apply Hk; now right).
      apply O1. intro; subst. apply Hk. now left.
Qed.

Lemma Permutation_zseq_range ids n :
  Permutation (zseq 0 n) ids -> NoDup ids /\ (forall id, In id ids <-> 0 <= id < Z.of_nat n) /\ length ids = n.
Proof.
  intro P. split; [eapply Permutation_NoDup; eauto; apply zseq_NoDup|]. split.
  - intro id. rewrite <- (zseq_in 0 n id). split; apply Permutation_in; auto. now symmetry.
  - rewrite <- (Permutation_length P). apply zseq_length.
Qed.

(* ---------------------------------------------------------------------- *)
(* sorted permutations                                                    *)
(* ---------------------------------------------------------------------- *)
Section SortedUnique.
  Context {A : Type} (le : A -> A -> Prop).

  (* transitivity only on the elements of the list *)
  Lemma Sorted_StronglySorted_on l :
    (forall a b c, In a l -> In b l -> In c l -> le a b -> le b c -> le a c) ->
    Sorted le l -> StronglySorted le l.
  Proof.
    induction l as [|x t IH]; intros T S; constructor.
    - apply IH; [intros; eapply T; eauto; now right | now inversion S].
    - inversion S as [|? ? S' Hd]; subst.
      assert (SS : StronglySorted le t) by (apply IH; auto; intros; eapply T; eauto; now right).
      destruct t as [|y t']; constructor.
      + now inversion Hd.
      + inversion Hd; subst. inversion SS; subst.
        rewrite Forall_forall in *. intros z Hz. apply (T x y z); auto.
        * now left.
        * right; now left.
        * right; now right.
  Qed.

  Lemma StronglySorted_perm_unique l1 l2 :
    (forall a b, In a l1 -> In b l1 -> le a b -> le b a -> a = b) ->
    StronglySorted le l1 -> StronglySorted le l2 -> Permutation l1 l2 -> l1 = l2.
  Proof.
    revert l2; induction l1 as [|x t IH]; intros l2 AS S1 S2 P.
    - apply Permutation_nil in P. now subst.
    - destruct l2 as [|y t2]; [apply Permutation_sym, Permutation_nil in P; discriminate|].
      assert (x = y).
      { inversion S1 as [|? ? S1' F1]; inversion S2 as [|? ? S2' F2]; subst.
        rewrite Forall_forall in F1, F2.
        assert (Iy : In y (x :: t)) by (eapply Permutation_in; [symmetry; eauto | now left]).
        assert (Ix : In x (y :: t2)) by (eapply Permutation_in; [eauto | now left]).
        destruct Iy as [->|Iy]; auto. destruct Ix as [->|Ix]; auto.
        apply AS; [now left | now right | auto | auto]. }
      subst y. f_equal. apply IH.
      + intros; apply AS; auto; now right.
      + now inversion S1.
      + now inversion S2.
      + eapply Permutation_cons_inv; eauto.
  Qed.
End SortedUnique.

Lemma StronglySorted_map_iff {A B} (f : A -> B) (R : B -> B -> Prop) l :
  StronglySorted R (map f l) <-> StronglySorted (fun a b => R (f a) (f b)) l.
Proof.
  induction l; simpl; split; intro H; try constructor; inversion H; subst.
  - now apply IHl.
  - rewrite Forall_map in *. auto.
  - now apply IHl.
  - rewrite Forall_map. auto.
Qed.

Lemma Sorted_map_iff {A B} (f : A -> B) (R : B -> B -> Prop) l :
  Sorted R (map f l) <-> Sorted (fun a b => R (f a) (f b)) l.
Proof.
  induction l; simpl; split; intro H; try constructor; inversion H; subst.
  - now apply IHl.
  - destruct l; simpl in *; constructor. inversion H3; auto.
  - now apply IHl.
  - destruct l; simpl in *; constructor. inversion H3; auto.
Qed.

Lemma Sorted_impl {A} (R R' : A -> A -> Prop) l :
  (forall a b, R a b -> R' a b) -> Sorted R l -> Sorted R' l.
Proof.
  intros H. induction 1; constructor; auto. destruct H1; constructor; auto.
Qed.

Lemma StronglySorted_zseq i n : StronglySorted Z.lt (zseq i n).
Proof.
  revert i; induction n; intro i; simpl; constructor; auto.
  apply Forall_forall. intros x Hx. apply zseq_in in Hx. lia.
Qed.
