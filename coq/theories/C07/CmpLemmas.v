(* C07 — the comparators of tables.c as order relations: what "cmp a b <= 0" means in
   terms of the documented sort keys, and where they are transitive / antisymmetric. *)
From Coq Require Import List ZArith Bool Lia Permutation Sorted.
From TskVerif Require Import Base.Common C07.Model C07.ListLemmas.
Import ListNotations.
Open Scope Z_scope.

Lemma cmp3_le a b : cmp3 a b <= 0 <-> a <= b.
Proof. unfold cmp3. destruct (b <? a) eqn:A, (a <? b) eqn:B;
  try apply Z.ltb_lt in A; try apply Z.ltb_lt in B; try apply Z.ltb_ge in A; try apply Z.ltb_ge in B; lia. Qed.
Lemma cmp3_lt a b : cmp3 a b < 0 <-> a < b.
Proof. unfold cmp3. destruct (b <? a) eqn:A, (a <? b) eqn:B;
  try apply Z.ltb_lt in A; try apply Z.ltb_lt in B; try apply Z.ltb_ge in A; try apply Z.ltb_ge in B; lia. Qed.
Lemma cmp3_eq a b : cmp3 a b = 0 <-> a = b.
Proof. unfold cmp3. destruct (b <? a) eqn:A, (a <? b) eqn:B;
  try apply Z.ltb_lt in A; try apply Z.ltb_lt in B; try apply Z.ltb_ge in A; try apply Z.ltb_ge in B; lia. Qed.

Lemma then_cmp_le r k : then_cmp r k <= 0 <-> r < 0 \/ (r = 0 /\ k <= 0).
Proof. unfold then_cmp. destruct (r =? 0) eqn:E; [apply Z.eqb_eq in E | apply Z.eqb_neq in E]; lia. Qed.
Lemma then_cmp_lt r k : then_cmp r k < 0 <-> r < 0 \/ (r = 0 /\ k < 0).
Proof. unfold then_cmp. destruct (r =? 0) eqn:E; [apply Z.eqb_eq in E | apply Z.eqb_neq in E]; lia. Qed.
Lemma then_cmp_eq r k : then_cmp r k = 0 <-> r = 0 /\ k = 0.
Proof. unfold then_cmp. destruct (r =? 0) eqn:E; [apply Z.eqb_eq in E | apply Z.eqb_neq in E]; lia. Qed.

(* ---------------------------------------------------------------------- *)
(* lexicographic order on key lists                                        *)
(* ---------------------------------------------------------------------- *)
Fixpoint lex_le (a b : list Z) : Prop :=
  match a, b with
  | x :: a', y :: b' => x < y \/ (x = y /\ lex_le a' b')
  | _, _ => True
  end.

Lemma lex_le_trans a : forall b c, length a = length b -> length b = length c ->
  lex_le a b -> lex_le b c -> lex_le a c.
Proof.
  induction a as [|x a IH]; intros [|y b] [|z c] L1 L2 H1 H2; simpl in *; auto; try discriminate.
  injection L1 as L1. injection L2 as L2.
  destruct H1 as [H1|[-> H1]], H2 as [H2|[-> H2]]; try (left; lia).
  right. split; auto. eapply IH; eauto.
Qed.

Lemma lex_le_antisym a : forall b, length a = length b -> lex_le a b -> lex_le b a -> a = b.
Proof.
  induction a as [|x a IH]; intros [|y b] L H1 H2; simpl in *; auto; try discriminate.
  injection L as L.
  destruct H1 as [H1|[-> H1]], H2 as [H2|[E H2]]; try lia. f_equal. apply IH; auto.
Qed.

(* ---------------------------------------------------------------------- *)
(* documented keys                                                         *)
(* ---------------------------------------------------------------------- *)
Definition edge_sort_key (e : edge_sort) : list Z :=
  [es_time e; e_parent (es_row e); e_child (es_row e); e_left (es_row e)].
Definition mig_key (g : grow) : list Z := [g_time g; g_source g; g_dest g; g_left g; g_node g].
Definition index_key (r : index_sort) : list Z := [is_first r; is_second r; is_third r; is_fourth r].
Definition edge_cl_key (e : erow) : list Z := [e_parent e; e_child e; e_left e].

Lemma cmp_edge_le a b : cmp_edge a b <= 0 <-> lex_le (edge_sort_key a) (edge_sort_key b).
Proof. unfold cmp_edge, edge_sort_key; simpl.
  repeat rewrite then_cmp_le. repeat rewrite cmp3_lt. repeat rewrite cmp3_eq. rewrite cmp3_le. lia. Qed.
Lemma cmp_migration_le a b : cmp_migration a b <= 0 <-> lex_le (mig_key (gs_row a)) (mig_key (gs_row b)).
Proof. unfold cmp_migration, mig_key; simpl.
  repeat rewrite then_cmp_le. repeat rewrite cmp3_lt. repeat rewrite cmp3_eq. rewrite cmp3_le. lia. Qed.
Lemma cmp_index_sort_le a b : cmp_index_sort a b <= 0 <-> lex_le (index_key a) (index_key b).
Proof. unfold cmp_index_sort, index_key; simpl.
  repeat rewrite then_cmp_le. repeat rewrite cmp3_lt. repeat rewrite cmp3_eq. rewrite cmp3_le. lia. Qed.
Lemma cmp_edge_cl_le a b : cmp_edge_cl a b <= 0 <-> lex_le (edge_cl_key a) (edge_cl_key b).
Proof. unfold cmp_edge_cl, edge_cl_key; simpl.
  repeat rewrite then_cmp_le. repeat rewrite cmp3_lt. repeat rewrite cmp3_eq. rewrite cmp3_le. lia. Qed.

(* sites: by position, then by original row id *)
Definition site_le (a b : Z * site) : Prop :=
  s_pos (snd a) < s_pos (snd b) \/ (s_pos (snd a) = s_pos (snd b) /\ fst a <= fst b).
Lemma cmp_site_le a b : cmp_site a b <= 0 <-> site_le a b.
Proof. unfold cmp_site, site_le. rewrite then_cmp_le, cmp3_lt, cmp3_eq, cmp3_le. tauto. Qed.

(* mutations: by site; inside a site older first when both times are known; otherwise
   (equal times, or one of the two unknown) by original row id *)
Definition time_before (ta tb : option Z) : Prop :=      (* strictly older, both known *)
  match ta, tb with Some x, Some y => y < x | _, _ => False end.
Definition time_tied (ta tb : option Z) : Prop :=
  match ta, tb with Some x, Some y => x = y | _, _ => True end.
Definition mut_le (a b : Z * mutation) : Prop :=
  m_site (snd a) < m_site (snd b) \/
  (m_site (snd a) = m_site (snd b) /\
   (time_before (m_time (snd a)) (m_time (snd b)) \/
    (time_tied (m_time (snd a)) (m_time (snd b)) /\ fst a <= fst b))).

Lemma cmp_time_desc_lt ta tb : cmp_time_desc ta tb < 0 <-> time_before ta tb.
Proof. destruct ta, tb; simpl; try lia. apply cmp3_lt. Qed.
Lemma cmp_time_desc_eq ta tb : cmp_time_desc ta tb = 0 <-> time_tied ta tb.
Proof. destruct ta, tb; simpl; try tauto. rewrite cmp3_eq. split; congruence. Qed.

Lemma cmp_mutation_le a b : cmp_mutation a b <= 0 <-> mut_le a b.
Proof. unfold cmp_mutation, mut_le.
  rewrite then_cmp_le, cmp3_lt, cmp3_eq, then_cmp_le, cmp_time_desc_lt, cmp_time_desc_eq, cmp3_le. tauto. Qed.

(* canonical mutation order: site, time (older first, both known), more descendants first,
   node, original id *)
Definition mutc_le (a b : mutc_sort) : Prop :=
  let ma := mc_mut a in let mb := mc_mut b in
  m_site ma < m_site mb \/
  (m_site ma = m_site mb /\
   (time_before (m_time ma) (m_time mb) \/
    (time_tied (m_time ma) (m_time mb) /\
     (mc_nd b < mc_nd a \/
      (mc_nd b = mc_nd a /\
       (m_node ma < m_node mb \/ (m_node ma = m_node mb /\ mc_id a <= mc_id b))))))).
Lemma cmp_mutation_canonical_le a b : cmp_mutation_canonical a b <= 0 <-> mutc_le a b.
Proof. unfold cmp_mutation_canonical, mutc_le. cbv zeta.
  repeat rewrite then_cmp_le. rewrite cmp_time_desc_lt, cmp_time_desc_eq.
  repeat rewrite cmp3_lt. repeat rewrite cmp3_eq. rewrite cmp3_le. tauto. Qed.

(* ---------------------------------------------------------------------- *)
(* transitivity / antisymmetry                                             *)
(* ---------------------------------------------------------------------- *)
Lemma site_le_trans a b c : site_le a b -> site_le b c -> site_le a c.
Proof. unfold site_le. lia. Qed.
Lemma site_le_antisym a b : site_le a b -> site_le b a -> fst a = fst b.
Proof. unfold site_le. lia. Qed.

(* cmp_mutation is an order only when known and unknown times do not meet inside a site *)
Definition same_kind (ta tb : option Z) : Prop :=
  match ta, tb with Some _, Some _ => True | None, None => True | _, _ => False end.

Lemma mut_le_trans a b c :
  (m_site (snd a) = m_site (snd b) -> same_kind (m_time (snd a)) (m_time (snd b))) ->
  (m_site (snd b) = m_site (snd c) -> same_kind (m_time (snd b)) (m_time (snd c))) ->
  mut_le a b -> mut_le b c -> mut_le a c.
Proof.
  unfold mut_le. intros K1 K2 H1 H2.
  destruct H1 as [H1|[E1 H1]]; destruct H2 as [H2|[E2 H2]]; try (left; lia).
  right. split; [lia|]. specialize (K1 E1). specialize (K2 E2).
  destruct (m_time (snd a)), (m_time (snd b)), (m_time (snd c)); simpl in *; try tauto; try lia.
Qed.

Lemma mut_le_antisym a b : mut_le a b -> mut_le b a -> fst a = fst b.
Proof.
  unfold mut_le. intros H1 H2.
  destruct H1 as [H1|[E1 H1]]; destruct H2 as [H2|[E2 H2]]; try lia.
  destruct (m_time (snd a)), (m_time (snd b)); simpl in *; try tauto; lia.
Qed.

(* the 3-cycle behind the restriction: a(known 1) <= b(unknown) <= c(known 2) but c before a *)
Example cmp_mutation_not_transitive :
  let a := (0, mkMut 0 0 NULL (Some 1) [] []) in
  let b := (1, mkMut 0 0 NULL None [] []) in
  let c := (2, mkMut 0 0 NULL (Some 2) [] []) in
  cmp_mutation a b <= 0 /\ cmp_mutation b c <= 0 /\ ~ cmp_mutation a c <= 0.
Proof. vm_compute. split; [discriminate | split; [discriminate | intro H; apply H; reflexivity]]. Qed.
