(* C07 — sort() output as a function of the row MULTISET: two collections whose edge rows,
   migration rows (full rows incl. metadata) and site rows are permutations of each other get
   identical sorted edge, migration and site tables, provided the sort keys are distinct on the
   rows present (edge key, five migration keys, site position). *)
From Coq Require Import List ZArith Bool Lia Permutation Sorted.
From TskVerif Require Import Base.Common C07.Model C07.ListLemmas C07.CmpLemmas C07.SortProofs
     C07.RaggedProofs C07.TopProofs C07.IdemProofs C07.EdgeOrderProofs.
Import ListNotations.
Open Scope Z_scope.

(* two sorted permutations of each other are equal when the key is injective on the rows *)
Lemma sorted_perm_by_key_unique {A} (key : A -> list Z) (n : nat) (l1 l2 : list A) :
  (forall a, length (key a) = n) ->
  Sorted (fun a b => lex_le (key a) (key b)) l1 -> Sorted (fun a b => lex_le (key a) (key b)) l2 ->
  Permutation l1 l2 -> NoDup (map key l1) -> l1 = l2.
Proof.
  intros Ln S1 S2 P ND.
  assert (T : forall a b c : A, lex_le (key a) (key b) -> lex_le (key b) (key c) -> lex_le (key a) (key c)).
  { intros a b c. apply lex_le_trans; rewrite !Ln; reflexivity. }
  apply (StronglySorted_perm_unique (fun a b => lex_le (key a) (key b))); auto.
  - intros a b Ha Hb H1 H2. apply (NoDup_map_inj_in key l1); auto.
    apply lex_le_antisym; auto; try (now rewrite !Ln).
  - apply Sorted_StronglySorted; auto; intros a b c; apply T.
  - apply Sorted_StronglySorted; auto; intros a b c; apply T.
Qed.

Lemma Sorted_combine_fst {A B} (R : A -> A -> Prop) (a : list A) (b : list B) :
  length a = length b -> Sorted R a -> Sorted (fun x y => R (fst x) (fst y)) (combine a b).
Proof.
  intros L S. apply Sorted_map_iff. now rewrite map_fst_combine.
Qed.

Lemma combine_eq_inv {A B} (a1 a2 : list A) (b1 b2 : list B) :
  length a1 = length b1 -> length a2 = length b2 -> combine a1 b1 = combine a2 b2 -> a1 = a2 /\ b1 = b2.
Proof.
  intros L1 L2 E. split.
  - rewrite <- (map_fst_combine a1 b1 L1), <- (map_fst_combine a2 b2 L2). now rewrite E.
  - rewrite <- (map_snd_combine a1 b1 L1), <- (map_snd_combine a2 b2 L2). now rewrite E.
Qed.

Lemma NoDup_keys_combine {A B} (key : A -> list Z) (a : list A) (b : list B) :
  length a = length b -> NoDup (map key a) -> NoDup (map (fun p => key (fst p)) (combine a b)).
Proof.
  intros L ND. rewrite <- (map_map fst key). now rewrite map_fst_combine.
Qed.

Definition pos_key (s : site) : list Z := [s_pos s].

Theorem sort_row_multiset Q t u mds gds nds hds t' u' :
  qsorts_ok Q ->
  check_refs t = true -> edges_wf t mds -> migs_wf t gds ->
  check_refs u = true -> edges_wf u nds -> migs_wf u hds ->
  t_nodes t = t_nodes u ->
  Permutation (combine (t_edges t) mds) (combine (t_edges u) nds) ->
  Permutation (combine (t_migs t) gds) (combine (t_migs u) hds) ->
  Permutation (t_sites t) (t_sites u) ->
  NoDup (map (edge_key (map n_time (t_nodes t))) (t_edges t)) ->
  NoDup (map mig_key (t_migs t)) ->
  NoDup (map s_pos (t_sites t)) ->
  table_sort Q None t = Ok t' -> table_sort Q None u = Ok u' ->
  t_edges t' = t_edges u' /\ t_emd t' = t_emd u' /\ t_eoff t' = t_eoff u' /\
  t_migs t' = t_migs u' /\ t_gmd t' = t_gmd u' /\ t_goff t' = t_goff u' /\
  t_sites t' = t_sites u'.
Proof.
  intros HQ CRt EWt GWt CRu EWu GWu En Pe Pg Ps NDe NDg NDs Et Eu.
  destruct (table_sort_spec Q HQ t mds gds CRt EWt GWt) as (t1 & mds1 & gds1 & sp1 & mp1 & E1 & P1).
  rewrite Et in E1. inversion E1; subst t1. clear E1.
  destruct (table_sort_spec Q HQ u nds hds CRu EWu GWu) as (u1 & nds1 & hds1 & sp2 & mp2 & E2 & P2).
  rewrite Eu in E2. inversion E2; subst u1. clear E2.
  destruct P1 as ((A1 & A2 & A3) & (B1 & B2 & B3) & Pe1 & Pg1 & Se1 & Sg1 & SW1 & _).
  destruct P2 as ((C1 & C2 & C3) & (D1 & D2 & D3) & Pe2 & Pg2 & Se2 & Sg2 & SW2 & _).
  destruct EWt as (_ & _ & Lt). destruct GWt as (_ & _ & Lgt).
  set (time := map n_time (t_nodes t)) in *. rewrite <- En in Se2. fold time in Se2.
  (* edges *)
  assert (Ee : combine (t_edges t') mds1 = combine (t_edges u') nds1).
  { apply (sorted_perm_by_key_unique (fun p : erow * list Z => edge_key time (fst p)) 4).
    - intro a. reflexivity.
    - apply (Sorted_combine_fst (edge_le time)); auto.
    - apply (Sorted_combine_fst (edge_le time)); auto.
    - eapply Permutation_trans; [symmetry; exact Pe1|]. eapply Permutation_trans; [exact Pe|exact Pe2].
    - eapply Permutation_NoDup; [apply Permutation_map; exact Pe1|]. apply NoDup_keys_combine; auto. }
  destruct (combine_eq_inv _ _ _ _ (eq_sym A3) (eq_sym C3) Ee) as [Ee1 Ee2].
  (* migrations *)
  assert (Eg : combine (t_migs t') gds1 = combine (t_migs u') hds1).
  { apply (sorted_perm_by_key_unique (fun p : grow * list Z => mig_key (fst p)) 5).
    - intro a. reflexivity.
    - apply (Sorted_combine_fst mig_le); auto.
    - apply (Sorted_combine_fst mig_le); auto.
    - eapply Permutation_trans; [symmetry; exact Pg1|]. eapply Permutation_trans; [exact Pg|exact Pg2].
    - eapply Permutation_NoDup; [apply Permutation_map; exact Pg1|]. apply NoDup_keys_combine; auto. }
  destruct (combine_eq_inv _ _ _ _ (eq_sym B3) (eq_sym D3) Eg) as [Eg1 Eg2].
  (* sites *)
  assert (Es : t_sites t' = t_sites u').
  { apply (sorted_perm_by_key_unique pos_key 1).
    - intro a. reflexivity.
    - destruct SW1 as (_ & F & S).
      assert (Sp : Sorted (fun a b => s_pos a <= s_pos b) (t_sites t')).
      { eapply Sorted_combine_pos; [|exact S]. eapply Forall2_length'; eauto. }
      eapply Sorted_impl; [|exact Sp]. intros a b H. cbv beta in H. unfold pos_key. simpl. destruct (Z.eq_dec (s_pos a) (s_pos b)); [right; split; auto | left; lia].
    - destruct SW2 as (_ & F & S).
      assert (Sp : Sorted (fun a b => s_pos a <= s_pos b) (t_sites u')).
      { eapply Sorted_combine_pos; [|exact S]. eapply Forall2_length'; eauto. }
      eapply Sorted_impl; [|exact Sp]. intros a b H. cbv beta in H. unfold pos_key. simpl. destruct (Z.eq_dec (s_pos a) (s_pos b)); [right; split; auto | left; lia].
    - eapply Permutation_trans; [symmetry; eapply sites_witness_perm; eauto|].
      eapply Permutation_trans; [exact Ps | eapply sites_witness_perm; eauto].
    - assert (NoDup (map s_pos (t_sites t'))).
      { eapply Permutation_NoDup; [apply Permutation_map; eapply sites_witness_perm; eauto | exact NDs]. }
      replace (map pos_key (t_sites t')) with (map (fun z => [z]) (map s_pos (t_sites t')))
        by (rewrite map_map; reflexivity).
      apply FinFun.Injective_map_NoDup; auto. intros x y E. now inversion E. }
  repeat split; auto; congruence.
Qed.

(* without mutations the whole result of sort() depends only on the row multisets *)
Corollary sort_row_multiset_no_mutations Q t u mds gds nds hds t' u' :
  qsorts_ok Q ->
  check_refs t = true -> edges_wf t mds -> migs_wf t gds ->
  check_refs u = true -> edges_wf u nds -> migs_wf u hds ->
  t_L t = t_L u -> t_nodes t = t_nodes u -> t_inds t = t_inds u -> t_pops t = t_pops u ->
  t_muts t = [] -> t_muts u = [] ->
  Permutation (combine (t_edges t) mds) (combine (t_edges u) nds) ->
  Permutation (combine (t_migs t) gds) (combine (t_migs u) hds) ->
  Permutation (t_sites t) (t_sites u) ->
  NoDup (map (edge_key (map n_time (t_nodes t))) (t_edges t)) ->
  NoDup (map mig_key (t_migs t)) ->
  NoDup (map s_pos (t_sites t)) ->
  table_sort Q None t = Ok t' -> table_sort Q None u = Ok u' -> t' = u'.
Proof.
  intros HQ CRt EWt GWt CRu EWu GWu EL En Ei Ep Mt Mu Pe Pg Ps NDe NDg NDs Et Eu.
  destruct (sort_row_multiset Q t u mds gds nds hds t' u' HQ CRt EWt GWt CRu EWu GWu En Pe Pg Ps NDe NDg NDs Et Eu)
    as (H1 & H2 & H3 & H4 & H5 & H6 & H7).
  destruct (table_sort_spec Q HQ t mds gds CRt EWt GWt) as (t1 & m1 & g1 & sp1 & mp1 & E1 & P1).
  rewrite Et in E1. inversion E1; subst t1. clear E1.
  destruct (table_sort_spec Q HQ u nds hds CRu EWu GWu) as (u1 & m2 & g2 & sp2 & mp2 & E2 & P2).
  rewrite Eu in E2. inversion E2; subst u1. clear E2.
  destruct P1 as (_ & _ & _ & _ & _ & _ & _ & (Pm1 & Fm1 & _) & (SL1 & Sn1 & Si1 & Sp1) & Ix1).
  destruct P2 as (_ & _ & _ & _ & _ & _ & _ & (Pm2 & Fm2 & _) & (SL2 & Sn2 & Si2 & Sp2) & Ix2).
  assert (Mt' : t_muts t' = []).
  { rewrite Mt in Pm1. simpl in Pm1. apply Permutation_nil in Pm1. subst mp1. now inversion Fm1. }
  assert (Mu' : t_muts u' = []).
  { rewrite Mu in Pm2. simpl in Pm2. apply Permutation_nil in Pm2. subst mp2. now inversion Fm2. }
  destruct t', u'. simpl in *. subst. f_equal; congruence.
Qed.
