(* C07 — compute_mutation_parents, the per-site computation (tables.c 12411-12452):
   given the parent array of the tree covering the site, the three passes over the
   mutations of the site assign to each one the nearest mutation above it (the latest
   earlier row on the same node first, else the last row of the first ancestor carrying a
   mutation of this site, else NULL), leave [bottom_mutation] all NULL again, and report
   TSK_ERR_MUTATION_PARENT_AFTER_CHILD exactly when such a parent has a larger row id. *)
From Coq Require Import List ZArith Bool Lia Permutation Sorted.
From TskVerif Require Import Base.Common C07.Model C07.ListLemmas C07.SortProofs C07.RaggedProofs.
Import ListNotations.
Open Scope Z_scope.

(* arrays as functions on their index range *)
Definition arr_is (a : list Z) (f : Z -> Z) : Prop := forall v, 0 <= v < zlen a -> get a v = Ok (f v).
Definition upd (f : Z -> Z) (i x : Z) : Z -> Z := fun v => if v =? i then x else f v.

Lemma arr_is_set a f i x a' : arr_is a f -> set a i x = Ok a' -> arr_is a' (upd f i x) /\ zlen a' = zlen a.
Proof.
  intros H S. apply set_ok_inv in S as (R & L & G & O).
  assert (Z : zlen a' = zlen a) by (unfold zlen; now rewrite L). split; auto.
  intros v Hv. unfold upd. destruct (v =? i) eqn:E.
  - apply Z.eqb_eq in E. now subst.
  - apply Z.eqb_neq in E. rewrite O by auto. apply H. now rewrite <- Z.
Qed.

Lemma arr_is_ext a f g : arr_is a f -> (forall v, 0 <= v < zlen a -> f v = g v) -> arr_is a g.
Proof. intros H E v Hv. rewrite H by auto. now rewrite E. Qed.

(* ---------------------------------------------------------------------- *)
(* specification                                                          *)
(* ---------------------------------------------------------------------- *)
(* id of the last mutation of the block (ids j, j+1, ...) sitting on node v, else [acc] *)
Fixpoint last_on (nodes_of : list Z) (j : Z) (v : Z) (acc : Z) : Z :=
  match nodes_of with
  | [] => acc
  | u :: tl => last_on tl (j + 1) v (if u =? v then j else acc)
  end.

(* first node at or above v carrying a mutation ([has] = its last mutation), else NULL *)
Inductive nearest_anc (par has : Z -> Z) : Z -> Z -> Prop :=
| na_null : nearest_anc par has NULL NULL
| na_here v : v <> NULL -> has v <> NULL -> nearest_anc par has v (has v)
| na_up v r : v <> NULL -> has v = NULL -> nearest_anc par has (par v) r -> nearest_anc par has v r.

Lemma nearest_anc_fun par has v r1 r2 : nearest_anc par has v r1 -> nearest_anc par has v r2 -> r1 = r2.
Proof.
  intro H. revert r2. induction H; intros r2 H2; inversion H2; subst; auto; try congruence.
Qed.

(* the nearest mutation above the k-th mutation of the block *)
Definition nearest_above (par : Z -> Z) (nodes_of : list Z) (first : Z) (k : nat) (r : Z) : Prop :=
  exists u, nth_error nodes_of k = Some u /\
    let same := last_on (firstn k nodes_of) first u NULL in
    if same =? NULL
    then nearest_anc par (fun v => last_on nodes_of first v NULL) (par u) r
    else r = same.

(* ---------------------------------------------------------------------- *)
(* first pass                                                             *)
(* ---------------------------------------------------------------------- *)
Fixpoint fp_fun (nodes_of : list Z) (j : Z) (fb fm : Z -> Z) : (Z -> Z) * (Z -> Z) :=
  match nodes_of with
  | [] => (fb, fm)
  | u :: tl => fp_fun tl (j + 1) (upd fb u j) (if fb u =? NULL then fm else upd fm j (fb u))
  end.

Lemma first_pass_refines nodes_of : forall j bottom mparent fb fm,
  arr_is bottom fb -> arr_is mparent fm ->
  (forall u, In u nodes_of -> 0 <= u < zlen bottom) ->
  0 <= j -> j + zlen nodes_of <= zlen mparent ->
  exists bottom' mparent',
    site_first_pass nodes_of j bottom mparent = Ok (bottom', mparent') /\
    arr_is bottom' (fst (fp_fun nodes_of j fb fm)) /\ arr_is mparent' (snd (fp_fun nodes_of j fb fm)) /\
    zlen bottom' = zlen bottom /\ zlen mparent' = zlen mparent.
Proof.
  induction nodes_of as [|u tl IH]; intros j bottom mparent fb fm Hb Hm Ru J0 Jn; simpl.
  - eauto 8.
  - rewrite zlen_cons in Jn.
    rewrite (Hb u) by (apply Ru; now left). simpl.
    assert (exists mp1, (if fb u =? NULL then Ok mparent else set mparent j (fb u)) = Ok mp1 /\
                        arr_is mp1 (if fb u =? NULL then fm else upd fm j (fb u)) /\ zlen mp1 = zlen mparent)
      as (mp1 & E1 & A1 & Z1).
    { destruct (fb u =? NULL); [eauto|].
      destruct (set_spec mparent j (fb u)) as (mp1 & E & _); [pose proof (zlen_nonneg tl); lia|].
      exists mp1. split; auto. eapply arr_is_set; eauto. }
    rewrite E1. simpl.
    destruct (set_spec bottom u j) as (b1 & E2 & _); [apply Ru; now left|].
    rewrite E2. simpl. destruct (arr_is_set _ _ _ _ _ Hb E2) as [A2 Z2].
    destruct (IH (j + 1) b1 mp1 _ _ A2 A1) as (b' & m' & E & P1 & P2 & P3 & P4).
    + intros v Hv. rewrite Z2. apply Ru. now right.
    + lia.
    + lia.
    + exists b', m'. rewrite E. repeat split; auto; congruence.
Qed.

(* what the first pass computes *)
Lemma fp_fun_bottom nodes_of : forall j fb fm v,
  fst (fp_fun nodes_of j fb fm) v = last_on nodes_of j v (fb v).
Proof.
  induction nodes_of as [|u tl IH]; intros j fb fm v; simpl; auto.
  rewrite IH. unfold upd. rewrite (Z.eqb_sym v u). reflexivity.
Qed.

Lemma last_on_app l1 l2 j v acc :
  last_on (l1 ++ l2) j v acc = last_on l2 (j + zlen l1) v (last_on l1 j v acc).
Proof.
  revert j acc; induction l1 as [|u tl IH]; intros j acc; simpl.
  - f_equal. unfold zlen. simpl. lia.
  - rewrite IH. f_equal. rewrite zlen_cons. lia.
Qed.

Lemma last_on_range l j v acc : last_on l j v acc = acc \/ j <= last_on l j v acc < j + zlen l.
Proof.
  revert j acc; induction l as [|u tl IH]; intros j acc; simpl; auto.
  rewrite zlen_cons. pose proof (zlen_nonneg tl).
  destruct (IH (j + 1) (if u =? v then j else acc)) as [E|R]; [|right; lia].
  rewrite E. destruct (u =? v); [right; lia | now left].
Qed.

(* mparent after the first pass: inside the block the same-node predecessor if any, the old
   value otherwise *)
Lemma fp_fun_mparent nodes_of : forall j fb fm i,
  snd (fp_fun nodes_of j fb fm) i =
    if (j <=? i) && (i <? j + zlen nodes_of) then
      match nth_error nodes_of (Z.to_nat (i - j)) with
      | Some u => let same := last_on (firstn (Z.to_nat (i - j)) nodes_of) j u (fb u) in
                  if same =? NULL then fm i else same
      | None => fm i
      end
    else fm i.
Proof.
  induction nodes_of as [|u tl IH]; intros j fb fm i; simpl.
  - destruct ((j <=? i) && (i <? j + zlen [])); auto. destruct (Z.to_nat (i - j)); auto.
  - rewrite IH. rewrite zlen_cons. pose proof (zlen_nonneg tl).
    destruct (Z.eq_dec i j) as [->|N].
    + (* the head of the block *)
      replace (j + 1 <=? j) with false by (symmetry; apply Z.leb_gt; lia). simpl.
      replace (j <=? j) with true by (symmetry; apply Z.leb_le; lia).
      replace (j <? j + (zlen tl + 1)) with true by (symmetry; apply Z.ltb_lt; lia). simpl.
      rewrite Z.sub_diag. simpl. destruct (fb u =? NULL) eqn:E; auto.
      unfold upd. now rewrite Z.eqb_refl.
    + destruct ((j <=? i) && (i <? j + (zlen tl + 1))) eqn:C.
      * apply andb_true_iff in C as [C1 C2]. apply Z.leb_le in C1. apply Z.ltb_lt in C2.
        replace ((j + 1 <=? i) && (i <? j + 1 + zlen tl)) with true
          by (symmetry; apply andb_true_iff; split; [apply Z.leb_le | apply Z.ltb_lt]; lia).
        replace (Z.to_nat (i - j)) with (S (Z.to_nat (i - (j + 1)))) by lia. simpl.
        destruct (nth_error tl (Z.to_nat (i - (j + 1)))) as [w|] eqn:Nw.
        -- simpl.
           assert (Eacc : upd fb u j w = (if u =? w then j else fb w)).
           { unfold upd. now rewrite (Z.eqb_sym w u). }
           rewrite Eacc.
           assert (Efm : (if fb u =? NULL then fm else upd fm j (fb u)) i = fm i).
           { destruct (fb u =? NULL); auto. unfold upd.
             replace (i =? j) with false by (symmetry; apply Z.eqb_neq; lia). reflexivity. }
           rewrite Efm. reflexivity.
        -- destruct (fb u =? NULL); auto. unfold upd.
           replace (i =? j) with false by (symmetry; apply Z.eqb_neq; lia). reflexivity.
      * replace ((j + 1 <=? i) && (i <? j + 1 + zlen tl)) with false.
        -- destruct (fb u =? NULL); auto. unfold upd.
           replace (i =? j) with false by (symmetry; apply Z.eqb_neq; lia). reflexivity.
        -- symmetry. apply andb_false_iff. apply andb_false_iff in C as [C|C];
             [apply Z.leb_gt in C; left; apply Z.leb_gt; lia
             | apply Z.ltb_ge in C; right; apply Z.ltb_ge; lia].
Qed.

(* ---------------------------------------------------------------------- *)
(* walk up                                                                *)
(* ---------------------------------------------------------------------- *)
Lemma walk_up_spec fuel : forall parent bottom par fb u r,
  arr_is parent par -> arr_is bottom fb -> zlen parent = zlen bottom ->
  (forall v, 0 <= v < zlen parent -> par v = NULL \/ 0 <= par v < zlen parent) ->
  (u = NULL \/ 0 <= u < zlen parent) ->
  walk_up fuel parent bottom u = Ok r ->
  (r = NULL \/ (0 <= r < zlen parent /\ fb r <> NULL)) /\
  nearest_anc par fb u (if r =? NULL then NULL else fb r).
Proof.
  induction fuel as [|f IH]; intros parent bottom par fb u r Hp Hb Z Cl Ru W; simpl in W; [discriminate|].
  destruct (u =? NULL) eqn:E.
  - apply Z.eqb_eq in E. inversion W; subst. simpl. split; [now left | constructor].
  - apply Z.eqb_neq in E. destruct Ru as [Ru|Ru]; [contradiction|].
    rewrite (Hb u) in W by (rewrite <- Z; auto). simpl in W.
    destruct (fb u =? NULL) eqn:B.
    + apply Z.eqb_eq in B. rewrite (Hp u Ru) in W. simpl in W.
      destruct (IH parent bottom par fb (par u) r Hp Hb Z Cl (Cl u Ru) W) as [R N].
      split; auto. now apply na_up.
    + apply Z.eqb_neq in B. inversion W; subst r. split; [right; auto|].
      replace (u =? NULL) with false by (symmetry; now apply Z.eqb_neq). now apply na_here.
Qed.

(* ---------------------------------------------------------------------- *)
(* second pass                                                            *)
(* ---------------------------------------------------------------------- *)
(* relational form of the loop 12429-12439 on functions: entry by entry *)
Lemma second_pass_spec fuel parent bottom par fb nodes_of : forall j mparent fm mp',
  arr_is parent par -> arr_is bottom fb -> zlen parent = zlen bottom ->
  (forall v, 0 <= v < zlen parent -> par v = NULL \/ 0 <= par v < zlen parent) ->
  arr_is mparent fm ->
  (forall u, In u nodes_of -> 0 <= u < zlen parent) ->
  0 <= j -> j + zlen nodes_of <= zlen mparent ->
  site_second_pass fuel parent bottom nodes_of j mparent = Ok mp' ->
  zlen mp' = zlen mparent /\
  exists fm', arr_is mp' fm' /\
    (forall i, ~ (j <= i < j + zlen nodes_of) -> fm' i = fm i) /\
    (forall k u, nth_error nodes_of k = Some u ->
       let i := j + Z.of_nat k in
       if fm i =? NULL then nearest_anc par fb (par u) (fm' i) else fm' i = fm i).
Proof.
  induction nodes_of as [|nd tl IH]; intros j mparent fm mp' Hp Hb Z Cl Hm Ru J0 Jn W; simpl in W.
  - inversion W; subst. split; auto. exists fm. split; auto. split; auto. intros [|k] u H; discriminate.
  - rewrite zlen_cons in Jn |- *. pose proof (zlen_nonneg tl) as Ztl.
    rewrite (Hm j) in W by lia. simpl in W.
    assert (Rnd : 0 <= nd < zlen parent) by (apply Ru; now left).
    (* the update of entry j *)
    assert (exists mp1 x, (if fm j =? NULL then
                do u0 <- get parent nd; do u <- walk_up fuel parent bottom u0;
                if u =? NULL then Ok mparent else do b <- get bottom u; set mparent j b
              else Ok mparent) = Ok mp1 ->
            True) by (exists mparent, 0; auto).
    clear H.
    destruct (fm j =? NULL) eqn:Ej.
    + rewrite (Hp nd Rnd) in W. simpl in W.
      destruct (walk_up fuel parent bottom (par nd)) as [r| | |] eqn:Wk; simpl in W; try discriminate.
      destruct (walk_up_spec fuel parent bottom par fb (par nd) r Hp Hb Z Cl (Cl nd Rnd) Wk) as [Rr Nr].
      destruct (r =? NULL) eqn:Er.
      * (* no ancestor carries a mutation: entry stays NULL *)
        destruct (IH (j + 1) mparent fm mp' Hp Hb Z Cl Hm) as (Zl & fm' & A & O & K); auto; try lia.
        { intros; apply Ru; now right. }
        split; auto. exists fm'. split; auto. split.
        -- intros i Hi. apply O. lia.
        -- intros [|k] u Hk; simpl in Hk.
           ++ inversion Hk; subst u. simpl. rewrite Z.add_0_r. rewrite Ej.
              rewrite O by lia. apply Z.eqb_eq in Ej. rewrite Ej. exact Nr.
           ++ specialize (K k u Hk). simpl in K.
              replace (j + Z.of_nat (S k)) with (j + 1 + Z.of_nat k) by lia. exact K.
      * apply Z.eqb_neq in Er. destruct Rr as [Rr|[Rr Fr]]; [contradiction|].
        rewrite (Hb r) in W by (rewrite <- Z; auto). simpl in W.
        destruct (set mparent j (fb r)) as [mp1| | |] eqn:Sm; simpl in W; try discriminate.
        destruct (arr_is_set _ _ _ _ _ Hm Sm) as [A1 Z1].
        destruct (IH (j + 1) mp1 (upd fm j (fb r)) mp' Hp Hb Z Cl A1) as (Zl & fm' & A & O & K); auto; try lia.
        { intros; apply Ru; now right. }
        split; [congruence|]. exists fm'. split; auto. split.
        -- intros i Hi. rewrite O by lia. unfold upd.
           replace (i =? j) with false by (symmetry; apply Z.eqb_neq; lia). reflexivity.
        -- intros [|k] u Hk; simpl in Hk.
           ++ inversion Hk; subst u. simpl. rewrite Z.add_0_r. rewrite Ej.
              rewrite O by lia. unfold upd. rewrite Z.eqb_refl. exact Nr.
           ++ specialize (K k u Hk). simpl in K.
              replace (j + Z.of_nat (S k)) with (j + 1 + Z.of_nat k) by lia.
              unfold upd in K. replace (j + 1 + Z.of_nat k =? j) with false in K
                by (symmetry; apply Z.eqb_neq; lia). exact K.
    + simpl in W.
      destruct (IH (j + 1) mparent fm mp' Hp Hb Z Cl Hm) as (Zl & fm' & A & O & K); auto; try lia.
      { intros; apply Ru; now right. }
      split; auto. exists fm'. split; auto. split.
      * intros i Hi. apply O. lia.
      * intros [|k] u Hk; simpl in Hk.
        -- inversion Hk; subst u. simpl. rewrite Z.add_0_r. rewrite Ej. apply O. lia.
        -- specialize (K k u Hk). simpl in K.
           replace (j + Z.of_nat (S k)) with (j + 1 + Z.of_nat k) by lia. exact K.
Qed.

(* ---------------------------------------------------------------------- *)
(* reset pass                                                             *)
(* ---------------------------------------------------------------------- *)
Lemma reset_spec nodes_of : forall j bottom mparent fb fm,
  arr_is bottom fb -> arr_is mparent fm ->
  (forall u, In u nodes_of -> 0 <= u < zlen bottom) ->
  0 <= j -> j + zlen nodes_of <= zlen mparent ->
  match site_reset nodes_of j bottom mparent with
  | Ok bottom' =>
      zlen bottom' = zlen bottom /\
      (exists fb', arr_is bottom' fb' /\
         (forall v, In v nodes_of -> fb' v = NULL) /\ (forall v, ~ In v nodes_of -> fb' v = fb v)) /\
      (forall k, (k < length nodes_of)%nat -> fm (j + Z.of_nat k) <= j + Z.of_nat k)
  | Err c => c = E_MUTATION_PARENT_AFTER_CHILD /\
             exists k, (k < length nodes_of)%nat /\ j + Z.of_nat k < fm (j + Z.of_nat k)
  | _ => False
  end.
Proof.
  induction nodes_of as [|u tl IH]; intros j bottom mparent fb fm Hb Hm Ru J0 Jn; simpl.
  - split; auto. split; [exists fb; repeat split; auto; intros v []|]. intros k Hk. lia.
  - rewrite zlen_cons in Jn. pose proof (zlen_nonneg tl) as Ztl.
    destruct (set_spec bottom u NULL) as (b1 & E & _); [apply Ru; now left|].
    rewrite E. simpl. destruct (arr_is_set _ _ _ _ _ Hb E) as [A1 Z1].
    rewrite (Hm j) by lia. simpl.
    destruct (j <? fm j) eqn:C.
    + apply Z.ltb_lt in C. split; auto. exists O. simpl. rewrite Z.add_0_r. split; [lia | auto].
    + apply Z.ltb_ge in C.
      specialize (IH (j + 1) b1 mparent (upd fb u NULL) fm A1 Hm).
      destruct (site_reset tl (j + 1) b1 mparent) as [b'|c| |].
      * destruct IH as (Zb & (fb' & Ab & In_ & Out_) & Le); auto; try lia.
        { intros v Hv. rewrite Z1. apply Ru. now right. }
        split; [congruence|]. split.
        -- exists fb'. split; auto. split.
           ++ intros v [->|Hv]; auto.
              destruct (in_dec Z.eq_dec v tl) as [I|NI]; auto.
              rewrite Out_ by auto. unfold upd. now rewrite Z.eqb_refl.
           ++ intros v Hv. rewrite Out_ by (intro; apply Hv; now right).
              unfold upd. replace (v =? u) with false; auto.
              symmetry. apply Z.eqb_neq. intro; subst. apply Hv. now left.
        -- intros [|k] Hk; simpl.
           ++ rewrite Z.add_0_r. exact C.
           ++ specialize (Le k ltac:(lia)).
              replace (j + Z.pos (Pos.of_succ_nat k)) with (j + 1 + Z.of_nat k) by lia. exact Le.
      * destruct IH as (Ec & k & Hk & Gt); auto; try lia.
        { intros v Hv. rewrite Z1. apply Ru. now right. }
        split; auto. exists (S k). split; [lia|].
        replace (j + Z.of_nat (S k)) with (j + 1 + Z.of_nat k) by lia. exact Gt.
      * apply IH; auto; try lia. intros v Hv. rewrite Z1. apply Ru. now right.
      * apply IH; auto; try lia. intros v Hv. rewrite Z1. apply Ru. now right.
Qed.

Lemma last_on_not_in l : forall j v acc, ~ In v l -> last_on l j v acc = acc.
Proof.
  induction l as [|u tl IH]; intros j v acc H; simpl; auto.
  rewrite IH by (intro; apply H; now right).
  replace (u =? v) with false; auto. symmetry. apply Z.eqb_neq. intro; subst. apply H. now left.
Qed.

(* ---------------------------------------------------------------------- *)
(* a chain with strictly increasing, bounded rank ends: used when the site   *)
(* has a single mutation and the second pass is skipped                     *)
(* ---------------------------------------------------------------------- *)
Lemma nearest_anc_none par has n (rank : Z -> Z) M :
  (forall v, 0 <= v < n -> par v = NULL \/ (0 <= par v < n /\ rank v < rank (par v))) ->
  (forall v, 0 <= v < n -> rank v <= M) ->
  forall k v, (v = NULL \/ (0 <= v < n /\ M - rank v < Z.of_nat k)) ->
    (forall w, 0 <= w < n -> rank v <= rank w -> has w = NULL) ->
    nearest_anc par has v NULL.
Proof.
  intros Cl Bd. induction k as [|k IH]; intros v Hv Hh.
  - destruct Hv as [->|[R Hk]]; [constructor|]. specialize (Bd v R). lia.
  - destruct Hv as [->|[R Hk]]; [constructor|].
    assert (v <> NULL) by (unfold NULL; lia).
    apply na_up; auto; [apply Hh; auto; lia|].
    destruct (Cl v R) as [E|[Rp Lt]].
    + rewrite E. constructor.
    + apply IH; [right; split; auto; lia|]. intros w Rw Hw. apply Hh; auto. lia.
Qed.

(* ---------------------------------------------------------------------- *)
(* one site                                                               *)
(* ---------------------------------------------------------------------- *)
Lemma nearest_anc_ext_has par has has' v r :
  (forall w, has w = has' w) -> nearest_anc par has v r -> nearest_anc par has' v r.
Proof.
  intros E H. induction H.
  - constructor.
  - rewrite E. apply na_here; auto. now rewrite <- E.
  - apply na_up; auto. now rewrite <- E.
Qed.

Definition in_block (first : Z) (len : Z) (i : Z) : Prop := first <= i < first + len.

(* [rank] = node time: strictly increasing towards the root and bounded, i.e. the parent
   array is a forest *)
Theorem do_site_correct fuel parent par (rank : Z -> Z) M nodes_of first bottom mparent fm bottom' mparent' :
  arr_is parent par ->
  (forall v, 0 <= v < zlen parent -> par v = NULL \/ (0 <= par v < zlen parent /\ rank v < rank (par v))) ->
  (forall v, 0 <= v < zlen parent -> rank v <= M) ->
  arr_is bottom (fun _ => NULL) -> zlen parent = zlen bottom ->
  arr_is mparent fm -> (forall i, in_block first (zlen nodes_of) i -> fm i = NULL) ->
  (forall u, In u nodes_of -> 0 <= u < zlen parent) ->
  0 <= first -> first + zlen nodes_of <= zlen mparent ->
  do_site fuel parent nodes_of first bottom mparent = Ok (bottom', mparent') ->
  arr_is bottom' (fun _ => NULL) /\ zlen bottom' = zlen bottom /\ zlen mparent' = zlen mparent /\
  exists fm', arr_is mparent' fm' /\
    (forall i, ~ in_block first (zlen nodes_of) i -> fm' i = fm i) /\
    (forall k, (k < length nodes_of)%nat ->
       nearest_above par nodes_of first k (fm' (first + Z.of_nat k)) /\
       fm' (first + Z.of_nat k) <= first + Z.of_nat k).
Proof.
  intros Hp Cl Bd Hb Zpb Hm Blk Ru F0 Fn D. unfold do_site in D.
  assert (Cl' : forall v, 0 <= v < zlen parent -> par v = NULL \/ 0 <= par v < zlen parent).
  { intros v Hv. destruct (Cl v Hv) as [E|[R _]]; auto. }
  destruct (first_pass_refines nodes_of first bottom mparent _ _ Hb Hm) as (b1 & m1 & E1 & Ab1 & Am1 & Zb1 & Zm1); auto.
  { intros u Hu. rewrite <- Zpb. auto. }
  rewrite E1 in D. simpl in D.
  set (fb1 := fst (fp_fun nodes_of first (fun _ => NULL) fm)) in *.
  set (fm1 := snd (fp_fun nodes_of first (fun _ => NULL) fm)) in *.
  assert (Fb1 : forall v, fb1 v = last_on nodes_of first v NULL) by (intro v; unfold fb1; apply fp_fun_bottom).
  assert (Fm1 : forall k u, nth_error nodes_of k = Some u ->
            fm1 (first + Z.of_nat k) = last_on (firstn k nodes_of) first u NULL).
  { intros k u Hk. unfold fm1. rewrite fp_fun_mparent.
    assert (Lk : (k < length nodes_of)%nat) by (apply nth_error_Some; congruence).
    replace ((first <=? first + Z.of_nat k) && (first + Z.of_nat k <? first + zlen nodes_of)) with true
      by (symmetry; apply andb_true_iff; split; [apply Z.leb_le | apply Z.ltb_lt]; unfold zlen; lia).
    replace (Z.to_nat (first + Z.of_nat k - first)) with k by lia. rewrite Hk. simpl.
    destruct (last_on (firstn k nodes_of) first u NULL =? NULL) eqn:E; auto.
    apply Z.eqb_eq in E. rewrite E. apply Blk. unfold in_block, zlen. lia. }
  assert (Fm1o : forall i, ~ in_block first (zlen nodes_of) i -> fm1 i = fm i).
  { intros i Hi. unfold fm1. rewrite fp_fun_mparent.
    replace ((first <=? i) && (i <? first + zlen nodes_of)) with false; auto.
    symmetry. apply andb_false_iff. unfold in_block in Hi.
    destruct (Z_le_gt_dec first i); [right; apply Z.ltb_ge; lia | left; apply Z.leb_gt; lia]. }
  destruct (if 1 <? zlen nodes_of then site_second_pass fuel parent b1 nodes_of first m1 else Ok m1)
    as [m2| | |] eqn:E2; simpl in D; try discriminate.
  assert (S2 : zlen m2 = zlen mparent /\ exists fm2, arr_is m2 fm2 /\
            (forall i, ~ in_block first (zlen nodes_of) i -> fm2 i = fm i) /\
            (forall k, (k < length nodes_of)%nat -> nearest_above par nodes_of first k (fm2 (first + Z.of_nat k)))).
  { destruct (1 <? zlen nodes_of) eqn:C.
    - destruct (second_pass_spec fuel parent b1 par fb1 nodes_of first m1 fm1 m2 Hp Ab1 ltac:(congruence) Cl' Am1)
        as (Zm2 & fm2 & A2 & O2 & K2); auto; try lia.
      split; [congruence|]. exists fm2. split; auto. split.
      + intros i Hi. rewrite O2 by exact Hi. apply Fm1o; auto.
      + intros k Hk. destruct (nth_error nodes_of k) as [u|] eqn:Nu; [|apply nth_error_None in Nu; lia].
        exists u. split; auto. simpl. specialize (K2 k u Nu). simpl in K2.
        rewrite (Fm1 k u Nu) in K2.
        destruct (last_on (firstn k nodes_of) first u NULL =? NULL).
        * eapply nearest_anc_ext_has; [|exact K2]. exact Fb1.
        * exact K2.
    - inversion E2; subst m2. split; auto. exists fm1. split; auto. split; auto.
      intros k Hk. apply Z.ltb_ge in C.
      destruct nodes_of as [|u [|u2 tl]]; simpl in Hk;
        [lia | | rewrite !zlen_cons in C; pose proof (zlen_nonneg tl); lia].
      assert (k = O) by lia. subst k. pose proof (Fm1 O u eq_refl) as F1. simpl in F1.
      exists u. split; auto. simpl. rewrite F1.
      assert (Ru0 : 0 <= u < zlen parent) by (apply Ru; now left).
      destruct (Cl u Ru0) as [E|[R Lt]]; [rewrite E; constructor|].
      apply (nearest_anc_none par _ (zlen parent) rank M Cl Bd (S (Z.to_nat (M - rank (par u))))).
      + right. split; auto. specialize (Bd _ R). lia.
      + intros w Rw Hw. replace (u =? w) with false; auto.
        symmetry. apply Z.eqb_neq. intro; subst w. lia. }
  destruct S2 as (Zm2 & fm2 & A2 & O2 & K2).
  assert (Rb1 : forall u, In u nodes_of -> 0 <= u < zlen b1) by (intros u Hu; rewrite Zb1, <- Zpb; auto).
  pose proof (reset_spec nodes_of first b1 m2 fb1 fm2 Ab1 A2 Rb1 F0 ltac:(lia)) as RS.
  destruct (site_reset nodes_of first b1 m2) as [b3| | |] eqn:E3; simpl in D; try discriminate.
  inversion D; subst bottom' mparent'. clear D.
  destruct RS as (Zb3 & (fb3 & Ab3 & In3 & Out3) & Le3).
  split; [|split; [congruence|split; [congruence|]]].
  - eapply arr_is_ext; [exact Ab3|]. intros v Hv. simpl.
    destruct (in_dec Z.eq_dec v nodes_of) as [I|NI]; [apply In3; exact I|].
    rewrite (Out3 v NI). rewrite Fb1. apply last_on_not_in. exact NI.
  - exists fm2. split; auto.
Qed.

(* ---------------------------------------------------------------------- *)
(* all sites under one tree: the loop 12411-12452 over a site-sorted         *)
(* mutation list                                                            *)
(* ---------------------------------------------------------------------- *)
(* the blocks (first row id, nodes) the loop hands to the per-site body, for the first
   [n] sites starting at site id [sid] *)
Fixpoint blocks (n : nat) (sid : Z) (muts : list mutation) (mid : Z) : list (Z * list Z) :=
  match n with
  | O => []
  | S n' => let r := take_site sid muts in
            (mid, map m_node (fst r)) :: blocks n' (sid + 1) (snd r) (mid + zlen (fst r))
  end.

Lemma take_site_split sid muts :
  muts = fst (take_site sid muts) ++ snd (take_site sid muts) /\
  (forall m, In m (fst (take_site sid muts)) -> m_site m = sid).
Proof.
  induction muts as [|m tl IH]; simpl; [split; auto; intros ? []|].
  destruct (m_site m =? sid) eqn:E; simpl.
  - destruct IH as [IH1 IH2]. split; [now rewrite <- IH1|].
    intros x [<-|Hx]; auto. now apply Z.eqb_eq.
  - split; auto. intros ? [].
Qed.

(* on a list sorted by site whose sites are >= sid, the block is exactly the mutations of
   site sid and the rest belongs to later sites *)
Lemma take_site_sorted sid muts :
  Sorted (fun a b => m_site a <= m_site b) muts -> (forall m, In m muts -> sid <= m_site m) ->
  fst (take_site sid muts) = filter (fun m => m_site m =? sid) muts /\
  (forall m, In m (snd (take_site sid muts)) -> sid + 1 <= m_site m) /\
  Sorted (fun a b => m_site a <= m_site b) (snd (take_site sid muts)).
Proof.
  intros S Ge. induction muts as [|m tl IH]; simpl; [repeat split; auto; intros ? []|].
  assert (S' : Sorted (fun a b => m_site a <= m_site b) tl) by now inversion S.
  destruct (m_site m =? sid) eqn:E; simpl.
  - destruct IH as (I1 & I2 & I3); auto. { intros; apply Ge; now right. }
    rewrite I1. auto.
  - apply Z.eqb_neq in E. assert (Gm : sid + 1 <= m_site m) by (specialize (Ge m (or_introl eq_refl)); lia).
    assert (All : forall x, In x (m :: tl) -> sid + 1 <= m_site x).
    { apply Sorted_StronglySorted in S; [|intros a b c; lia].
      inversion S; subst. rewrite Forall_forall in H2. intros x [<-|Hx]; auto. specialize (H2 x Hx). lia. }
    split; [|split; auto].
    symmetry. apply (proj2 (filter_nil_iff _ _)) || idtac.
    clear - All. induction tl as [|y tl IH]; simpl; auto.
    replace (m_site y =? sid) with false.
    + apply IH. intros x [<-|Hx]; apply All; [now left | right; now right].
    + symmetry. apply Z.eqb_neq. specialize (All y (or_intror (or_introl eq_refl))). lia.
Qed.

Theorem sites_loop_correct fuel parent par (rank : Z -> Z) M right :
  arr_is parent par ->
  (forall v, 0 <= v < zlen parent -> par v = NULL \/ (0 <= par v < zlen parent /\ rank v < rank (par v))) ->
  (forall v, 0 <= v < zlen parent -> rank v <= M) ->
  forall sites sid muts mid bottom mparent fm sites' sid' muts' mid' bottom' mparent',
  arr_is bottom (fun _ => NULL) -> zlen parent = zlen bottom ->
  arr_is mparent fm -> (forall i, mid <= i -> fm i = NULL) ->
  (forall m, In m muts -> 0 <= m_node m < zlen parent) ->
  0 <= mid -> mid + zlen muts <= zlen mparent ->
  sites_loop fuel parent right sites sid muts mid bottom mparent
    = Ok ((sites', sid'), (muts', mid'), (bottom', mparent')) ->
  exists n,
    sites = firstn n sites ++ sites' /\ length (firstn n sites) = n /\ sid' = sid + Z.of_nat n /\
    Forall (fun s => s_pos s < right) (firstn n sites) /\
    (match sites' with [] => True | s :: _ => right <= s_pos s end) /\
    arr_is bottom' (fun _ => NULL) /\ zlen bottom' = zlen bottom /\ zlen mparent' = zlen mparent /\
    mid <= mid' /\ mid' + zlen muts' = mid + zlen muts /\
    exists fm', arr_is mparent' fm' /\
      (forall i, i < mid -> fm' i = fm i) /\ (forall i, mid' <= i -> fm' i = NULL) /\
      Forall (fun b => forall k, (k < length (snd b))%nat ->
                nearest_above par (snd b) (fst b) k (fm' (fst b + Z.of_nat k)) /\
                fm' (fst b + Z.of_nat k) <= fst b + Z.of_nat k)
             (blocks n sid muts mid).
Proof.
  intros Hp Cl Bd. induction sites as [|s tl IH];
    intros sid muts mid bottom mparent fm sites' sid' muts' mid' bottom' mparent' Hb Zpb Hm Nl Rn M0 Mn L;
    simpl in L.
  - inversion L; subst. exists O. simpl. rewrite Z.add_0_r. repeat split; auto; try lia.
    exists fm. repeat split; auto.
  - destruct (s_pos s <? right) eqn:C.
    + apply Z.ltb_lt in C.
      destruct (take_site_split sid muts) as [Esp Esite].
      set (blk := fst (take_site sid muts)) in *. set (rest := snd (take_site sid muts)) in *.
      assert (Zsp : zlen muts = zlen blk + zlen rest) by (rewrite Esp at 1; apply zlen_app).
      pose proof (zlen_nonneg blk) as Zb0. pose proof (zlen_nonneg rest) as Zr0.
      destruct (do_site fuel parent (map m_node blk) mid bottom mparent) as [[b1 m1]| | |] eqn:D;
        simpl in L; try discriminate.
      assert (Zmap : zlen (map m_node blk) = zlen blk) by (unfold zlen; now rewrite map_length).
      destruct (do_site_correct fuel parent par rank M (map m_node blk) mid bottom mparent fm b1 m1
                  Hp Cl Bd Hb Zpb Hm) as (Ab1 & Zb1 & Zm1 & fm1 & Am1 & O1 & K1); auto.
      { intros i Hi. apply Nl. unfold in_block in Hi. lia. }
      { intros u Hu. apply in_map_iff in Hu as (m & <- & Hm'). apply Rn. rewrite Esp. apply in_or_app. now left. }
      { rewrite Zmap. lia. }
      destruct (IH (sid + 1) rest (mid + zlen blk) b1 m1 fm1 sites' sid' muts' mid' bottom' mparent')
        as (n & E1 & E2 & E3 & E4 & E5 & E6 & E7 & E8 & E9 & E10 & fm' & A' & O' & N' & F'); auto.
      { congruence. }
      { intros i Hi. rewrite O1; [apply Nl; lia|]. unfold in_block. rewrite Zmap. lia. }
      { intros m Hm'. apply Rn. rewrite Esp. apply in_or_app. now right. }
      { lia. }
      { rewrite Zm1. lia. }
      exists (S n). simpl. rewrite <- E1. repeat split; auto; try lia; try congruence.
      exists fm'. repeat split; auto.
      * intros i Hi. rewrite O' by lia. apply O1. unfold in_block. lia.
      * constructor; auto. simpl. fold blk.
        intros k Hk. rewrite map_length in Hk.
        assert (Hk' : (k < length (map m_node blk))%nat) by now rewrite map_length.
        destruct (K1 k Hk') as [K1a K1b].
        rewrite O' by (unfold zlen; lia). auto.
    + apply Z.ltb_ge in C. inversion L; subst. exists O. simpl. rewrite Z.add_0_r.
      repeat split; auto; try lia. exists fm. repeat split; auto.
Qed.

(* ---------------------------------------------------------------------- *)
(* the blocks of a site-sorted mutation list are the per-site sublists       *)
(* ---------------------------------------------------------------------- *)
Lemma filter_all {A} (f : A -> bool) l : (forall x, In x l -> f x = true) -> filter f l = l.
Proof. induction l; simpl; intro H; auto. rewrite H by now left. f_equal. apply IHl. intros; apply H; now right. Qed.
Lemma filter_none {A} (f : A -> bool) l : (forall x, In x l -> f x = false) -> filter f l = [].
Proof. induction l; simpl; intro H; auto. rewrite H by now left. apply IHl. intros; apply H; now right. Qed.

Definition site_block (muts : list mutation) (s : Z) : list mutation := filter (fun m => m_site m =? s) muts.
Definition site_first (muts : list mutation) (s : Z) : Z := zlen (filter (fun m => m_site m <? s) muts).

Lemma blocks_nth n : forall sid muts mid i,
  Sorted (fun a b => m_site a <= m_site b) muts -> (forall m, In m muts -> sid <= m_site m) ->
  (i < n)%nat ->
  nth_error (blocks n sid muts mid) i
  = Some (mid + site_first muts (sid + Z.of_nat i), map m_node (site_block muts (sid + Z.of_nat i))).
Proof.
  induction n as [|n IH]; intros sid muts mid i S Ge Hi; [lia|]. simpl.
  destruct (take_site_sorted sid muts S Ge) as (B1 & B2 & B3).
  destruct (take_site_split sid muts) as [Esp Esite].
  set (blk := fst (take_site sid muts)) in *. set (rest := snd (take_site sid muts)) in *.
  destruct i as [|i]; simpl.
  - rewrite Z.add_0_r. unfold site_first, site_block. rewrite <- B1.
    rewrite filter_none; [change (zlen (@nil mutation)) with 0; now rewrite Z.add_0_r|].
    intros x Hx. apply Z.ltb_ge. auto.
  - rewrite (IH (sid + 1) rest (mid + zlen blk) i B3 B2) by lia.
    replace (sid + 1 + Z.of_nat i) with (sid + Z.pos (Pos.of_succ_nat i)) by lia.
    set (s := sid + Z.pos (Pos.of_succ_nat i)).
    assert (Hs : sid + 1 <= s) by (unfold s; lia).
    assert (F1 : forall f, filter f muts = filter f blk ++ filter f rest)
      by (intro f; rewrite Esp at 1; apply filter_app).
    unfold site_first, site_block. rewrite !F1.
    rewrite (filter_all (fun m => m_site m <? s) blk) by (intros x Hx; apply Z.ltb_lt; rewrite (Esite x Hx); lia).
    rewrite (filter_none (fun m => m_site m =? s) blk) by (intros x Hx; apply Z.eqb_neq; rewrite (Esite x Hx); lia).
    rewrite zlen_app. simpl. f_equal. f_equal. lia.
Qed.

(* (e) one tree, a whole site-sorted mutation list: every mutation of every processed site
   gets the nearest mutation above it *)
Theorem mutation_parents_nearest_proof fuel parent par (rank : Z -> Z) M right
        sites muts bottom mparent sid' muts' mid' bottom' mparent' :
  arr_is parent par ->
  (forall v, 0 <= v < zlen parent -> par v = NULL \/ (0 <= par v < zlen parent /\ rank v < rank (par v))) ->
  (forall v, 0 <= v < zlen parent -> rank v <= M) ->
  arr_is bottom (fun _ => NULL) -> zlen parent = zlen bottom ->
  arr_is mparent (fun _ => NULL) -> zlen muts <= zlen mparent ->
  (forall m, In m muts -> 0 <= m_node m < zlen parent /\ 0 <= m_site m) ->
  Sorted (fun a b => m_site a <= m_site b) muts ->
  Forall (fun s => s_pos s < right) sites ->
  sites_loop fuel parent right sites 0 muts 0 bottom mparent
    = Ok (([], sid'), (muts', mid'), (bottom', mparent')) ->
  arr_is bottom' (fun _ => NULL) /\
  exists fm', arr_is mparent' fm' /\ zlen mparent' = zlen mparent /\
    forall s k, 0 <= s < zlen sites -> (k < length (site_block muts s))%nat ->
      let first := site_first muts s in
      nearest_above par (map m_node (site_block muts s)) first k (fm' (first + Z.of_nat k)) /\
      fm' (first + Z.of_nat k) <= first + Z.of_nat k.
Proof.
  intros Hp Cl Bd Hb Zpb Hm Lm Rn S Fs L.
  destruct (sites_loop_correct fuel parent par rank M right Hp Cl Bd sites 0 muts 0 bottom mparent
              (fun _ => NULL) [] sid' muts' mid' bottom' mparent' Hb Zpb Hm)
    as (n & E1 & E2 & E3 & E4 & E5 & E6 & E7 & E8 & E9 & E10 & fm' & A' & O' & N' & F'); auto; try lia.
  { intros m Hm'. apply Rn. auto. }
  split; auto. exists fm'. split; auto. split; auto.
  intros s k Hs Hk first.
  rewrite app_nil_r in E1.
  assert (Hn : n = length sites) by (rewrite E1; symmetry; exact E2).
  assert (Hi : (Z.to_nat s < n)%nat) by (unfold zlen in Hs; lia).
  pose proof (blocks_nth n 0 muts 0 (Z.to_nat s) S ltac:(intros m Hm'; apply Rn; auto) Hi) as B.
  rewrite Z2Nat.id in B by lia. simpl in B.
  rewrite Forall_forall in F'. specialize (F' _ (nth_error_In _ _ B)). simpl in F'.
  specialize (F' k ltac:(now rewrite map_length)). exact F'.
Qed.

(* ---------------------------------------------------------------------- *)
(* the error direction of the per-site body                                 *)
(* ---------------------------------------------------------------------- *)
Lemma walk_up_no_err fuel : forall parent bottom par fb u,
  arr_is parent par -> arr_is bottom fb -> zlen parent = zlen bottom ->
  (forall v, 0 <= v < zlen parent -> par v = NULL \/ 0 <= par v < zlen parent) ->
  (u = NULL \/ 0 <= u < zlen parent) ->
  (exists r, walk_up fuel parent bottom u = Ok r) \/ walk_up fuel parent bottom u = Fuel.
Proof.
  induction fuel as [|f IH]; intros parent bottom par fb u Hp Hb Zl Cl Ru; simpl; [now right|].
  destruct (u =? NULL) eqn:E; [left; eauto|]. apply Z.eqb_neq in E. destruct Ru as [?|Ru]; [contradiction|].
  rewrite (Hb u) by (rewrite <- Zl; auto). simpl. destruct (fb u =? NULL); [|left; eauto].
  rewrite (Hp u Ru). simpl. eapply IH; eauto.
Qed.

Lemma second_pass_no_err fuel parent bottom par fb nodes_of : forall j mparent fm,
  arr_is parent par -> arr_is bottom fb -> zlen parent = zlen bottom ->
  (forall v, 0 <= v < zlen parent -> par v = NULL \/ 0 <= par v < zlen parent) ->
  arr_is mparent fm -> (forall u, In u nodes_of -> 0 <= u < zlen parent) ->
  0 <= j -> j + zlen nodes_of <= zlen mparent ->
  (exists mp', site_second_pass fuel parent bottom nodes_of j mparent = Ok mp') \/
  site_second_pass fuel parent bottom nodes_of j mparent = Fuel.
Proof.
  induction nodes_of as [|nd tl IH]; intros j mparent fm Hp Hb Zl Cl Hm Ru J0 Jn; simpl; [left; eauto|].
  rewrite zlen_cons in Jn. pose proof (zlen_nonneg tl) as Ztl.
  rewrite (Hm j) by lia. simpl.
  assert (Rnd : 0 <= nd < zlen parent) by (apply Ru; now left).
  assert (Rt : forall u, In u tl -> 0 <= u < zlen parent) by (intros; apply Ru; now right).
  destruct (fm j =? NULL).
  - rewrite (Hp nd Rnd). simpl.
    destruct (walk_up_no_err fuel parent bottom par fb (par nd) Hp Hb Zl Cl (Cl nd Rnd)) as [[r W]|W]; rewrite W; simpl; [|now right].
    destruct (walk_up_spec fuel parent bottom par fb (par nd) r Hp Hb Zl Cl (Cl nd Rnd) W) as [Rr _].
    destruct (r =? NULL) eqn:Er.
    + eapply IH; eauto; lia.
    + apply Z.eqb_neq in Er. destruct Rr as [?|[Rr _]]; [contradiction|].
      rewrite (Hb r) by (rewrite <- Zl; auto). simpl.
      destruct (set_spec mparent j (fb r)) as (mp1 & Es & _); [lia|]. rewrite Es. simpl.
      destruct (arr_is_set _ _ _ _ _ Hm Es) as [A1 Z1].
      eapply (IH (j + 1) mp1); eauto; try lia; try (rewrite Z1; lia).
  - simpl. eapply IH; eauto; lia.
Qed.

(* do_site returns Ok, the documented TSK_ERR_MUTATION_PARENT_AFTER_CHILD, or (model only) runs
   out of walk fuel; and the error means that some mutation's nearest mutation above has a
   larger row id *)
Theorem do_site_err fuel parent par (rank : Z -> Z) M nodes_of first bottom mparent fm c :
  arr_is parent par ->
  (forall v, 0 <= v < zlen parent -> par v = NULL \/ (0 <= par v < zlen parent /\ rank v < rank (par v))) ->
  (forall v, 0 <= v < zlen parent -> rank v <= M) ->
  arr_is bottom (fun _ => NULL) -> zlen parent = zlen bottom ->
  arr_is mparent fm -> (forall i, in_block first (zlen nodes_of) i -> fm i = NULL) ->
  (forall u, In u nodes_of -> 0 <= u < zlen parent) ->
  0 <= first -> first + zlen nodes_of <= zlen mparent ->
  do_site fuel parent nodes_of first bottom mparent = Err c ->
  c = E_MUTATION_PARENT_AFTER_CHILD.
Proof.
  intros Hp Cl Bd Hb Zpb Hm Blk Ru F0 Fn D. unfold do_site in D.
  assert (Cl' : forall v, 0 <= v < zlen parent -> par v = NULL \/ 0 <= par v < zlen parent).
  { intros v Hv. destruct (Cl v Hv) as [E|[R _]]; auto. }
  destruct (first_pass_refines nodes_of first bottom mparent _ _ Hb Hm) as (b1 & m1 & E1 & Ab1 & Am1 & Zb1 & Zm1); auto.
  { intros u Hu. rewrite <- Zpb. auto. }
  rewrite E1 in D. simpl in D.
  assert (S2 : (exists m2, (if 1 <? zlen nodes_of then site_second_pass fuel parent b1 nodes_of first m1 else Ok m1) = Ok m2 /\
                           zlen m2 = zlen mparent /\ exists fm2, arr_is m2 fm2) \/
               (if 1 <? zlen nodes_of then site_second_pass fuel parent b1 nodes_of first m1 else Ok m1) = Fuel).
  { destruct (1 <? zlen nodes_of).
    - destruct (second_pass_no_err fuel parent b1 par _ nodes_of first m1 _ Hp Ab1 ltac:(congruence) Cl' Am1)
        as [[m2 E2]|E2]; auto; try lia.
      left. exists m2. split; auto.
      destruct (second_pass_spec fuel parent b1 par _ nodes_of first m1 _ m2 Hp Ab1 ltac:(congruence) Cl' Am1)
        as (Z2 & fm2 & A2 & _); auto; try lia. split; [congruence | eauto].
    - left. exists m1. split; auto. split; eauto. }
  destruct S2 as [(m2 & E2 & Z2 & fm2 & A2)|E2]; rewrite E2 in D; simpl in D; [|discriminate].
  assert (Rb1 : forall u, In u nodes_of -> 0 <= u < zlen b1) by (intros u Hu; rewrite Zb1, <- Zpb; auto).
  pose proof (reset_spec nodes_of first b1 m2 _ fm2 Ab1 A2 Rb1 F0 ltac:(lia)) as RS.
  destruct (site_reset nodes_of first b1 m2) as [b3|c'| |]; simpl in D; try discriminate; try contradiction.
  inversion D; subst c'. apply RS.
Qed.
