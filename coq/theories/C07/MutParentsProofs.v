(* C07 — compute_mutation_parents, the per-site computation (tables.c 12411-12452):
   given the parent array of the tree covering the site, the three passes over the
   mutations of the site assign to each one the nearest mutation above it (the latest
   earlier row on the same node first, else the last row of the first ancestor carrying a
   mutation of this site, else NULL), leave [bottom_mutation] all NULL again, and report
   TSK_ERR_MUTATION_PARENT_AFTER_CHILD exactly when such a parent has a larger row id. *)
From Coq Require Import List ZArith Bool Lia Permutation Sorted.
From TskVerif Require Import Base.Common C07.Model C07.ListLemmas C07.SortProofs C07.RaggedProofs.
Import ListNotations.
Open Scope Z_scope.

(* arrays as functions on their index range *)
Definition arr_is (a : list Z) (f : Z -> Z) : Prop := forall v, 0 <= v < zlen a -> get a v = Ok (f v).
Definition upd (f : Z -> Z) (i x : Z) : Z -> Z := fun v => if v =? i then x else f v.

Lemma arr_is_set a f i x a' : arr_is a f -> set a i x = Ok a' -> arr_is a' (upd f i x) /\ zlen a' = zlen a.
Proof.
  intros H S. apply set_ok_inv in S as (R & L & G & O).
  assert (Z : zlen a' = zlen a) by (unfold zlen; now rewrite L). split; auto.
  intros v Hv. unfold upd. destruct (v =? i) eqn:E.
  - apply Z.eqb_eq in E. now subst.
  - apply Z.eqb_neq in E. rewrite O by auto. apply H. now rewrite <- Z.
Qed.

Lemma arr_is_ext a f g : arr_is a f -> (forall v, 0 <= v < zlen a -> f v = g v) -> arr_is a g.
Proof. intros H E v Hv. rewrite H by auto. now rewrite E. Qed.

(* ---------------------------------------------------------------------- *)
(* specification                                                          *)
(* ---------------------------------------------------------------------- *)
(* id of the last mutation of the block (ids j, j+1, ...) sitting on node v, else [acc] *)
Fixpoint last_on (nodes_of : list Z) (j : Z) (v : Z) (acc : Z) : Z :=
  match nodes_of with
  | [] => acc
  | u :: tl => last_on tl (j + 1) v (if u =? v then j else acc)
  end.

(* first node at or above v carrying a mutation ([has] = its last mutation), else NULL *)
Inductive nearest_anc (par has : Z -> Z) : Z -> Z -> Prop :=
| na_null : nearest_anc par has NULL NULL
| na_here v : v <> NULL -> has v <> NULL -> nearest_anc par has v (has v)
| na_up v r : v <> NULL -> has v = NULL -> nearest_anc par has (par v) r -> nearest_anc par has v r.

Lemma nearest_anc_fun par has v r1 r2 : nearest_anc par has v r1 -> nearest_anc par has v r2 -> r1 = r2.
Proof.
  intro H. revert r2. induction H; intros r2 H2; inversion H2; subst; auto; try congruence.
Qed.

(* the nearest mutation above the k-th mutation of the block *)
Definition nearest_above (par : Z -> Z) (nodes_of : list Z) (first : Z) (k : nat) (r : Z) : Prop :=
  exists u, nth_error nodes_of k = Some u /\
    let same := last_on (firstn k nodes_of) first u NULL in
    if same =? NULL
    then nearest_anc par (fun v => last_on nodes_of first v NULL) (par u) r
    else r = same.

(* ---------------------------------------------------------------------- *)
(* first pass                                                             *)
(* ---------------------------------------------------------------------- *)
Fixpoint fp_fun (nodes_of : list Z) (j : Z) (fb fm : Z -> Z) : (Z -> Z) * (Z -> Z) :=
  match nodes_of with
  | [] => (fb, fm)
  | u :: tl => fp_fun tl (j + 1) (upd fb u j) (if fb u =? NULL then fm else upd fm j (fb u))
  end.

Lemma first_pass_refines nodes_of : forall j bottom mparent fb fm,
  arr_is bottom fb -> arr_is mparent fm ->
  (forall u, In u nodes_of -> 0 <= u < zlen bottom) ->
  0 <= j -> j + zlen nodes_of <= zlen mparent ->
  exists bottom' mparent',
    site_first_pass nodes_of j bottom mparent = Ok (bottom', mparent') /\
    arr_is bottom' (fst (fp_fun nodes_of j fb fm)) /\ arr_is mparent' (snd (fp_fun nodes_of j fb fm)) /\
    zlen bottom' = zlen bottom /\ zlen mparent' = zlen mparent.
Proof.
  induction nodes_of as [|u tl IH]; intros j bottom mparent fb fm Hb Hm Ru J0 Jn; simpl.
  - eauto 8.
  - rewrite zlen_cons in Jn.
    rewrite (Hb u) by (apply Ru; now left). simpl.
    assert (exists mp1, (if fb u =? NULL then Ok mparent else set mparent j (fb u)) = Ok mp1 /\
                        arr_is mp1 (if fb u =? NULL then fm else upd fm j (fb u)) /\ zlen mp1 = zlen mparent)
      as (mp1 & E1 & A1 & Z1).
    { destruct (fb u =? NULL); [eauto|].
      destruct (set_spec mparent j (fb u)) as (mp1 & E & _); [pose proof (zlen_nonneg tl); lia|].
      exists mp1. split; auto. eapply arr_is_set; eauto. }
    rewrite E1. simpl.
    destruct (set_spec bottom u j) as (b1 & E2 & _); [apply Ru; now left|].
    rewrite E2. simpl. destruct (arr_is_set _ _ _ _ _ Hb E2) as [A2 Z2].
    destruct (IH (j + 1) b1 mp1 _ _ A2 A1) as (b' & m' & E & P1 & P2 & P3 & P4).
    + intros v Hv. rewrite Z2. apply Ru. now right.
    + lia.
    + lia.
    + exists b', m'. rewrite E. repeat split; auto; congruence.
Qed.

(* what the first pass computes *)
Lemma fp_fun_bottom nodes_of : forall j fb fm v,
  fst (fp_fun nodes_of j fb fm) v = last_on nodes_of j v (fb v).
Proof.
  induction nodes_of as [|u tl IH]; intros j fb fm v; simpl; auto.
  rewrite IH. unfold upd. rewrite (Z.eqb_sym v u). reflexivity.
Qed.

Lemma last_on_app l1 l2 j v acc :
  last_on (l1 ++ l2) j v acc = last_on l2 (j + zlen l1) v (last_on l1 j v acc).
Proof.
  revert j acc; induction l1 as [|u tl IH]; intros j acc; simpl.
  - f_equal. unfold zlen. simpl. lia.
  - rewrite IH. f_equal. rewrite zlen_cons. lia.
Qed.

Lemma last_on_range l j v acc : last_on l j v acc = acc \/ j <= last_on l j v acc < j + zlen l.
Proof.
  revert j acc; induction l as [|u tl IH]; intros j acc; simpl; auto.
  rewrite zlen_cons. pose proof (zlen_nonneg tl).
  destruct (IH (j + 1) (if u =? v then j else acc)) as [E|R]; [|right; lia].
  rewrite E. destruct (u =? v); [right; lia | now left].
Qed.

(* mparent after the first pass: inside the block the same-node predecessor if any, the old
   value otherwise *)
Lemma fp_fun_mparent nodes_of : forall j fb fm i,
  snd (fp_fun nodes_of j fb fm) i =
    if (j <=? i) && (i <? j + zlen nodes_of) then
      match nth_error nodes_of (Z.to_nat (i - j)) with
      | Some u => let same := last_on (firstn (Z.to_nat (i - j)) nodes_of) j u (fb u) in
                  if same =? NULL then fm i else same
      | None => fm i
      end
    else fm i.
Proof.
  induction nodes_of as [|u tl IH]; intros j fb fm i; simpl.
  - destruct ((j <=? i) && (i <? j + zlen [])); auto. destruct (Z.to_nat (i - j)); auto.
  - rewrite IH. rewrite zlen_cons. pose proof (zlen_nonneg tl).
    destruct (Z.eq_dec i j) as [->|N].
    + (* the head of the block *)
      replace (j + 1 <=? j) with false by (symmetry; apply Z.leb_gt; lia). simpl.
      replace (j <=? j) with true by (symmetry; apply Z.leb_le; lia).
      replace (j <? j + (zlen tl + 1)) with true by (symmetry; apply Z.ltb_lt; lia). simpl.
      rewrite Z.sub_diag. simpl. destruct (fb u =? NULL) eqn:E; auto.
      unfold upd. now rewrite Z.eqb_refl.
    + destruct ((j <=? i) && (i <? j + (zlen tl + 1))) eqn:C.
      * apply andb_true_iff in C as [C1 C2]. apply Z.leb_le in C1. apply Z.ltb_lt in C2.
        replace ((j + 1 <=? i) && (i <? j + 1 + zlen tl)) with true
          by (symmetry; apply andb_true_iff; split; [apply Z.leb_le | apply Z.ltb_lt]; lia).
        replace (Z.to_nat (i - j)) with (S (Z.to_nat (i - (j + 1)))) by lia. simpl.
        destruct (nth_error tl (Z.to_nat (i - (j + 1)))) as [w|] eqn:Nw.
        -- simpl.
           assert (Eacc : upd fb u j w = (if u =? w then j else fb w)).
           { unfold upd. now rewrite (Z.eqb_sym w u). }
           rewrite Eacc.
           assert (Efm : (if fb u =? NULL then fm else upd fm j (fb u)) i = fm i).
           { destruct (fb u =? NULL); auto. unfold upd.
             replace (i =? j) with false by (symmetry; apply Z.eqb_neq; lia). reflexivity. }
           rewrite Efm. reflexivity.
        -- destruct (fb u =? NULL); auto. unfold upd.
           replace (i =? j) with false by (symmetry; apply Z.eqb_neq; lia). reflexivity.
      * replace ((j + 1 <=? i) && (i <? j + 1 + zlen tl)) with false.
        -- destruct (fb u =? NULL); auto. unfold upd.
           replace (i =? j) with false by (symmetry; apply Z.eqb_neq; lia). reflexivity.
        -- symmetry. apply andb_false_iff. apply andb_false_iff in C as [C|C];
             [apply Z.leb_gt in C; left; apply Z.leb_gt; lia
             | apply Z.ltb_ge in C; right; apply Z.ltb_ge; lia].
Qed.

(* ---------------------------------------------------------------------- *)
(* walk up                                                                *)
(* ---------------------------------------------------------------------- *)
Lemma walk_up_spec fuel : forall parent bottom par fb u r,
  arr_is parent par -> arr_is bottom fb -> zlen parent = zlen bottom ->
  (forall v, 0 <= v < zlen parent -> par v = NULL \/ 0 <= par v < zlen parent) ->
  (u = NULL \/ 0 <= u < zlen parent) ->
  walk_up fuel parent bottom u = Ok r ->
  (r = NULL \/ (0 <= r < zlen parent /\ fb r <> NULL)) /\
  nearest_anc par fb u (if r =? NULL then NULL else fb r).
Proof.
  induction fuel as [|f IH]; intros parent bottom par fb u r Hp Hb Z Cl Ru W; simpl in W; [discriminate|].
  destruct (u =? NULL) eqn:E.
  - apply Z.eqb_eq in E. inversion W; subst. simpl. split; [now left | constructor].
  - apply Z.eqb_neq in E. destruct Ru as [Ru|Ru]; [contradiction|].
    rewrite (Hb u) in W by (rewrite <- Z; auto). simpl in W.
    destruct (fb u =? NULL) eqn:B.
    + apply Z.eqb_eq in B. rewrite (Hp u Ru) in W. simpl in W.
      destruct (IH parent bottom par fb (par u) r Hp Hb Z Cl (Cl u Ru) W) as [R N].
      split; auto. now apply na_up.
    + apply Z.eqb_neq in B. inversion W; subst r. split; [right; auto|].
      replace (u =? NULL) with false by (symmetry; now apply Z.eqb_neq). now apply na_here.
Qed.

(* ---------------------------------------------------------------------- *)
(* second pass                                                            *)
(* ---------------------------------------------------------------------- *)
(* relational form of the loop 12429-12439 on functions: entry by entry *)
Lemma second_pass_spec fuel parent bottom par fb nodes_of : forall j mparent fm mp',
  arr_is parent par -> arr_is bottom fb -> zlen parent = zlen bottom ->
  (forall v, 0 <= v < zlen parent -> par v = NULL \/ 0 <= par v < zlen parent) ->
  arr_is mparent fm ->
  (forall u, In u nodes_of -> 0 <= u < zlen parent) ->
  0 <= j -> j + zlen nodes_of <= zlen mparent ->
  site_second_pass fuel parent bottom nodes_of j mparent = Ok mp' ->
  zlen mp' = zlen mparent /\
  exists fm', arr_is mp' fm' /\
    (forall i, ~ (j <= i < j + zlen nodes_of) -> fm' i = fm i) /\
    (forall k u, nth_error nodes_of k = Some u ->
       let i := j + Z.of_nat k in
       if fm i =? NULL then nearest_anc par fb (par u) (fm' i) else fm' i = fm i).
Proof.
  induction nodes_of as [|nd tl IH]; intros j mparent fm mp' Hp Hb Z Cl Hm Ru J0 Jn W; simpl in W.
  - inversion W; subst. split; auto. exists fm. split; auto. split; auto. intros [|k] u H; discriminate.
  - rewrite zlen_cons in Jn. pose proof (zlen_nonneg tl) as Ztl.
    rewrite (Hm j) in W by lia. simpl in W.
    assert (Rnd : 0 <= nd < zlen parent) by (apply Ru; now left).
    (* the update of entry j *)
    assert (exists mp1 x, (if fm j =? NULL then
                do u0 <- get parent nd; do u <- walk_up fuel parent bottom u0;
                if u =? NULL then Ok mparent else do b <- get bottom u; set mparent j b
              else Ok mparent) = Ok mp1 ->
            True) by (exists mparent, 0; auto).
    clear H.
    destruct (fm j =? NULL) eqn:Ej.
    + rewrite (Hp nd Rnd) in W. simpl in W.
      destruct (walk_up fuel parent bottom (par nd)) as [r| | |] eqn:Wk; simpl in W; try discriminate.
      destruct (walk_up_spec fuel parent bottom par fb (par nd) r Hp Hb Z Cl (Cl nd Rnd) Wk) as [Rr Nr].
      destruct (r =? NULL) eqn:Er.
      * (* no ancestor carries a mutation: entry stays NULL *)
        destruct (IH (j + 1) mparent fm mp' Hp Hb Z Cl Hm) as (Zl & fm' & A & O & K); auto; try lia.
        { intros; apply Ru; now right. }
        split; auto. exists fm'. split; auto. split.
        -- intros i Hi. apply O. lia.
        -- intros [|k] u Hk; simpl in Hk.
           ++ inversion Hk; subst u. simpl. rewrite Z.add_0_r. rewrite Ej.
              rewrite O by lia. apply Z.eqb_eq in Ej. rewrite Ej. exact Nr.
           ++ specialize (K k u Hk). simpl in K.
              replace (j + Z.of_nat (S k)) with (j + 1 + Z.of_nat k) by lia. exact K.
      * apply Z.eqb_neq in Er. destruct Rr as [Rr|[Rr Fr]]; [contradiction|].
        rewrite (Hb r) in W by (rewrite <- Z; auto). simpl in W.
        destruct (set mparent j (fb r)) as [mp1| | |] eqn:Sm; simpl in W; try discriminate.
        destruct (arr_is_set _ _ _ _ _ Hm Sm) as [A1 Z1].
        destruct (IH (j + 1) mp1 (upd fm j (fb r)) mp' Hp Hb Z Cl A1) as (Zl & fm' & A & O & K); auto; try lia.
        { intros; apply Ru; now right. }
        split; [congruence|]. exists fm'. split; auto. split.
        -- intros i Hi. rewrite O by lia. unfold upd.
           replace (i =? j) with false by (symmetry; apply Z.eqb_neq; lia). reflexivity.
        -- intros [|k] u Hk; simpl in Hk.
           ++ inversion Hk; subst u. simpl. rewrite Z.add_0_r. rewrite Ej.
              rewrite O by lia. unfold upd. rewrite Z.eqb_refl. exact Nr.
           ++ specialize (K k u Hk). simpl in K.
              replace (j + Z.of_nat (S k)) with (j + 1 + Z.of_nat k) by lia.
              unfold upd in K. replace (j + 1 + Z.of_nat k =? j) with false in K
                by (symmetry; apply Z.eqb_neq; lia). exact K.
    + simpl in W.
      destruct (IH (j + 1) mparent fm mp' Hp Hb Z Cl Hm) as (Zl & fm' & A & O & K); auto; try lia.
      { intros; apply Ru; now right. }
      split; auto. exists fm'. split; auto. split.
      * intros i Hi. apply O. lia.
      * intros [|k] u Hk; simpl in Hk.
        -- inversion Hk; subst u. simpl. rewrite Z.add_0_r. rewrite Ej. apply O. lia.
        -- specialize (K k u Hk). simpl in K.
           replace (j + Z.of_nat (S k)) with (j + 1 + Z.of_nat k) by lia. exact K.
Qed.
