(* C07 — build_index (tables.c 11306): the two index columns list every edge exactly once,
   insertion order sorted by left, removal order sorted by right — the index hypotheses of
   [valid_for_parents] (SweepProofs.v). *)
From Coq Require Import List ZArith Bool Lia Permutation Sorted.
From TskVerif Require Import Base.Common C07.Model C07.ListLemmas C07.CmpLemmas C07.SortProofs
     C07.RaggedProofs C07.TopProofs C07.MutParentsProofs C07.SweepProofs.
Import ListNotations.
Open Scope Z_scope.

Definition e0 : erow := mkE 0 0 0 0.
Definition row_at (edges : list erow) (r : index_sort) : erow := val e0 (get edges (is_index r)).

Lemma lex_le_head a b x y : lex_le (x :: a) (y :: b) -> x <= y.
Proof. simpl. lia. Qed.

Section WithQ.
  Variable Q : qsorts.
  Hypothesis HQ : qsorts_ok Q.

  Lemma HQ_index : sorts_by cmp_index_sort (qs_index Q). Proof. apply HQ. Qed.

  (* one of the two passes: records (index, key(e), ...) for every edge, sorted *)
  Lemma index_pass (edges : list erow) (key : erow -> Z) (g : Z * erow -> index_sort) :
    (forall je, is_index (g je) = fst je /\ is_first (g je) = key (snd je)) ->
    let sorted := qs_index Q (map g (indexed 0 edges)) in
    let ix := map is_index sorted in
    let rows := map (row_at edges) sorted in
    Permutation (zseq 0 (length edges)) ix /\ rows_of edges ix rows /\
    Sorted (fun a b => key a <= key b) rows /\ (forall e, In e edges <-> In e rows).
  Proof.
    intros Hg sorted ix rows. set (recs := map g (indexed 0 edges)).
    destruct (HQ_index recs) as [P S]. fold sorted in P, S.
    assert (Orig : forall r, In r sorted -> exists e, get edges (is_index r) = Ok e /\ is_first r = key e).
    { intros r Hr. assert (In r recs) by (eapply Permutation_in; [symmetry; eauto|auto]).
      unfold recs in H. apply in_map_iff in H as ([j e] & <- & Hin). apply indexed_get in Hin.
      destruct (Hg (j, e)) as [G1 G2]. simpl in *. exists e. rewrite G1. auto. }
    split; [|split; [|split]].
    - unfold ix. rewrite <- (indexed_fst 0 edges).
      replace (map fst (indexed 0 edges)) with (map is_index recs).
      + now apply Permutation_map.
      + unfold recs. rewrite map_map. apply map_ext. intro je. apply Hg.
    - unfold ix, rows. apply Forall2_map_same. apply Forall_forall. intros r Hr.
      destruct (Orig r Hr) as (e & G & _). unfold row_at. rewrite G. reflexivity.
    - unfold rows. apply Sorted_map_iff. eapply Sorted_impl_in; [|exact S].
      intros a b Ha Hb Hab. apply cmp_index_sort_le in Hab. unfold index_key in Hab.
      apply lex_le_head in Hab.
      destruct (Orig a Ha) as (ea & Ga & Fa). destruct (Orig b Hb) as (eb & Gb & Fb).
      unfold row_at. rewrite Ga, Gb. simpl. lia.
    - intro e. split.
      + intro He. destruct (In_nth_error _ _ He) as [p Hp].
        assert (Hin : In (g (Z.of_nat p, e)) sorted).
        { eapply Permutation_in; [exact P|]. unfold recs. apply in_map. apply indexed_get. now apply get_of_nat. }
        unfold rows. apply in_map_iff. exists (g (Z.of_nat p, e)). split; auto.
        unfold row_at. destruct (Hg (Z.of_nat p, e)) as [G1 _]. rewrite G1. simpl.
        rewrite (get_of_nat _ _ _ Hp). reflexivity.
      + unfold rows. intro He. apply in_map_iff in He as (r & <- & Hr).
        destruct (Orig r Hr) as (e & G & _). unfold row_at. rewrite G. simpl. eapply get_in; eauto.
  Qed.

  Theorem build_index_spec t t' :
    build_index Q t = Ok t' ->
    exists ins outs insE outsE,
      t' = set_index t (Some (ins, outs)) /\
      Permutation (zseq 0 (length (t_edges t))) ins /\ Permutation (zseq 0 (length (t_edges t))) outs /\
      rows_of (t_edges t) ins insE /\ rows_of (t_edges t) outs outsE /\
      Sorted (fun a b => e_left a <= e_left b) insE /\ Sorted (fun a b => e_right a <= e_right b) outsE /\
      (forall e, In e (t_edges t) <-> In e insE) /\ (forall e, In e (t_edges t) <-> In e outsE).
  Proof.
    unfold build_index. destruct (negb (check_refs t)); [discriminate|].
    set (time := map n_time (t_nodes t)).
    destruct (edge_order_loop time _ None (t_edges t)) as [ok| | |]; simpl; try discriminate.
    destruct (negb ok); [discriminate|].
    destruct (mapM _ (indexed 0 (t_edges t))) as [ins_recs| | |] eqn:E1; simpl; try discriminate.
    destruct (mapM _ (indexed 0 (t_edges t))) as [rem_recs| | |] eqn:E2 in |- *; simpl; try discriminate.
    intro H. inversion H; subst t'. clear H.
    (* the records are a total function of the rows once the reads succeed *)
    set (g1 := fun je : Z * erow => mkIS (fst je) (e_left (snd je)) (val 0 (get time (e_parent (snd je))))
                                        (e_parent (snd je)) (e_child (snd je))).
    set (g2 := fun je : Z * erow => mkIS (fst je) (e_right (snd je)) (- val 0 (get time (e_parent (snd je))))
                                        (- e_parent (snd je)) (- e_child (snd je))).
    assert (R1 : ins_recs = map g1 (indexed 0 (t_edges t))).
    { apply mapM_ok_inv in E1. clear - E1. induction E1 as [|x y l l' H F IH]; simpl; auto.
      rewrite <- IH. f_equal. destruct (get time (e_parent (snd x))) eqn:G; simpl in H; try discriminate.
      inversion H. unfold g1. rewrite G. reflexivity. }
    assert (R2 : rem_recs = map g2 (indexed 0 (t_edges t))).
    { apply mapM_ok_inv in E2. clear - E2. induction E2 as [|x y l l' H F IH]; simpl; auto.
      rewrite <- IH. f_equal. destruct (get time (e_parent (snd x))) eqn:G; simpl in H; try discriminate.
      inversion H. unfold g2. rewrite G. reflexivity. }
    subst ins_recs rem_recs.
    destruct (index_pass (t_edges t) e_left g1) as (P1 & Ro1 & S1 & A1); [intro; split; reflexivity|].
    destruct (index_pass (t_edges t) e_right g2) as (P2 & Ro2 & S2 & A2); [intro; split; reflexivity|].
    do 4 eexists. split; [reflexivity|]. repeat split; eauto; try apply A1; try apply A2.
  Qed.
End WithQ.
