(* C07 — tsk_squash_edges (tables.c 13401): the output covers exactly the same
   (parent, child, position) triples as the input, and no two consecutive output edges could
   be merged further. *)
From Coq Require Import List ZArith Bool Lia Permutation Sorted.
From TskVerif Require Import Base.Common C07.Model C07.ListLemmas C07.CmpLemmas C07.SortProofs.
Import ListNotations.
Open Scope Z_scope.

(* position x of child c is below parent p according to the edge list *)
Definition cov (es : list erow) (p c x : Z) : Prop :=
  exists e, In e es /\ e_parent e = p /\ e_child e = c /\ e_left e <= x < e_right e.

Lemma cov_app a b p c x : cov (a ++ b) p c x <-> cov a p c x \/ cov b p c x.
Proof.
  unfold cov. split.
  - intros (e & I & H). apply in_app_or in I as [I|I]; [left | right]; eauto.
  - intros [(e & I & H)|(e & I & H)]; exists e; split; auto; apply in_or_app; auto.
Qed.

(* a group under construction: consecutive edges of one (parent, child) that abut *)
Inductive chain : erow -> erow -> list erow -> Prop :=
| chain_one e : e_left e < e_right e -> chain e e [e]
| chain_snoc g prev grp e :
    chain g prev grp -> e_parent e = e_parent prev -> e_child e = e_child g ->
    e_right prev = e_left e -> e_left e < e_right e -> chain g e (grp ++ [e]).

Lemma chain_facts g prev grp : chain g prev grp ->
  e_parent prev = e_parent g /\ e_child prev = e_child g /\ e_left g < e_right prev /\
  forall p c x, cov grp p c x <-> (p = e_parent g /\ c = e_child g /\ e_left g <= x < e_right prev).
Proof.
  induction 1 as [e He|g prev grp e Hc (IH1 & IH2 & IH3 & IH4) Hp Hch Hab Hlr].
  - split; [auto|]. split; [auto|]. split; [lia|]. intros p c x. split.
    + intros (e' & [<-|[]] & H1 & H2 & H3). auto.
    + intros (H1 & H2 & H3). exists e. repeat split; auto; try lia. now left.
  - split; [congruence|]. split; [congruence|]. split; [lia|]. intros p c x. split.
    + intro H. apply cov_app in H as [H|H].
      * apply IH4 in H. lia.
      * destruct H as (e' & [<-|[]] & H1 & H2 & H3). repeat split; try congruence; lia.
    + intros (H1 & H2 & H3). apply cov_app.
      destruct (Z_lt_dec x (e_right prev)) as [Hx|Hx].
      * left. apply IH4. repeat split; auto; lia.
      * right. exists e. repeat split; try congruence; try lia. now left.
Qed.

Definition merged (g prev : erow) : erow := mkE (e_left g) (e_right prev) (e_parent g) (e_child g).

Lemma squash_loop_head g prev l out :
  squash_loop g prev l = Ok out ->
  exists tl, out = mkE (e_left g) (e_right (last l prev)) (e_parent g) (e_child g) :: tl \/
             exists m, out = m :: tl /\ e_left m = e_left g /\ e_parent m = e_parent g /\ e_child m = e_child g.
Proof.
  revert g prev out; induction l as [|e tl IH]; intros g prev out H; simpl in H.
  - inversion H. exists []. now left.
  - destruct (_ && _ && _); [discriminate|].
    destruct (_ || _ || _).
    + destruct (squash_loop e e tl) as [r| | |]; simpl in H; try discriminate. inversion H.
      exists r. right. eexists. split; [reflexivity|]. simpl. auto.
    + destruct (IH g e out H) as (tl' & [E|(m & E & F)]).
      * exists tl'. right. eexists. split; [exact E|]. simpl. auto.
      * exists tl'. right. eauto.
Qed.

Definition mergeable (a b : erow) : Prop :=
  e_parent a = e_parent b /\ e_child a = e_child b /\ e_right a = e_left b.

Lemma squash_loop_spec l : forall g prev grp out,
  chain g prev grp -> (forall e, In e l -> e_left e < e_right e) ->
  squash_loop g prev l = Ok out ->
  (forall p c x, cov (grp ++ l) p c x <-> cov out p c x) /\
  Sorted (fun a b => ~ mergeable a b) out.
Proof.
  induction l as [|e tl IH]; intros g prev grp out Hc Hv H; simpl in H.
  - inversion H; subst out. destruct (chain_facts _ _ _ Hc) as (F1 & F2 & F3 & F4). split.
    + intros p c x. rewrite app_nil_r, F4. unfold cov. split.
      * intros (H1 & H2 & H3). eexists. split; [now left|]. simpl. auto.
      * intros (e' & [<-|[]] & H1 & H2 & H3). simpl in *. auto.
    + repeat constructor.
  - destruct (chain_facts _ _ _ Hc) as (F1 & F2 & F3 & F4).
    destruct ((e_parent prev =? e_parent e) && (e_child prev =? e_child e) && (e_left e <? e_right prev));
      [discriminate|].
    destruct (negb (e_parent prev =? e_parent e) || negb (e_right prev =? e_left e) || negb (e_child g =? e_child e)) eqn:Fl.
    + (* flush the group, start a new one at e *)
      destruct (squash_loop e e tl) as [r| | |] eqn:R; simpl in H; try discriminate.
      inversion H; subst out. clear H.
      assert (He : e_left e < e_right e) by (apply Hv; now left).
      destruct (IH e e [e] r (chain_one e He)) as [C S]; auto. { intros; apply Hv; now right. }
      split.
      * intros p c x. rewrite cov_app. change (e :: tl) with ([e] ++ tl). rewrite C.
        change (cov (mkE (e_left g) (e_right prev) (e_parent g) (e_child g) :: r) p c x)
          with (cov ([merged g prev] ++ r) p c x). rewrite cov_app.
        rewrite F4. unfold cov at 2. split; intros [A|A]; auto; left.
        -- destruct A as (A1 & A2 & A3). eexists. split; [now left|]. simpl. auto.
        -- destruct A as (e' & [<-|[]] & A1 & A2 & A3). simpl in *. auto.
      * constructor; auto.
        destruct (squash_loop_head _ _ _ _ R) as (tl' & [E|(m & E & M1 & M2 & M3)]); subst r; constructor;
          unfold mergeable; simpl; intros (A1 & A2 & A3);
          apply orb_true_iff in Fl as [Fl|Fl]; try apply orb_true_iff in Fl as [Fl|Fl];
          apply negb_true_iff in Fl; apply Z.eqb_neq in Fl; try rewrite M1 in *; try rewrite M2 in *; try rewrite M3 in *;
          congruence.
    + (* extend the group *)
      apply orb_false_iff in Fl as [Fl F3']. apply orb_false_iff in Fl as [F1' F2'].
      apply negb_false_iff, Z.eqb_eq in F1', F2', F3'.
      assert (He : e_left e < e_right e) by (apply Hv; now left).
      destruct (IH g e (grp ++ [e]) out) as [C S]; auto.
      * apply (chain_snoc g prev grp e); auto; congruence.
      * intros; apply Hv; now right.
      * split; auto. intros p c x. rewrite <- C. rewrite <- app_assoc. reflexivity.
Qed.

Theorem squash_edges_spec Q edges out :
  qsorts_ok Q -> (forall e, In e edges -> e_left e < e_right e) ->
  squash_edges Q edges = Ok out ->
  (forall p c x, cov edges p c x <-> cov out p c x) /\
  Sorted (fun a b => ~ mergeable a b) out.
Proof.
  intros HQ Hv H. unfold squash_edges in H.
  assert (Small : forall l, (length l < 2)%nat -> (forall e, In e l -> e_left e < e_right e) ->
            Sorted (fun a b => ~ mergeable a b) l).
  { intros [|a [|b l]] Hl _; simpl in Hl; try lia; repeat constructor. }
  destruct edges as [|a [|b tl]].
  - inversion H. split; [tauto | constructor].
  - inversion H. split; [tauto | repeat constructor].
  - assert (HS : sorts_by cmp_edge_cl (qs_edge_cl Q)) by apply HQ.
    destruct (HS (a :: b :: tl)) as [P _].
    destruct (qs_edge_cl Q (a :: b :: tl)) as [|e0 rest] eqn:E.
    + apply Permutation_sym, Permutation_nil in P. discriminate.
    + assert (Hv' : forall e, In e (e0 :: rest) -> e_left e < e_right e).
      { intros e He. apply Hv. eapply Permutation_in; [symmetry; exact P | exact He]. }
      destruct (squash_loop_spec rest e0 e0 [e0] out (chain_one e0 (Hv' e0 (or_introl eq_refl)))) as [C S]; auto.
      { intros; apply Hv'; now right. }
      split; auto. intros p c x. rewrite <- C. simpl.
      unfold cov. split; intros (e & I & Hh); exists e; split; auto;
        [eapply Permutation_in; [exact P | exact I] | eapply Permutation_in; [symmetry; exact P | exact I]].
Qed.

(* ---------------------------------------------------------------------- *)
(* the error direction                                                     *)
(* ---------------------------------------------------------------------- *)
Lemma Sorted_app_r' {A} (R : A -> A -> Prop) l1 l2 : Sorted R (l1 ++ l2) -> Sorted R l2.
Proof. induction l1; simpl; auto. intro S. apply IHl1. now inversion S. Qed.

Lemma squash_loop_err l : forall g prev r,
  squash_loop g prev l = r -> (forall out, r <> Ok out) ->
  r = Err E_BAD_EDGES_CONTRADICTORY_CHILDREN /\
  exists l1 a b l2, prev :: l = l1 ++ a :: b :: l2 /\ e_parent a = e_parent b /\ e_child a = e_child b /\
                    e_left b < e_right a.
Proof.
  induction l as [|e tl IH]; intros g prev r H N; simpl in H.
  - exfalso. subst r. eapply N; eauto.
  - destruct ((e_parent prev =? e_parent e) && (e_child prev =? e_child e) && (e_left e <? e_right prev)) eqn:C.
    + subst r. split; auto. apply andb_true_iff in C as [C C3]. apply andb_true_iff in C as [C1 C2].
      apply Z.eqb_eq in C1, C2. apply Z.ltb_lt in C3.
      exists [], prev, e, tl. repeat split; auto.
    + assert (Lift : forall g', squash_loop g' e tl = r \/ (exists o, squash_loop g' e tl = o /\ (forall out, o <> Ok out) /\ r = o) ->
                True) by auto. clear Lift.
      destruct (negb (e_parent prev =? e_parent e) || negb (e_right prev =? e_left e) || negb (e_child g =? e_child e)).
      * destruct (squash_loop e e tl) as [o| | |] eqn:R; simpl in H.
        -- exfalso. subst r. eapply N; eauto.
        -- destruct (IH e e (Err code) R) as (E & l1 & a & b & l2 & El & H1); [discriminate|].
           subst r. split; [congruence|]. exists (prev :: l1), a, b, l2. rewrite El. repeat split; tauto.
        -- destruct (IH e e OOB R) as (E & _); discriminate.
        -- destruct (IH e e Fuel R) as (E & _); discriminate.
      * destruct (IH g e r H N) as (E & l1 & a & b & l2 & El & H1).
        split; auto. exists (prev :: l1), a, b, l2. rewrite El. repeat split; tauto.
Qed.

(* tsk_squash_edges either succeeds or reports contradictory children, and then two of the
   input edges of one (parent, child) really overlap *)
Theorem squash_edges_err Q edges r :
  qsorts_ok Q -> squash_edges Q edges = r -> (forall out, r <> Ok out) ->
  r = Err E_BAD_EDGES_CONTRADICTORY_CHILDREN /\
  exists a b, In a edges /\ In b edges /\ e_parent a = e_parent b /\ e_child a = e_child b /\
              e_left a <= e_left b /\ e_left b < e_right a.
Proof.
  intros HQ H N. unfold squash_edges in H.
  destruct edges as [|x [|y tl]]; try (exfalso; subst r; eapply N; eauto; fail).
  assert (HS : sorts_by cmp_edge_cl (qs_edge_cl Q)) by apply HQ.
  destruct (HS (x :: y :: tl)) as [P S].
  destruct (qs_edge_cl Q (x :: y :: tl)) as [|e0 rest] eqn:E; [exfalso; subst r; eapply N; eauto|].
  destruct (squash_loop_err rest e0 e0 r H N) as (Er & l1 & a & b & l2 & El & H1 & H2 & H3).
  split; auto. exists a, b.
  assert (Ia : In a (e0 :: rest)) by (rewrite El; apply in_or_app; right; now left).
  assert (Ib : In b (e0 :: rest)) by (rewrite El; apply in_or_app; right; right; now left).
  split; [eapply Permutation_in; [symmetry; exact P | exact Ia]|].
  split; [eapply Permutation_in; [symmetry; exact P | exact Ib]|].
  repeat split; auto.
  (* a immediately precedes b in the sorted list *)
  rewrite El in S. apply Sorted_app_r' in S. inversion S as [|? ? _ Hd]; subst. inversion Hd as [|? ? Hab]; subst.
  apply cmp_edge_cl_le in Hab. unfold edge_cl_key in Hab. simpl in Hab. lia.
Qed.
