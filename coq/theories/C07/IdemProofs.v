(* C07 — sort() is idempotent (when the comparators have no ties on the rows present), and
   its output is again referentially intact. *)
From Coq Require Import List ZArith Bool Lia Permutation Sorted.
From TskVerif Require Import Base.Common C07.Model C07.ListLemmas C07.CmpLemmas C07.SortProofs
     C07.RaggedProofs C07.TopProofs.
Import ListNotations.
Open Scope Z_scope.

(* ---------------------------------------------------------------------- *)
(* a sorted input without ties is a fixed point of any admissible qsort    *)
(* ---------------------------------------------------------------------- *)
Lemma qsort_fixed {A} (cmp : A -> A -> Z) (f : list A -> list A) (l : list A) :
  sorts_by cmp f ->
  Sorted (fun a b => cmp a b <= 0) l ->
  (forall a b c, In a l -> In b l -> In c l -> cmp a b <= 0 -> cmp b c <= 0 -> cmp a c <= 0) ->
  (forall a b, In a l -> In b l -> cmp a b <= 0 -> cmp b a <= 0 -> a = b) ->
  f l = l.
Proof.
  intros HS S T AS. destruct (HS l) as [P S'].
  symmetry. apply (StronglySorted_perm_unique (fun a b => cmp a b <= 0)); auto.
  - apply Sorted_StronglySorted_on; auto.
  - apply Sorted_StronglySorted_on; auto.
    intros a b c Ha Hb Hc. apply T; eapply Permutation_in; try (symmetry; exact P); auto.
Qed.

Lemma NoDup_map_inj_in {A B} (f : A -> B) l a b :
  NoDup (map f l) -> In a l -> In b l -> f a = f b -> a = b.
Proof.
  induction l as [|x t IH]; simpl; intros ND Ha Hb E; [tauto|].
  inversion ND; subst. destruct Ha as [->|Ha], Hb as [->|Hb]; auto.
  - exfalso. apply H1. rewrite E. now apply in_map.
  - exfalso. apply H1. rewrite <- E. now apply in_map.
Qed.

Lemma map_fst_combine {A B} (a : list A) (b : list B) : length a = length b -> map fst (combine a b) = a.
Proof. revert b; induction a; intros [|y b] L; simpl in *; try discriminate; auto. f_equal. apply IHa. lia. Qed.
Lemma map_snd_combine {A B} (a : list A) (b : list B) : length a = length b -> map snd (combine a b) = b.
Proof. revert b; induction a; intros [|y b] L; simpl in *; try discriminate; auto. f_equal. apply IHa. lia. Qed.

Lemma set_app_mid {A} (pre : list A) x post y : set (pre ++ x :: post) (zlen pre) y = Ok (pre ++ y :: post).
Proof.
  unfold set. pose proof (zlen_nonneg pre).
  replace (zlen pre <? 0) with false by (symmetry; apply Z.ltb_ge; lia).
  unfold zlen. rewrite Nat2Z.id. clear H.
  assert (E : set_nat (pre ++ x :: post) (length pre) y = Some (pre ++ y :: post)).
  { induction pre as [|h t IH]; simpl; auto. rewrite IH. reflexivity. }
  rewrite E. reflexivity.
Qed.

Lemma fill_id_map_identity k : forall pre,
  fill_id_map (zseq (zlen pre) k) (zlen pre) (pre ++ repeat NULL k) = Ok (pre ++ zseq (zlen pre) k).
Proof.
  induction k; intro pre; simpl; auto.
  rewrite set_app_mid. simpl.
  replace (zlen pre + 1) with (zlen (pre ++ [zlen pre])) by (rewrite zlen_app; reflexivity).
  replace (pre ++ zlen pre :: repeat NULL k) with ((pre ++ [zlen pre]) ++ repeat NULL k)
    by (rewrite <- app_assoc; reflexivity).
  rewrite IHk. rewrite <- app_assoc. reflexivity.
Qed.

Lemma get_zseq n i : 0 <= i < Z.of_nat n -> get (zseq 0 n) i = Ok i.
Proof.
  intro R. pose proof (map_get_zseq (zseq 0 n) []) as M. change (zlen (@nil Z)) with 0 in M. simpl in M.
  rewrite zseq_length in M.
  assert (In i (zseq 0 n)) by (apply zseq_in; lia).
  apply In_nth_error in H as [p Hp].
  assert (nth_error (map (get (zseq 0 n)) (zseq 0 n)) p = nth_error (map Ok (zseq 0 n)) p) by now rewrite M.
  rewrite !nth_error_map, Hp in H. simpl in H. now inversion H.
Qed.

Lemma mut_set_site_id m : mut_set_site m (m_site m) = m.
Proof. now destruct m. Qed.
Lemma mut_set_parent_id m : mut_set_parent m (m_parent m) = m.
Proof. now destruct m. Qed.

Lemma Sorted_indexed_site l : forall i,
  Sorted (fun a b => s_pos a <= s_pos b) l -> Sorted site_le (indexed i l).
Proof.
  induction l as [|x t IH]; intros i S; simpl; constructor.
  - apply IH. now inversion S.
  - inversion S as [|? ? S1 Hd]; subst. destruct t; simpl; constructor. inversion Hd; subst.
    unfold site_le. simpl. lia.
Qed.

Lemma Sorted_combine_indexed_mut l : forall mp i, length mp = length l ->
  Sorted mut_le (combine mp l) -> Sorted mut_le (indexed i l).
Proof.
  induction l as [|x t IH]; intros [|j mp] i L S; simpl in *; try discriminate; constructor.
  - eapply IH; [|inversion S; eauto]. lia.
  - inversion S as [|? ? S1 Hd]; subst. destruct t as [|y t], mp as [|k mp]; simpl in *; try discriminate; constructor.
    inversion Hd as [|? ? H]; subst. unfold mut_le in *. simpl in *.
    destruct H as [H|[E [H|[H1 H2]]]]; [left; auto | right; split; auto | right; split; auto].
    right. split; auto. lia.
Qed.

Lemma Sorted_combine_pos sp l : length sp = length l ->
  Sorted site_le (combine sp l) -> Sorted (fun a b => s_pos a <= s_pos b) l.
Proof.
  revert sp; induction l as [|x t IH]; intros [|j sp] L S; simpl in *; try discriminate; constructor.
  - eapply IH; [|inversion S; eauto]. lia.
  - inversion S as [|? ? S1 Hd]; subst. destruct t as [|y t], sp as [|k sp]; simpl in *; try discriminate; constructor.
    inversion Hd; subst. unfold site_le in *. simpl in *. lia.
Qed.

Lemma set_index_same t : t_index t = None -> set_index t None = t.
Proof. destruct t; simpl; intros ->; reflexivity. Qed.
Lemma set_edges_same t : set_edges t (t_edges t) (t_emd t) (t_eoff t) = t.
Proof. now destruct t. Qed.
Lemma set_migs_same t : set_migs t (t_migs t) (t_gmd t) (t_goff t) = t.
Proof. now destruct t. Qed.
Lemma set_sites_muts_same t : set_sites_muts t (t_sites t) (t_muts t) = t.
Proof. now destruct t. Qed.

Section WithQ.
  Variable Q : qsorts.
  Hypothesis HQ : qsorts_ok Q.

  (* ------------------------------------------------------------------ *)
  (* sites / mutations already in order                                   *)
  (* ------------------------------------------------------------------ *)
  Lemma sort_sites_sorted_id sites :
    Sorted (fun a b => s_pos a <= s_pos b) sites ->
    sort_sites Q sites = Ok (sites, zseq 0 (length sites)).
  Proof.
    intro S. unfold sort_sites.
    rewrite (qsort_fixed cmp_site (qs_site Q) (indexed 0 sites)).
    - rewrite indexed_fst, indexed_snd.
      pose proof (fill_id_map_identity (length sites) []) as F. change (zlen (@nil Z)) with 0 in F.
      simpl in F. rewrite F. reflexivity.
    - apply (HQ_site Q HQ).
    - eapply Sorted_impl; [|apply Sorted_indexed_site; exact S]. intros a b. apply cmp_site_le.
    - intros a b c _ _ _. rewrite !cmp_site_le. apply site_le_trans.
    - intros a b Ha Hb. rewrite !cmp_site_le. intros H1 H2.
      apply (NoDup_map_inj_in fst (indexed 0 sites)); auto.
      + rewrite indexed_fst. apply zseq_NoDup.
      + now apply site_le_antisym.
  Qed.

  Definition no_mixed_times (muts : list mutation) : Prop :=
    forall a b, In a muts -> In b muts -> m_site a = m_site b -> same_kind (m_time a) (m_time b).

  Lemma sort_mutations_sorted_id muts ns mp :
    length mp = length muts -> Sorted mut_le (combine mp muts) -> no_mixed_times muts ->
    (forall m, In m muts -> 0 <= m_site m < Z.of_nat ns /\ NULL <= m_parent m < zlen muts) ->
    sort_mutations Q (zseq 0 ns) muts = Ok muts.
  Proof.
    intros L S NM RG. unfold sort_mutations.
    rewrite (mapM_eq_map _ (fun jm => jm)).
    2:{ intros [j m] Hin. simpl. apply indexed_get in Hin. apply get_in in Hin.
        rewrite get_zseq by (apply RG; auto). simpl. now rewrite mut_set_site_id. }
    simpl. rewrite map_id.
    rewrite (qsort_fixed cmp_mutation (qs_mut Q) (indexed 0 muts)).
    - rewrite indexed_fst.
      pose proof (fill_id_map_identity (length muts) []) as F. change (zlen (@nil Z)) with 0 in F.
      simpl in F. rewrite F. simpl.
      rewrite (mapM_eq_map _ snd).
      + now rewrite indexed_snd.
      + intros [j m] Hin. simpl. apply indexed_get in Hin. apply get_in in Hin.
        unfold remap_parent. destruct (m_parent m =? NULL) eqn:E.
        * apply Z.eqb_eq in E. rewrite <- E. now rewrite mut_set_parent_id.
        * apply Z.eqb_neq in E. destruct (RG m Hin) as [_ R]. unfold NULL, zlen in *.
          rewrite get_zseq by lia. simpl. now rewrite mut_set_parent_id.
    - apply (HQ_mut Q HQ).
    - eapply Sorted_impl; [|eapply Sorted_combine_indexed_mut; eauto]. intros a b. apply cmp_mutation_le.
    - intros a b c Ha Hb Hc. rewrite !cmp_mutation_le.
      destruct a as [ja ma], b as [jb mb], c as [jc mc].
      apply indexed_get in Ha, Hb, Hc. apply get_in in Ha, Hb, Hc.
      apply mut_le_trans; simpl; intro; apply NM; auto.
    - intros a b Ha Hb. rewrite !cmp_mutation_le. intros H1 H2.
      apply (NoDup_map_inj_in fst (indexed 0 muts)); auto.
      + rewrite indexed_fst. apply zseq_NoDup.
      + now apply mut_le_antisym.
  Qed.

  (* ------------------------------------------------------------------ *)
  (* edges / migrations already in order, keys pairwise different          *)
  (* ------------------------------------------------------------------ *)
  Lemma edge_recs_key t mds : length mds = length (t_edges t) ->
    map edge_sort_key (edge_recs t mds) = map (edge_key (map n_time (t_nodes t))) (t_edges t).
  Proof.
    intro L. unfold edge_recs. rewrite map_map.
    rewrite <- (map_fst_combine (t_edges t) (spans_of 0 mds)) at 2 by (rewrite spans_of_length; lia).
    rewrite map_map. apply map_ext. intros [e sp]. reflexivity.
  Qed.

  Lemma sort_edges_sorted_id t mds :
    edges_wf t mds ->
    (forall e, In e (t_edges t) -> 0 <= e_parent e < zlen (t_nodes t)) ->
    Sorted (edge_le (map n_time (t_nodes t))) (t_edges t) ->
    NoDup (map (edge_key (map n_time (t_nodes t))) (t_edges t)) ->
    sort_edges Q 0 t = Ok t.
  Proof.
    intros EW RG S ND. pose proof EW as (E1 & E2 & L).
    destruct (sort_edges_spec0 Q HQ t mds EW RG) as (es' & mds' & E & _ & _ & _ & Ees & Emd & RowR & MdR).
    assert (Fix : qs_edge Q (edge_recs t mds) = edge_recs t mds).
    { apply (qsort_fixed cmp_edge).
      - apply (HQ_edge Q HQ).
      - assert (SK : Sorted lex_le (map edge_sort_key (edge_recs t mds))).
        { rewrite edge_recs_key by auto. apply Sorted_map_iff. exact S. }
        apply (proj1 (Sorted_map_iff edge_sort_key lex_le _)) in SK.
        eapply Sorted_impl; [|exact SK]. intros a b. apply cmp_edge_le.
      - intros a b c _ _ _. rewrite !cmp_edge_le. apply lex_le_trans; reflexivity.
      - intros a b Ha Hb. rewrite !cmp_edge_le. intros H1 H2.
        apply (NoDup_map_inj_in edge_sort_key (edge_recs t mds)); auto.
        + rewrite edge_recs_key by auto. exact ND.
        + apply lex_le_antisym; auto. }
    rewrite Fix in Ees, Emd. rewrite RowR in Ees. rewrite MdR in Emd. subst es' mds'.
    rewrite E. rewrite <- E1, <- E2. now rewrite set_edges_same.
  Qed.

  Lemma mig_recs_key t gds : length gds = length (t_migs t) ->
    map (fun r => mig_key (gs_row r)) (mig_recs t gds) = map mig_key (t_migs t).
  Proof.
    intro L. unfold mig_recs. rewrite map_map.
    rewrite <- (map_fst_combine (t_migs t) (spans_of 0 gds)) at 2 by (rewrite spans_of_length; lia).
    rewrite map_map. apply map_ext. intros [e sp]. reflexivity.
  Qed.

  Lemma sort_migrations_sorted_id t gds :
    migs_wf t gds -> Sorted mig_le (t_migs t) -> NoDup (map mig_key (t_migs t)) ->
    sort_migrations Q 0 t = Ok t.
  Proof.
    intros GW S ND. pose proof GW as (E1 & E2 & L).
    destruct (sort_migrations_spec0 Q HQ t gds GW) as (gs' & gds' & E & _ & _ & _ & Egs & Emd & RowR & MdR).
    assert (Fix : qs_mig Q (mig_recs t gds) = mig_recs t gds).
    { apply (qsort_fixed cmp_migration).
      - apply (HQ_mig Q HQ).
      - assert (SK : Sorted lex_le (map (fun r => mig_key (gs_row r)) (mig_recs t gds))).
        { rewrite mig_recs_key by auto. apply Sorted_map_iff. exact S. }
        apply (proj1 (Sorted_map_iff (fun r => mig_key (gs_row r)) lex_le _)) in SK.
        eapply Sorted_impl; [|exact SK]. intros a b. apply cmp_migration_le.
      - intros a b c _ _ _. rewrite !cmp_migration_le. apply lex_le_trans; reflexivity.
      - intros a b Ha Hb. rewrite !cmp_migration_le. intros H1 H2.
        apply (NoDup_map_inj_in (fun r => mig_key (gs_row r)) (mig_recs t gds)); auto.
        + rewrite mig_recs_key by auto. exact ND.
        + apply lex_le_antisym; auto. }
    rewrite Fix in Egs, Emd. rewrite RowR in Egs. rewrite MdR in Emd. subst gs' gds'.
    rewrite E. rewrite <- E1, <- E2. now rewrite set_migs_same.
  Qed.

  (* ------------------------------------------------------------------ *)
  (* a table in sorted order is a fixed point of sort()                   *)
  (* ------------------------------------------------------------------ *)
  Definition in_sort_order (t : tables) : Prop :=
    Sorted (edge_le (map n_time (t_nodes t))) (t_edges t) /\
    Sorted mig_le (t_migs t) /\
    (exists sp, length sp = length (t_sites t) /\ Sorted site_le (combine sp (t_sites t))) /\
    (exists mp, length mp = length (t_muts t) /\ Sorted mut_le (combine mp (t_muts t))).

  Definition no_key_ties (t : tables) : Prop :=
    NoDup (map (edge_key (map n_time (t_nodes t))) (t_edges t)) /\
    NoDup (map mig_key (t_migs t)) /\
    no_mixed_times (t_muts t).

  Theorem sort_fixed_point t mds gds :
    check_refs t = true -> edges_wf t mds -> migs_wf t gds -> t_index t = None ->
    in_sort_order t -> no_key_ties t ->
    table_sort Q None t = Ok t.
  Proof.
    intros CR EW GW IX (Se & Sg & (sp & Lsp & Ss) & (mp & Lmp & Sm)) (NDe & NDg & NM).
    destruct (check_refs_spec t CR) as [RGe RGm].
    unfold table_sort. rewrite CR. unfold sorter_run. simpl.
    replace (zlen (t_edges t) <? 0) with false by (symmetry; apply Z.ltb_ge; apply zlen_nonneg).
    replace (zlen (t_migs t) <? 0) with false by (symmetry; apply Z.ltb_ge; apply zlen_nonneg).
    simpl. rewrite (set_index_same t IX).
    rewrite (sort_edges_sorted_id t mds EW RGe Se NDe). simpl.
    assert (Em : (if 0 <? zlen (t_migs t) then sort_migrations Q 0 t else Ok t) = Ok t).
    { destruct (0 <? zlen (t_migs t)); auto. eapply sort_migrations_sorted_id; eauto. }
    rewrite Em. simpl.
    rewrite (sort_sites_sorted_id (t_sites t)) by (eapply Sorted_combine_pos; eauto). simpl.
    rewrite (sort_mutations_sorted_id (t_muts t) (length (t_sites t)) mp Lmp Sm NM).
    - simpl. now rewrite set_sites_muts_same.
    - intros m Hm. apply RGm in Hm. unfold zlen in Hm. exact Hm.
  Qed.
End WithQ.

(* ---------------------------------------------------------------------- *)
(* the output of sort() is referentially intact, in sort order, tie free    *)
(* ---------------------------------------------------------------------- *)
Lemma forallb_perm {A} (f : A -> bool) l l' : Permutation l l' -> forallb f l = forallb f l'.
Proof.
  induction 1; simpl; auto.
  - now rewrite IHPermutation.
  - destruct (f x), (f y); reflexivity.
  - congruence.
Qed.

Lemma Forall2_nth_error_r {A B} (R : A -> B -> Prop) l l' n b :
  Forall2 R l l' -> nth_error l' n = Some b -> exists a, nth_error l n = Some a /\ R a b.
Proof.
  intros F. revert n. induction F; intros [|n] G; simpl in G; try discriminate.
  - inversion G; subst. exists x. auto.
  - apply IHF in G. exact G.
Qed.

Lemma check_refs_mut t : check_refs t = true ->
  forall j m, get (t_muts t) j = Ok m ->
    0 <= m_site m < zlen (t_sites t) /\ 0 <= m_node m < zlen (t_nodes t) /\
    NULL <= m_parent m < zlen (t_muts t) /\ m_parent m <> j.
Proof.
  unfold check_refs. rewrite !andb_true_iff. intros [[_ H2] _] j m G.
  rewrite forallb_forall in H2. apply indexed_get in G. specialize (H2 _ G). simpl in H2.
  rewrite !andb_true_iff in H2. destruct H2 as [[[[A N] B] C] D].
  unfold in_range in A, N. rewrite andb_true_iff, Z.leb_le, Z.ltb_lt in A, N.
  apply Z.leb_le in B. apply Z.ltb_lt in C. apply negb_true_iff, Z.eqb_neq in D. auto.
Qed.

Section WithQ2.
  Variable Q : qsorts.
  Hypothesis HQ : qsorts_ok Q.

  Lemma sort_post_check_refs t t' mds gds mds' gds' sp mp :
    check_refs t = true -> edges_wf t mds -> migs_wf t gds ->
    sort_post t t' mds gds mds' gds' sp mp -> check_refs t' = true.
  Proof.
    intros CR (_ & _ & Le) (_ & _ & Lg) (EW' & GW' & Pe & Pg & _ & _ & SW & MW & Same & _).
    destruct EW' as (_ & _ & Le'). destruct GW' as (_ & _ & Lg').
    destruct Same as (_ & En & _ & _).
    assert (Pes : Permutation (t_edges t) (t_edges t')).
    { apply (Permutation_map fst) in Pe. rewrite !map_fst_combine in Pe by auto. exact Pe. }
    assert (Pgs : Permutation (t_migs t) (t_migs t')).
    { apply (Permutation_map fst) in Pg. rewrite !map_fst_combine in Pg by auto. exact Pg. }
    pose proof CR as CR0. unfold check_refs in CR. rewrite !andb_true_iff in CR. destruct CR as [[C1 _] C3].
    unfold check_refs. rewrite <- En. rewrite <- (forallb_perm _ _ _ Pes), <- (forallb_perm _ _ _ Pgs), C1, C3.
    rewrite andb_true_r. simpl. apply forallb_forall. intros [j' m'] Hin. simpl.
    apply indexed_get in Hin. apply get_nth_error in Hin as [J0 Hin].
    destruct SW as (Psp & Fs & _). destruct MW as (Pmp & Fm & _).
    destruct (Forall2_nth_error_r _ _ _ _ _ Fm Hin) as (j & Gj & m & Gm & I).
    destruct (check_refs_mut t CR0 j m Gm) as (Rs & Rn & Rp & Rj).
    destruct I as (In_ & _ & _ & _ & Is & Ip1 & Ip2).
    assert (Lsp : zlen sp = zlen (t_sites t')) by (unfold zlen; now rewrite (Forall2_length' _ _ _ Fs)).
    assert (Lmp : zlen mp = zlen (t_muts t')) by (unfold zlen; now rewrite (Forall2_length' _ _ _ Fm)).
    apply get_lt in Is. rewrite Lsp in Is.
    assert (Rp' : NULL <= m_parent m' < zlen (t_muts t') /\ m_parent m' <> j').
    { destruct (Z.eq_dec (m_parent m) NULL) as [E|N].
      - rewrite (Ip1 E). unfold NULL, zlen. split; lia.
      - specialize (Ip2 N). pose proof (get_lt _ _ _ Ip2) as R. rewrite Lmp in R.
        split; [unfold NULL; lia|]. intro Ej. rewrite Ej in Ip2.
        apply get_nth_error in Ip2 as [_ Ip2]. rewrite Nat2Z.id in Ip2 || idtac.
        replace (Z.to_nat j') with (Z.to_nat j') in Ip2 by reflexivity.
        rewrite Gj in Ip2. inversion Ip2. congruence. }
    destruct Rp' as [Rp1 Rp2].
    unfold in_range. rewrite In_.
    repeat (apply andb_true_iff; split);
      try (apply Z.leb_le; lia); try (apply Z.ltb_lt; lia).
    apply negb_true_iff, Z.eqb_neq. exact Rp2.
  Qed.

  Lemma sort_post_no_ties t t' mds gds mds' gds' sp mp :
    edges_wf t mds -> migs_wf t gds ->
    sort_post t t' mds gds mds' gds' sp mp -> no_key_ties t -> no_key_ties t'.
  Proof.
    intros (_ & _ & Le) (_ & _ & Lg) (EW' & GW' & Pe & Pg & _ & _ & SW & MW & Same & _) (N1 & N2 & N3).
    destruct EW' as (_ & _ & Le'). destruct GW' as (_ & _ & Lg').
    destruct Same as (_ & En & _ & _).
    apply (Permutation_map fst) in Pe. rewrite !map_fst_combine in Pe by auto.
    apply (Permutation_map fst) in Pg. rewrite !map_fst_combine in Pg by auto.
    split; [|split].
    - rewrite <- En. eapply Permutation_NoDup; [|exact N1]. now apply Permutation_map.
    - eapply Permutation_NoDup; [|exact N2]. now apply Permutation_map.
    - destruct MW as (_ & Fm & _).
      intros a b Ha Hb Es.
      destruct (In_nth_error _ _ Ha) as [na Hna]. destruct (In_nth_error _ _ Hb) as [nb Hnb].
      destruct (Forall2_nth_error_r _ _ _ _ _ Fm Hna) as (ja & _ & ma & Ga & Ia).
      destruct (Forall2_nth_error_r _ _ _ _ _ Fm Hnb) as (jb & _ & mb & Gb & Ib).
      destruct Ia as (_ & Ta & _ & _ & Sa & _). destruct Ib as (_ & Tb & _ & _ & Sb & _).
      rewrite Ta, Tb. apply N3; [eapply get_in; eauto | eapply get_in; eauto |].
      rewrite Es in Sa. rewrite Sa in Sb. now inversion Sb.
  Qed.

  Theorem sort_idempotent_proof t mds gds :
    check_refs t = true -> edges_wf t mds -> migs_wf t gds -> no_key_ties t ->
    exists t', table_sort Q None t = Ok t' /\ table_sort Q None t' = Ok t'.
  Proof.
    intros CR EW GW NT.
    destruct (table_sort_spec Q HQ t mds gds CR EW GW) as (t' & mds' & gds' & sp & mp & E & P).
    exists t'. split; auto.
    pose proof (sort_post_check_refs t t' _ _ _ _ _ _ CR EW GW P) as CR'.
    pose proof (sort_post_no_ties t t' _ _ _ _ _ _ EW GW P NT) as NT'.
    destruct P as (EW' & GW' & _ & _ & Se & Sg & SW & MW & Same & IX).
    apply (sort_fixed_point Q HQ t' mds' gds'); auto.
    destruct Same as (_ & En & _ & _). unfold in_sort_order. rewrite <- En.
    destruct SW as (_ & Fs & Ss). destruct MW as (_ & Fm & Sm).
    split; [exact Se|]. split; [exact Sg|]. split.
    - exists sp. split; auto. eapply Forall2_length'; eauto.
    - exists mp. split; auto. eapply Forall2_length'; eauto.
  Qed.
End WithQ2.
