(* C07 — the repair pipeline as one statement:
     sort(); deduplicate_sites(); sort(); build_index(); compute_mutation_parents()
   on a referentially intact, logically consistent collection in ANY row order. *)
From Coq Require Import List ZArith Bool Lia Permutation Sorted.
From TskVerif Require Import Base.Common C07.Model C07.ListLemmas C07.CmpLemmas C07.SortProofs
     C07.RaggedProofs C07.TopProofs C07.IdemProofs C07.MutParentsProofs C07.SweepProofs C07.IndexProofs
     C07.DedupProofs C07.EdgeOrderProofs C07.PipelineProofs C07.PartialProofs.
Import ListNotations.
Open Scope Z_scope.

(* ---------------------------------------------------------------------- *)
(* tc.sort() passes a zero bookmark, not NULL: same result                  *)
(* ---------------------------------------------------------------------- *)
Lemma perm_nil_eq {A} (l : list A) : Permutation [] l -> l = [].
Proof. intro P. now apply Permutation_nil in P. Qed.

Lemma sort_sites_nil Q : qsorts_ok Q -> sort_sites Q [] = Ok ([], []).
Proof.
  intros (_ & _ & Hs & _). unfold sort_sites. simpl.
  assert (Q1 : qs_site Q (@nil (Z * site)) = []) by (apply perm_nil_eq; exact (proj1 (Hs []))).
  rewrite Q1. reflexivity.
Qed.

Lemma sort_mutations_nil Q idmap : qsorts_ok Q -> sort_mutations Q idmap [] = Ok [].
Proof.
  intros (_ & _ & _ & Hm & _). unfold sort_mutations. simpl.
  assert (Q2 : qs_mut Q (@nil (Z * mutation)) = []) by (apply perm_nil_eq; exact (proj1 (Hm []))).
  rewrite Q2. reflexivity.
Qed.

Lemma py_sort_zero_eq Q t : qsorts_ok Q -> py_sort Q 0 0 0 t = table_sort Q None t.
Proof.
  intro HQ. unfold py_sort, table_sort. destruct (check_refs t); auto.
  unfold sorter_run. cbn [bm_edges bm_migrations bm_sites bm_mutations].
  destruct ((0 <? 0) || (zlen (t_edges t) <? 0)); auto.
  destruct ((0 <? 0) || (zlen (t_migs t) <? 0)); auto.
  destruct ((0 =? zlen (t_sites t)) && (0 =? zlen (t_muts t))) eqn:Sk; cbn [negb andb orb]; auto.
  (* both tables empty: sorting them is the identity *)
  apply andb_true_iff in Sk as [S1 S2]. apply Z.eqb_eq in S1, S2.
  assert (Es : t_sites t = []) by (destruct (t_sites t); auto; unfold zlen in S1; simpl in S1; lia).
  assert (Em : t_muts t = []) by (destruct (t_muts t); auto; unfold zlen in S2; simpl in S2; lia).
  destruct (sort_edges Q 0 (set_index t None)) as [t1| | |] eqn:E1; cbn [bind]; auto.
  assert (F1 : t_sites t1 = [] /\ t_muts t1 = []).
  { rewrite (sort_edges_frame _ _ _ _ E1). simpl. auto. }
  assert (G : forall t2, t_sites t2 = [] -> t_muts t2 = [] ->
            Ok t2 = (do sm <- sort_sites Q (t_sites t2);
                     do ms <- sort_mutations Q (snd sm) (t_muts t2); Ok (set_sites_muts t2 (fst sm) ms))).
  { intros t2 A B. rewrite A, B, (sort_sites_nil Q HQ). cbn [bind fst snd].
    rewrite (sort_mutations_nil Q [] HQ). cbn [bind].
    destruct t2; simpl in *; subst; reflexivity. }
  destruct (0 <? zlen (t_migs t1)).
  - destruct (sort_migrations Q 0 t1) as [t2| | |] eqn:E2; cbn [bind]; auto.
    destruct F1. apply G; rewrite (sort_migrations_frame _ _ _ _ E2); simpl; auto.
  - cbn [bind]. apply G; tauto.
Qed.

(* ---------------------------------------------------------------------- *)
(* the tree at x does not depend on the row order of consistent edges        *)
(* ---------------------------------------------------------------------- *)
Lemma parent_at_perm es es' x c :
  Permutation es es' -> consistent es -> parent_at es' x c = parent_at es x c.
Proof.
  intros P Cn. unfold parent_at.
  destruct (pfun_cases (covers x) es c) as [[E N]|(e & I & Ce & Cv & E)]; rewrite E.
  - apply pfun_none. intros e' I' C'. apply N; auto. eapply Permutation_in; [symmetry; eauto | auto].
  - apply pfun_some; auto.
    + eapply Permutation_in; eauto.
    + intros e' I' C' Cv'. assert (In e' es) by (eapply Permutation_in; [symmetry; eauto | auto]).
      assert (e' = e); [|now subst].
      apply Cn; auto; [congruence|]. unfold covers in *.
      apply andb_true_iff in Cv as [A1 A2]. apply andb_true_iff in Cv' as [B1 B2].
      apply Z.leb_le in A1, B1. apply Z.ltb_lt in A2, B2. unfold overlap. lia.
Qed.

(* ---------------------------------------------------------------------- *)
(* preservation of the order-free validity                                 *)
(* ---------------------------------------------------------------------- *)
Lemma first_of_runs_in l : forall prev s, In s (first_of_runs prev l) -> In s l.
Proof.
  induction l as [|x t IH]; intros prev s H; simpl in *; auto.
  destruct (s_pos x =? prev); [right; eauto|]. destruct H as [->|H]; [now left | right; eauto].
Qed.

Lemma first_of_runs_covers l : forall prev s, In s l ->
  s_pos s = prev \/ exists s', In s' (first_of_runs prev l) /\ s_pos s' = s_pos s.
Proof.
  induction l as [|x t IH]; intros prev s H; [destruct H|]. simpl.
  destruct (s_pos x =? prev) eqn:Ex.
  - apply Z.eqb_eq in Ex. destruct H as [->|H]; [now left | now apply IH].
  - destruct H as [->|H]; [right; exists s; split; [now left | auto]|].
    destruct (IH (s_pos x) s H) as [E|(s' & I' & E')].
    + right. exists x. split; [now left | auto].
    + right. exists s'. split; [now right | auto].
Qed.

Lemma StronglySorted_lt_of_le_NoDup (l : list site) :
  Sorted (fun a b => s_pos a <= s_pos b) l -> NoDup (map s_pos l) ->
  StronglySorted (fun a b => s_pos a < s_pos b) l.
Proof.
  intros S ND. apply Sorted_StronglySorted in S; [|intros a b c; lia].
  induction S as [|x t SS IH F]; constructor.
  - apply IH. now inversion ND.
  - inversion ND; subst. rewrite Forall_forall in *. intros y Hy. specialize (F y Hy).
    assert (s_pos x <> s_pos y); [|lia]. intro E. apply H1. rewrite E. now apply in_map.
Qed.

Lemma StronglySorted_lt_NoDup (l : list site) :
  StronglySorted (fun a b => s_pos a < s_pos b) l -> NoDup (map s_pos l).
Proof.
  induction 1 as [|x t SS IH F]; simpl; constructor; auto.
  rewrite Forall_forall in F. intro H. apply in_map_iff in H as (y & E & Hy). specialize (F y Hy). lia.
Qed.

(* ---------------------------------------------------------------------- *)
(* the pipeline up to the index                                             *)
(* ---------------------------------------------------------------------- *)
Definition repair_prefix (Q : qsorts) (t : tables) : res tables :=
  do t1 <- py_sort Q 0 0 0 t;
  do t2 <- deduplicate_sites t1;
  do t3 <- py_sort Q 0 0 0 t2;
  build_index Q t3.

Lemma repair_unfold Q t : repair Q t = (do t4 <- repair_prefix Q t; compute_mutation_parents t4).
Proof.
  unfold repair, repair_prefix.
  destruct (py_sort Q 0 0 0 t); simpl; auto. destruct (deduplicate_sites a); simpl; auto.
  destruct (py_sort Q 0 0 0 a0); simpl; auto.
Qed.

Theorem repair_prefix_spec Q t mds gds t4 :
  qsorts_ok Q -> check_refs t = true -> edges_wf t mds -> migs_wf t gds -> consistent_input t ->
  repair_prefix Q t = Ok t4 ->
  (* edges: the same full rows, in sort order, the same trees *)
  (exists mds4, edges_wf t4 mds4 /\ Permutation (combine (t_edges t) mds) (combine (t_edges t4) mds4)) /\
  Sorted (edge_le (map n_time (t_nodes t))) (t_edges t4) /\
  (forall x c, parent_at (t_edges t4) x c = parent_at (t_edges t) x c) /\
  (* sites: one row per position, increasing; every old position is still there *)
  StronglySorted (fun a b => s_pos a < s_pos b) (t_sites t4) /\
  (forall s, In s (t_sites t4) -> In s (t_sites t)) /\
  (forall s, In s (t_sites t) -> exists s', In s' (t_sites t4) /\ s_pos s' = s_pos s) /\
  (* mutations: same multiset of contents *)
  Permutation (map mut_content (t_muts t)) (map mut_content (t_muts t4)) /\
  (* nodes, individuals, populations untouched; index and validity for the parent sweep *)
  same_nodes_inds_pops t t4 /\
  exists insE outsE, valid_for_parents t4 insE outsE.
Proof.
  intros HQ CR EW GW CI R. unfold repair_prefix in R.
  rewrite py_sort_zero_eq in R by auto.
  destruct (table_sort_spec Q HQ t mds gds CR EW GW) as (t1 & mds1 & gds1 & sp1 & mp1 & E1 & P1).
  rewrite E1 in R. cbn [bind] in R.
  pose proof (sort_post_check_refs t t1 _ _ _ _ _ _ CR EW GW P1) as CR1.
  destruct P1 as (EW1 & GW1 & Pe1 & Pg1 & Se1 & Sg1 & SW1 & MW1 & Same1 & IX1).
  destruct (deduplicate_sites t1) as [t2| | |] eqn:E2; cbn [bind] in R; try discriminate.
  rewrite py_sort_zero_eq in R by auto.
  destruct (table_sort Q None t2) as [t3| | |] eqn:E3; cbn [bind] in R; try discriminate.
  assert (CR2 : check_refs t2 = true).
  { unfold table_sort in E3. destruct (check_refs t2); [reflexivity | discriminate]. }
  destruct CI as [Ce Cc Cs Cm].
  destruct Same1 as (SL1 & Sn1 & Si1 & Sp1).
  pose proof (sites_witness_perm _ _ _ SW1) as Ps1.
  pose proof (muts_witness_perm _ _ _ _ MW1) as Pm1.
  destruct EW as (Ew1 & Ew2 & Le). pose proof EW1 as (Ew1' & Ew2' & Le1).
  assert (Pes1 : Permutation (t_edges t) (t_edges t1)).
  { apply (Permutation_map fst) in Pe1. rewrite !map_fst_combine in Pe1 by auto. exact Pe1. }
  (* dedup *)
  destruct (deduplicate_sites_spec t1 t2) as (Fr2 & Es2 & Inc2 & Fm2); auto.
  { intros s Hs. assert (In s (t_sites t)) by (eapply Permutation_in; [symmetry; eauto | auto]).
    apply Cs in H. lia. }
  assert (EW2 : edges_wf t2 mds1) by (rewrite Fr2; exact EW1).
  assert (GW2 : migs_wf t2 gds1) by (rewrite Fr2; exact GW1).
  assert (Ed2 : t_edges t2 = t_edges t1) by (rewrite Fr2; reflexivity).
  assert (Nd2 : t_nodes t2 = t_nodes t1) by (rewrite Fr2; reflexivity).
  assert (L2 : t_L t2 = t_L t1) by (rewrite Fr2; reflexivity).
  assert (CI2 : consistent_input t2).
  { constructor.
    - intros e He. rewrite Ed2 in He. rewrite L2, Nd2, <- SL1, <- Sn1.
      assert (In e (t_edges t)) by (eapply Permutation_in; [symmetry; eauto | auto]).
      unfold node_rank. rewrite Nd2, <- Sn1. apply Ce. auto.
    - rewrite Ed2. intros a b Ha Hb. apply Cc; eapply Permutation_in; try (symmetry; exact Pes1); auto.
    - intros s Hs. rewrite Es2 in Hs. apply first_of_runs_in in Hs.
      rewrite L2, <- SL1. apply Cs. eapply Permutation_in; [symmetry; eauto | auto].
    - intros m' Hm'. destruct (Forall2_in_r _ _ _ _ Fm2 Hm') as (m & Hm & -> & _).
      rewrite Nd2, <- Sn1. simpl.
      assert (In (mut_content m) (map mut_content (t_muts t))).
      { eapply Permutation_in; [symmetry; exact Pm1|]. now apply in_map. }
      apply in_map_iff in H as (m0 & E0 & H0). apply Cm in H0.
      unfold mut_content in E0. inversion E0. congruence. }
  (* second sort + index *)
  pose proof (sort_index_valid Q t2 mds1 gds1 t3 t4 HQ CR2 EW2 GW2 CI2 E3 R) as (insE & outsE & V).
  destruct (table_sort_spec Q HQ t2 mds1 gds1 CR2 EW2 GW2) as (t3' & mds3 & gds3 & sp3 & mp3 & E3' & P3).
  rewrite E3 in E3'. inversion E3'; subst t3'. clear E3'.
  destruct P3 as (EW3 & GW3 & Pe3 & Pg3 & Se3 & Sg3 & SW3 & MW3 & Same3 & IX3).
  destruct Same3 as (SL3 & Sn3 & Si3 & Sp3).
  destruct (build_index_spec Q HQ t3 t4 R) as (ins & outs & insE' & outsE' & E4 & _).
  assert (Ed4 : t_edges t4 = t_edges t3) by (rewrite E4; reflexivity).
  assert (Si4 : t_sites t4 = t_sites t3) by (rewrite E4; reflexivity).
  assert (Mu4 : t_muts t4 = t_muts t3) by (rewrite E4; reflexivity).
  pose proof EW3 as (Ew13 & Ew23 & Le3).
  assert (Pes3 : Permutation (t_edges t2) (t_edges t3)).
  { apply (Permutation_map fst) in Pe3. rewrite !map_fst_combine in Pe3 by (auto; destruct EW2 as (_ & _ & X); symmetry; exact X).
    exact Pe3. }
  pose proof (sites_witness_perm _ _ _ SW3) as Ps3.
  pose proof (muts_witness_perm _ _ _ _ MW3) as Pm3.
  split; [|split; [|split; [|split; [|split; [|split; [|split; [|split]]]]]]].
  - exists mds3. split.
    + rewrite E4. exact EW3.
    + rewrite Ed4. eapply Permutation_trans; [exact Pe1|]. rewrite <- Ed2. exact Pe3.
  - rewrite Ed4. rewrite Sn1, <- Nd2. exact Se3.
  - intros x c. rewrite Ed4. apply parent_at_perm; auto.
    eapply Permutation_trans; [exact Pes1|]. rewrite <- Ed2. exact Pes3.
  - rewrite Si4. apply StronglySorted_lt_of_le_NoDup.
    + destruct SW3 as (_ & F3 & S3). eapply Sorted_combine_pos; [|exact S3]. eapply Forall2_length'; eauto.
    + eapply Permutation_NoDup; [apply Permutation_map; exact Ps3|]. now apply StronglySorted_lt_NoDup.
  - intros s Hs. rewrite Si4 in Hs.
    assert (In s (t_sites t2)) by (eapply Permutation_in; [symmetry; eauto | auto]).
    rewrite Es2 in H. apply first_of_runs_in in H. eapply Permutation_in; [symmetry; eauto | auto].
  - intros s Hs. assert (H1 : In s (t_sites t1)) by (eapply Permutation_in; eauto).
    destruct (first_of_runs_covers (t_sites t1) (-1) s H1) as [E|(s' & I' & E')].
    { assert (In s (t_sites t)) by exact Hs. apply Cs in H. lia. }
    exists s'. split; auto. rewrite Si4. eapply Permutation_in; [exact Ps3|]. rewrite Es2. exact I'.
  - rewrite Mu4. eapply Permutation_trans; [exact Pm1|]. eapply Permutation_trans; [|exact Pm3].
    assert (map mut_content (t_muts t1) = map mut_content (t_muts t2)) as ->; [|reflexivity].
    clear - Fm2. induction Fm2 as [|m m' l l' (Em & _) F IH]; simpl; auto. rewrite IH. f_equal.
    rewrite Em. reflexivity.
  - unfold same_nodes_inds_pops. rewrite E4. simpl.
    assert (t_inds t2 = t_inds t1 /\ t_pops t2 = t_pops t1) as [I2 P2] by (rewrite Fr2; simpl; auto).
    repeat split; congruence.
  - eauto.
Qed.

(* ---------------------------------------------------------------------- *)
(* the pipeline never fails before compute_mutation_parents                  *)
(* ---------------------------------------------------------------------- *)
Lemma sites_sorted_of_Sorted l : forall prev,
  Sorted (fun a b => s_pos a <= s_pos b) l -> (forall s, In s l -> prev <= s_pos s) ->
  sites_sorted prev l = true.
Proof.
  induction l as [|x t IH]; intros prev S Ge; simpl; auto.
  apply andb_true_iff. split; [apply Z.leb_le; apply Ge; now left|].
  apply IH; [now inversion S|]. intros s Hs.
  apply Sorted_StronglySorted in S; [|intros a b c; lia]. inversion S; subst.
  rewrite Forall_forall in H2. auto.
Qed.

Lemma deduplicate_sites_ok t :
  check_refs t = true -> Sorted (fun a b => s_pos a <= s_pos b) (t_sites t) ->
  exists t', deduplicate_sites t = Ok t'.
Proof.
  intros CR S. unfold deduplicate_sites. destruct (t_sites t) as [|s0 tl] eqn:Es; [eauto|].
  rewrite CR. cbn [negb].
  rewrite sites_sorted_of_Sorted; auto.
  2:{ intros s Hs. apply Sorted_StronglySorted in S; [|intros a b c; lia]. inversion S; subst.
      rewrite Forall_forall in H2. destruct Hs as [<-|Hs]; [lia | auto]. }
  cbn [negb]. destruct (dedup_loop_ids (s0 :: tl) (-1) 0) as [Lids Kids].
  set (r := dedup_loop (-1) 0 (s0 :: tl)) in *.
  destruct (zlen (fst r) <? zlen (s0 :: tl)); [|eauto].
  destruct (mapM_total (fun m => do s <- get (snd r) (m_site m); Ok (mut_set_site m s)) (t_muts t)) as [ms E].
  { intros m Hm. pose proof (check_refs_sites t m CR Hm) as R. rewrite Es in R.
    destruct (get_ok_iff (snd r) (m_site m)) as [_ G].
    destruct G as [x G]; [unfold zlen in *; rewrite Lids; exact R|]. rewrite G. simpl. eauto. }
  rewrite E. simpl. eauto.
Qed.

Lemma check_refs_after_dedup t t' :
  (forall s, In s (t_sites t) -> 0 <= s_pos s) -> check_refs t = true ->
  deduplicate_sites t = Ok t' -> check_refs t' = true.
Proof.
  intros Pos CR D. destruct (deduplicate_sites_spec t t' Pos CR D) as (Fr & _ & _ & Fm).
  pose proof CR as CR0. unfold check_refs in CR. rewrite !andb_true_iff in CR. destruct CR as [[C1 _] C3].
  rewrite Fr. unfold check_refs. cbn [t_nodes t_edges t_migs t_sites t_muts set_sites_muts].
  rewrite C1, C3, andb_true_r. cbn [andb]. apply forallb_forall. intros [j m'] Hin. cbn [fst snd].
  apply indexed_get in Hin. apply get_nth_error in Hin as [J0 Hin].
  destruct (Forall2_nth_error_r _ _ _ _ _ Fm Hin) as (m & Gm & Em & s & s' & _ & Gs' & _).
  assert (Gm' : get (t_muts t) j = Ok m) by (apply get_nth_error; auto).
  destruct (check_refs_mut t CR0 j m Gm') as (Rs & Rn & Rp & Rj).
  pose proof (get_lt _ _ _ Gs') as Rs'.
  assert (Lm : zlen (t_muts t') = zlen (t_muts t)) by (unfold zlen; now rewrite (Forall2_length' _ _ _ Fm)).
  rewrite Em. cbn [m_site m_node m_parent mut_set_site]. unfold in_range.
  repeat (apply andb_true_iff; split); try (apply Z.leb_le; lia); try (apply Z.ltb_lt; lia).
  apply negb_true_iff, Z.eqb_neq. exact Rj.
Qed.

Theorem repair_prefix_succeeds Q t mds gds :
  qsorts_ok Q -> check_refs t = true -> edges_wf t mds -> migs_wf t gds -> consistent_input t ->
  NoDup (map (edge_key (map n_time (t_nodes t))) (t_edges t)) ->
  exists t4, repair_prefix Q t = Ok t4.
Proof.
  intros HQ CR EW GW CI ND. unfold repair_prefix. rewrite py_sort_zero_eq by auto.
  destruct (table_sort_spec Q HQ t mds gds CR EW GW) as (t1 & mds1 & gds1 & sp1 & mp1 & E1 & P1).
  rewrite E1. cbn [bind].
  pose proof (sort_post_check_refs t t1 _ _ _ _ _ _ CR EW GW P1) as CR1.
  destruct P1 as (EW1 & GW1 & Pe1 & _ & _ & _ & SW1 & _ & Same1 & _).
  destruct Same1 as (SL1 & Sn1 & _ & _).
  assert (S1 : Sorted (fun a b => s_pos a <= s_pos b) (t_sites t1)).
  { destruct SW1 as (_ & F & S). eapply Sorted_combine_pos; [|exact S]. eapply Forall2_length'; eauto. }
  destruct (deduplicate_sites_ok t1 CR1 S1) as [t2 E2]. rewrite E2. cbn [bind].
  assert (Pos1 : forall s, In s (t_sites t1) -> 0 <= s_pos s).
  { intros s Hs. assert (In s (t_sites t)) by (eapply Permutation_in; [symmetry; eapply sites_witness_perm; eauto | auto]).
    apply (ci_sites t CI) in H. lia. }
  pose proof (check_refs_after_dedup t1 t2 Pos1 CR1 E2) as CR2.
  destruct (deduplicate_sites_spec t1 t2 Pos1 CR1 E2) as (Fr2 & _).
  assert (EW2 : edges_wf t2 mds1) by (rewrite Fr2; exact EW1).
  assert (GW2 : migs_wf t2 gds1) by (rewrite Fr2; exact GW1).
  rewrite py_sort_zero_eq by auto.
  destruct (table_sort_spec Q HQ t2 mds1 gds1 CR2 EW2 GW2) as (t3 & mds3 & gds3 & sp3 & mp3 & E3 & _).
  rewrite E3. cbn [bind].
  apply (sort_then_build_index_ok Q t2 mds1 gds1 t3 HQ CR2 EW2 GW2); auto.
  destruct EW as (_ & _ & Le). destruct EW1 as (_ & _ & Le1).
  assert (Pes1 : Permutation (t_edges t) (t_edges t1)).
  { apply (Permutation_map fst) in Pe1. rewrite !map_fst_combine in Pe1 by auto. exact Pe1. }
  rewrite Fr2. cbn [t_nodes t_edges set_sites_muts]. rewrite <- Sn1.
  eapply Permutation_NoDup; [|exact ND]. now apply Permutation_map.
Qed.

(* ---------------------------------------------------------------------- *)
(* the whole pipeline                                                       *)
(* ---------------------------------------------------------------------- *)
(* The only way the pipeline can fail on a consistent collection is inside
   compute_mutation_parents (documented: sort() does not move a child mutation row behind its
   parent when their times are equal or unknown — finding 6); when it succeeds every parent is
   the nearest mutation above. *)
Lemma nearest_above_ext_par par par' nodes_of first k r :
  (forall c, par c = par' c) -> nearest_above par nodes_of first k r -> nearest_above par' nodes_of first k r.
Proof.
  intros E (u & Nu & H). exists u. split; auto. simpl in *.
  destruct (last_on (firstn k nodes_of) first u NULL =? NULL); auto.
  rewrite <- E. eapply nearest_anc_ext_par; eauto.
Qed.

Theorem repair_pipeline_proof Q t mds gds :
  qsorts_ok Q -> check_refs t = true -> edges_wf t mds -> migs_wf t gds -> consistent_input t ->
  NoDup (map (edge_key (map n_time (t_nodes t))) (t_edges t)) ->
  exists t4 insE outsE,
    repair_prefix Q t = Ok t4 /\ valid_for_parents t4 insE outsE /\
    (forall x c, parent_at (t_edges t4) x c = parent_at (t_edges t) x c) /\
    StronglySorted (fun a b => s_pos a < s_pos b) (t_sites t4) /\
    Permutation (map mut_content (t_muts t)) (map mut_content (t_muts t4)) /\
    same_nodes_inds_pops t t4 /\
    repair Q t = compute_mutation_parents t4 /\
    forall t5, compute_mutation_parents t4 = Ok t5 ->
      forall s site k, nth_error (t_sites t4) s = Some site ->
        (k < length (site_block (t_muts t4) (Z.of_nat s)))%nat ->
        let first := site_first (t_muts t4) (Z.of_nat s) in
        exists m', nth_error (t_muts t5) (Z.to_nat first + k) = Some m' /\
          nearest_above (parent_at (t_edges t) (s_pos site))
                        (map m_node (site_block (t_muts t4) (Z.of_nat s))) first k (m_parent m').
Proof.
  intros HQ CR EW GW CI ND.
  destruct (repair_prefix_succeeds Q t mds gds HQ CR EW GW CI ND) as [t4 E4].
  destruct (repair_prefix_spec Q t mds gds t4 HQ CR EW GW CI E4)
    as (_ & _ & Pa & Ss & _ & _ & Pm & Same & insE & outsE & V).
  exists t4, insE, outsE. repeat (split; [assumption|]).
  split; [rewrite repair_unfold, E4; reflexivity|].
  intros t5 E5 s site k Hs Hk first.
  destruct (mutation_parents_nearest_proof' t4 t5 insE outsE V E5) as (_ & _ & N).
  destruct (N s site k Hs Hk) as (m' & A & B & _). exists m'. split; auto.
  eapply nearest_above_ext_par; [|exact B]. intro c. apply Pa.
Qed.
