(* C07 — deduplicate_sites (tables.c 12278): on a site table sorted by position the first
   row of every position is kept (so positions become strictly increasing) and every mutation
   is moved to the kept row with the position of its old site; nothing else changes. *)
From Coq Require Import List ZArith Bool Lia Permutation Sorted.
From TskVerif Require Import Base.Common C07.Model C07.ListLemmas C07.SortProofs C07.RaggedProofs.
Import ListNotations.
Open Scope Z_scope.

(* specification: rows whose position differs from the previous row's *)
Fixpoint first_of_runs (prev : Z) (l : list site) : list site :=
  match l with
  | [] => []
  | s :: t => if s_pos s =? prev then first_of_runs prev t else s :: first_of_runs (s_pos s) t
  end.

Lemma dedup_loop_kept l : forall last count, fst (dedup_loop last count l) = first_of_runs last l.
Proof.
  induction l as [|s t IH]; intros last count; simpl; auto.
  destruct (s_pos s =? last) eqn:E; simpl; rewrite IH; [apply Z.eqb_eq in E; now rewrite E | reflexivity].
Qed.

Lemma dedup_loop_ids l : forall last count,
  length (snd (dedup_loop last count l)) = length l /\
  forall i s, nth_error l i = Some s ->
    exists id, nth_error (snd (dedup_loop last count l)) i = Some id /\
      ((id = count - 1 /\ s_pos s = last) \/
       (count <= id /\ exists s', nth_error (fst (dedup_loop last count l)) (Z.to_nat (id - count)) = Some s' /\
                                  s_pos s' = s_pos s)).
Proof.
  induction l as [|s t IH]; intros last count; simpl; [split; auto; intros [|i] ? H; discriminate|].
  set (isnew := negb (s_pos s =? last)). set (count' := if isnew then count + 1 else count).
  destruct (IH (s_pos s) count') as [L K]. split; [simpl; now rewrite L|].
  intros [|i] x Hx; simpl in Hx.
  - inversion Hx; subst x. exists (count' - 1). split; auto. unfold count', isnew.
    destruct (s_pos s =? last) eqn:E; simpl.
    + left. apply Z.eqb_eq in E. auto.
    + right. split; [lia|]. replace (count + 1 - 1 - count) with 0 by lia. simpl. eauto.
  - destruct (K i x Hx) as (id & N & C). exists id. split; auto.
    unfold count', isnew in *. destruct (s_pos s =? last) eqn:E; simpl in *.
    + apply Z.eqb_eq in E. destruct C as [[C1 C2]|[C1 (s' & C2 & C3)]].
      * left. split; [lia | congruence].
      * right. split; [lia|]. eauto.
    + destruct C as [[C1 C2]|[C1 (s' & C2 & C3)]].
      * right. split; [lia|]. replace (id - count) with 0 by lia. simpl. eauto.
      * right. split; [lia|]. replace (Z.to_nat (id - count)) with (S (Z.to_nat (id - (count + 1)))) by lia.
        simpl. eauto.
Qed.

Lemma first_of_runs_increasing l : forall prev,
  sites_sorted prev l = true ->
  StronglySorted (fun a b => s_pos a < s_pos b) (first_of_runs prev l) /\
  Forall (fun s => prev < s_pos s) (first_of_runs prev l).
Proof.
  induction l as [|s t IH]; intros prev S; simpl; [split; constructor|].
  simpl in S. apply andb_true_iff in S as [S1 S2]. apply Z.leb_le in S1.
  destruct (IH _ S2) as [I1 I2].
  destruct (s_pos s =? prev) eqn:E.
  - apply Z.eqb_eq in E. rewrite <- E. auto.
  - apply Z.eqb_neq in E. split.
    + constructor; auto.
    + constructor; [lia|]. eapply Forall_impl; [|exact I2]. simpl. intros; lia.
Qed.

Lemma first_of_runs_length l : forall prev,
  (length (first_of_runs prev l) <= length l)%nat /\
  (length (first_of_runs prev l) = length l -> first_of_runs prev l = l).
Proof.
  induction l as [|s t IH]; intro prev; simpl; [split; auto|].
  destruct (s_pos s =? prev).
  - destruct (IH prev) as [I1 I2]. split; [lia|]. intro H. lia.
  - destruct (IH (s_pos s)) as [I1 I2]. simpl. split; [lia|]. intro H. f_equal. apply I2. lia.
Qed.

Lemma check_refs_sites t m : check_refs t = true -> In m (t_muts t) -> 0 <= m_site m < zlen (t_sites t).
Proof.
  unfold check_refs. rewrite !andb_true_iff. intros [[_ H2] _] Hm.
  rewrite forallb_forall in H2. destruct (In_nth_error _ _ Hm) as [p Hp].
  assert (In (Z.of_nat p, m) (indexed 0 (t_muts t))) by (apply indexed_get; now apply get_of_nat).
  specialize (H2 _ H). simpl in H2. rewrite !andb_true_iff in H2.
  destruct H2 as [[[[A _] _] _] _]. unfold in_range in A. rewrite andb_true_iff, Z.leb_le, Z.ltb_lt in A. exact A.
Qed.

Theorem deduplicate_sites_spec t t' :
  (forall s, In s (t_sites t) -> 0 <= s_pos s) -> check_refs t = true ->
  deduplicate_sites t = Ok t' ->
  (* everything but sites and mutations.site is unchanged *)
  t' = set_sites_muts t (t_sites t') (t_muts t') /\
  t_sites t' = first_of_runs (-1) (t_sites t) /\
  StronglySorted (fun a b => s_pos a < s_pos b) (t_sites t') /\
  Forall2 (fun m m' => m' = mut_set_site m (m_site m') /\
             exists s s', get (t_sites t) (m_site m) = Ok s /\ get (t_sites t') (m_site m') = Ok s' /\
                          s_pos s' = s_pos s) (t_muts t) (t_muts t').
Proof.
  intros Pos CR. unfold deduplicate_sites.
  destruct (t_sites t) as [|s0 tl] eqn:Es.
  - intro H; inversion H; subst t'. rewrite Es. simpl.
    assert (t_muts t = []) as Em.
    { destruct (t_muts t) as [|m ms] eqn:E; auto. exfalso.
      pose proof (check_refs_sites t m CR) as R. rewrite E, Es in R. specialize (R (or_introl eq_refl)).
      unfold zlen in R. simpl in R. lia. }
    rewrite Em. repeat split; try constructor. destruct t; simpl in *; subst; reflexivity.
  - rewrite CR. cbn [negb].
    destruct (sites_sorted (s_pos s0) (s0 :: tl)) eqn:SS; cbn [negb]; [|intro H; discriminate].
    assert (SS' : sites_sorted (-1) (s0 :: tl) = true).
    { simpl in *. apply andb_true_iff in SS as [_ S2]. rewrite S2, andb_true_r.
      apply Z.leb_le. specialize (Pos s0 (or_introl eq_refl)). lia. }
    destruct (dedup_loop_ids (s0 :: tl) (-1) 0) as [Lids Kids].
    pose proof (dedup_loop_kept (s0 :: tl) (-1) 0) as Kept.
    set (r := dedup_loop (-1) 0 (s0 :: tl)) in *.
    destruct (first_of_runs_increasing (s0 :: tl) (-1) SS') as [Inc _].
    destruct (first_of_runs_length (s0 :: tl) (-1)) as [Len1 Len2].
    assert (Inc' : StronglySorted (fun a b => s_pos a < s_pos b) (fst r)) by (rewrite Kept; exact Inc).
    assert (MapOk : forall m, In m (t_muts t) ->
              exists id s s', get (snd r) (m_site m) = Ok id /\ get (s0 :: tl) (m_site m) = Ok s /\
                              get (fst r) id = Ok s' /\ s_pos s' = s_pos s).
    { intros m Hm. pose proof (check_refs_sites t m CR Hm) as R. rewrite Es in R.
      destruct (get_ok_iff (s0 :: tl) (m_site m)) as [_ G]. destruct (G R) as [s Gs].
      pose proof Gs as Gs'. apply get_nth_error in Gs' as [_ Gn].
      destruct (Kids _ _ Gn) as (id & Nid & C).
      destruct C as [[C1 C2]|[C1 (s' & C2 & C3)]].
      - exfalso. specialize (Pos s (get_in _ _ _ Gs)). lia.
      - exists id, s, s'. rewrite Z.sub_0_r in C2. repeat split; auto.
        + apply get_nth_error. split; [lia | exact Nid].
        + apply get_nth_error. split; [lia | exact C2]. }
    destruct (zlen (fst r) <? zlen (s0 :: tl)) eqn:C.
    + (* some duplicates removed: mutation sites remapped *)
      set (g := fun m => mut_set_site m (val NULL (get (snd r) (m_site m)))).
      rewrite (mapM_eq_map _ g).
      2:{ intros m Hm. destruct (MapOk m Hm) as (id & s & s' & G1 & _). unfold g. rewrite G1. reflexivity. }
      cbn [bind]. intro H; inversion H; subst t'. cbn [t_sites t_muts set_sites_muts].
      split; [reflexivity|]. split; [exact Kept|]. split; [exact Inc'|].
      assert (F : forall l, (forall m, In m l -> In m (t_muts t)) ->
                  Forall2 (fun m m' => m' = mut_set_site m (m_site m') /\
                     exists s s', get (s0 :: tl) (m_site m) = Ok s /\ get (fst r) (m_site m') = Ok s' /\
                                  s_pos s' = s_pos s) l (map g l)).
      { induction l as [|m l IH]; intro Hl; simpl; constructor.
        - destruct (MapOk m (Hl m (or_introl eq_refl))) as (id & s & s' & G1 & G2 & G3 & G4).
          unfold g. rewrite G1. simpl. split; [reflexivity|]. eauto.
        - apply IH. intros; apply Hl; now right. }
      exact (F _ (fun m H => H)).
    + (* nothing removed *)
      apply Z.ltb_ge in C. intro H; inversion H; subst t'. cbn [t_sites t_muts set_sites_muts].
      assert (Eq : first_of_runs (-1) (s0 :: tl) = s0 :: tl).
      { apply Len2. rewrite Kept in C. unfold zlen in C. lia. }
      split; [reflexivity|]. split; [exact Kept|]. split; [exact Inc'|].
      assert (Eq' : fst r = s0 :: tl) by (rewrite Kept; exact Eq).
      assert (F : forall l, (forall m, In m l -> In m (t_muts t)) ->
                  Forall2 (fun m m' => m' = mut_set_site m (m_site m') /\
                     exists s s', get (s0 :: tl) (m_site m) = Ok s /\ get (fst r) (m_site m') = Ok s' /\
                                  s_pos s' = s_pos s) l l).
      { induction l as [|m l IH]; intro Hl; constructor.
        - split; [now destruct m|].
          destruct (MapOk m (Hl m (or_introl eq_refl))) as (id & s & s' & _ & G2 & _).
          exists s, s. rewrite Eq'. auto.
        - apply IH. intros; apply Hl; now right. }
      exact (F _ (fun m H => H)).
Qed.
