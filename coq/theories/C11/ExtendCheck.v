(* C11 — extend_haplotypes, translation validation.

   The edge-extension passes of tsk_treeseq_extend_haplotypes (haplotype_extender_*, c/tskit/
   trees.c 8649-9148) are NOT modelled.  Instead [check_site] is an executable checker that,
   given the input edge table, the OUTPUT edge table of one call, a site position and the
   site's mutations before / after, decides the "documented effect" precondition of
   [extend_preserves_genotype] (ExtendSpec.v): every node of the input tree keeps its input
   parent as an ancestor, what lies in between is a run of nodes absent from the input tree,
   runs are duplicate free and pairwise disjoint, every mutation sits above a node of the
   input tree, and the output mutation nodes are what the slide loop computes.

   [extend_check_sound]: whenever the checker accepts, every ancestor chain of the input tree
   is mapped to an ancestor chain of the output tree along which the inherited state is the
   same.  The correspondence evaluates the checker (vm_compute) on every output of the
   implementation, so for each such output genotype preservation is a theorem, and the
   precondition is no longer an assumption checked only by a Python oracle. *)
From Coq Require Import List ZArith Bool Lia Sorted ZifyBool.
From TskVerif Require Import Base.Common C11.Model C11.ExtendSpec.
Import ListNotations.
Open Scope Z_scope.

(* parent of u at position x according to an edge table: first covering edge row *)
Definition covers_child (x u : Z) (e : edge) : bool :=
  (e_left e <=? x) && (x <? e_right e) && (e_child e =? u).
Definition par (es : list edge) (x u : Z) : option Z := option_map e_parent (find (covers_child x u) es).

Inductive chain_rel (p : Z -> option Z) : Z -> list Z -> Prop :=
| chain_root u : p u = None -> chain_rel p u [u]
| chain_step u q l : p u = Some q -> chain_rel p q l -> chain_rel p u (u :: l).

Definition oeqb (a b : option Z) : bool :=
  match a, b with Some x, Some y => x =? y | None, None => true | _, _ => false end.

Lemma oeqb_eq a b : oeqb a b = true <-> a = b.
Proof. destruct a, b; simpl; split; intros H; try discriminate; try reflexivity; [f_equal; lia | inversion H; lia]. Qed.

(* nodes met walking up the output tree from v until the parent is [target] *)
Fixpoint walk (po : Z -> option Z) (fuel : nat) (v : Z) (target : option Z) : option (list Z) :=
  if oeqb (po v) target then Some [] else
  match po v with
  | None => None
  | Some n => match fuel with
              | O => None
              | S f => match walk po f n target with Some r => Some (n :: r) | None => None end
              end
  end.

Definition memb (u : Z) (l : list Z) : bool := existsb (Z.eqb u) l.
Lemma memb_In u l : memb u l = true <-> In u l.
Proof. unfold memb. rewrite existsb_exists. split; [intros (x & H & E); replace u with x by lia; exact H | intros H; exists u; split; [exact H | lia]]. Qed.

Fixpoint nodupb (l : list Z) : bool :=
  match l with [] => true | a :: t => negb (memb a t) && nodupb t end.
Lemma nodupb_NoDup l : nodupb l = true -> NoDup l.
Proof.
  induction l as [|a t IH]; simpl; intros H; [constructor|]. apply andb_true_iff in H as [A B].
  constructor; [|apply IH, B]. intros Hin. apply memb_In in Hin. rewrite Hin in A. discriminate.
Qed.

Definition origb (es : list edge) (x : Z) (nodes : list Z) (u : Z) : bool :=
  match par es x u with Some _ => true | None => false end
  || existsb (fun v => oeqb (par es x v) (Some u)) nodes.

Section Site.
  Variables es_in es_out : list edge.
  Variable x : Z.
  Variable nodes : list Z.
  Variable fuel : nat.
  Variable tm : Z -> Z.

  Definition pin := par es_in x.
  Definition pout := par es_out x.
  Definition origs : list Z := filter (origb es_in x nodes) nodes.
  Definition runf (u : Z) : list Z :=
    if memb u origs then match walk pout fuel u (pin u) with Some r => r | None => [] end else [].

  Fixpoint time_sortedb (ms : list smut) : bool :=
    match ms with
    | [] => true
    | a :: t => forallb (fun b => negb (sn a =? sn b) || (st b <=? st a)) t && time_sortedb t
    end.

  Definition smut_eqb (a b : smut) : bool := (sn a =? sn b) && (st a =? st b) && (ss a =? ss b).

  Definition check_site (ms_in ms_out : list smut) : bool :=
    nodupb nodes
    && forallb (fun e => memb (e_parent e) nodes && memb (e_child e) nodes) es_in
    && forallb (fun u => match walk pout fuel u (pin u) with Some _ => true | None => false end) origs
    && nodupb (flat_map runf origs)
    && forallb (fun n => negb (memb n origs)) (flat_map runf origs)
    && forallb (fun m => memb (sn m) origs) ms_in
    && time_sortedb ms_in
    && list_eqb smut_eqb ms_out (map (slide tm runf) ms_in).

  (* ----------------------------------------------------------------------- *)

  Lemma walk_chain f : forall v target r tail,
    walk pout f v target = Some r ->
    match target with Some p => chain_rel pout p tail | None => tail = [] end ->
    chain_rel pout v (v :: r ++ tail).
  Proof.
    induction f as [|f IH]; intros v target r tail H T; simpl in H.
    - destruct (oeqb (pout v) target) eqn:E.
      + inversion H; subst. apply oeqb_eq in E. simpl. destruct target as [p|]; subst.
        * eapply chain_step; eauto.
        * apply chain_root; exact E.
      + destruct (pout v); discriminate.
    - destruct (oeqb (pout v) target) eqn:E.
      + inversion H; subst. apply oeqb_eq in E. simpl. destruct target as [p|]; subst.
        * eapply chain_step; eauto.
        * apply chain_root; exact E.
      + destruct (pout v) as [n|] eqn:P; [|discriminate].
        destruct (walk pout f n target) as [r'|] eqn:W; [|discriminate]. inversion H; subst.
        simpl. eapply chain_step; [exact P|]. eapply IH; eauto.
  Qed.

  Lemma NoDup_app_disj {A} (l1 l2 : list A) a : NoDup (l1 ++ l2) -> In a l1 -> In a l2 -> False.
  Proof.
    induction l1 as [|b l1 IH]; simpl; intros N H1 H2; [destruct H1|].
    inversion N as [|? ? N1 N2]; subst. destruct H1 as [->|H1].
    - apply N1. apply in_or_app. right. exact H2.
    - eapply IH; eauto.
  Qed.

  Lemma nodup_app_r {A} (l1 l2 : list A) : NoDup (l1 ++ l2) -> NoDup l2.
  Proof. induction l1 as [|a l1 IH]; simpl; intros N; [exact N|]. inversion N; subst. apply IH; assumption. Qed.

  Lemma nodup_app_l {A} (l1 l2 : list A) : NoDup (l1 ++ l2) -> NoDup l1.
  Proof.
    induction l1 as [|a l1 IH]; simpl; intros N; [constructor|]. inversion N as [|? ? N1 N2]; subst.
    constructor; [intros Hin; apply N1, in_or_app; left; exact Hin | apply IH, N2].
  Qed.

  Lemma flat_map_nodup_inj (f : Z -> list Z) l a b n :
    NoDup (flat_map f l) -> In a l -> In b l -> In n (f a) -> In n (f b) -> a = b.
  Proof.
    induction l as [|c l IH]; simpl; intros N Ha Hb Na Nb; [destruct Ha|].
    assert (N2 : NoDup (flat_map f l)) by (eapply nodup_app_r; eauto).
    destruct Ha as [->|Ha]; destruct Hb as [->|Hb]; try reflexivity.
    - exfalso. eapply (NoDup_app_disj _ _ n N); [exact Na | apply in_flat_map; eauto].
    - exfalso. eapply (NoDup_app_disj _ _ n N); [exact Nb | apply in_flat_map; eauto].
    - eapply IH; eauto.
  Qed.

  Lemma flat_map_nodup_each (f : Z -> list Z) l a : NoDup (flat_map f l) -> In a l -> NoDup (f a).
  Proof.
    induction l as [|c l IH]; simpl; intros N Ha; [destruct Ha|].
    destruct Ha as [->|Ha]; [eapply nodup_app_l; eauto | apply IH; [eapply nodup_app_r; eauto | exact Ha]].
  Qed.

  Lemma time_sortedb_sound ms : time_sortedb ms = true -> time_sorted ms.
  Proof.
    induction ms as [|a t IH]; simpl; intros H; [constructor|]. apply andb_true_iff in H as [A B].
    constructor; [apply IH, B|]. apply Forall_forall. intros b Hb. rewrite forallb_forall in A.
    specialize (A b Hb). intros E. lia.
  Qed.

  Lemma smut_list_eqb_eq a b : list_eqb smut_eqb a b = true -> a = b.
  Proof.
    apply list_eqb_eq. intros [n1 t1 s1] [n2 t2 s2]. unfold smut_eqb; simpl. split; intros H.
    - f_equal; lia.
    - inversion H; subst. lia.
  Qed.

  Lemma find_some_par es u q : par es x u = Some q -> exists e, In e es /\ e_parent e = q /\ e_child e = u.
  Proof.
    unfold par. destruct (find (covers_child x u) es) as [e|] eqn:F; [|discriminate]. simpl. intros H. inversion H; subst.
    apply find_some in F as [F1 F2]. unfold covers_child in F2. exists e. repeat split; auto. lia.
  Qed.

  Theorem extend_check_sound_lemma ms_in ms_out :
    check_site ms_in ms_out = true ->
    forall u cin anc, In u origs -> chain_rel pin u cin ->
      chain_rel pout u (expand runf cin) /\
      geno (expand runf cin) ms_out anc = geno cin ms_in anc.
  Proof.
    unfold check_site. intros H.
    repeat (apply andb_true_iff in H as [H ?]).
    rename H into Hnd, H6 into Hends, H5 into Hwalk, H4 into Hrnd, H3 into Habs, H2 into Hms, H1 into Hsorted, H0 into Hout.
    apply nodupb_NoDup in Hnd. apply nodupb_NoDup in Hrnd.
    rewrite forallb_forall in Hends, Hwalk, Habs, Hms.
    apply smut_list_eqb_eq in Hout. apply time_sortedb_sound in Hsorted.
    (* every chain of the input tree from an orig node maps to the expanded chain, and stays orig *)
    assert (Hchain : forall u cin, In u origs -> chain_rel pin u cin ->
                                   chain_rel pout u (expand runf cin) /\ forall v, In v cin -> In v origs).
    { intros u cin Hu C. induction C as [u P|u q l P C IH].
      - unfold expand; simpl. rewrite app_nil_r. split; [|intros v [<-|[]]; exact Hu].
        pose proof (Hwalk u Hu) as W. unfold runf. rewrite (proj2 (memb_In u origs) Hu).
        destruct (walk pout fuel u (pin u)) as [r|] eqn:E; [|discriminate].
        rewrite P in E. replace r with (r ++ []) by apply app_nil_r. eapply walk_chain; [exact E | reflexivity].
      - assert (Hq : In q origs).
        { unfold origs. apply filter_In. destruct (find_some_par es_in u q P) as (e & E1 & E2 & E3).
          specialize (Hends e E1). apply andb_true_iff in Hends as [Hp Hc]. rewrite E2 in Hp. apply memb_In in Hp.
          split; [exact Hp|]. unfold origb. apply orb_true_iff. right. apply existsb_exists. exists u.
          split; [unfold origs in Hu; apply filter_In in Hu; tauto | apply oeqb_eq; exact P]. }
        destruct (IH Hq) as [IH1 IH2]. split; [|intros v [<-|Hv]; [exact Hu | apply IH2, Hv]].
        unfold expand; simpl. fold (expand runf l).
        pose proof (Hwalk u Hu) as W. unfold runf at 1. rewrite (proj2 (memb_In u origs) Hu).
        destruct (walk pout fuel u (pin u)) as [r|] eqn:E; [|discriminate].
        rewrite P in E. eapply walk_chain; [exact E | exact IH1]. }
    intros u cin anc Hu C. destruct (Hchain u cin Hu C) as [C1 C2]. split; [exact C1|].
    rewrite Hout.
    apply (extend_preserves_genotype_lemma tm runf (fun v => In v origs)); auto.
    - (* inserted nodes are not in the input tree *)
      intros v n Hn Ho. unfold runf in Hn. destruct (memb v origs) eqn:M; [|destruct Hn].
      apply memb_In in M.
      assert (In n (flat_map runf origs)).
      { apply in_flat_map. exists v. split; [exact M|]. unfold runf. rewrite (proj2 (memb_In v origs) M). exact Hn. }
      specialize (Habs n H). apply memb_In in Ho. rewrite Ho in Habs. discriminate.
    - (* each inserted node in one place only *)
      intros v v' n Hn Hn'.
      assert (Mv : In v origs) by (unfold runf in Hn; destruct (memb v origs) eqn:M; [apply memb_In, M | destruct Hn]).
      assert (Mv' : In v' origs) by (unfold runf in Hn'; destruct (memb v' origs) eqn:M; [apply memb_In, M | destruct Hn']).
      eapply flat_map_nodup_inj; eauto.
    - intros v. destruct (memb v origs) eqn:M.
      + apply memb_In in M. eapply flat_map_nodup_each; eauto.
      + unfold runf. rewrite M. constructor.
    - intros m Hm. apply memb_In. apply Hms, Hm.
  Qed.
End Site.

(* all sites of one call: (position, mutations before, mutations after) *)
Definition check_extend (es_in es_out : list edge) (nodes : list Z) (fuel : nat) (times : list Z)
           (sites : list (Z * list smut * list smut)) : bool :=
  forallb (fun s => check_site es_in es_out (fst (fst s)) nodes fuel
                               (fun u => nth (Z.to_nat u) times 0) (snd (fst s)) (snd s)) sites.

(* non-vacuity: the three-tree shape of seeded/C11-6 at the site inside the extended span *)
Example check_site_example :
  let es_in := [mkE 0 5 3 0 []; mkE 0 5 4 3 []; mkE 5 15 4 0 []; mkE 0 10 4 1 []; mkE 10 15 3 1 [];
                mkE 10 15 5 3 []; mkE 0 15 4 2 []] in
  let es_out := [mkE 0 10 3 0 []; mkE 0 10 4 3 []; mkE 10 15 4 0 []; mkE 0 10 4 1 []; mkE 10 15 3 1 [];
                 mkE 10 15 5 3 []; mkE 0 15 4 2 []] in
  check_extend es_in es_out [0; 1; 2; 3; 4; 5] 6 [0; 0; 0; 1; 3; 5]
               [(7, [mkSM 0 2 84], [mkSM 3 2 84]); (2, [mkSM 0 0 71], [mkSM 0 0 71])] = true
  /\ (* a mutation above a node absent from the tree at that site (F15) is refused *)
  check_extend es_in es_out [0; 1; 2; 3; 4; 5] 6 [0; 0; 0; 1; 3; 5] [(7, [mkSM 5 5 84], [mkSM 5 5 84])] = false.
Proof. split; vm_compute; reflexivity. Qed.
