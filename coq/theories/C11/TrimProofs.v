(* C11 — ltrim / rtrim / trim: a coordinate shift of every row, nothing else.
   True for the repaired variant; for the code as it exists the edge and migration metadata
   columns are erased (finding F7) and the migration check is too weak (finding F14). *)
From Coq Require Import List ZArith Bool Lia Permutation Sorted ZifyBool.
From TskVerif Require Import Base.Common Gen.Generated C11.Model C11.Current C11.Spec C11.IntervalProofs C11.SitesProofs.
Import ListNotations.
Open Scope Z_scope.

(* np.min / np.max *)
Lemma fold_min_le l a : fold_left Z.min l a <= a /\ (forall x, In x l -> fold_left Z.min l a <= x)
                        /\ (fold_left Z.min l a = a \/ In (fold_left Z.min l a) l).
Proof.
  revert a. induction l as [|b l IH]; intros a; simpl.
  - split; [lia|]. split; [tauto | left; reflexivity].
  - destruct (IH (Z.min a b)) as (H1 & H2 & H3). split; [lia|]. split.
    + intros x [<-|Hx]; [lia | auto].
    + destruct H3 as [H3|H3]; [|right; right; exact H3].
      destruct (Z.min_spec a b) as [[_ E]|[_ E]]; [left; rewrite H3; exact E | right; left; rewrite H3; lia].
Qed.

Lemma np_min_spec l : l <> [] -> In (np_min l) l /\ forall x, In x l -> np_min l <= x.
Proof.
  destruct l as [|a l]; [congruence|]. intros _. unfold np_min.
  destruct (fold_min_le l a) as (H1 & H2 & H3). split.
  - destruct H3 as [->|H3]; [left; reflexivity | right; exact H3].
  - intros x [<-|Hx]; [exact H1 | auto].
Qed.

Lemma fold_max_ge l a : a <= fold_left Z.max l a /\ (forall x, In x l -> x <= fold_left Z.max l a)
                        /\ (fold_left Z.max l a = a \/ In (fold_left Z.max l a) l).
Proof.
  revert a. induction l as [|b l IH]; intros a; simpl.
  - split; [lia|]. split; [tauto | left; reflexivity].
  - destruct (IH (Z.max a b)) as (H1 & H2 & H3). split; [lia|]. split.
    + intros x [<-|Hx]; [lia | auto].
    + destruct H3 as [H3|H3]; [|right; right; exact H3].
      destruct (Z.max_spec a b) as [[_ E]|[_ E]]; [right; left; rewrite H3; lia | left; rewrite H3; exact E].
Qed.

Lemma np_max_spec l : l <> [] -> In (np_max l) l /\ forall x, In x l -> x <= np_max l.
Proof.
  destruct l as [|a l]; [congruence|]. intros _. unfold np_max.
  destruct (fold_max_ge l a) as (H1 & H2 & H3). split.
  - destruct H3 as [->|H3]; [left; reflexivity | right; exact H3].
  - intros x [<-|Hx]; [exact H1 | auto].
Qed.

Definition leftmost (t : tables) : Z := np_min (map e_left (t_edges t)).
Definition rightmost (t : tables) : Z := np_max (map e_right (t_edges t)).

Lemma check_trim_edges cf t : check_trim_conditions cf t = false -> t_edges t <> [].
Proof. unfold check_trim_conditions. destruct (t_edges t); [destruct (t_migs t); simpl; discriminate | discriminate]. Qed.

(* with the repaired check every migration lies within the span of the edges *)
Lemma check_trim_migs t : check_trim_conditions true t = false ->
  forall g, In g (t_migs t) -> leftmost t <= g_left g /\ g_right g <= rightmost t.
Proof.
  unfold check_trim_conditions, leftmost, rightmost. intros H g Hg.
  destruct (t_migs t) as [|g0 gs] eqn:Eg; [destruct Hg|].
  destruct (t_edges t) as [|e0 es] eqn:Ee; [discriminate|].
  rewrite orb_false_r in H. apply orb_false_iff in H as [A B].
  assert (N : map g_left (g0 :: gs) <> []) by discriminate.
  assert (N' : map g_right (g0 :: gs) <> []) by discriminate.
  destruct (np_min_spec _ N) as [_ M1]. destruct (np_max_spec _ N') as [_ M2].
  specialize (M1 (g_left g) (in_map g_left _ _ Hg)). specialize (M2 (g_right g) (in_map g_right _ _ Hg)).
  lia.
Qed.

Lemma leftmost_spec t : t_edges t <> [] ->
  (exists e, In e (t_edges t) /\ e_left e = leftmost t) /\ forall e, In e (t_edges t) -> leftmost t <= e_left e.
Proof.
  intros H. assert (N : map e_left (t_edges t) <> []) by (destruct (t_edges t); [congruence|discriminate]).
  destruct (np_min_spec _ N) as [M1 M2]. split.
  - apply in_map_iff in M1 as (e & E1 & E2). eauto.
  - intros e He. apply M2, in_map, He.
Qed.

Lemma rightmost_spec t : t_edges t <> [] ->
  (exists e, In e (t_edges t) /\ e_right e = rightmost t) /\ forall e, In e (t_edges t) -> e_right e <= rightmost t.
Proof.
  intros H. assert (N : map e_right (t_edges t) <> []) by (destruct (t_edges t); [congruence|discriminate]).
  destruct (np_max_spec _ N) as [M1 M2]. split.
  - apply in_map_iff in M1 as (e & E1 & E2). eauto.
  - intros e He. apply M2, in_map, He.
Qed.

(* ------------------------------------------------------------------------- *)
(* ltrim, both variants at once                                                *)

Theorem ltrim_gen_spec emd gmd cf t t' :
  ltrim_gen emd gmd cf t = Ok t' ->
  let d := leftmost t in
  let smask := map (fun s => negb (s_pos s <? d)) (t_sites t) in
  t_edges t <> [] /\
  t_L t' = t_L t - d /\ t_nodes t' = t_nodes t /\
  t_edges t' = map (shift_edge emd d) (t_edges t) /\
  t_migs t' = map (shift_mig gmd d) (t_migs t) /\
  t_sites t' = map (shift_site d) (filter (fun s => negb (s_pos s <? d)) (t_sites t)) /\
  (parents_same_site (t_muts t) ->
   t_muts t' = map (renumber smask (site_mask_of_muts smask (t_muts t)))
                   (filter (fun m => kept smask (m_site m)) (t_muts t))).
Proof.
  intros H d smask. unfold ltrim_gen in H.
  destruct (check_trim_conditions cf t) eqn:C; [discriminate|].
  apply bind_ok in H as (t1 & H1 & H). inversion H; subst; clear H. simpl.
  apply delete_sites_pred_spec in H1 as (A1 & A2 & A3 & A4 & A5 & A6).
  split; [eapply check_trim_edges; eauto|].
  fold (leftmost t). fold d. rewrite A1, A2, A3, A4, A5.
  repeat (split; [reflexivity|]). exact A6.
Qed.

(* topology under the shift: the covering relation at x - d is the relation at x *)
Lemma shift_edges_topology d es x c p md :
  edge_at (map (shift_edge true d) es) (x - d) c p md <-> edge_at es x c p md.
Proof.
  unfold edge_at. split.
  - intros (e' & H1 & H2). apply in_map_iff in H1 as (e & <- & H1). simpl in H2.
    exists e. split; [exact H1|]. destruct H2 as (A & B & C & D). repeat split; auto; lia.
  - intros (e & H1 & A & B & C & D). exists (shift_edge true d e). split; [apply in_map, H1|].
    simpl. repeat split; auto; lia.
Qed.

Lemma shift_edges_topology_nomd d es x c p :
  (exists md, edge_at (map (shift_edge false d) es) (x - d) c p md) <-> (exists md, edge_at es x c p md).
Proof.
  unfold edge_at. split.
  - intros (md & e' & H1 & H2). apply in_map_iff in H1 as (e & <- & H1). simpl in H2.
    exists (e_md e), e. split; [exact H1|]. destruct H2 as (A & B & C & D). repeat split; auto; lia.
  - intros (md & e & H1 & A & B & C & D). exists [], (shift_edge false d e). split; [apply in_map, H1|].
    simpl. repeat split; auto; lia.
Qed.

(* (e) trim_shift for the repaired ltrim *)
Theorem ltrim_repaired_shift_lemma t t' :
  ltrim_repaired t = Ok t' ->
  let d := leftmost t in
  let smask := map (fun s => negb (s_pos s <? d)) (t_sites t) in
  (* the shift is by the left end of the leftmost edge, which lands on 0 *)
  (exists e, In e (t_edges t) /\ e_left e = d) /\ (forall e, In e (t_edges t) -> d <= e_left e) /\
  (exists e', In e' (t_edges t') /\ e_left e' = 0) /\ (forall e', In e' (t_edges t') -> 0 <= e_left e') /\
  t_L t' = t_L t - d /\ t_nodes t' = t_nodes t /\
  (* every edge / migration row: coordinates shifted, all other fields incl. metadata kept *)
  t_edges t' = map (shift_edge true d) (t_edges t) /\
  t_migs t' = map (shift_mig true d) (t_migs t) /\
  (forall g', In g' (t_migs t') -> 0 <= g_left g') /\
  (* sites at or right of the new origin: same rows, shifted; the others are dropped *)
  t_sites t' = map (shift_site d) (filter (fun s => d <=? s_pos s) (t_sites t)) /\
  (parents_same_site (t_muts t) ->
   t_muts t' = map (renumber smask (site_mask_of_muts smask (t_muts t)))
                   (filter (fun m => kept smask (m_site m)) (t_muts t))) /\
  (* topology unchanged *)
  (forall x c p md, edge_at (t_edges t') (x - d) c p md <-> edge_at (t_edges t) x c p md).
Proof.
  intros H d smask. pose proof H as H0. unfold ltrim_repaired in H.
  apply ltrim_gen_spec in H as (N & A1 & A2 & A3 & A4 & A5 & A6). fold d in A1, A3, A4, A5. fold smask in A6.
  destruct (leftmost_spec t N) as [(e0 & E1 & E2) M]. fold d in E2, M.
  split; [eauto|]. split; [exact M|]. split.
  { exists (shift_edge true d e0). rewrite A3. split; [apply in_map, E1 | simpl; lia]. }
  split.
  { intros e' He'. rewrite A3 in He'. apply in_map_iff in He' as (e & <- & He). simpl. specialize (M e He). lia. }
  repeat (split; [assumption|]). split.
  { intros g' Hg'. rewrite A4 in Hg'. apply in_map_iff in Hg' as (g & <- & Hg). simpl.
    unfold ltrim_repaired, ltrim_gen in H0. destruct (check_trim_conditions true t) eqn:C; [discriminate|].
    destruct (check_trim_migs t C g Hg). fold d in H. lia. }
  split.
  { rewrite A5. f_equal. apply filter_ext. intros s. lia. }
  split; [exact A6|].
  intros x c p md. rewrite A3. apply shift_edges_topology.
Qed.

(* the code as it exists: same shift, but every edge / migration row loses its metadata *)
Theorem ltrim_current_lemma t t' :
  ltrim t = Ok t' ->
  let d := leftmost t in
  t_edges t' = map (shift_edge false d) (t_edges t) /\
  t_migs t' = map (shift_mig false d) (t_migs t) /\
  (forall e', In e' (t_edges t') -> e_md e' = []) /\
  (forall g', In g' (t_migs t') -> g_md g' = []) /\
  (forall x c p, (exists md, edge_at (t_edges t') (x - d) c p md) <-> (exists md, edge_at (t_edges t) x c p md)).
Proof.
  intros H d. unfold ltrim in H. apply ltrim_gen_spec in H as (N & A1 & A2 & A3 & A4 & A5 & A6).
  fold d in A3, A4. split; [exact A3|]. split; [exact A4|]. split; [|split].
  - intros e' He'. rewrite A3 in He'. apply in_map_iff in He' as (e & <- & _). reflexivity.
  - intros g' Hg'. rewrite A4 in Hg'. apply in_map_iff in Hg' as (g & <- & _). reflexivity.
  - intros x c p. rewrite A3. apply shift_edges_topology_nomd.
Qed.

(* ------------------------------------------------------------------------- *)
(* rtrim                                                                       *)

Theorem rtrim_gen_spec cf t t' :
  rtrim_gen cf t = Ok t' ->
  let r := rightmost t in
  let smask := map (fun s => negb (s_pos s >=? r)) (t_sites t) in
  t_edges t <> [] /\
  t_L t' = r /\ t_nodes t' = t_nodes t /\ t_edges t' = t_edges t /\ t_migs t' = t_migs t /\
  t_sites t' = filter (fun s => s_pos s <? r) (t_sites t) /\
  (parents_same_site (t_muts t) ->
   t_muts t' = map (renumber smask (site_mask_of_muts smask (t_muts t)))
                   (filter (fun m => kept smask (m_site m)) (t_muts t))).
Proof.
  intros H r smask. unfold rtrim_gen in H.
  destruct (check_trim_conditions cf t) eqn:C; [discriminate|].
  apply bind_ok in H as (t1 & H1 & H). inversion H; subst; clear H. simpl.
  apply delete_sites_pred_spec in H1 as (A1 & A2 & A3 & A4 & A5 & A6).
  split; [eapply check_trim_edges; eauto|].
  fold (rightmost t). fold r. rewrite A2, A3, A4, A5.
  repeat (split; [reflexivity|]). split; [|exact A6].
  apply filter_ext. intros s. unfold r, rightmost. lia.
Qed.

Theorem rtrim_shift_lemma cf t t' :
  rtrim_gen cf t = Ok t' ->
  let r := rightmost t in
  (exists e, In e (t_edges t) /\ e_right e = r) /\ (forall e, In e (t_edges t) -> e_right e <= r) /\
  t_L t' = r /\ t_nodes t' = t_nodes t /\ t_edges t' = t_edges t /\ t_migs t' = t_migs t /\
  t_sites t' = filter (fun s => s_pos s <? r) (t_sites t) /\
  (cf = true -> forall g, In g (t_migs t') -> g_right g <= t_L t').
Proof.
  intros H r. pose proof H as H0. apply rtrim_gen_spec in H as (N & A1 & A2 & A3 & A4 & A5 & _).
  destruct (rightmost_spec t N) as [E M]. fold r in E, M, A1, A5.
  repeat (split; [assumption|]). intros -> g Hg. rewrite A4 in Hg. rewrite A1.
  unfold rtrim_gen in H0. destruct (check_trim_conditions true t) eqn:C; [discriminate|].
  destruct (check_trim_migs t C g Hg). fold r in H1. exact H1.
Qed.

(* ------------------------------------------------------------------------- *)
(* trim = rtrim ; ltrim                                                        *)

Theorem trim_repaired_shift_lemma t t' :
  trim_repaired t = Ok t' ->
  let d := leftmost t in
  let r := rightmost t in
  t_L t' = r - d /\ t_nodes t' = t_nodes t /\
  t_edges t' = map (shift_edge true d) (t_edges t) /\
  t_migs t' = map (shift_mig true d) (t_migs t) /\
  (forall g', In g' (t_migs t') -> 0 <= g_left g' /\ g_right g' <= t_L t') /\
  (forall e', In e' (t_edges t') -> 0 <= e_left e' /\ e_right e' <= t_L t') /\
  t_sites t' = map (shift_site d) (filter (fun s => (d <=? s_pos s) && (s_pos s <? r)) (t_sites t)) /\
  (forall x c p md, edge_at (t_edges t') (x - d) c p md <-> edge_at (t_edges t) x c p md).
Proof.
  intros H d r. unfold trim_repaired, trim_gen in H. apply bind_ok in H as (t1 & H1 & H2).
  pose proof (rtrim_shift_lemma true t t1 H1) as (R1 & R2 & R3 & R4 & R5 & R6 & R7 & R8).
  fold r in R1, R2, R3, R7.
  pose proof (ltrim_repaired_shift_lemma t1 t' H2) as (L1 & L2 & L3 & L4 & L5 & L6 & L7 & L8 & L9 & L10 & L11 & L12).
  assert (Ed : leftmost t1 = d) by (unfold leftmost; rewrite R5; reflexivity).
  rewrite Ed in *. rewrite R5 in L7, L12, L2. rewrite R6 in L8. rewrite R4 in L6. rewrite R3 in L5.
  split; [exact L5|]. split; [exact L6|]. split; [exact L7|]. split; [exact L8|]. split.
  { intros g' Hg'. split; [apply L9, Hg'|]. rewrite L8 in Hg'. apply in_map_iff in Hg' as (g & <- & Hg).
    simpl. rewrite L5. rewrite <- R6 in Hg. specialize (R8 eq_refl g Hg). rewrite R3 in R8. lia. }
  split.
  { intros e' He'. split; [apply L4, He'|]. rewrite L7 in He'. apply in_map_iff in He' as (e & <- & He).
    simpl. rewrite L5. specialize (R2 e He). lia. }
  split.
  { rewrite L10, R7, filter_filter. f_equal. apply filter_ext. intros s. lia. }
  exact L12.
Qed.

(* ------------------------------------------------------------------------- *)
(* findings, as theorems about the code as it exists                           *)

Definition f7_witness : tables :=
  mkT 10 [mkN 1 0 (-1) (-1) []; mkN 0 1 (-1) (-1) []]
      [mkE 2 6 1 0 [101; 48]] [] [] [mkG 2 4 0 0 1 0 [109]].

Theorem ltrim_drops_edge_metadata_refuted_lemma :
  exists t t' e, ltrim t = Ok t' /\ In e (t_edges t) /\ e_md e <> [] /\
                 ~ In (shift_edge true (leftmost t) e) (t_edges t') /\
                 (forall e', In e' (t_edges t') -> e_md e' = []).
Proof.
  exists f7_witness. eexists. exists (mkE 2 6 1 0 [101; 48]).
  split; [vm_compute; reflexivity|]. split; [left; reflexivity|]. split; [discriminate|]. split.
  - vm_compute. intros [H|[]]. discriminate.
  - vm_compute. intros e' [<-|[]]. reflexivity.
Qed.

Theorem ltrim_drops_migration_metadata_refuted_lemma :
  exists t t' g, ltrim t = Ok t' /\ In g (t_migs t) /\ g_md g <> [] /\
                 (forall g', In g' (t_migs t') -> g_md g' = []).
Proof.
  exists f7_witness. eexists. exists (mkG 2 4 0 0 1 0 [109]).
  split; [vm_compute; reflexivity|]. split; [left; reflexivity|]. split; [discriminate|].
  vm_compute. intros g' [<-|[]]. reflexivity.
Qed.

(* F14: a migration reaching left of the leftmost edge is accepted and ends up at a negative
   coordinate *)
Definition f14_witness : tables :=
  mkT 10 [mkN 1 0 (-1) (-1) []; mkN 0 1 (-1) (-1) []]
      [mkE 2 6 1 0 []] [] [] [mkG 0 4 0 0 1 0 []].

Theorem trim_accepts_migration_outside_edges_refuted_lemma :
  exists t t' g', ltrim t = Ok t' /\ In g' (t_migs t') /\ g_left g' < 0 /\
                  ltrim_repaired t = Err 1.
Proof.
  exists f14_witness. eexists. exists (mkG (-2) 2 0 0 1 0 []).
  split; [vm_compute; reflexivity|]. split; [left; reflexivity|]. split; [reflexivity|]. vm_compute. reflexivity.
Qed.

(* non-vacuity of the repaired-variant theorems *)
Example ltrim_repaired_example :
  ltrim_repaired f7_witness
  = Ok (mkT 8 [mkN 1 0 (-1) (-1) []; mkN 0 1 (-1) (-1) []] [mkE 0 4 1 0 [101; 48]] [] []
            [mkG 0 2 0 0 1 0 [109]]).
Proof. vm_compute. reflexivity. Qed.

Example trim_repaired_example :
  trim_repaired (mkT 10 [mkN 1 0 (-1) (-1) []; mkN 0 1 (-1) (-1) []] [mkE 2 6 1 0 [7]]
                     [mkS 1 [65] [1]; mkS 3 [67] [2]; mkS 8 [71] []]
                     [mkM 0 0 (-1) None [84] []; mkM 1 0 (-1) None [84] [9]; mkM 1 0 1 None [65] []; mkM 2 1 (-1) None [84] []]
                     [mkG 2 4 0 0 1 0 [109]])
  = Ok (mkT 4 [mkN 1 0 (-1) (-1) []; mkN 0 1 (-1) (-1) []] [mkE 0 4 1 0 [7]]
            [mkS 1 [67] [2]] [mkM 0 0 (-1) None [84] [9]; mkM 0 0 0 None [65] []] [mkG 0 2 0 0 1 0 [109]]).
Proof. vm_compute. reflexivity. Qed.

(* when the source has been repaired (all three regenerated facts true) the variant the
   correspondence follows IS the repaired one, so [trim_shift] speaks about the code *)
Lemma ltrim_current_is_repaired_lemma :
  C11_ltrim_passes_edge_metadata = true -> C11_ltrim_passes_migration_metadata = true ->
  C11_trim_check_uses_or = true ->
  ltrim_current = ltrim_repaired /\ rtrim_current = rtrim_repaired /\ trim_current = trim_repaired.
Proof.
  unfold ltrim_current, rtrim_current, trim_current, ltrim_repaired, rtrim_repaired, trim_repaired.
  intros -> -> ->. repeat split; reflexivity.
Qed.

(* and as long as none of the three has been repaired it is the code of the pinned commit *)
Lemma ltrim_current_is_pinned_lemma :
  C11_ltrim_passes_edge_metadata = false -> C11_ltrim_passes_migration_metadata = false ->
  C11_trim_check_uses_or = false ->
  ltrim_current = ltrim /\ rtrim_current = rtrim /\ trim_current = trim.
Proof.
  unfold ltrim_current, rtrim_current, trim_current, ltrim, rtrim, trim.
  intros -> -> ->. repeat split; reflexivity.
Qed.

(* the source at /repo HEAD carries the three repairs (regenerated facts are all [true]): the
   variant the correspondence follows IS the repaired one.  This lemma stops checking, and the
   property is reported as no longer shown, if any of the three repairs is lost. *)
Lemma current_is_repaired_now_lemma :
  ltrim_current = ltrim_repaired /\ rtrim_current = rtrim_repaired /\ trim_current = trim_repaired.
Proof. apply ltrim_current_is_repaired_lemma; reflexivity. Qed.

Theorem trim_shift_current_lemma t t' :
  ltrim_current t = Ok t' ->
  let d := leftmost t in
  t_L t' = t_L t - d /\ t_nodes t' = t_nodes t /\
  t_edges t' = map (shift_edge true d) (t_edges t) /\
  t_migs t' = map (shift_mig true d) (t_migs t) /\
  (forall g', In g' (t_migs t') -> 0 <= g_left g') /\
  t_sites t' = map (shift_site d) (filter (fun s => d <=? s_pos s) (t_sites t)) /\
  (forall x c p md, edge_at (t_edges t') (x - d) c p md <-> edge_at (t_edges t) x c p md).
Proof.
  destruct current_is_repaired_now_lemma as (E & _ & _). rewrite E. intros H d.
  pose proof (ltrim_repaired_shift_lemma t t' H) as (_ & _ & _ & _ & A5 & A6 & A7 & A8 & A9 & A10 & _ & A12).
  repeat (split; [assumption|]). exact A12.
Qed.
