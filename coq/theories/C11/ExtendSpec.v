(* C11 — extend_haplotypes at specification level (NO model of the edge-extension algorithm).

   What is modelled exactly is the mutation pass tsk_treeseq_slide_mutation_nodes_up
   (c/tskit/trees.c 8601-8647):   c = node; p = parent[c];
                                  while (p != NULL && time[p] <= t) { c = p; p = parent[c]; }
   ([climb]).  The edge-extension pass is described by what it is documented to do at one
   position: every node u of the input tree keeps its ancestors, and between u and its input
   parent a run [run u] of nodes that are ABSENT from the input tree there may be inserted,
   each inserted node in one place only (it stays unary).

   Theorem [extend_preserves_genotype]: under exactly these conditions, and if every mutation
   of the site sits above a node of the input tree (the hypothesis finding F15 violates), the
   state inherited by any node of the input tree is unchanged.  The harness checks the
   hypotheses on every output of the implementation (family `extend`), so the theorem is tied
   to the code differentially. *)
From Coq Require Import List ZArith Bool Lia Sorted ZifyBool.
Import ListNotations.
Open Scope Z_scope.

Record smut := mkSM { sn : Z; st : Z; ss : Z }.      (* node, time, derived state (as a code) *)

(* the state a node inherits: walk up its ancestor chain, the first node carrying mutations
   decides, and on that node the last mutation in table order (the youngest) wins *)
Fixpoint last_src (u : Z) (ms : list smut) : option smut :=
  match ms with
  | [] => None
  | m :: t => match last_src u t with
              | Some x => Some x
              | None => if sn m =? u then Some m else None
              end
  end.

Fixpoint geno (chain : list Z) (ms : list smut) (anc : Z) : Z :=
  match chain with
  | [] => anc
  | u :: r => match last_src u ms with Some m => ss m | None => geno r ms anc end
  end.

(* the slide loop, on the list of ancestors above the current node *)
Fixpoint climb (tm : Z -> Z) (mt : Z) (cur : Z) (above : list Z) : Z :=
  match above with
  | [] => cur
  | p :: r => if tm p <=? mt then climb tm mt p r else cur
  end.

Definition expand (run : Z -> list Z) (chain : list Z) : list Z :=
  flat_map (fun u => u :: run u) chain.

(* ------------------------------------------------------------------------- *)

Lemma last_src_in u ms m : last_src u ms = Some m -> In m ms /\ sn m = u.
Proof.
  induction ms as [|x t IH]; simpl; [discriminate|].
  destruct (last_src u t) as [y|] eqn:E.
  - intros H. inversion H; subst. destruct (IH eq_refl). split; [right|]; assumption.
  - destruct (sn x =? u) eqn:F; [|discriminate]. intros H. inversion H; subst. split; [left; reflexivity | lia].
Qed.

Lemma last_src_none u ms : last_src u ms = None <-> (forall m, In m ms -> sn m <> u).
Proof.
  induction ms as [|x t IH]; simpl; [split; [intros _ m [] | reflexivity]|].
  destruct (last_src u t) as [y|] eqn:E.
  - split; [discriminate|]. intros H. destruct (last_src_in _ _ _ E) as [I S]. exfalso. apply (H y); auto.
  - destruct (sn x =? u) eqn:F.
    + split; [discriminate|]. intros H. exfalso. apply (H x); [left; reflexivity | lia].
    + split; [|reflexivity]. intros _ m [<-|Hm]; [lia | apply IH; auto].
Qed.

Definition time_sorted (ms : list smut) : Prop :=
  StronglySorted (fun a b => sn a = sn b -> st b <= st a) ms.

(* the last mutation of a node is its youngest *)
Lemma last_src_youngest u ms m :
  time_sorted ms -> last_src u ms = Some m -> forall m2, In m2 ms -> sn m2 = u -> st m <= st m2.
Proof.
  intros S. induction S as [|x t S IH F]; simpl; [discriminate|].
  destruct (last_src u t) as [y|] eqn:E.
  - intros H m2 Hin Hs. assert (y = m) by congruence. subst y. destruct Hin as [Hx|H2].
    + destruct (last_src_in _ _ _ E) as [I Sy]. rewrite Forall_forall in F.
      rewrite <- Hx. apply (F m I). rewrite Hx. congruence.
    + apply IH; auto.
  - destruct (sn x =? u) eqn:Fx; [|discriminate]. intros H m2 Hin Hs. assert (x = m) by congruence. subst x.
    destruct Hin as [Hx|H2]; [rewrite Hx; lia|].
    exfalso. apply (proj1 (last_src_none _ _) E m2 H2 Hs).
Qed.

(* climb returns cur or one of the nodes above, splitting them at the first too-old one *)
Lemma climb_split tm mt cur above :
  exists pre post, cur :: above = pre ++ climb tm mt cur above :: post /\
                   (forall n, In n pre -> n = cur \/ (In n above /\ tm n <= mt)) /\
                   (climb tm mt cur above = cur \/ tm (climb tm mt cur above) <= mt) /\
                   match post with [] => True | p :: _ => mt < tm p end.
Proof.
  revert cur. induction above as [|p r IH]; intros cur; simpl.
  - exists [], []. split; [reflexivity|]. split; [intros n []|]. split; [left; reflexivity | exact I].
  - destruct (tm p <=? mt) eqn:E.
    + destruct (IH p) as (pre & post & E1 & E2 & E3 & E4). exists (cur :: pre), post.
      split; [simpl; rewrite <- E1; reflexivity|]. split.
      * intros n [<-|Hn]; [left; reflexivity|]. right. destruct (E2 n Hn) as [->|[A B]]; [split; [left; reflexivity | lia] | split; [right; exact A | exact B]].
      * split; [|exact E4]. right. destruct E3 as [->|E3]; lia.
    + exists [], (p :: r). split; [reflexivity|]. split; [intros n []|]. split; [left; reflexivity | lia].
Qed.

Lemma climb_in tm mt cur above : In (climb tm mt cur above) (cur :: above).
Proof.
  destruct (climb_split tm mt cur above) as (pre & post & E & _). rewrite E. apply in_or_app. right. left. reflexivity.
Qed.

(* an older mutation climbs at least as far: it never ends strictly below a younger one *)
Lemma climb_mono tm mt mt2 cur above pre post :
  mt <= mt2 -> NoDup (cur :: above) ->
  cur :: above = pre ++ climb tm mt cur above :: post ->
  ~ In (climb tm mt2 cur above) pre.
Proof.
  revert cur pre post. induction above as [|p r IH]; intros cur pre post Hle ND E.
  - simpl in E. destruct pre as [|x pre]; [intros []|]. simpl in E. injection E as _ E.
    destruct pre; discriminate.
  - inversion ND as [|? ? N1 N2]; subst.
    simpl in E. simpl climb. destruct (tm p <=? mt) eqn:E1.
    + replace (tm p <=? mt2) with true by lia.
      destruct pre as [|x pre]; simpl in E; injection E as H0 H1.
      * exfalso. apply N1. rewrite H0. apply (climb_in tm mt p r).
      * subst x. intros [Hc|Hc].
        -- apply N1. rewrite Hc. apply (climb_in tm mt2 p r).
        -- revert Hc. eapply IH; eauto.
    + destruct pre as [|x pre]; [intros []|]. simpl in E. injection E as H0 H1. subst x.
      exfalso. apply N1. rewrite H1. apply in_or_app. right. left. reflexivity.
Qed.

Lemma geno_skip pre l ms anc :
  (forall v, In v pre -> last_src v ms = None) -> geno (pre ++ l) ms anc = geno l ms anc.
Proof.
  induction pre as [|v pre IH]; intros H; simpl; [reflexivity|].
  rewrite (H v) by (left; reflexivity). apply IH. intros w Hw. apply H. right. exact Hw.
Qed.

(* ------------------------------------------------------------------------- *)

Section Extend.
  Variable tm : Z -> Z.                 (* node times *)
  Variable run : Z -> list Z.           (* nodes inserted directly above each input-tree node *)
  Variable orig : Z -> Prop.            (* node is in the input tree at this position *)

  Hypothesis run_absent : forall u n, In n (run u) -> ~ orig n.
  Hypothesis run_unary : forall u u' n, In n (run u) -> In n (run u') -> u = u'.
  Hypothesis run_nodup : forall u, NoDup (run u).

  Definition slide (m : smut) : smut := mkSM (climb tm (st m) (sn m) (run (sn m))) (st m) (ss m).

  Variable ms : list smut.
  Hypothesis ms_sorted : time_sorted ms.
  (* the hypothesis F15's counterexample violates *)
  Hypothesis ms_on_tree : forall m, In m ms -> orig (sn m).

  Lemma seg_nodup u : orig u -> NoDup (u :: run u).
  Proof. intros O. constructor; [intros H; apply (run_absent u u H O) | apply run_nodup]. Qed.

  (* a slid mutation found on the segment of u came from u *)
  Lemma slid_source u m v :
    orig u -> In m ms -> sn (slide m) = v -> In v (u :: run u) -> sn m = u.
  Proof.
    intros O Hm Hv Hin. simpl in Hv.
    pose proof (climb_in tm (st m) (sn m) (run (sn m))) as C. rewrite Hv in C.
    pose proof (ms_on_tree m Hm) as Om.
    destruct C as [C|C]; destruct Hin as [Hin|Hin].
    - congruence.
    - exfalso. apply (run_absent u v Hin). rewrite <- C. exact Om.
    - exfalso. apply (run_absent (sn m) v C). rewrite <- Hin. exact O.
    - apply (run_unary (sn m) u v C Hin).
  Qed.

  Lemma last_src_map_none v :
    (forall m, In m ms -> sn (slide m) <> v) -> last_src v (map slide ms) = None.
  Proof.
    intros H. apply last_src_none. intros m' Hm'. apply in_map_iff in Hm' as (m & <- & Hm). apply H, Hm.
  Qed.

  (* the youngest mutation of u, slid, is the last one on the node it lands on *)
  Lemma last_src_map_some u m :
    orig u -> last_src u ms = Some m ->
    last_src (sn (slide m)) (map slide ms) = Some (slide m).
  Proof.
    intros O. assert (G : forall l, (forall x, In x l -> In x ms) -> last_src u l = Some m ->
                                    last_src (sn (slide m)) (map slide l) = Some (slide m)).
    { induction l as [|x t IH]; intros Sub; cbn [last_src map]; [discriminate|].
      destruct (last_src u t) as [y|] eqn:E.
      - intros H. inversion H; subst. rewrite IH; auto. intros z Hz. apply Sub. right. exact Hz.
      - destruct (sn x =? u) eqn:F; [|discriminate]. intros H. inversion H; subst m.
        assert (N : last_src (sn (slide x)) (map slide t) = None).
        { apply last_src_none. intros m' Hm'. apply in_map_iff in Hm' as (m2 & <- & Hm2). intros Heq.
          assert (Hs : sn m2 = u).
          { apply (slid_source u m2 (sn (slide x))); auto; [apply Sub; right; exact Hm2|].
            simpl. replace u with (sn x) by lia. apply climb_in. }
          apply (proj1 (last_src_none _ _) E m2 Hm2 Hs). }
        rewrite N. replace (sn (slide x) =? sn (slide x)) with true by lia. reflexivity. }
    apply G. auto.
  Qed.

  (* one segment: u followed by its inserted run *)
  Lemma segment u rest anc :
    orig u ->
    geno ((u :: run u) ++ rest) (map slide ms) anc
    = match last_src u ms with Some m => ss m | None => geno rest (map slide ms) anc end.
  Proof.
    intros O. destruct (last_src u ms) as [m|] eqn:E.
    - destruct (last_src_in _ _ _ E) as [Im Sm].
      destruct (climb_split tm (st m) u (run u)) as (pre & post & E1 & _).
      rewrite E1, <- app_assoc. rewrite geno_skip.
      + simpl. pose proof (last_src_map_some u m O E) as L. simpl in L. rewrite Sm in L. rewrite L. reflexivity.
      + intros v Hv. apply last_src_map_none. intros m2 Hm2 Heq.
        assert (Hin : In v (u :: run u)) by (rewrite E1; apply in_or_app; left; exact Hv).
        pose proof (slid_source u m2 v O Hm2 Heq Hin) as S2.
        pose proof (last_src_youngest u ms m ms_sorted E m2 Hm2 S2) as Hle.
        simpl in Heq. rewrite S2 in Heq.
        apply (climb_mono tm (st m) (st m2) u (run u) pre post Hle (seg_nodup u O) E1). rewrite Heq. exact Hv.
    - apply geno_skip. intros v Hv. apply last_src_map_none. intros m2 Hm2 Heq.
      pose proof (slid_source u m2 v O Hm2 Heq Hv) as S2.
      apply (proj1 (last_src_none _ _) E m2 Hm2 S2).
  Qed.

  Theorem extend_preserves_genotype_lemma chain anc :
    (forall u, In u chain -> orig u) ->
    geno (expand run chain) (map slide ms) anc = geno chain ms anc.
  Proof.
    induction chain as [|u r IH]; intros O; [reflexivity|].
    unfold expand. simpl flat_map. change (u :: run u ++ flat_map (fun u0 => u0 :: run u0) r)
      with ((u :: run u) ++ expand run r).
    rewrite segment by (apply O; left; reflexivity). simpl.
    destruct (last_src u ms); [reflexivity|]. apply IH. intros v Hv. apply O. right. exact Hv.
  Qed.
End Extend.

(* the loop of the C code climbs the whole ancestor list; in a valid input the mutation is
   younger than the input parent of its node, so it stops inside the inserted run *)
Lemma climb_stops tm mt cur l p more :
  mt < tm p -> climb tm mt cur (l ++ p :: more) = climb tm mt cur l.
Proof.
  revert cur. induction l as [|n l IH]; intros cur H; simpl.
  - replace (tm p <=? mt) with false by lia. reflexivity.
  - destruct (tm n <=? mt); [apply IH; exact H | reflexivity].
Qed.

(* the F15 boundary is sharp: with a mutation above an absent node the conclusion fails *)
Example f15_boundary :
  let tm := fun u => u in                       (* node i has time i *)
  let run := fun u => if u =? 0 then [1] else [] in
  let ms := [mkSM 1 1 7] in                      (* mutation above node 1, absent from the input tree *)
  geno [0; 2] ms 0 = 0 /\ geno (expand run [0; 2]) (map (slide tm run) ms) 0 = 7.
Proof. split; reflexivity. Qed.

Example extend_example :
  let tm := fun u => u in
  let run := fun u => if u =? 0 then [1; 2] else [] in
  let ms := [mkSM 0 2 5; mkSM 0 1 6; mkSM 0 0 7] in      (* three mutations above node 0, times 2,1,0 *)
  map (slide tm run) ms = [mkSM 2 2 5; mkSM 1 1 6; mkSM 0 0 7] /\
  geno [0; 3] ms 0 = 7 /\ geno (expand run [0; 3]) (map (slide tm run) ms) 0 = 7.
Proof. repeat split; reflexivity. Qed.
