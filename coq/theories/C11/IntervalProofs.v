(* C11 — keep_intervals / delete_intervals / negate_intervals: clipping rows to a list of
   disjoint intervals preserves the covering relation inside and leaves nothing outside. *)
From Coq Require Import List ZArith Bool Lia Permutation ZifyBool.
From TskVerif Require Import Base.Common C11.Model C11.Spec.
Import ListNotations.
Open Scope Z_scope.

(* ------------------------------------------------------------------------- *)
(* generic list facts                                                          *)

Lemma filter_map_comm {A B} (f : A -> B) (p : B -> bool) (l : list A) :
  filter p (map f l) = map f (filter (fun a => p (f a)) l).
Proof. induction l as [|a l IH]; simpl; [reflexivity|]. destruct (p (f a)); simpl; congruence. Qed.

Lemma filter_filter {A} (p q : A -> bool) (l : list A) :
  filter p (filter q l) = filter (fun a => q a && p a) l.
Proof.
  induction l as [|a l IH]; simpl; [reflexivity|].
  destruct (q a); simpl; [destruct (p a); simpl; congruence | assumption].
Qed.

Lemma filter_ext_in' {A} (p q : A -> bool) (l : list A) :
  (forall a, In a l -> p a = q a) -> filter p l = filter q l.
Proof.
  induction l as [|a l IH]; simpl; intros H; [reflexivity|].
  rewrite (H a) by auto. destruct (q a); [f_equal|]; apply IH; auto.
Qed.

Lemma filter_none {A} (p : A -> bool) (l : list A) :
  (forall a, In a l -> p a = false) -> filter p l = [].
Proof.
  induction l as [|a l IH]; simpl; intros H; [reflexivity|].
  rewrite (H a) by auto. apply IH; auto.
Qed.

(* ------------------------------------------------------------------------- *)
(* the interval checks                                                         *)

Lemma in_ivs_inside ivs x : in_ivs ivs x = true <-> inside ivs x.
Proof.
  unfold in_ivs, inside. rewrite existsb_exists. unfold in_iv.
  split; intros [iv [H1 H2]]; exists iv; split; auto; lia.
Qed.

Lemma in_ivs_false ivs x : in_ivs ivs x = false -> forall iv, In iv ivs -> ~ (fst iv <= x < snd iv).
Proof.
  intros H iv Hin Hx. assert (in_ivs ivs x = true) by (apply in_ivs_inside; exists iv; auto).
  congruence.
Qed.

Lemma check_ivs_later st en last ivs x :
  check_ivs st en last ivs = true -> x < last -> in_ivs ivs x = false.
Proof.
  revert last. induction ivs as [|[l r] t IH]; intros last H Hx; [reflexivity|].
  simpl in H.
  destruct ((l <? st) || (r >? en)) eqn:E1; [discriminate|].
  destruct (r <=? l) eqn:E2; [discriminate|].
  destruct (l <? last) eqn:E3; [discriminate|].
  unfold in_ivs; simpl. unfold in_iv at 1; simpl.
  replace (l <=? x) with false by (symmetry; apply Z.leb_gt; lia). simpl.
  apply (IH r); auto. lia.
Qed.

Lemma check_ivs_bounds st en last ivs :
  check_ivs st en last ivs = true ->
  forall iv, In iv ivs -> st <= fst iv /\ last <= fst iv /\ fst iv < snd iv /\ snd iv <= en.
Proof.
  revert last. induction ivs as [|[l r] t IH]; intros last H iv Hin; [destruct Hin|].
  simpl in H.
  destruct ((l <? st) || (r >? en)) eqn:E1; [discriminate|].
  destruct (r <=? l) eqn:E2; [discriminate|].
  destruct (l <? last) eqn:E3; [discriminate|].
  apply orb_false_iff in E1 as [E1a E1b].
  destruct Hin as [<-|Hin]; simpl.
  - lia.
  - destruct (IH r H iv Hin) as (A & B & C & D). lia.
Qed.

(* ------------------------------------------------------------------------- *)
(* clipping a table of rows with a genomic span                                *)

Section Clip.
  Variable A : Type.
  Variables lft rgt : A -> Z.
  Variable clip : Z -> Z -> A -> A.
  Hypothesis clip_l : forall s e a, lft (clip s e a) = Z.max s (lft a).
  Hypothesis clip_r : forall s e a, rgt (clip s e a) = Z.min e (rgt a).

  Definition ovl (s e : Z) (a : A) : bool := negb ((rgt a <=? s) || (lft a >=? e)).
  Definition cvb (x : Z) (a : A) : bool := (lft a <=? x) && (x <? rgt a).
  Definition clipall (ivs : list (Z * Z)) (l : list A) : list A :=
    flat_map (fun iv => map (clip (fst iv) (snd iv)) (filter (ovl (fst iv) (snd iv)) l)) ivs.

  Lemma block_inside s e x l : s <= x < e ->
    filter (cvb x) (map (clip s e) (filter (ovl s e) l)) = map (clip s e) (filter (cvb x) l).
  Proof.
    intros Hx. rewrite filter_map_comm, filter_filter. f_equal.
    apply filter_ext_in'. intros a _. unfold cvb, ovl. rewrite clip_l, clip_r. lia.
  Qed.

  Lemma block_outside s e x l : ~ (s <= x < e) ->
    filter (cvb x) (map (clip s e) (filter (ovl s e) l)) = [].
  Proof.
    intros Hx. apply filter_none. intros a' Hin. apply in_map_iff in Hin as [a [<- Hin]].
    apply filter_In in Hin as [_ Ho]. unfold ovl in Ho. apply negb_true_iff, orb_false_iff in Ho as [O1 O2].
    apply Z.leb_gt in O1. rewrite Z.geb_leb in O2. apply Z.leb_gt in O2.
    unfold cvb. rewrite clip_l, clip_r.
    destruct (Z.max s (lft a) <=? x) eqn:E1; [|reflexivity]. apply Z.leb_le in E1.
    simpl. apply Z.ltb_ge. lia.
  Qed.

  (* nothing clipped to the intervals covers a point outside them — for ANY interval list *)
  Lemma clipall_outside ivs x l : in_ivs ivs x = false -> filter (cvb x) (clipall ivs l) = [].
  Proof.
    induction ivs as [|iv t IH]; intros H; [reflexivity|].
    unfold clipall; simpl. rewrite filter_app.
    unfold in_ivs in H; simpl in H. apply orb_false_iff in H as [H1 H2].
    rewrite block_outside.
    - simpl. apply IH. exact H2.
    - unfold in_iv in H1. intros Hx.
      assert ((fst iv <=? x) && (x <? snd iv) = true) by (apply andb_true_iff; split; [apply Z.leb_le | apply Z.ltb_lt]; lia).
      congruence.
  Qed.

  (* inside a (checked: sorted, disjoint) interval list the rows covering x are exactly the
     clipped copies of the input rows covering x, in the same order *)
  Lemma clipall_inside st en last ivs x l :
    check_ivs st en last ivs = true -> in_ivs ivs x = true ->
    exists s e, In (s, e) ivs /\ s <= x < e /\
                filter (cvb x) (clipall ivs l) = map (clip s e) (filter (cvb x) l).
  Proof.
    revert last. induction ivs as [|[s e] t IH]; intros last H Hin; [discriminate|].
    unfold clipall; simpl. rewrite filter_app.
    pose proof H as H0. simpl in H.
    destruct ((s <? st) || (e >? en)) eqn:E1; [discriminate|].
    destruct (e <=? s) eqn:E2; [discriminate|].
    destruct (s <? last) eqn:E3; [discriminate|].
    unfold in_ivs in Hin; simpl in Hin. unfold in_iv at 1 in Hin; simpl in Hin.
    destruct ((s <=? x) && (x <? e)) eqn:Ex.
    - apply andb_true_iff in Ex as [X1 X2]. apply Z.leb_le in X1. apply Z.ltb_lt in X2.
      exists s, e. split; [left; reflexivity|]. split; [lia|].
      rewrite block_inside by lia.
      fold (clipall t l). rewrite clipall_outside; [apply app_nil_r|].
      apply (check_ivs_later st en e); auto.
    - simpl in Hin. destruct (IH e H Hin) as (s' & e' & I1 & I2 & I3).
      exists s', e'. split; [right; exact I1|]. split; [exact I2|].
      rewrite block_outside.
      + simpl. exact I3.
      + intros Hx. assert ((s <=? x) && (x <? e) = true) by (apply andb_true_iff; split; [apply Z.leb_le | apply Z.ltb_lt]; lia).
        congruence.
  Qed.

  Lemma clipall_within ivs l a : In a (clipall ivs l) ->
    exists iv, In iv ivs /\ fst iv <= lft a /\ rgt a <= snd iv.
  Proof.
    unfold clipall. intros H. apply in_flat_map in H as [iv [Hiv H]].
    apply in_map_iff in H as [a0 [<- H]]. apply filter_In in H as [_ Ho].
    unfold ovl in Ho. apply negb_true_iff, orb_false_iff in Ho as [O1 O2].
    apply Z.leb_gt in O1. rewrite Z.geb_leb in O2. apply Z.leb_gt in O2.
    exists iv. rewrite clip_l, clip_r. split; [exact Hiv|]. lia.
  Qed.
End Clip.

(* ------------------------------------------------------------------------- *)
(* instances: edges and migrations                                             *)

Lemma clip_edges_is ivs es : clip_edges ivs es = clipall edge e_left e_right clip_edge ivs es.
Proof. reflexivity. Qed.
Lemma clip_migs_is ivs gs : clip_migs ivs gs = clipall migration g_left g_right clip_mig ivs gs.
Proof. reflexivity. Qed.

Lemma edge_at_filter es x c p md :
  edge_at es x c p md <->
  exists e, In e (filter (cvb edge e_left e_right x) es) /\ e_child e = c /\ e_parent e = p /\ e_md e = md.
Proof.
  unfold edge_at, cvb. split.
  - intros (e & H1 & H2 & H3). exists e. split; [|exact H3]. apply filter_In. split; [exact H1|].
    apply andb_true_iff; split; [apply Z.leb_le | apply Z.ltb_lt]; lia.
  - intros (e & H1 & H3). apply filter_In in H1 as [H1 H2]. apply andb_true_iff in H2 as [A B].
    apply Z.leb_le in A. apply Z.ltb_lt in B. exists e. split; [exact H1|]. split; [lia|exact H3].
Qed.

Lemma mig_at_filter gs x nd src dst tm md :
  mig_at gs x nd src dst tm md <->
  exists g, In g (filter (cvb migration g_left g_right x) gs) /\ g_node g = nd /\ g_source g = src
            /\ g_dest g = dst /\ g_time g = tm /\ g_md g = md.
Proof.
  unfold mig_at, cvb. split.
  - intros (e & H1 & H2 & H3). exists e. split; [|exact H3]. apply filter_In. split; [exact H1|].
    apply andb_true_iff; split; [apply Z.leb_le | apply Z.ltb_lt]; lia.
  - intros (e & H1 & H3). apply filter_In in H1 as [H1 H2]. apply andb_true_iff in H2 as [A B].
    apply Z.leb_le in A. apply Z.ltb_lt in B. exists e. split; [exact H1|]. split; [lia|exact H3].
Qed.

Lemma clip_edges_inside L ivs es x c p md :
  intervals_ok 0 L ivs = true -> inside ivs x ->
  (edge_at (clip_edges ivs es) x c p md <-> edge_at es x c p md).
Proof.
  intros Hok Hin. apply in_ivs_inside in Hin.
  destruct (clipall_inside edge e_left e_right clip_edge (fun _ _ _ => eq_refl) (fun _ _ _ => eq_refl)
              0 L 0 ivs x es Hok Hin) as (s & e & _ & _ & Heq).
  rewrite !edge_at_filter, clip_edges_is, Heq. split.
  - intros (e' & H1 & H2). apply in_map_iff in H1 as [e0 [<- H1]]. exists e0. split; [exact H1|exact H2].
  - intros (e0 & H1 & H2). exists (clip_edge s e e0). split; [apply in_map; exact H1 | exact H2].
Qed.

Lemma clip_migs_inside L ivs gs x nd src dst tm md :
  intervals_ok 0 L ivs = true -> inside ivs x ->
  (mig_at (clip_migs ivs gs) x nd src dst tm md <-> mig_at gs x nd src dst tm md).
Proof.
  intros Hok Hin. apply in_ivs_inside in Hin.
  destruct (clipall_inside migration g_left g_right clip_mig (fun _ _ _ => eq_refl) (fun _ _ _ => eq_refl)
              0 L 0 ivs x gs Hok Hin) as (s & e & _ & _ & Heq).
  rewrite !mig_at_filter, clip_migs_is, Heq. split.
  - intros (e' & H1 & H2). apply in_map_iff in H1 as [e0 [<- H1]]. exists e0. split; [exact H1|exact H2].
  - intros (e0 & H1 & H2). exists (clip_mig s e e0). split; [apply in_map; exact H1 | exact H2].
Qed.

Lemma clip_edges_outside ivs es x : ~ inside ivs x ->
  forall e, In e (clip_edges ivs es) -> ~ (e_left e <= x < e_right e).
Proof.
  intros Hout e Hin Hx.
  assert (Hf : in_ivs ivs x = false).
  { destruct (in_ivs ivs x) eqn:E; [|reflexivity]. exfalso. apply Hout, in_ivs_inside, E. }
  pose proof (clipall_outside edge e_left e_right clip_edge (fun _ _ _ => eq_refl) (fun _ _ _ => eq_refl) ivs x es Hf) as H.
  rewrite <- clip_edges_is in H.
  assert (In e (filter (cvb edge e_left e_right x) (clip_edges ivs es))).
  { apply filter_In. split; [exact Hin|]. unfold cvb. apply andb_true_iff; split; [apply Z.leb_le | apply Z.ltb_lt]; lia. }
  rewrite H in H0. destruct H0.
Qed.

Lemma clip_migs_outside ivs gs x : ~ inside ivs x ->
  forall g, In g (clip_migs ivs gs) -> ~ (g_left g <= x < g_right g).
Proof.
  intros Hout e Hin Hx.
  assert (Hf : in_ivs ivs x = false).
  { destruct (in_ivs ivs x) eqn:E; [|reflexivity]. exfalso. apply Hout, in_ivs_inside, E. }
  pose proof (clipall_outside migration g_left g_right clip_mig (fun _ _ _ => eq_refl) (fun _ _ _ => eq_refl) ivs x gs Hf) as H.
  rewrite <- clip_migs_is in H.
  assert (In e (filter (cvb migration g_left g_right x) (clip_migs ivs gs))).
  { apply filter_In. split; [exact Hin|]. unfold cvb. apply andb_true_iff; split; [apply Z.leb_le | apply Z.ltb_lt]; lia. }
  rewrite H in H0. destruct H0.
Qed.

(* the functional reading: the first covering row of a child is preserved as well *)
Lemma find_filter {A} (p q : A -> bool) (l : list A) :
  find (fun a => q a && p a) l = find p (filter q l).
Proof.
  induction l as [|a l IH]; simpl; [reflexivity|].
  destruct (q a); simpl; [destruct (p a); auto | auto].
Qed.

Lemma find_map {A B} (f : A -> B) (p : B -> bool) (l : list A) :
  find p (map f l) = option_map f (find (fun a => p (f a)) l).
Proof. induction l as [|a l IH]; simpl; [reflexivity|]. destruct (p (f a)); simpl; auto. Qed.

Lemma clip_edges_parent_at L ivs es x u :
  intervals_ok 0 L ivs = true -> inside ivs x ->
  parent_at (clip_edges ivs es) x u = parent_at es x u.
Proof.
  intros Hok Hin. apply in_ivs_inside in Hin.
  destruct (clipall_inside edge e_left e_right clip_edge (fun _ _ _ => eq_refl) (fun _ _ _ => eq_refl)
              0 L 0 ivs x es Hok Hin) as (s & e & _ & _ & Heq).
  unfold parent_at.
  assert (E : forall l, find (cov_child x u) l
                        = find (fun a => e_child a =? u) (filter (cvb edge e_left e_right x) l)).
  { intros l. rewrite <- find_filter. apply f_equal2; [|reflexivity].
    reflexivity. }
  rewrite !E, clip_edges_is, Heq, find_map. simpl.
  destruct (find (fun a => e_child a =? u) (filter (cvb edge e_left e_right x) es)); reflexivity.
Qed.

(* ------------------------------------------------------------------------- *)
(* negate_intervals: the complement within [start, end)                        *)

Lemma in_ivs_cons iv rest x : in_ivs (iv :: rest) x = in_iv x iv || in_ivs rest x.
Proof. reflexivity. Qed.

Lemma check_ivs_cons st en last l r t :
  check_ivs st en last ((l, r) :: t) = true ->
  st <= l /\ r <= en /\ l < r /\ last <= l /\ check_ivs st en r t = true.
Proof.
  simpl. destruct ((l <? st) || (r >? en)) eqn:E1; [discriminate|].
  destruct (r <=? l) eqn:E2; [discriminate|].
  destruct (l <? last) eqn:E3; [discriminate|]. intros H; repeat split; first [lia | exact H].
Qed.

Lemma negate_before st en last ivs x :
  check_ivs st en last ivs = true -> x < last -> in_ivs (negate_loop last en ivs) x = false.
Proof.
  revert last. induction ivs as [|[l r] t IH]; intros last Hc Hx; simpl.
  - destruct (last =? en); [reflexivity|]. rewrite in_ivs_cons. unfold in_iv, in_ivs; simpl. lia.
  - apply check_ivs_cons in Hc as (C1 & C2 & C3 & C4 & C5).
    destruct (l =? last).
    + apply IH; [exact C5 | lia].
    + rewrite in_ivs_cons. rewrite (IH r C5) by lia. unfold in_iv; simpl. lia.
Qed.

Lemma negate_loop_spec st en last ivs x :
  check_ivs st en last ivs = true -> last <= en -> last <= x < en ->
  in_ivs (negate_loop last en ivs) x = negb (in_ivs ivs x).
Proof.
  revert last. induction ivs as [|[l r] t IH]; intros last H Hle Hx.
  - simpl. destruct (last =? en) eqn:E; [lia|].
    rewrite in_ivs_cons. unfold in_iv, in_ivs; simpl. lia.
  - apply check_ivs_cons in H as (C1 & C2 & C3 & C4 & C5).
    simpl negate_loop. rewrite (in_ivs_cons (l, r)).
    destruct (l =? last) eqn:El.
    + destruct (Z_lt_dec x r) as [Hlt|Hge].
      * rewrite (negate_before st en r t x C5 Hlt). unfold in_iv; simpl. lia.
      * rewrite (IH r C5) by lia. unfold in_iv; simpl. 
        destruct (in_ivs t x); simpl; lia.
    + rewrite in_ivs_cons.
      destruct (Z_lt_dec x r) as [Hlt|Hge].
      * rewrite (negate_before st en r t x C5 Hlt).
        rewrite (check_ivs_later st en r t x C5 Hlt). unfold in_iv; simpl. lia.
      * rewrite (IH r C5) by lia. unfold in_iv; simpl.
        destruct (in_ivs t x); simpl; lia.
Qed.

(* the negated list is itself accepted by intervals_to_np_array (delete_intervals never
   raises on a well-formed list) *)
Lemma negate_loop_ok st en last ivs :
  check_ivs st en last ivs = true -> st <= last <= en ->
  forall last0, last0 <= last -> check_ivs st en last0 (negate_loop last en ivs) = true.
Proof.
  revert last. induction ivs as [|[l r] t IH]; intros last H Hle last0 H0.
  - simpl. destruct (last =? en) eqn:E; [reflexivity|]. simpl.
    replace ((last <? st) || (en >? en)) with false by lia.
    replace (en <=? last) with false by lia.
    replace (last <? last0) with false by lia. reflexivity.
  - apply check_ivs_cons in H as (C1 & C2 & C3 & C4 & C5).
    simpl negate_loop. destruct (l =? last) eqn:El.
    + apply IH; [exact C5 | lia | lia].
    + simpl.
      replace ((last <? st) || (l >? en)) with false by lia.
      replace (l <=? last) with false by lia.
      replace (last <? last0) with false by lia.
      apply IH; [exact C5 | lia | lia].
Qed.
