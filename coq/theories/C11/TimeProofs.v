(* C11 — delete_older, split_edges, decapitate: ancestry below the cut-off time is left
   alone; at / above it exactly the documented change happens. *)
From Coq Require Import List ZArith Bool Lia Permutation Sorted ZifyBool.
From TskVerif Require Import Base.Common C11.Model C11.Spec C11.IntervalProofs C11.SitesProofs
     C11.KeepProofs.
Import ListNotations.
Open Scope Z_scope.

(* ------------------------------------------------------------------------- *)
(* node times                                                                  *)

Lemma get_node_time ns u v :
  get (map n_time ns) u = Ok v -> v = node_time ns u /\ 0 <= u < zlen ns.
Proof.
  intros H. pose proof (get_range _ _ _ H) as R. unfold zlen in R. rewrite map_length in R.
  split; [|exact R]. apply get_nth_error in H as [_ H]. unfold node_time.
  symmetry. apply nth_error_nth. exact H.
Qed.

Lemma mut_time_ok ns m v : mut_time (map n_time ns) m = Ok v -> v = mtime ns m.
Proof.
  unfold mut_time, mtime. destruct (m_time m); intros H; [inversion H; reflexivity|].
  apply get_node_time in H. tauto.
Qed.

Lemma mut_time_unknown_range ns m v :
  mut_time (map n_time ns) m = Ok v -> m_time m = None -> 0 <= m_node m < zlen ns.
Proof. unfold mut_time. intros H E. rewrite E in H. apply get_node_time in H. tauto. Qed.

Lemma set_parent_same m : set_parent m (m_parent m) = m.
Proof. destruct m; reflexivity. Qed.
Lemma set_node_same m : set_node m (m_node m) = m.
Proof. destruct m; reflexivity. Qed.

(* ------------------------------------------------------------------------- *)
(* delete_older                                                                *)

Lemma older_muts_spec ns t ms : forall next out mp,
  older_muts t (map n_time ns) next ms = Ok (out, mp) ->
  out = filter (young ns t) ms /\ length mp = length ms /\
  forall j m, nth_error ms j = Some m ->
    nth_error mp j = Some (if young ns t m then next + rank (map (young ns t) ms) (Z.of_nat j) else -1).
Proof.
  induction ms as [|m ms IH]; intros next out mp H; simpl in H.
  - inversion H; subst. split; [reflexivity|]. split; [reflexivity|]. intros [|j] m0 Hn; discriminate.
  - apply bind_ok in H as (mt & Hmt & H). apply mut_time_ok in Hmt. subst mt.
    change (mtime ns m <? t) with (young ns t m) in H. simpl filter.
    destruct (young ns t m) eqn:Y.
    + apply bind_ok in H as ([out' mp'] & Hr & H). inversion H; subst; clear H.
      destruct (IH _ _ _ Hr) as (E1 & E2 & E3). split; [f_equal; exact E1|]. split; [simpl; f_equal; exact E2|].
      intros [|j] m0 Hn; simpl in Hn.
      * inversion Hn; subst. rewrite Y. change (Z.of_nat 0) with 0. rewrite rank_0. simpl. f_equal. lia.
      * simpl nth_error. rewrite (E3 j m0 Hn). f_equal. destruct (young ns t m0); [|reflexivity].
        simpl map. rewrite rank_cons by lia. rewrite Y.
        replace (Z.of_nat (S j) - 1) with (Z.of_nat j) by lia. lia.
    + apply bind_ok in H as ([out' mp'] & Hr & H). inversion H; subst; clear H.
      destruct (IH _ _ _ Hr) as (E1 & E2 & E3). split; [exact E1|]. split; [simpl; f_equal; exact E2|].
      intros [|j] m0 Hn; simpl in Hn.
      * inversion Hn; subst. rewrite Y. reflexivity.
      * simpl nth_error. rewrite (E3 j m0 Hn). f_equal. destruct (young ns t m0); [|reflexivity].
        simpl map. rewrite rank_cons by lia. rewrite Y.
        replace (Z.of_nat (S j) - 1) with (Z.of_nat j) by lia. lia.
Qed.

Theorem delete_older_spec_lemma t tb tb' :
  delete_older t tb = Ok tb' ->
  let ns := t_nodes tb in
  t_L tb' = t_L tb /\ t_nodes tb' = ns /\ t_sites tb' = t_sites tb /\
  (* an edge is removed iff its parent is older than t *)
  t_edges tb' = filter (fun e => node_time ns (e_parent e) <=? t) (t_edges tb) /\
  (* a migration is removed iff its time is >= t *)
  t_migs tb' = filter (fun g => g_time g <? t) (t_migs tb) /\
  (* a mutation is removed iff its time (its node's time if unknown) is >= t; retained rows
     are unchanged except for the renumbered parent *)
  t_muts tb' = map (fun m => set_parent m (older_parent ns t (t_muts tb) m))
                   (filter (young ns t) (t_muts tb)).
Proof.
  intros H ns. unfold delete_older in H.
  apply bind_ok in H as (keep_e & Hk & H). apply bind_ok in H as ([ms mp] & Hm & H).
  apply bind_ok in H as (ms' & Hms & H). inversion H; subst; clear H. simpl.
  repeat (split; [reflexivity|]). split; [|split; [reflexivity|]].
  - assert (E : keep_e = map (fun e => node_time ns (e_parent e) <=? t) (t_edges tb)).
    { eapply mapM_ok_map; [exact Hk|]. intros e b _ Hb. apply bind_ok in Hb as (tp & Htp & Hb).
      inversion Hb; subst. apply get_node_time in Htp as [-> _]. reflexivity. }
    rewrite E. apply filter_mask_map.
  - destruct (older_muts_spec _ _ _ _ _ _ Hm) as (E1 & E2 & E3). subst ms. subst ns.
    eapply mapM_ok_map; [exact Hms|]. intros m m' Hin Hre.
    cbv beta in Hre. unfold older_parent. destruct (m_parent m =? -1) eqn:P.
    + inversion Hre; subst. assert (Hm1 : m_parent m' = -1) by lia. rewrite <- Hm1. symmetry. apply set_parent_same.
    + apply bind_ok in Hre as (p & Hp & Hre). inversion Hre; subst; clear Hre. unfold set_parent. f_equal.
      apply get_nth_error in Hp as [P0 Hp].
      assert (Hlt : (Z.to_nat (m_parent m) < length (t_muts tb))%nat)
        by (rewrite <- E2; apply nth_error_Some; congruence).
      destruct (nth_error (t_muts tb) (Z.to_nat (m_parent m))) as [pm|] eqn:N;
        [|apply nth_error_None in N; lia].
      rewrite (E3 _ _ N) in Hp. inversion Hp; subst; clear Hp.
      rewrite Z2Nat.id by lia. destruct (young _ t pm); [|reflexivity]. lia.
Qed.

Corollary delete_older_ancestry ns t es x c p md :
  edge_at (filter (fun e => node_time ns (e_parent e) <=? t) es) x c p md
  <-> edge_at es x c p md /\ node_time ns p <= t.
Proof.
  unfold edge_at. split.
  - intros (e & H1 & H2 & H3 & H4 & H5). apply filter_In in H1 as [H1 Hf]. subst p.
    split; [exists e; repeat split; auto; lia | lia].
  - intros [(e & H1 & H2 & H3 & H4 & H5) Hp]. exists e. split; [|repeat split; auto; lia].
    apply filter_In. split; [exact H1|]. subst p. lia.
Qed.

(* ------------------------------------------------------------------------- *)
(* split_edges                                                                 *)

Lemma split_loop_spec ns t es : forall next es' sp,
  split_loop t (map n_time ns) next es = Ok (es', sp) ->
  sp = assign_new ns t next es /\ es' = flat_map split_rows (combine es sp) /\
  (forall e, In e es -> 0 <= e_child e < zlen ns /\ 0 <= e_parent e < zlen ns).
Proof.
  induction es as [|e es IH]; intros next es' sp H; simpl in H.
  - inversion H; subst. repeat split; try reflexivity; destruct H0.
  - apply bind_ok in H as (tc & Htc & H). apply bind_ok in H as (tp & Htp & H).
    apply get_node_time in Htc as [-> Rc]. apply get_node_time in Htp as [-> Rp].
    simpl assign_new. unfold splits at 1.
    destruct ((node_time ns (e_child e) <? t) && (t <? node_time ns (e_parent e))) eqn:S.
    + apply bind_ok in H as ([out sp'] & Hr & H). inversion H; subst; clear H.
      destruct (IH _ _ _ Hr) as (E1 & E2 & E3). subst sp'.
      split; [reflexivity|]. split; [rewrite E2; reflexivity|].
      intros e0 [<-|He]; auto.
    + apply bind_ok in H as ([out sp'] & Hr & H). inversion H; subst; clear H.
      destruct (IH _ _ _ Hr) as (E1 & E2 & E3). subst sp'.
      split; [reflexivity|]. split; [rewrite E2; reflexivity|].
      intros e0 [<-|He]; auto.
Qed.

Lemma assign_new_length ns t next es : length (assign_new ns t next es) = length es.
Proof. revert next. induction es as [|e es IH]; intros next; simpl; [reflexivity|]. destruct (splits ns t e); simpl; f_equal; apply IH. Qed.

Lemma assign_new_count ns t next es : count_some (assign_new ns t next es) = num_splits ns t es.
Proof.
  unfold num_splits. revert next. induction es as [|e es IH]; intros next; simpl; [reflexivity|].
  destruct (splits ns t e); simpl; rewrite IH; reflexivity.
Qed.

(* every pair (edge, assigned node) of the table *)
Lemma assign_new_pairs ns t es : forall next e u,
  In (e, u) (combine es (assign_new ns t next es)) ->
  In e es /\ match u with
             | None => splits ns t e = false
             | Some v => splits ns t e = true /\ next <= v < next + Z.of_nat (num_splits ns t es)
             end.
Proof.
  unfold num_splits. induction es as [|e0 es IH]; intros next e u H; simpl in H; [destruct H|].
  destruct (splits ns t e0) eqn:S; simpl in H; destruct H as [H|H].
  - inversion H; subst. split; [left; reflexivity|]. split; [exact S|]. simpl filter. rewrite S. simpl length. lia.
  - destruct (IH _ _ _ H) as [A B]. split; [right; exact A|]. destruct u; [|exact B].
    simpl filter. rewrite S. simpl length. destruct B as [B1 B2]. split; [exact B1|lia].
  - inversion H; subst. split; [left; reflexivity|exact S].
  - destruct (IH _ _ _ H) as [A B]. split; [right; exact A|]. destruct u; [|exact B].
    simpl filter. rewrite S. exact B.
Qed.

Lemma assign_new_has ns t es : forall next e, In e es ->
  exists u, In (e, u) (combine es (assign_new ns t next es)).
Proof.
  induction es as [|e0 es IH]; intros next e H; [destruct H|]. simpl.
  destruct H as [<-|H].
  - destruct (splits ns t e0); eexists; left; reflexivity.
  - destruct (splits ns t e0); simpl.
    + destruct (IH (next + 1) e H) as [u Hu]. exists u. right. exact Hu.
    + destruct (IH next e H) as [u Hu]. exists u. right. exact Hu.
Qed.

(* distinct table rows get distinct new nodes *)
Lemma assign_new_inj ns t es : forall next j1 j2 v,
  nth_error (assign_new ns t next es) j1 = Some (Some v) ->
  nth_error (assign_new ns t next es) j2 = Some (Some v) -> j1 = j2.
Proof.
  assert (G : forall es next j v, nth_error (assign_new ns t next es) j = Some (Some v) -> next <= v).
  { induction es0 as [|e0 es0 IH]; intros next j v H; [destruct j; discriminate|].
    simpl in H. destruct (splits ns t e0); destruct j as [|j]; simpl in H.
    - inversion H; lia.
    - apply IH in H. lia.
    - discriminate.
    - apply IH in H. lia. }
  induction es as [|e0 es IH]; intros next j1 j2 v H1 H2; [destruct j1; discriminate|].
  simpl in H1, H2. destruct (splits ns t e0); destruct j1 as [|j1]; destruct j2 as [|j2]; simpl in H1, H2;
    try discriminate; try reflexivity.
  - inversion H1; subst. apply G in H2. lia.
  - inversion H2; subst. apply G in H1. lia.
  - f_equal. eapply IH; eauto.
  - f_equal. eapply IH; eauto.
Qed.

Lemma node_time_app_old ns extra u : 0 <= u < zlen ns -> node_time (ns ++ extra) u = node_time ns u.
Proof.
  intros H. unfold node_time. rewrite map_app. apply app_nth1. rewrite map_length. unfold zlen in H. lia.
Qed.

Lemma nth_map_repeat (row : node) k i : (i < k)%nat -> nth i (map n_time (repeat row k)) 0 = n_time row.
Proof.
  revert k. induction i as [|i IH]; intros [|k] Hk; simpl; try lia; try reflexivity; apply IH; lia.
Qed.

Lemma node_time_app_new ns row k u :
  zlen ns <= u < zlen ns + Z.of_nat k -> node_time (ns ++ repeat row k) u = n_time row.
Proof.
  intros H. unfold node_time. rewrite map_app. unfold zlen in H.
  rewrite app_nth2 by (rewrite map_length; lia).
  rewrite map_length. apply nth_map_repeat. lia.
Qed.

Lemma In_split_rows e' e u : In e' (split_rows (e, u)) ->
  match u with None => e' = e | Some v => e' = lower_half e v \/ e' = upper_half e v end.
Proof.
  unfold split_rows; simpl. destruct u; simpl; intros H.
  - destruct H as [<-|[<-|[]]]; auto.
  - destruct H as [<-|[]]; reflexivity.
Qed.

Definition moved_ok (ns : list node) (t : Z) (es : list edge) (sites : list site)
           (pairs : list (edge * option Z)) (m m' : mutation) : Prop :=
  exists v, m' = set_node m v /\
    (* below the cut: never moved *)
    (mtime ns m < t -> v = m_node m) /\
    (* moved: at/above the cut, onto the new node of an intersecting edge above it *)
    (v <> m_node m ->
       t <= mtime ns m /\
       exists e st, In (e, Some v) pairs /\ e_child e = m_node m /\
                    nth_error sites (Z.to_nat (m_site m)) = Some st /\ e_left e <= s_pos st < e_right e) /\
    (m_time m = None -> 0 <= m_node m < zlen ns) /\
    (* not moved although at/above the cut: the edge above it does not intersect the cut *)
    (v = m_node m -> t <= mtime ns m ->
       forall st j e, nth_error sites (Z.to_nat (m_site m)) = Some st ->
                      edge_above es (s_pos st) (m_node m) = Some j -> nth_error es j = Some e ->
                      splits ns t e = false).

Lemma find_index_some {A} (f : A -> bool) l j : find_index f l = Some j ->
  exists a, nth_error l j = Some a /\ f a = true.
Proof.
  revert j. induction l as [|x l IH]; intros j H; simpl in H; [discriminate|].
  destruct (f x) eqn:F.
  - inversion H; subst. exists x. split; [reflexivity|exact F].
  - destruct (find_index f l) eqn:E; [|discriminate]. inversion H; subst.
    destruct (IH _ eq_refl) as (a & A1 & A2). exists a. split; [exact A1|exact A2].
Qed.

Lemma nth_combine {A B} (l : list A) (l' : list B) j a b :
  nth_error l j = Some a -> nth_error l' j = Some b -> In (a, b) (combine l l').
Proof.
  revert l' j. induction l as [|x l IH]; intros [|y l'] [|j] H1 H2; simpl in *; try discriminate.
  - inversion H1; inversion H2; subst. left; reflexivity.
  - right. eapply IH; eauto.
Qed.

Lemma assign_new_nth ns t es : forall next j e,
  nth_error es j = Some e ->
  exists o, nth_error (assign_new ns t next es) j = Some o /\
            (o = None -> splits ns t e = false) /\ (forall u, o = Some u -> splits ns t e = true /\ next <= u).
Proof.
  induction es as [|e0 es IH]; intros next j e H; [destruct j; discriminate|].
  simpl. destruct j as [|j]; simpl in H.
  - inversion H; subst. destruct (splits ns t e) eqn:S; eexists; (split; [reflexivity|]); split; try congruence.
    + intros u Hu. inversion Hu; subst. split; [reflexivity|lia].
  - destruct (splits ns t e0); simpl.
    + destruct (IH (next + 1) j e H) as (o & O1 & O2 & O3). exists o. split; [exact O1|]. split; [exact O2|].
      intros u Hu. destruct (O3 u Hu). split; [assumption|lia].
    + apply IH. exact H.
Qed.

Lemma split_mut_spec ns t es sites next m m' :
  split_mut t (map n_time ns) es sites (assign_new ns t next es) m = Ok m' ->
  (forall e, In e es -> e_child e < next) ->
  moved_ok ns t es sites (combine es (assign_new ns t next es)) m m'.
Proof.
  unfold split_mut. intros H Hch. set (sp := assign_new ns t next es) in *.
  assert (Hlen : length sp = length es) by apply assign_new_length.
  apply bind_ok in H as (st & Hst & H). apply bind_ok in H as (mt & Hmt & H).
  pose proof (mut_time_unknown_range _ _ _ Hmt) as Hr.
  apply mut_time_ok in Hmt. subst mt.
  apply get_nth_error in Hst as [S0 Hst].
  assert (Keep : (t <= mtime ns m ->
                  forall j e, edge_above es (s_pos st) (m_node m) = Some j -> nth_error es j = Some e ->
                              splits ns t e = false) ->
                 moved_ok ns t es sites (combine es sp) m m).
  { intros D. exists (m_node m). split; [symmetry; apply set_node_same|]. split; [reflexivity|].
    split; [congruence|]. split; [exact Hr|].
    intros _ Ht st' j e Hst' EA Ne. rewrite Hst in Hst'. inversion Hst'; subst st'. eapply D; eauto. }
  destruct (edge_above es (s_pos st) (m_node m)) as [j|] eqn:EA;
    [|inversion H; subst; apply Keep; intros _ j e Hj; discriminate].
  pose proof EA as EA0. unfold edge_above in EA0. apply find_index_some in EA0 as (e & E1 & E2).
  destruct (assign_new_nth ns t es next j e E1) as (o & O1 & O2 & O3). fold sp in O1.
  assert (Hnth : nth j sp None = o).
  { assert (Hj : (j < length sp)%nat) by (rewrite Hlen; apply nth_error_Some; congruence).
    pose proof (nth_error_nth' sp None Hj) as Q. rewrite O1 in Q. inversion Q. reflexivity. }
  rewrite Hnth in H.
  destruct o as [u|].
  - destruct (O3 u eq_refl) as [Sp Un].
    destruct (mtime ns m >=? t) eqn:G.
    + inversion H; subst; clear H. exists u. split; [reflexivity|]. split; [lia|].
      split.
      { intros _. split; [lia|]. exists e, st. split; [eapply nth_combine; eauto|].
        split; [lia|]. split; [exact Hst|lia]. }
      split; [exact Hr|].
      intros Hu. exfalso. assert (e_child e < next) by (apply Hch; eapply nth_error_In; eauto). lia.
    + inversion H; subst. apply Keep. intros Ht. lia.
  - inversion H; subst. apply Keep. intros _ j' e' Hj' Ne'. inversion Hj'; subst j'.
    rewrite E1 in Ne'. inversion Ne'; subst e'. apply O2. reflexivity.
Qed.

Theorem split_edges_spec_lemma srt t flags pop md npop tb tb' :
  sort_ok srt -> split_edges srt t flags pop md npop tb = Ok tb' ->
  let ns := t_nodes tb in
  let N := zlen ns in
  let k := num_splits ns t (t_edges tb) in
  let pairs := combine (t_edges tb) (assign_new ns t N (t_edges tb)) in
  t_migs tb = [] /\ -1 <= pop < npop /\
  (forall e, In e (t_edges tb) -> 0 <= e_child e < N /\ 0 <= e_parent e < N) /\
  t_L tb' = t_L tb /\ t_sites tb' = t_sites tb /\ t_migs tb' = [] /\
  (* old node rows untouched, one new row (flags, t, population, NULL, metadata) per intersecting edge *)
  t_nodes tb' = ns ++ repeat (mkN flags t pop (-1) md) k /\
  (* the documented replacement: each intersecting edge (l,r,p,c) becomes (l,r,u,c),(l,r,p,u)
     with its own fresh u (fresh ids in table order); every other edge row is kept as is *)
  Permutation (t_edges tb') (flat_map split_rows pairs) /\
  (* mutations: all fields but the node kept; moved only when at/above the cut, and then onto
     the new node of the edge above them *)
  Forall2 (moved_ok ns t (t_edges tb) (t_sites tb) pairs) (t_muts tb) (t_muts tb').
Proof.
  intros S H ns N k pairs. unfold split_edges in H.
  destruct (pop <? -1) eqn:P1; [discriminate|].
  destruct (negb (zlen (t_migs tb) =? 0)) eqn:P2; [discriminate|].
  destruct (pop >=? npop) eqn:P3; [discriminate|].
  apply bind_ok in H as ([es' sp] & Hl & H). apply bind_ok in H as (ms' & Hm & H).
  inversion H; subst; clear H. simpl.
  destruct (split_loop_spec _ _ _ _ _ _ Hl) as (E1 & E2 & E3).
  assert (Mg : t_migs tb = []).
  { destruct (t_migs tb); [reflexivity|]. unfold zlen in P2. simpl in P2. lia. }
  split; [exact Mg|]. split; [lia|]. split; [exact E3|].
  repeat (split; [reflexivity|]). split; [exact Mg|]. split.
  { f_equal. f_equal. rewrite E1. apply assign_new_count. }
  split.
  { rewrite (srt_edges _ S). simpl. rewrite E2, E1. apply Permutation_refl. }
  apply mapM_ok in Hm. rewrite E1 in Hm. fold ns N in Hm.
  induction Hm; constructor; auto.
  eapply split_mut_spec; [eassumption|]. intros e He. apply E3 in He. unfold N, ns. lia.
Qed.

(* ancestry between old nodes: an edge survives as a row iff it does not intersect the cut *)
Corollary split_edges_old_edges ns t N es out :
  N = zlen ns ->
  Permutation out (flat_map split_rows (combine es (assign_new ns t N es))) ->
  forall x c p md, p < N -> c < N ->
    (edge_at out x c p md <-> edge_at es x c p md /\ cut ns t c p = false).
Proof.
  intros HN P x c p md Hp Hc. rewrite (edge_at_perm _ _ x c p md P). unfold edge_at. split.
  - intros (e' & H1 & H2 & H3 & H4 & H5). apply in_flat_map in H1 as ([e u] & Hin & He').
    destruct (assign_new_pairs _ _ _ _ _ _ Hin) as [A B]. apply In_split_rows in He'.
    destruct u as [v|].
    + destruct B as [_ B]. destruct He' as [->| ->]; simpl in *; lia.
    + subst e'. split; [exists e; split; [exact A|]; split; [exact H2|]; split; [exact H3|]; split; [exact H4|exact H5] |]. unfold splits in B. subst. exact B.
  - intros [(e & H1 & H2 & H3 & H4 & H5) Hcut]. exists e. split; [|split; [exact H2|]; split; [exact H3|]; split; [exact H4|exact H5]].
    apply in_flat_map. destruct (assign_new_has ns t es N e H1) as [u Hu]. exists (e, u). split; [exact Hu|].
    destruct (assign_new_pairs _ _ _ _ _ _ Hu) as [_ B]. destruct u as [v|].
    + destruct B as [B _]. unfold splits in B. subst. unfold cut in Hcut. congruence.
    + left. reflexivity.
Qed.

(* an intersecting edge becomes a two-step path through its new node, which sits at time t *)
Corollary split_edges_path ns t N es out flags pop md :
  N = zlen ns ->
  Permutation out (flat_map split_rows (combine es (assign_new ns t N es))) ->
  forall e, In e es -> splits ns t e = true ->
    exists u, N <= u < N + Z.of_nat (num_splits ns t es) /\
              In (lower_half e u) out /\ In (upper_half e u) out /\
              node_time (ns ++ repeat (mkN flags t pop (-1) md) (num_splits ns t es)) u = t.
Proof.
  intros HN P e He Hs. destruct (assign_new_has ns t es N e He) as [u Hu].
  destruct (assign_new_pairs _ _ _ _ _ _ Hu) as [_ B]. destruct u as [v|]; [|congruence].
  destruct B as [_ B]. exists v. split; [exact B|].
  assert (I : forall e', In e' (split_rows (e, Some v)) -> In e' out).
  { intros e' He'. eapply Permutation_in; [apply Permutation_sym; exact P|]. apply in_flat_map. eauto. }
  split; [apply I; left; reflexivity|]. split; [apply I; right; left; reflexivity|].
  subst N. rewrite (node_time_app_new ns _ _ v B). reflexivity.
Qed.

(* ------------------------------------------------------------------------- *)
(* decapitate = split_edges ; delete_older                                     *)

Lemma Forall2_filter_sync {A} (R : A -> A -> Prop) (f g : A -> bool) l l1 :
  Forall2 R l l1 -> (forall a b, R a b -> f a = g b /\ (f a = true -> b = a)) ->
  filter g l1 = filter f l.
Proof.
  intros H HR. induction H; simpl; [reflexivity|].
  destruct (HR _ _ H) as [E1 E2]. rewrite <- E1. destruct (f x) eqn:F; [rewrite (E2 eq_refl); f_equal|]; exact IHForall2.
Qed.

Lemma Forall2_map_sync {A} (R : A -> A -> Prop) (f g : A -> bool) l l1 :
  Forall2 R l l1 -> (forall a b, R a b -> f a = g b) -> map g l1 = map f l.
Proof.
  intros H HR. induction H; simpl; [reflexivity|]. rewrite (HR _ _ H). f_equal. exact IHForall2.
Qed.

Lemma Forall2_nth {A} (R : A -> A -> Prop) l l1 j :
  Forall2 R l l1 ->
  match nth_error l j, nth_error l1 j with
  | Some a, Some b => R a b
  | None, None => True
  | _, _ => False
  end.
Proof.
  intros H. revert j. induction H; intros [|j]; simpl; auto. apply IHForall2.
Qed.

(* young-ness of a mutation after split_edges (over the extended node table) is its
   young-ness before, and a young mutation has not been touched *)
Lemma moved_young ns t es sites pairs row k m m' :
  n_time row = t ->
  (forall e v, In (e, Some v) pairs -> zlen ns <= v < zlen ns + Z.of_nat k) ->
  moved_ok ns t es sites pairs m m' ->
  young ns t m = young (ns ++ repeat row k) t m' /\ (young ns t m = true -> m' = m).
Proof.
  intros Hrow Hnew (v & -> & A & B & C & _).
  destruct (Z.eq_dec v (m_node m)) as [->|Hne].
  - rewrite set_node_same. split; [|reflexivity]. unfold young, mtime.
    destruct (m_time m) eqn:T; [reflexivity|]. rewrite node_time_app_old by auto. reflexivity.
  - destruct (B Hne) as (B1 & e & st & B2 & _). split.
    + unfold young. replace (mtime ns m <? t) with false by lia. symmetry. apply Z.ltb_ge.
      unfold mtime at 1. simpl. unfold mtime in B1. destruct (m_time m); [exact B1|].
      rewrite (node_time_app_new ns row k v (Hnew _ _ B2)). lia.
    + unfold young. intros Y. lia.
Qed.

Theorem decapitate_spec_lemma srt t flags pop md npop tb tb' :
  sort_ok srt -> decapitate srt t flags pop md npop tb = Ok tb' ->
  let ns := t_nodes tb in
  let N := zlen ns in
  let k := num_splits ns t (t_edges tb) in
  let ns' := ns ++ repeat (mkN flags t pop (-1) md) k in
  t_L tb' = t_L tb /\ t_sites tb' = t_sites tb /\ t_migs tb' = [] /\
  t_nodes tb' = ns' /\
  (* ancestry between the original nodes: kept iff the parent is not older than t *)
  (forall x c p md', 0 <= c < N -> 0 <= p < N ->
     (edge_at (t_edges tb') x c p md' <-> edge_at (t_edges tb) x c p md' /\ node_time ns p <= t)) /\
  (* an edge crossing t is cut there: its child now hangs under a fresh node of time t,
     which has no parent *)
  (forall e, In e (t_edges tb) -> splits ns t e = true ->
     exists u, N <= u < N + Z.of_nat k /\ node_time ns' u = t /\ In (lower_half e u) (t_edges tb') /\
               forall e', In e' (t_edges tb') -> e_child e' <> u) /\
  (* nothing at or above t is left: no parent older than t, and (for valid times) every
     child strictly younger than t *)
  (forall e', In e' (t_edges tb') -> node_time ns' (e_parent e') <= t) /\
  ((forall e, In e (t_edges tb) -> node_time ns (e_child e) < node_time ns (e_parent e)) ->
   forall e', In e' (t_edges tb') -> node_time ns' (e_child e') < t) /\
  (* mutations: removed iff time >= t (node time if unknown); the others are the original
     rows (node included) with the parent renumbered *)
  t_muts tb' = map (fun m => set_parent m (older_parent ns t (t_muts tb) m))
                   (filter (young ns t) (t_muts tb)).
Proof.
  intros S H ns N k ns'. subst ns'. unfold decapitate in H. apply bind_ok in H as (t1 & H1 & H2).
  pose proof (split_edges_spec_lemma _ _ _ _ _ _ _ _ S H1) as (A1 & A2 & A3 & A4 & A5 & A6 & A7 & A8 & A9).
  fold ns N k in A3, A7, A8, A9.
  pose proof (delete_older_spec_lemma _ _ _ H2) as (B1 & B2 & B3 & B4 & B5 & B6).
  rewrite A7 in B2, B4, B6.
  assert (Hnew : forall e v, In (e, Some v) (combine (t_edges tb) (assign_new ns t N (t_edges tb))) ->
                             zlen ns <= v < zlen ns + Z.of_nat k).
  { intros e v Hin. destruct (assign_new_pairs _ _ _ _ _ _ Hin) as [_ [_ B]]. exact B. }
  split; [congruence|]. split; [congruence|]. split; [rewrite B5, A6; reflexivity|]. split; [exact B2|].
  split.
  { intros x c p md' Hc Hp. rewrite B4, delete_older_ancestry.
    rewrite (split_edges_old_edges ns t N (t_edges tb) (t_edges t1) eq_refl A8 x c p md') by lia.
    rewrite (node_time_app_old ns _ p) by (fold N; lia). unfold cut. split.
    - intros [[E _] T]. split; assumption.
    - intros [E T]. split; [split; [exact E | lia] | exact T]. }
  split.
  { intros e He Hs.
    destruct (split_edges_path ns t N (t_edges tb) (t_edges t1) flags pop md eq_refl A8 e He Hs)
      as (u & U1 & U2 & U3 & U4).
    exists u. split; [exact U1|]. split; [exact U4|]. split.
    - rewrite B4. apply filter_In. split; [exact U2|]. simpl. fold k in U4. rewrite U4. lia.
    - intros e' He' Hch. rewrite B4 in He'. apply filter_In in He' as [He' Hf].
      apply (Permutation_in _ A8) in He'. apply in_flat_map in He' as ([e0 u0] & Hin & Hrow).
      apply In_split_rows in Hrow. destruct (assign_new_pairs _ _ _ _ _ _ Hin) as [I1 I2].
      destruct u0 as [v|].
      + destruct I2 as [I2 I3]. destruct Hrow as [->| ->]; simpl in *.
        * destruct (A3 _ I1). lia.
        * (* the upper half has parent e0's parent, which is older than t: filtered out *)
          rewrite (node_time_app_old ns _ (e_parent e0)) in Hf by (apply A3; exact I1).
          unfold splits in I2. lia.
      + subst e'. destruct (A3 _ I1). lia. }
  split.
  { intros e' He'. rewrite B4 in He'. apply filter_In in He' as [_ Hf]. lia. }
  split.
  { intros Hvalid e' He'. rewrite B4 in He'. apply filter_In in He' as [He' Hf].
    apply (Permutation_in _ A8) in He'. apply in_flat_map in He' as ([e0 u0] & Hin & Hrow).
    apply In_split_rows in Hrow. destruct (assign_new_pairs _ _ _ _ _ _ Hin) as [I1 I2].
    destruct (A3 _ I1) as [Rc Rp]. specialize (Hvalid _ I1).
    destruct u0 as [v|].
    - destruct I2 as [I2 I3]. destruct Hrow as [->| ->]; simpl in *.
      + rewrite (node_time_app_old ns _ (e_child e0)) by exact Rc. unfold splits in I2. lia.
      + rewrite (node_time_app_old ns _ (e_parent e0)) in Hf by exact Rp. unfold splits in I2. lia.
    - subst e'. rewrite (node_time_app_old ns _ (e_child e0)) by exact Rc.
      rewrite (node_time_app_old ns _ (e_parent e0)) in Hf by exact Rp. lia. }
  (* mutations *)
  rewrite B6.
  assert (Sync : forall a b, moved_ok ns t (t_edges tb) (t_sites tb) (combine (t_edges tb) (assign_new ns t N (t_edges tb))) a b ->
                             young ns t a = young (ns ++ repeat (mkN flags t pop (-1) md) k) t b /\ (young ns t a = true -> b = a)).
  { intros a b Hab. eapply moved_young; eauto. }
  rewrite (Forall2_filter_sync _ (young ns t) (young (ns ++ repeat (mkN flags t pop (-1) md) k) t) _ _ A9 Sync).
  apply map_ext_in. intros m Hm. f_equal. unfold older_parent.
  destruct (m_parent m =? -1); [reflexivity|].
  rewrite (Forall2_map_sync _ (young ns t) (young (ns ++ repeat (mkN flags t pop (-1) md) k) t) _ _ A9 (fun a b Hab => proj1 (Sync a b Hab))).
  pose proof (Forall2_nth _ _ _ (Z.to_nat (m_parent m)) A9) as Hn.
  destruct (nth_error (t_muts tb) (Z.to_nat (m_parent m))) as [pm|];
    destruct (nth_error (t_muts t1) (Z.to_nat (m_parent m))) as [pm1|]; try contradiction; [|reflexivity].
  destruct (Sync _ _ Hn) as [E _]. rewrite E. reflexivity.
Qed.
