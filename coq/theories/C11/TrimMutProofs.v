(* C11 — trim = rtrim ; ltrim renumbers mutations twice; the two rank maps compose to the
   single rank map of the fused site mask, so [trim] is one renumbering like the others. *)
From Coq Require Import List ZArith Bool Lia Permutation Sorted ZifyBool.
From TskVerif Require Import Base.Common C11.Model C11.Spec C11.IntervalProofs
     C11.SitesProofs C11.KeepProofs C11.TrimProofs.
Import ListNotations.
Open Scope Z_scope.

Lemma rank_nil i : rank [] i = 0.
Proof. unfold rank. rewrite firstn_nil. reflexivity. Qed.

Lemma rank_filter_compose {A} (f1 f2 : A -> bool) (l : list A) i : 0 <= i ->
  rank (map f2 (filter f1 l)) (rank (map f1 l) i) = rank (map (fun a => f1 a && f2 a) l) i.
Proof.
  revert i. induction l as [|a l IH]; intros i Hi; cbn [filter map].
  - rewrite !rank_nil. reflexivity.
  - destruct (Z.eq_dec i 0) as [->|Hn]; [rewrite !rank_0; reflexivity|].
    rewrite (rank_cons (f1 a)) by lia. rewrite (rank_cons (f1 a && f2 a)) by lia.
    pose proof (rank_nonneg (map f1 l) (i - 1)) as R.
    destruct (f1 a); cbn [filter map andb].
    + rewrite rank_cons by lia. replace (1 + rank (map f1 l) (i - 1) - 1) with (rank (map f1 l) (i - 1)) by lia.
      rewrite IH by lia. reflexivity.
    + replace (0 + rank (map f1 l) (i - 1)) with (rank (map f1 l) (i - 1)) by lia.
      rewrite IH by lia. lia.
Qed.

Lemma kept_map {A} (f : A -> bool) (l : list A) i a :
  0 <= i -> nth_error l (Z.to_nat i) = Some a -> kept (map f l) i = f a.
Proof.
  intros Hi H. unfold kept. replace (i <? 0) with false by lia.
  erewrite nth_error_nth; [reflexivity|]. rewrite nth_error_map, H. reflexivity.
Qed.

Lemma kept_filter_compose {A} (f1 f2 : A -> bool) (l : list A) i a :
  0 <= i -> nth_error l (Z.to_nat i) = Some a -> f1 a = true ->
  kept (map f2 (filter f1 l)) (rank (map f1 l) i) = f2 a.
Proof.
  revert i. induction l as [|x l IH]; intros i Hi H F; [destruct (Z.to_nat i); discriminate|].
  destruct (Z.eq_dec i 0) as [->|Hn].
  - simpl in H. inversion H; subst. simpl. rewrite F. rewrite rank_0. reflexivity.
  - replace (Z.to_nat i) with (S (Z.to_nat (i - 1))) in H by lia. simpl in H.
    simpl map. rewrite rank_cons by lia. pose proof (rank_nonneg (map f1 l) (i - 1)) as R.
    simpl filter. destruct (f1 x); simpl map.
    + rewrite kept_cons by lia. replace (1 + rank (map f1 l) (i - 1) - 1) with (rank (map f1 l) (i - 1)) by lia.
      apply IH; auto; lia.
    + replace (0 + rank (map f1 l) (i - 1)) with (rank (map f1 l) (i - 1)) by lia. apply IH; auto; lia.
Qed.

(* a renumbered reference into a filtered-and-mapped list *)
Lemma nth_error_map_filter_rank {A B} (g : A -> B) (f : A -> bool) (l : list A) i a :
  0 <= i -> nth_error l (Z.to_nat i) = Some a -> f a = true ->
  nth_error (map g (filter f l)) (Z.to_nat (rank (map f l) i)) = Some (g a).
Proof.
  intros Hi H F. rewrite nth_error_map. rewrite <- filter_mask_map.
  rewrite nth_error_filter_mask_rank.
  - rewrite H. reflexivity.
  - apply map_length.
  - rewrite (kept_map f l i a); auto.
Qed.

(* parents stay at the same site after a renumbering pass *)
Lemma renumber_parents_same_site smask ms :
  (forall m, In m ms -> 0 <= m_site m) ->
  parents_same_site ms ->
  parents_same_site (map (renumber smask (site_mask_of_muts smask ms))
                         (filter (fun m => kept smask (m_site m)) ms)).
Proof.
  intros Hr P m' Hm'. apply in_map_iff in Hm' as (m & <- & Hm). apply filter_In in Hm as [Hin K].
  unfold renumber at 1 2 3. simpl m_parent. simpl m_site.
  destruct (P m Hin) as [E|(pm & N & P0 & S)].
  - left. rewrite E. reflexivity.
  - right. destruct (m_parent m =? -1) eqn:E; [lia|].
    exists (renumber smask (site_mask_of_muts smask ms) pm).
    unfold site_mask_of_muts.
    split; [|split].
    + apply (nth_error_map_filter_rank _ (fun m0 => kept smask (m_site m0)) ms (m_parent m) pm); auto.
      rewrite S. exact K.
    + apply rank_nonneg.
    + simpl. rewrite S. reflexivity.
Qed.

Lemma delete_sites_pred_range (f : site -> bool) t t' :
  delete_sites (where_false 0 (map f (t_sites t))) t = Ok t' ->
  forall m, In m (t_muts t) -> 0 <= m_site m < zlen (t_sites t).
Proof.
  rewrite delete_sites_where_false. intros H m Hm.
  apply delete_sites_mask_spec in H as (_ & _ & _ & _ & _ & A6 & _).
  specialize (A6 m Hm). unfold zlen in *. rewrite map_length in A6. exact A6.
Qed.

Lemma renumber_compose (f1 f2 : site -> bool) (sites : list site) (ms : list mutation) :
  (forall m, In m ms -> 0 <= m_site m < zlen sites) ->
  parents_same_site ms ->
  let s1 := map f1 sites in
  let m1 := site_mask_of_muts s1 ms in
  let ms1 := map (renumber s1 m1) (filter (fun m => kept s1 (m_site m)) ms) in
  let s2 := map f2 (filter f1 sites) in
  let m2 := site_mask_of_muts s2 ms1 in
  let s12 := map (fun s => f1 s && f2 s) sites in
  map (renumber s2 m2) (filter (fun m => kept s2 (m_site m)) ms1)
  = map (renumber s12 (site_mask_of_muts s12 ms)) (filter (fun m => kept s12 (m_site m)) ms).
Proof.
  intros Hr P s1 m1 ms1 s2 m2 s12.
  (* site rows behind valid indices *)
  assert (Hsite : forall m, In m ms -> exists st, nth_error sites (Z.to_nat (m_site m)) = Some st).
  { intros m Hm. destruct (Hr m Hm) as [A B]. unfold zlen in B.
    destruct (nth_error sites (Z.to_nat (m_site m))) eqn:E; [eauto|]. apply nth_error_None in E. lia. }
  (* the fused keep predicate *)
  assert (K12 : forall m, In m ms ->
            kept s12 (m_site m) = kept s1 (m_site m) && kept s2 (rank s1 (m_site m))).
  { intros m Hm. destruct (Hsite m Hm) as [st Hst]. destruct (Hr m Hm) as [A _].
    unfold s12, s1, s2. rewrite (kept_map _ sites _ st A Hst), (kept_map f1 sites _ st A Hst).
    destruct (f1 st) eqn:F; simpl; [|reflexivity].
    rewrite (kept_filter_compose f1 f2 sites _ st A Hst F). reflexivity. }
  unfold ms1. rewrite filter_map_comm, map_map, filter_filter.
  assert (Ef : filter (fun a => kept s1 (m_site a) && kept s2 (m_site (renumber s1 m1 a))) ms
               = filter (fun m => kept s12 (m_site m)) ms).
  { apply filter_ext_in. intros m Hm. simpl. symmetry. apply K12, Hm. }
  rewrite Ef. apply map_ext_in. intros m Hm. apply filter_In in Hm as [Hin K].
  rewrite (K12 m Hin) in K. apply andb_true_iff in K as [Ka Kb].
  unfold renumber. simpl. f_equal.
  - destruct (Hr m Hin) as [A _]. unfold s2, s1, s12. apply rank_filter_compose. exact A.
  - destruct (m_parent m =? -1) eqn:E; [reflexivity|].
    destruct (P m Hin) as [E'|(pm & N & P0 & S)]; [lia|].
    pose proof (rank_nonneg m1 (m_parent m)) as Rn.
    destruct (rank m1 (m_parent m) =? -1) eqn:E2; [lia|]. clear E2 Rn.
    (* m2 = map (kept s2 . site) ms1 = map g2 (filter g1 ms) *)
    unfold m2, site_mask_of_muts, ms1. rewrite map_map. unfold m1, site_mask_of_muts.
    rewrite (rank_filter_compose (fun m0 => kept s1 (m_site m0))
               (fun m0 => kept s2 (m_site (renumber s1 (map (fun m3 => kept s1 (m_site m3)) ms) m0))) ms
               (m_parent m) P0).
    f_equal. apply map_ext_in. intros a Ha. simpl. symmetry. apply K12, Ha.
Qed.

Theorem trim_repaired_mutations_lemma t t' :
  trim_repaired t = Ok t' -> parents_same_site (t_muts t) ->
  let d := leftmost t in
  let r := rightmost t in
  let smask := map (fun s => (s_pos s <? r) && (d <=? s_pos s)) (t_sites t) in
  t_muts t' = map (renumber smask (site_mask_of_muts smask (t_muts t)))
                  (filter (fun m => kept smask (m_site m)) (t_muts t)).
Proof.
  intros H P d r smask. unfold trim_repaired, trim_gen in H. apply bind_ok in H as (t1 & H1 & H2).
  (* pass 1 *)
  assert (R1 : forall m, In m (t_muts t) -> 0 <= m_site m < zlen (t_sites t)).
  { unfold rtrim_gen in H1. destruct (check_trim_conditions true t); [discriminate|].
    apply bind_ok in H1 as (t0 & H0 & _). eapply delete_sites_pred_range; eauto. }
  pose proof (rtrim_gen_spec _ _ _ H1) as (_ & _ & _ & E5 & _ & E7 & E8). specialize (E8 P).
  fold r in E7, E8.
  (* pass 2 *)
  assert (Ed : leftmost t1 = d) by (unfold leftmost; rewrite E5; reflexivity).
  pose proof (ltrim_gen_spec _ _ _ _ _ H2) as (_ & _ & _ & _ & _ & _ & L7).
  rewrite Ed in L7.
  set (f1 := fun s : site => negb (s_pos s >=? r)) in *.
  set (f2 := fun s : site => negb (s_pos s <? d)) in *.
  assert (Es1 : t_sites t1 = filter f1 (t_sites t)).
  { rewrite E7. apply filter_ext. intros s. unfold f1. lia. }
  rewrite Es1 in L7. rewrite E8 in L7.
  assert (P1 : parents_same_site (map (renumber (map f1 (t_sites t)) (site_mask_of_muts (map f1 (t_sites t)) (t_muts t)))
                                      (filter (fun m => kept (map f1 (t_sites t)) (m_site m)) (t_muts t)))).
  { apply renumber_parents_same_site; [|exact P]. intros m Hm. apply R1 in Hm. lia. }
  rewrite (L7 P1). rewrite (renumber_compose f1 f2 (t_sites t) (t_muts t) R1 P).
  assert (Em : map (fun s => f1 s && f2 s) (t_sites t) = smask).
  { unfold smask. apply map_ext. intros s. unfold f1, f2. lia. }
  rewrite Em. reflexivity.
Qed.
