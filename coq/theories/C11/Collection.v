(* C11 — the part of a TableCollection the editing operations must leave alone, as model
   state: time_units, top-level metadata and schema, reference sequence, the metadata schema of
   every table ([c_ctx], opaque byte strings) and the provenance table ([c_prov], one record per
   row).  The Python methods assign only to table columns and sequence_length and call
   self.provenances.add_row at most once, at the end, when record_provenance is true; nested
   calls pass record_provenance=False (keep_intervals -> delete_sites, delete_intervals ->
   keep_intervals, trim -> rtrim, ltrim, ltrim/rtrim -> delete_sites).  The C functions
   delete_older / split_edges (and decapitate built from them) never add provenance. *)
From Coq Require Import List ZArith Bool Lia.
From TskVerif Require Import Base.Common C11.Model.
Import ListNotations.
Open Scope Z_scope.

Record collection := mkC { c_tables : tables; c_ctx : list (list Z); c_prov : list (list Z) }.

(* run a table-level edit; afterwards add one provenance record if asked to *)
Definition lift (record : bool) (cmd : list Z) (op : tables -> res tables) (c : collection)
  : res collection :=
  do t' <- op (c_tables c);
  Ok (mkC t' (c_ctx c) (if record then c_prov c ++ [cmd] else c_prov c)).

Definition add_prov (record : bool) (cmd : list Z) (c : collection) : collection :=
  mkC (c_tables c) (c_ctx c) (if record then c_prov c ++ [cmd] else c_prov c).

Section Ops.
  Variable srt : tables -> tables.
  Variables cmd_keep cmd_delete cmd_sites cmd_ltrim cmd_rtrim cmd_trim : list Z.
  Variables emd gmd cf : bool.

  Definition delete_sites_coll ids record := lift record cmd_sites (delete_sites ids).
  Definition keep_intervals_coll ivs record := lift record cmd_keep (keep_intervals srt ivs).
  (* delete_intervals: keep_intervals(..., record_provenance=False), then its own record *)
  Definition delete_intervals_coll ivs record (c : collection) : res collection :=
    do neg <- negate_intervals 0 (t_L (c_tables c)) ivs;
    do c1 <- keep_intervals_coll neg false c;
    Ok (add_prov record cmd_delete c1).
  Definition ltrim_coll record := lift record cmd_ltrim (ltrim_gen emd gmd cf).
  Definition rtrim_coll record := lift record cmd_rtrim (rtrim_gen cf).
  (* trim: rtrim(record_provenance=False); ltrim(record_provenance=False); then its own record *)
  Definition trim_coll record (c : collection) : res collection :=
    do c1 <- rtrim_coll false c; do c2 <- ltrim_coll false c1; Ok (add_prov record cmd_trim c2).
  Definition delete_older_coll t := lift false [] (delete_older t).
  Definition split_edges_coll t flags pop md npop := lift false [] (split_edges srt t flags pop md npop).
  Definition decapitate_coll t flags pop md npop (c : collection) : res collection :=
    do c1 <- split_edges_coll t flags pop md npop c; delete_older_coll t c1.

  Lemma lift_spec record cmd op c c' :
    lift record cmd op c = Ok c' ->
    op (c_tables c) = Ok (c_tables c') /\ c_ctx c' = c_ctx c /\
    c_prov c' = c_prov c ++ (if record then [cmd] else []).
  Proof.
    unfold lift. destruct (op (c_tables c)) as [t'| | |]; simpl; intros H; try discriminate.
    inversion H; subst; simpl. repeat split; auto. destruct record; [reflexivity | symmetry; apply app_nil_r].
  Qed.

  Ltac open_bind H := match type of H with bind ?r _ = Ok _ =>
    let E := fresh "E" in destruct r eqn:E; simpl in H; try discriminate end.

  (* every editing operation: context untouched; exactly one provenance record iff asked;
     the tables are what the table-level model computes *)
  Theorem collection_ops_lemma :
    (forall ids record c c', delete_sites_coll ids record c = Ok c' ->
       delete_sites ids (c_tables c) = Ok (c_tables c') /\ c_ctx c' = c_ctx c /\
       c_prov c' = c_prov c ++ (if record then [cmd_sites] else [])) /\
    (forall ivs record c c', keep_intervals_coll ivs record c = Ok c' ->
       keep_intervals srt ivs (c_tables c) = Ok (c_tables c') /\ c_ctx c' = c_ctx c /\
       c_prov c' = c_prov c ++ (if record then [cmd_keep] else [])) /\
    (forall ivs record c c', delete_intervals_coll ivs record c = Ok c' ->
       delete_intervals srt ivs (c_tables c) = Ok (c_tables c') /\ c_ctx c' = c_ctx c /\
       c_prov c' = c_prov c ++ (if record then [cmd_delete] else [])) /\
    (forall record c c', ltrim_coll record c = Ok c' ->
       ltrim_gen emd gmd cf (c_tables c) = Ok (c_tables c') /\ c_ctx c' = c_ctx c /\
       c_prov c' = c_prov c ++ (if record then [cmd_ltrim] else [])) /\
    (forall record c c', rtrim_coll record c = Ok c' ->
       rtrim_gen cf (c_tables c) = Ok (c_tables c') /\ c_ctx c' = c_ctx c /\
       c_prov c' = c_prov c ++ (if record then [cmd_rtrim] else [])) /\
    (forall record c c', trim_coll record c = Ok c' ->
       trim_gen emd gmd cf (c_tables c) = Ok (c_tables c') /\ c_ctx c' = c_ctx c /\
       c_prov c' = c_prov c ++ (if record then [cmd_trim] else [])) /\
    (forall t c c', delete_older_coll t c = Ok c' ->
       delete_older t (c_tables c) = Ok (c_tables c') /\ c_ctx c' = c_ctx c /\ c_prov c' = c_prov c) /\
    (forall t flags pop md npop c c', decapitate_coll t flags pop md npop c = Ok c' ->
       decapitate srt t flags pop md npop (c_tables c) = Ok (c_tables c') /\ c_ctx c' = c_ctx c /\
       c_prov c' = c_prov c).
  Proof.
    repeat split; intros.
    all: try (apply lift_spec in H; tauto).
    - unfold delete_intervals_coll in H. open_bind H. open_bind H. inversion H; subst; clear H; simpl.
      apply lift_spec in E0 as (A & _ & _). unfold delete_intervals. rewrite E. simpl. exact A.
    - unfold delete_intervals_coll in H. open_bind H. open_bind H. inversion H; subst; clear H; simpl.
      apply lift_spec in E0 as (_ & A & _). exact A.
    - unfold delete_intervals_coll in H. open_bind H. open_bind H. inversion H; subst; clear H; simpl.
      apply lift_spec in E0 as (_ & _ & A). rewrite A, app_nil_r.
      destruct record; [reflexivity | symmetry; apply app_nil_r].
    - unfold trim_coll in H. open_bind H. open_bind H. inversion H; subst; clear H; simpl.
      apply lift_spec in E as (A & _ & _). apply lift_spec in E0 as (B & _ & _).
      unfold trim_gen. rewrite A. simpl. exact B.
    - unfold trim_coll in H. open_bind H. open_bind H. inversion H; subst; clear H; simpl.
      apply lift_spec in E as (_ & A & _). apply lift_spec in E0 as (_ & B & _). congruence.
    - unfold trim_coll in H. open_bind H. open_bind H. inversion H; subst; clear H; simpl.
      apply lift_spec in E as (_ & _ & A). apply lift_spec in E0 as (_ & _ & B).
      rewrite B, A, !app_nil_r. destruct record; [reflexivity | symmetry; apply app_nil_r].
    - apply lift_spec in H as (A & B & C). rewrite C. apply app_nil_r.
    - unfold decapitate_coll in H. open_bind H. apply lift_spec in E as (A & _ & _).
      apply lift_spec in H as (B & _ & _). unfold decapitate. rewrite A. simpl. exact B.
    - unfold decapitate_coll in H. open_bind H. apply lift_spec in E as (_ & A & _).
      apply lift_spec in H as (_ & B & _). congruence.
    - unfold decapitate_coll in H. open_bind H. apply lift_spec in E as (_ & _ & A).
      apply lift_spec in H as (_ & _ & B). rewrite B, A, !app_nil_r. reflexivity.
  Qed.
End Ops.

(* number of provenance rows an operation adds (what the harness observes) *)
Definition prov_rows_added (has_record_arg record : bool) : Z := if has_record_arg && record then 1 else 0.
