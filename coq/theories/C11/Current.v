(* C11 — the variant of ltrim / rtrim / trim the source contains right now, selected by the
   facts regenerated from /repo on every run (translator/facts_c11.py -> Gen/Generated.v).
   Kept apart from Model.v so that only the statements about "the current code" depend on
   Gen/Generated. *)
From TskVerif Require Import Base.Common Gen.Generated C11.Model.

Definition ltrim_current :=
  ltrim_gen C11_ltrim_passes_edge_metadata C11_ltrim_passes_migration_metadata C11_trim_check_uses_or.
Definition rtrim_current := rtrim_gen C11_trim_check_uses_or.
Definition trim_current :=
  trim_gen C11_ltrim_passes_edge_metadata C11_ltrim_passes_migration_metadata C11_trim_check_uses_or.
