(* C11 — specification vocabulary (definitions only; what the property text talks about).
   Nothing here mentions how the operations are implemented. *)
From Coq Require Import List ZArith Bool Lia Permutation Sorted.
From TskVerif Require Import Base.Common C11.Model.
Import ListNotations.
Open Scope Z_scope.

(* "at position x the edge table says: the parent of c is p (through an edge row carrying
   metadata md)" — the covering relation of DESIGN 3.3 *)
Definition edge_at (es : list edge) (x c p : Z) (md : list Z) : Prop :=
  exists e, In e es /\ e_left e <= x < e_right e /\ e_child e = c /\ e_parent e = p /\ e_md e = md.

Definition mig_at (gs : list migration) (x nd src dst tm : Z) (md : list Z) : Prop :=
  exists g, In g gs /\ g_left g <= x < g_right g /\ g_node g = nd /\ g_source g = src
            /\ g_dest g = dst /\ g_time g = tm /\ g_md g = md.

(* the parent *function* at x: first covering edge row of child u *)
Definition cov_child (x u : Z) (e : edge) : bool :=
  (e_left e <=? x) && (x <? e_right e) && (e_child e =? u).
Definition parent_at (es : list edge) (x u : Z) : option (Z * list Z) :=
  match find (cov_child x u) es with Some e => Some (e_parent e, e_md e) | None => None end.

(* at most one parent per child at x (true for every valid tree sequence) *)
Definition functional_at (es : list edge) (x : Z) : Prop :=
  forall u p1 m1 p2 m2, edge_at es x u p1 m1 -> edge_at es x u p2 m2 -> p1 = p2 /\ m1 = m2.

(* x lies in one of the half-open intervals *)
Definition inside (ivs : list (Z * Z)) (x : Z) : Prop := exists iv, In iv ivs /\ fst iv <= x < snd iv.

(* what sort() is assumed to do (libc qsort with tskit's comparators): permutes edges and
   migrations, touches nothing else; sites / mutations of an input that is already in
   tskit's sorted order stay where they are (cmp_site / cmp_mutation break ties by row id) *)
Definition sites_sorted (ss : list site) : Prop := StronglySorted (fun a b => s_pos a <= s_pos b) ss.
Definition mut_le (a b : mutation) : Prop :=
  m_site a <= m_site b /\
  (m_site a = m_site b -> match m_time a, m_time b with Some ta, Some tb => tb <= ta | _, _ => True end).
Definition muts_sorted (ms : list mutation) : Prop := StronglySorted mut_le ms.

Record sort_ok (srt : tables -> tables) : Prop := {
  srt_L : forall t, t_L (srt t) = t_L t;
  srt_nodes : forall t, t_nodes (srt t) = t_nodes t;
  srt_edges : forall t, Permutation (t_edges (srt t)) (t_edges t);
  srt_migs : forall t, Permutation (t_migs (srt t)) (t_migs t);
  srt_sites : forall t, sites_sorted (t_sites t) -> muts_sorted (t_muts t) ->
                        t_sites (srt t) = t_sites t /\ t_muts (srt t) = t_muts t
}.

(* rank of index i in a keep-mask: number of kept entries strictly before i *)
Fixpoint count_true (m : list bool) : Z :=
  match m with [] => 0 | b :: t => (if b then 1 else 0) + count_true t end.
Definition rank (mask : list bool) (i : Z) : Z := count_true (firstn (Z.to_nat i) mask).
Definition kept (mask : list bool) (i : Z) : bool :=
  if i <? 0 then false else nth (Z.to_nat i) mask false.

(* rows whose index (counted from i) satisfies f, in order *)
Fixpoint pick {A} (f : Z -> bool) (i : Z) (l : list A) : list A :=
  match l with
  | [] => []
  | x :: t => if f i then x :: pick f (i + 1) t else pick f (i + 1) t
  end.

(* a mutation's parent is NULL or an earlier... (any) mutation at the same site *)
Definition parents_same_site (ms : list mutation) : Prop :=
  forall m, In m ms -> m_parent m = -1 \/
    exists pm, nth_error ms (Z.to_nat (m_parent m)) = Some pm /\ 0 <= m_parent m /\ m_site pm = m_site m.

(* the row a retained mutation becomes when sites / mutations are renumbered by rank *)
Definition renumber (smask mmask : list bool) (m : mutation) : mutation :=
  mkM (rank smask (m_site m)) (m_node m)
      (if m_parent m =? -1 then -1 else rank mmask (m_parent m))
      (m_time m) (m_der m) (m_md m).

Definition site_mask_of_muts (smask : list bool) (ms : list mutation) : list bool :=
  map (fun m => kept smask (m_site m)) ms.

(* time of a mutation for the purposes of the time-cut operations *)
Definition node_time (ns : list node) (u : Z) : Z := nth (Z.to_nat u) (map n_time ns) 0.
Definition mtime (ns : list node) (m : mutation) : Z :=
  match m_time m with Some x => x | None => node_time ns (m_node m) end.

Definition nodes_in_range (ns : list node) (es : list edge) : Prop :=
  forall e, In e es -> 0 <= e_child e < zlen ns /\ 0 <= e_parent e < zlen ns.

(* --- time-cut operations ------------------------------------------------- *)
Definition set_parent (m : mutation) (p : Z) : mutation :=
  mkM (m_site m) (m_node m) p (m_time m) (m_der m) (m_md m).
Definition set_node (m : mutation) (u : Z) : mutation :=
  mkM (m_site m) u (m_parent m) (m_time m) (m_der m) (m_md m).

(* delete_older: "a mutation is removed iff its time is >= t"; parents renumbered by rank
   among the retained mutations, a removed parent becomes NULL *)
Definition young (ns : list node) (t : Z) (m : mutation) : bool := mtime ns m <? t.
Definition older_parent (ns : list node) (t : Z) (ms : list mutation) (m : mutation) : Z :=
  if m_parent m =? -1 then -1 else
  match nth_error ms (Z.to_nat (m_parent m)) with
  | Some pm => if young ns t pm then rank (map (young ns t) ms) (m_parent m) else -1
  | None => -1
  end.

(* split_edges: an edge intersects the cut-off time *)
Definition splits (ns : list node) (t : Z) (e : edge) : bool :=
  (node_time ns (e_child e) <? t) && (t <? node_time ns (e_parent e)).
Definition lower_half (e : edge) (u : Z) : edge := mkE (e_left e) (e_right e) u (e_child e) (e_md e).
Definition upper_half (e : edge) (u : Z) : edge := mkE (e_left e) (e_right e) (e_parent e) u (e_md e).
Definition split_rows (eu : edge * option Z) : list edge :=
  match snd eu with None => [fst eu] | Some u => [lower_half (fst eu) u; upper_half (fst eu) u] end.

Definition cut (ns : list node) (t c p : Z) : bool := (node_time ns c <? t) && (t <? node_time ns p).

(* fresh node ids for the intersecting edges, in table order, starting at [next] *)
Fixpoint assign_new (ns : list node) (t next : Z) (es : list edge) : list (option Z) :=
  match es with
  | [] => []
  | e :: r => if splits ns t e then Some next :: assign_new ns t (next + 1) r
              else None :: assign_new ns t next r
  end.
Definition num_splits (ns : list node) (t : Z) (es : list edge) : nat := length (filter (splits ns t) es).
