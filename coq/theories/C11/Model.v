(* C11 — model of the editing operations (executable definitions only).

   Modelled code (read line by line; numbers are /repo line ranges at the pinned commit):
     python/tskit/util.py    intervals_to_np_array 262-285, negate_intervals 288-302
     python/tskit/tables.py  keep_with_offset 326-340, delete_sites 3728-3788,
                             delete_intervals 3790-3815, keep_intervals 3817-3887,
                             _check_trim_conditions 3889-3902, ltrim 3904-3948,
                             rtrim 3950-3972, trim 3974-3992, delete_older 3994-4023
     python/tskit/trees.py   split_edges 7048-7098, decapitate 7100-7144
     c/tskit/trees.c         tsk_treeseq_split_edges 5035-5148
     c/tskit/tables.c        tsk_table_collection_delete_older 12592-12700

   Rows are records; ragged columns (metadata, ancestral/derived state) are [list Z] bytes.
   Genome coordinates and times are [Z] on a lattice chosen by the harness (only order and
   differences of lattice points are observed by this code).  An unknown mutation time is
   [None].  Individuals / populations / provenance are never touched by these operations
   and are not part of the model state (only the number of populations is an argument of
   split_edges).  Error classes: [Err 1] = Python ValueError, [Err 2] = LibraryError.

   Table sorting ([TableCollection.sort], [tsk_table_collection_sort]) is *not* modelled:
   it is a parameter [srt : tables -> tables]; the theorems assume [sort_ok srt]
   (Proofs files), the correspondence instantiates it with [canon_sort] and compares
   edge / migration tables as canonically ordered row lists. *)
From Coq Require Import List ZArith Bool Lia.
From TskVerif Require Import Base.Common.
Import ListNotations.
Open Scope Z_scope.

Record edge := mkE { e_left : Z; e_right : Z; e_parent : Z; e_child : Z; e_md : list Z }.
Record site := mkS { s_pos : Z; s_anc : list Z; s_md : list Z }.
Record mutation := mkM { m_site : Z; m_node : Z; m_parent : Z; m_time : option Z;
                         m_der : list Z; m_md : list Z }.
Record migration := mkG { g_left : Z; g_right : Z; g_node : Z; g_source : Z; g_dest : Z;
                          g_time : Z; g_md : list Z }.
Record node := mkN { n_flags : Z; n_time : Z; n_pop : Z; n_ind : Z; n_md : list Z }.
Record tables := mkT { t_L : Z; t_nodes : list node; t_edges : list edge; t_sites : list site;
                       t_muts : list mutation; t_migs : list migration }.

Fixpoint mapM {A B} (f : A -> res B) (l : list A) : res (list B) :=
  match l with
  | [] => Ok []
  | a :: t => do b <- f a; do bs <- mapM f t; Ok (b :: bs)
  end.

(* ------------------------------------------------------------------------- *)
(* numpy helpers                                                               *)

(* boolean-mask indexing  a[mask]  (and keep_with_offset for the ragged columns: the
   row-level effect of filtering data/offset by the mask is dropping whole rows) *)
Fixpoint filter_mask {A} (mask : list bool) (l : list A) : list A :=
  match mask, l with
  | b :: m', x :: l' => if b then x :: filter_mask m' l' else filter_mask m' l'
  | _, _ => []
  end.

(* np.cumsum(mask) - 1 *)
Fixpoint cumsum_m1 (acc : Z) (mask : list bool) : list Z :=
  match mask with
  | [] => []
  | b :: t => let acc' := if b then acc + 1 else acc in (acc' - 1) :: cumsum_m1 acc' t
  end.

(* np.where(np.logical_not(mask))[0] *)
Fixpoint where_false (i : Z) (mask : list bool) : list Z :=
  match mask with
  | [] => []
  | b :: t => if b then where_false (i + 1) t else i :: where_false (i + 1) t
  end.

(* keep = np.ones(n); keep[ids] = 0 *)
Fixpoint mask_from (i : Z) (n : nat) (ids : list Z) : list bool :=
  match n with
  | O => []
  | S n' => negb (existsb (Z.eqb i) ids) :: mask_from (i + 1) n' ids
  end.

Fixpoint minl (d : Z) (l : list Z) : Z := match l with [] => d | x :: t => Z.min x (minl x t) end.
Fixpoint maxl (d : Z) (l : list Z) : Z := match l with [] => d | x :: t => Z.max x (maxl x t) end.
(* np.min / np.max of a non-empty array *)
Definition np_min (l : list Z) : Z := match l with [] => 0 | x :: t => fold_left Z.min t x end.
Definition np_max (l : list Z) : Z := match l with [] => 0 | x :: t => fold_left Z.max t x end.

(* ------------------------------------------------------------------------- *)
(* util.intervals_to_np_array / negate_intervals                               *)

(* the checking loop of intervals_to_np_array; true = accepted *)
Fixpoint check_ivs (start end_ last : Z) (ivs : list (Z * Z)) : bool :=
  match ivs with
  | [] => true
  | (l, r) :: t =>
      if (l <? start) || (r >? end_) then false
      else if r <=? l then false
      else if l <? last then false
      else check_ivs start end_ r t
  end.
Definition intervals_ok (start end_ : Z) (ivs : list (Z * Z)) : bool := check_ivs start end_ start ivs.

Fixpoint negate_loop (last end_ : Z) (ivs : list (Z * Z)) : list (Z * Z) :=
  match ivs with
  | [] => if last =? end_ then [] else [(last, end_)]
  | (l, r) :: t => if l =? last then negate_loop r end_ t else (last, l) :: negate_loop r end_ t
  end.
Definition negate_intervals (start end_ : Z) (ivs : list (Z * Z)) : res (list (Z * Z)) :=
  if intervals_ok start end_ ivs then Ok (negate_loop start end_ ivs) else Err 1.

Definition in_iv (x : Z) (iv : Z * Z) : bool := (fst iv <=? x) && (x <? snd iv).
Definition in_ivs (ivs : list (Z * Z)) (x : Z) : bool := existsb (in_iv x) ivs.

(* ------------------------------------------------------------------------- *)
(* TableCollection.delete_sites                                                *)

Definition remap_mut (site_map mut_map : list Z) (m : mutation) : res mutation :=
  do s <- get site_map (m_site m);
  (* mutation_map = append(cumsum - 1, -1); index -1 is the appended entry *)
  do p <- (if m_parent m =? -1 then Ok (-1) else get mut_map (m_parent m));
  Ok (mkM s (m_node m) p (m_time m) (m_der m) (m_md m)).

Definition delete_sites_mask (keep : list bool) (t : tables) : res tables :=
  let site_map := cumsum_m1 0 keep in
  do keep_mut <- mapM (fun m => get keep (m_site m)) (t_muts t);       (* keep_sites[mutations.site] *)
  let mut_map := cumsum_m1 0 keep_mut ++ [-1] in
  do muts' <- mapM (remap_mut site_map mut_map) (filter_mask keep_mut (t_muts t));
  Ok (mkT (t_L t) (t_nodes t) (t_edges t) (filter_mask keep (t_sites t)) muts' (t_migs t)).

Definition delete_sites (ids : list Z) (t : tables) : res tables :=
  let ns := zlen (t_sites t) in
  if existsb (fun i => (i <? 0) || (i >=? ns)) ids then Err 1
  else delete_sites_mask (mask_from 0 (length (t_sites t)) ids) t.

(* ------------------------------------------------------------------------- *)
(* TableCollection.keep_intervals / delete_intervals                           *)

Definition edge_overlaps (s e : Z) (ed : edge) : bool :=
  negb ((e_right ed <=? s) || (e_left ed >=? e)).
Definition clip_edge (s e : Z) (ed : edge) : edge :=
  mkE (Z.max s (e_left ed)) (Z.min e (e_right ed)) (e_parent ed) (e_child ed) (e_md ed).
Definition mig_overlaps (s e : Z) (g : migration) : bool :=
  negb ((g_right g <=? s) || (g_left g >=? e)).
Definition clip_mig (s e : Z) (g : migration) : migration :=
  mkG (Z.max s (g_left g)) (Z.min e (g_right g)) (g_node g) (g_source g) (g_dest g) (g_time g) (g_md g).

Definition clip_edges (ivs : list (Z * Z)) (es : list edge) : list edge :=
  flat_map (fun iv => map (clip_edge (fst iv) (snd iv)) (filter (edge_overlaps (fst iv) (snd iv)) es)) ivs.
Definition clip_migs (ivs : list (Z * Z)) (gs : list migration) : list migration :=
  flat_map (fun iv => map (clip_mig (fst iv) (snd iv)) (filter (mig_overlaps (fst iv) (snd iv)) gs)) ivs.

Definition keep_intervals_presort (ivs : list (Z * Z)) (t : tables) : res tables :=
  if negb (intervals_ok 0 (t_L t) ivs) then Err 1 else
  let keep_sites := map (fun st => in_ivs ivs (s_pos st)) (t_sites t) in
  delete_sites (where_false 0 keep_sites)
    (mkT (t_L t) (t_nodes t) (clip_edges ivs (t_edges t)) (t_sites t) (t_muts t)
         (clip_migs ivs (t_migs t))).

Definition keep_intervals (srt : tables -> tables) (ivs : list (Z * Z)) (t : tables) : res tables :=
  do t' <- keep_intervals_presort ivs t; Ok (srt t').

Definition delete_intervals (srt : tables -> tables) (ivs : list (Z * Z)) (t : tables) : res tables :=
  do neg <- negate_intervals 0 (t_L t) ivs; keep_intervals srt neg t.

(* ------------------------------------------------------------------------- *)
(* ltrim / rtrim / trim.  Three switches select the code as it exists (false) or the
   repaired variant (true):
     emd       ltrim passes the edge metadata columns to self.edges.set_columns (F7)
     gmd       ltrim passes the migration metadata columns to self.migrations.set_columns (F7)
     cond_fix  _check_trim_conditions joins its tests with `or` as its message says (F14)
   Which variant the source contains is re-extracted on every run (translator/facts_c11.py
   -> Gen/Generated.v: C11_ltrim_passes_edge_metadata, C11_ltrim_passes_migration_metadata,
   C11_trim_check_uses_or; C11/Current.v defines ltrim_current / rtrim_current / trim_current
   from them).  The correspondence entry points ltrim_c / rtrim_c / trim_c take the three
   switches as arguments: the harness extracts them from the same source with the same
   extractor, so the case files do not depend on Gen/Generated.vo. *)

Definition check_trim_conditions (cond_fix : bool) (t : tables) : bool :=   (* true = raises ValueError *)
  let bad_mig :=
    match t_migs t with
    | [] => false
    | _ :: _ =>
        match t_edges t with
        | [] => true                                    (* np.min of an empty array: ValueError *)
        | _ :: _ =>
            let a := np_min (map g_left (t_migs t)) <? np_min (map e_left (t_edges t)) in
            let b := np_max (map g_right (t_migs t)) >? np_max (map e_right (t_edges t)) in
            if cond_fix then a || b else a && b
        end
    end in
  bad_mig || match t_edges t with [] => true | _ => false end.

Definition shift_edge (keep_md : bool) (d : Z) (e : edge) : edge :=
  mkE (e_left e - d) (e_right e - d) (e_parent e) (e_child e) (if keep_md then e_md e else []).
Definition shift_mig (keep_md : bool) (d : Z) (g : migration) : migration :=
  mkG (g_left g - d) (g_right g - d) (g_node g) (g_source g) (g_dest g) (g_time g)
      (if keep_md then g_md g else []).
Definition shift_site (d : Z) (s : site) : site := mkS (s_pos s - d) (s_anc s) (s_md s).

Definition ltrim_gen (emd gmd cond_fix : bool) (t : tables) : res tables :=
  if check_trim_conditions cond_fix t then Err 1 else
  let leftmost := np_min (map e_left (t_edges t)) in
  (* np.where(position < leftmost) *)
  do t1 <- delete_sites (where_false 0 (map (fun s => negb (s_pos s <? leftmost)) (t_sites t))) t;
  Ok (mkT (t_L t1 - leftmost) (t_nodes t1) (map (shift_edge emd leftmost) (t_edges t1))
          (map (shift_site leftmost) (t_sites t1)) (t_muts t1)
          (map (shift_mig gmd leftmost) (t_migs t1))).

Definition rtrim_gen (cond_fix : bool) (t : tables) : res tables :=
  if check_trim_conditions cond_fix t then Err 1 else
  let rightmost := np_max (map e_right (t_edges t)) in
  do t1 <- delete_sites (where_false 0 (map (fun s => negb (s_pos s >=? rightmost)) (t_sites t))) t;
  Ok (mkT rightmost (t_nodes t1) (t_edges t1) (t_sites t1) (t_muts t1) (t_migs t1)).

Definition trim_gen (emd gmd cond_fix : bool) (t : tables) : res tables :=
  do t1 <- rtrim_gen cond_fix t; ltrim_gen emd gmd cond_fix t1.

(* the code as it exists at the pinned commit *)
Definition ltrim := ltrim_gen false false false.
Definition rtrim := rtrim_gen false.
Definition trim := trim_gen false false false.
(* the repaired variant (the one [trim_shift] is proved for) *)
Definition ltrim_repaired := ltrim_gen true true true.
Definition rtrim_repaired := rtrim_gen true.
Definition trim_repaired := trim_gen true true true.

(* ------------------------------------------------------------------------- *)
(* tsk_table_collection_delete_older                                           *)

Definition mut_time (ntime : list Z) (m : mutation) : res Z :=
  match m_time m with Some x => Ok x | None => get ntime (m_node m) end.

(* second loop: returns the retained rows (parents not yet remapped) and mutation_map *)
Fixpoint older_muts (t : Z) (ntime : list Z) (next : Z) (ms : list mutation)
  : res (list mutation * list Z) :=
  match ms with
  | [] => Ok ([], [])
  | m :: rest =>
      do mt <- mut_time ntime m;
      if mt <? t then
        do '(out, mp) <- older_muts t ntime (next + 1) rest; Ok (m :: out, next :: mp)
      else
        do '(out, mp) <- older_muts t ntime next rest; Ok (out, (-1) :: mp)
  end.

Definition delete_older (t : Z) (tb : tables) : res tables :=
  let ntime := map n_time (t_nodes tb) in
  do keep_e <- mapM (fun e => do tp <- get ntime (e_parent e); Ok (tp <=? t)) (t_edges tb);
  do '(ms, mp) <- older_muts t ntime 0 (t_muts tb);
  do ms' <- mapM (fun m => if m_parent m =? -1 then Ok m else
                           do p <- get mp (m_parent m);
                           Ok (mkM (m_site m) (m_node m) p (m_time m) (m_der m) (m_md m))) ms;
  Ok (mkT (t_L tb) (t_nodes tb) (filter_mask keep_e (t_edges tb)) (t_sites tb) ms'
          (filter (fun g => g_time g <? t) (t_migs tb))).

(* ------------------------------------------------------------------------- *)
(* tsk_treeseq_split_edges (through TreeSequence.split_edges)                  *)

Fixpoint split_loop (t : Z) (ntime : list Z) (next : Z) (es : list edge)
  : res (list edge * list (option Z)) :=
  match es with
  | [] => Ok ([], [])
  | e :: rest =>
      do tc <- get ntime (e_child e);
      do tp <- get ntime (e_parent e);
      if (tc <? t) && (t <? tp) then
        do '(out, sp) <- split_loop t ntime (next + 1) rest;
        Ok (mkE (e_left e) (e_right e) next (e_child e) (e_md e)
              :: mkE (e_left e) (e_right e) (e_parent e) next (e_md e) :: out, Some next :: sp)
      else
        do '(out, sp) <- split_loop t ntime next rest; Ok (e :: out, None :: sp)
  end.

Fixpoint find_index {A} (f : A -> bool) (l : list A) : option nat :=
  match l with
  | [] => None
  | x :: t => if f x then Some O else match find_index f t with Some k => Some (S k) | None => None end
  end.

(* tsk_mutation_t.edge as computed by the tree sequence: the edge above the mutation's
   node in the tree covering the site (definition-level; tied by the correspondence) *)
Definition edge_above (es : list edge) (pos u : Z) : option nat :=
  find_index (fun e => (e_child e =? u) && (e_left e <=? pos) && (pos <? e_right e)) es.

Definition split_mut (t : Z) (ntime : list Z) (es : list edge) (sites : list site)
           (sp : list (option Z)) (m : mutation) : res mutation :=
  do st <- get sites (m_site m);
  do mt <- mut_time ntime m;
  let mapped := match edge_above es (s_pos st) (m_node m) with
                | Some j => nth j sp None
                | None => None
                end in
  match mapped with
  | Some u => if mt >=? t then Ok (mkM (m_site m) u (m_parent m) (m_time m) (m_der m) (m_md m)) else Ok m
  | None => Ok m
  end.

Fixpoint count_some {A} (l : list (option A)) : nat :=
  match l with [] => O | Some _ :: t => S (count_some t) | None :: t => count_some t end.

(* tsk_table_collection_sort(tables, &sort_start, 0) with sort_start.sites / .mutations set to
   the row counts: only the edge table is sorted (migrations are empty here) *)
Definition sort_edges_only (srt : tables -> tables) (tb : tables) : tables :=
  mkT (t_L tb) (t_nodes tb) (t_edges (srt tb)) (t_sites tb) (t_muts tb) (t_migs tb).

Definition split_edges (srt : tables -> tables) (t flags population : Z) (md : list Z) (npop : Z)
           (tb : tables) : res tables :=
  if population <? -1 then Err 1 else               (* _tskitmodule id converter *)
  if negb (zlen (t_migs tb) =? 0) then Err 2 else
  if population >=? npop then Err 2 else
  let ntime := map n_time (t_nodes tb) in
  do '(es', sp) <- split_loop t ntime (zlen (t_nodes tb)) (t_edges tb);
  do ms' <- mapM (split_mut t ntime (t_edges tb) (t_sites tb) sp) (t_muts tb);
  Ok (sort_edges_only srt
        (mkT (t_L tb) (t_nodes tb ++ repeat (mkN flags t population (-1) md) (count_some sp))
             es' (t_sites tb) ms' (t_migs tb))).

(* TreeSequence.decapitate *)
Definition decapitate (srt : tables -> tables) (t flags population : Z) (md : list Z) (npop : Z)
           (tb : tables) : res tables :=
  do t1 <- split_edges srt t flags population md npop tb; delete_older t t1.

(* ------------------------------------------------------------------------- *)
(* canonical row order for the correspondence                                  *)

Fixpoint zlist_cmp (a b : list Z) : comparison :=
  match a, b with
  | [], [] => Eq
  | [], _ => Lt
  | _, [] => Gt
  | x :: a', y :: b' => match x ?= y with Eq => zlist_cmp a' b' | c => c end
  end.
Definition edge_key (e : edge) : list Z := [e_left e; e_right e; e_parent e; e_child e] ++ e_md e.
Definition mig_key (g : migration) : list Z :=
  [g_left g; g_right g; g_node g; g_source g; g_dest g; g_time g] ++ g_md g.

Fixpoint insert_by {A} (key : A -> list Z) (x : A) (l : list A) : list A :=
  match l with
  | [] => [x]
  | y :: t => match zlist_cmp (key x) (key y) with Gt => y :: insert_by key x t | _ => x :: l end
  end.
Definition sort_by {A} (key : A -> list Z) (l : list A) : list A := fold_right (insert_by key) [] l.

Definition canon_sort (t : tables) : tables :=
  mkT (t_L t) (t_nodes t) (sort_by edge_key (t_edges t)) (t_sites t) (t_muts t)
      (sort_by mig_key (t_migs t)).
Definition canon_res (r : res tables) : res tables :=
  match r with Ok t => Ok (canon_sort t) | x => x end.

Definition edge_eqb (a b : edge) : bool :=
  (e_left a =? e_left b) && (e_right a =? e_right b) && (e_parent a =? e_parent b)
  && (e_child a =? e_child b) && zlist_eqb (e_md a) (e_md b).
Definition site_eqb (a b : site) : bool :=
  (s_pos a =? s_pos b) && zlist_eqb (s_anc a) (s_anc b) && zlist_eqb (s_md a) (s_md b).
Definition mut_eqb (a b : mutation) : bool :=
  (m_site a =? m_site b) && (m_node a =? m_node b) && (m_parent a =? m_parent b)
  && opt_eqb Z.eqb (m_time a) (m_time b) && zlist_eqb (m_der a) (m_der b) && zlist_eqb (m_md a) (m_md b).
Definition mig_eqb (a b : migration) : bool :=
  (g_left a =? g_left b) && (g_right a =? g_right b) && (g_node a =? g_node b)
  && (g_source a =? g_source b) && (g_dest a =? g_dest b) && (g_time a =? g_time b)
  && zlist_eqb (g_md a) (g_md b).
Definition node_eqb (a b : node) : bool :=
  (n_flags a =? n_flags b) && (n_time a =? n_time b) && (n_pop a =? n_pop b)
  && (n_ind a =? n_ind b) && zlist_eqb (n_md a) (n_md b).
Definition tables_eqb (a b : tables) : bool :=
  (t_L a =? t_L b) && list_eqb node_eqb (t_nodes a) (t_nodes b)
  && list_eqb edge_eqb (t_edges a) (t_edges b) && list_eqb site_eqb (t_sites a) (t_sites b)
  && list_eqb mut_eqb (t_muts a) (t_muts b) && list_eqb mig_eqb (t_migs a) (t_migs b).
Definition res_tables_eqb (a b : res tables) : bool :=
  match a, b with
  | Ok x, Ok y => tables_eqb x y
  | Err c, Err d => c =? d
  | _, _ => false
  end.

(* entry points used by harness/props/c11.py *)
Definition keep_intervals_c := keep_intervals canon_sort.
Definition delete_intervals_c := delete_intervals canon_sort.
Definition delete_sites_c := delete_sites.
Definition ltrim_c := ltrim_gen.
Definition rtrim_c := rtrim_gen.
Definition trim_c := trim_gen.
Definition delete_older_c := delete_older.
Definition split_edges_c := split_edges canon_sort.
Definition decapitate_c := decapitate canon_sort.
