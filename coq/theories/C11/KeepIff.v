(* C11 — keep_intervals succeeds EXACTLY on well-formed interval lists: for referentially intact
   tables the call returns a table collection iff the intervals are sorted, disjoint and inside
   [0, L), and otherwise the error is the interval error.  Corollary of keep_intervals_total and
   keep_intervals_rejects. *)
From Coq Require Import List ZArith Bool.
From TskVerif Require Import Base.Common C11.Model C11.Spec C11.TotalProofs.
Import ListNotations.
Open Scope Z_scope.

Lemma keep_intervals_ok_iff_proof srt ivs t : refs_ok t ->
  ((exists t', keep_intervals srt ivs t = Ok t') <-> intervals_ok 0 (t_L t) ivs = true).
Proof.
  intros R. split.
  - intros (t' & E). destruct (intervals_ok 0 (t_L t) ivs) eqn:I; [reflexivity|].
    rewrite (keep_intervals_rejects srt ivs t I) in E. discriminate E.
  - intros I. exact (keep_intervals_total srt ivs t I R).
Qed.
