(* C11 — remaining glue: the concrete canonical sort satisfies the assumptions made about
   sort(), negate_intervals as a complement, and non-vacuity examples for every theorem of
   Props/C11.v. *)
From Coq Require Import List ZArith Bool Lia Permutation Sorted ZifyBool.
From TskVerif Require Import Base.Common C11.Model C11.Spec C11.IntervalProofs C11.SitesProofs
     C11.KeepProofs C11.TrimProofs C11.TimeProofs.
Import ListNotations.
Open Scope Z_scope.

(* ------------------------------------------------------------------------- *)
(* the sort used by the correspondence is one of the sorts the theorems allow  *)

Lemma insert_by_perm {A} (key : A -> list Z) x l : Permutation (insert_by key x l) (x :: l).
Proof.
  induction l as [|y l IH]; simpl; [apply Permutation_refl|].
  destruct (zlist_cmp (key x) (key y)); try apply Permutation_refl.
  eapply Permutation_trans; [apply perm_skip, IH | apply perm_swap].
Qed.

Lemma sort_by_perm {A} (key : A -> list Z) l : Permutation (sort_by key l) l.
Proof.
  induction l as [|x l IH]; simpl; [constructor|].
  eapply Permutation_trans; [apply insert_by_perm | apply perm_skip, IH].
Qed.

Lemma canon_sort_ok_lemma : sort_ok canon_sort.
Proof.
  constructor; intros; simpl; try reflexivity; try apply sort_by_perm. split; reflexivity.
Qed.

(* ------------------------------------------------------------------------- *)
(* negate_intervals                                                            *)

Theorem negate_intervals_complement_lemma st en ivs neg :
  st <= en -> negate_intervals st en ivs = Ok neg ->
  intervals_ok st en neg = true /\
  forall x, st <= x < en -> (inside neg x <-> ~ inside ivs x).
Proof.
  unfold negate_intervals. intros Hle H. destruct (intervals_ok st en ivs) eqn:E; [|discriminate].
  inversion H; subst; clear H. split.
  - apply (negate_loop_ok st en st ivs E); lia.
  - intros x Hx. rewrite <- !in_ivs_inside. rewrite (negate_loop_spec st en st ivs x E) by lia.
    destruct (in_ivs ivs x); simpl; split; congruence.
Qed.

Lemma negate_intervals_err st en ivs : intervals_ok st en ivs = false -> negate_intervals st en ivs = Err 1.
Proof. unfold negate_intervals. intros ->. reflexivity. Qed.

Lemma split_edges_fresh_nodes_lemma ns t es next :
  (forall e u, In (e, u) (combine es (assign_new ns t next es)) ->
     In e es /\ match u with
                | None => splits ns t e = false
                | Some v => splits ns t e = true /\ next <= v < next + Z.of_nat (num_splits ns t es)
                end) /\
  (forall j1 j2 v, nth_error (assign_new ns t next es) j1 = Some (Some v) ->
                   nth_error (assign_new ns t next es) j2 = Some (Some v) -> j1 = j2).
Proof. split; [exact (assign_new_pairs ns t es next) | exact (assign_new_inj ns t es next)]. Qed.

(* ------------------------------------------------------------------------- *)
(* a renumbered site reference still names the same site row                   *)

Lemma renumbered_site_row smask mmask (sites : list site) m :
  length smask = length sites -> kept smask (m_site m) = true ->
  nth_error (filter_mask smask sites) (Z.to_nat (m_site (renumber smask mmask m)))
  = nth_error sites (Z.to_nat (m_site m)).
Proof. intros. simpl. apply nth_error_filter_mask_rank; assumption. Qed.

(* ------------------------------------------------------------------------- *)
(* non-vacuity: concrete inputs meeting the hypotheses of the theorems          *)

Definition ex_nodes : list node :=
  [mkN 1 0 (-1) (-1) [1]; mkN 1 0 (-1) (-1) []; mkN 0 2 (-1) (-1) [3]; mkN 0 4 (-1) (-1) []].
Definition ex_tables : tables :=
  mkT 10 ex_nodes
      [mkE 0 6 2 0 [10]; mkE 0 10 2 1 [11]; mkE 6 10 3 0 [12]; mkE 2 8 3 2 []]
      [mkS 1 [65] [20]; mkS 5 [67] [21]; mkS 7 [71] []]
      [mkM 0 2 (-1) (Some 3) [84] [30]; mkM 1 2 (-1) None [84] []; mkM 1 0 1 None [65] [31]; mkM 2 0 (-1) (Some 1) [67] []]
      [mkG 0 4 0 0 1 1 [40]].

Example ex_sorted : sites_sorted (t_sites ex_tables) /\ muts_sorted (t_muts ex_tables)
                    /\ parents_same_site (t_muts ex_tables).
Proof.
  split; [|split].
  - unfold sites_sorted; simpl. repeat (constructor; [|repeat (constructor; try (simpl; lia))]). constructor.
  - unfold muts_sorted; simpl.
    repeat (constructor; [|repeat (constructor; try (unfold mut_le; simpl; split; [lia | intros; try lia; exact I]))]).
    constructor.
  - intros m [<-|[<-|[<-|[<-|[]]]]]; simpl; try (left; reflexivity).
    right. eexists. split; [reflexivity|]. split; [lia|reflexivity].
Qed.

Example ex_keep :
  keep_intervals canon_sort [(1, 3); (5, 8)] ex_tables
  = Ok (mkT 10 ex_nodes
            [mkE 1 3 2 0 [10]; mkE 1 3 2 1 [11]; mkE 2 3 3 2 []; mkE 5 6 2 0 [10]; mkE 5 8 2 1 [11];
             mkE 5 8 3 2 []; mkE 6 8 3 0 [12]]
            [mkS 1 [65] [20]; mkS 5 [67] [21]; mkS 7 [71] []]
            (t_muts ex_tables)
            [mkG 1 3 0 0 1 1 [40]]).
Proof. vm_compute. reflexivity. Qed.

Example ex_keep2 :
  keep_intervals canon_sort [(4, 6)] ex_tables
  = Ok (mkT 10 ex_nodes
            [mkE 4 6 2 0 [10]; mkE 4 6 2 1 [11]; mkE 4 6 3 2 []]
            [mkS 5 [67] [21]]
            [mkM 0 2 (-1) None [84] []; mkM 0 0 0 None [65] [31]]
            []).
Proof. vm_compute. reflexivity. Qed.

Example ex_inside : inside [(1, 3); (5, 8)] 6 /\ ~ inside [(1, 3); (5, 8)] 4.
Proof.
  split.
  - exists (5, 8). simpl. split; [right; left; reflexivity | lia].
  - intros (iv & [<-|[<-|[]]] & H); simpl in H; lia.
Qed.

Example ex_delete_intervals :
  delete_intervals canon_sort [(1, 3); (5, 8)] ex_tables
  = keep_intervals canon_sort [(0, 1); (3, 5); (8, 10)] ex_tables.
Proof. vm_compute. reflexivity. Qed.

Example ex_negate : negate_intervals 0 10 [(0, 2); (2, 3); (7, 10)] = Ok [(3, 7)].
Proof. vm_compute. reflexivity. Qed.

Example ex_delete_sites :
  delete_sites [1; 1] ex_tables
  = Ok (mkT 10 ex_nodes (t_edges ex_tables) [mkS 1 [65] [20]; mkS 7 [71] []]
            [mkM 0 2 (-1) (Some 3) [84] [30]; mkM 1 0 (-1) (Some 1) [67] []] (t_migs ex_tables)).
Proof. vm_compute. reflexivity. Qed.

Example ex_delete_older :
  delete_older 2 ex_tables
  = Ok (mkT 10 ex_nodes [mkE 0 6 2 0 [10]; mkE 0 10 2 1 [11]] (t_sites ex_tables)
            [mkM 1 0 (-1) None [65] [31]; mkM 2 0 (-1) (Some 1) [67] []] [mkG 0 4 0 0 1 1 [40]]).
Proof. vm_compute. reflexivity. Qed.

Definition ex_tables_nomig : tables :=
  mkT (t_L ex_tables) (t_nodes ex_tables) (t_edges ex_tables) (t_sites ex_tables) (t_muts ex_tables) [].

Example ex_split :
  exists tb', split_edges canon_sort 1 0 (-1) [9] 0 ex_tables_nomig = Ok tb'
    /\ t_nodes tb' = ex_nodes ++ repeat (mkN 0 1 (-1) (-1) [9]) 3
    /\ In (mkE 6 10 6 0 [12]) (t_edges tb') /\ In (mkE 6 10 3 6 [12]) (t_edges tb')
    /\ In (mkE 2 8 3 2 []) (t_edges tb')
    (* the mutation at time 1 above node 0 (site at 7) moves onto the new node 6 *)
    /\ nth_error (t_muts tb') 3 = Some (mkM 2 6 (-1) (Some 1) [67] []).
Proof.
  eexists. split; [vm_compute; reflexivity|]. split; [reflexivity|].
  split; [simpl; tauto|]. split; [simpl; tauto|]. split; [simpl; tauto|]. reflexivity.
Qed.

Example ex_decapitate :
  decapitate canon_sort 3 0 (-1) [] 0 ex_tables_nomig
  = Ok (mkT 10 (ex_nodes ++ [mkN 0 3 (-1) (-1) []; mkN 0 3 (-1) (-1) []])
            [mkE 0 6 2 0 [10]; mkE 0 10 2 1 [11]; mkE 2 8 5 2 []; mkE 6 10 4 0 [12]]
            (t_sites ex_tables)
            [mkM 1 2 (-1) None [84] []; mkM 1 0 0 None [65] [31]; mkM 2 0 (-1) (Some 1) [67] []]
            []).
Proof. vm_compute. reflexivity. Qed.

Example ex_rtrim :
  rtrim (mkT 12 ex_nodes (t_edges ex_tables) (t_sites ex_tables ++ [mkS 11 [65] []]) (t_muts ex_tables) (t_migs ex_tables))
  = Ok ex_tables.
Proof. vm_compute. reflexivity. Qed.
