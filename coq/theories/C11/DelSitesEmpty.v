From Coq Require Import List ZArith Bool Lia ZifyBool.
From TskVerif Require Import Base.Common C11.Model C11.Spec C11.SitesProofs C11.TotalProofs.
Import ListNotations.
Open Scope Z_scope.

Lemma mask_from_nil i n : mask_from i n [] = repeat true n.
Proof. revert i. induction n as [|n IH]; intros i; simpl; [reflexivity|]. f_equal. apply IH. Qed.

Lemma filter_mask_all_true {A} (l : list A) : filter_mask (repeat true (length l)) l = l.
Proof. induction l as [|a l IH]; simpl; [reflexivity|]. f_equal. exact IH. Qed.

Lemma count_true_repeat n : count_true (repeat true n) = Z.of_nat n.
Proof. induction n as [|n IH]; [reflexivity|]. change (repeat true (S n)) with (true :: repeat true n). cbn [count_true]. rewrite IH. lia. Qed.

Lemma rank_all_true n j : 0 <= j <= Z.of_nat n -> rank (repeat true n) j = j.
Proof.
  intros H. unfold rank. rewrite firstn_repeat || idtac.
  replace (firstn (Z.to_nat j) (repeat true n)) with (repeat true (Z.to_nat j)).
  - rewrite count_true_repeat. lia.
  - assert (G : forall k m, (k <= m)%nat -> firstn k (repeat true m) = repeat true k).
    { induction k as [|k IH]; intros [|m] Hk; simpl; try reflexivity; try lia. f_equal. apply IH. lia. }
    symmetry. apply G. lia.
Qed.

Lemma get_all_true n i b : get (repeat true n) i = Ok b -> b = true.
Proof.
  intros H. apply get_nth_error in H as [_ H]. apply nth_error_In in H. apply repeat_spec in H. exact H.
Qed.

Theorem delete_sites_nil_lemma t : refs_ok t -> delete_sites [] t = Ok t.
Proof.
  intros [Rs Rp]. unfold delete_sites. simpl existsb. cbv iota. rewrite mask_from_nil.
  unfold delete_sites_mask.
  destruct (mapM_total (fun m => get (repeat true (length (t_sites t))) (m_site m)) (t_muts t)) as [km Hkm].
  { intros m Hm. apply get_total. unfold zlen. rewrite repeat_length. apply Rs, Hm. }
  rewrite Hkm. simpl bind.
  assert (Ekm : km = repeat true (length (t_muts t))).
  { rewrite (mapM_ok_map _ (fun _ => true) _ _ Hkm).
    - clear. induction (t_muts t); simpl; congruence.
    - intros a b _ Hb. eapply get_all_true; eauto. }
  subst km. rewrite filter_mask_all_true.
  rewrite (mapM_map _ (fun m => m)).
  - simpl bind. rewrite map_id, filter_mask_all_true. destruct t; reflexivity.
  - intros m Hm. unfold remap_mut.
    destruct (get_total (cumsum_m1 0 (repeat true (length (t_sites t)))) (m_site m)) as [s Hs].
    { unfold zlen. rewrite cumsum_length, repeat_length. apply Rs, Hm. }
    rewrite Hs. simpl bind. pose proof (Rs m Hm) as R1. unfold zlen in R1.
    apply get_cumsum in Hs. rewrite rank_all_true in Hs by lia.
    destruct (m_parent m =? -1) eqn:E.
    + simpl bind. destruct m; simpl in *. f_equal. f_equal; lia.
    + pose proof (Rp m Hm) as R2. unfold zlen in R2.
      destruct (get_total (cumsum_m1 0 (repeat true (length (t_muts t))) ++ [-1]) (m_parent m)) as [p Hp].
      { unfold zlen. rewrite app_length, cumsum_length, repeat_length. simpl. lia. }
      rewrite Hp. simpl bind. rewrite get_app_l in Hp by (unfold zlen; rewrite cumsum_length, repeat_length; lia).
      apply get_cumsum in Hp. rewrite rank_all_true in Hp by lia.
      destruct m; simpl in *. f_equal. f_equal; lia.
Qed.
