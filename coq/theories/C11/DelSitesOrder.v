(* C11 — delete_sites depends on the id list only through its SET of elements: repeats and order
   are irrelevant (docstring: "The site IDs do not need to be in any particular order, and
   specifying the same ID multiple times does not have any effect"), for results and refusals. *)
From Coq Require Import List ZArith Bool Lia.
From TskVerif Require Import Base.Common C11.Model.
Import ListNotations.
Open Scope Z_scope.

Lemma existsb_same_elements {A} (f : A -> bool) (l l' : list A) :
  (forall a, In a l <-> In a l') -> existsb f l = existsb f l'.
Proof.
  intros H. destruct (existsb f l) eqn:E; symmetry.
  - apply existsb_exists in E as (a & Ha & Fa). apply existsb_exists. exists a. split; [apply H, Ha | exact Fa].
  - destruct (existsb f l') eqn:E'; [|reflexivity].
    apply existsb_exists in E' as (a & Ha & Fa).
    assert (existsb f l = true) by (apply existsb_exists; exists a; split; [apply H, Ha | exact Fa]). congruence.
Qed.

Lemma mask_from_same_elements i n ids ids' :
  (forall a, In a ids <-> In a ids') -> mask_from i n ids = mask_from i n ids'.
Proof.
  intros H. revert i. induction n as [|n IH]; intros i; simpl; [reflexivity|].
  rewrite (existsb_same_elements (Z.eqb i) ids ids' H). f_equal. apply IH.
Qed.

Theorem delete_sites_same_elements_lemma ids ids' t :
  (forall a, In a ids <-> In a ids') -> delete_sites ids t = delete_sites ids' t.
Proof.
  intros H. unfold delete_sites.
  rewrite (existsb_same_elements _ ids ids' H). rewrite (mask_from_same_elements 0 _ ids ids' H). reflexivity.
Qed.

(* in particular: any permutation, any repetition *)
Corollary delete_sites_repeat_lemma ids t : delete_sites (ids ++ ids) t = delete_sites ids t.
Proof. apply delete_sites_same_elements_lemma. intros a. rewrite in_app_iff. tauto. Qed.

Corollary delete_sites_rev_lemma ids t : delete_sites (rev ids) t = delete_sites ids t.
Proof. apply delete_sites_same_elements_lemma. intros a. symmetry. apply in_rev. Qed.

Example delete_sites_order_example :
  delete_sites [1; 0; 1; 1] (mkT 10 [] [] [mkS 1 [65] [1]; mkS 3 [67] []; mkS 5 [71] [2]] [mkM 2 0 (-1) None [84] []] [])
  = delete_sites [0; 1] (mkT 10 [] [] [mkS 1 [65] [1]; mkS 3 [67] []; mkS 5 [71] [2]] [mkM 2 0 (-1) None [84] []] []).
Proof. apply delete_sites_same_elements_lemma. intros a; simpl; tauto. Qed.
