(* C11 — the model does not fall into OOB on well-formed inputs: the theorems about
   [... = Ok t'] are not vacuous for valid tables (references in range). *)
From Coq Require Import List ZArith Bool Lia Permutation Sorted ZifyBool.
From TskVerif Require Import Base.Common C11.Model C11.Spec C11.IntervalProofs
     C11.SitesProofs.
Import ListNotations.
Open Scope Z_scope.

Lemma mapM_total {A B} (f : A -> res B) l :
  (forall a, In a l -> exists b, f a = Ok b) -> exists l', mapM f l = Ok l'.
Proof.
  induction l as [|a l IH]; intros H; simpl; [eauto|].
  destruct (H a (or_introl eq_refl)) as [b Hb]. rewrite Hb. simpl.
  destruct IH as [l' Hl']; [intros; apply H; right; assumption|]. rewrite Hl'. simpl. eauto.
Qed.

Lemma In_filter_mask {A} mask (l : list A) a : In a (filter_mask mask l) -> In a l.
Proof.
  revert mask. induction l as [|x l IH]; intros [|b m] H; simpl in H; try contradiction.
  destruct b; [destruct H as [<-|H]; [left; reflexivity | right; eapply IH; eauto] | right; eapply IH; eauto].
Qed.

Definition refs_ok (t : tables) : Prop :=
  (forall m, In m (t_muts t) -> 0 <= m_site m < zlen (t_sites t)) /\
  (forall m, In m (t_muts t) -> -1 <= m_parent m < zlen (t_muts t)).

Lemma get_total {A} (l : list A) i : 0 <= i < zlen l -> exists a, get l i = Ok a.
Proof. intros H. apply get_ok_iff. exact H. Qed.

Theorem delete_sites_mask_total keep t :
  length keep = length (t_sites t) -> refs_ok t -> exists t', delete_sites_mask keep t = Ok t'.
Proof.
  intros Hlen [Rs Rp]. unfold delete_sites_mask.
  destruct (mapM_total (fun m => get keep (m_site m)) (t_muts t)) as [km Hkm].
  { intros m Hm. apply get_total. unfold zlen in *. rewrite Hlen. apply Rs, Hm. }
  rewrite Hkm. simpl.
  pose proof (mapM_length _ _ _ Hkm) as Lkm.
  destruct (mapM_total (remap_mut (cumsum_m1 0 keep) (cumsum_m1 0 km ++ [-1])) (filter_mask km (t_muts t))) as [ms' Hms].
  { intros m Hm. apply In_filter_mask in Hm. unfold remap_mut.
    destruct (get_total (cumsum_m1 0 keep) (m_site m)) as [s Hs].
    { unfold zlen. rewrite cumsum_length, Hlen. apply Rs, Hm. }
    rewrite Hs. simpl.
    destruct (m_parent m =? -1) eqn:E; [simpl; eauto|].
    destruct (get_total (cumsum_m1 0 km ++ [-1]) (m_parent m)) as [p Hp].
    { unfold zlen. rewrite app_length, cumsum_length, Lkm. simpl. specialize (Rp m Hm). unfold zlen in Rp. lia. }
    rewrite Hp. simpl. eauto. }
  rewrite Hms. simpl. eauto.
Qed.

Theorem delete_sites_total ids t :
  (forall i, In i ids -> 0 <= i < zlen (t_sites t)) -> refs_ok t -> exists t', delete_sites ids t = Ok t'.
Proof.
  intros Hids R. unfold delete_sites.
  replace (existsb _ ids) with false.
  - apply delete_sites_mask_total; [apply mask_from_length | exact R].
  - symmetry. destruct (existsb _ ids) eqn:E; [|reflexivity].
    apply existsb_exists in E as (i & Hi & Hb). apply Hids in Hi. lia.
Qed.

Theorem keep_intervals_total srt ivs t :
  intervals_ok 0 (t_L t) ivs = true -> refs_ok t -> exists t', keep_intervals srt ivs t = Ok t'.
Proof.
  intros Hok R. unfold keep_intervals, keep_intervals_presort. rewrite Hok. simpl.
  set (t0 := mkT (t_L t) (t_nodes t) (clip_edges ivs (t_edges t)) (t_sites t) (t_muts t) (clip_migs ivs (t_migs t))).
  change (t_sites t) with (t_sites t0). rewrite delete_sites_where_false.
  destruct (delete_sites_mask_total (map (fun st => in_ivs ivs (s_pos st)) (t_sites t0)) t0) as [t1 H1].
  - apply map_length.
  - exact R.
  - rewrite H1. simpl. eauto.
Qed.

Theorem keep_intervals_rejects srt ivs t :
  intervals_ok 0 (t_L t) ivs = false -> keep_intervals srt ivs t = Err 1.
Proof. intros H. unfold keep_intervals, keep_intervals_presort. rewrite H. reflexivity. Qed.

(* ------------------------------------------------------------------------- *)
(* the time-cut operations                                                     *)

Definition time_refs_ok (tb : tables) : Prop :=
  (forall e, In e (t_edges tb) -> 0 <= e_child e < zlen (t_nodes tb) /\ 0 <= e_parent e < zlen (t_nodes tb)) /\
  (forall m, In m (t_muts tb) -> m_time m = None -> 0 <= m_node m < zlen (t_nodes tb)) /\
  (forall m, In m (t_muts tb) -> -1 <= m_parent m < zlen (t_muts tb)) /\
  (forall m, In m (t_muts tb) -> 0 <= m_site m < zlen (t_sites tb)).

Lemma get_ntime_total ns u : 0 <= u < zlen ns -> exists v, get (map n_time ns) u = Ok v.
Proof. intros H. apply get_total. unfold zlen in *. rewrite map_length. exact H. Qed.

Lemma mut_time_total ns m :
  (m_time m = None -> 0 <= m_node m < zlen ns) -> exists v, mut_time (map n_time ns) m = Ok v.
Proof. unfold mut_time. destruct (m_time m); intros H; [eauto | apply get_ntime_total; auto]. Qed.

Lemma older_muts_total ns t ms : forall next,
  (forall m, In m ms -> m_time m = None -> 0 <= m_node m < zlen ns) ->
  exists out mp, older_muts t (map n_time ns) next ms = Ok (out, mp)
                 /\ length mp = length ms /\ (forall m, In m out -> In m ms).
Proof.
  induction ms as [|m ms IH]; intros next H; simpl.
  - exists [], []. repeat split; auto.
  - destruct (mut_time_total ns m (H m (or_introl eq_refl))) as [v Hv]. rewrite Hv. simpl.
    destruct (v <? t).
    + destruct (IH (next + 1)) as (out & mp & E & L & I); [intros; apply H; auto; right; assumption|].
      rewrite E. simpl. exists (m :: out), (next :: mp). split; [reflexivity|]. split; [simpl; congruence|].
      intros m0 [<-|H0]; [left; reflexivity | right; apply I, H0].
    + destruct (IH next) as (out & mp & E & L & I); [intros; apply H; auto; right; assumption|].
      rewrite E. simpl. exists out, ((-1) :: mp). split; [reflexivity|]. split; [simpl; congruence|].
      intros m0 H0. right. apply I, H0.
Qed.

Theorem delete_older_total t tb : time_refs_ok tb -> exists tb', delete_older t tb = Ok tb'.
Proof.
  intros (Re & Rn & Rp & _). unfold delete_older.
  destruct (mapM_total (fun e => do tp <- get (map n_time (t_nodes tb)) (e_parent e); Ok (tp <=? t)) (t_edges tb)) as [ke Hke].
  { intros e He. destruct (get_ntime_total (t_nodes tb) (e_parent e)) as [v Hv]; [apply Re, He|].
    rewrite Hv. simpl. eauto. }
  rewrite Hke. simpl.
  destruct (older_muts_total (t_nodes tb) t (t_muts tb) 0 Rn) as (out & mp & E & L & I).
  rewrite E. simpl.
  destruct (mapM_total (fun m => if m_parent m =? -1 then Ok m else
                                  do p <- get mp (m_parent m);
                                  Ok (mkM (m_site m) (m_node m) p (m_time m) (m_der m) (m_md m))) out) as [ms' Hms].
  { intros m Hm. destruct (m_parent m =? -1) eqn:P; [eauto|].
    destruct (get_total mp (m_parent m)) as [p Hp].
    { specialize (Rp m (I m Hm)). unfold zlen in *. rewrite L. lia. }
    rewrite Hp. simpl. eauto. }
  rewrite Hms. simpl. eauto.
Qed.

Lemma split_loop_total ns t es : forall next,
  (forall e, In e es -> 0 <= e_child e < zlen ns /\ 0 <= e_parent e < zlen ns) ->
  exists es' sp, split_loop t (map n_time ns) next es = Ok (es', sp).
Proof.
  induction es as [|e es IH]; intros next H; simpl; [eauto|].
  destruct (H e (or_introl eq_refl)) as [Hc Hp].
  destruct (get_ntime_total ns _ Hc) as [tc Htc]. destruct (get_ntime_total ns _ Hp) as [tp Htp].
  rewrite Htc, Htp. simpl.
  destruct ((tc <? t) && (t <? tp)).
  - destruct (IH (next + 1)) as (es' & sp & E); [intros; apply H; right; assumption|]. rewrite E. simpl. eauto.
  - destruct (IH next) as (es' & sp & E); [intros; apply H; right; assumption|]. rewrite E. simpl. eauto.
Qed.

Theorem split_edges_total srt t flags pop md npop tb :
  t_migs tb = [] -> -1 <= pop < npop -> time_refs_ok tb ->
  exists tb', split_edges srt t flags pop md npop tb = Ok tb'.
Proof.
  intros Mg Hpop (Re & Rn & _ & Rs). unfold split_edges.
  replace (pop <? -1) with false by lia. rewrite Mg. simpl.
  replace (pop >=? npop) with false by lia.
  destruct (split_loop_total (t_nodes tb) t (t_edges tb) (zlen (t_nodes tb)) Re) as (es' & sp & E).
  rewrite E. simpl.
  destruct (mapM_total (split_mut t (map n_time (t_nodes tb)) (t_edges tb) (t_sites tb) sp) (t_muts tb)) as [ms' Hms].
  { intros m Hm. unfold split_mut.
    destruct (get_total (t_sites tb) (m_site m) (Rs m Hm)) as [st Hst]. rewrite Hst. simpl.
    destruct (mut_time_total (t_nodes tb) m (Rn m Hm)) as [v Hv]. rewrite Hv. simpl.
    destruct (match edge_above (t_edges tb) (s_pos st) (m_node m) with Some j => nth j sp None | None => None end);
      [destruct (v >=? t)|]; eauto. }
  rewrite Hms. simpl. eauto.
Qed.

Theorem split_edges_errors srt t flags pop md npop tb :
  (pop < -1 -> split_edges srt t flags pop md npop tb = Err 1) /\
  (-1 <= pop -> t_migs tb <> [] -> split_edges srt t flags pop md npop tb = Err 2) /\
  (-1 <= pop -> t_migs tb = [] -> npop <= pop -> split_edges srt t flags pop md npop tb = Err 2).
Proof.
  unfold split_edges. split; [|split].
  - intros H. replace (pop <? -1) with true by lia. reflexivity.
  - intros H Hm. replace (pop <? -1) with false by lia.
    destruct (t_migs tb); [congruence|]. reflexivity.
  - intros H Hm Hn. replace (pop <? -1) with false by lia. rewrite Hm. simpl.
    replace (pop >=? npop) with true by lia. reflexivity.
Qed.
