(* C11 — the model does not fall into OOB on well-formed inputs: the theorems about
   [... = Ok t'] are not vacuous for valid tables (references in range). *)
From Coq Require Import List ZArith Bool Lia Permutation Sorted ZifyBool.
From TskVerif Require Import Base.Common Gen.Generated C11.Model C11.Spec C11.IntervalProofs
     C11.SitesProofs.
Import ListNotations.
Open Scope Z_scope.

Lemma mapM_total {A B} (f : A -> res B) l :
  (forall a, In a l -> exists b, f a = Ok b) -> exists l', mapM f l = Ok l'.
Proof.
  induction l as [|a l IH]; intros H; simpl; [eauto|].
  destruct (H a (or_introl eq_refl)) as [b Hb]. rewrite Hb. simpl.
  destruct IH as [l' Hl']; [intros; apply H; right; assumption|]. rewrite Hl'. simpl. eauto.
Qed.

Lemma In_filter_mask {A} mask (l : list A) a : In a (filter_mask mask l) -> In a l.
Proof.
  revert mask. induction l as [|x l IH]; intros [|b m] H; simpl in H; try contradiction.
  destruct b; [destruct H as [<-|H]; [left; reflexivity | right; eapply IH; eauto] | right; eapply IH; eauto].
Qed.

Definition refs_ok (t : tables) : Prop :=
  (forall m, In m (t_muts t) -> 0 <= m_site m < zlen (t_sites t)) /\
  (forall m, In m (t_muts t) -> -1 <= m_parent m < zlen (t_muts t)).

Lemma get_total {A} (l : list A) i : 0 <= i < zlen l -> exists a, get l i = Ok a.
Proof. intros H. apply get_ok_iff. exact H. Qed.

Theorem delete_sites_mask_total keep t :
  length keep = length (t_sites t) -> refs_ok t -> exists t', delete_sites_mask keep t = Ok t'.
Proof.
  intros Hlen [Rs Rp]. unfold delete_sites_mask.
  destruct (mapM_total (fun m => get keep (m_site m)) (t_muts t)) as [km Hkm].
  { intros m Hm. apply get_total. unfold zlen in *. rewrite Hlen. apply Rs, Hm. }
  rewrite Hkm. simpl.
  pose proof (mapM_length _ _ _ Hkm) as Lkm.
  destruct (mapM_total (remap_mut (cumsum_m1 0 keep) (cumsum_m1 0 km ++ [-1])) (filter_mask km (t_muts t))) as [ms' Hms].
  { intros m Hm. apply In_filter_mask in Hm. unfold remap_mut.
    destruct (get_total (cumsum_m1 0 keep) (m_site m)) as [s Hs].
    { unfold zlen. rewrite cumsum_length, Hlen. apply Rs, Hm. }
    rewrite Hs. simpl.
    destruct (m_parent m =? -1) eqn:E; [simpl; eauto|].
    destruct (get_total (cumsum_m1 0 km ++ [-1]) (m_parent m)) as [p Hp].
    { unfold zlen. rewrite app_length, cumsum_length, Lkm. simpl. specialize (Rp m Hm). unfold zlen in Rp. lia. }
    rewrite Hp. simpl. eauto. }
  rewrite Hms. simpl. eauto.
Qed.

Theorem delete_sites_total ids t :
  (forall i, In i ids -> 0 <= i < zlen (t_sites t)) -> refs_ok t -> exists t', delete_sites ids t = Ok t'.
Proof.
  intros Hids R. unfold delete_sites.
  replace (existsb _ ids) with false.
  - apply delete_sites_mask_total; [apply mask_from_length | exact R].
  - symmetry. destruct (existsb _ ids) eqn:E; [|reflexivity].
    apply existsb_exists in E as (i & Hi & Hb). apply Hids in Hi. lia.
Qed.

Theorem keep_intervals_total srt ivs t :
  intervals_ok 0 (t_L t) ivs = true -> refs_ok t -> exists t', keep_intervals srt ivs t = Ok t'.
Proof.
  intros Hok R. unfold keep_intervals, keep_intervals_presort. rewrite Hok. simpl.
  set (t0 := mkT (t_L t) (t_nodes t) (clip_edges ivs (t_edges t)) (t_sites t) (t_muts t) (clip_migs ivs (t_migs t))).
  change (t_sites t) with (t_sites t0). rewrite delete_sites_where_false.
  destruct (delete_sites_mask_total (map (fun st => in_ivs ivs (s_pos st)) (t_sites t0)) t0) as [t1 H1].
  - apply map_length.
  - exact R.
  - rewrite H1. simpl. eauto.
Qed.

Theorem keep_intervals_rejects srt ivs t :
  intervals_ok 0 (t_L t) ivs = false -> keep_intervals srt ivs t = Err 1.
Proof. intros H. unfold keep_intervals, keep_intervals_presort. rewrite H. reflexivity. Qed.
