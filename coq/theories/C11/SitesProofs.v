(* C11 — delete_sites: exactly the listed sites and their mutations disappear, everything
   else survives as the same rows with site ids / mutation parents renumbered by rank. *)
From Coq Require Import List ZArith Bool Lia Permutation Sorted ZifyBool.
From TskVerif Require Import Base.Common C11.Model C11.Spec.
Import ListNotations.
Open Scope Z_scope.

(* ------------------------------------------------------------------------- *)
(* res / mapM                                                                  *)

Lemma bind_ok {A B} (r : res A) (f : A -> res B) b :
  bind r f = Ok b -> exists a, r = Ok a /\ f a = Ok b.
Proof. destruct r; simpl; intros H; try discriminate. eauto. Qed.

Lemma mapM_ok {A B} (f : A -> res B) l l' :
  mapM f l = Ok l' -> Forall2 (fun a b => f a = Ok b) l l'.
Proof.
  revert l'. induction l as [|a l IH]; simpl; intros l' H.
  - inversion H. constructor.
  - apply bind_ok in H as (b & Hb & H). apply bind_ok in H as (bs & Hbs & H).
    inversion H; subst. constructor; auto.
Qed.

Lemma mapM_map {A B} (f : A -> res B) (g : A -> B) l :
  (forall a, In a l -> f a = Ok (g a)) -> mapM f l = Ok (map g l).
Proof.
  induction l as [|a l IH]; simpl; intros H; [reflexivity|].
  rewrite (H a) by auto. simpl. rewrite IH by auto. reflexivity.
Qed.

Lemma mapM_ok_map {A B} (f : A -> res B) (g : A -> B) l l' :
  mapM f l = Ok l' -> (forall a b, In a l -> f a = Ok b -> b = g a) -> l' = map g l.
Proof.
  intros H Hg. apply mapM_ok in H. induction H; simpl; [reflexivity|].
  f_equal; [apply Hg; auto; left; reflexivity | apply IHForall2; intros; eapply Hg; eauto; right; auto].
Qed.

Lemma mapM_length {A B} (f : A -> res B) l l' : mapM f l = Ok l' -> length l' = length l.
Proof. intros H. apply mapM_ok in H. induction H; simpl; congruence. Qed.

(* ------------------------------------------------------------------------- *)
(* get / kept / rank / cumsum                                                  *)

Lemma get_nth_error {A} (l : list A) i a : get l i = Ok a <-> 0 <= i /\ nth_error l (Z.to_nat i) = Some a.
Proof.
  unfold get. destruct (i <? 0) eqn:E.
  - split; [discriminate | lia].
  - destruct (nth_error l (Z.to_nat i)) eqn:N; split; intros H.
    + inversion H; subst. split; [lia|reflexivity].
    + destruct H as [_ H]. congruence.
    + discriminate.
    + destruct H as [_ H]. discriminate.
Qed.

Lemma get_range {A} (l : list A) i a : get l i = Ok a -> 0 <= i < zlen l.
Proof. intros H. apply get_ok_iff. eauto. Qed.

Lemma get_kept mask i b : get mask i = Ok b -> kept mask i = b.
Proof.
  intros H. apply get_nth_error in H as [H0 H]. unfold kept.
  replace (i <? 0) with false by lia. apply nth_error_nth. exact H.
Qed.

Lemma kept_range mask i : kept mask i = true -> 0 <= i < zlen mask.
Proof.
  unfold kept, zlen. destruct (i <? 0) eqn:E; [discriminate|]. intros H.
  destruct (Nat.lt_ge_cases (Z.to_nat i) (length mask)); [lia|].
  rewrite nth_overflow in H by lia. discriminate.
Qed.

Lemma kept_get mask i : 0 <= i < zlen mask -> get mask i = Ok (kept mask i).
Proof.
  intros H. apply get_nth_error. split; [lia|]. unfold kept. replace (i <? 0) with false by lia.
  apply nth_error_nth'. unfold zlen in H. lia.
Qed.

Lemma count_true_nonneg m : 0 <= count_true m.
Proof. induction m as [|b m IH]; simpl; [lia|]. destruct b; lia. Qed.

Lemma rank_0 mask : rank mask 0 = 0.
Proof. reflexivity. Qed.

Lemma rank_cons b m i : 0 < i -> rank (b :: m) i = (if b then 1 else 0) + rank m (i - 1).
Proof.
  intros H. unfold rank. replace (Z.to_nat i) with (S (Z.to_nat (i - 1))) by lia. reflexivity.
Qed.

Lemma kept_cons_0 b m : kept (b :: m) 0 = b.
Proof. reflexivity. Qed.

Lemma kept_cons b m i : 0 < i -> kept (b :: m) i = kept m (i - 1).
Proof.
  intros H. unfold kept. replace (i <? 0) with false by lia. replace (i - 1 <? 0) with false by lia.
  replace (Z.to_nat i) with (S (Z.to_nat (i - 1))) by lia. reflexivity.
Qed.

Lemma rank_succ mask i : 0 <= i -> rank mask (i + 1) = rank mask i + (if kept mask i then 1 else 0).
Proof.
  revert i. induction mask as [|b m IH]; intros i Hi.
  - unfold rank, kept. rewrite !firstn_nil. simpl. destruct (i <? 0); [lia|].
    destruct (Z.to_nat i); reflexivity.
  - destruct (Z.eq_dec i 0) as [->|Hn].
    + unfold rank. simpl. destruct b; simpl; lia.
    + rewrite (rank_cons b m (i + 1)) by lia. rewrite (rank_cons b m i) by lia.
      rewrite kept_cons by lia. replace (i + 1 - 1) with ((i - 1) + 1) by lia.
      rewrite IH by lia. lia.
Qed.

Lemma rank_mono mask i j : 0 <= i <= j -> rank mask i <= rank mask j.
Proof.
  intros H. replace j with (i + Z.of_nat (Z.to_nat (j - i))) by lia.
  generalize (Z.to_nat (j - i)). intros n. induction n as [|n IH]; [replace (i + Z.of_nat 0) with i by lia; lia|].
  replace (i + Z.of_nat (S n)) with ((i + Z.of_nat n) + 1) by lia.
  rewrite rank_succ by lia. destruct (kept mask (i + Z.of_nat n)); lia.
Qed.

Lemma rank_strict mask i j : 0 <= i < j -> kept mask i = true -> rank mask i < rank mask j.
Proof.
  intros H K. pose proof (rank_mono mask (i + 1) j ltac:(lia)).
  rewrite rank_succ in H0 by lia. rewrite K in H0. lia.
Qed.

Lemma rank_nonneg mask i : 0 <= rank mask i.
Proof. apply count_true_nonneg. Qed.

(* np.cumsum(mask) - 1 read at a position *)
Lemma get_cumsum acc mask i v :
  get (cumsum_m1 acc mask) i = Ok v -> v = acc + rank mask (i + 1) - 1.
Proof.
  revert acc i. induction mask as [|b m IH]; intros acc i H.
  - apply get_range in H. unfold zlen in H. simpl in H. lia.
  - pose proof (get_range _ _ _ H) as R.
    destruct (Z.eq_dec i 0) as [->|Hn].
    + unfold get in H. simpl in H. inversion H. unfold rank. simpl. destruct b; lia.
    + apply get_nth_error in H as [H0 H].
      replace (Z.to_nat i) with (S (Z.to_nat (i - 1))) in H by lia. simpl in H.
      assert (G : get (cumsum_m1 (if b then acc + 1 else acc) m) (i - 1) = Ok v)
        by (apply get_nth_error; split; [lia | exact H]).
      apply IH in G. rewrite (rank_cons b m (i + 1)) by lia.
      replace (i + 1 - 1) with (i - 1 + 1) by lia. destruct b; lia.
Qed.

Lemma cumsum_length acc mask : length (cumsum_m1 acc mask) = length mask.
Proof. revert acc. induction mask as [|b m IH]; intros acc; simpl; [reflexivity|]. f_equal. apply IH. Qed.

Lemma get_app_l {A} (l1 l2 : list A) i : 0 <= i < zlen l1 -> get (l1 ++ l2) i = get l1 i.
Proof.
  intros H. unfold get. replace (i <? 0) with false by lia.
  rewrite nth_error_app1; [reflexivity|]. unfold zlen in H. lia.
Qed.

(* ------------------------------------------------------------------------- *)
(* masks                                                                       *)

Lemma filter_mask_map {A} (f : A -> bool) (l : list A) : filter_mask (map f l) l = filter f l.
Proof. induction l as [|a l IH]; simpl; [reflexivity|]. destruct (f a); simpl; congruence. Qed.

Lemma pick_shift {A} b m i (l : list A) j : i < j ->
  pick (fun k => kept (b :: m) (k - i)) j l = pick (fun k => kept m (k - (i + 1))) j l.
Proof.
  revert j. induction l as [|x l IH]; intros j Hj; simpl; [reflexivity|].
  rewrite kept_cons by lia. replace (j - i - 1) with (j - (i + 1)) by lia.
  rewrite IH by lia. reflexivity.
Qed.

Lemma filter_mask_pick {A} (mask : list bool) (l : list A) i :
  length mask = length l ->
  filter_mask mask l = pick (fun k => kept mask (k - i)) i l.
Proof.
  revert mask i. induction l as [|a l IH]; intros [|b m] i H; simpl in *; try reflexivity; try discriminate.
  replace (i - i) with 0 by lia. rewrite kept_cons_0.
  rewrite pick_shift by lia. rewrite <- IH by (inversion H; reflexivity). reflexivity.
Qed.

Lemma pick_ext {A} (f g : Z -> bool) i (l : list A) :
  (forall k, i <= k < i + zlen l -> f k = g k) -> pick f i l = pick g i l.
Proof.
  revert i. induction l as [|a l IH]; intros i H; simpl; [reflexivity|].
  unfold zlen in H. simpl length in H.
  rewrite (H i) by lia. rewrite (IH (i + 1)); [reflexivity|]. intros k Hk. apply H. unfold zlen in Hk. lia.
Qed.

Lemma mask_from_length i n ids : length (mask_from i n ids) = n.
Proof. revert i. induction n as [|n IH]; intros i; simpl; [reflexivity|]. f_equal. apply IH. Qed.

Lemma kept_mask_from i n ids k :
  0 <= k < Z.of_nat n -> kept (mask_from i n ids) k = negb (existsb (Z.eqb (i + k)) ids).
Proof.
  revert i k. induction n as [|n IH]; intros i k H; [lia|].
  simpl mask_from. destruct (Z.eq_dec k 0) as [->|Hn].
  - rewrite kept_cons_0. replace (i + 0) with i by lia. reflexivity.
  - rewrite kept_cons by lia. rewrite IH by lia. replace (i + 1 + (k - 1)) with (i + k) by lia. reflexivity.
Qed.

Lemma where_false_In j m i :
  In i (where_false j m) <-> j <= i < j + zlen m /\ kept m (i - j) = false.
Proof.
  revert j i. induction m as [|b m IH]; intros j i.
  - simpl. unfold zlen. simpl. split; [tauto | lia].
  - unfold zlen in *. simpl length. simpl where_false.
    assert (E : forall i, In i (where_false (j + 1) m) <-> j + 1 <= i < j + 1 + Z.of_nat (length m) /\ kept (b :: m) (i - j) = false).
    { intros i0. rewrite IH. split; intros [H1 H2]; split; try lia.
      - rewrite kept_cons by lia. replace (i0 - j - 1) with (i0 - (j + 1)) by lia. exact H2.
      - rewrite kept_cons in H2 by lia. replace (i0 - j - 1) with (i0 - (j + 1)) in H2 by lia. exact H2. }
    destruct b.
    + rewrite E. split; intros [H1 H2]; split; try lia; try exact H2.
      destruct (Z.eq_dec i j) as [->|]; [|lia]. replace (j - j) with 0 in H2 by lia. discriminate.
    + simpl. rewrite E. split.
      * intros [<-|[H1 H2]]; [split; [lia|]; replace (j - j) with 0 by lia; reflexivity | split; [lia|exact H2]].
      * intros [H1 H2]. destruct (Z.eq_dec i j) as [->|]; [left; reflexivity | right; split; [lia|exact H2]].
Qed.

Lemma mask_from_where_false m : mask_from 0 (length m) (where_false 0 m) = m.
Proof.
  assert (G : forall m j pre, (forall i, In i pre -> i < j) ->
                              mask_from j (length m) (pre ++ where_false j m) = m).
  { clear m. induction m as [|b m IH]; intros j pre Hpre; [reflexivity|].
    simpl length. simpl mask_from. f_equal.
    - rewrite existsb_app.
      assert (E1 : existsb (Z.eqb j) pre = false).
      { destruct (existsb (Z.eqb j) pre) eqn:E; [|reflexivity]. apply existsb_exists in E as (i & Hi & Heq).
        apply Z.eqb_eq in Heq. subst. apply Hpre in Hi. lia. }
      rewrite E1. simpl orb.
      assert (E2 : existsb (Z.eqb j) (where_false (j + 1) m) = false).
      { destruct (existsb (Z.eqb j) (where_false (j + 1) m)) eqn:E; [|reflexivity].
        apply existsb_exists in E as (i & Hi & Heq). apply Z.eqb_eq in Heq. subst.
        apply where_false_In in Hi. lia. }
      simpl where_false. destruct b; simpl; [rewrite E2; reflexivity | rewrite Z.eqb_refl; reflexivity].
    - simpl where_false. destruct b.
      + apply IH. intros i Hi. apply Hpre in Hi. lia.
      + replace (pre ++ j :: where_false (j + 1) m) with ((pre ++ [j]) ++ where_false (j + 1) m)
          by (rewrite <- app_assoc; reflexivity).
        apply IH. intros i Hi. apply in_app_or in Hi as [Hi|[<-|[]]]; [apply Hpre in Hi|]; lia. }
  apply (G m 0 []). intros i [].
Qed.

Lemma where_false_in_range m :
  existsb (fun i => (i <? 0) || (i >=? zlen m)) (where_false 0 m) = false.
Proof.
  destruct (existsb _ _) eqn:E; [|reflexivity]. apply existsb_exists in E as (i & Hi & Hb).
  apply where_false_In in Hi. lia.
Qed.

(* ------------------------------------------------------------------------- *)
(* delete_sites_mask                                                           *)

Lemma nth_error_kept_site ms p pm smask :
  nth_error ms (Z.to_nat p) = Some pm -> 0 <= p ->
  kept (site_mask_of_muts smask ms) p = kept smask (m_site pm).
Proof.
  intros H Hp. unfold kept at 1. replace (p <? 0) with false by lia.
  unfold site_mask_of_muts.
  erewrite nth_error_nth; [reflexivity|]. rewrite nth_error_map, H. reflexivity.
Qed.

Theorem delete_sites_mask_spec keep t t' :
  delete_sites_mask keep t = Ok t' ->
  t_L t' = t_L t /\ t_nodes t' = t_nodes t /\ t_edges t' = t_edges t /\ t_migs t' = t_migs t /\
  t_sites t' = filter_mask keep (t_sites t) /\
  (forall m, In m (t_muts t) -> 0 <= m_site m < zlen keep) /\
  (parents_same_site (t_muts t) ->
   t_muts t' = map (renumber keep (site_mask_of_muts keep (t_muts t)))
                   (filter (fun m => kept keep (m_site m)) (t_muts t))).
Proof.
  unfold delete_sites_mask. intros H.
  apply bind_ok in H as (km & Hkm & H). apply bind_ok in H as (ms' & Hms & H).
  inversion H; subst; clear H. simpl.
  repeat (split; [reflexivity|]).
  assert (Hrange : forall m, In m (t_muts t) -> 0 <= m_site m < zlen keep).
  { intros m Hm. apply mapM_ok in Hkm. clear Hms. induction Hkm; [destruct Hm|].
    destruct Hm as [<-|Hm]; [eapply get_range; eauto | auto]. }
  split; [exact Hrange|]. intros Hpar.
  assert (Ekm : km = site_mask_of_muts keep (t_muts t)).
  { eapply mapM_ok_map; [exact Hkm|]. intros a b _ Hg. symmetry. apply get_kept. exact Hg. }
  subst km. unfold site_mask_of_muts in Hms at 2. rewrite filter_mask_map in Hms.
  eapply mapM_ok_map; [exact Hms|].
  intros m m' Hin Hre. apply filter_In in Hin as [Hin Hk].
  unfold remap_mut in Hre. apply bind_ok in Hre as (s & Hs & Hre). apply bind_ok in Hre as (p & Hp & Hre).
  inversion Hre; subst; clear Hre. unfold renumber. f_equal.
  - apply get_cumsum in Hs. rewrite rank_succ in Hs by (apply Hrange in Hin; lia). rewrite Hk in Hs. lia.
  - destruct (m_parent m =? -1) eqn:E; [inversion Hp; reflexivity|].
    destruct (Hpar m Hin) as [Hn|(pm & Hnth & Hp0 & Hsite)]; [lia|].
    assert (Hlen : m_parent m < zlen (cumsum_m1 0 (site_mask_of_muts keep (t_muts t)))).
    { unfold zlen. rewrite cumsum_length. unfold site_mask_of_muts. rewrite map_length.
      assert (Z.to_nat (m_parent m) < length (t_muts t))%nat by (apply nth_error_Some; congruence). lia. }
    rewrite get_app_l in Hp by lia. apply get_cumsum in Hp.
    rewrite rank_succ in Hp by lia.
    rewrite (nth_error_kept_site _ _ pm) in Hp by auto. rewrite Hsite, Hk in Hp. lia.
Qed.

(* ------------------------------------------------------------------------- *)
(* delete_sites                                                                *)

Definition listed (ids : list Z) (i : Z) : bool := existsb (Z.eqb i) ids.

Theorem delete_sites_exact_lemma ids t t' :
  delete_sites ids t = Ok t' ->
  let smask := mask_from 0 (length (t_sites t)) ids in
  let mmask := site_mask_of_muts smask (t_muts t) in
  (forall i, In i ids -> 0 <= i < zlen (t_sites t)) /\
  t_L t' = t_L t /\ t_nodes t' = t_nodes t /\ t_edges t' = t_edges t /\ t_migs t' = t_migs t /\
  t_sites t' = pick (fun i => negb (listed ids i)) 0 (t_sites t) /\
  (parents_same_site (t_muts t) ->
   t_muts t' = map (renumber smask mmask) (filter (fun m => negb (listed ids (m_site m))) (t_muts t))).
Proof.
  intros H smask mmask. unfold delete_sites in H.
  destruct (existsb _ ids) eqn:E; [discriminate|].
  assert (Hids : forall i, In i ids -> 0 <= i < zlen (t_sites t)).
  { intros i Hi. destruct (Z_lt_dec i 0); [|destruct (Z_ge_dec i (zlen (t_sites t)))]; try lia;
      exfalso; assert (existsb (fun i => (i <? 0) || (i >=? zlen (t_sites t))) ids = true)
        by (apply existsb_exists; exists i; split; [exact Hi | lia]); congruence. }
  split; [exact Hids|].
  apply delete_sites_mask_spec in H as (A1 & A2 & A3 & A4 & A5 & A6 & A7).
  repeat (split; [assumption|]). fold smask in A5, A6, A7.
  assert (Hlen : length smask = length (t_sites t)) by apply mask_from_length.
  split.
  - rewrite A5. rewrite (filter_mask_pick smask (t_sites t) 0 Hlen).
    apply pick_ext. intros k Hk. unfold smask. replace (k - 0) with k by lia.
    rewrite kept_mask_from by (unfold zlen in Hk; lia). reflexivity.
  - intros Hp. rewrite (A7 Hp). f_equal. apply filter_ext_in. intros m Hm.
    apply A6 in Hm. unfold zlen in Hm. rewrite Hlen in Hm. unfold smask. rewrite kept_mask_from; [reflexivity|]. lia.
Qed.

Lemma delete_sites_err ids t :
  (exists i, In i ids /\ ~ (0 <= i < zlen (t_sites t))) -> delete_sites ids t = Err 1.
Proof.
  intros (i & Hi & Hr). unfold delete_sites.
  replace (existsb _ ids) with true; [reflexivity|]. symmetry. apply existsb_exists. exists i. split; [exact Hi|lia].
Qed.

(* delete_sites through a boolean keep mask (how keep_intervals and the trims call it) *)
Lemma delete_sites_where_false (f : site -> bool) t :
  delete_sites (where_false 0 (map f (t_sites t))) t = delete_sites_mask (map f (t_sites t)) t.
Proof.
  unfold delete_sites.
  assert (E : zlen (t_sites t) = zlen (map f (t_sites t))) by (unfold zlen; rewrite map_length; reflexivity).
  rewrite E, where_false_in_range.
  replace (length (t_sites t)) with (length (map f (t_sites t))) by apply map_length.
  rewrite mask_from_where_false. reflexivity.
Qed.

Theorem delete_sites_pred_spec (f : site -> bool) t t' :
  delete_sites (where_false 0 (map f (t_sites t))) t = Ok t' ->
  let smask := map f (t_sites t) in
  t_L t' = t_L t /\ t_nodes t' = t_nodes t /\ t_edges t' = t_edges t /\ t_migs t' = t_migs t /\
  t_sites t' = filter f (t_sites t) /\
  (parents_same_site (t_muts t) ->
   t_muts t' = map (renumber smask (site_mask_of_muts smask (t_muts t)))
                   (filter (fun m => kept smask (m_site m)) (t_muts t))).
Proof.
  rewrite delete_sites_where_false. intros H smask.
  apply delete_sites_mask_spec in H as (A1 & A2 & A3 & A4 & A5 & A6 & A7).
  repeat (split; [assumption|]). split; [|exact A7].
  rewrite A5. apply filter_mask_map.
Qed.

(* ------------------------------------------------------------------------- *)
(* sortedness survives: sort() leaves the filtered site / mutation tables alone *)

Lemma StronglySorted_filter {A} (R : A -> A -> Prop) (p : A -> bool) l :
  StronglySorted R l -> StronglySorted R (filter p l).
Proof.
  induction 1 as [|a l Hs IH Hall]; simpl; [constructor|].
  destruct (p a); [|exact IH]. constructor; [exact IH|].
  apply Forall_forall. intros x Hx. apply filter_In in Hx as [Hx _].
  eapply Forall_forall in Hall; eauto.
Qed.

Lemma StronglySorted_map_filter {A B} (R : A -> A -> Prop) (R' : B -> B -> Prop) (f : A -> B)
      (p : A -> bool) l :
  StronglySorted R l ->
  (forall a b, p a = true -> p b = true -> R a b -> R' (f a) (f b)) ->
  StronglySorted R' (map f (filter p l)).
Proof.
  intros Hs HR. induction Hs as [|a l Hs IH Hall]; simpl; [constructor|].
  destruct (p a) eqn:Pa; [|exact IH]. simpl. constructor; [exact IH|].
  apply Forall_forall. intros y Hy. apply in_map_iff in Hy as (x & <- & Hx).
  apply filter_In in Hx as [Hx Px]. apply HR; auto. eapply Forall_forall in Hall; eauto.
Qed.

Lemma renumber_sorted smask mmask ms :
  muts_sorted ms ->
  muts_sorted (map (renumber smask mmask) (filter (fun m => kept smask (m_site m)) ms)).
Proof.
  intros H. eapply StronglySorted_map_filter; [exact H|].
  intros a b Ka Kb [L1 L2]. unfold mut_le, renumber; simpl.
  pose proof (kept_range _ _ Ka) as Ra. pose proof (kept_range _ _ Kb) as Rb.
  split.
  - apply rank_mono. lia.
  - intros Heq. apply L2.
    destruct (Z.eq_dec (m_site a) (m_site b)) as [E|NE]; [exact E|].
    pose proof (rank_strict smask (m_site a) (m_site b) ltac:(lia) Ka). lia.
Qed.
