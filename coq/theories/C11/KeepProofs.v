(* C11 — keep_intervals / delete_intervals on whole table collections. *)
From Coq Require Import List ZArith Bool Lia Permutation Sorted ZifyBool.
From TskVerif Require Import Base.Common C11.Model C11.Spec C11.IntervalProofs C11.SitesProofs.
Import ListNotations.
Open Scope Z_scope.

Lemma edge_at_perm es es' x c p md : Permutation es es' -> (edge_at es x c p md <-> edge_at es' x c p md).
Proof.
  intros P. unfold edge_at. split; intros (e & H1 & H2); exists e; split; auto.
  - eapply Permutation_in; eauto.
  - eapply Permutation_in; [apply Permutation_sym|]; eauto.
Qed.

Lemma mig_at_perm gs gs' x a b c d md : Permutation gs gs' -> (mig_at gs x a b c d md <-> mig_at gs' x a b c d md).
Proof.
  intros P. unfold mig_at. split; intros (e & H1 & H2); exists e; split; auto.
  - eapply Permutation_in; eauto.
  - eapply Permutation_in; [apply Permutation_sym|]; eauto.
Qed.

(* what keep_intervals_presort returns, opened up *)
Lemma presort_inv ivs t t1 :
  keep_intervals_presort ivs t = Ok t1 ->
  intervals_ok 0 (t_L t) ivs = true /\
  t_L t1 = t_L t /\ t_nodes t1 = t_nodes t /\
  t_edges t1 = clip_edges ivs (t_edges t) /\ t_migs t1 = clip_migs ivs (t_migs t) /\
  t_sites t1 = filter (fun st => in_ivs ivs (s_pos st)) (t_sites t) /\
  (parents_same_site (t_muts t) ->
   let smask := map (fun st => in_ivs ivs (s_pos st)) (t_sites t) in
   t_muts t1 = map (renumber smask (site_mask_of_muts smask (t_muts t)))
                   (filter (fun m => kept smask (m_site m)) (t_muts t))).
Proof.
  unfold keep_intervals_presort. destruct (intervals_ok 0 (t_L t) ivs) eqn:E; simpl; [|discriminate].
  intros H. split; [reflexivity|].
  pose proof (delete_sites_pred_spec (fun st => in_ivs ivs (s_pos st))
                (mkT (t_L t) (t_nodes t) (clip_edges ivs (t_edges t)) (t_sites t) (t_muts t)
                     (clip_migs ivs (t_migs t))) t1 H) as S.
  simpl in S. exact S.
Qed.

Lemma keep_inv srt ivs t t' :
  keep_intervals srt ivs t = Ok t' -> exists t1, keep_intervals_presort ivs t = Ok t1 /\ t' = srt t1.
Proof.
  unfold keep_intervals. intros H. apply bind_ok in H as (t1 & H1 & H2). inversion H2. eauto.
Qed.

(* (a) inside the kept intervals the covering relation is unchanged — edges (with their
   metadata) and migrations *)
Theorem keep_intervals_inside_lemma srt ivs t t' :
  sort_ok srt -> keep_intervals srt ivs t = Ok t' ->
  forall x, inside ivs x ->
    (forall c p md, edge_at (t_edges t') x c p md <-> edge_at (t_edges t) x c p md) /\
    (forall nd s d tm md, mig_at (t_migs t') x nd s d tm md <-> mig_at (t_migs t) x nd s d tm md).
Proof.
  intros S H x Hx. apply keep_inv in H as (t1 & H1 & ->).
  apply presort_inv in H1 as (Hok & _ & _ & He & Hg & _). split.
  - intros c p md. rewrite (edge_at_perm _ _ x c p md (srt_edges _ S t1)), He.
    eapply clip_edges_inside; eauto.
  - intros nd s d tm md. rewrite (mig_at_perm _ _ x nd s d tm md (srt_migs _ S t1)), Hg.
    eapply clip_migs_inside; eauto.
Qed.

Lemma functional_parent_at es x :
  functional_at es x ->
  forall u p md, parent_at es x u = Some (p, md) <-> edge_at es x u p md.
Proof.
  intros F u p md. unfold parent_at. split.
  - destruct (find (cov_child x u) es) as [e|] eqn:E; [|discriminate].
    intros H. inversion H; subst. apply find_some in E as [E1 E2]. unfold cov_child in E2.
    exists e. split; [exact E1|]. split; [lia|]. split; [lia|]. split; reflexivity.
  - intros (e & H1 & H2 & H3 & H4 & H5).
    destruct (find (cov_child x u) es) as [e'|] eqn:E.
    + apply find_some in E as [E1 E2]. unfold cov_child in E2.
      destruct (F u (e_parent e') (e_md e') p md) as [-> ->]; [| |reflexivity].
      * exists e'. split; [exact E1|]. split; [lia|]. split; [lia|]. split; reflexivity.
      * exists e. repeat split; auto; lia.
    + exfalso. pose proof (find_none _ _ E e H1) as N. unfold cov_child in N. lia.
Qed.

Lemma parent_at_none es x u :
  parent_at es x u = None <-> (forall p md, ~ edge_at es x u p md).
Proof.
  unfold parent_at. split.
  - destruct (find (cov_child x u) es) as [e|] eqn:E; [discriminate|]. intros _ p md (e & H1 & H2 & H3 & _).
    pose proof (find_none _ _ E e H1) as N. unfold cov_child in N. lia.
  - intros H. destruct (find (cov_child x u) es) as [e|] eqn:E; [|reflexivity].
    exfalso. apply find_some in E as [E1 E2]. unfold cov_child in E2.
    apply (H (e_parent e) (e_md e)). exists e. split; [exact E1|]. split; [lia|]. split; [lia|]. split; reflexivity.
Qed.

(* the same as a statement about the parent function of a valid (one parent per child)
   input: parent_at over the OUTPUT edge table = parent_at over the input edge table *)
Theorem keep_intervals_parent_at_lemma srt ivs t t' :
  sort_ok srt -> keep_intervals srt ivs t = Ok t' ->
  forall x, inside ivs x -> functional_at (t_edges t) x ->
  forall u, parent_at (t_edges t') x u = parent_at (t_edges t) x u.
Proof.
  intros S H x Hx F u.
  destruct (keep_intervals_inside_lemma srt ivs t t' S H x Hx) as [HE _].
  assert (F' : functional_at (t_edges t') x).
  { intros u0 p1 m1 p2 m2 A B. apply HE in A. apply HE in B. eapply F; eauto. }
  destruct (parent_at (t_edges t) x u) as [[p md]|] eqn:E.
  - apply (functional_parent_at _ _ F'). apply HE. apply (functional_parent_at _ _ F). exact E.
  - apply parent_at_none. intros p md A. apply HE in A.
    pose proof (proj1 (parent_at_none _ _ _) E p md). contradiction.
Qed.

(* (b) nothing is left outside: no edge and no migration of the result covers a point of the
   complement (no hypothesis on the input at all), and every retained site lies inside *)
Theorem keep_intervals_outside_lemma srt ivs t t' :
  sort_ok srt -> keep_intervals srt ivs t = Ok t' ->
  (forall x, ~ inside ivs x ->
     (forall e, In e (t_edges t') -> ~ (e_left e <= x < e_right e)) /\
     (forall g, In g (t_migs t') -> ~ (g_left g <= x < g_right g))) /\
  (forall e, In e (t_edges t') -> exists iv, In iv ivs /\ fst iv <= e_left e /\ e_right e <= snd iv) /\
  (forall g, In g (t_migs t') -> exists iv, In iv ivs /\ fst iv <= g_left g /\ g_right g <= snd iv) /\
  (sites_sorted (t_sites t) -> muts_sorted (t_muts t) -> parents_same_site (t_muts t) ->
   forall st, In st (t_sites t') -> inside ivs (s_pos st)).
Proof.
  intros S H. apply keep_inv in H as (t1 & H1 & ->).
  apply presort_inv in H1 as (Hok & _ & _ & He & Hg & Hs & Hm).
  split; [|split; [|split]].
  - intros x Hx. split.
    + intros e Hin. apply (Permutation_in _ (srt_edges _ S t1)) in Hin. rewrite He in Hin.
      eapply clip_edges_outside; eauto.
    + intros g Hin. apply (Permutation_in _ (srt_migs _ S t1)) in Hin. rewrite Hg in Hin.
      eapply clip_migs_outside; eauto.
  - intros e Hin. apply (Permutation_in _ (srt_edges _ S t1)) in Hin. rewrite He, clip_edges_is in Hin.
    apply (clipall_within edge e_left e_right clip_edge (fun _ _ _ => eq_refl) (fun _ _ _ => eq_refl)) in Hin.
    exact Hin.
  - intros g Hin. apply (Permutation_in _ (srt_migs _ S t1)) in Hin. rewrite Hg, clip_migs_is in Hin.
    apply (clipall_within migration g_left g_right clip_mig (fun _ _ _ => eq_refl) (fun _ _ _ => eq_refl)) in Hin.
    exact Hin.
  - intros SS MS PS st Hin.
    assert (SS1 : sites_sorted (t_sites t1)) by (rewrite Hs; apply StronglySorted_filter; exact SS).
    assert (MS1 : muts_sorted (t_muts t1)) by (rewrite (Hm PS); apply renumber_sorted; exact MS).
    destruct (srt_sites _ S t1 SS1 MS1) as [E1 _]. rewrite E1, Hs in Hin.
    apply filter_In in Hin as [_ Hin]. apply in_ivs_inside. exact Hin.
Qed.

(* (c) retained sites / mutations are exactly the input rows inside, in order, ids renumbered
   by rank, every other field (metadata included) untouched *)
Theorem keep_intervals_sites_rows_lemma srt ivs t t' :
  sort_ok srt -> keep_intervals srt ivs t = Ok t' ->
  sites_sorted (t_sites t) -> muts_sorted (t_muts t) -> parents_same_site (t_muts t) ->
  let smask := map (fun st => in_ivs ivs (s_pos st)) (t_sites t) in
  let mmask := site_mask_of_muts smask (t_muts t) in
  t_L t' = t_L t /\ t_nodes t' = t_nodes t /\
  t_sites t' = filter (fun st => in_ivs ivs (s_pos st)) (t_sites t) /\
  t_muts t' = map (renumber smask mmask) (filter (fun m => kept smask (m_site m)) (t_muts t)).
Proof.
  intros S H SS MS PS smask mmask. apply keep_inv in H as (t1 & H1 & ->).
  apply presort_inv in H1 as (Hok & HL & HN & _ & _ & Hs & Hm).
  assert (SS1 : sites_sorted (t_sites t1)) by (rewrite Hs; apply StronglySorted_filter; exact SS).
  assert (MS1 : muts_sorted (t_muts t1)) by (rewrite (Hm PS); apply renumber_sorted; exact MS).
  destruct (srt_sites _ S t1 SS1 MS1) as [E1 E2].
  rewrite (srt_L _ S), (srt_nodes _ S), E1, E2, HL, HN, Hs, (Hm PS). repeat split; reflexivity.
Qed.

(* a renumbered reference still points at the same row *)
Lemma nth_error_filter_mask_rank {A} mask (l : list A) i :
  length mask = length l -> kept mask i = true ->
  nth_error (filter_mask mask l) (Z.to_nat (rank mask i)) = nth_error l (Z.to_nat i).
Proof.
  revert mask i. induction l as [|a l IH]; intros [|b m] i Hlen K; simpl in Hlen; try discriminate.
  - apply kept_range in K. unfold zlen in K. simpl in K. lia.
  - pose proof (kept_range _ _ K) as R.
    destruct (Z.eq_dec i 0) as [->|Hn].
    + rewrite kept_cons_0 in K. subst b. reflexivity.
    + rewrite rank_cons by lia. rewrite kept_cons in K by lia.
      assert (IH' := IH m (i - 1) ltac:(lia) K).
      replace (Z.to_nat i) with (S (Z.to_nat (i - 1))) by lia. simpl nth_error at 2.
      rewrite <- IH'. pose proof (rank_nonneg m (i - 1)).
      destruct b; simpl filter_mask.
      * replace (Z.to_nat (1 + rank m (i - 1))) with (S (Z.to_nat (rank m (i - 1)))) by lia. reflexivity.
      * replace (0 + rank m (i - 1)) with (rank m (i - 1)) by lia. reflexivity.
Qed.

(* delete_intervals = keep_intervals of the complement *)
Theorem delete_intervals_lemma srt ivs t t' :
  sort_ok srt -> delete_intervals srt ivs t = Ok t' ->
  intervals_ok 0 (t_L t) ivs = true /\
  (forall x, 0 <= x < t_L t -> ~ inside ivs x ->
     (forall c p md, edge_at (t_edges t') x c p md <-> edge_at (t_edges t) x c p md) /\
     (forall nd s d tm md, mig_at (t_migs t') x nd s d tm md <-> mig_at (t_migs t) x nd s d tm md)) /\
  (forall x, inside ivs x ->
     (forall e, In e (t_edges t') -> ~ (e_left e <= x < e_right e)) /\
     (forall g, In g (t_migs t') -> ~ (g_left g <= x < g_right g))).
Proof.
  intros S H. unfold delete_intervals, negate_intervals in H.
  destruct (intervals_ok 0 (t_L t) ivs) eqn:Hok; [|discriminate]. simpl in H.
  split; [reflexivity|].
  assert (Hneg : forall x, 0 <= x < t_L t ->
                           in_ivs (negate_loop 0 (t_L t) ivs) x = negb (in_ivs ivs x)).
  { intros x Hx. apply (negate_loop_spec 0 (t_L t) 0 ivs x Hok); lia. }
  split.
  - intros x Hx Hout. apply (keep_intervals_inside_lemma srt _ t t' S H).
    apply in_ivs_inside. rewrite Hneg by lia.
    destruct (in_ivs ivs x) eqn:E; [exfalso; apply Hout, in_ivs_inside, E | reflexivity].
  - intros x Hin. apply (keep_intervals_outside_lemma srt _ t t' S H).
    intros Hc. apply in_ivs_inside in Hc. apply in_ivs_inside in Hin.
    destruct (Z_lt_dec x 0) as [Hlt|Hge].
    + (* x < 0 cannot be inside a checked list *)
      apply in_ivs_inside in Hin. destruct Hin as (iv & I1 & I2).
      pose proof (check_ivs_bounds _ _ _ _ Hok iv I1). lia.
    + destruct (Z_lt_dec x (t_L t)) as [Hlt|Hge2].
      * rewrite Hneg in Hc by lia. rewrite Hin in Hc. discriminate.
      * apply in_ivs_inside in Hin. destruct Hin as (iv & I1 & I2).
        pose proof (check_ivs_bounds _ _ _ _ Hok iv I1). lia.
Qed.
