(* C11 — from parents to ancestry: inside the kept intervals the whole ancestor relation (not
   only the parent relation) is unchanged, outside every node is isolated; and the
   TreeSequence-level wrapper keep_intervals(simplify=True) as a composition with an abstract
   simplify whose contract (C04) is an explicit hypothesis. *)
From Coq Require Import List ZArith Bool Lia Permutation.
From TskVerif Require Import Base.Common C11.Model C11.Spec C11.IntervalProofs C11.SitesProofs C11.KeepProofs.
Import ListNotations.
Open Scope Z_scope.

(* a is an ancestor-or-self of c at position x *)
Inductive ancestor (es : list edge) (x : Z) : Z -> Z -> Prop :=
| anc_refl u : ancestor es x u u
| anc_step c p a md : edge_at es x c p md -> ancestor es x p a -> ancestor es x c a.

Lemma ancestor_equiv es1 es2 x :
  (forall c p md, edge_at es1 x c p md <-> edge_at es2 x c p md) ->
  forall c a, ancestor es1 x c a <-> ancestor es2 x c a.
Proof.
  intros H c a. split; intros A; induction A; try constructor.
  - eapply anc_step; [apply H; eassumption | assumption].
  - eapply anc_step; [apply H; eassumption | assumption].
Qed.

Lemma ancestor_isolated es x :
  (forall e, In e es -> ~ (e_left e <= x < e_right e)) -> forall c a, ancestor es x c a -> a = c.
Proof.
  intros H c a A. destruct A as [|c p a md E _]; [reflexivity|].
  destruct E as (e & E1 & E2 & _). exfalso. apply (H e E1 E2).
Qed.

Theorem keep_intervals_ancestry_lemma srt ivs t t' :
  sort_ok srt -> keep_intervals srt ivs t = Ok t' ->
  (forall x, inside ivs x -> forall c a, ancestor (t_edges t') x c a <-> ancestor (t_edges t) x c a) /\
  (forall x, ~ inside ivs x -> forall c a, ancestor (t_edges t') x c a -> a = c).
Proof.
  intros S H. split.
  - intros x Hx. apply ancestor_equiv. apply (keep_intervals_inside_lemma srt ivs t t' S H x Hx).
  - intros x Hx. apply ancestor_isolated.
    destruct (keep_intervals_outside_lemma srt ivs t t' S H) as (O & _). apply (O x Hx).
Qed.

Theorem delete_intervals_ancestry_lemma srt ivs t t' :
  sort_ok srt -> delete_intervals srt ivs t = Ok t' ->
  (forall x, 0 <= x < t_L t -> ~ inside ivs x ->
     forall c a, ancestor (t_edges t') x c a <-> ancestor (t_edges t) x c a) /\
  (forall x, inside ivs x -> forall c a, ancestor (t_edges t') x c a -> a = c).
Proof.
  intros S H. destruct (delete_intervals_lemma srt ivs t t' S H) as (_ & A & B). split.
  - intros x Hx Ho. apply ancestor_equiv. apply (A x Hx Ho).
  - intros x Hx. apply ancestor_isolated. apply (B x Hx).
Qed.

(* TreeSequence.keep_intervals(simplify=True) = table-level keep_intervals, then simplify.
   simplify itself is property C04; its contract is taken as a hypothesis: for the samples
   (renumbered by nodemap) "share an ancestor at x" is preserved.  PARTIAL: the hypothesis is
   not discharged here (no Gallina model of simplify in C11). *)
Definition share_ancestor (es : list edge) (x s1 s2 : Z) : Prop :=
  exists a, ancestor es x s1 a /\ ancestor es x s2 a.

Theorem keep_intervals_simplify_partial_lemma
        (srt : tables -> tables) (simp : tables -> res tables) (nodemap : Z -> Z) (samples : list Z)
        ivs t t1 t2 :
  sort_ok srt -> keep_intervals srt ivs t = Ok t1 -> simp t1 = Ok t2 ->
  (* contract of simplify (C04), assumed *)
  (forall x s1 s2, In s1 samples -> In s2 samples ->
     (share_ancestor (t_edges t2) x (nodemap s1) (nodemap s2) <-> share_ancestor (t_edges t1) x s1 s2)) ->
  forall s1 s2, In s1 samples -> In s2 samples ->
    (forall x, inside ivs x ->
       (share_ancestor (t_edges t2) x (nodemap s1) (nodemap s2) <-> share_ancestor (t_edges t) x s1 s2)) /\
    (forall x, ~ inside ivs x -> share_ancestor (t_edges t2) x (nodemap s1) (nodemap s2) -> s1 = s2).
Proof.
  intros S H1 H2 C s1 s2 I1 I2. destruct (keep_intervals_ancestry_lemma srt ivs t t1 S H1) as [A B]. split.
  - intros x Hx. rewrite (C x s1 s2 I1 I2). unfold share_ancestor.
    split; intros (a & P & Q); exists a; split; apply (A x Hx); assumption.
  - intros x Hx Hs. apply (C x s1 s2 I1 I2) in Hs. destruct Hs as (a & P & Q).
    apply (B x Hx) in P. apply (B x Hx) in Q. congruence.
Qed.
