(* C02/Arr.v — facts about the checked array access [aget]/[aset] and the [for_loop]
   combinator of C02/Model.v. *)
From Coq Require Import List ZArith Bool Lia.
From TskVerif Require Import Base.Common C02.Fl C02.Model.
Import ListNotations.
Open Scope Z_scope.

(* ---- aget / aset agree with Base.Common.get / set ---- *)
Lemma get_oob_range {A} (l : list A) i : ~ (0 <= i < zlen l) -> get l i = OOB.
Proof.
  intro H. destruct (get l i) eqn:G; try reflexivity;
  try (exfalso; apply H; apply get_ok_iff; eauto);
  unfold get in G; destruct (i <? 0); try discriminate;
  destruct (nth_error l (Z.to_nat i)); discriminate.
Qed.

Lemma aget_eq_get {A} (l : list A) i : aget l i = get l i.
Proof.
  unfold aget. destruct ((i <? 0) || (zlen l <=? i)) eqn:E; [|reflexivity].
  symmetry; apply get_oob_range. apply orb_true_iff in E as [E|E];
  [apply Z.ltb_lt in E | apply Z.leb_le in E]; lia.
Qed.

Lemma set_nat_none {A} (l : list A) i a : (length l <= i)%nat -> set_nat l i a = None.
Proof.
  revert i; induction l as [|h t IH]; intros [|i] H; simpl in *; try reflexivity; try lia.
  rewrite IH by lia. reflexivity.
Qed.

Lemma aset_eq_set {A} (l : list A) i a : aset l i a = set l i a.
Proof.
  unfold aset, set. destruct (i <? 0) eqn:E; simpl; [reflexivity|].
  destruct (zlen l <=? i) eqn:F; [|reflexivity].
  apply Z.leb_le in F. apply Z.ltb_ge in E. unfold zlen in F.
  rewrite set_nat_none by lia. reflexivity.
Qed.

(* ---- characterisations ---- *)
Lemma aget_ok {A} (l : list A) i a :
  aget l i = Ok a <-> 0 <= i < zlen l /\ nth_error l (Z.to_nat i) = Some a.
Proof.
  unfold aget, get, zlen. split.
  - destruct ((i <? 0) || (Z.of_nat (length l) <=? i)) eqn:E; [discriminate|].
    apply orb_false_iff in E as [E1 E2]. rewrite E1.
    apply Z.ltb_ge in E1. apply Z.leb_gt in E2.
    destruct (nth_error l (Z.to_nat i)) eqn:N; [|discriminate].
    intro H; inversion H; subst. split; [lia|reflexivity].
  - intros [R N]. assert (E: (i <? 0) || (Z.of_nat (length l) <=? i) = false).
    { apply orb_false_iff; split; [apply Z.ltb_ge | apply Z.leb_gt]; lia. }
    rewrite E. assert (E1: (i <? 0) = false) by (apply Z.ltb_ge; lia). rewrite E1, N. reflexivity.
Qed.

Lemma aget_in_range {A} (l : list A) i : 0 <= i < zlen l -> exists a, aget l i = Ok a.
Proof.
  intro R. destruct (nth_error l (Z.to_nat i)) eqn:N.
  - exists a. apply aget_ok; auto.
  - apply nth_error_None in N. unfold zlen in R. lia.
Qed.

Lemma aget_cases {A} (l : list A) i :
  (exists a, aget l i = Ok a /\ 0 <= i < zlen l) \/ (aget l i = OOB /\ ~ (0 <= i < zlen l)).
Proof.
  destruct (Z_lt_dec i 0); [right|destruct (Z_lt_dec i (zlen l)); [left|right]].
  - split; [|lia]. unfold aget. replace (i <? 0) with true by (symmetry; apply Z.ltb_lt; lia). reflexivity.
  - destruct (aget_in_range l i) as [a Ha]; [lia|]. exists a; split; [assumption|lia].
  - split; [|lia]. unfold aget. replace (zlen l <=? i) with true by (symmetry; apply Z.leb_le; lia).
    rewrite orb_true_r. reflexivity.
Qed.

Lemma aget_not_err {A} (l : list A) i c : aget l i <> Err c.
Proof. destruct (aget_cases l i) as [[a [H _]]|[H _]]; rewrite H; discriminate. Qed.
Lemma aget_not_fuel {A} (l : list A) i : aget l i <> Fuel.
Proof. destruct (aget_cases l i) as [[a [H _]]|[H _]]; rewrite H; discriminate. Qed.

Lemma aget_nth {A} (l : list A) i a d : aget l i = Ok a -> nth (Z.to_nat i) l d = a.
Proof. intro H. apply aget_ok in H as [_ N]. apply nth_error_nth; assumption. Qed.

Lemma aget_nth_range {A} (l : list A) i d : 0 <= i < zlen l -> aget l i = Ok (nth (Z.to_nat i) l d).
Proof.
  intro R. apply aget_ok. split; [assumption|]. apply nth_error_nth'. unfold zlen in R. lia.
Qed.

Lemma aget_range {A} (l : list A) i a : aget l i = Ok a -> 0 <= i < zlen l.
Proof. intro H. apply aget_ok in H. tauto. Qed.

Lemma aget_In {A} (l : list A) i a : aget l i = Ok a -> In a l.
Proof. intro H. apply aget_ok in H as [_ N]. eapply nth_error_In; eauto. Qed.

(* aset *)
Lemma set_nat_some {A} (l : list A) i a : (i < length l)%nat -> exists l', set_nat l i a = Some l'.
Proof.
  revert i; induction l as [|h t IH]; intros [|i] H; simpl in *; try lia; eauto.
  destruct (IH i) as [l' E]; [lia|]. rewrite E. eauto.
Qed.

Lemma set_nat_nth {A} (l : list A) i a l' d k :
  set_nat l i a = Some l' -> nth k l' d = if Nat.eqb k i then a else nth k l d.
Proof.
  revert i l' k; induction l as [|h t IH]; intros [|i] l' k H; simpl in H; try discriminate.
  - inversion H; subst. destruct k; reflexivity.
  - destruct (set_nat t i a) eqn:E; [|discriminate]. inversion H; subst.
    destruct k; simpl; [reflexivity|]. apply IH; assumption.
Qed.

Lemma aset_cases {A} (l : list A) i a :
  (exists l', aset l i a = Ok l' /\ 0 <= i < zlen l /\ zlen l' = zlen l /\
      forall k d, nth k l' d = if Nat.eqb k (Z.to_nat i) then a else nth k l d)
  \/ (aset l i a = OOB /\ ~ (0 <= i < zlen l)).
Proof.
  unfold aset, set, zlen.
  destruct ((i <? 0) || (Z.of_nat (length l) <=? i)) eqn:E.
  - right. split; [reflexivity|]. apply orb_true_iff in E as [E|E];
    [apply Z.ltb_lt in E | apply Z.leb_le in E]; lia.
  - left. apply orb_false_iff in E as [E1 E2]. rewrite E1.
    apply Z.ltb_ge in E1. apply Z.leb_gt in E2.
    destruct (set_nat_some l (Z.to_nat i) a) as [l' S']; [lia|]. rewrite S'.
    exists l'. split; [reflexivity|]. split; [lia|]. split.
    + f_equal. eapply set_nat_length; eauto.
    + intros k d. eapply set_nat_nth; eauto.
Qed.

Lemma aset_not_err {A} (l : list A) i a c : aset l i a <> Err c.
Proof. destruct (aset_cases l i a) as [[l' [H _]]|[H _]]; rewrite H; discriminate. Qed.
Lemma aset_not_fuel {A} (l : list A) i a : aset l i a <> Fuel.
Proof. destruct (aset_cases l i a) as [[l' [H _]]|[H _]]; rewrite H; discriminate. Qed.

(* ---- for_loop rules ---- *)
Section ForLoop.
  Context {S : Type}.
  Variable body : Z -> S -> res S.

  (* soundness rule: an invariant carried through a successful run *)
  Lemma for_loop_inv (P : Z -> S -> Prop) n j s s' :
    P j s ->
    (forall i s1 s2, j <= i < j + Z.of_nat n -> P i s1 -> body i s1 = Ok s2 -> P (i + 1) s2) ->
    for_loop n j body s = Ok s' -> P (j + Z.of_nat n) s'.
  Proof.
    revert j s; induction n as [|n IH]; intros j s P0 Step H; simpl in H.
    - inversion H; subst. replace (j + Z.of_nat 0) with j by lia. assumption.
    - destruct (body j s) as [s1| | |] eqn:B; simpl in H; try discriminate.
      replace (j + Z.of_nat (Datatypes.S n)) with ((j + 1) + Z.of_nat n) by lia.
      apply IH with (s := s1); [| |assumption].
      + eapply Step; eauto. lia.
      + intros i a b R. apply Step. lia.
  Qed.

  (* completeness rule *)
  Lemma for_loop_complete (P : Z -> S -> Prop) n j s :
    P j s ->
    (forall i s1, j <= i < j + Z.of_nat n -> P i s1 -> exists s2, body i s1 = Ok s2 /\ P (i + 1) s2) ->
    exists s', for_loop n j body s = Ok s' /\ P (j + Z.of_nat n) s'.
  Proof.
    revert j s; induction n as [|n IH]; intros j s P0 Step; cbn [for_loop].
    - exists s. replace (j + Z.of_nat 0) with j by lia. auto.
    - destruct (Step j s) as [s1 [B P1]]; [lia|assumption|]. rewrite B; cbn [bind].
      replace (j + Z.of_nat (Datatypes.S n)) with ((j + 1) + Z.of_nat n) by lia.
      apply IH; [assumption|]. intros i a R. apply Step. lia.
  Qed.

  (* memory-safety rule *)
  Lemma for_loop_no_oob (P : Z -> S -> Prop) n j s :
    P j s ->
    (forall i s1, j <= i < j + Z.of_nat n -> P i s1 ->
        body i s1 <> OOB /\ forall s2, body i s1 = Ok s2 -> P (i + 1) s2) ->
    for_loop n j body s <> OOB.
  Proof.
    revert j s; induction n as [|n IH]; intros j s P0 Step; simpl; [discriminate|].
    destruct (Step j s) as [NB Nx]; [lia|assumption|].
    destruct (body j s) as [s1| | |] eqn:B; simpl; try discriminate; [|congruence].
    apply IH; [apply Nx; reflexivity|]. intros i a R. apply Step. lia.
  Qed.

  Lemma for_loop_no_fuel n j s :
    (forall i s1, body i s1 <> Fuel) -> for_loop n j body s <> Fuel.
  Proof.
    intro NF. revert j s; induction n as [|n IH]; intros j s; simpl; [discriminate|].
    destruct (body j s) as [s1| | |] eqn:B; simpl; try discriminate; [apply IH|].
    exfalso; eapply NF; eauto.
  Qed.
End ForLoop.

(* stateless loops: success iff every row passes *)
Lemma for_loop_unit_iff (body : Z -> unit -> res unit) n j :
  for_loop n j body tt = Ok tt <-> forall i, j <= i < j + Z.of_nat n -> body i tt = Ok tt.
Proof.
  revert j; induction n as [|n IH]; intro j; simpl.
  - split; [intros _ i R; lia | reflexivity].
  - split.
    + intro H. destruct (body j tt) as [[]| | |] eqn:B; simpl in H; try discriminate.
      intros i R. destruct (Z.eq_dec i j); [subst; assumption|].
      eapply IH in H; [eassumption|]. lia.
    + intro H. rewrite (H j) by lia. simpl. apply IH. intros i R. apply H. lia.
Qed.

(* small arithmetic helpers on booleans *)
Lemma orb_lt_ge_false a lo hi : (a <? lo) || (a >=? hi) = false <-> lo <= a < hi.
Proof.
  rewrite orb_false_iff. rewrite Z.ltb_ge. rewrite Z.geb_leb, Z.leb_gt. lia.
Qed.
