(* C02 — the property read as a rejection statement: a well-formed table collection that violates
   ANY clause of ValidTS is answered by a library error (never a tree count, never OOB / Fuel),
   and the gate is a function of validity: accept iff ValidTS.  Corollary of check_total_top and
   check_sound_top. *)
From Coq Require Import List ZArith.
Import ListNotations.
From TskVerif Require Import Base.Common C02.Fl C02.Model C02.Spec C02.Sound C02.Top.
Open Scope Z_scope.

Lemma check_rejects_invalid_proof t : WF t -> ~ ValidTS t -> exists c, check t = Err c.
Proof.
  intros W NV. destruct (check_total_top t W) as [(n & E)|(c & E)].
  - exfalso. apply NV. exact (check_sound_top t n W E).
  - exists c. exact E.
Qed.
