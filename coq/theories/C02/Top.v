(* C02/Top.v — the statements exported to Props/C02.v, in their final form, with
   non-vacuity examples. *)
From Coq Require Import List ZArith Bool Lia.
From TskVerif Require Import Base.Common C02.Fl C02.Model C02.Spec C02.Sound C02.NoOOB
  C02.SweepComplete C02.Refuted.
Import ListNotations.
Open Scope Z_scope.

(* (a) memory safety of the gate's logic, for the code as it is and for the repaired variant *)
Lemma check_no_oob_top : forall t, WF t -> check t <> OOB /\ check_repaired t <> OOB.
Proof. intros t W. split; apply check_no_oob_lemma; assumption. Qed.

(* (c) completeness, for both variants.  The bound excludes TSK_ERR_TREE_OVERFLOW (more than
   2^31-2 trees), which needs about 2^30 edges. *)
Lemma check_complete_top : forall t, WF t -> ValidTS t -> 2 * num_edges t + 1 < TSK_MAX_ID ->
  (exists n, check t = Ok n) /\ (exists n, check_repaired t = Ok n).
Proof. intros t W V B. split; apply check_complete_lemma; assumption. Qed.

(* the repaired gate decides ValidTS exactly *)
Lemma check_repaired_iff_top : forall t, WF t -> 2 * num_edges t + 1 < TSK_MAX_ID ->
  ((exists n, check_repaired t = Ok n) <-> ValidTS t).
Proof.
  intros t W B. split.
  - intros [n H]. eapply check_repaired_sound_lemma; eauto.
  - intro V. apply check_complete_lemma; assumption.
Qed.

(* non-vacuity: the hypotheses of the completeness theorem are met by a collection with edges,
   a site, a mutation with a known time, an individual, a population and a migration *)
Example complete_example : exists n, check ex_valid = Ok n.
Proof.
  apply check_complete_top; [|exact ex_valid_is_valid|vm_compute; reflexivity].
  apply ex_tables_WF. intros I O E. inversion E; subst. split; reflexivity.
Qed.
