(* C02/Top.v — the statements exported to Props/C02.v, in their final form, with
   non-vacuity examples. *)
From Coq Require Import List ZArith Bool Lia.
From TskVerif Require Import Base.Common C02.Fl C02.Model C02.Spec C02.Sound C02.NoOOB
  C02.SweepComplete C02.Refuted C02.Termination.
Import ListNotations.
Open Scope Z_scope.

(* (a) memory safety of the gate's logic, for the code as it is and for the repaired variant *)
Lemma check_no_oob_top : forall t, WF t -> check t <> OOB /\ check_repaired t <> OOB.
Proof. intros t W. split; apply check_no_oob_lemma; assumption. Qed.

(* (a') termination: with a finite sequence length the gate (the code as it is) never exhausts
   the model's loop fuel, whatever the cell values — in particular the main loop of
   check_tree_integrity runs at most 2*num_edges+2 times on any input.  No WF needed. *)
Lemma check_terminates_top : forall t Lz, seqlen t = Fin Lz -> check t <> Fuel.
Proof. intros t Lz HL. apply (check_terminates_lemma code_variant t Lz HL). Qed.

(* the repaired gate is total on reachable tables: it returns a tree count or a library error *)
Lemma check_repaired_total_top : forall t, WF t ->
  (exists n, check_repaired t = Ok n) \/ (exists c, check_repaired t = Err c).
Proof.
  intros t W. assert (NO := check_no_oob_lemma repaired t W).
  assert (NF : check_repaired t <> Fuel).
  { unfold check_repaired. destruct (seqlen t) eqn:E; try (unfold check_integrity; rewrite E; discriminate).
    apply (check_terminates_lemma repaired t z E). }
  unfold check_repaired in *. destruct (check_integrity repaired opts_trees t); eauto; congruence.
Qed.

(* (c) completeness, for both variants.  The bound excludes TSK_ERR_TREE_OVERFLOW (more than
   2^31-2 trees), which needs about 2^30 edges. *)
Lemma check_complete_top : forall t, WF t -> ValidTS t -> 2 * num_edges t + 1 < TSK_MAX_ID ->
  (exists n, check t = Ok n) /\ (exists n, check_repaired t = Ok n).
Proof.
  intros t W V B. split.
  - destruct (check_complete_lemma code_variant t W V B) as [n [E _]]. exists n; exact E.
  - destruct (check_complete_lemma repaired t W V B) as [n [E _]]. exists n; exact E.
Qed.

(* the returned number of trees is the number of distinct breakpoints below L *)
Lemma check_count_top : forall t n Lz, WF t -> ValidTS t -> 2 * num_edges t + 1 < TSK_MAX_ID ->
  seqlen t = Fin Lz -> check t = Ok n -> n = num_trees_spec t Lz.
Proof.
  intros t n Lz W V B HL H. destruct (check_complete_lemma code_variant t W V B) as [n' [E C]].
  unfold check in H. rewrite E in H. inversion H; subst. apply C. assumption.
Qed.

Lemma check_repaired_count_top : forall t n Lz, WF t -> 2 * num_edges t + 1 < TSK_MAX_ID ->
  seqlen t = Fin Lz -> check_repaired t = Ok n -> n = num_trees_spec t Lz.
Proof.
  intros t n Lz W B HL H. assert (V := check_repaired_sound_lemma t n W H).
  destruct (check_complete_lemma repaired t W V B) as [n' [E C]].
  unfold check_repaired in H. rewrite E in H. inversion H; subst. apply C. assumption.
Qed.

(* the repaired gate decides ValidTS exactly *)
Lemma check_repaired_iff_top : forall t, WF t -> 2 * num_edges t + 1 < TSK_MAX_ID ->
  ((exists n, check_repaired t = Ok n) <-> ValidTS t).
Proof.
  intros t W B. split.
  - intros [n H]. eapply check_repaired_sound_lemma; eauto.
  - intro V. destruct (check_complete_lemma repaired t W V B) as [n [E _]]. exists n; exact E.
Qed.

(* non-vacuity: the hypotheses of the completeness theorem are met by a collection with edges,
   a site, a mutation with a known time, an individual, a population and a migration *)
Example complete_example : exists n, check ex_valid = Ok n.
Proof.
  apply check_complete_top; [|exact ex_valid_is_valid|vm_compute; reflexivity].
  apply ex_tables_WF. intros I O E. inversion E; subst. split; reflexivity.
Qed.

(* F1 also breaks the tree count on the code as it is: edges [0,2) and [0,4) of two children,
   removal order [1,1]: accepted with 1 tree where the tables define 2 *)
Example f1_wrong_count :
  let t := mkTables (Fin 4) 0 0 [] [0] [Fin 0; Fin 0; Fin 2] [-1; -1; -1] [-1; -1; -1]
             [Fin 0; Fin 0] [Fin 2; Fin 4] [2; 2] [0; 1] [] [] [] [] [] [] [] [] [] [] [] []
             (Some ([0; 1], [1; 1])) in
  check_integrity faithful opts_trees t = Ok 1 /\ num_trees_spec t 4 = 2 /\
  check_repaired t = Err E_TABLES_BAD_INDEXES.
Proof. repeat split; vm_compute; reflexivity. Qed.

(* ---- after the fix commits: [check] IS the repaired gate ---- *)
Lemma check_is_repaired : forall t, check t = check_repaired t.
Proof. reflexivity. Qed.

Lemma check_sound_top : forall t n, WF t -> check t = Ok n -> ValidTS t.
Proof. exact check_repaired_sound_lemma. Qed.

Lemma check_iff_top : forall t, WF t -> 2 * num_edges t + 1 < TSK_MAX_ID ->
  ((exists n, check t = Ok n) <-> ValidTS t).
Proof. exact check_repaired_iff_top. Qed.

Lemma check_total_top : forall t, WF t ->
  (exists n, check t = Ok n) \/ (exists c, check t = Err c).
Proof. exact check_repaired_total_top. Qed.

Lemma check_accepted_count_top : forall t n Lz, WF t -> 2 * num_edges t + 1 < TSK_MAX_ID ->
  seqlen t = Fin Lz -> check t = Ok n -> n = num_trees_spec t Lz.
Proof. exact check_repaired_count_top. Qed.

Lemma check_no_oob_now : forall t, WF t -> check t <> OOB.
Proof. intros t W. apply check_no_oob_lemma; assumption. Qed.

Lemma check_terminates_now : forall t, check t <> Fuel.
Proof.
  intro t. unfold check. destruct (seqlen t) eqn:E; try (unfold check_integrity; rewrite E; discriminate).
  apply (check_terminates_lemma code_variant t z E).
Qed.

Lemma check_complete_now : forall t, WF t -> ValidTS t -> 2 * num_edges t + 1 < TSK_MAX_ID ->
  exists n, check t = Ok n.
Proof. intros t W V B. destruct (check_complete_lemma code_variant t W V B) as [n [E _]]. exists n; exact E. Qed.
