(* C02/Complete.v — completeness of the gate: every table collection satisfying ValidTS (and
   the reachable-state invariant WF) is accepted, by the code as it is and by the repaired
   variant alike. *)
From Coq Require Import List ZArith Bool Lia Permutation.
From TskVerif Require Import Base.Common C02.Fl C02.Model C02.Arr C02.Tac C02.Spec C02.TableSound
  C02.EdgeSound C02.MutSound C02.ListX C02.SweepSound.
Import ListNotations.
Open Scope Z_scope.

Lemma aget_zat l i : 0 <= i < zlen l -> aget l i = Ok (zat l i).
Proof. intro R. unfold zat. apply aget_nth_range. assumption. Qed.
Lemma aget_fat l i : 0 <= i < zlen l -> aget l i = Ok (fat l i).
Proof. intro R. unfold fat. apply aget_nth_range. assumption. Qed.
Lemma err_if_false {A} b c (k : res A) : b = false -> err_if b c k = k.
Proof. intro H. rewrite H. reflexivity. Qed.

Ltac rng := unfold num_nodes, num_edges, num_sites, num_mutations, num_migrations, zlen in *; lia.
(* forward steps on a goal  <monadic term> = Ok _  *)
Ltac fz := rewrite aget_zat by rng; cbn [bind].
Ltac ff := rewrite aget_fat by rng; cbn [bind].
Ltac fe := rewrite err_if_false; [|].

Lemma orb_false_intro' a b : a = false -> b = false -> a || b = false.
Proof. intros; subst; reflexivity. Qed.
Lemma ltb_false a b : b <= a -> (a <? b) = false. Proof. intro; apply Z.ltb_ge; lia. Qed.
Lemma geb_false a b : a < b -> (a >=? b) = false. Proof. intro; rewrite Z.geb_leb; apply Z.leb_gt; lia. Qed.
Lemma gtb_false a b : a <= b -> (a >? b) = false. Proof. intro; rewrite Z.gtb_ltb; apply Z.ltb_ge; lia. Qed.
Lemma eqb_false a b : a <> b -> (a =? b) = false. Proof. intro; apply Z.eqb_neq; assumption. Qed.
Lemma range_chk a lo hi : lo <= a < hi -> (a <? lo) || (a >=? hi) = false.
Proof. intro. apply orb_false_intro'; [apply ltb_false|apply geb_false]; lia. Qed.

Section TableComplete.
  Variable t : tables.
  Variable o : opts.      (* any option set that does not ask for individual ordering *)
  Hypothesis Hpop : o_no_check_population_refs o = false.
  Hypothesis Hind : o_individual_ordering o = false.
  Hypothesis W : WF t.
  Hypothesis VOff : OffsetsOK t.
  Hypothesis VN : NodesOK t.
  Hypothesis VS : SitesOK t.
  Hypothesis VMig : MigsOK t.
  Hypothesis VInd : IndsOK t.

  Ltac lens :=
    pose proof (wf_node_pop t W); pose proof (wf_node_ind t W);
    pose proof (wf_edge_right t W); pose proof (wf_edge_parent t W); pose proof (wf_edge_child t W);
    pose proof (wf_mut_node t W); pose proof (wf_mut_parent t W); pose proof (wf_mut_time t W);
    pose proof (wf_mig_right t W); pose proof (wf_mig_node t W); pose proof (wf_mig_source t W);
    pose proof (wf_mig_dest t W); pose proof (wf_mig_time t W).

  Lemma offsets_complete_one n off len : 0 <= n -> zlen off = n + 1 ->
    zat off 0 = 0 -> zat off n = len -> (forall j, 0 <= j < n -> zat off j <= zat off (j + 1)) ->
    check_offsets n off len = Ok tt.
  Proof.
    intros Hn L O0 On Mo. unfold check_offsets.
    fz. fe; [|rewrite O0; reflexivity]. fz. fe; [|rewrite On, Z.eqb_refl; reflexivity].
    apply for_loop_unit_iff. intros j R. fz. fz. fe; [reflexivity|]. apply gtb_false. apply Mo. lia.
  Qed.

  Lemma offsets_complete : check_all_offsets (ragged t) = Ok tt.
  Proof.
    assert (A := wf_ragged t W). assert (B := VOff). unfold OffsetsOK in B.
    induction (ragged t) as [|[[n off] len] r IH]; [reflexivity|].
    inversion A; subst. inversion B; subst. destruct H1 as [Hn Hl]. destruct H3 as [O0 [On Mo]].
    simpl. rewrite offsets_complete_one by assumption. simpl. apply IH; assumption.
  Qed.

  Lemma nodes_complete : check_node_integrity o t = Ok tt.
  Proof.
    unfold check_node_integrity. apply for_loop_unit_iff. intros j R. lens.
    destruct (VN j ltac:(rng)) as [F [P I]].
    rewrite Hpop. cbn [negb].
    ff. fe; [|rewrite F; reflexivity]. fz. fe; [|apply range_chk; unfold TSK_NULL; lia]. cbn [bind].
    fz. fe; [reflexivity|apply range_chk; unfold TSK_NULL; lia].
  Qed.

  Lemma sites_complete : check_site_integrity o t = Ok tt.
  Proof.
    unfold check_site_integrity. apply for_loop_unit_iff. intros j R.
    destruct (VS) as [S1 S2]. destruct (S1 j ltac:(rng)) as [x [E [P Q]]].
    ff. rewrite E. fe; [|reflexivity]. fe; [|apply orb_false_intro'; [unfold F0; simpl; apply ltb_false; lia|assumption]].
    destruct (j >? 0) eqn:C; [|reflexivity]. b2z. ff.
    specialize (S2 j ltac:(rng)). destruct (S1 (j - 1) ltac:(rng)) as [y [Ey _]]. rewrite E, Ey in *.
    simpl in S2. b2z.
    fe; [|apply andb_false_iff; right; simpl; apply eqb_false; lia]. fe; [reflexivity|].
    apply andb_false_iff; right. unfold fgt. simpl. apply ltb_false. lia.
  Qed.

  Lemma migs_complete : check_migration_integrity o t = Ok tt.
  Proof.
    unfold check_migration_integrity. apply for_loop_unit_iff. intros j R. lens.
    destruct (VMig) as [M1 M2].
    destruct (M1 j ltac:(rng)) as [Rn [Rs [Rd [Ft [l [r [El [Er [Rlr RL]]]]]]]]].
    rewrite Hpop. cbn [negb].
    fz. fe; [|apply range_chk; assumption]. fz. fe; [|apply range_chk; assumption].
    fz. fe; [|apply range_chk; assumption]. cbn [bind].
    ff. fe; [|rewrite Ft; reflexivity].
    assert (ORD : (if j >? 0 then do prev <- aget (mig_time t) (j - 1);
                     check! o_migration_ordering o && fgt prev (fat (mig_time t) j) else E_UNSORTED_MIGRATIONS; Ok tt else Ok tt) = Ok tt).
    { destruct (j >? 0) eqn:C; [|reflexivity]. b2z. ff. fe; [reflexivity|].
      specialize (M2 j ltac:(rng)). destruct (M1 (j - 1) ltac:(rng)) as [_ [_ [_ [Fp _]]]].
      apply isfinite_fin in Ft as [a Ea]. apply isfinite_fin in Fp as [b Eb]. rewrite Ea, Eb in *.
      rewrite fle_fin in M2. apply andb_false_iff; right. unfold fgt. simpl. b2z. apply ltb_false. lia. }
    rewrite ORD. cbn [bind]. ff. ff. rewrite El, Er.
    fe; [|reflexivity]. fe; [|unfold F0; simpl; apply ltb_false; lia]. fe; [|assumption].
    fe; [reflexivity|]. unfold fge. rewrite fle_fin. apply Z.leb_gt. lia.
  Qed.

  Lemma inds_complete : check_individual_integrity o t = Ok tt.
  Proof.
    unfold check_individual_integrity. apply for_loop_unit_iff. intros j R.
    destruct (wf_nind t W) as [N0 NL]. assert (Rj : 0 <= j < nind t) by lia.
    destruct (wf_ind_offsets t W j Rj) as [O1 O2].
    fz. fz. apply for_loop_unit_iff. intros k Rk.
    destruct (VInd j Rj k ltac:(lia)) as [P1 P2]. cbv zeta in P1, P2.
    rewrite Hind. cbn [andb].
    fz. unfold TSK_NULL.
    fe; [|destruct P1 as [P1|P1]; [rewrite P1; reflexivity|
           apply andb_false_iff; right; apply range_chk; assumption]].
    fe; [|apply eqb_false; assumption]. reflexivity.
  Qed.
End TableComplete.

Section EdgeComplete.
  Variable t : tables.
  Variable o : opts.
  Hypothesis Ho : o_edge_ordering o = true.
  Hypothesis W : WF t.
  Hypothesis VN : NodesOK t.
  Hypothesis VER : EdgeRowsOK t.
  Hypothesis VEO : EdgeOrderOK t.

  Let N := num_nodes t.
  Let el e := fat (edge_left t) e.
  Let er e := fat (edge_right t) e.
  Let ep e := zat (edge_parent t) e.
  Let ec e := zat (edge_child t) e.

  Definition einv (i : Z) (s : edge_state) : Prop :=
    zlen (parent_seen s) = N /\
    (i > 0 -> last_parent s = ep (i - 1) /\ last_child s = ec (i - 1) /\ last_left s = el (i - 1)) /\
    (forall u, 0 <= u < N -> nth (Z.to_nat u) (parent_seen s) false = true ->
        exists a, 0 <= a /\ a + 1 < i /\ ep a = u /\ ep (a + 1) <> u).

  Lemma edge_step_complete i s1 : 0 <= i < num_edges t -> einv i s1 ->
    exists s2, edge_body o t i s1 = Ok s2 /\ einv (i + 1) s2.
  Proof.
    intros Ri [LS [ST SE]].
    pose proof (wf_edge_right t W); pose proof (wf_edge_parent t W); pose proof (wf_edge_child t W).
    destruct (VER i Ri) as [RP [RC [[l [r [El [Er [Rlr RL]]]]] TO]]].
    fold (ep i) in RP. fold (ec i) in RC, TO. fold (ep i) in TO. fold N in RP, RC.
    destruct (VN (ep i) RP) as [FP _]. destruct (VN (ec i) RC) as [FC _].
    apply isfinite_fin in FP as [tp ETP]. apply isfinite_fin in FC as [tc ETC].
    rewrite ETP, ETC in TO. simpl in TO. b2z.
    unfold edge_body. rewrite Ho.
    fz. fz. ff. ff. fold (ep i) (ec i). rewrite El, Er. unfold TSK_NULL.
    fe; [|apply eqb_false; lia]. fe; [|apply range_chk; assumption].
    fe; [|apply eqb_false; lia]. fe; [|apply range_chk; assumption].
    fe; [|reflexivity]. fe; [|unfold F0; simpl; apply ltb_false; lia]. fe; [|assumption].
    fe; [|unfold fge; rewrite fle_fin; apply Z.leb_gt; lia].
    ff. ff. rewrite ETP, ETC.
    fe; [|unfold fge; rewrite fle_fin; apply Z.leb_gt; lia].
    (* parent_seen[parent] is false *)
    assert (SEEN : aget (parent_seen s1) (ep i) = Ok false).
    { rewrite (aget_nth_range _ _ false) by (rewrite LS; assumption). f_equal.
      destruct (nth (Z.to_nat (ep i)) (parent_seen s1) false) eqn:E; [|reflexivity]. exfalso.
      destruct (SE (ep i) RP E) as [a [A0 [A1 [A2 A3]]]].
      destruct (VEO) as [_ CT].
      specialize (CT a i ltac:(lia) ltac:(lia) A2 (a + 1) ltac:(lia)). fold (ep (a + 1)) (ep a) in CT. congruence. }
    rewrite SEEN. cbn [bind]. fe; [|reflexivity].
    destruct (i >? 0) eqn:Pos.
    2:{ cbn [bind]. eexists. split; [reflexivity|]. b2z. assert (i = 0) by lia. subst i.
        split; [assumption|]. split; [intros _; simpl; auto|].
        intros u Ru Hu. destruct (SE u Ru Hu) as [a [A0 [A1 _]]]. lia. }
    b2z. destruct (ST ltac:(lia)) as [LP [LC LL]].
    destruct (VER (i - 1) ltac:(lia)) as [RP1 [RC1 [[l1 [r1 [El1 [Er1 [Rlr1 RL1]]]]] _]]].
    fold (ep (i - 1)) in RP1. fold N in RP1.
    destruct (VN (ep (i - 1)) RP1) as [FP1 _]. apply isfinite_fin in FP1 as [tp1 ETP1].
    destruct (VEO) as [OO CT]. destruct (OO i ltac:(lia)) as [O1 O2].
    fold (ep (i - 1)) (ep i) (ec (i - 1)) (ec i) (el (i - 1)) (el i) in O1, O2.
    rewrite ETP, ETP1, fle_fin in O1. b2z.
    rewrite LP. ff. rewrite ETP1.
    fe; [|simpl; apply ltb_false; lia].
    assert (FIN : forall ps, zlen ps = N ->
       (forall u, 0 <= u < N -> nth (Z.to_nat u) ps false = true ->
          exists a, 0 <= a /\ a + 1 < i + 1 /\ ep a = u /\ ep (a + 1) <> u) ->
       exists s2, Ok (mkES ps (ep i) (ec i) (Fin l)) = Ok s2 /\ einv (i + 1) s2).
    { intros ps Lps Sps. eexists. split; [reflexivity|]. split; [assumption|]. split; [|assumption].
      intros _. replace (i + 1 - 1) with i by lia. simpl. fold (el i) in El. auto. }
    assert (KEEP : forall u, 0 <= u < N -> nth (Z.to_nat u) (parent_seen s1) false = true ->
          exists a, 0 <= a /\ a + 1 < i + 1 /\ ep a = u /\ ep (a + 1) <> u).
    { intros u Ru Hu. destruct (SE u Ru Hu) as [a [A0 [A1 A2]]]. exists a. split; [lia|]. split; [lia|assumption]. }
    simpl (feq (Fin tp) (Fin tp1)). destruct (tp =? tp1) eqn:TE.
    2:{ cbn [bind]. apply FIN; assumption. }
    destruct (ep i =? ep (i - 1)) eqn:PE.
    - b2z. specialize (O2 ltac:(congruence)). rewrite LC, LL. fold (el (i - 1)) in El1. fold (el i) in El.
      rewrite El1, El in *.
      fe; [|apply ltb_false; lia].
      destruct (ec i =? ec (i - 1)) eqn:CE.
      + b2z. destruct O2 as [O2|[_ O2]]; [lia|]. simpl in O2. b2z.
        fe; [|simpl; apply eqb_false; lia]. fe; [|simpl; apply ltb_false; lia].
        cbn [bind]. apply FIN; assumption.
      + cbn [bind]. apply FIN; assumption.
    - b2z. destruct (aset_cases (parent_seen s1) (ep (i - 1)) true) as [[ps' [A [RA [LA NA]]]]|[A NR]].
      2:{ exfalso. apply NR. rewrite LS. assumption. }
      rewrite A. cbn [bind]. apply FIN; [lia|].
      intros u Ru Hu. rewrite NA in Hu.
      destruct (Nat.eqb (Z.to_nat u) (Z.to_nat (ep (i - 1)))) eqn:UE.
      + apply Nat.eqb_eq in UE. assert (u = ep (i - 1)) by lia. subst u.
        exists (i - 1). replace (i - 1 + 1) with i by lia. repeat split; try lia; try congruence.
      + apply KEEP; assumption.
  Qed.

  Lemma edges_complete : check_edge_integrity o t = Ok tt.
  Proof.
    unfold check_edge_integrity.
    destruct (for_loop_complete (edge_body o t) (fun i s => 0 <= i /\ einv i s)
               (length (edge_left t)) 0 (mkES (repeat false (length (node_time t))) 0 0 F0)) as [s' [H _]].
    - split; [lia|]. unfold einv. cbn [parent_seen last_parent last_child last_left].
      split; [unfold zlen, N, num_nodes; rewrite repeat_length; reflexivity|].
      split; [lia|]. intros u Ru Hu. exfalso.
      assert (E : nth (Z.to_nat u) (repeat false (length (node_time t))) false = false).
      { clear. generalize (Z.to_nat u). induction (length (node_time t)); intros [|n0]; simpl; auto. }
      congruence.
    - intros i s1 R [R0 I1]. destruct (edge_step_complete i s1) as [s2 [B I2]]; [rng|assumption|].
      exists s2. split; [assumption|]. split; [lia|assumption].
    - rewrite H. reflexivity.
  Qed.
End EdgeComplete.

Lemma fle_not_fgt a b : fle a b = true -> fgt a b = false.
Proof.
  unfold fle, fgt. destruct a, b; simpl; intro H; try reflexivity; try discriminate.
  apply orb_true_iff in H. apply Z.ltb_ge. destruct H as [H|H]; b2z; lia.
Qed.

Section MutComplete.
  Variable t : tables.
  Variable o : opts.      (* with or without TSK_CHECK_MUTATION_ORDERING *)
  Hypothesis W : WF t.
  Hypothesis VN : NodesOK t.
  Hypothesis VMR : MutRowsOK t.
  Hypothesis VMO : MutOrderOK t.
  Hypothesis VMX : MutKnownUnknownOK t.

  Let ms m := zat (mut_site t) m.
  Let mp m := zat (mut_parent t) m.
  Let mtm m := fat (mut_time t) m.
  Let unk m := is_unknown (fat (mut_time t) m).
  Let ordering := o_mutation_ordering o.

  Definition minvc (i : Z) (s : mut_state) : Prop :=
    num_known s >= 0 /\ num_unknown s >= 0 /\
    (i = 0 -> num_known s = 0 /\ num_unknown s = 0 /\ last_known_time s = FPInf) /\
    (i > 0 -> (unk (i - 1) = true -> num_known s = 0) /\
              (unk (i - 1) = false -> num_unknown s = 0 /\
                 (ordering = true -> last_known_time s = mtm (i - 1)))).

  Lemma mut_step_complete i s1 : 0 <= i < num_mutations t -> minvc i s1 ->
    exists s2, mut_body o t i s1 = Ok s2 /\ minvc (i + 1) s2.
  Proof.
    intros Ri [NK [NU [I0 IP]]].
    pose proof (wf_mut_node t W); pose proof (wf_mut_parent t W); pose proof (wf_mut_time t W).
    destruct (VMR i Ri) as [RS [RN [RPa [TM PA]]]]. cbv zeta in RPa, TM, PA.
    unfold mut_body. fold ordering.
    fz. fe; [|apply range_chk; assumption]. fz. fe; [|apply range_chk; assumption].
    fz. unfold TSK_NULL. fe; [|apply range_chk; lia]. fe; [|apply eqb_false; lia].
    ff. cbv zeta. fold (unk i). fold (ms i) (mp i) (mtm i).
    (* time of the row *)
    assert (T1 : (if negb (unk i) then
                    check! negb (isfinite (mtm i)) else E_TIME_NONFINITE;
                    do nt <- aget (node_time t) (zat (mut_node t) i);
                    check! flt (mtm i) nt else E_MUTATION_TIME_YOUNGER_THAN_NODE; Ok tt
                  else Ok tt) = Ok tt).
    { destruct (unk i) eqn:U; [reflexivity|]. simpl. destruct TM as [TM|[F LE]]; [unfold unk in U; congruence|].
      fold (mtm i) in F, LE. fe; [|rewrite F; reflexivity]. ff.
      destruct (VN _ RN) as [FN _]. apply isfinite_fin in FN as [y Ey]. apply isfinite_fin in F as [x Ex].
      rewrite Ey, Ex in *. rewrite fle_fin in LE. b2z. fe; [reflexivity|]. simpl. apply ltb_false. lia. }
    rewrite T1. cbn [bind].
    (* the reset *)
    set (sr := if (i >? 0) && negb (ms (i - 1) =? ms i) then mkMS FPInf 0 0 else s1).
    assert (T2 : (if i >? 0 then do prev_site <- aget (mut_site t) (i - 1);
                    if negb (prev_site =? ms i) then Ok (mkMS FPInf 0 0) else Ok s1 else Ok s1) = Ok sr).
    { unfold sr. destruct (i >? 0) eqn:C; [|reflexivity]. b2z. fz. fold (ms (i - 1)).
      destruct (negb (ms (i - 1) =? ms i)); reflexivity. }
    rewrite T2. cbn [bind].
    assert (SR : num_known sr >= 0 /\ num_unknown sr >= 0 /\
                 (unk i = true -> num_known sr = 0) /\
                 (unk i = false -> num_unknown sr = 0 /\
                    (ordering = true -> fgt (mtm i) (last_known_time sr) = false))).
    { assert (FRESH : forall x, fgt x FPInf = false) by (intros []; reflexivity).
      unfold sr. destruct (i >? 0) eqn:C.
      - b2z. destruct (ms (i - 1) =? ms i) eqn:SE; simpl; [|repeat split; try lia; auto].
        b2z. destruct (IP ltac:(lia)) as [IU IK].
        assert (MIX := VMX (i - 1) i ltac:(lia) ltac:(lia) SE). fold (unk (i - 1)) (unk i) in MIX.
        split; [assumption|]. split; [assumption|]. split.
        + intro U. apply IU. congruence.
        + intro U. destruct (IK ltac:(congruence)) as [K1 K2]. split; [assumption|]. intro OR. rewrite (K2 OR).
          destruct (VMO i ltac:(lia)) as [_ O2]. apply fle_not_fgt. apply O2; assumption.
      - b2z. simpl. destruct (I0 ltac:(lia)) as [A [B C']]. rewrite A, B, C'.
        repeat split; try lia; auto. }
    destruct SR as [NK' [NU' [SU SK]]].
    fe.
    2:{ destruct (unk i) eqn:U.
        - rewrite (SU eq_refl). apply andb_false_iff. right. reflexivity.
        - destruct (SK eq_refl) as [Q _]. rewrite Q. reflexivity. }
    (* the parent *)
    assert (T3 : (if negb (mp i =? -1) then
                    do psite <- aget (mut_site t) (mp i);
                    check! negb (psite =? ms i) else E_MUTATION_PARENT_DIFFERENT_SITE;
                    if negb (unk i) then
                      do pt <- aget (mut_time t) (mp i);
                      check! fgt (mtm i) pt else E_MUTATION_TIME_OLDER_THAN_PARENT_MUTATION; Ok tt
                    else Ok tt
                  else Ok tt) = Ok tt).
    { destruct (mp i =? -1) eqn:C; [reflexivity|]. b2z. simpl. fold (mp i) in PA, RPa.
      destruct (PA C) as [PS PT]. fz. fe; [|unfold ms; rewrite PS, Z.eqb_refl; reflexivity].
      destruct (unk i) eqn:U; [reflexivity|]. simpl. ff. fe; [reflexivity|].
      apply fle_not_fgt. apply PT. assumption. }
    rewrite T3. cbn [bind].
    destruct ordering eqn:OR.
    - assert (T4 : (if i >? 0 then do prev_site <- aget (mut_site t) (i - 1);
                      check! (prev_site >? ms i) else E_UNSORTED_MUTATIONS; Ok tt else Ok tt) = Ok tt).
      { destruct (i >? 0) eqn:C; [|reflexivity]. b2z. fz. fe; [reflexivity|].
        destruct (VMO i ltac:(lia)) as [O1 _]. apply gtb_false. assumption. }
      rewrite T4. cbn [bind].
      fe; [|apply andb_false_iff; right; apply gtb_false; fold (mp i) in RPa; lia].
      destruct (unk i) eqn:U; simpl.
      + eexists. split; [reflexivity|]. unfold minvc. simpl. replace (i + 1 - 1) with i by lia. fold (unk i). rewrite U.
        split; [lia|]. split; [lia|]. split; [intro; lia|]. intros _. split; [intros _; apply SU; reflexivity|intro; discriminate].
      + destruct (SK eq_refl) as [Q1 Q2]. fe; [|apply Q2; reflexivity].
        eexists. split; [reflexivity|]. unfold minvc. simpl. replace (i + 1 - 1) with i by lia. fold (unk i). rewrite U.
        split; [lia|]. split; [lia|]. split; [intro; lia|]. intros _. split; [intro; discriminate|intros _; auto].
    - eexists. split; [reflexivity|]. unfold minvc. cbn [num_known num_unknown last_known_time].
      replace (i + 1 - 1) with i by lia. fold (unk i).
      destruct (unk i) eqn:U.
      + split; [lia|]. split; [lia|]. split; [intro; lia|]. intros _. split; [intros _; apply SU; reflexivity|intro; discriminate].
      + destruct (SK eq_refl) as [Q1 _].
        split; [lia|]. split; [lia|]. split; [intro; lia|]. intros _. split; [intro; discriminate|].
        intros _. split; [assumption|]. intro Q. congruence.
  Qed.

  Lemma muts_complete : check_mutation_integrity o t = Ok tt.
  Proof.
    unfold check_mutation_integrity.
    destruct (for_loop_complete (mut_body o t) (fun i s => 0 <= i /\ minvc i s)
               (length (mut_site t)) 0 (mkMS FPInf 0 0)) as [s' [H _]].
    - split; [lia|]. unfold minvc. simpl. repeat split; try lia.
    - intros i s1 R [R0 I1]. destruct (mut_step_complete i s1) as [s2 [B I2]]; [rng|assumption|].
      exists s2. split; [assumption|]. split; [lia|assumption].
    - rewrite H. reflexivity.
  Qed.
End MutComplete.
