(* C02/Tac.v — tactics for stepping through the monadic bodies of C02/Model.v. *)
From Coq Require Import List ZArith Bool Lia.
From TskVerif Require Import Base.Common C02.Fl C02.Model C02.Arr.
Open Scope Z_scope.

(* one step through a hypothesis of the form  <monadic term> = Ok _ *)
Ltac step H :=
  lazymatch type of H with
  | bind ?r _ = Ok _ =>
      let E := fresh "G" in destruct r eqn:E; cbn [bind] in H; [|discriminate H ..]
  | err_if ?b _ _ = Ok _ =>
      let E := fresh "B" in destruct b eqn:E; cbn [err_if] in H; [discriminate H|]
  | (if ?b then _ else _) = Ok _ =>
      let E := fresh "C" in destruct b eqn:E
  | Ok _ = Ok _ => inversion H; subst; clear H
  end.

(* all the way, descending into nested binds *)
Ltac steps H :=
  lazymatch type of H with
  | bind ?r _ = Ok _ =>
      let E := fresh "G" in destruct r eqn:E; cbn [bind] in H; [steps E; steps H|discriminate H ..]
  | err_if ?b _ _ = Ok _ =>
      let E := fresh "B" in destruct b eqn:E; cbn [err_if] in H; [discriminate H|steps H]
  | (if ?b then _ else _) = Ok _ =>
      let E := fresh "C" in destruct b eqn:E; steps H
  | Ok _ = Ok _ => inversion H; subst; clear H
  | _ => idtac
  end.

(* boolean facts to linear arithmetic *)
Ltac b2z :=
  repeat match goal with
  | H : (_ || _) = false |- _ => apply orb_false_iff in H; destruct H
  | H : (_ && _) = true |- _ => apply andb_true_iff in H; destruct H
  | H : negb _ = true |- _ => apply negb_true_iff in H
  | H : negb _ = false |- _ => apply negb_false_iff in H
  | H : (_ <? _) = true |- _ => apply Z.ltb_lt in H
  | H : (_ <? _) = false |- _ => apply Z.ltb_ge in H
  | H : (_ <=? _) = true |- _ => apply Z.leb_le in H
  | H : (_ <=? _) = false |- _ => apply Z.leb_gt in H
  | H : (_ >? _) = true |- _ => rewrite Z.gtb_ltb in H; apply Z.ltb_lt in H
  | H : (_ >? _) = false |- _ => rewrite Z.gtb_ltb in H; apply Z.ltb_ge in H
  | H : (_ >=? _) = true |- _ => rewrite Z.geb_leb in H; apply Z.leb_le in H
  | H : (_ >=? _) = false |- _ => rewrite Z.geb_leb in H; apply Z.leb_gt in H
  | H : (_ =? _) = true |- _ => apply Z.eqb_eq in H
  | H : (_ =? _) = false |- _ => apply Z.eqb_neq in H
  end.

(* finiteness facts: replace a finite Fl variable by [Fin z] *)
Ltac fins :=
  repeat match goal with
  | H : negb (isfinite ?a) = false |- _ => apply negb_false_iff in H
  | H : negb (isfinite ?a && isfinite ?b) = false |- _ =>
      apply negb_false_iff in H; apply andb_true_iff in H; destruct H
  | H : isfinite ?a = true |- _ =>
      is_var a; let z := fresh "z" in apply isfinite_fin in H; destruct H as [z H]; subst a
  end.

(* named variants *)
Ltac stepn H x E :=
  lazymatch type of H with
  | bind ?r _ = Ok _ => destruct r as [x| | |] eqn:E; cbn [bind] in H; [|discriminate H ..]
  end.
Ltac stepc H E :=
  lazymatch type of H with
  | err_if ?b _ _ = Ok _ => destruct b eqn:E; cbn [err_if] in H; [discriminate H|]
  end.
