(* C02/NoOOB.v — memory safety of the gate's logic: on every table collection satisfying the
   reachable-state invariant WF (equal column lengths, well-formed ragged offsets, index arrays
   as long as the edge table) but with ARBITRARY cell values, check_integrity never returns
   OOB: every id is range-checked before it is used as an array index. *)
From Coq Require Import List ZArith Bool Lia.
From TskVerif Require Import Base.Common C02.Fl C02.Model C02.Arr C02.Tac C02.Spec C02.TableSound
  C02.EdgeSound C02.MutSound C02.ListX C02.SweepSound.
Import ListNotations.
Open Scope Z_scope.

(* [okp Q r]: r is not OOB, and if it is Ok a then Q a *)
Definition okp {A} (Q : A -> Prop) (r : res A) : Prop :=
  match r with Ok a => Q a | OOB => False | _ => True end.

Lemma okp_not_oob {A} (Q : A -> Prop) r : okp Q r -> r <> OOB.
Proof. destruct r; simpl; intros H E; try discriminate; assumption. Qed.

Lemma okp_weaken {A} (Q Q' : A -> Prop) r : (forall a, Q a -> Q' a) -> okp Q r -> okp Q' r.
Proof. destruct r; simpl; auto. Qed.

Lemma okp_bind {A B} (Q : B -> Prop) (r : res A) f :
  r <> OOB -> (forall a, r = Ok a -> okp Q (f a)) -> okp Q (bind r f).
Proof. destruct r; simpl; intros H1 H2; auto. Qed.

Lemma okp_bind2 {A B} (P : A -> Prop) (Q : B -> Prop) (r : res A) f :
  okp P r -> (forall a, P a -> okp Q (f a)) -> okp Q (bind r f).
Proof. destruct r; simpl; intros H1 H2; auto. Qed.

Lemma okp_aget {A B} (Q : B -> Prop) (l : list A) i f :
  0 <= i < zlen l -> (forall a, aget l i = Ok a -> okp Q (f a)) -> okp Q (bind (aget l i) f).
Proof.
  intros R H. destruct (aget_cases l i) as [[a [E _]]|[E NR]]; [|tauto].
  rewrite E. simpl. auto.
Qed.

Lemma okp_aset {A B} (Q : B -> Prop) (l : list A) i a f :
  0 <= i < zlen l ->
  (forall l', (forall k d, nth k l' d = if Nat.eqb k (Z.to_nat i) then a else nth k l d) ->
              zlen l' = zlen l -> okp Q (f l')) -> okp Q (bind (aset l i a) f).
Proof.
  intros R H. destruct (aset_cases l i a) as [[l' [E [_ [L NA]]]]|[E NR]]; [|tauto].
  rewrite E. simpl. auto.
Qed.

Lemma okp_aset_tail {A} (Q : list A -> Prop) (l : list A) i a :
  0 <= i < zlen l -> (forall l', zlen l' = zlen l -> Q l') -> okp Q (aset l i a).
Proof.
  intros R H. destruct (aset_cases l i a) as [[l' [E [_ [L _]]]]|[E NR]]; [|tauto].
  rewrite E. simpl. auto.
Qed.

Lemma okp_err_if {A} (Q : A -> Prop) b c k : (b = false -> okp Q k) -> okp Q (err_if b c k).
Proof. destruct b; simpl; auto. Qed.

Lemma for_loop_okp {St} (body : Z -> St -> res St) (P : Z -> St -> Prop) n j s :
  P j s ->
  (forall i s1, j <= i < j + Z.of_nat n -> P i s1 -> okp (P (i + 1)) (body i s1)) ->
  okp (P (j + Z.of_nat n)) (for_loop n j body s).
Proof.
  revert j s; induction n as [|n IH]; intros j s P0 Step; cbn [for_loop].
  - cbn [okp]. replace (j + Z.of_nat 0) with j by lia. assumption.
  - apply okp_bind2 with (P := P (j + 1)); [apply Step; [lia|assumption]|].
    intros s1 P1. replace (j + Z.of_nat (S n)) with (j + 1 + Z.of_nat n) by lia.
    apply IH; [assumption|]. intros i s2 R. apply Step. lia.
Qed.

(* one weakest-precondition step on a goal [okp Q <monadic term>] *)
Ltac wp :=
  lazymatch goal with
  | |- okp _ (bind (aget _ _) _) => apply okp_aget; [|let a := fresh "a" in let G := fresh "G" in intros a G]
  | |- okp _ (bind (aset _ _ _) _) => apply okp_aset; [|let a := fresh "l" in let G := fresh "G" in let L := fresh "L" in intros a G L]
  | |- okp _ (err_if _ _ _) => apply okp_err_if; let B := fresh "B" in intro B
  | |- okp _ (if ?b then _ else _) => let C := fresh "C" in destruct b eqn:C
  | |- okp _ (Ok _) => cbn [okp]
  | |- okp _ (Err _) => exact I
  end.

Ltac rng := unfold num_nodes, num_edges, num_sites, num_mutations, num_migrations, zlen in *; lia.

Section NoOOB.
  Variable v : variant.
  Variable t : tables.
  Hypothesis W : WF t.

  Ltac lens :=
    pose proof (wf_node_pop t W); pose proof (wf_node_ind t W);
    pose proof (wf_edge_right t W); pose proof (wf_edge_parent t W); pose proof (wf_edge_child t W);
    pose proof (wf_mut_node t W); pose proof (wf_mut_parent t W); pose proof (wf_mut_time t W);
    pose proof (wf_mig_right t W); pose proof (wf_mig_node t W); pose proof (wf_mig_source t W);
    pose proof (wf_mig_dest t W); pose proof (wf_mig_time t W);
    unfold num_nodes, num_edges, num_sites, num_mutations, num_migrations, zlen in *.

  Lemma offsets_no_oob n o len : 0 <= n -> zlen o = n + 1 -> check_offsets n o len <> OOB.
  Proof.
    intros Hn L. apply okp_not_oob with (Q := fun _ => True). unfold check_offsets.
    wp; [lia|]. wp. wp; [lia|]. wp.
    replace (0 + 0) with 0 by lia.
    apply okp_weaken with (Q := (fun _ : unit => True)); [auto|].
    apply (for_loop_okp _ (fun _ _ => True)); [exact I|]. intros i s1 R _.
    wp; [lia|]. wp; [lia|]. wp. wp. exact I.
  Qed.

  Lemma all_offsets_no_oob l :
    Forall (fun '(n, o, _) => 0 <= n /\ zlen o = n + 1) l -> check_all_offsets l <> OOB.
  Proof.
    induction 1 as [|[[n o] len] r [Hn Hl] _ IH]; simpl; [discriminate|].
    apply okp_not_oob with (Q := fun _ => True). apply okp_bind; [apply offsets_no_oob; assumption|].
    intros _ _. destruct (check_all_offsets r); simpl; auto.
  Qed.

  Lemma nodes_no_oob o : check_node_integrity o t <> OOB.
  Proof.
    apply okp_not_oob with (Q := fun _ => True). unfold check_node_integrity.
    apply okp_weaken with (Q := (fun _ : unit => True)); [auto|].
    apply (for_loop_okp _ (fun _ _ => True)); [exact I|]. intros i s1 R _. lens.
    wp; [rng|]. wp.
    apply okp_bind2 with (P := fun _ => True).
    - wp; [|exact I]. wp; [rng|]. wp. exact I.
    - intros _ _. wp; [rng|]. wp. exact I.
  Qed.

  Lemma sites_no_oob o : check_site_integrity o t <> OOB.
  Proof.
    apply okp_not_oob with (Q := fun _ => True). unfold check_site_integrity.
    apply okp_weaken with (Q := (fun _ : unit => True)); [auto|].
    apply (for_loop_okp _ (fun _ _ => True)); [exact I|]. intros i s1 R _. lens.
    wp; [rng|]. wp. wp. wp; [|exact I]. b2z. wp; [rng|]. wp. wp. exact I.
  Qed.

  Lemma migs_no_oob o : check_migration_integrity o t <> OOB.
  Proof.
    apply okp_not_oob with (Q := fun _ => True). unfold check_migration_integrity.
    apply okp_weaken with (Q := (fun _ : unit => True)); [auto|].
    apply (for_loop_okp _ (fun _ _ => True)); [exact I|]. intros i s1 R _. lens.
    wp; [rng|]. wp.
    apply okp_bind2 with (P := fun _ => True).
    { wp; [|exact I]. wp; [rng|]. wp. wp; [rng|]. wp. exact I. }
    intros _ _. wp; [rng|]. wp.
    apply okp_bind2 with (P := fun _ => True).
    { wp; [|exact I]. b2z. wp; [rng|]. wp. exact I. }
    intros _ _. wp; [rng|]. wp; [rng|]. wp. wp. wp. wp. exact I.
  Qed.

  Lemma inds_no_oob o : check_individual_integrity o t <> OOB.
  Proof.
    apply okp_not_oob with (Q := fun _ => True). unfold check_individual_integrity.
    apply okp_weaken with (Q := (fun _ : unit => True)); [auto|].
    apply (for_loop_okp _ (fun _ _ => True)); [exact I|]. intros i s1 R _.
    destruct (wf_nind t W) as [N0 NL]. assert (Ri : 0 <= i < nind t) by lia.
    destruct (wf_ind_offsets t W i Ri) as [O1 O2].
    wp; [rng|]. wp; [rng|].
    apply zat_aget in G, G0. subst a a0.
    apply okp_weaken with (Q := (fun _ : unit => True)); [auto|].
    apply (for_loop_okp _ (fun _ _ => True)); [exact I|]. intros k s2 Rk _.
    wp; [rng|]. wp. wp. wp. exact I.
  Qed.

  Lemma index_no_oob : check_index_integrity t <> OOB.
  Proof.
    unfold check_index_integrity. destruct (idx t) as [[Io Oo]|] eqn:E; [|discriminate].
    destruct (wf_idx t W Io Oo E) as [LI LO].
    apply okp_not_oob with (Q := fun _ => True).
    apply okp_weaken with (Q := (fun _ : unit => True)); [auto|].
    apply (for_loop_okp _ (fun _ _ => True)); [exact I|]. intros i s1 R _. lens.
    wp; [rng|]. wp. wp; [rng|]. wp. exact I.
  Qed.

  Lemma edges_no_oob o : check_edge_integrity o t <> OOB.
  Proof.
    apply okp_not_oob with (Q := fun _ => True). unfold check_edge_integrity.
    apply okp_bind2 with (P := fun _ => True); [|intros; exact I].
    apply okp_weaken with (Q := (fun s : edge_state => True)); [auto|].
    replace True with ((fun _ : edge_state => True) (mkES [] 0 0 F0)) at 1 by reflexivity.
    eapply okp_weaken; [|apply (for_loop_okp (edge_body o t)
      (fun i s => zlen (parent_seen s) = num_nodes t /\ (o_edge_ordering o = true -> i > 0 -> 0 <= last_parent s < num_nodes t)))].
    - auto.
    - simpl. split; [unfold zlen, num_nodes; rewrite repeat_length; reflexivity|lia].
    - intros i s1 R [LS LP]. lens. unfold edge_body.
      wp; [rng|]. wp; [rng|]. wp; [rng|]. wp; [rng|]. do 8 wp. unfold TSK_NULL in *. b2z.
      wp; [rng|]. wp; [rng|]. wp. wp.
      2:{ split; [assumption|]. intro. congruence. }
      wp; [rng|]. wp.
      apply okp_bind2 with (P := fun ps => zlen ps = Z.of_nat (length (node_time t))).
      + wp; [|assumption]. b2z. specialize (LP eq_refl ltac:(lia)). wp; [rng|]. wp. wp; [|assumption].
        wp.
        * wp. wp; [|assumption]. wp. wp. assumption.
        * apply okp_aset_tail; [rng|]. intros l' L'. unfold zlen in *. lia.
      + intros ps Lps. cbn [okp parent_seen last_parent]. split; [assumption|]. intros _ _. rng.
  Qed.

  Lemma muts_no_oob o : check_mutation_integrity o t <> OOB.
  Proof.
    apply okp_not_oob with (Q := fun _ => True). unfold check_mutation_integrity.
    apply okp_bind2 with (P := fun _ => True); [|intros; exact I].
    apply (for_loop_okp (mut_body o t) (fun _ _ => True)); [exact I|].
    intros i s1 R _. lens. unfold mut_body.
    wp; [rng|]. wp. wp; [rng|]. wp. wp; [rng|]. wp. wp. wp; [rng|]. cbv zeta.
    unfold TSK_NULL in *. b2z.
    apply okp_bind2 with (P := fun _ => True).
    { wp; [|exact I]. wp. wp; [rng|]. wp. exact I. }
    intros _ _.
    apply okp_bind2 with (P := fun _ => True).
    { wp; [|exact I]. b2z. wp; [rng|]. wp; exact I. }
    intros sr _. wp.
    apply okp_bind2 with (P := fun _ => True).
    { wp; [|exact I]. b2z. wp; [rng|]. wp. wp; [|exact I]. wp; [rng|]. wp. exact I. }
    intros _ _. wp; [|exact I].
    apply okp_bind2 with (P := fun _ => True).
    { wp; [|exact I]. b2z. wp; [rng|]. wp. exact I. }
    intros _ _. wp. wp; [|exact I]. wp. exact I.
  Qed.
End NoOOB.

Lemma nth_upd' (l l' : list Z) i a :
  (forall k d, nth k l' d = if Nat.eqb k (Z.to_nat i) then a else nth k l d) -> 0 <= i ->
  forall u, 0 <= u -> zat l' u = if Z.eq_dec u i then a else zat l u.
Proof.
  intros H Ri u Ru. unfold zat. rewrite H. destruct (Z.eq_dec u i).
  - subst. rewrite Nat.eqb_refl. reflexivity.
  - replace (Nat.eqb (Z.to_nat u) (Z.to_nat i)) with false; [reflexivity|].
    symmetry. apply Nat.eqb_neq. lia.
Qed.

(* ---- the tree sweep ---- *)
Section TreeNoOOB.
  Variable v : variant.
  Variable t : tables.
  Variables II OO : list Z.
  Hypothesis W : WF t.
  Hypothesis HE : EdgeRowsOK t.
  Hypothesis HMR : MutRowsOK t.
  Hypothesis HI : forall a, 0 <= a < num_edges t ->
      (exists e, aget II a = Ok e /\ 0 <= e < num_edges t) /\
      (exists e, aget OO a = Ok e /\ 0 <= e < num_edges t).
  Hypothesis LI : length II = length (edge_left t).
  Hypothesis LO : length OO = length (edge_left t).

  Let ne := num_edges t.
  Let N := num_nodes t.

  Definition tinv' (par used : list Z) : Prop :=
    zlen par = N /\ zlen used = ne /\ forall u, 0 <= u < N -> zat par u = -1 \/ 0 <= zat par u < N.

  Definition Q3 (r : Z * list Z * list Z) : Prop := 0 <= fst (fst r) /\ tinv' (snd (fst r)) (snd r).

  Ltac lens' :=
    pose proof (wf_edge_right t W); pose proof (wf_edge_parent t W); pose proof (wf_edge_child t W);
    pose proof (wf_mut_node t W); pose proof (wf_mut_parent t W); pose proof (wf_mut_time t W);
    unfold ne, N in *.

  Lemma out_no_oob tl fuel : forall k par used, 0 <= k -> tinv' par used ->
    okp Q3 (out_loop t OO fuel tl k par used).
  Proof.
    induction fuel as [|fuel IH]; intros k par used Rk [Lp [Lu Pr]]; cbn [out_loop]; [exact I|].
    lens'. wp; [|cbn [okp]; split; [assumption|split; [assumption|split; assumption]]].
    b2z. wp; [rng|]. destruct (HI k ltac:(rng)) as [_ [e0 [Ge0 Re]]]. rewrite G in Ge0. inversion Ge0; subst e0.
    wp; [rng|]. wp; [|cbn [okp]; split; [assumption|split; [assumption|split; assumption]]].
    wp; [rng|]. wp. wp; [rng|].
    destruct (HE a Re) as [_ [RC _]]. apply zat_aget in G2. rewrite G2 in RC.
    wp; [rng|]. wp; [rng|].
    apply IH; [lia|]. split; [unfold zlen in *; lia|]. split; [unfold zlen in *; lia|].
    intros u Ru. rewrite (nth_upd' _ _ _ _ G3) by lia. unfold TSK_NULL.
    destruct (Z.eq_dec u a2); [left; reflexivity|apply Pr; assumption].
  Qed.

  Lemma in_no_oob tl fuel : forall j par used, 0 <= j -> tinv' par used ->
    okp Q3 (in_loop t II fuel tl j par used).
  Proof.
    induction fuel as [|fuel IH]; intros j par used Rj [Lp [Lu Pr]]; cbn [in_loop]; [exact I|].
    lens'. wp; [|cbn [okp]; split; [assumption|split; [assumption|split; assumption]]].
    b2z. wp; [rng|]. destruct (HI j ltac:(rng)) as [[e0 [Ge0 Re]] _]. rewrite G in Ge0. inversion Ge0; subst e0.
    wp; [rng|]. wp; [|cbn [okp]; split; [assumption|split; [assumption|split; assumption]]].
    wp; [rng|]. wp. wp; [rng|]. wp; [rng|].
    destruct (HE a Re) as [RP [RC _]]. apply zat_aget in G3. rewrite G3 in RC.
    wp; [rng|]. wp. wp; [rng|]. apply zat_aget in G5. rewrite G5 in RP.
    wp; [rng|].
    apply IH; [lia|]. split; [unfold zlen in *; lia|]. split; [unfold zlen in *; lia|].
    intros u Ru. rewrite (nth_upd' _ _ _ _ G6) by lia.
    destruct (Z.eq_dec u a2); [right; assumption|apply Pr; assumption].
  Qed.

  Lemma mut_no_oob par used site fuel : forall m, 0 <= m -> tinv' par used ->
    okp (fun m' => 0 <= m') (mut_loop t fuel par site m).
  Proof.
    induction fuel as [|fuel IH]; intros m Rm [Lp [Lu Pr]]; cbn [mut_loop]; [exact I|].
    lens'. wp; [|cbn [okp]; assumption]. b2z. wp; [rng|]. wp; [|cbn [okp]; assumption].
    wp; [rng|].
    apply okp_bind2 with (P := fun _ => True).
    - wp; [|exact I]. wp; [rng|].
      destruct (HMR m ltac:(rng)) as [_ [RN _]]. apply zat_aget in G1. rewrite G1 in RN.
      wp; [rng|]. wp; [|exact I]. apply zat_aget in G2. unfold TSK_NULL in *. b2z.
      destruct (Pr a1 RN) as [Q|Q]; [congruence|]. rewrite G2 in Q.
      wp; [rng|]. wp. exact I.
    - intros _ _. apply IH; [lia|]. split; [assumption|split; assumption].
  Qed.

  Lemma site_no_oob par used tr fuel : forall site m, 0 <= site -> 0 <= m -> tinv' par used ->
    okp (fun r => 0 <= fst r /\ 0 <= snd r) (site_loop t fuel par tr site m).
  Proof.
    induction fuel as [|fuel IH]; intros site m Rs Rm T; cbn [site_loop]; [exact I|].
    wp; [|cbn [okp]; simpl; lia]. b2z. wp; [rng|]. wp; [|cbn [okp]; simpl; lia].
    apply okp_bind2 with (P := fun m' => 0 <= m'); [apply (mut_no_oob par used); assumption|].
    intros m' Rm'. apply IH; try lia; assumption.
  Qed.

  Definition sinv' (s : sweep_state) : Prop :=
    0 <= sw_j s /\ 0 <= sw_k s /\ 0 <= sw_site s /\ 0 <= sw_mut s /\ tinv' (sw_parent s) (sw_used s).

  Lemma sweep_step_no_oob s : sinv' s -> okp sinv' (sweep_step t II OO s).
  Proof.
    intros [Rj [Rk [Rs [Rm T]]]]. unfold sweep_step.
    apply okp_bind2 with (P := Q3); [apply out_no_oob; assumption|].
    intros [[k1 p1] u1] [K1 T1]. simpl in K1, T1.
    apply okp_bind2 with (P := Q3); [apply in_no_oob; assumption|].
    intros [[j1 p2] u2] [J1 T2]. simpl in J1, T2. lens'.
    apply okp_bind2 with (P := fun _ => True).
    { wp; [|exact I]. b2z. wp; [rng|].
      destruct (HI j1 ltac:(rng)) as [[e0 [Ge0 Re]] _]. rewrite G in Ge0. inversion Ge0; subst e0.
      wp; [rng|]. exact I. }
    intros tr1 _.
    apply okp_bind2 with (P := fun _ => True).
    { wp; [|exact I]. b2z. wp; [rng|].
      destruct (HI k1 ltac:(rng)) as [_ [e0 [Ge0 Re]]]. rewrite G in Ge0. inversion Ge0; subst e0.
      wp; [rng|]. exact I. }
    intros tr2 _.
    apply okp_bind2 with (P := fun r => 0 <= fst r /\ 0 <= snd r); [apply (site_no_oob p2 u2); assumption|].
    intros [s1 m1] [S1 M1]. simpl in S1, M1. wp. wp. wp.
    unfold sinv'; simpl. split; [assumption|]. split; [assumption|]. split; [assumption|]. split; assumption.
  Qed.

  Lemma sweep_no_oob fuel : forall s, sinv' s -> okp sinv' (sweep t II OO fuel s).
  Proof.
    induction fuel as [|fuel IH]; intros s SI; cbn [sweep].
    - destruct ((sw_j s <? num_edges t) || flt (sw_left s) (seqlen t)); [exact I|exact SI].
    - destruct ((sw_j s <? num_edges t) || flt (sw_left s) (seqlen t)); [|exact SI].
      apply okp_bind2 with (P := sinv'); [apply sweep_step_no_oob; assumption|]. exact IH.
  Qed.

  Lemma tail_no_oob k used : 0 <= k -> zlen used = ne -> tail_loop v t OO k used <> OOB.
  Proof.
    intros Rk Lu. apply okp_not_oob with (Q := fun _ => True). unfold tail_loop.
    apply okp_weaken with (Q := (fun u : list Z => zlen u = ne)); [auto|].
    apply (for_loop_okp _ (fun _ u => zlen u = ne)); [assumption|].
    intros i u1 R L1. lens'. wp; [rng|].
    destruct (HI i ltac:(rng)) as [_ [e0 [Ge0 Re]]]. rewrite G in Ge0. inversion Ge0; subst e0.
    wp; [rng|]. wp. wp; [rng|]. wp.
    apply okp_aset_tail; [rng|]. intros l' L'. lia.
  Qed.

  Lemma tree_no_oob : check_tree_integrity_with v t II OO <> OOB.
  Proof.
    apply okp_not_oob with (Q := fun _ => True). unfold check_tree_integrity_with.
    apply okp_bind2 with (P := sinv').
    - apply sweep_no_oob. unfold sinv'; simpl. repeat split; try lia.
      + unfold zlen, N, num_nodes. rewrite repeat_length. reflexivity.
      + unfold zlen, ne, num_edges. rewrite repeat_length. reflexivity.
      + intros u Ru. left. apply (zat_repeat t). exact Ru.
    - intros s [Rj [Rk [Rs [Rm [Lp [Lu Pr]]]]]].
      apply okp_bind; [apply tail_no_oob; assumption|]. intros; exact I.
  Qed.
End TreeNoOOB.

(* ---- the whole gate ---- *)
Theorem check_no_oob_lemma v t : WF t -> check_integrity v opts_trees t <> OOB.
Proof.
  intro W. apply okp_not_oob with (Q := fun _ => True). unfold check_integrity. fold oT.
  wp.
  apply okp_bind; [apply all_offsets_no_oob; apply (wf_ragged t W)|]. intros _ _.
  apply okp_bind; [apply nodes_no_oob; assumption|]. intros [] HNo.
  apply okp_bind; [apply edges_no_oob; assumption|]. intros [] HEd.
  apply okp_bind; [apply sites_no_oob; assumption|]. intros [] HSi.
  apply okp_bind; [apply muts_no_oob; assumption|]. intros [] HMu.
  apply okp_bind; [apply migs_no_oob; assumption|]. intros [] HMi.
  apply okp_bind; [apply inds_no_oob; assumption|]. intros [] HIn.
  cbn [oT imply_trees opts_trees o_trees o_indexes].
  apply okp_bind; [apply index_no_oob; assumption|]. intros [] HIx.
  assert (NO := nodes_sound t HNo).
  destruct (edges_sound t NO HEd) as [E1 _].
  destruct (muts_sound t NO HMu) as [M1 _].
  destruct (index_range_sound t HIx) as [I [O [EI HI]]].
  unfold check_tree_integrity. rewrite EI.
  destruct (wf_idx t W I O EI) as [LI LO].
  assert (NB := tree_no_oob v t I O W E1 M1 HI LI LO).
  destruct (check_tree_integrity_with v t I O); simpl; auto.
Qed.

(* non-vacuity: a WF collection with garbage cell values; the check returns an error, not OOB *)
Example no_oob_garbage :
  let t := mkTables (Fin 4) 1 1 [7] [0; 1] [Fin 0; FNaN] [5; -3] [9; 9]
             [Fin 0; FPInf] [Fin 4; Fin 1] [2147483647; 2] [-2; 77] [FUnk]
             [3] [-9] [44] [FNInf] [] [] [] [] [] [] [(1, [0; 3], 3)] (Some ([5; -1], [0; 0])) in
  WF t /\ check t = Err E_POPULATION_OUT_OF_BOUNDS.
Proof.
  split; [|vm_compute; reflexivity].
  constructor; try reflexivity.
  - vm_compute. split; [discriminate|reflexivity].
  - intros j Rj. assert (j = 0) by (simpl in Rj; lia). subst. vm_compute. repeat split; discriminate.
  - simpl. repeat constructor; vm_compute; try discriminate; reflexivity.
  - intros I O E. inversion E; subst. split; reflexivity.
Qed.
