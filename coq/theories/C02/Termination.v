(* C02/Termination.v — the gate terminates: on every table collection (arbitrary cell values)
   with a finite sequence length the model never exhausts its loop fuel.  For the main sweep of
   check_tree_integrity this is the statement that the C `while (j < num_edges || tree_left <
   sequence_length)` loop runs at most 2*num_edges + 2 times on ANY input that got past the edge
   checks: after the first iteration every iteration either consumes an index entry or fails
   with TSK_ERR_TABLES_BAD_INDEXES.  (No hang in the gate.) *)
From Coq Require Import List ZArith Bool Lia.
From TskVerif Require Import Base.Common C02.Fl C02.Model C02.Arr C02.Tac C02.Spec C02.TableSound
  C02.EdgeSound C02.MutSound.
Import ListNotations.
Open Scope Z_scope.

(* [fup Q r]: r is not Fuel, and if it is Ok a then Q a *)
Definition fup {A} (Q : A -> Prop) (r : res A) : Prop :=
  match r with Ok a => Q a | Fuel => False | _ => True end.

Lemma fup_not_fuel {A} (Q : A -> Prop) r : fup Q r -> r <> Fuel.
Proof. destruct r; simpl; intros H E; try discriminate; assumption. Qed.
Lemma fup_weaken {A} (Q Q' : A -> Prop) r : (forall a, Q a -> Q' a) -> fup Q r -> fup Q' r.
Proof. destruct r; simpl; auto. Qed.
Lemma fup_bind2 {A B} (P : A -> Prop) (Q : B -> Prop) (r : res A) f :
  fup P r -> (forall a, P a -> fup Q (f a)) -> fup Q (bind r f).
Proof. destruct r; simpl; intros H1 H2; auto. Qed.
Lemma fup_aget {A B} (Q : B -> Prop) (l : list A) i f :
  (forall a, aget l i = Ok a -> fup Q (f a)) -> fup Q (bind (aget l i) f).
Proof.
  intro H. destruct (aget l i) eqn:E; simpl; auto. exfalso. eapply aget_not_fuel; eauto.
Qed.
Lemma fup_aset {A B} (Q : B -> Prop) (l : list A) i a f :
  (forall l', aset l i a = Ok l' -> fup Q (f l')) -> fup Q (bind (aset l i a) f).
Proof.
  intro H. destruct (aset l i a) eqn:E; simpl; auto. exfalso. eapply aset_not_fuel; eauto.
Qed.
Lemma fup_aset_tail {A} (Q : list A -> Prop) (l : list A) i a :
  (forall l', aset l i a = Ok l' -> Q l') -> fup Q (aset l i a).
Proof.
  intro H. destruct (aset l i a) eqn:E; simpl; auto. exfalso. eapply aset_not_fuel; eauto.
Qed.
Lemma fup_err_if {A} (Q : A -> Prop) b c k : (b = false -> fup Q k) -> fup Q (err_if b c k).
Proof. destruct b; simpl; auto. Qed.

Lemma for_loop_fup {St} (body : Z -> St -> res St) n j s :
  (forall i s1, fup (fun _ => True) (body i s1)) -> fup (fun _ => True) (for_loop n j body s).
Proof.
  intro H. revert j s; induction n as [|n IH]; intros j s; cbn [for_loop]; [exact I|].
  apply fup_bind2 with (P := fun _ => True); [apply H|]. intros; apply IH.
Qed.

Ltac fp :=
  lazymatch goal with
  | |- fup _ (bind (aget _ _) _) => apply fup_aget; let a := fresh "a" in let G := fresh "G" in intros a G
  | |- fup _ (bind (aset _ _ _) _) => apply fup_aset; let a := fresh "l" in let G := fresh "G" in intros a G
  | |- fup _ (err_if _ _ _) => apply fup_err_if; let B := fresh "B" in intro B
  | |- fup _ (if ?b then _ else _) => let C := fresh "C" in destruct b eqn:C
  | |- fup _ (Ok _) => cbn [fup]
  | |- fup _ (Err _) => exact I
  end.

(* ---- the per-table loops are plain for-loops: no fuel at all ---- *)
Lemma offsets_no_fuel l : check_all_offsets l <> Fuel.
Proof.
  induction l as [|[[n o] len] r IH]; simpl; [discriminate|].
  apply fup_not_fuel with (Q := fun _ => True).
  apply fup_bind2 with (P := fun _ => True).
  - unfold check_offsets. fp. fp. fp. fp. apply for_loop_fup. intros i s1. fp. fp. fp. fp. exact I.
  - intros _ _. destruct (check_all_offsets r); simpl; auto.
Qed.

Lemma nodes_no_fuel o t : check_node_integrity o t <> Fuel.
Proof.
  apply fup_not_fuel with (Q := fun _ => True). unfold check_node_integrity. apply for_loop_fup.
  intros i s1. fp. fp. apply fup_bind2 with (P := fun _ => True).
  - fp; [|exact I]. fp. fp. fp. exact I.
  - intros _ _. fp. fp. fp. exact I.
Qed.

Lemma edges_no_fuel o t : check_edge_integrity o t <> Fuel.
Proof.
  apply fup_not_fuel with (Q := fun _ => True). unfold check_edge_integrity.
  apply fup_bind2 with (P := fun _ => True); [|intros; exact I].
  apply for_loop_fup. intros i s1. unfold edge_body.
  do 4 fp. do 8 fp. fp. fp. fp. fp; [|exact I]. fp. fp.
  apply fup_bind2 with (P := fun _ => True); [|intros; exact I].
  fp; [|exact I]. fp. fp. fp; [|exact I]. fp.
  - fp. fp; [|exact I]. fp. fp. exact I.
  - apply fup_aset_tail. intros; exact I.
Qed.

Lemma sites_no_fuel o t : check_site_integrity o t <> Fuel.
Proof.
  apply fup_not_fuel with (Q := fun _ => True). unfold check_site_integrity. apply for_loop_fup.
  intros i s1. fp. fp. fp. fp; [|exact I]. fp. fp. fp. exact I.
Qed.

Lemma muts_no_fuel o t : check_mutation_integrity o t <> Fuel.
Proof.
  apply fup_not_fuel with (Q := fun _ => True). unfold check_mutation_integrity.
  apply fup_bind2 with (P := fun _ => True); [|intros; exact I].
  apply for_loop_fup. intros i s1. unfold mut_body.
  fp. fp. fp. fp. fp. fp. fp. fp. cbv zeta.
  apply fup_bind2 with (P := fun _ => True). { fp; [|exact I]. fp. fp. fp. exact I. }
  intros _ _. apply fup_bind2 with (P := fun _ => True). { fp; [|exact I]. fp. fp; exact I. }
  intros sr _. fp.
  apply fup_bind2 with (P := fun _ => True). { fp; [|exact I]. fp. fp. fp; [|exact I]. fp. fp. exact I. }
  intros _ _. fp; [|exact I].
  apply fup_bind2 with (P := fun _ => True). { fp; [|exact I]. fp. fp. exact I. }
  intros _ _. fp. fp; [|exact I]. fp. exact I.
Qed.

Lemma migs_no_fuel o t : check_migration_integrity o t <> Fuel.
Proof.
  apply fup_not_fuel with (Q := fun _ => True). unfold check_migration_integrity. apply for_loop_fup.
  intros i s1. fp. fp.
  apply fup_bind2 with (P := fun _ => True). { fp; [|exact I]. fp. fp. fp. fp. exact I. }
  intros _ _. fp. fp.
  apply fup_bind2 with (P := fun _ => True). { fp; [|exact I]. fp. fp. exact I. }
  intros _ _. fp. fp. fp. fp. fp. fp. exact I.
Qed.

Lemma inds_no_fuel o t : check_individual_integrity o t <> Fuel.
Proof.
  apply fup_not_fuel with (Q := fun _ => True). unfold check_individual_integrity. apply for_loop_fup.
  intros i s1. fp. fp. apply for_loop_fup. intros k s2. fp. fp. fp. fp. exact I.
Qed.

Lemma index_no_fuel t : check_index_integrity t <> Fuel.
Proof.
  unfold check_index_integrity. destruct (idx t) as [[Io Oo]|]; [|discriminate].
  apply fup_not_fuel with (Q := fun _ => True). apply for_loop_fup.
  intros i s1. fp. fp. fp. fp. exact I.
Qed.

(* ---- the tree sweep ---- *)
Section SweepTermination.
  Variable v : variant.
  Variable t : tables.
  Variables II OO : list Z.
  Variable Lz : Z.
  Hypothesis HL : seqlen t = Fin Lz.
  Hypothesis HE : EdgeRowsOK t.
  Hypothesis HI : forall a, 0 <= a < num_edges t ->
      (exists e, aget II a = Ok e /\ 0 <= e < num_edges t) /\
      (exists e, aget OO a = Ok e /\ 0 <= e < num_edges t).

  Let ne := num_edges t.
  Definition lI j := fat (edge_left t) (zat II j).
  Definition rO k := fat (edge_right t) (zat OO k).

  Lemma lI_fin j : 0 <= j < ne -> exists z, lI j = Fin z.
  Proof.
    intro R. destruct (HI j R) as [[e [G Re]] _]. unfold lI. rewrite (zat_aget _ _ _ G).
    destruct (HE e Re) as [_ [_ [[l [r [El _]]] _]]]. eauto.
  Qed.
  Lemma rO_fin k : 0 <= k < ne -> exists z, rO k = Fin z /\ z <= Lz.
  Proof.
    intro R. destruct (HI k R) as [_ [e [G Re]]]. unfold rO. rewrite (zat_aget _ _ _ G).
    destruct (HE e Re) as [_ [_ [[l [r [_ [Er [_ RL]]]]] _]]]. rewrite HL in RL. unfold fgt in RL. simpl in RL.
    b2z. eauto.
  Qed.

  Definition Q3f (k : Z) (tl : Fl) (cur : Z -> Fl) (r : Z * list Z * list Z) : Prop :=
    k <= fst (fst r) <= ne /\ (k < ne -> feq (cur k) tl = true -> k + 1 <= fst (fst r)).

  Lemma out_loop_fu tl fuel : forall k par used, 0 <= k <= ne -> (Z.to_nat (ne - k) < fuel)%nat ->
    fup (Q3f k tl rO) (out_loop t OO fuel tl k par used).
  Proof.
    induction fuel as [|fuel IH]; intros k par used Rk Hf; [lia|]. cbn [out_loop]. fold ne.
    fp; [|cbn [fup]; unfold Q3f; simpl; b2z; split; [lia|intros; lia]].
    b2z. fp. fp.
    assert (ER : rO k = a0) by (unfold rO; rewrite (zat_aget _ _ _ G); apply fat_aget; assumption).
    fp; [|cbn [fup]; unfold Q3f; simpl; split; [lia|intros _ F; rewrite ER in F; congruence]].
    fp. fp. fp. fp. fp.
    eapply fup_weaken; [|apply IH; lia]. unfold Q3f. intros r [[A1 A2] _]. split; [lia|intros; lia].
  Qed.

  Lemma in_loop_fu tl fuel : forall j par used, 0 <= j <= ne -> (Z.to_nat (ne - j) < fuel)%nat ->
    fup (Q3f j tl lI) (in_loop t II fuel tl j par used).
  Proof.
    induction fuel as [|fuel IH]; intros j par used Rj Hf; [lia|]. cbn [in_loop]. fold ne.
    fp; [|cbn [fup]; unfold Q3f; simpl; b2z; split; [lia|intros; lia]].
    b2z. fp. fp.
    assert (EL : lI j = a0) by (unfold lI; rewrite (zat_aget _ _ _ G); apply fat_aget; assumption).
    fp; [|cbn [fup]; unfold Q3f; simpl; split; [lia|intros _ F; rewrite EL in F; congruence]].
    fp. fp. fp. fp. fp. fp. fp. fp.
    eapply fup_weaken; [|apply IH; lia]. unfold Q3f. intros r [[A1 A2] _]. split; [lia|intros; lia].
  Qed.

  Lemma mut_loop_fu par site fuel : forall m, (Z.to_nat (num_mutations t - m) < fuel)%nat ->
    fup (fun _ => True) (mut_loop t fuel par site m).
  Proof.
    induction fuel as [|fuel IH]; intros m Hf; [lia|]. cbn [mut_loop].
    fp; [|exact I]. b2z. fp. fp; [|exact I]. fp.
    apply fup_bind2 with (P := fun _ => True).
    - fp; [|exact I]. fp. fp. fp; [|exact I]. fp. fp. exact I.
    - intros _ _. apply IH. lia.
  Qed.

  Lemma site_loop_fu par tr fuel : forall site m, (Z.to_nat (num_sites t - site) < fuel)%nat ->
    fup (fun _ => True) (site_loop t fuel par tr site m).
  Proof.
    induction fuel as [|fuel IH]; intros site m Hf; [lia|]. cbn [site_loop].
    fp; [|exact I]. b2z. fp. fp; [|exact I].
    apply fup_bind2 with (P := fun _ => True); [apply mut_loop_fu; lia|].
    intros m' _. apply IH. lia.
  Qed.

  (* the state after at least one iteration: tree_left is L or the next index entry *)
  Definition tagged (s : sweep_state) : Prop :=
    sw_left s = Fin Lz \/ (sw_j s < ne /\ sw_left s = lI (sw_j s)) \/ (sw_k s < ne /\ sw_left s = rO (sw_k s)).
  Definition hitF (s : sweep_state) : bool :=
    ((sw_k s <? ne) && feq (rO (sw_k s)) (sw_left s)) || ((sw_j s <? ne) && feq (lI (sw_j s)) (sw_left s)).
  Definition rngs (s : sweep_state) : Prop := 0 <= sw_j s <= ne /\ 0 <= sw_k s <= ne.
  Definition phi (s : sweep_state) : Z := (ne - sw_j s) + (ne - sw_k s).

  Lemma feq_refl_fin z : feq (Fin z) (Fin z) = true. Proof. simpl. apply Z.eqb_refl. Qed.

  Lemma tagged_nohit s : rngs s -> tagged s -> hitF s = false -> sw_left s = Fin Lz.
  Proof.
    intros [Rj Rk] [T|[[T1 T2]|[T1 T2]]] H; [assumption| |]; exfalso; unfold hitF in H;
      apply orb_false_iff in H as [H1 H2].
    - destruct (lI_fin (sw_j s) ltac:(lia)) as [z Ez]. rewrite T2, Ez, feq_refl_fin in H2.
      replace (sw_j s <? ne) with true in H2 by (symmetry; apply Z.ltb_lt; lia). discriminate.
    - destruct (rO_fin (sw_k s) ltac:(lia)) as [z [Ez _]]. rewrite T2, Ez, feq_refl_fin in H1.
      replace (sw_k s <? ne) with true in H1 by (symmetry; apply Z.ltb_lt; lia). discriminate.
  Qed.

  Definition step_post (s s' : sweep_state) : Prop :=
    rngs s' /\ tagged s' /\
    (hitF s = true -> phi s' + 1 <= phi s) /\
    (tagged s -> hitF s = false -> False).

  Lemma sweep_step_fu s : rngs s -> fup (step_post s) (sweep_step t II OO s).
  Proof.
    intros [Rj Rk]. unfold sweep_step. fold ne.
    apply fup_bind2 with (P := Q3f (sw_k s) (sw_left s) rO); [apply out_loop_fu; lia|].
    intros [[k1 p1] u1] [K1 K2]. simpl in K1, K2.
    apply fup_bind2 with (P := Q3f (sw_j s) (sw_left s) lI); [apply in_loop_fu; lia|].
    intros [[j1 p2] u2] [J1 J2]. simpl in J1, J2. rewrite HL.
    (* tree_right, first minimum *)
    apply fup_bind2 with (P := fun trA => (trA = Fin Lz \/ (j1 < ne /\ trA = lI j1)) /\ exists a, trA = Fin a /\ a <= Lz).
    { fp.
      - b2z. fp. fp. cbn [fup].
        assert (EL : lI j1 = a0) by (unfold lI; rewrite (zat_aget _ _ _ G); apply fat_aget; assumption).
        destruct (lI_fin j1 ltac:(lia)) as [z Ez]. rewrite <- EL, Ez, fmin_fin.
        split.
        + destruct (Z.min_spec Lz z) as [[_ Q]|[_ Q]]; rewrite Q; [left; reflexivity|right; split; [lia|reflexivity]].
        + eexists; split; [reflexivity|lia].
      - cbn [fup]. split; [left; reflexivity|eexists; split; [reflexivity|lia]]. }
    intros trA [TA [a [EA LA]]].
    apply fup_bind2 with (P := fun trB => (trB = Fin Lz \/ (j1 < ne /\ trB = lI j1) \/ (k1 < ne /\ trB = rO k1))
                                         /\ exists b, trB = Fin b /\ b <= Lz).
    { fp.
      - b2z. fp. fp. cbn [fup].
        assert (ER : rO k1 = a1) by (unfold rO; rewrite (zat_aget _ _ _ G); apply fat_aget; assumption).
        destruct (rO_fin k1 ltac:(lia)) as [z [Ez LZ]]. rewrite <- ER, Ez. rewrite EA in *. rewrite fmin_fin.
        split.
        + destruct (Z.min_spec a z) as [[_ Q]|[_ Q]]; rewrite Q.
          * destruct TA as [TA|TA]; [left; assumption|right; left; assumption].
          * right; right. split; [lia|reflexivity].
        + eexists; split; [reflexivity|lia].
      - cbn [fup]. split; [destruct TA as [TA|TA]; [left; assumption|right; left; assumption]|].
        exists a. split; [assumption|lia]. }
    intros trB [TB [b [EB LB]]].
    apply fup_bind2 with (P := fun _ => True); [apply site_loop_fu; lia|].
    intros [s1 m1] _. fp. fp. cbn [fup]. unfold step_post, rngs, tagged, phi. simpl.
    split; [lia|]. split; [exact TB|]. split.
    - intro H. unfold hitF in H. apply orb_true_iff in H as [H|H]; apply andb_true_iff in H as [H1 H2]; b2z.
      + specialize (K2 H1 H2). lia.
      + specialize (J2 H1 H2). lia.
    - intros TG NH. assert (XL := tagged_nohit s (conj Rj Rk) TG NH).
      rewrite XL, EB, fle_fin in B. b2z. lia.
  Qed.

  Lemma sweep_fu fuel : forall s, rngs s -> tagged s -> phi s + 1 <= Z.of_nat fuel ->
    fup (fun _ => True) (sweep t II OO fuel s).
  Proof.
    induction fuel as [|fuel IH]; intros s R T F; cbn [sweep].
    - destruct R. unfold phi in F. lia.
    - destruct ((sw_j s <? num_edges t) || flt (sw_left s) (seqlen t)); [|exact I].
      apply fup_bind2 with (P := step_post s); [apply sweep_step_fu; assumption|].
      intros s' [R' [T' [P1 P2]]]. destruct (hitF s) eqn:H.
      + apply IH; try assumption. specialize (P1 eq_refl). lia.
      + exfalso. apply P2; [assumption|reflexivity].
  Qed.

  Lemma tree_no_fuel : check_tree_integrity_with v t II OO <> Fuel.
  Proof.
    apply fup_not_fuel with (Q := fun _ => True). unfold check_tree_integrity_with.
    assert (N0 : 0 <= ne) by (unfold ne, num_edges, zlen; lia).
    apply fup_bind2 with (P := fun _ => True).
    - unfold sweep_fuel. fold ne.
      set (s0 := mkSW 0 0 F0 (repeat TSK_NULL (length (node_time t))) (repeat 0 (length (edge_left t))) 0 0 0).
      remember (S (Z.to_nat (2 * ne))) as f1 eqn:Ef. cbn [sweep].
      destruct ((sw_j s0 <? num_edges t) || flt (sw_left s0) (seqlen t)); [|exact I].
      apply fup_bind2 with (P := step_post s0); [apply sweep_step_fu; unfold rngs, s0; simpl; lia|].
      intros s' [R' [T' _]]. apply sweep_fu; try assumption.
      destruct R'. unfold phi. lia.
    - intros s _. apply fup_bind2 with (P := fun _ => True); [|intros; exact I].
      unfold tail_loop. apply for_loop_fup. intros i u1. fp. fp. fp. fp. fp.
      apply fup_aset_tail. intros; exact I.
  Qed.
End SweepTermination.

(* ---- the whole gate: with a finite sequence length the result is never Fuel ---- *)
Theorem check_terminates_lemma v t Lz : seqlen t = Fin Lz -> check_integrity v opts_trees t <> Fuel.
Proof.
  intro HL. apply fup_not_fuel with (Q := fun _ => True). unfold check_integrity. fold oT.
  fp.
  destruct (check_all_offsets (ragged t)) as [[]| | |] eqn:E1; cbn [bind]; try exact I; [|exfalso; eapply offsets_no_fuel; eauto].
  destruct (check_node_integrity oT t) as [[]| | |] eqn:E2; cbn [bind]; try exact I; [|exfalso; eapply nodes_no_fuel; eauto].
  destruct (check_edge_integrity oT t) as [[]| | |] eqn:E3; cbn [bind]; try exact I; [|exfalso; eapply edges_no_fuel; eauto].
  destruct (check_site_integrity oT t) as [[]| | |] eqn:E4; cbn [bind]; try exact I; [|exfalso; eapply sites_no_fuel; eauto].
  destruct (check_mutation_integrity oT t) as [[]| | |] eqn:E5; cbn [bind]; try exact I; [|exfalso; eapply muts_no_fuel; eauto].
  destruct (check_migration_integrity oT t) as [[]| | |] eqn:E6; cbn [bind]; try exact I; [|exfalso; eapply migs_no_fuel; eauto].
  destruct (check_individual_integrity oT t) as [[]| | |] eqn:E7; cbn [bind]; try exact I; [|exfalso; eapply inds_no_fuel; eauto].
  cbn [oT imply_trees opts_trees o_trees o_indexes].
  destruct (check_index_integrity t) as [[]| | |] eqn:E8; cbn [bind]; try exact I; [|exfalso; eapply index_no_fuel; eauto].
  assert (NO := nodes_sound t E2). destruct (edges_sound t NO E3) as [HE _].
  destruct (index_range_sound t E8) as [I [O [EI HI]]].
  unfold check_tree_integrity. rewrite EI.
  assert (NF := tree_no_fuel v t I O Lz HL HE HI).
  destruct (check_tree_integrity_with v t I O); simpl; auto.
Qed.
