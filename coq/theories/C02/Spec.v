(* C02/Spec.v — the declarative predicate ValidTS: one clause per structural requirement of
   docs/data-model.md ("Valid tree sequence requirements") that the property statement lists.
   Nothing here mentions the checking code.  Cells are read with total accessors [zat]/[fat];
   every clause quantifies over row numbers in range only.  Comparisons on doubles are the
   IEEE ones of C02/Fl.v (so "time[child] < time[parent]" is literally [flt tc tp = true]). *)
From Coq Require Import List ZArith Bool Lia Permutation.
From TskVerif Require Import Base.Common C02.Fl C02.Model.
Import ListNotations.
Open Scope Z_scope.

Definition zat (l : list Z) (i : Z) : Z := nth (Z.to_nat i) l 0.
Definition fat (l : list Fl) (i : Z) : Fl := nth (Z.to_nat i) l FNaN.

Definition zrange (n : Z) : list Z := map Z.of_nat (seq 0 (Z.to_nat n)).

(* reachable-state invariant of C13 (equal column lengths, ragged offsets well formed):
   the hypothesis of check_no_oob / check_complete, never of the soundness theorems *)
Record WF (t : tables) : Prop := {
  wf_node_pop : length (node_pop t) = length (node_time t);
  wf_node_ind : length (node_ind t) = length (node_time t);
  wf_edge_right : length (edge_right t) = length (edge_left t);
  wf_edge_parent : length (edge_parent t) = length (edge_left t);
  wf_edge_child : length (edge_child t) = length (edge_left t);
  wf_mut_node : length (mut_node t) = length (mut_site t);
  wf_mut_parent : length (mut_parent t) = length (mut_site t);
  wf_mut_time : length (mut_time t) = length (mut_site t);
  wf_mig_right : length (mig_right t) = length (mig_left t);
  wf_mig_node : length (mig_node t) = length (mig_left t);
  wf_mig_source : length (mig_source t) = length (mig_left t);
  wf_mig_dest : length (mig_dest t) = length (mig_left t);
  wf_mig_time : length (mig_time t) = length (mig_left t);
  wf_nind : 0 <= nind t /\ zlen (ind_parents_offset t) = nind t + 1;
  wf_ind_offsets : forall j, 0 <= j < nind t ->
      0 <= zat (ind_parents_offset t) j <= zat (ind_parents_offset t) (j + 1)
      /\ zat (ind_parents_offset t) (j + 1) <= zlen (ind_parents t);
  wf_ragged : Forall (fun '(n, o, _) => 0 <= n /\ zlen o = n + 1) (ragged t);
  wf_idx : forall I O, idx t = Some (I, O) ->
      length I = length (edge_left t) /\ length O = length (edge_left t)
}.

Section Clauses.
  Variable t : tables.
  Let N := num_nodes t.
  Let nt (u : Z) : Fl := fat (node_time t) u.
  Let el e := fat (edge_left t) e.
  Let er e := fat (edge_right t) e.
  Let ep e := zat (edge_parent t) e.
  Let ec e := zat (edge_child t) e.

  (* sequence length: finite and positive *)
  Definition SeqlenOK : Prop := exists Lz, seqlen t = Fin Lz /\ 0 < Lz.

  (* ragged columns (the eight re-validated ones) *)
  Definition OffsetsOK : Prop :=
    Forall (fun '(n, o, len) => zat o 0 = 0 /\ zat o n = len /\
                                forall j, 0 <= j < n -> zat o j <= zat o (j + 1)) (ragged t).

  (* nodes: finite time; population / individual null or valid *)
  Definition NodesOK : Prop := forall j, 0 <= j < N ->
    isfinite (nt j) = true /\ -1 <= zat (node_pop t) j < npop t /\ -1 <= zat (node_ind t) j < nind t.

  (* edges, row by row: valid node ids, finite 0 <= left < right <= L, time[child] < time[parent] *)
  Definition EdgeRowsOK : Prop := forall e, 0 <= e < num_edges t ->
    0 <= ep e < N /\ 0 <= ec e < N /\
    (exists l r, el e = Fin l /\ er e = Fin r /\ 0 <= l < r /\ fgt (Fin r) (seqlen t) = false) /\
    flt (nt (ec e)) (nt (ep e)) = true.

  (* edge order: nondecreasing parent time; within a parent by child then left, no duplicates;
     all edges of a parent contiguous *)
  Definition EdgeOrderOK : Prop :=
    (forall e, 0 < e < num_edges t ->
       fle (nt (ep (e - 1))) (nt (ep e)) = true /\
       (ep (e - 1) = ep e -> ec (e - 1) < ec e \/ (ec (e - 1) = ec e /\ flt (el (e - 1)) (el e) = true)))
    /\ (forall a b, 0 <= a < b -> b < num_edges t -> ep a = ep b ->
          forall m, a <= m <= b -> ep m = ep a).

  (* the intervals on which a node is a child are disjoint *)
  Definition ChildIntervalsDisjoint : Prop := forall a b, 0 <= a < num_edges t -> 0 <= b < num_edges t ->
    a <> b -> ec a = ec b -> fle (er a) (el b) = true \/ fle (er b) (el a) = true.

  (* sites: finite 0 <= position < L, strictly increasing *)
  Definition SitesOK : Prop :=
    (forall s, 0 <= s < num_sites t ->
        exists x, fat (site_pos t) s = Fin x /\ 0 <= x /\ fge (Fin x) (seqlen t) = false) /\
    (forall s, 0 < s < num_sites t -> flt (fat (site_pos t) (s - 1)) (fat (site_pos t) s) = true).

  (* mutations, row by row *)
  Definition MutRowsOK : Prop := forall m, 0 <= m < num_mutations t ->
    let tm := fat (mut_time t) m in
    let par := zat (mut_parent t) m in
    0 <= zat (mut_site t) m < num_sites t /\
    0 <= zat (mut_node t) m < N /\
    -1 <= par < m /\                         (* null, or a mutation listed before this one *)
    (is_unknown tm = true \/ (isfinite tm = true /\ fle (nt (zat (mut_node t) m)) tm = true)) /\
    (par <> -1 -> zat (mut_site t) par = zat (mut_site t) m /\
                  (is_unknown tm = false -> fle tm (fat (mut_time t) par) = true)).

  (* sorted by site, then non-increasing known time *)
  Definition MutOrderOK : Prop := forall m, 0 < m < num_mutations t ->
    zat (mut_site t) (m - 1) <= zat (mut_site t) m /\
    (zat (mut_site t) (m - 1) = zat (mut_site t) m -> is_unknown (fat (mut_time t) m) = false ->
       fle (fat (mut_time t) m) (fat (mut_time t) (m - 1)) = true).

  (* known and unknown times are not mixed at a site *)
  Definition MutKnownUnknownOK : Prop := forall a b, 0 <= a < num_mutations t -> 0 <= b < num_mutations t ->
    zat (mut_site t) a = zat (mut_site t) b ->
    is_unknown (fat (mut_time t) a) = is_unknown (fat (mut_time t) b).

  (* a known mutation time is strictly below the time of the node above it in the tree at its site *)
  Definition MutBelowParentNodeOK : Prop := forall m, 0 <= m < num_mutations t ->
    is_unknown (fat (mut_time t) m) = false ->
    forall e, 0 <= e < num_edges t -> ec e = zat (mut_node t) m ->
      fle (el e) (fat (site_pos t) (zat (mut_site t) m)) = true ->
      flt (fat (site_pos t) (zat (mut_site t) m)) (er e) = true ->
      flt (fat (mut_time t) m) (nt (ep e)) = true.

  (* migrations *)
  Definition MigsOK : Prop :=
    (forall g, 0 <= g < num_migrations t ->
        0 <= zat (mig_node t) g < N /\ 0 <= zat (mig_source t) g < npop t /\ 0 <= zat (mig_dest t) g < npop t /\
        isfinite (fat (mig_time t) g) = true /\
        exists l r, fat (mig_left t) g = Fin l /\ fat (mig_right t) g = Fin r /\ 0 <= l < r /\
                    fgt (Fin r) (seqlen t) = false) /\
    (forall g, 0 < g < num_migrations t -> fle (fat (mig_time t) (g - 1)) (fat (mig_time t) g) = true).

  (* individuals: parents null or valid, nobody their own parent *)
  Definition IndsOK : Prop := forall j, 0 <= j < nind t ->
    forall k, zat (ind_parents_offset t) j <= k < zat (ind_parents_offset t) (j + 1) ->
      let p := zat (ind_parents t) k in (p = -1 \/ 0 <= p < nind t) /\ p <> j.

  (* the index: two permutations of the edge ids, by nondecreasing left / right *)
  Definition IsPerm (l : list Z) : Prop := Permutation l (zrange (num_edges t)).
  Definition InsertionOK (I : list Z) : Prop :=
    IsPerm I /\ forall a, 0 < a < num_edges t -> fle (el (zat I (a - 1))) (el (zat I a)) = true.
  Definition RemovalSorted (O : list Z) : Prop :=
    forall a, 0 < a < num_edges t -> fle (er (zat O (a - 1))) (er (zat O a)) = true.
  Definition RemovalOK (O : list Z) : Prop := IsPerm O /\ RemovalSorted O.
  Definition IndexOK : Prop := exists I O, idx t = Some (I, O) /\ InsertionOK I /\ RemovalOK O.
End Clauses.

Record ValidTS (t : tables) : Prop := {
  v_seqlen : SeqlenOK t;
  v_offsets : OffsetsOK t;
  v_nodes : NodesOK t;
  v_edge_rows : EdgeRowsOK t;
  v_edge_order : EdgeOrderOK t;
  v_disjoint : ChildIntervalsDisjoint t;
  v_sites : SitesOK t;
  v_mut_rows : MutRowsOK t;
  v_mut_order : MutOrderOK t;
  v_mut_mix : MutKnownUnknownOK t;
  v_mut_below : MutBelowParentNodeOK t;
  v_migs : MigsOK t;
  v_inds : IndsOK t;
  v_index : IndexOK t
}.

(* ---- a small non-trivial table collection used by the Examples ----
   3 nodes (times 0,0,2), edges (0,4,2,0) (0,4,2,1), one site at 1 with a mutation on node 0
   at time 1, one individual with a null parent, one population, one migration. *)
Definition ex_tables (index : option (list Z * list Z)) : tables :=
  mkTables (Fin 4) 1 1 [-1] [0; 1]
    [Fin 0; Fin 0; Fin 2] [0; -1; 0] [0; -1; -1]
    [Fin 0; Fin 0] [Fin 4; Fin 4] [2; 2] [0; 1]
    [Fin 1]
    [0] [0] [-1] [Fin 1]
    [Fin 0] [Fin 2] [0] [0] [0] [Fin 1]
    [(3, [0; 0; 1; 2], 2); (1, [0; 1], 1)] index.
Definition ex_valid : tables := ex_tables (Some ([0; 1], [0; 1])).
(* the witness of finding F1: the same tables with edge_removal_order = [0,0] *)
Definition ex_f1 : tables := ex_tables (Some ([0; 1], [0; 0])).
(* the witness of finding F14: sequence_length = NaN, one node, nothing else *)
Definition ex_f14 : tables :=
  mkTables FNaN 0 0 [] [0] [Fin 0] [-1] [-1] [] [] [] [] [] [] [] [] [] [] [] [] [] [] [] [] (Some ([], [])).

Example ex_valid_accepted : check ex_valid = Ok 1. Proof. vm_compute. reflexivity. Qed.
Example ex_valid_accepted_repaired : check_repaired ex_valid = Ok 1. Proof. vm_compute. reflexivity. Qed.
