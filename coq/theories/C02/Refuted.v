(* C02/Refuted.v — HISTORICAL RECORD: the two clauses of ValidTS that the PINNED pre-fix gate
   ([faithful] = [pinned], /repo at 380c75d) did not establish (F1, fixed by e4937b5; F14, fixed
   by c14733b), with concrete witnesses, and the behaviour of the current code ([repaired] =
   [code_variant]) on the same witnesses. *)
From Coq Require Import List ZArith Bool Lia Permutation.
From TskVerif Require Import Base.Common C02.Fl C02.Model C02.Arr C02.Spec C02.ListX.
Import ListNotations.
Open Scope Z_scope.

Lemma ex_tables_WF i : (forall I O, i = Some (I, O) -> length I = 2%nat /\ length O = 2%nat) -> WF (ex_tables i).
Proof.
  intro H. constructor; try reflexivity.
  - vm_compute. split; [discriminate|reflexivity].
  - intros j Rj. assert (j = 0) by (simpl in Rj; lia). subst. vm_compute. repeat split; discriminate.
  - simpl. repeat constructor; vm_compute; try discriminate; reflexivity.
  - exact H.
Qed.

(* F1: two edges [0,4) under one parent, edge_removal_order = [0,0] is accepted *)
Lemma f1_refuted :
  exists t, WF t /\ SeqlenOK t /\ check_integrity faithful opts_trees t = Ok 1 /\ ~ IndexOK t.
Proof.
  exists ex_f1. split; [|split; [|split]].
  - apply ex_tables_WF. intros I O E. inversion E; subst. split; reflexivity.
  - exists 4. split; [reflexivity|lia].
  - vm_compute. reflexivity.
  - intros [I [O [E [_ [P _]]]]]. unfold ex_f1, ex_tables in E. simpl in E. inversion E; subst. unfold IsPerm in P.
    assert (In 1 [0; 0]).
    { apply (perm_zrange_In _ _ 1 P). vm_compute. split; [discriminate|reflexivity]. }
    simpl in H. lia.
Qed.

Example f1_repaired_rejects : check_repaired ex_f1 = Err E_TABLES_BAD_INDEXES.
Proof. vm_compute. reflexivity. Qed.

(* F14: sequence_length = NaN is accepted (with 0 trees) *)
Lemma f14_refuted :
  exists t n, WF t /\ check_integrity faithful opts_trees t = Ok n /\ ~ SeqlenOK t.
Proof.
  exists ex_f14, 0. split; [|split].
  - constructor; try reflexivity.
    + vm_compute. split; [discriminate|reflexivity].
    + intros j Rj. simpl in Rj. lia.
    + constructor.
    + intros I O E. inversion E; subst. split; reflexivity.
  - vm_compute. reflexivity.
  - intros [z [E _]]. discriminate E.
Qed.

Example f14_repaired_rejects : check_repaired ex_f14 = Err E_BAD_SEQUENCE_LENGTH.
Proof. vm_compute. reflexivity. Qed.

(* +inf too *)
Example f14_inf_accepted :
  check_integrity faithful opts_trees
    (mkTables FPInf 0 0 [] [0] [Fin 0] [-1] [-1] [] [] [] [] [] [] [] [] [] [] [] [] [] [] [] [] (Some ([], []))) = Ok 1.
Proof. vm_compute. reflexivity. Qed.
