(* C02/BridgeC13.v — the column-setter layer of C02/Reach.v cited from C13.  C13 models one table
   as malloc'ed column buffers with num_rows / max_rows bookkeeping and proves that every API
   operation (add_row, set_columns, append_columns, truncate, clear, extend, keep_rows, ...)
   preserves its invariant WF, and (asdict_has_C02_shape) that under WF the arrays Python sees all
   have num_rows cells and well-formed offsets.  Here: if the columns of a C02 collection record
   are (images of) the asdict arrays of C13 tables satisfying C13's WF, the per-table shape clauses
   of C02's WF hold.  Doubles are Z cells in C13 and Fl here: any cell map [f] will do. *)
From Coq Require Import List ZArith Bool Lia.
From TskVerif Require Import Base.Common C02.Fl C02.Model C02.Spec.
From TskVerif Require C13.Model C13.FacadeProofs.
Import ListNotations.
Open Scope Z_scope.

Module M13 := TskVerif.C13.Model.

Lemma c13_same_length d tb c1 c2 : M13.WF d tb ->
  In c1 (fst (M13.asdict tb)) -> In c2 (fst (M13.asdict tb)) -> length c1 = length c2.
Proof.
  intros W I1 I2. destruct (TskVerif.C13.FacadeProofs.asdict_has_C02_shape d tb W) as [F _].
  rewrite Forall_forall in F. pose proof (F c1 I1). pose proof (F c2 I2). unfold zlen in *. lia.
Qed.

Definition backed d tb (cs : list (list Z)) : Prop :=
  M13.WF d tb /\ Forall (fun c => In c (fst (M13.asdict tb))) cs.

Lemma backed_len d tb cs c1 c2 : backed d tb cs -> In c1 cs -> In c2 cs -> length c1 = length c2.
Proof.
  intros [W F] I1 I2. rewrite Forall_forall in F. eapply c13_same_length; eauto.
Qed.

(* the per-table shape clauses of C02's WF *)
Record ShapeOK (t : tables) : Prop := {
  s_node : length (node_pop t) = length (node_time t) /\ length (node_ind t) = length (node_time t);
  s_edge : length (edge_right t) = length (edge_left t) /\ length (edge_parent t) = length (edge_left t)
           /\ length (edge_child t) = length (edge_left t);
  s_mut : length (mut_node t) = length (mut_site t) /\ length (mut_parent t) = length (mut_site t)
          /\ length (mut_time t) = length (mut_site t);
  s_mig : length (mig_right t) = length (mig_left t) /\ length (mig_node t) = length (mig_left t)
          /\ length (mig_source t) = length (mig_left t) /\ length (mig_dest t) = length (mig_left t)
          /\ length (mig_time t) = length (mig_left t);
  s_ind : 0 <= nind t /\ zlen (ind_parents_offset t) = nind t + 1 /\
          forall j, 0 <= j < nind t ->
            0 <= zat (ind_parents_offset t) j <= zat (ind_parents_offset t) (j + 1)
            /\ zat (ind_parents_offset t) (j + 1) <= zlen (ind_parents t)
}.

Theorem c13_backs_shape_lemma :
  forall (t : tables) (f : Z -> Fl) dn tn de te dm tm dg tg di ti
         zt zl zr zmt zgl zgr zgt,
    node_time t = map f zt -> backed dn tn [zt; node_pop t; node_ind t] ->
    edge_left t = map f zl -> edge_right t = map f zr -> backed de te [zl; zr; edge_parent t; edge_child t] ->
    mut_time t = map f zmt -> backed dm tm [mut_site t; mut_node t; mut_parent t; zmt] ->
    mig_left t = map f zgl -> mig_right t = map f zgr -> mig_time t = map f zgt ->
    backed dg tg [zgl; zgr; mig_node t; mig_source t; mig_dest t; zgt] ->
    M13.WF di ti -> In (Some (ind_parents t, ind_parents_offset t)) (snd (M13.asdict ti)) ->
    nind t = M13.nrows ti -> 0 <= M13.nrows ti ->
    ShapeOK t.
Proof.
  intros t f dn tn de te dm tm dg tg di ti zt zl zr zmt zgl zgr zgt
         En Bn El Er Be Em Bm Egl Egr Egt Bg Wi Ii Ni N0.
  constructor.
  - rewrite En, map_length. split; apply (backed_len _ _ _ _ _ Bn); simpl; tauto.
  - rewrite El, Er, !map_length. repeat split; apply (backed_len _ _ _ _ _ Be); simpl; tauto.
  - rewrite Em, map_length. repeat split; apply (backed_len _ _ _ _ _ Bm); simpl; tauto.
  - rewrite Egl, Egr, Egt, !map_length. repeat split; apply (backed_len _ _ _ _ _ Bg); simpl; tauto.
  - destruct (TskVerif.C13.FacadeProofs.asdict_has_C02_shape di ti Wi) as [_ F].
    rewrite Forall_forall in F. specialize (F _ Ii). cbv beta iota in F. destruct F as [F1 F2].
    rewrite Ni. split; [assumption|]. split; [assumption|]. intros j Rj. apply (F2 j Rj).
Qed.

(* ShapeOK + the two collection-level facts = C02's WF *)
Lemma shape_to_WF t : ShapeOK t ->
  Forall (fun '(n, o, _) => 0 <= n /\ zlen o = n + 1) (ragged t) ->
  (forall I O, idx t = Some (I, O) -> length I = length (edge_left t) /\ length O = length (edge_left t)) ->
  WF t.
Proof.
  intros [[A1 A2] [B1 [B2 B3]] [C1 [C2 C3]] [D1 [D2 [D3 [D4 D5]]]] [E1 [E2 E3]]] R X.
  constructor; auto.
Qed.
