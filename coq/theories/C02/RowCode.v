(* C02/RowCode.v — the individual error code.  For the checks whose loop carries no state (nodes,
   sites, migrations, individuals; sequence length and offsets are single codes already) the code
   returned by the gate is given by a declarative, monad-free function of the FIRST bad row:
   the first failing condition of that row in the order of the C code.  Together with
   C02/ErrClass.v (first violated group) this makes the error of a single-field departure in these
   tables a theorem.  Edges, mutations and the tree sweep stay at group granularity (ErrClass). *)
From Coq Require Import List ZArith Bool Lia.
From TskVerif Require Import Base.Common C02.Fl C02.Model C02.Arr C02.Tac C02.Spec C02.TableSound
  C02.Sound C02.NoOOB C02.Complete C02.ErrClass.
Import ListNotations.
Open Scope Z_scope.

Lemma for_loop_first_err (body : Z -> unit -> res unit) n j0 k c :
  j0 <= k < j0 + Z.of_nat n -> (forall i, j0 <= i < k -> body i tt = Ok tt) -> body k tt = Err c ->
  for_loop n j0 body tt = Err c.
Proof.
  revert j0; induction n as [|n IH]; intros j0 R P E; [lia|]. cbn [for_loop].
  destruct (Z.eq_dec j0 k) as [Q|Q].
  - subst. rewrite E. reflexivity.
  - rewrite (P j0) by lia. cbn [bind]. apply IH; [lia| |assumption]. intros i Ri. apply P. lia.
Qed.

(* first failing condition of a row, as a list of (violated?, code) in code order *)
Fixpoint first_code (l : list (bool * Z)) : option Z :=
  match l with [] => None | (b, c) :: r => if b then Some c else first_code r end.

Definition rowres (o : option Z) : res unit := match o with Some c => Err c | None => Ok tt end.

Section Rows.
  Variable t : tables.
  Hypothesis W : WF t.

  Let nt j := fat (node_time t) j.

  (* ---- nodes (l. 10442-10460) ---- *)
  Definition node_row_code (j : Z) : option Z :=
    first_code
      [ (negb (isfinite (fat (node_time t) j)), E_TIME_NONFINITE);
        ((zat (node_pop t) j <? -1) || (zat (node_pop t) j >=? npop t), E_POPULATION_OUT_OF_BOUNDS);
        ((zat (node_ind t) j <? -1) || (zat (node_ind t) j >=? nind t), E_INDIVIDUAL_OUT_OF_BOUNDS) ].

  Lemma node_row j : 0 <= j < num_nodes t ->
    (do tm <- aget (node_time t) j;
     check! negb (isfinite tm) else E_TIME_NONFINITE;
     do _ <- (do p <- aget (node_pop t) j;
              check! (p <? TSK_NULL) || (p >=? npop t) else E_POPULATION_OUT_OF_BOUNDS; Ok tt);
     do i <- aget (node_ind t) j;
     check! (i <? TSK_NULL) || (i >=? nind t) else E_INDIVIDUAL_OUT_OF_BOUNDS; Ok tt)
    = rowres (node_row_code j).
  Proof.
    intro R. pose proof (wf_node_pop t W). pose proof (wf_node_ind t W).
    rewrite aget_fat by rng. cbn [bind]. unfold node_row_code, first_code, TSK_NULL.
    destruct (negb (isfinite (fat (node_time t) j))); [reflexivity|]. cbn [err_if].
    rewrite aget_zat by rng. cbn [bind].
    destruct ((zat (node_pop t) j <? -1) || (zat (node_pop t) j >=? npop t)); [reflexivity|]. cbn [err_if bind].
    rewrite aget_zat by rng. cbn [bind].
    destruct ((zat (node_ind t) j <? -1) || (zat (node_ind t) j >=? nind t)); reflexivity.
  Qed.

  Lemma nodes_exact k c : 0 <= k < num_nodes t ->
    (forall i, 0 <= i < k -> node_row_code i = None) -> node_row_code k = Some c ->
    check_node_integrity oT t = Err c.
  Proof.
    intros R P E. unfold check_node_integrity.
    apply for_loop_first_err with (k := k); [unfold num_nodes, zlen in R; lia| |].
    - intros i Ri. cbn [oT imply_trees opts_trees o_trees o_no_check_population_refs negb].
      rewrite (node_row i) by lia. rewrite (P i Ri). reflexivity.
    - cbn [oT imply_trees opts_trees o_trees o_no_check_population_refs negb].
      rewrite (node_row k R), E. reflexivity.
  Qed.

  (* ---- sites (l. 10590-10611) ---- *)
  Definition site_row_code (j : Z) : option Z :=
    let pos := fat (site_pos t) j in
    first_code
      ([ (negb (isfinite pos), E_BAD_SITE_POSITION);
         (flt pos F0 || fge pos (seqlen t), E_BAD_SITE_POSITION) ] ++
       (if j >? 0 then
          [ (feq (fat (site_pos t) (j - 1)) pos, E_DUPLICATE_SITE_POSITION);
            (fgt (fat (site_pos t) (j - 1)) pos, E_UNSORTED_SITES) ]
        else [])).

  Lemma sites_exact k c : 0 <= k < num_sites t ->
    (forall i, 0 <= i < k -> site_row_code i = None) -> site_row_code k = Some c ->
    check_site_integrity oT t = Err c.
  Proof.
    intros R P E. unfold check_site_integrity.
    assert (ROW : forall j, 0 <= j < num_sites t ->
      (do pos <- aget (site_pos t) j;
       check! negb (isfinite pos) else E_BAD_SITE_POSITION;
       check! flt pos F0 || fge pos (seqlen t) else E_BAD_SITE_POSITION;
       if j >? 0 then
         do prev <- aget (site_pos t) (j - 1);
         check! o_site_duplicates oT && feq prev pos else E_DUPLICATE_SITE_POSITION;
         check! o_site_ordering oT && fgt prev pos else E_UNSORTED_SITES; Ok tt
       else Ok tt) = rowres (site_row_code j)).
    { intros j Rj. rewrite aget_fat by rng. cbn [bind]. unfold site_row_code. cbv zeta.
      cbn [oT imply_trees opts_trees o_trees o_site_duplicates o_site_ordering andb].
      destruct (negb (isfinite (fat (site_pos t) j))); [reflexivity|]. cbn [err_if app first_code].
      destruct (flt (fat (site_pos t) j) F0 || fge (fat (site_pos t) j) (seqlen t)); [reflexivity|].
      cbn [err_if]. destruct (j >? 0) eqn:C; [|reflexivity]. b2z.
      rewrite aget_fat by rng. cbn [bind first_code].
      destruct (feq (fat (site_pos t) (j - 1)) (fat (site_pos t) j)); [reflexivity|]. cbn [err_if].
      destruct (fgt (fat (site_pos t) (j - 1)) (fat (site_pos t) j)); reflexivity. }
    apply for_loop_first_err with (k := k); [unfold num_sites, zlen in R; lia| |].
    - intros i Ri. rewrite (ROW i) by lia. rewrite (P i Ri). reflexivity.
    - rewrite (ROW k R), E. reflexivity.
  Qed.

  (* ---- migrations (l. 10745-10791) ---- *)
  Definition mig_row_code (j : Z) : option Z :=
    let tm := fat (mig_time t) j in
    let l := fat (mig_left t) j in let r := fat (mig_right t) j in
    first_code
      ([ ((zat (mig_node t) j <? 0) || (zat (mig_node t) j >=? num_nodes t), E_NODE_OUT_OF_BOUNDS);
         ((zat (mig_source t) j <? 0) || (zat (mig_source t) j >=? npop t), E_POPULATION_OUT_OF_BOUNDS);
         ((zat (mig_dest t) j <? 0) || (zat (mig_dest t) j >=? npop t), E_POPULATION_OUT_OF_BOUNDS);
         (negb (isfinite tm), E_TIME_NONFINITE) ] ++
       (if j >? 0 then [ (fgt (fat (mig_time t) (j - 1)) tm, E_UNSORTED_MIGRATIONS) ] else []) ++
       [ (negb (isfinite l && isfinite r), E_GENOME_COORDS_NONFINITE);
         (flt l F0, E_LEFT_LESS_ZERO);
         (fgt r (seqlen t), E_RIGHT_GREATER_SEQ_LENGTH);
         (fge l r, E_BAD_EDGE_INTERVAL) ]).

  Lemma migs_exact k c : 0 <= k < num_migrations t ->
    (forall i, 0 <= i < k -> mig_row_code i = None) -> mig_row_code k = Some c ->
    check_migration_integrity oT t = Err c.
  Proof.
    intros R P E. unfold check_migration_integrity.
    pose proof (wf_mig_right t W); pose proof (wf_mig_node t W); pose proof (wf_mig_source t W);
    pose proof (wf_mig_dest t W); pose proof (wf_mig_time t W).
    assert (ROW : forall j, 0 <= j < num_migrations t ->
      (fun (j : Z) (_ : unit) =>
        do node <- aget (mig_node t) j;
        check! (node <? 0) || (node >=? num_nodes t) else E_NODE_OUT_OF_BOUNDS;
        do _ <- (if negb (o_no_check_population_refs oT) then
                   do src <- aget (mig_source t) j;
                   check! (src <? 0) || (src >=? npop t) else E_POPULATION_OUT_OF_BOUNDS;
                   do dst <- aget (mig_dest t) j;
                   check! (dst <? 0) || (dst >=? npop t) else E_POPULATION_OUT_OF_BOUNDS; Ok tt
                 else Ok tt);
        do tm <- aget (mig_time t) j;
        check! negb (isfinite tm) else E_TIME_NONFINITE;
        do _ <- (if j >? 0 then
                   do prev <- aget (mig_time t) (j - 1);
                   check! o_migration_ordering oT && fgt prev tm else E_UNSORTED_MIGRATIONS; Ok tt
                 else Ok tt);
        do left <- aget (mig_left t) j;
        do right <- aget (mig_right t) j;
        check! negb (isfinite left && isfinite right) else E_GENOME_COORDS_NONFINITE;
        check! flt left F0 else E_LEFT_LESS_ZERO;
        check! fgt right (seqlen t) else E_RIGHT_GREATER_SEQ_LENGTH;
        check! fge left right else E_BAD_EDGE_INTERVAL;
        Ok tt) j tt = rowres (mig_row_code j)).
    { intros j Rj. cbv beta. unfold mig_row_code. cbv zeta.
      cbn [oT imply_trees opts_trees o_trees o_no_check_population_refs o_migration_ordering negb andb].
      rewrite aget_zat by rng. cbn [bind app first_code].
      destruct ((zat (mig_node t) j <? 0) || (zat (mig_node t) j >=? num_nodes t)); [reflexivity|]. cbn [err_if].
      rewrite aget_zat by rng. cbn [bind].
      destruct ((zat (mig_source t) j <? 0) || (zat (mig_source t) j >=? npop t)); [reflexivity|]. cbn [err_if].
      rewrite aget_zat by rng. cbn [bind].
      destruct ((zat (mig_dest t) j <? 0) || (zat (mig_dest t) j >=? npop t)); [reflexivity|]. cbn [err_if bind].
      rewrite aget_fat by rng. cbn [bind].
      destruct (negb (isfinite (fat (mig_time t) j))); [reflexivity|]. cbn [err_if].
      destruct (j >? 0) eqn:C.
      - b2z. rewrite (aget_fat (mig_time t) (j - 1)) by rng. cbn [bind app first_code].
        destruct (fgt (fat (mig_time t) (j - 1)) (fat (mig_time t) j)); [reflexivity|]. cbn [err_if bind].
        rewrite aget_fat by rng. cbn [bind]. rewrite aget_fat by rng. cbn [bind].
        destruct (negb (isfinite (fat (mig_left t) j) && isfinite (fat (mig_right t) j))); [reflexivity|]. cbn [err_if].
        destruct (flt (fat (mig_left t) j) F0); [reflexivity|]. cbn [err_if].
        destruct (fgt (fat (mig_right t) j) (seqlen t)); [reflexivity|]. cbn [err_if].
        destruct (fge (fat (mig_left t) j) (fat (mig_right t) j)); reflexivity.
      - cbn [bind app first_code].
        rewrite aget_fat by rng. cbn [bind]. rewrite aget_fat by rng. cbn [bind].
        destruct (negb (isfinite (fat (mig_left t) j) && isfinite (fat (mig_right t) j))); [reflexivity|]. cbn [err_if].
        destruct (flt (fat (mig_left t) j) F0); [reflexivity|]. cbn [err_if].
        destruct (fgt (fat (mig_right t) j) (seqlen t)); [reflexivity|]. cbn [err_if].
        destruct (fge (fat (mig_left t) j) (fat (mig_right t) j)); reflexivity. }
    apply for_loop_first_err with (k := k); [unfold num_migrations, zlen in R; lia| |].
    - intros i Ri. rewrite (ROW i) by lia. rewrite (P i Ri). reflexivity.
    - rewrite (ROW k R), E. reflexivity.
  Qed.

  (* ---- individuals (l. 10806-10828) ---- *)
  Definition ind_cell_code (j k : Z) : option Z :=
    let p := zat (ind_parents t) k in
    first_code
      [ (negb (p =? -1) && ((p <? 0) || (p >=? nind t)), E_INDIVIDUAL_OUT_OF_BOUNDS);
        (p =? j, E_INDIVIDUAL_SELF_PARENT) ].

  Let off j := zat (ind_parents_offset t) j.

  Lemma inds_exact J K c : 0 <= J < nind t -> off J <= K < off (J + 1) ->
    (forall j k, 0 <= j < J -> off j <= k < off (j + 1) -> ind_cell_code j k = None) ->
    (forall k, off J <= k < K -> ind_cell_code J k = None) ->
    ind_cell_code J K = Some c ->
    check_individual_integrity oT t = Err c.
  Proof.
    intros RJ RK P1 P2 E. unfold check_individual_integrity.
    destruct (wf_nind t W) as [N0 NL].
    assert (CELL : forall j k, 0 <= j < nind t -> off j <= k < off (j + 1) ->
      (do p <- aget (ind_parents t) k;
       check! negb (p =? TSK_NULL) && ((p <? 0) || (p >=? nind t)) else E_INDIVIDUAL_OUT_OF_BOUNDS;
       check! (p =? j) else E_INDIVIDUAL_SELF_PARENT;
       check! o_individual_ordering oT && negb (p =? TSK_NULL) && (p >=? j) else E_UNSORTED_INDIVIDUALS;
       Ok tt) = rowres (ind_cell_code j k)).
    { intros j k Rj Rk. destruct (wf_ind_offsets t W j Rj) as [O1 O2]. fold (off j) (off (j + 1)) in O1, O2.
      rewrite aget_zat by lia. cbn [bind]. unfold ind_cell_code, TSK_NULL. cbv zeta. cbn [first_code].
      destruct (negb (zat (ind_parents t) k =? -1) && ((zat (ind_parents t) k <? 0) || (zat (ind_parents t) k >=? nind t)));
        [reflexivity|]. cbn [err_if].
      destruct (zat (ind_parents t) k =? j); reflexivity. }
    apply for_loop_first_err with (k := J); [lia| |].
    - intros j Rj. rewrite aget_zat by lia. cbn [bind]. rewrite aget_zat by lia. cbn [bind].
      apply for_loop_unit_iff. intros k Rk. fold (off j) (off (j + 1)) in Rk.
      rewrite (CELL j k) by lia. rewrite (P1 j k) by lia. reflexivity.
    - rewrite aget_zat by lia. cbn [bind]. rewrite aget_zat by lia. cbn [bind]. fold (off J) (off (J + 1)).
      apply for_loop_first_err with (k := K); [lia| |].
      + intros k Rk. rewrite (CELL J k) by lia. rewrite (P2 k Rk). reflexivity.
      + rewrite (CELL J K RJ RK), E. reflexivity.
  Qed.

  (* ---- the whole gate: earlier groups satisfied, first bad row decides the code ---- *)
  Ltac seq_ok HL HLpos :=
    unfold check, check_integrity; fold oT; rewrite err_if_false;
    [|rewrite HL; unfold F0; rewrite fle_fin; simpl; rewrite orb_false_r; apply Z.leb_gt; lia].

  Theorem exact_node_error k c : SeqlenOK t -> OffsetsOK t -> 0 <= k < num_nodes t ->
    (forall i, 0 <= i < k -> node_row_code i = None) -> node_row_code k = Some c -> check t = Err c.
  Proof.
    intros [Lz [HL HLpos]] VO R P E. seq_ok HL HLpos. rewrite (offsets_complete t W VO). cbn [bind].
    rewrite (nodes_exact k c R P E). reflexivity.
  Qed.

  Theorem exact_site_error k c : SeqlenOK t -> OffsetsOK t -> NodesOK t -> EdgesOK t -> 0 <= k < num_sites t ->
    (forall i, 0 <= i < k -> site_row_code i = None) -> site_row_code k = Some c -> check t = Err c.
  Proof.
    intros [Lz [HL HLpos]] VO VN [VE1 VE2] R P E. seq_ok HL HLpos. rewrite (offsets_complete t W VO). cbn [bind].
    rewrite (nodes_complete t oT eq_refl W VN). cbn [bind].
    rewrite (edges_complete t oT eq_refl W VN VE1 VE2). cbn [bind].
    rewrite (sites_exact k c R P E). reflexivity.
  Qed.

  Theorem exact_migration_error k c : SeqlenOK t -> OffsetsOK t -> NodesOK t -> EdgesOK t -> SitesOK t -> MutsOK t ->
    0 <= k < num_migrations t ->
    (forall i, 0 <= i < k -> mig_row_code i = None) -> mig_row_code k = Some c -> check t = Err c.
  Proof.
    intros [Lz [HL HLpos]] VO VN [VE1 VE2] VS [VM1 [VM2 VM3]] R P E. seq_ok HL HLpos.
    rewrite (offsets_complete t W VO). cbn [bind].
    rewrite (nodes_complete t oT eq_refl W VN). cbn [bind].
    rewrite (edges_complete t oT eq_refl W VN VE1 VE2). cbn [bind].
    rewrite (sites_complete t oT VS). cbn [bind].
    rewrite (muts_complete t oT W VN VM1 VM2 VM3). cbn [bind].
    rewrite (migs_exact k c R P E). reflexivity.
  Qed.

  Theorem exact_individual_error J K c : SeqlenOK t -> OffsetsOK t -> NodesOK t -> EdgesOK t -> SitesOK t ->
    MutsOK t -> MigsOK t -> 0 <= J < nind t -> off J <= K < off (J + 1) ->
    (forall j k, 0 <= j < J -> off j <= k < off (j + 1) -> ind_cell_code j k = None) ->
    (forall k, off J <= k < K -> ind_cell_code J k = None) ->
    ind_cell_code J K = Some c -> check t = Err c.
  Proof.
    intros [Lz [HL HLpos]] VO VN [VE1 VE2] VS [VM1 [VM2 VM3]] VG RJ RK P1 P2 E. seq_ok HL HLpos.
    rewrite (offsets_complete t W VO). cbn [bind].
    rewrite (nodes_complete t oT eq_refl W VN). cbn [bind].
    rewrite (edges_complete t oT eq_refl W VN VE1 VE2). cbn [bind].
    rewrite (sites_complete t oT VS). cbn [bind].
    rewrite (muts_complete t oT W VN VM1 VM2 VM3). cbn [bind].
    rewrite (migs_complete t oT eq_refl W VG). cbn [bind].
    rewrite (inds_exact J K c RJ RK P1 P2 E). reflexivity.
  Qed.
End Rows.

(* non-vacuity: in the example collection, node 1 given individual id 7: row 0 is clean, row 1's
   first failing condition is the individual bound *)
Example exact_node_example :
  let t := mkTables (Fin 4) 1 1 [-1] [0; 1] [Fin 0; Fin 0; Fin 2] [0; -1; 0] [0; 7; -1]
             [Fin 0; Fin 0] [Fin 4; Fin 4] [2; 2] [0; 1] [Fin 1] [0] [0] [-1] [Fin 1]
             [Fin 0] [Fin 2] [0] [0] [0] [Fin 1] [(3, [0; 0; 1; 2], 2); (1, [0; 1], 1)] (Some ([0; 1], [0; 1])) in
  node_row_code t 0 = None /\ node_row_code t 1 = Some E_INDIVIDUAL_OUT_OF_BOUNDS /\
  check t = Err E_INDIVIDUAL_OUT_OF_BOUNDS.
Proof. repeat split; vm_compute; reflexivity. Qed.
