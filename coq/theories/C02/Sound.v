(* C02/Sound.v — soundness of the gate: check_integrity(TSK_CHECK_TREES) = Ok n implies the
   clauses of ValidTS.  Everything is proved for an arbitrary [variant] of the code; the two
   clauses that the code as it is does NOT establish (findings F1, F14) carry the variant
   flag (or, for F14, the explicit hypothesis that sequence_length is finite). *)
From Coq Require Import List ZArith Bool Lia Permutation.
From TskVerif Require Import Base.Common C02.Fl C02.Model C02.Arr C02.Tac C02.Spec C02.TableSound
  C02.EdgeSound C02.MutSound C02.ListX C02.SweepSound.
Import ListNotations.
Open Scope Z_scope.

(* clauses established by every variant, with no hypothesis on the tables *)
Record RowsValid (t : tables) : Prop := {
  r_offsets : OffsetsOK t; r_nodes : NodesOK t; r_edge_rows : EdgeRowsOK t;
  r_edge_order : EdgeOrderOK t; r_sites : SitesOK t; r_mut_rows : MutRowsOK t;
  r_mut_order : MutOrderOK t; r_mut_mix : MutKnownUnknownOK t; r_migs : MigsOK t;
  r_inds : IndsOK t }.

Lemma gate_sound_rows v t n : check_integrity v opts_trees t = Ok n -> RowsValid t.
Proof.
  intro H. apply check_integrity_trees_inv in H.
  destruct H as [_ [HO [HNo [HEd [HSi [HMu [HMi [HIn _]]]]]]]].
  assert (NO := nodes_sound t HNo).
  destruct (edges_sound t NO HEd) as [E1 E2].
  destruct (muts_sound t NO HMu) as [M1 [M2 M3]].
  constructor; try assumption.
  - apply offsets_sound; assumption.
  - apply sites_sound; assumption.
  - apply migs_sound; assumption.
  - apply inds_sound; assumption.
Qed.

Lemma gate_sound_seqlen v t n :
  check_integrity v opts_trees t = Ok n -> fix_f14 v = true -> SeqlenOK t.
Proof.
  intros H F. apply check_integrity_trees_inv in H. destruct H as [HS _].
  apply (seqlen_sound v) in HS. destruct HS as [_ HS]. auto.
Qed.

Lemma gate_sound_seqlen_fin v t n z :
  check_integrity v opts_trees t = Ok n -> seqlen t = Fin z -> SeqlenOK t.
Proof.
  intros H F. apply check_integrity_trees_inv in H. destruct H as [HS _].
  apply (seqlen_sound v) in HS. destruct HS as [HS _]. eapply seqlen_sound_fin; eauto.
Qed.

(* the tree-wise part: needs a finite sequence length *)
Lemma gate_sound_trees v t n :
  check_integrity v opts_trees t = Ok n -> SeqlenOK t -> WF t ->
  (exists I O, idx t = Some (I, O) /\ InsertionOK t I /\ RemovalSorted t O /\
               (fix_f1 v = true -> IsPerm t O)) /\
  ChildIntervalsDisjoint t /\ MutBelowParentNodeOK t.
Proof.
  intros H [Lz [HL HLpos]] W. assert (R := gate_sound_rows v t n H).
  apply check_integrity_trees_inv in H. destruct H as [_ [_ [_ [_ [_ [_ [_ [_ [HIx HT]]]]]]]]].
  destruct (index_range_sound t HIx) as [I [O [EI HI]]].
  unfold check_tree_integrity in HT. rewrite EI in HT.
  destruct (wf_idx t W I O EI) as [LI LO].
  destruct R.
  destruct (sweep_sound v t I O Lz HL HLpos r_nodes0 r_edge_rows0 r_sites0 r_mut_rows0 r_mut_order0 HI n LI LO HT)
    as [S1 [S2 [S3 [S4 S5]]]].
  split; [|split; assumption]. exists I, O. auto.
Qed.

(* ---- the repaired gate is sound for the whole of ValidTS ---- *)
Theorem check_repaired_sound_lemma t n : WF t -> check_repaired t = Ok n -> ValidTS t.
Proof.
  intros W H. unfold check_repaired in H.
  assert (SL := gate_sound_seqlen repaired t n H eq_refl).
  destruct (gate_sound_trees repaired t n H SL W) as [[I [O [EI [A [B C]]]]] [D E]].
  destruct (gate_sound_rows repaired t n H).
  constructor; try assumption.
  exists I, O. split; [assumption|]. split; [assumption|]. split; [apply C; reflexivity|assumption].
Qed.

(* ---- the gate as it is: everything but the two refuted clauses ---- *)
Record ValidTS_but_F1_F14 (t : tables) : Prop := {
  p_rows : RowsValid t;
  p_disjoint : ChildIntervalsDisjoint t;
  p_mut_below : MutBelowParentNodeOK t;
  p_index : exists I O, idx t = Some (I, O) /\ InsertionOK t I /\ RemovalSorted t O
}.

Theorem check_sound_partial_lemma t n z : WF t -> seqlen t = Fin z -> check t = Ok n -> ValidTS_but_F1_F14 t.
Proof.
  intros W F H. unfold check in H.
  assert (SL := gate_sound_seqlen_fin code_variant t n z H F).
  destruct (gate_sound_trees code_variant t n H SL W) as [[I [O [EI [A [B C]]]]] [D E]].
  constructor; try assumption; [eapply gate_sound_rows; eauto|]. exists I, O. auto.
Qed.

(* non-vacuity: the example collection is accepted and is valid *)
Example ex_valid_is_valid : ValidTS ex_valid.
Proof.
  apply (check_repaired_sound_lemma ex_valid 1); [|vm_compute; reflexivity].
  constructor; try reflexivity.
  - vm_compute. split; [discriminate|reflexivity].
  - intros j Rj. assert (j = 0) by (simpl in Rj; lia). subst. vm_compute. repeat split; discriminate.
  - simpl. repeat constructor; vm_compute; try discriminate; reflexivity.
  - intros I O E. inversion E; subst. split; reflexivity.
Qed.
