(* C02/Reach.v — where the hypothesis WF comes from.  A model of the table-building layer through
   which every table collection reaches the gate:
     tsk_*_table_add_row            (c/tskit/tables.c): one element appended to EVERY column
     tsk_*_table_set_columns / append_columns / truncate / clear, as exposed by _tskitmodule.c:
        table_read_column_array(..., &num_rows, check_num_rows) refuses arrays of different
        lengths (ValueError, table unchanged); offsets arrays have num_rows+1 entries and are
        validated by check_offsets
     tables.indexes = ... (parse_indexes_dict: both arrays as long as the edge table),
        drop_index, build_index;  has_index() compares indexes.num_edges with edges.num_rows, so an
        index survives an edit of the edge table only if the row count is unchanged (a STALE index)
     tsk_table_collection_load: read_table_cols refuses columns of different lengths (file format)
   [Reach] is the set of collections obtainable from the empty collection by these operations with
   ARBITRARY cell values; [reach_WF] proves they all satisfy WF, so the theorems that assume WF hold
   for every collection a user can construct.  (The per-table row semantics of these operations is
   C13's property; here only the shape invariant the gate relies on is derived.) *)
From Coq Require Import List ZArith Bool Lia.
From TskVerif Require Import Base.Common C02.Fl C02.Model C02.Arr C02.Tac C02.Spec C02.TableSound
  C02.ListX C02.BuildIndex C02.NoOOB C02.Top C02.Sound C02.Complete.
Import ListNotations.
Open Scope Z_scope.

(* has_index() after the edge table changed: kept only if the row count still matches *)
Definition reindex (n : nat) (i : option (list Z * list Z)) : option (list Z * list Z) :=
  match i with
  | Some (Ix, Ox) => if Nat.eqb (length Ix) n && Nat.eqb (length Ox) n then i else None
  | None => None
  end.

Fixpoint offsets_of (start : Z) (rows : list (list Z)) : list Z :=
  match rows with
  | [] => [start]
  | r :: rest => start :: offsets_of (start + zlen r) rest
  end.

Inductive op : Type :=
| OpSeqlen (L : Fl)
| OpPopulations (n : nat)                                  (* populations.num_rows := n *)
| OpIndividuals (parents : list (list Z))                  (* set_columns / add_row / truncate *)
| OpNodes (rows : list (Fl * Z * Z))                       (* every way of writing the node table *)
| OpEdges (rows : list (Fl * Fl * Z * Z))
| OpSites (rows : list Fl)
| OpMutations (rows : list (Z * Z * Z * Fl))
| OpMigrations (rows : list (Fl * Fl * Z * Z * Z * Fl))
| OpRagged (r : list (Z * list Z * Z))                     (* the 8 re-validated ragged columns *)
| OpSetIndex (Ix Ox : list Z)
| OpDropIndex
| OpBuildIndex.

Definition c1 {A B C} (p : A * B * C) := fst (fst p).
Definition c2 {A B C} (p : A * B * C) := snd (fst p).
Definition c3 {A B C} (p : A * B * C) := snd p.

Definition ragged_ok (r : list (Z * list Z * Z)) : bool :=
  forallb (fun '(n, o, _) => (0 <=? n) && (zlen o =? n + 1)) r.

(* Writing a table through the row- or column-level API always stores columns of equal length:
   the operation takes ROWS (add_row) or equal-length columns (set_columns refuses anything else),
   which is the same thing as a list of rows. *)
Definition apply (o : op) (t : tables) : option tables :=
  match o with
  | OpSeqlen L =>
      Some (mkTables L (npop t) (nind t) (ind_parents t) (ind_parents_offset t)
        (node_time t) (node_pop t) (node_ind t) (edge_left t) (edge_right t) (edge_parent t) (edge_child t)
        (site_pos t) (mut_site t) (mut_node t) (mut_parent t) (mut_time t)
        (mig_left t) (mig_right t) (mig_node t) (mig_source t) (mig_dest t) (mig_time t) (ragged t) (idx t))
  | OpPopulations n =>
      Some (mkTables (seqlen t) (Z.of_nat n) (nind t) (ind_parents t) (ind_parents_offset t)
        (node_time t) (node_pop t) (node_ind t) (edge_left t) (edge_right t) (edge_parent t) (edge_child t)
        (site_pos t) (mut_site t) (mut_node t) (mut_parent t) (mut_time t)
        (mig_left t) (mig_right t) (mig_node t) (mig_source t) (mig_dest t) (mig_time t) (ragged t) (idx t))
  | OpIndividuals ps =>
      Some (mkTables (seqlen t) (npop t) (zlen ps) (concat ps) (offsets_of 0 ps)
        (node_time t) (node_pop t) (node_ind t) (edge_left t) (edge_right t) (edge_parent t) (edge_child t)
        (site_pos t) (mut_site t) (mut_node t) (mut_parent t) (mut_time t)
        (mig_left t) (mig_right t) (mig_node t) (mig_source t) (mig_dest t) (mig_time t) (ragged t) (idx t))
  | OpNodes rows =>
      Some (mkTables (seqlen t) (npop t) (nind t) (ind_parents t) (ind_parents_offset t)
        (map c1 rows) (map c2 rows) (map c3 rows)
        (edge_left t) (edge_right t) (edge_parent t) (edge_child t)
        (site_pos t) (mut_site t) (mut_node t) (mut_parent t) (mut_time t)
        (mig_left t) (mig_right t) (mig_node t) (mig_source t) (mig_dest t) (mig_time t) (ragged t) (idx t))
  | OpEdges rows =>
      Some (mkTables (seqlen t) (npop t) (nind t) (ind_parents t) (ind_parents_offset t)
        (node_time t) (node_pop t) (node_ind t)
        (map (fun r => fst (fst (fst r))) rows) (map (fun r => snd (fst (fst r))) rows)
        (map (fun r => snd (fst r)) rows) (map (fun r => snd r) rows)
        (site_pos t) (mut_site t) (mut_node t) (mut_parent t) (mut_time t)
        (mig_left t) (mig_right t) (mig_node t) (mig_source t) (mig_dest t) (mig_time t) (ragged t)
        (reindex (length rows) (idx t)))
  | OpSites rows =>
      Some (mkTables (seqlen t) (npop t) (nind t) (ind_parents t) (ind_parents_offset t)
        (node_time t) (node_pop t) (node_ind t) (edge_left t) (edge_right t) (edge_parent t) (edge_child t)
        rows (mut_site t) (mut_node t) (mut_parent t) (mut_time t)
        (mig_left t) (mig_right t) (mig_node t) (mig_source t) (mig_dest t) (mig_time t) (ragged t) (idx t))
  | OpMutations rows =>
      Some (mkTables (seqlen t) (npop t) (nind t) (ind_parents t) (ind_parents_offset t)
        (node_time t) (node_pop t) (node_ind t) (edge_left t) (edge_right t) (edge_parent t) (edge_child t)
        (site_pos t)
        (map (fun r => fst (fst (fst r))) rows) (map (fun r => snd (fst (fst r))) rows)
        (map (fun r => snd (fst r)) rows) (map (fun r => snd r) rows)
        (mig_left t) (mig_right t) (mig_node t) (mig_source t) (mig_dest t) (mig_time t) (ragged t) (idx t))
  | OpMigrations rows =>
      Some (mkTables (seqlen t) (npop t) (nind t) (ind_parents t) (ind_parents_offset t)
        (node_time t) (node_pop t) (node_ind t) (edge_left t) (edge_right t) (edge_parent t) (edge_child t)
        (site_pos t) (mut_site t) (mut_node t) (mut_parent t) (mut_time t)
        (map (fun r => fst (fst (fst (fst (fst r))))) rows) (map (fun r => snd (fst (fst (fst (fst r))))) rows)
        (map (fun r => snd (fst (fst (fst r)))) rows) (map (fun r => snd (fst (fst r))) rows)
        (map (fun r => snd (fst r)) rows) (map (fun r => snd r) rows) (ragged t) (idx t))
  | OpRagged r =>
      if ragged_ok r then
      Some (mkTables (seqlen t) (npop t) (nind t) (ind_parents t) (ind_parents_offset t)
        (node_time t) (node_pop t) (node_ind t) (edge_left t) (edge_right t) (edge_parent t) (edge_child t)
        (site_pos t) (mut_site t) (mut_node t) (mut_parent t) (mut_time t)
        (mig_left t) (mig_right t) (mig_node t) (mig_source t) (mig_dest t) (mig_time t) r (idx t))
      else None                 (* set_columns refuses: table unchanged *)
  | OpSetIndex Ix Ox =>
      (* parse_indexes_dict: "must be the same length as the number of edges" *)
      if Nat.eqb (length Ix) (length (edge_left t)) && Nat.eqb (length Ox) (length (edge_left t))
      then Some (with_index t (Some (Ix, Ox))) else None
  | OpDropIndex => Some (with_index t None)
  | OpBuildIndex => match build_index t with Ok t' => Some t' | _ => None end
  end.

Definition empty_tables : tables :=
  mkTables (Fin 1) 0 0 [] [0] [] [] [] [] [] [] [] [] [] [] [] [] [] [] [] [] [] []
    (repeat (0, [0], 0) 8) None.

Inductive Reach : tables -> Prop :=
| reach_empty : Reach empty_tables
| reach_step : forall t o t', Reach t -> apply o t = Some t' -> Reach t'.

(* ---- every reachable collection is well formed ---- *)
Lemma offsets_of_length s ps : length (offsets_of s ps) = S (length ps).
Proof. revert s; induction ps as [|p r IH]; intro s; simpl; [reflexivity|]. rewrite IH. reflexivity. Qed.

Lemma offsets_of_hd s ps : nth 0 (offsets_of s ps) 0 = s.
Proof. destruct ps; reflexivity. Qed.

Lemma offsets_of_nth s ps j : 0 <= j < zlen ps ->
  s <= zat (offsets_of s ps) j <= zat (offsets_of s ps) (j + 1) /\
  zat (offsets_of s ps) (j + 1) <= s + zlen (concat ps).
Proof.
  revert s j; induction ps as [|p r IH]; intros s j R; [unfold zlen in R; simpl in R; lia|].
  assert (LC : zlen (concat (p :: r)) = zlen p + zlen (concat r)).
  { unfold zlen. simpl. rewrite app_length. lia. }
  assert (NN : 0 <= zlen p /\ 0 <= zlen (concat r)) by (unfold zlen; lia).
  rewrite LC. clear LC.
  destruct (Z.eq_dec j 0) as [E|E].
  - subst j. unfold zat. replace (Z.to_nat 0) with 0%nat by reflexivity.
    replace (Z.to_nat (0 + 1)) with 1%nat by reflexivity. cbn [offsets_of nth].
    rewrite offsets_of_hd. lia.
  - assert (Rj : 0 <= j - 1 < zlen r) by (unfold zlen in *; simpl in R; lia).
    specialize (IH (s + zlen p) (j - 1) Rj). unfold zat in *.
    replace (Z.to_nat j) with (S (Z.to_nat (j - 1))) by lia.
    replace (Z.to_nat (j + 1)) with (S (Z.to_nat (j - 1 + 1))) by lia. cbn [offsets_of nth]. lia.
Qed.

Lemma reindex_len n i I O : reindex n i = Some (I, O) -> length I = n /\ length O = n.
Proof.
  destruct i as [[I' O']|]; simpl; [|discriminate].
  destruct (Nat.eqb (length I') n) eqn:A, (Nat.eqb (length O') n) eqn:B; simpl; try discriminate.
  intro H; inversion H; subst. apply Nat.eqb_eq in A, B. auto.
Qed.

Lemma ragged_ok_Forall r : ragged_ok r = true -> Forall (fun '(n, o, _) => 0 <= n /\ zlen o = n + 1) r.
Proof.
  unfold ragged_ok. rewrite forallb_forall. intro H. apply Forall_forall. intros [[n o] l] Hin.
  specialize (H _ Hin). simpl in H. b2z. auto.
Qed.

Lemma empty_WF : WF empty_tables.
Proof.
  constructor; try reflexivity.
  - vm_compute. split; [discriminate|reflexivity].
  - intros j Rj. simpl in Rj. lia.
  - simpl. repeat constructor; vm_compute; try discriminate; reflexivity.
  - intros I O E. discriminate E.
Qed.

Lemma apply_WF o t t' : WF t -> apply o t = Some t' -> WF t'.
Proof.
  intros W H. destruct W.
  destruct o; simpl in H.
  - inversion H; subst. constructor; assumption.
  - inversion H; subst. constructor; assumption.
  - inversion H; subst. constructor; try assumption; cbn [nind ind_parents ind_parents_offset].
    + split; [unfold zlen; lia|]. unfold zlen. rewrite offsets_of_length. lia.
    + intros j Rj. destruct (offsets_of_nth 0 parents j Rj) as [A B]. lia.
  - inversion H; subst. constructor; try assumption; cbn; rewrite !map_length; reflexivity.
  - inversion H; subst. constructor; try assumption; cbn [edge_left edge_right edge_parent edge_child idx];
      try (rewrite !map_length; reflexivity).
    intros I O E. apply reindex_len in E. rewrite map_length. exact E.
  - inversion H; subst. constructor; assumption.
  - inversion H; subst. constructor; try assumption; cbn; rewrite !map_length; reflexivity.
  - inversion H; subst. constructor; try assumption; cbn; rewrite !map_length; reflexivity.
  - destruct (ragged_ok r) eqn:R; [|discriminate]. inversion H; subst.
    constructor; try assumption. apply ragged_ok_Forall. assumption.
  - destruct (Nat.eqb (length Ix) (length (edge_left t)) && Nat.eqb (length Ox) (length (edge_left t))) eqn:G; [|discriminate].
    inversion H; subst. apply andb_true_iff in G as [G1 G2]. apply Nat.eqb_eq in G1, G2.
    constructor; try assumption. intros I' O' E. simpl in E. inversion E; subst. auto.
  - inversion H; subst. constructor; try assumption. intros I' O' E. discriminate E.
  - destruct (build_index t) as [t1| | |] eqn:B; try discriminate. inversion H; subst.
    destruct (build_index_shape t t' B) as [I [O [E [LI LO]]]]. subst t'.
    apply WF_with_index; [constructor; assumption|assumption|assumption].
Qed.

Theorem reach_WF_lemma : forall t, Reach t -> WF t.
Proof. induction 1; [apply empty_WF|eapply apply_WF; eauto]. Qed.

Fixpoint run (ops : list op) (t : tables) : option tables :=
  match ops with
  | [] => Some t
  | o :: rest => match apply o t with Some t' => run rest t' | None => None end
  end.

Lemma reach_run ops : forall t t', Reach t -> run ops t = Some t' -> Reach t'.
Proof.
  induction ops as [|o rest IH]; intros t t' R H; simpl in H; [inversion H; subst; assumption|].
  destruct (apply o t) as [t1|] eqn:A; [|discriminate]. eapply IH; [|exact H]. eapply reach_step; eauto.
Qed.

(* non-vacuity: the example collection of C02/Spec.v is reachable, and so is a collection full of
   garbage values (the operations accept any cell values) *)
Example ex_valid_reachable : Reach ex_valid.
Proof.
  apply (reach_run
    [OpSeqlen (Fin 4); OpPopulations 1; OpIndividuals [[-1]];
     OpNodes [(Fin 0, 0, 0); (Fin 0, -1, -1); (Fin 2, 0, -1)];
     OpEdges [(Fin 0, Fin 4, 2, 0); (Fin 0, Fin 4, 2, 1)]; OpSites [Fin 1];
     OpMutations [(0, 0, -1, Fin 1)]; OpMigrations [(Fin 0, Fin 2, 0, 0, 0, Fin 1)];
     OpRagged [(3, [0; 0; 1; 2], 2); (1, [0; 1], 1)]; OpSetIndex [0; 1] [0; 1]] empty_tables);
    [apply reach_empty|vm_compute; reflexivity].
Qed.

Example stale_index_reachable :
  exists t, Reach t /\ idx t = Some ([0; 1], [1; 0]) /\ edge_right t = [Fin 2; Fin 4].
Proof.
  eexists. split; [|split].
  - apply (reach_run
      [OpSeqlen (Fin 4); OpNodes [(Fin 0, -1, -1); (Fin 0, -1, -1); (Fin 2, -1, -1)];
       OpEdges [(Fin 0, Fin 4, 2, 0); (Fin 0, Fin 4, 2, 1)]; OpBuildIndex;
       OpEdges [(Fin 0, Fin 2, 2, 0); (Fin 0, Fin 4, 2, 1)]] empty_tables);
      [apply reach_empty|vm_compute; reflexivity].
  - reflexivity.
  - reflexivity.
Qed.

(* ---- the gate on reachable collections: no unproved shape hypothesis left ---- *)
Theorem gate_on_reachable_lemma : forall t, Reach t -> 2 * num_edges t + 1 < TSK_MAX_ID ->
  check t <> OOB /\ check t <> Fuel /\ ((exists n, check t = Ok n) <-> ValidTS t).
Proof.
  intros t R B. assert (W := reach_WF_lemma t R). split; [|split].
  - apply NoOOB.check_no_oob_lemma; assumption.
  - apply Top.check_terminates_now.
  - apply Top.check_iff_top; assumption.
Qed.

(* ---- tskit.load: a file without an index is never a tree sequence ---- *)
Lemma load_unindexed_rejected_lemma : forall t n, idx t = None -> load_gate t <> Ok n.
Proof.
  intros t n NI H. unfold load_gate, check in H. apply check_integrity_trees_inv in H.
  destruct H as [_ [_ [_ [_ [_ [_ [_ [_ [HI _]]]]]]]]]. unfold check_index_integrity in HI. rewrite NI in HI. discriminate.
Qed.

(* ... and when nothing else is wrong the error is TSK_ERR_TABLES_NOT_INDEXED *)
Lemma load_unindexed_error_lemma : forall t, WF t -> idx t = None -> SeqlenOK t -> Sound.RowsValid t ->
  load_gate t = Err E_TABLES_NOT_INDEXED.
Proof.
  intros t W NI [Lz [HL HLpos]] R. destruct R. unfold load_gate, check, check_integrity. fold oT.
  rewrite Complete.err_if_false.
  2:{ rewrite HL. unfold F0. rewrite fle_fin. simpl. rewrite orb_false_r. apply Z.leb_gt; lia. }
  rewrite (Complete.offsets_complete t W r_offsets). cbn [bind].
  rewrite (Complete.nodes_complete t oT eq_refl W r_nodes). cbn [bind].
  rewrite (Complete.edges_complete t oT eq_refl W r_nodes r_edge_rows r_edge_order). cbn [bind].
  rewrite (Complete.sites_complete t oT r_sites). cbn [bind].
  rewrite (Complete.muts_complete t oT W r_nodes r_mut_rows r_mut_order r_mut_mix). cbn [bind].
  rewrite (Complete.migs_complete t oT eq_refl W r_migs). cbn [bind].
  rewrite (Complete.inds_complete t oT eq_refl W r_inds). cbn [bind].
  cbn [oT imply_trees opts_trees o_trees o_indexes]. unfold check_index_integrity. rewrite NI. reflexivity.
Qed.

Example load_unindexed_example : load_gate (ex_tables None) = Err E_TABLES_NOT_INDEXED.
Proof. vm_compute. reflexivity. Qed.
