(* C02/Fl.v — the part of IEEE-754 double comparison semantics the integrity checks of
   tables.c depend on.  The checks only *compare* coordinates and times (<, <=, ==),
   test finiteness (tsk_isfinite) and test for the TSK_UNKNOWN_TIME NaN payload
   (tsk_is_unknown_time); no arithmetic is performed on them.  A finite double is therefore
   represented by an integer (its rank; the harness maps the doubles of a case to ranks,
   an order isomorphism), and the four non-finite classes are explicit. *)
From Coq Require Import ZArith Bool Lia.
Open Scope Z_scope.

Inductive Fl : Type :=
| Fin (z : Z)
| FPInf
| FNInf
| FNaN           (* any NaN that is not TSK_UNKNOWN_TIME *)
| FUnk.          (* TSK_UNKNOWN_TIME (a NaN with a fixed payload) *)

Definition isfinite (a : Fl) : bool := match a with Fin _ => true | _ => false end.
Definition is_unknown (a : Fl) : bool := match a with FUnk => true | _ => false end.
Definition is_nan (a : Fl) : bool := match a with FNaN | FUnk => true | _ => false end.

(* a < b on doubles: false whenever either side is a NaN *)
Definition flt (a b : Fl) : bool :=
  match a, b with
  | Fin x, Fin y => x <? y
  | Fin _, FPInf => true
  | FNInf, Fin _ => true
  | FNInf, FPInf => true
  | _, _ => false
  end.

(* a == b on doubles *)
Definition feq (a b : Fl) : bool :=
  match a, b with
  | Fin x, Fin y => x =? y
  | FPInf, FPInf => true
  | FNInf, FNInf => true
  | _, _ => false
  end.

Definition fle (a b : Fl) : bool := flt a b || feq a b.
Definition fgt (a b : Fl) : bool := flt b a.
Definition fge (a b : Fl) : bool := fle b a.
Definition fne (a b : Fl) : bool := negb (feq a b).   (* a != b : true for NaNs *)

(* TSK_MIN(a, b) = ((a) < (b) ? (a) : (b)) *)
Definition fmin (a b : Fl) : Fl := if flt a b then a else b.

(* unary minus (used for the removal-order sort keys of build_index) *)
Definition fneg (a : Fl) : Fl :=
  match a with Fin z => Fin (- z) | FPInf => FNInf | FNInf => FPInf | x => x end.

Definition F0 : Fl := Fin 0.

Lemma flt_fin x y : flt (Fin x) (Fin y) = (x <? y). Proof. reflexivity. Qed.
Lemma feq_fin x y : feq (Fin x) (Fin y) = (x =? y). Proof. reflexivity. Qed.
Lemma fle_fin x y : fle (Fin x) (Fin y) = (x <=? y).
Proof.
  unfold fle; simpl. destruct (x <? y) eqn:A, (x =? y) eqn:B, (x <=? y) eqn:C; try reflexivity;
  try apply Z.ltb_lt in A; try apply Z.ltb_ge in A; try apply Z.eqb_eq in B; try apply Z.eqb_neq in B;
  try apply Z.leb_le in C; try apply Z.leb_gt in C; lia.
Qed.

Lemma isfinite_fin a : isfinite a = true -> exists z, a = Fin z.
Proof. destruct a; simpl; intro H; try discriminate. eauto. Qed.

Lemma fmin_fin x y : fmin (Fin x) (Fin y) = Fin (Z.min x y).
Proof.
  unfold fmin; simpl. destruct (x <? y) eqn:A; f_equal;
  [apply Z.ltb_lt in A | apply Z.ltb_ge in A]; lia.
Qed.

Example flt_nan_false : flt FNaN (Fin 0) = false /\ flt (Fin 0) FUnk = false /\ fle FNaN F0 = false.
Proof. repeat split. Qed.
