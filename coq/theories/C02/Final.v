(* C02/Final.v — (1) stale-index histories: after the edge table of a collection is rewritten,
   has_index() keeps the index exactly when the row count is unchanged; when it changed the
   collection is unindexed and tskit.load (the gate without build_index) can never accept it.
   (2) one documented-but-unchecked requirement stated and refuted with a witness: "if another
   mutation occurs on the tree above the mutation in question, its ID must be listed as the
   parent" — already its special case "the nearest earlier mutation at the same site on the SAME
   node is the parent" is not enforced by the gate. *)
From Coq Require Import List ZArith Bool Lia.
From TskVerif Require Import Base.Common C02.Fl C02.Model C02.Spec C02.Reach.
Import ListNotations.
Open Scope Z_scope.

Lemma edges_rewrite_index_lemma : forall t rows t' Ix Ox,
  apply (OpEdges rows) t = Some t' -> idx t = Some (Ix, Ox) ->
  length Ix = length Ox ->
  (length rows <> length Ix -> idx t' = None /\ forall n, load_gate t' <> Ok n) /\
  (length rows = length Ix -> idx t' = Some (Ix, Ox)).
Proof.
  intros t rows t' Ix Ox H E LE. simpl in H. inversion H; subst t'; clear H. cbn [idx]. rewrite E. simpl.
  split.
  - intro NE. assert (Q : Nat.eqb (length Ix) (length rows) = false) by (apply Nat.eqb_neq; congruence).
    rewrite Q. simpl. split; [reflexivity|]. intros n. apply load_unindexed_rejected_lemma. reflexivity.
  - intro EQ. rewrite <- LE, <- EQ, Nat.eqb_refl. reflexivity.
Qed.

(* every reachable collection whose index is regarded as absent is refused by tskit.load *)
Lemma reachable_unindexed_load_lemma : forall t n, Reach t -> idx t = None -> load_gate t <> Ok n.
Proof. intros t n _ H. apply load_unindexed_rejected_lemma. exact H. Qed.

(* ---- documented, not checked ---- *)
Definition DocMutParentSameNode (t : tables) : Prop :=
  forall a b, 0 <= a < b -> b < num_mutations t ->
    zat (mut_site t) a = zat (mut_site t) b -> zat (mut_node t) a = zat (mut_node t) b ->
    (forall c, a < c < b -> ~ (zat (mut_site t) c = zat (mut_site t) a /\ zat (mut_node t) c = zat (mut_node t) a)) ->
    zat (mut_parent t) b = a.

Definition ex_doc_mut : tables :=
  mkTables (Fin 4) 0 0 [] [0] [Fin 0; Fin 0; Fin 2] [-1; -1; -1] [-1; -1; -1]
    [Fin 0; Fin 0] [Fin 4; Fin 4] [2; 2] [0; 1] [Fin 1]
    [0; 0] [0; 0] [-1; -1] [FUnk; FUnk] [] [] [] [] [] [] [] (Some ([0; 1], [0; 1])).

Lemma doc_mut_parent_refuted_lemma :
  exists t n, Reach t /\ check t = Ok n /\ ~ DocMutParentSameNode t.
Proof.
  exists ex_doc_mut, 1. split; [|split].
  - apply (reach_run
      [OpSeqlen (Fin 4); OpNodes [(Fin 0, -1, -1); (Fin 0, -1, -1); (Fin 2, -1, -1)];
       OpEdges [(Fin 0, Fin 4, 2, 0); (Fin 0, Fin 4, 2, 1)]; OpSites [Fin 1];
       OpMutations [(0, 0, -1, FUnk); (0, 0, -1, FUnk)]; OpRagged []; OpSetIndex [0; 1] [0; 1]] empty_tables);
      [apply reach_empty|vm_compute; reflexivity].
  - vm_compute. reflexivity.
  - intro D. specialize (D 0 1 ltac:(lia) ltac:(vm_compute; reflexivity) eq_refl eq_refl ltac:(intros; lia)).
    vm_compute in D. discriminate.
Qed.
