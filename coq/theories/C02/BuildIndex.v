(* C02/BuildIndex.v — tsk_table_collection_build_index (as modelled: the two key tuples of
   index_sort_t, cmp_index_sort, an insertion sort standing for qsort) produces an index that
   satisfies the index clause of ValidTS: two permutations of the edge ids, by nondecreasing
   left / right.  Hence TableCollection.tree_sequence() on tables WITHOUT an index
   (tree_sequence_gate) accepts every collection whose other clauses hold. *)
From Coq Require Import List ZArith Bool Lia Permutation Sorting.Sorted.
From TskVerif Require Import Base.Common C02.Fl C02.Model C02.Arr C02.Tac C02.Spec C02.TableSound
  C02.ListX C02.Complete C02.SweepComplete C02.Sound.
Import ListNotations.
Open Scope Z_scope.

Definition kix (k : key) : Z := let '(_, _, _, _, j) := k in j.
Definition kfst (k : key) : Fl := let '(a, _, _, _, _) := k in a.
Definition kR (a b : key) : Prop := key_lt b a = false.

Lemma flt_asym a b : flt a b = true -> flt b a = false.
Proof. destruct a, b; simpl; intro H; try reflexivity; try discriminate. b2z. apply Z.ltb_ge. lia. Qed.

Lemma key_lt_asym a b : key_lt a b = true -> key_lt b a = false.
Proof.
  destruct a as [[[[a1 a2] a3] a4] a5], b as [[[[b1 b2] b3] b4] b5]. unfold key_lt, fgt.
  destruct (flt a1 b1) eqn:E1.
  { intros _. rewrite (flt_asym _ _ E1). reflexivity. }
  destruct (flt b1 a1) eqn:E2; [discriminate|].
  destruct (flt a2 b2) eqn:E3.
  { intros _. rewrite (flt_asym _ _ E3). reflexivity. }
  destruct (flt b2 a2) eqn:E4; [discriminate|].
  destruct (a3 <? b3) eqn:E5.
  { intros _. b2z. replace (b3 <? a3) with false by (symmetry; apply Z.ltb_ge; lia).
    replace (b3 >? a3) with true by (symmetry; apply Z.gtb_lt; lia). reflexivity. }
  destruct (a3 >? b3) eqn:E6; [discriminate|]. b2z. assert (a3 = b3) by lia. subst.
  rewrite Z.ltb_irrefl. replace (b3 >? b3) with false by (symmetry; rewrite Z.gtb_ltb; apply Z.ltb_irrefl).
  intro H. b2z. apply Z.ltb_ge. lia.
Qed.

Lemma insert_key_perm x l : Permutation (insert_key x l) (x :: l).
Proof.
  induction l as [|y r IH]; simpl; [apply Permutation_refl|].
  destruct (key_lt y x); [|apply Permutation_refl].
  eapply Permutation_trans; [apply perm_skip; exact IH|apply perm_swap].
Qed.

Lemma sort_keys_perm l : Permutation (sort_keys l) l.
Proof.
  induction l as [|x r IH]; simpl; [constructor|].
  eapply Permutation_trans; [apply insert_key_perm|apply perm_skip; exact IH].
Qed.

Lemma insert_key_sorted x l : Sorted kR l -> Sorted kR (insert_key x l).
Proof.
  induction 1 as [|y r S IH H]; simpl; [repeat constructor|].
  destruct (key_lt y x) eqn:E.
  - constructor; [assumption|]. destruct r as [|z r']; simpl.
    + constructor. unfold kR. apply key_lt_asym. assumption.
    + destruct (key_lt z x) eqn:E2.
      * constructor. inversion H; assumption.
      * constructor. unfold kR. apply key_lt_asym. assumption.
  - constructor; [constructor; assumption|]. constructor. exact E.
Qed.

Lemma sort_keys_sorted l : Sorted kR (sort_keys l).
Proof. induction l as [|x r IH]; simpl; [constructor|apply insert_key_sorted; assumption]. Qed.

Lemma Sorted_adj {A} (R : A -> A -> Prop) l d : Sorted R l ->
  forall i, (S i < length l)%nat -> R (nth i l d) (nth (S i) l d).
Proof.
  induction 1 as [|x r S IH H]; intros i Hi; simpl in Hi; [lia|].
  destruct i as [|i].
  - destruct r as [|y r']; simpl in *; [lia|]. inversion H; assumption.
  - simpl. apply IH. lia.
Qed.

(* first component not smaller: from "not strictly less" on finite firsts *)
Lemma kR_first a b x y : kR a b -> kfst a = Fin x -> kfst b = Fin y -> x <= y.
Proof.
  destruct a as [[[[a1 a2] a3] a4] a5], b as [[[[b1 b2] b3] b4] b5]. unfold kR, key_lt. simpl.
  intros H E1 E2. subst. simpl in H. destruct (y <? x) eqn:C; [discriminate|]. b2z. lia.
Qed.

Section BuildIndex.
  Variable t : tables.
  Hypothesis W : WF t.
  Hypothesis HN : NodesOK t.
  Hypothesis HE : EdgeRowsOK t.

  Let ne := num_edges t.

  (* the key list built by the first loop of build_index *)
  Lemma edge_keys_spec removal ks : edge_keys t removal = Ok ks ->
    map kix ks = zrange ne /\
    Forall (fun k => 0 <= kix k < ne /\
              kfst k = if removal then fat (edge_right t) (kix k) else fat (edge_left t) (kix k)) ks.
  Proof.
    unfold edge_keys. intro H.
    apply (for_loop_inv _ (fun i acc => 0 <= i /\ map kix acc = zrange i /\
              Forall (fun k => 0 <= kix k < i /\
                 kfst k = if removal then fat (edge_right t) (kix k) else fat (edge_left t) (kix k)) acc)) in H.
    - simpl in H. destruct H as [_ [H1 H2]]. rewrite zlen_nat in *. fold (num_edges t) in *. unfold ne.
      split; assumption.
    - split; [lia|]. split; [reflexivity|constructor].
    - intros i s1 s2 Ri [R0 [M1 F1]] B. steps B. unfold key in *.
      split; [lia|]. split.
      + rewrite map_app. rewrite M1. unfold zrange. replace (Z.to_nat (i + 1)) with (S (Z.to_nat i)) by lia.
        rewrite seq_S, map_app. f_equal. simpl. f_equal. destruct removal; simpl; lia.
      + apply Forall_app. split.
        * eapply Forall_impl; [|exact F1]. intros k [K1 K2]. split; [lia|assumption].
        * constructor; [|constructor]. apply fat_aget in G, G0.
          destruct removal; simpl; (split; [lia|congruence]).
  Qed.

  Lemma zrange_zat n a : 0 <= a < n -> zat (zrange n) a = a.
  Proof.
    intro R. unfold zat, zrange. rewrite nth_indep with (d' := Z.of_nat 0) by (rewrite map_length, seq_length; lia).
    rewrite map_nth, seq_nth by lia. lia.
  Qed.

  Lemma sorted_index removal ks :
    edge_keys t removal = Ok ks ->
    let Ix := map kix (sort_keys ks) in
    Permutation Ix (zrange ne) /\
    forall a, 0 < a < ne ->
      fle (if removal then fat (edge_right t) (zat Ix (a - 1)) else fat (edge_left t) (zat Ix (a - 1)))
          (if removal then fat (edge_right t) (zat Ix a) else fat (edge_left t) (zat Ix a)) = true.
  Proof.
    intros H Ix. destruct (edge_keys_spec removal ks H) as [M F].
    assert (P : Permutation (sort_keys ks) ks) by apply sort_keys_perm.
    assert (LEN : length (sort_keys ks) = Z.to_nat ne).
    { rewrite (Permutation_length P). rewrite <- (map_length kix), M. unfold zrange. rewrite map_length, seq_length. reflexivity. }
    split.
    - unfold Ix. rewrite <- M. apply Permutation_map. exact P.
    - intros a Ra.
      assert (F' : Forall (fun k => 0 <= kix k < ne /\
              kfst k = if removal then fat (edge_right t) (kix k) else fat (edge_left t) (kix k)) (sort_keys ks)).
      { apply Forall_forall. intros k Hk. apply (proj1 (Forall_forall _ _) F). eapply Permutation_in; eauto. }
      set (d := (FNaN, FNaN, 0, 0, 0) : key).
      assert (ADJ := Sorted_adj kR (sort_keys ks) d (sort_keys_sorted ks) (Z.to_nat (a - 1)) ltac:(lia)).
      replace (S (Z.to_nat (a - 1))) with (Z.to_nat a) in ADJ by lia.
      assert (N1 : zat Ix (a - 1) = kix (nth (Z.to_nat (a - 1)) (sort_keys ks) d)).
      { unfold Ix, zat. change 0 with (kix d). apply map_nth. }
      assert (N2 : zat Ix a = kix (nth (Z.to_nat a) (sort_keys ks) d)).
      { unfold Ix, zat. change 0 with (kix d). apply map_nth. }
      assert (I1 : In (nth (Z.to_nat (a - 1)) (sort_keys ks) d) (sort_keys ks)) by (apply nth_In; lia).
      assert (I2 : In (nth (Z.to_nat a) (sort_keys ks) d) (sort_keys ks)) by (apply nth_In; lia).
      destruct (proj1 (Forall_forall _ _) F' _ I1) as [R1 E1].
      destruct (proj1 (Forall_forall _ _) F' _ I2) as [R2 E2].
      rewrite N1, N2.
      destruct (HE _ R1) as [_ [_ [[l1 [r1 [L1 [Rr1 _]]]] _]]]. destruct (HE _ R2) as [_ [_ [[l2 [r2 [L2 [Rr2 _]]]] _]]].
      destruct removal.
      + rewrite Rr1, Rr2, fle_fin. apply Z.leb_le. eapply kR_first; [exact ADJ| |]; congruence.
      + rewrite L1, L2, fle_fin. apply Z.leb_le. eapply kR_first; [exact ADJ| |]; congruence.
  Qed.

  Theorem build_index_valid_lemma t' : build_index t = Ok t' ->
    exists I O, t' = with_index t (Some (I, O)) /\ InsertionOK t I /\ RemovalOK t O.
  Proof.
    unfold build_index. intro H. stepn H u G0. stepn H ki Gi. stepn H ko Go.
    inversion H; subst t'. clear H.
    destruct (sorted_index false ki Gi) as [P1 S1]. destruct (sorted_index true ko Go) as [P2 S2].
    eexists _, _. split; [reflexivity|]. split; split; assumption.
  Qed.
End BuildIndex.

(* tree_sequence() on tables without an index *)
Theorem gate_builds_index_lemma t t' : idx t = None -> EdgeRowsOK t -> build_index t = Ok t' ->
  IndexOK t' /\ tree_sequence_gate t = check t'.
Proof.
  intros NI HE B. split.
  - destruct (build_index_valid_lemma t HE t' B) as [I [O [E [A1 A2]]]]. subst t'.
    exists I, O. split; [reflexivity|]. split; [exact A1|exact A2].
  - unfold tree_sequence_gate. rewrite NI, B. reflexivity.
Qed.

Lemma IsPerm_length t I : IsPerm t I -> length I = length (edge_left t).
Proof.
  intro P. rewrite (Permutation_length P). unfold zrange. rewrite map_length, seq_length.
  unfold num_edges, zlen. lia.
Qed.

(* every collection that satisfies the non-index clauses and carries no index is accepted by
   TableCollection.tree_sequence() as soon as build_index's own integrity call succeeds *)
Theorem gate_accepts_unindexed_lemma t t' :
  WF t -> idx t = None -> SeqlenOK t -> Sound.RowsValid t -> ChildIntervalsDisjoint t ->
  MutBelowParentNodeOK t -> 2 * num_edges t + 1 < TSK_MAX_ID ->
  build_index t = Ok t' -> exists n, tree_sequence_gate t = Ok n.
Proof.
  intros W NI SL R D MB OV B. destruct R.
  destruct (build_index_valid_lemma t r_edge_rows t' B) as [I [O [E [A1 A2]]]].
  unfold tree_sequence_gate. rewrite NI, B. cbn [bind].
  assert (W' : WF t').
  { subst t'. destruct W. constructor; try assumption. intros I' O' EI. simpl in EI. inversion EI; subst.
    split; [apply IsPerm_length; apply A1|apply IsPerm_length; apply A2]. }
  assert (V' : ValidTS t').
  { subst t'. constructor; try assumption. exists I, O. split; [reflexivity|]. split; [exact A1|exact A2]. }
  destruct (check_complete_lemma code_variant t' W' V') as [n [En _]]; [subst t'; exact OV|].
  exists n. exact En.
Qed.

Lemma edge_keys_complete t removal : WF t -> EdgeRowsOK t -> exists ks, edge_keys t removal = Ok ks.
Proof.
  intros W HE. unfold edge_keys.
  destruct (for_loop_complete
    (fun j acc => do l <- aget (edge_left t) j; do r <- aget (edge_right t) j;
                  do p <- aget (edge_parent t) j; do c <- aget (edge_child t) j;
                  do tp <- aget (node_time t) p;
                  Ok (acc ++ [if removal then (r, fneg tp, - p, - c, j) else (l, tp, p, c, j)]))
    (fun _ _ => True) (length (edge_left t)) 0 []) as [ks [E _]]; [exact I| |exists ks; exact E].
  intros i s1 R _.
  pose proof (wf_edge_right t W); pose proof (wf_edge_parent t W); pose proof (wf_edge_child t W).
  destruct (HE i ltac:(rng)) as [RP _].
  rewrite (aget_fat (edge_left t) i) by rng. cbn [bind].
  rewrite (aget_fat (edge_right t) i) by rng. cbn [bind].
  rewrite (aget_zat (edge_parent t) i) by rng. cbn [bind].
  rewrite (aget_zat (edge_child t) i) by rng. cbn [bind].
  rewrite (aget_fat (node_time t)) by (unfold num_nodes in RP; exact RP). cbn [bind].
  eexists. split; [reflexivity|exact I].
Qed.

(* length of the arrays build_index installs (no assumption on the cell values) *)
Lemma build_index_shape t t' : build_index t = Ok t' ->
  exists I O, t' = with_index t (Some (I, O)) /\
    length I = length (edge_left t) /\ length O = length (edge_left t).
Proof.
  unfold build_index. intro H. stepn H u G0. stepn H ki Gi. stepn H ko Go. inversion H; subst t'. clear H.
  destruct (edge_keys_spec t false ki Gi) as [M1 _]. destruct (edge_keys_spec t true ko Go) as [M2 _].
  eexists _, _. split; [reflexivity|].
  assert (L : forall ks, map kix ks = zrange (num_edges t) -> length (map kix (sort_keys ks)) = length (edge_left t)).
  { intros ks M. rewrite map_length, (Permutation_length (sort_keys_perm ks)), <- (map_length kix), M.
    unfold zrange. rewrite map_length, seq_length. unfold num_edges, zlen. lia. }
  split; apply L; assumption.
Qed.

Lemma WF_with_index t I O : WF t -> length I = length (edge_left t) -> length O = length (edge_left t) ->
  WF (with_index t (Some (I, O))).
Proof.
  intros W LI LO. destruct W. constructor; try assumption.
  intros I' O' E. simpl in E. inversion E; subst. split; assumption.
Qed.

(* soundness of tree_sequence() on tables WITHOUT an index, for the code as it is: the built
   index is always a permutation, so finding F1 cannot arise on this path *)
Theorem gate_unindexed_sound_lemma t n z : WF t -> idx t = None -> seqlen t = Fin z ->
  tree_sequence_gate t = Ok n ->
  SeqlenOK t /\ Sound.RowsValid t /\ ChildIntervalsDisjoint t /\ MutBelowParentNodeOK t.
Proof.
  intros W NI HL H. unfold tree_sequence_gate in H. rewrite NI in H. stepn H t' B.
  destruct (build_index_shape t t' B) as [I [O [E [LI LO]]]]. subst t'.
  assert (W' := WF_with_index t I O W LI LO).
  assert (P := check_sound_partial_lemma _ n z W' HL H). destruct P as [R D MB _].
  split; [exists z; split; [assumption|]|].
  - destruct (Sound.gate_sound_seqlen_fin code_variant _ n z H HL) as [z' [E1 E2]]. simpl in E1. congruence.
  - destruct R. split; [constructor; assumption|]. split; assumption.
Qed.

(* the same without the hypothesis on build_index: every collection WITHOUT an index that
   satisfies the non-index clauses is accepted by TableCollection.tree_sequence() *)
Theorem gate_accepts_unindexed_full t :
  WF t -> idx t = None -> SeqlenOK t -> Sound.RowsValid t -> ChildIntervalsDisjoint t ->
  MutBelowParentNodeOK t -> 2 * num_edges t + 1 < TSK_MAX_ID ->
  exists n, tree_sequence_gate t = Ok n.
Proof.
  intros W NI SL R D MB OV.
  assert (B : exists t', build_index t = Ok t').
  { destruct R. unfold build_index.
    rewrite (check_edge_ordering_complete code_variant t W SL) by assumption. cbn [bind].
    destruct (edge_keys_complete t false W r_edge_rows) as [ki Ei]. rewrite Ei. cbn [bind].
    destruct (edge_keys_complete t true W r_edge_rows) as [ko Eo]. rewrite Eo. cbn [bind].
    eexists. reflexivity. }
  destruct B as [t' B]. eapply gate_accepts_unindexed_lemma; eauto.
Qed.

Example build_index_example :
  exists t', build_index (ex_tables None) = Ok t' /\ idx t' = Some ([0; 1], [1; 0]) /\ check t' = Ok 1.
Proof. eexists. split; [vm_compute; reflexivity|]. split; vm_compute; reflexivity. Qed.
