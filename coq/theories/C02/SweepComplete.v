(* C02/SweepComplete.v — completeness of tsk_table_collection_check_tree_integrity: on valid
   tables with a consistent index the sweep raises no error and does not run out of fuel. *)
From Coq Require Import List ZArith Bool Lia Permutation.
From TskVerif Require Import Base.Common C02.Fl C02.Model C02.Arr C02.Tac C02.Spec C02.TableSound
  C02.ListX C02.SweepSound C02.Complete.
Import ListNotations.
Open Scope Z_scope.

Lemma cnt_pre_le l m e : cnt (pre l m) e <= cnt l e.
Proof.
  unfold cnt, pre. rewrite <- (firstn_skipn (Z.to_nat m) l) at 2. rewrite count_occ_app. lia.
Qed.

Lemma cnt_le1_of_NoDup l e : NoDup l -> cnt l e <= 1.
Proof. intro ND. unfold cnt. pose proof (proj1 (NoDup_count_occ Z.eq_dec l) ND e). lia. Qed.

Lemma cnt_pre_fresh l k e : NoDup l -> aget l k = Ok e -> cnt (pre l k) e = 0.
Proof.
  intros ND G. pose proof (cnt_pre_le l (k + 1) e). pose proof (cnt_le1_of_NoDup l e ND).
  rewrite (pre_snoc _ _ _ G), cnt_snoc in H. destruct (Z.eq_dec e e); [|congruence].
  pose proof (cnt_nonneg (pre l k) e). lia.
Qed.

Lemma In_zat l e : In e l -> exists b, 0 <= b < zlen l /\ zat l b = e.
Proof.
  intro H. apply In_nth with (d := 0) in H as [n [Ln En]].
  exists (Z.of_nat n). split; [unfold zlen; lia|]. unfold zat. rewrite Nat2Z.id. assumption.
Qed.

Section SweepComplete.
  Variable v : variant.
  Variable t : tables.
  Variables II OO : list Z.
  Variable Lz : Z.
  Hypothesis W : WF t.
  Hypothesis HL : seqlen t = Fin Lz.
  Hypothesis HLpos : 0 < Lz.
  Hypothesis HN : NodesOK t.
  Hypothesis HE : EdgeRowsOK t.
  Hypothesis HS : SitesOK t.
  Hypothesis HMR : MutRowsOK t.
  Hypothesis HMO : MutOrderOK t.
  Hypothesis HD : ChildIntervalsDisjoint t.
  Hypothesis HB : MutBelowParentNodeOK t.
  Hypothesis HPI : InsertionOK t II.
  Hypothesis HPO : RemovalOK t OO.
  Hypothesis LI : length II = length (edge_left t).
  Hypothesis LO : length OO = length (edge_left t).
  Hypothesis HOV : 2 * num_edges t + 1 < TSK_MAX_ID.

  Let ne := num_edges t.
  Let N := num_nodes t.
  Let NS := num_sites t.
  Let M := num_mutations t.
  Let ep e := zat (edge_parent t) e.
  Let ec e := zat (edge_child t) e.
  Let ms m := zat (mut_site t) m.
  Let mn m := zat (mut_node t) m.
  Let unk m := is_unknown (fat (mut_time t) m).
  Notation elz := (elz t). Notation erz := (erz t). Notation posz := (posz t).
  Notation mtz := (mtz t). Notation ntz' := (ntz' t).
  Notation cI := (cI II). Notation cO := (cO OO).
  Notation inv := (inv t II OO Lz). Notation minv := (minv t II).

  Lemma ne0 : 0 <= ne. Proof. unfold ne, num_edges, zlen. lia. Qed.
  Lemma zlII : zlen II = ne. Proof. unfold zlen, ne, num_edges. rewrite LI. reflexivity. Qed.
  Lemma zlOO : zlen OO = ne. Proof. unfold zlen, ne, num_edges. rewrite LO. reflexivity. Qed.

  Lemma HI : forall a, 0 <= a < num_edges t ->
      (exists e, aget II a = Ok e /\ 0 <= e < num_edges t) /\
      (exists e, aget OO a = Ok e /\ 0 <= e < num_edges t).
  Proof.
    intros a Ra. destruct HPI as [PI _]. destruct HPO as [PO _]. split.
    - exists (zat II a). split; [apply aget_zat; rewrite zlII; exact Ra|].
      apply (perm_zrange_In _ _ _ PI). unfold zat. apply nth_In. pose proof zlII. unfold zlen in *. fold ne in Ra. lia.
    - exists (zat OO a). split; [apply aget_zat; rewrite zlOO; exact Ra|].
      apply (perm_zrange_In _ _ _ PO). unfold zat. apply nth_In. pose proof zlOO. unfold zlen in *. fold ne in Ra. lia.
  Qed.

  Lemma NDI : NoDup II.
  Proof. destruct HPI as [PI _]. eapply Permutation_NoDup; [apply Permutation_sym; exact PI|apply zrange_NoDup]. Qed.
  Lemma NDO : NoDup OO.
  Proof. destruct HPO as [PO _]. eapply Permutation_NoDup; [apply Permutation_sym; exact PO|apply zrange_NoDup]. Qed.

  Lemma zI_range a : 0 <= a < ne -> 0 <= zat II a < ne.
  Proof. intro Ra. destruct (HI a Ra) as [[e [G R]] _]. rewrite (zat_aget _ _ _ G). exact R. Qed.
  Lemma zO_range a : 0 <= a < ne -> 0 <= zat OO a < ne.
  Proof. intro Ra. destruct (HI a Ra) as [_ [e [G R]]]. rewrite (zat_aget _ _ _ G). exact R. Qed.

  Lemma efin e : 0 <= e < ne ->
    fat (edge_left t) e = Fin (elz e) /\ fat (edge_right t) e = Fin (erz e) /\
    0 <= elz e < erz e /\ erz e <= Lz /\ 0 <= ep e < N /\ 0 <= ec e < N.
  Proof. apply (edge_fin t Lz HL HE). Qed.

  (* the index orders, for all pairs *)
  Lemma I_sorted a b : 0 <= a <= b -> b < ne -> elz (zat II a) <= elz (zat II b).
  Proof.
    intros Rab Rb. destruct HPI as [_ SI].
    assert (K : forall k : nat, a + Z.of_nat k < ne -> elz (zat II a) <= elz (zat II (a + Z.of_nat k))).
    { induction k as [|k IH]; intro Hk.
      - replace (a + Z.of_nat 0) with a by lia. lia.
      - assert (IH' := IH ltac:(lia)). assert (O1 := SI (a + Z.of_nat (S k)) ltac:(fold ne; lia)).
        replace (a + Z.of_nat (S k) - 1) with (a + Z.of_nat k) in O1 by lia.
        destruct (efin _ (zI_range (a + Z.of_nat k) ltac:(lia))) as [E1 _].
        destruct (efin _ (zI_range (a + Z.of_nat (S k)) ltac:(lia))) as [E2 _].
        rewrite E1, E2, fle_fin in O1. b2z. lia. }
    specialize (K (Z.to_nat (b - a))). replace (a + Z.of_nat (Z.to_nat (b - a))) with b in K by lia.
    apply K. lia.
  Qed.

  Lemma O_sorted a b : 0 <= a <= b -> b < ne -> erz (zat OO a) <= erz (zat OO b).
  Proof.
    intros Rab Rb. destruct HPO as [_ SO].
    assert (K : forall k : nat, a + Z.of_nat k < ne -> erz (zat OO a) <= erz (zat OO (a + Z.of_nat k))).
    { induction k as [|k IH]; intro Hk.
      - replace (a + Z.of_nat 0) with a by lia. lia.
      - assert (IH' := IH ltac:(lia)). assert (O1 := SO (a + Z.of_nat (S k)) ltac:(fold ne; lia)).
        replace (a + Z.of_nat (S k) - 1) with (a + Z.of_nat k) in O1 by lia.
        destruct (efin _ (zO_range (a + Z.of_nat k) ltac:(lia))) as [_ [E1 _]].
        destruct (efin _ (zO_range (a + Z.of_nat (S k)) ltac:(lia))) as [_ [E2 _]].
        rewrite E1, E2, fle_fin in O1. b2z. lia. }
    specialize (K (Z.to_nat (b - a))). replace (a + Z.of_nat (Z.to_nat (b - a))) with b in K by lia.
    apply K. lia.
  Qed.

  Lemma pos_in_I e : 0 <= e < ne -> exists b, 0 <= b < ne /\ zat II b = e.
  Proof.
    intro Re. destruct HPI as [PI _]. apply (perm_zrange_In _ _ _ PI) in Re.
    apply In_zat in Re. rewrite zlII in Re. exact Re.
  Qed.
  Lemma pos_in_O e : 0 <= e < ne -> exists b, 0 <= b < ne /\ zat OO b = e.
  Proof.
    intro Re. destruct HPO as [PO _]. apply (perm_zrange_In _ _ _ PO) in Re.
    apply In_zat in Re. rewrite zlOO in Re. exact Re.
  Qed.

  Lemma disj a b : 0 <= a < ne -> 0 <= b < ne -> a <> b -> ec a = ec b ->
    erz a <= elz b \/ erz b <= elz a.
  Proof.
    intros Ra Rb NE EQ. destruct (efin a Ra) as [La [Ra' _]]. destruct (efin b Rb) as [Lb [Rb' _]].
    destruct (HD a b Ra Rb NE EQ) as [Q|Q]; rewrite ?La, ?Ra', ?Lb, ?Rb', fle_fin in Q; b2z; lia.
  Qed.

  (* ---- out_loop ---- *)
  Lemma out_loop_complete j x fuel : forall k par used,
    (Z.to_nat (ne - k) < fuel)%nat -> inv j k x par used ->
    (forall a, 0 <= a < j -> elz (zat II a) < x) -> (forall a, j <= a < ne -> x <= elz (zat II a)) ->
    (forall a, 0 <= a < k -> erz (zat OO a) <= x) -> (forall a, k <= a < ne -> x <= erz (zat OO a)) ->
    exists k' par' used', out_loop t OO fuel (Fin x) k par used = Ok (k', par', used') /\
      (forall a, 0 <= a < k' -> erz (zat OO a) <= x) /\ (forall a, k' <= a < ne -> x < erz (zat OO a)).
  Proof.
    induction fuel as [|fuel IH]; intros k par used Hf INV J1 J2 K1 K2; [lia|].
    cbn [out_loop]. fold ne. destruct (k <? ne) eqn:Ck.
    2:{ b2z. eexists _, _, _. split; [reflexivity|]. split; [assumption|]. intros; lia. }
    b2z. assert (Rk : 0 <= k < ne) by (destruct INV; lia).
    destruct (HI k Rk) as [_ [e [Ge Re]]]. assert (ZO := zat_aget _ _ _ Ge).
    destruct (efin e Re) as [El [Er [Rlr [RL [RP RC]]]]].
    pose proof (wf_edge_right t W); pose proof (wf_edge_child t W).
    rewrite Ge. cbn [bind]. rewrite aget_fat by rng. cbn [bind]. rewrite Er. simpl (feq _ _).
    destruct (erz e =? x) eqn:Cx.
    2:{ b2z. eexists _, _, _. split; [reflexivity|]. split; [assumption|]. intros a Ra.
        pose proof (K2 k ltac:(lia)). pose proof (O_sorted k a ltac:(lia) ltac:(lia)). rewrite ZO in *. lia. }
    b2z. pose proof INV as INV0. destruct INV as [Ij Ik Ix Lp Lu Cn Us Pa A1 Dj Rg oI oO sI sO].
    assert (C0 : cO k e = 0) by (apply cnt_pre_fresh; [apply NDO|assumption]).
    assert (C1 : cI j e = 1).
    { destruct (pos_in_I e Re) as [b [Rb Eb]].
      assert (b < j). { destruct (Z_lt_dec b j); [assumption|]. specialize (J2 b ltac:(lia)). rewrite Eb in J2. lia. }
      assert (Q : cI j (zat II b) >= 1) by (eapply cI_prev; [exact HI|lia|fold ne; lia]).
      rewrite Eb in Q. specialize (Cn e). lia. }
    assert (ZU : zat used e = 1) by (rewrite (Us e Re); lia).
    rewrite aget_zat by (rewrite Lu; exact Re). cbn [bind]. rewrite ZU.
    rewrite err_if_false by reflexivity. rewrite aget_zat by rng. cbn [bind]. fold (ec e).
    destruct (aset_cases par (ec e) TSK_NULL) as [[p' [A [RA [LA NA]]]]|[A NR]]; [|exfalso; apply NR; rewrite Lp; exact RC].
    rewrite A. cbn [bind].
    destruct (aset_cases used e (1 + 1)) as [[u' [A' [RA' [LA' NA']]]]|[A' NR]]; [|exfalso; apply NR; rewrite Lu; exact Re].
    rewrite A'. cbn [bind].
    apply IH.
    - lia.
    - eapply out_step_inv; eauto using HI.
    - assumption.
    - assumption.
    - intros a Ra. destruct (Z.eq_dec a k); [subst a; rewrite ZO; lia|apply K1; lia].
    - intros a Ra. apply K2. lia.
  Qed.

  (* ---- in_loop ---- *)
  Lemma in_loop_complete k x sc mc fuel : forall j par used,
    (Z.to_nat (ne - j) < fuel)%nat -> inv j k x par used -> minv j x x sc mc ->
    (forall a, 0 <= a < j -> elz (zat II a) <= x) -> (forall a, j <= a < ne -> x <= elz (zat II a)) ->
    (forall a, 0 <= a < k -> erz (zat OO a) <= x) -> (forall a, k <= a < ne -> x < erz (zat OO a)) ->
    exists j' par' used', in_loop t II fuel (Fin x) j par used = Ok (j', par', used') /\
      (forall a, 0 <= a < j' -> elz (zat II a) <= x) /\ (forall a, j' <= a < ne -> x < elz (zat II a)).
  Proof.
    induction fuel as [|fuel IH]; intros j par used Hf INV MINV J1 J2 K1 K2; [lia|].
    cbn [in_loop]. fold ne. destruct (j <? ne) eqn:Cj.
    2:{ b2z. eexists _, _, _. split; [reflexivity|]. split; [assumption|]. intros; lia. }
    b2z. assert (Rj : 0 <= j < ne) by (destruct INV; lia).
    destruct (HI j Rj) as [[e [Ge Re]] _]. assert (ZI := zat_aget _ _ _ Ge).
    destruct (efin e Re) as [El [Er [Rlr [RL [RP RC]]]]].
    pose proof (wf_edge_right t W); pose proof (wf_edge_child t W); pose proof (wf_edge_parent t W).
    rewrite Ge. cbn [bind]. rewrite aget_fat by rng. cbn [bind]. rewrite El. simpl (feq _ _).
    destruct (elz e =? x) eqn:Cx.
    2:{ b2z. eexists _, _, _. split; [reflexivity|]. split; [assumption|]. intros a Ra.
        pose proof (J2 j ltac:(lia)). pose proof (I_sorted j a ltac:(lia) ltac:(lia)). rewrite ZI in *. lia. }
    b2z. pose proof INV as INV0. destruct INV as [Ij Ik Ix Lp Lu Cn Us Pa A1 Dj Rg oI oO sI sO].
    assert (C0 : cI j e = 0) by (apply cnt_pre_fresh; [apply NDI|assumption]).
    assert (C1 : cO k e = 0) by (specialize (Cn e); pose proof (cO_nonneg OO k e); lia).
    assert (ZU : zat used e = 0) by (rewrite (Us e Re); lia).
    rewrite aget_zat by (rewrite Lu; exact Re). cbn [bind]. rewrite ZU.
    rewrite err_if_false by reflexivity.
    destruct (aset_cases used e (0 + 1)) as [[u' [A' [RA' [LA' NA']]]]|[A' NR]]; [|exfalso; apply NR; rewrite Lu; exact Re].
    rewrite A'. cbn [bind]. rewrite aget_zat by rng. cbn [bind]. fold (ec e).
    assert (ZP : zat par (ec e) = -1).
    { destruct (Pa (ec e) RC) as [[P1 _]|[e2 [[B1 B2] [B3 _]]]]; [assumption|]. exfalso.
      assert (R2 : 0 <= e2 < ne) by (apply Rg; lia).
      assert (NE : e2 <> e) by (intro; subst; lia).
      assert (L2 : elz e2 <= x) by (apply oI; lia).
      destruct (pos_in_O e2 R2) as [b [Rb Eb]].
      assert (k <= b).
      { destruct (Z_le_dec k b); [assumption|]. exfalso.
        assert (Q : cO k (zat OO b) >= 1) by (eapply cO_prev; [exact HI|lia|fold ne; lia]). rewrite Eb in Q. lia. }
      specialize (K2 b ltac:(lia)). rewrite Eb in K2.
      destruct (disj e2 e R2 Re NE B3); lia. }
    rewrite aget_zat by (rewrite Lp; exact RC). cbn [bind]. rewrite ZP.
    rewrite err_if_false by reflexivity. rewrite aget_zat by rng. cbn [bind]. fold (ep e).
    destruct (aset_cases par (ec e) (ep e)) as [[p' [A [RA [LA NA]]]]|[A NR]]; [|exfalso; apply NR; rewrite Lp; exact RC].
    rewrite A. cbn [bind].
    apply IH.
    - lia.
    - eapply in_step_inv; eauto using HI.
    - eapply in_step_minv; eauto.
    - intros a Ra. destruct (Z.eq_dec a j); [subst a; rewrite ZI; lia|apply J1; lia].
    - intros a Ra. apply J2. lia.
    - assumption.
    - assumption.
  Qed.

  (* ---- mutations of one site ---- *)
  Lemma mut_loop_complete j k x tr par used s fuel : forall mc,
    (Z.to_nat (M - mc) < fuel)%nat -> inv j k x par used -> 0 <= s < NS -> x <= posz s < tr ->
    0 <= mc <= M -> (forall a, k <= a < ne -> tr <= erz (zat OO a)) ->
    exists mc', mut_loop t fuel par s mc = Ok mc' /\ mc <= mc' <= M.
  Proof.
    induction fuel as [|fuel IH]; intros mc Hf INV Rs Xs Rmc K2; [lia|].
    cbn [mut_loop]. fold M. destruct (mc <? M) eqn:Cm.
    2:{ b2z. eexists. split; [reflexivity|lia]. }
    b2z. pose proof (wf_mut_node t W); pose proof (wf_mut_time t W).
    rewrite aget_zat by rng. cbn [bind]. fold (ms mc).
    destruct (ms mc =? s) eqn:Cs.
    2:{ eexists. split; [reflexivity|lia]. }
    b2z. rewrite aget_fat by rng. cbn [bind]. fold (unk mc).
    assert (CHK : (if negb (unk mc) then
                     do nd <- aget (mut_node t) mc; do p <- aget par nd;
                     if negb (p =? TSK_NULL) then
                       do pt <- aget (node_time t) p;
                       check! fle pt (fat (mut_time t) mc) else E_MUTATION_TIME_OLDER_THAN_PARENT_NODE; Ok tt
                     else Ok tt
                   else Ok tt) = Ok tt).
    { destruct (unk mc) eqn:U; [reflexivity|]. simpl.
      destruct (HMR mc ltac:(unfold M in *; lia)) as [RS [RN _]]. fold (mn mc) in RN.
      rewrite aget_zat by rng. cbn [bind]. fold (mn mc).
      destruct INV as [Ij Ik Ix Lp Lu Cn Us Pa A1 Dj Rg oI oO sI sO].
      rewrite aget_zat by (rewrite Lp; exact RN). cbn [bind].
      destruct (Pa (mn mc) RN) as [[P1 _]|[e2 [[B1 B2] [B3 B4]]]]; [rewrite P1; reflexivity|].
      assert (R2 : 0 <= e2 < ne) by (apply Rg; lia).
      destruct (efin e2 R2) as [El [Er [Rlr [RL [RP RC]]]]].
      rewrite B4. fold (ep e2). replace (ep e2 =? TSK_NULL) with false by (symmetry; apply Z.eqb_neq; unfold TSK_NULL; lia).
      cbn [negb]. rewrite aget_fat by (unfold N, num_nodes in RP; exact RP). cbn [bind].
      rewrite err_if_false; [reflexivity|].
      assert (L2 : elz e2 <= x) by (apply oI; lia).
      destruct (pos_in_O e2 R2) as [b [Rb Eb]].
      assert (k <= b).
      { destruct (Z_le_dec k b); [assumption|]. exfalso.
        assert (Q : cO k (zat OO b) >= 1) by (eapply cO_prev; [exact HI|lia|fold ne; lia]). rewrite Eb in Q. lia. }
      specialize (K2 b ltac:(lia)). rewrite Eb in K2.
      destruct (site_fin t Lz HL HS (ms mc) RS) as [PF _].
      assert (BEL := HB mc ltac:(unfold M in *; lia) U e2 R2 B3). cbv beta in BEL. fold (ms mc) in BEL.
      rewrite El, Er, PF, fle_fin, flt_fin in BEL. rewrite Cs in *.
      specialize (BEL ltac:(apply Z.leb_le; lia) ltac:(apply Z.ltb_lt; lia)).
      rewrite (mut_fin t HMR mc ltac:(unfold M in *; lia) U) in *.
      fold (ep e2) in BEL. rewrite (node_fin t HN _ RP) in *. rewrite flt_fin in BEL. rewrite fle_fin. b2z. apply Z.leb_gt. lia. }
    rewrite CHK. cbn [bind].
    destruct (IH (mc + 1)) as [mc' [E R]]; try assumption; try lia.
    exists mc'. split; [assumption|lia].
  Qed.

  (* ---- sites of one tree ---- *)
  Lemma site_loop_complete j k x tr par used fuel : forall sc mc,
    (Z.to_nat (NS - sc) < fuel)%nat -> inv j k x par used -> x < tr ->
    0 <= sc <= NS -> 0 <= mc <= M -> (sc < NS -> x <= posz sc) ->
    (forall a, k <= a < ne -> tr <= erz (zat OO a)) ->
    exists sc' mc', site_loop t fuel par (Fin tr) sc mc = Ok (sc', mc').
  Proof.
    induction fuel as [|fuel IH]; intros sc mc Hf INV XT Rsc Rmc NX K2; [lia|].
    cbn [site_loop]. fold NS. destruct (sc <? NS) eqn:Cs.
    2:{ eexists _, _. reflexivity. }
    b2z. rewrite aget_fat by rng. cbn [bind].
    destruct (site_fin t Lz HL HS sc ltac:(lia)) as [PF PR]. rewrite PF, flt_fin.
    destruct (posz sc <? tr) eqn:Cp.
    2:{ eexists _, _. reflexivity. }
    b2z. fold M.
    destruct (mut_loop_complete j k x tr par used sc (S (Z.to_nat (M - mc))) mc) as [mc' [E R]];
      try assumption; try lia.
    rewrite E. cbn [bind]. apply IH; try assumption; try lia.
    intro Lt. pose proof (site_sorted t Lz HL HS sc (sc + 1) ltac:(lia) ltac:(fold NS; lia)). specialize (NX ltac:(lia)). lia.
  Qed.
End SweepComplete.
