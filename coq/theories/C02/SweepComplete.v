(* C02/SweepComplete.v — completeness of tsk_table_collection_check_tree_integrity: on valid
   tables with a consistent index the sweep raises no error and does not run out of fuel. *)
From Coq Require Import List ZArith Bool Lia Permutation.
From TskVerif Require Import Base.Common C02.Fl C02.Model C02.Arr C02.Tac C02.Spec C02.TableSound
  C02.ListX C02.SweepSound C02.Complete.
Import ListNotations.
Open Scope Z_scope.

Lemma cnt_pre_le l m e : cnt (pre l m) e <= cnt l e.
Proof.
  unfold cnt, pre. rewrite <- (firstn_skipn (Z.to_nat m) l) at 2. rewrite count_occ_app. lia.
Qed.

Lemma cnt_le1_of_NoDup l e : NoDup l -> cnt l e <= 1.
Proof. intro ND. unfold cnt. pose proof (proj1 (NoDup_count_occ Z.eq_dec l) ND e). lia. Qed.

Lemma cnt_pre_fresh l k e : NoDup l -> aget l k = Ok e -> cnt (pre l k) e = 0.
Proof.
  intros ND G. pose proof (cnt_pre_le l (k + 1) e). pose proof (cnt_le1_of_NoDup l e ND).
  rewrite (pre_snoc _ _ _ G), cnt_snoc in H. destruct (Z.eq_dec e e); [|congruence].
  pose proof (cnt_nonneg (pre l k) e). lia.
Qed.

Lemma In_zat l e : In e l -> exists b, 0 <= b < zlen l /\ zat l b = e.
Proof.
  intro H. apply In_nth with (d := 0) in H as [n [Ln En]].
  exists (Z.of_nat n). split; [unfold zlen; lia|]. unfold zat. rewrite Nat2Z.id. assumption.
Qed.

(* ---- the number of trees by definition: the distinct breakpoints below L ---- *)
Definition bps (t : tables) : list Z :=
  0 :: map (elz t) (zrange (num_edges t)) ++ map (erz t) (zrange (num_edges t)).
Definition cntlt (t : tables) (x : Z) : Z :=
  Z.of_nat (length (nodup Z.eq_dec (filter (fun b => b <? x) (bps t)))).
(* num_trees_spec t L: number of distinct values among 0 and the edge end points that are < L *)
Definition num_trees_spec (t : tables) (Lz : Z) : Z := cntlt t Lz.

Lemma cntlt_step t x x' :
  In x (bps t) -> x < x' -> (forall b, In b (bps t) -> b <= x \/ x' <= b) ->
  cntlt t x' = cntlt t x + 1.
Proof.
  intros IN LT GAP. unfold cntlt.
  assert (P : Permutation (nodup Z.eq_dec (filter (fun b => b <? x') (bps t)))
                          (x :: nodup Z.eq_dec (filter (fun b => b <? x) (bps t)))).
  { apply NoDup_Permutation.
    - apply NoDup_nodup.
    - constructor; [|apply NoDup_nodup]. rewrite nodup_In, filter_In. intros [_ H]. apply Z.ltb_lt in H. lia.
    - intro b. rewrite nodup_In, filter_In. cbn [In]. rewrite nodup_In, filter_In. rewrite !Z.ltb_lt. split.
      + intros [H1 H2]. destruct (GAP b H1); [|lia]. destruct (Z.eq_dec x b); [left; assumption|right; split; [assumption|lia]].
      + intros [H|[H1 H2]]; [subst; split; assumption|split; [assumption|lia]]. }
  rewrite (Permutation_length P). simpl. lia.
Qed.

Lemma filter_none {A} (f : A -> bool) l : (forall b, In b l -> f b = false) -> filter f l = [].
Proof.
  induction l as [|a r IH]; intro H; simpl; [reflexivity|].
  rewrite (H a (or_introl eq_refl)). apply IH. intros b Hb. apply H. right; assumption.
Qed.

Lemma cntlt_0 t : (forall b, In b (bps t) -> 0 <= b) -> cntlt t 0 = 0.
Proof.
  intro H. unfold cntlt. rewrite filter_none; [reflexivity|].
  intros b Hb. apply Z.ltb_ge. apply H. assumption.
Qed.

Section SweepComplete.
  Variable v : variant.
  Variable t : tables.
  Variables II OO : list Z.
  Variable Lz : Z.
  Hypothesis W : WF t.
  Hypothesis HL : seqlen t = Fin Lz.
  Hypothesis HLpos : 0 < Lz.
  Hypothesis HN : NodesOK t.
  Hypothesis HE : EdgeRowsOK t.
  Hypothesis HS : SitesOK t.
  Hypothesis HMR : MutRowsOK t.
  Hypothesis HMO : MutOrderOK t.
  Hypothesis HD : ChildIntervalsDisjoint t.
  Hypothesis HB : MutBelowParentNodeOK t.
  Hypothesis HPI : InsertionOK t II.
  Hypothesis HPO : RemovalOK t OO.
  Hypothesis LI : length II = length (edge_left t).
  Hypothesis LO : length OO = length (edge_left t).
  Hypothesis HOV : 2 * num_edges t + 1 < TSK_MAX_ID.

  Let ne := num_edges t.
  Let N := num_nodes t.
  Let NS := num_sites t.
  Let M := num_mutations t.
  Let ep e := zat (edge_parent t) e.
  Let ec e := zat (edge_child t) e.
  Let ms m := zat (mut_site t) m.
  Let mn m := zat (mut_node t) m.
  Let unk m := is_unknown (fat (mut_time t) m).
  Notation elz := (elz t). Notation erz := (erz t). Notation posz := (posz t).
  Notation mtz := (mtz t). Notation ntz' := (ntz' t).
  Notation cI := (cI II). Notation cO := (cO OO).
  Notation inv := (inv t II OO Lz). Notation minv := (minv t II).

  Lemma ne0 : 0 <= ne. Proof. unfold ne, num_edges, zlen. lia. Qed.
  Lemma zlII : zlen II = ne. Proof. unfold zlen, ne, num_edges. rewrite LI. reflexivity. Qed.
  Lemma zlOO : zlen OO = ne. Proof. unfold zlen, ne, num_edges. rewrite LO. reflexivity. Qed.

  Lemma HI : forall a, 0 <= a < num_edges t ->
      (exists e, aget II a = Ok e /\ 0 <= e < num_edges t) /\
      (exists e, aget OO a = Ok e /\ 0 <= e < num_edges t).
  Proof.
    intros a Ra. destruct HPI as [PI _]. destruct HPO as [PO _]. split.
    - exists (zat II a). split; [apply aget_zat; rewrite zlII; exact Ra|].
      apply (perm_zrange_In _ _ _ PI). unfold zat. apply nth_In. pose proof zlII. unfold zlen in *. fold ne in Ra. lia.
    - exists (zat OO a). split; [apply aget_zat; rewrite zlOO; exact Ra|].
      apply (perm_zrange_In _ _ _ PO). unfold zat. apply nth_In. pose proof zlOO. unfold zlen in *. fold ne in Ra. lia.
  Qed.

  Lemma NDI : NoDup II.
  Proof. destruct HPI as [PI _]. eapply Permutation_NoDup; [apply Permutation_sym; exact PI|apply zrange_NoDup]. Qed.
  Lemma NDO : NoDup OO.
  Proof. destruct HPO as [PO _]. eapply Permutation_NoDup; [apply Permutation_sym; exact PO|apply zrange_NoDup]. Qed.

  Lemma zI_range a : 0 <= a < ne -> 0 <= zat II a < ne.
  Proof. intro Ra. destruct (HI a Ra) as [[e [G R]] _]. rewrite (zat_aget _ _ _ G). exact R. Qed.
  Lemma zO_range a : 0 <= a < ne -> 0 <= zat OO a < ne.
  Proof. intro Ra. destruct (HI a Ra) as [_ [e [G R]]]. rewrite (zat_aget _ _ _ G). exact R. Qed.

  Lemma efin e : 0 <= e < ne ->
    fat (edge_left t) e = Fin (elz e) /\ fat (edge_right t) e = Fin (erz e) /\
    0 <= elz e < erz e /\ erz e <= Lz /\ 0 <= ep e < N /\ 0 <= ec e < N.
  Proof. apply (edge_fin t Lz HL HE). Qed.

  (* the index orders, for all pairs *)
  Lemma I_sorted a b : 0 <= a <= b -> b < ne -> elz (zat II a) <= elz (zat II b).
  Proof.
    intros Rab Rb. destruct HPI as [_ SI].
    assert (K : forall k : nat, a + Z.of_nat k < ne -> elz (zat II a) <= elz (zat II (a + Z.of_nat k))).
    { induction k as [|k IH]; intro Hk.
      - replace (a + Z.of_nat 0) with a by lia. lia.
      - assert (IH' := IH ltac:(lia)). assert (O1 := SI (a + Z.of_nat (S k)) ltac:(fold ne; lia)).
        replace (a + Z.of_nat (S k) - 1) with (a + Z.of_nat k) in O1 by lia.
        destruct (efin _ (zI_range (a + Z.of_nat k) ltac:(lia))) as [E1 _].
        destruct (efin _ (zI_range (a + Z.of_nat (S k)) ltac:(lia))) as [E2 _].
        rewrite E1, E2, fle_fin in O1. b2z. lia. }
    specialize (K (Z.to_nat (b - a))). replace (a + Z.of_nat (Z.to_nat (b - a))) with b in K by lia.
    apply K. lia.
  Qed.

  Lemma O_sorted a b : 0 <= a <= b -> b < ne -> erz (zat OO a) <= erz (zat OO b).
  Proof.
    intros Rab Rb. destruct HPO as [_ SO].
    assert (K : forall k : nat, a + Z.of_nat k < ne -> erz (zat OO a) <= erz (zat OO (a + Z.of_nat k))).
    { induction k as [|k IH]; intro Hk.
      - replace (a + Z.of_nat 0) with a by lia. lia.
      - assert (IH' := IH ltac:(lia)). assert (O1 := SO (a + Z.of_nat (S k)) ltac:(fold ne; lia)).
        replace (a + Z.of_nat (S k) - 1) with (a + Z.of_nat k) in O1 by lia.
        destruct (efin _ (zO_range (a + Z.of_nat k) ltac:(lia))) as [_ [E1 _]].
        destruct (efin _ (zO_range (a + Z.of_nat (S k)) ltac:(lia))) as [_ [E2 _]].
        rewrite E1, E2, fle_fin in O1. b2z. lia. }
    specialize (K (Z.to_nat (b - a))). replace (a + Z.of_nat (Z.to_nat (b - a))) with b in K by lia.
    apply K. lia.
  Qed.

  Lemma pos_in_I e : 0 <= e < ne -> exists b, 0 <= b < ne /\ zat II b = e.
  Proof.
    intro Re. destruct HPI as [PI _]. apply (perm_zrange_In _ _ _ PI) in Re.
    apply In_zat in Re. rewrite zlII in Re. exact Re.
  Qed.
  Lemma pos_in_O e : 0 <= e < ne -> exists b, 0 <= b < ne /\ zat OO b = e.
  Proof.
    intro Re. destruct HPO as [PO _]. apply (perm_zrange_In _ _ _ PO) in Re.
    apply In_zat in Re. rewrite zlOO in Re. exact Re.
  Qed.

  Lemma disj a b : 0 <= a < ne -> 0 <= b < ne -> a <> b -> ec a = ec b ->
    erz a <= elz b \/ erz b <= elz a.
  Proof.
    intros Ra Rb NE EQ. destruct (efin a Ra) as [La [Ra' _]]. destruct (efin b Rb) as [Lb [Rb' _]].
    destruct (HD a b Ra Rb NE EQ) as [Q|Q]; rewrite ?La, ?Ra', ?Lb, ?Rb', fle_fin in Q; b2z; lia.
  Qed.

  (* ---- out_loop ---- *)
  Lemma out_loop_complete j x fuel : forall k par used,
    (Z.to_nat (ne - k) < fuel)%nat -> inv j k x par used ->
    (forall a, 0 <= a < j -> elz (zat II a) < x) -> (forall a, j <= a < ne -> x <= elz (zat II a)) ->
    (forall a, 0 <= a < k -> erz (zat OO a) <= x) -> (forall a, k <= a < ne -> x <= erz (zat OO a)) ->
    exists k' par' used', out_loop t OO fuel (Fin x) k par used = Ok (k', par', used') /\
      (forall a, 0 <= a < k' -> erz (zat OO a) <= x) /\ (forall a, k' <= a < ne -> x < erz (zat OO a)).
  Proof.
    induction fuel as [|fuel IH]; intros k par used Hf INV J1 J2 K1 K2; [lia|].
    cbn [out_loop]. fold ne. destruct (k <? ne) eqn:Ck.
    2:{ b2z. eexists _, _, _. split; [reflexivity|]. split; [assumption|]. intros; lia. }
    b2z. assert (Rk : 0 <= k < ne) by (destruct INV; lia).
    destruct (HI k Rk) as [_ [e [Ge Re]]]. assert (ZO := zat_aget _ _ _ Ge).
    destruct (efin e Re) as [El [Er [Rlr [RL [RP RC]]]]].
    pose proof (wf_edge_right t W); pose proof (wf_edge_child t W).
    rewrite Ge. cbn [bind]. rewrite aget_fat by rng. cbn [bind]. rewrite Er. simpl (feq _ _).
    destruct (erz e =? x) eqn:Cx.
    2:{ b2z. eexists _, _, _. split; [reflexivity|]. split; [assumption|]. intros a Ra.
        pose proof (K2 k ltac:(lia)). pose proof (O_sorted k a ltac:(lia) ltac:(lia)). rewrite ZO in *. lia. }
    b2z. pose proof INV as INV0. destruct INV as [Ij Ik Ix Lp Lu Cn Us Pa A1 Dj Rg oI oO sI sO].
    assert (C0 : cO k e = 0) by (apply cnt_pre_fresh; [apply NDO|assumption]).
    assert (C1 : cI j e = 1).
    { destruct (pos_in_I e Re) as [b [Rb Eb]].
      assert (b < j). { destruct (Z_lt_dec b j); [assumption|]. specialize (J2 b ltac:(lia)). rewrite Eb in J2. lia. }
      assert (Q : cI j (zat II b) >= 1) by (eapply cI_prev; [exact HI|lia|fold ne; lia]).
      rewrite Eb in Q. specialize (Cn e). lia. }
    assert (ZU : zat used e = 1) by (rewrite (Us e Re); lia).
    rewrite aget_zat by (rewrite Lu; exact Re). cbn [bind]. rewrite ZU.
    rewrite err_if_false by reflexivity. rewrite aget_zat by rng. cbn [bind]. fold (ec e).
    destruct (aset_cases par (ec e) TSK_NULL) as [[p' [A [RA [LA NA]]]]|[A NR]]; [|exfalso; apply NR; rewrite Lp; exact RC].
    rewrite A. cbn [bind].
    destruct (aset_cases used e (1 + 1)) as [[u' [A' [RA' [LA' NA']]]]|[A' NR]]; [|exfalso; apply NR; rewrite Lu; exact Re].
    rewrite A'. cbn [bind].
    apply IH.
    - lia.
    - eapply out_step_inv; eauto using HI.
    - assumption.
    - assumption.
    - intros a Ra. destruct (Z.eq_dec a k); [subst a; rewrite ZO; lia|apply K1; lia].
    - intros a Ra. apply K2. lia.
  Qed.

  (* ---- in_loop ---- *)
  Lemma in_loop_complete k x sc mc fuel : forall j par used,
    (Z.to_nat (ne - j) < fuel)%nat -> inv j k x par used -> minv j x x sc mc ->
    (forall a, 0 <= a < j -> elz (zat II a) <= x) -> (forall a, j <= a < ne -> x <= elz (zat II a)) ->
    (forall a, 0 <= a < k -> erz (zat OO a) <= x) -> (forall a, k <= a < ne -> x < erz (zat OO a)) ->
    exists j' par' used', in_loop t II fuel (Fin x) j par used = Ok (j', par', used') /\
      (forall a, 0 <= a < j' -> elz (zat II a) <= x) /\ (forall a, j' <= a < ne -> x < elz (zat II a)).
  Proof.
    induction fuel as [|fuel IH]; intros j par used Hf INV MINV J1 J2 K1 K2; [lia|].
    cbn [in_loop]. fold ne. destruct (j <? ne) eqn:Cj.
    2:{ b2z. eexists _, _, _. split; [reflexivity|]. split; [assumption|]. intros; lia. }
    b2z. assert (Rj : 0 <= j < ne) by (destruct INV; lia).
    destruct (HI j Rj) as [[e [Ge Re]] _]. assert (ZI := zat_aget _ _ _ Ge).
    destruct (efin e Re) as [El [Er [Rlr [RL [RP RC]]]]].
    pose proof (wf_edge_right t W); pose proof (wf_edge_child t W); pose proof (wf_edge_parent t W).
    rewrite Ge. cbn [bind]. rewrite aget_fat by rng. cbn [bind]. rewrite El. simpl (feq _ _).
    destruct (elz e =? x) eqn:Cx.
    2:{ b2z. eexists _, _, _. split; [reflexivity|]. split; [assumption|]. intros a Ra.
        pose proof (J2 j ltac:(lia)). pose proof (I_sorted j a ltac:(lia) ltac:(lia)). rewrite ZI in *. lia. }
    b2z. pose proof INV as INV0. destruct INV as [Ij Ik Ix Lp Lu Cn Us Pa A1 Dj Rg oI oO sI sO].
    assert (C0 : cI j e = 0) by (apply cnt_pre_fresh; [apply NDI|assumption]).
    assert (C1 : cO k e = 0) by (specialize (Cn e); pose proof (cO_nonneg OO k e); lia).
    assert (ZU : zat used e = 0) by (rewrite (Us e Re); lia).
    rewrite aget_zat by (rewrite Lu; exact Re). cbn [bind]. rewrite ZU.
    rewrite err_if_false by reflexivity.
    destruct (aset_cases used e (0 + 1)) as [[u' [A' [RA' [LA' NA']]]]|[A' NR]]; [|exfalso; apply NR; rewrite Lu; exact Re].
    rewrite A'. cbn [bind]. rewrite aget_zat by rng. cbn [bind]. fold (ec e).
    assert (ZP : zat par (ec e) = -1).
    { destruct (Pa (ec e) RC) as [[P1 _]|[e2 [[B1 B2] [B3 _]]]]; [assumption|]. exfalso.
      assert (R2 : 0 <= e2 < ne) by (apply Rg; lia).
      assert (NE : e2 <> e) by (intro; subst; lia).
      assert (L2 : elz e2 <= x) by (apply oI; lia).
      destruct (pos_in_O e2 R2) as [b [Rb Eb]].
      assert (k <= b).
      { destruct (Z_le_dec k b); [assumption|]. exfalso.
        assert (Q : cO k (zat OO b) >= 1) by (eapply cO_prev; [exact HI|lia|fold ne; lia]). rewrite Eb in Q. lia. }
      specialize (K2 b ltac:(lia)). rewrite Eb in K2.
      destruct (disj e2 e R2 Re NE B3); lia. }
    rewrite aget_zat by (rewrite Lp; exact RC). cbn [bind]. rewrite ZP.
    rewrite err_if_false by reflexivity. rewrite aget_zat by rng. cbn [bind]. fold (ep e).
    destruct (aset_cases par (ec e) (ep e)) as [[p' [A [RA [LA NA]]]]|[A NR]]; [|exfalso; apply NR; rewrite Lp; exact RC].
    rewrite A. cbn [bind].
    apply IH.
    - lia.
    - eapply in_step_inv; eauto using HI.
    - eapply in_step_minv; eauto.
    - intros a Ra. destruct (Z.eq_dec a j); [subst a; rewrite ZI; lia|apply J1; lia].
    - intros a Ra. apply J2. lia.
    - assumption.
    - assumption.
  Qed.

  (* ---- mutations of one site ---- *)
  Lemma mut_loop_complete j k x tr par used s fuel : forall mc,
    (Z.to_nat (M - mc) < fuel)%nat -> inv j k x par used -> 0 <= s < NS -> x <= posz s < tr ->
    0 <= mc <= M -> (forall a, k <= a < ne -> tr <= erz (zat OO a)) ->
    exists mc', mut_loop t fuel par s mc = Ok mc' /\ mc <= mc' <= M.
  Proof.
    induction fuel as [|fuel IH]; intros mc Hf INV Rs Xs Rmc K2; [lia|].
    cbn [mut_loop]. fold M. destruct (mc <? M) eqn:Cm.
    2:{ b2z. eexists. split; [reflexivity|lia]. }
    b2z. pose proof (wf_mut_node t W); pose proof (wf_mut_time t W).
    rewrite aget_zat by rng. cbn [bind]. fold (ms mc).
    destruct (ms mc =? s) eqn:Cs.
    2:{ eexists. split; [reflexivity|lia]. }
    b2z. rewrite aget_fat by rng. cbn [bind]. fold (unk mc).
    assert (CHK : (if negb (unk mc) then
                     do nd <- aget (mut_node t) mc; do p <- aget par nd;
                     if negb (p =? TSK_NULL) then
                       do pt <- aget (node_time t) p;
                       check! fle pt (fat (mut_time t) mc) else E_MUTATION_TIME_OLDER_THAN_PARENT_NODE; Ok tt
                     else Ok tt
                   else Ok tt) = Ok tt).
    { destruct (unk mc) eqn:U; [reflexivity|]. simpl.
      destruct (HMR mc ltac:(unfold M in *; lia)) as [RS [RN _]]. fold (mn mc) in RN.
      rewrite aget_zat by rng. cbn [bind]. fold (mn mc).
      destruct INV as [Ij Ik Ix Lp Lu Cn Us Pa A1 Dj Rg oI oO sI sO].
      rewrite aget_zat by (rewrite Lp; exact RN). cbn [bind].
      destruct (Pa (mn mc) RN) as [[P1 _]|[e2 [[B1 B2] [B3 B4]]]]; [rewrite P1; reflexivity|].
      assert (R2 : 0 <= e2 < ne) by (apply Rg; lia).
      destruct (efin e2 R2) as [El [Er [Rlr [RL [RP RC]]]]].
      rewrite B4. fold (ep e2). replace (ep e2 =? TSK_NULL) with false by (symmetry; apply Z.eqb_neq; unfold TSK_NULL; lia).
      cbn [negb]. rewrite aget_fat by (unfold N, num_nodes in RP; exact RP). cbn [bind].
      rewrite err_if_false; [reflexivity|].
      assert (L2 : elz e2 <= x) by (apply oI; lia).
      destruct (pos_in_O e2 R2) as [b [Rb Eb]].
      assert (k <= b).
      { destruct (Z_le_dec k b); [assumption|]. exfalso.
        assert (Q : cO k (zat OO b) >= 1) by (eapply cO_prev; [exact HI|lia|fold ne; lia]). rewrite Eb in Q. lia. }
      specialize (K2 b ltac:(lia)). rewrite Eb in K2.
      destruct (site_fin t Lz HL HS (ms mc) RS) as [PF _].
      assert (BEL := HB mc ltac:(unfold M in *; lia) U e2 R2 B3). cbv beta in BEL. fold (ms mc) in BEL.
      rewrite El, Er, PF, fle_fin, flt_fin in BEL. rewrite Cs in *.
      specialize (BEL ltac:(apply Z.leb_le; lia) ltac:(apply Z.ltb_lt; lia)).
      rewrite (mut_fin t HMR mc ltac:(unfold M in *; lia) U) in *.
      fold (ep e2) in BEL. rewrite (node_fin t HN _ RP) in *. rewrite flt_fin in BEL. rewrite fle_fin. b2z. apply Z.leb_gt. lia. }
    rewrite CHK. cbn [bind].
    destruct (IH (mc + 1)) as [mc' [E R]]; try assumption; try lia.
    exists mc'. split; [assumption|lia].
  Qed.

  (* ---- sites of one tree ---- *)
  Lemma site_loop_complete j k x tr par used fuel : forall sc mc,
    (Z.to_nat (NS - sc) < fuel)%nat -> inv j k x par used -> x < tr ->
    0 <= sc <= NS -> 0 <= mc <= M -> (sc < NS -> x <= posz sc) ->
    (forall a, k <= a < ne -> tr <= erz (zat OO a)) ->
    exists sc' mc', site_loop t fuel par (Fin tr) sc mc = Ok (sc', mc').
  Proof.
    induction fuel as [|fuel IH]; intros sc mc Hf INV XT Rsc Rmc NX K2; [lia|].
    cbn [site_loop]. fold NS. destruct (sc <? NS) eqn:Cs.
    2:{ eexists _, _. reflexivity. }
    b2z. rewrite aget_fat by rng. cbn [bind].
    destruct (site_fin t Lz HL HS sc ltac:(lia)) as [PF PR]. rewrite PF, flt_fin.
    destruct (posz sc <? tr) eqn:Cp.
    2:{ eexists _, _. reflexivity. }
    b2z. fold M.
    destruct (mut_loop_complete j k x tr par used sc (S (Z.to_nat (M - mc))) mc) as [mc' [E R]];
      try assumption; try lia.
    rewrite E. cbn [bind]. apply IH; try assumption; try lia.
    intro Lt. pose proof (site_sorted t Lz HL HS sc (sc + 1) ltac:(lia) ltac:(fold NS; lia)). specialize (NX ltac:(lia)). lia.
  Qed.

  (* ---- one iteration of the main loop ---- *)
  Definition ord (j k x : Z) : Prop :=
    (forall a, 0 <= a < j -> elz (zat II a) < x) /\ (forall a, j <= a < ne -> x <= elz (zat II a)) /\
    (forall a, 0 <= a < k -> erz (zat OO a) < x) /\ (forall a, k <= a < ne -> x <= erz (zat OO a)).

  Definition hit (j k x : Z) : Prop :=
    (j < ne /\ elz (zat II j) = x) \/ (k < ne /\ erz (zat OO k) = x).

  Definition cinv (s : sweep_state) (x : Z) : Prop :=
    sw_left s = Fin x /\
    SweepSound.inv t II OO Lz (sw_j s) (sw_k s) x (sw_parent s) (sw_used s) /\
    SweepSound.minv t II (sw_j s) x x (sw_site s) (sw_mut s) /\
    ord (sw_j s) (sw_k s) x /\
    (x = 0 \/ hit (sw_j s) (sw_k s) x \/ (x = Lz /\ sw_j s = ne)) /\
    0 <= sw_trees s /\
    sw_trees s + (ne - sw_j s) + (ne - sw_k s) + (if x =? 0 then 1 else 0) <= 2 * ne + 1 /\
    sw_trees s = cntlt t x.

  Lemma sweep_step_complete s x : cinv s x -> (sw_j s <? ne) || flt (sw_left s) (seqlen t) = true ->
    exists s' x', sweep_step t II OO s = Ok s' /\ cinv s' x' /\ x < x' /\
      (ne - sw_j s') + (ne - sw_k s') + (if x =? 0 then 0 else 1) <= (ne - sw_j s) + (ne - sw_k s).
  Proof.
    intros [EX [INV [MINV [[J1 [J2 [K1 K2]]] [HIT [T0 [TB TC]]]]]]] COND.
    assert (XL : x < Lz).
    { rewrite EX, HL, flt_fin in COND. apply orb_true_iff in COND as [C|C]; b2z; [|assumption].
      destruct INV. specialize (J2 (sw_j s) ltac:(lia)).
      destruct (efin _ (zI_range (sw_j s) ltac:(lia))) as [_ [_ [A [B _]]]]. lia. }
    assert (TBD : sw_trees s <> TSK_MAX_ID).
    { destruct INV. unfold ne, TSK_MAX_ID in *. destruct (x =? 0); lia. }
    assert (SI : sinv t II OO Lz s) by (exists x; auto).
    unfold sweep_step. fold ne. rewrite EX.
    destruct (out_loop_complete (sw_j s) x (S (Z.to_nat (ne - sw_k s))) (sw_k s) (sw_parent s) (sw_used s))
      as [k1 [par1 [used1 [EO [K1' K2']]]]]; try assumption; try lia.
    { intros a Ra. specialize (K1 a Ra). lia. }
    assert (IO := out_loop_inv t II OO Lz HL HE HI _ _ _ _ _ _ _ _ _ INV EO). destruct IO as [INV1 [KK _]].
    rewrite EO. cbn [bind].
    destruct (in_loop_complete k1 x (sw_site s) (sw_mut s) (S (Z.to_nat (ne - sw_j s))) (sw_j s) par1 used1)
      as [j1 [par2 [used2 [EI [J1' J2']]]]]; try assumption; try lia.
    { intros a Ra. specialize (J1 a Ra). lia. }
    assert (II' := in_loop_inv t II OO Lz HL HE HMR HI _ _ _ _ _ _ _ _ _ _ _ INV1 MINV EI).
    destruct II' as [INV2 [MINV2 [JJ _]]].
    rewrite EI. cbn [bind]. rewrite HL.
    assert (Rj1 : 0 <= j1 <= ne) by (destruct INV2; lia). assert (Rk1 : 0 <= k1 <= ne) by (destruct INV2; lia).
    pose proof (wf_edge_right t W).
    (* tree_right *)
    set (a := if j1 <? ne then Z.min Lz (elz (zat II j1)) else Lz).
    assert (EA : (if j1 <? ne then do e <- aget II j1; do l <- aget (edge_left t) e; Ok (fmin (Fin Lz) l)
                  else Ok (Fin Lz)) = Ok (Fin a)).
    { unfold a. destruct (j1 <? ne) eqn:C; [|reflexivity]. b2z.
      rewrite aget_zat by (rewrite zlII; lia). cbn [bind].
      destruct (efin _ (zI_range j1 ltac:(lia))) as [E1 _].
      rewrite aget_fat by (pose proof (zI_range j1 ltac:(lia)); rng). cbn [bind]. rewrite E1, fmin_fin. reflexivity. }
    rewrite EA. cbn [bind].
    set (b := if k1 <? ne then Z.min a (erz (zat OO k1)) else a).
    assert (EB : (if k1 <? ne then do e <- aget OO k1; do r <- aget (edge_right t) e; Ok (fmin (Fin a) r)
                  else Ok (Fin a)) = Ok (Fin b)).
    { unfold b. destruct (k1 <? ne) eqn:C; [|reflexivity]. b2z.
      rewrite aget_zat by (rewrite zlOO; lia). cbn [bind].
      destruct (efin _ (zO_range k1 ltac:(lia))) as [_ [E1 _]].
      rewrite aget_fat by (pose proof (zO_range k1 ltac:(lia)); rng). cbn [bind]. rewrite E1, fmin_fin. reflexivity. }
    rewrite EB. cbn [bind].
    assert (XB : x < b /\ b <= Lz /\ (forall a0, j1 <= a0 < ne -> b <= elz (zat II a0)) /\
                 (forall a0, k1 <= a0 < ne -> b <= erz (zat OO a0)) /\
                 ((j1 < ne /\ elz (zat II j1) = b) \/ (k1 < ne /\ erz (zat OO k1) = b) \/ (b = Lz /\ j1 = ne))).
    { unfold b, a. destruct (j1 <? ne) eqn:C1, (k1 <? ne) eqn:C2; b2z.
      - pose proof (J2' j1 ltac:(lia)). pose proof (K2' k1 ltac:(lia)).
        split; [lia|]. split; [lia|]. split; [|split].
        + intros a0 R0. pose proof (I_sorted j1 a0 ltac:(lia) ltac:(lia)). lia.
        + intros a0 R0. pose proof (O_sorted k1 a0 ltac:(lia) ltac:(lia)). lia.
        + destruct (efin _ (zI_range j1 ltac:(lia))) as [_ [_ [Q1 [Q2 _]]]]. lia.
      - pose proof (J2' j1 ltac:(lia)).
        split; [lia|]. split; [lia|]. split; [|split].
        + intros a0 R0. pose proof (I_sorted j1 a0 ltac:(lia) ltac:(lia)). lia.
        + intros a0 R0. lia.
        + destruct (efin _ (zI_range j1 ltac:(lia))) as [_ [_ [Q1 [Q2 _]]]]. lia.
      - pose proof (K2' k1 ltac:(lia)).
        split; [lia|]. split; [lia|]. split; [|split].
        + intros a0 R0. lia.
        + intros a0 R0. pose proof (O_sorted k1 a0 ltac:(lia) ltac:(lia)). lia.
        + destruct (Z.min_spec Lz (erz (zat OO k1))) as [[_ Q]|[_ Q]]; rewrite Q; [right; right|right; left]; lia.
      - split; [lia|]. split; [lia|]. split; [intros; lia|]. split; [intros; lia|]. right; right. lia. }
    destruct XB as [XB [BL [JB [KB HB']]]].
    destruct MINV2 as [Msc Mmc Mpos Mnext Mcons Mnextm MG].
    destruct (site_loop_complete j1 k1 x b par2 used2 (S (Z.to_nat (num_sites t - sw_site s))) (sw_site s) (sw_mut s))
      as [sc1 [mc1 ES]]; try assumption; try (fold NS; lia).
    rewrite ES. cbn [bind].
    rewrite err_if_false by (rewrite fle_fin; apply Z.leb_gt; lia).
    rewrite err_if_false by (apply Z.eqb_neq; exact TBD).
    eexists _, b. split; [reflexivity|].
    (* the new state *)
    assert (STEP : sweep_step t II OO s = Ok (mkSW j1 k1 (Fin b) par2 used2 sc1 mc1 (sw_trees s + 1))).
    { unfold sweep_step. fold ne. rewrite EX, EO. cbn [bind]. rewrite EI. cbn [bind]. rewrite HL, EA. cbn [bind].
      rewrite EB. cbn [bind]. rewrite ES. cbn [bind].
      rewrite err_if_false by (rewrite fle_fin; apply Z.leb_gt; lia).
      rewrite err_if_false by (apply Z.eqb_neq; exact TBD). reflexivity. }
    assert (SI' : sinv t II OO Lz (mkSW j1 k1 (Fin b) par2 used2 sc1 mc1 (sw_trees s + 1))) by (eapply sweep_step_inv; eauto using HI).
    destruct SI' as [x' [EX' [INV' MINV']]].
    cbn [sw_j sw_k sw_left sw_parent sw_used sw_site sw_mut sw_trees] in EX', INV', MINV'. inversion EX'; subst x'.
    split; [|split].
    - unfold cinv. cbn [sw_j sw_k sw_left sw_parent sw_used sw_site sw_mut sw_trees]. split; [reflexivity|]. split; [assumption|]. split; [assumption|]. split; [|split; [|split]].
      + split; [|split; [|split]].
        * intros a0 R0. specialize (J1' a0 R0). lia.
        * assumption.
        * intros a0 R0. specialize (K1' a0 R0). lia.
        * assumption.
      + right. unfold hit. tauto.
      + lia.
      + split.
        * replace (b =? 0) with false by (symmetry; apply Z.eqb_neq; destruct INV; lia).
          destruct (x =? 0) eqn:X0; [lia|]. b2z.
          assert (PROG : j1 + k1 > sw_j s + sw_k s).
          { destruct HIT as [HIT|[[[Q1 Q2]|[Q1 Q2]]|[Q1 Q2]]]; [lia| | |lia].
            - destruct (Z_lt_dec (sw_j s) j1); [lia|]. specialize (J2' (sw_j s) ltac:(lia)). lia.
            - destruct (Z_lt_dec (sw_k s) k1); [lia|]. specialize (K2' (sw_k s) ltac:(lia)). lia. }
          lia.
        * rewrite TC. symmetry. apply cntlt_step; [| lia |].
          -- unfold bps. fold ne. destruct HIT as [HIT|[[[Q1 Q2]|[Q1 Q2]]|[Q1 Q2]]]; [left; lia| | |lia].
             ++ right. apply in_or_app. left. rewrite <- Q2. apply in_map. apply zrange_In.
                apply zI_range. destruct INV; lia.
             ++ right. apply in_or_app. right. rewrite <- Q2. apply in_map. apply zrange_In.
                apply zO_range. destruct INV; lia.
          -- intros b0 Hb. unfold bps in Hb. fold ne in Hb. destruct Hb as [Hb|Hb]; [left; destruct INV; lia|].
             apply in_app_or in Hb. destruct Hb as [Hb|Hb]; apply in_map_iff in Hb; destruct Hb as [e [Ee Re]];
               apply zrange_In in Re; subst b0.
             ++ destruct (pos_in_I e Re) as [a0 [Ra0 Ea0]]. rewrite <- Ea0.
                destruct (Z_lt_dec a0 j1); [left; apply J1'; lia|right; apply JB; lia].
             ++ destruct (pos_in_O e Re) as [a0 [Ra0 Ea0]]. rewrite <- Ea0.
                destruct (Z_lt_dec a0 k1); [left; apply K1'; lia|right; apply KB; lia].
    - assumption.
    - cbn [sw_j sw_k sw_left sw_parent sw_used sw_site sw_mut sw_trees]. destruct (x =? 0) eqn:X0; [lia|]. b2z.
      destruct HIT as [HIT|[[[Q1 Q2]|[Q1 Q2]]|[Q1 Q2]]]; [lia| | |lia].
      + destruct (Z_lt_dec (sw_j s) j1); [lia|]. specialize (J2' (sw_j s) ltac:(lia)). lia.
      + destruct (Z_lt_dec (sw_k s) k1); [lia|]. specialize (K2' (sw_k s) ltac:(lia)). lia.
  Qed.

  (* ---- the main loop: the fuel 2*num_edges+2 is enough ---- *)
  Lemma sweep_complete fuel : forall s x, cinv s x ->
    (ne - sw_j s) + (ne - sw_k s) + (if x =? 0 then 1 else 0) <= Z.of_nat fuel ->
    exists s' x', sweep t II OO fuel s = Ok s' /\ cinv s' x' /\
      (sw_j s' <? ne) || flt (sw_left s') (seqlen t) = false.
  Proof.
    induction fuel as [|fuel IH]; intros s x CI HF.
    - cbn [sweep]. fold ne. destruct ((sw_j s <? ne) || flt (sw_left s) (seqlen t)) eqn:C.
      + exfalso. destruct CI as [EX [INV [_ [[_ [J2 _]] [HIT _]]]]].
        assert (Rj : 0 <= sw_j s <= ne) by (destruct INV; lia). assert (Rk : 0 <= sw_k s <= ne) by (destruct INV; lia).
        destruct (x =? 0) eqn:X0; [lia|]. b2z.
        destruct HIT as [HIT|[[[Q1 Q2]|[Q1 Q2]]|[Q1 Q2]]]; try lia.
        rewrite EX, HL, flt_fin in C. subst x. rewrite Q2 in C.
        replace (ne <? ne) with false in C by (symmetry; apply Z.ltb_irrefl).
        replace (Lz <? Lz) with false in C by (symmetry; apply Z.ltb_irrefl). discriminate.
      + exists s, x. auto.
    - cbn [sweep]. fold ne. destruct ((sw_j s <? ne) || flt (sw_left s) (seqlen t)) eqn:C.
      + destruct (sweep_step_complete s x CI C) as [s1 [x1 [E1 [C1 [LT DEC]]]]].
        rewrite E1. cbn [bind].
        apply (IH s1 x1 C1).
        replace (x1 =? 0) with false by (symmetry; apply Z.eqb_neq; destruct CI as [_ [INV _]]; destruct INV; lia).
        destruct (x =? 0); lia.
      + exists s, x. auto.
  Qed.

  (* ---- the trailing loop ---- *)
  Lemma tail_complete k used :
    tinv v t II OO k used -> (forall a, k <= a < ne -> erz (zat OO a) = Lz) ->
    exists used', tail_loop v t OO k used = Ok used'.
  Proof.
    intros T0 ALL. unfold tail_loop. fold ne.
    destruct (for_loop_complete
      (fun k used => do e <- aget OO k; do r <- aget (edge_right t) e;
                     check! fne r (seqlen t) else E_TABLES_BAD_INDEXES;
                     do u <- aget used e;
                     check! fix_f1 v && negb (u =? 1) else E_TABLES_BAD_INDEXES; aset used e (u + 1))
      (fun k' u' => k <= k' /\ tinv v t II OO k' u') (Z.to_nat (ne - k)) k used) as [u' [E _]].
    - split; [lia|assumption].
    - intros i u1 Ri [Rk TI]. pose proof TI as TI0. destruct TI as [Rk' [Lu [So Fx]]]. fold ne in Rk', Lu.
      assert (Ri' : 0 <= i < ne) by lia.
      destruct (HI i Ri') as [_ [e [Ge Re]]]. assert (ZO := zat_aget _ _ _ Ge).
      destruct (efin e Re) as [_ [Er [_ [RL _]]]]. pose proof (wf_edge_right t W).
      rewrite Ge. cbn [bind]. rewrite aget_fat by rng. cbn [bind]. rewrite Er, HL.
      assert (EL : erz e = Lz) by (rewrite <- ZO; apply ALL; lia).
      rewrite err_if_false by (unfold fne; simpl; rewrite EL, Z.eqb_refl; reflexivity).
      rewrite aget_zat by (rewrite Lu; exact Re). cbn [bind].
      assert (CK : fix_f1 v && negb (zat u1 e =? 1) = false).
      { destruct (fix_f1 v) eqn:F; [|reflexivity]. destruct (Fx eq_refl) as [Cn Us].
        assert (C0 : cO i e = 0) by (apply cnt_pre_fresh; [apply NDO|assumption]).
        assert (C1 : cI ne e >= 1).
        { destruct (pos_in_I e Re) as [b [Rb Eb]].
          assert (Q : cI ne (zat II b) >= 1) by (eapply cI_prev; [exact HI|lia|fold ne; lia]). rewrite Eb in Q. exact Q. }
        specialize (Cn e). rewrite (Us e Re). unfold ne in C1. replace (cI (num_edges t) e + cO i e) with 1 by lia. reflexivity. }
      rewrite err_if_false by exact CK.
      destruct (aset_cases u1 e (zat u1 e + 1)) as [[u2 [A [RA [LA NA]]]]|[A NR]]; [|exfalso; apply NR; rewrite Lu; exact Re].
      exists u2. split; [assumption|]. split; [lia|].
      (* the invariant for the next entry, from the soundness lemma applied to a one-step run *)
      assert (ONE : tail_loop v t OO i u1 = Ok u2 \/ True) by (right; exact I). clear ONE.
      split; [fold ne; lia|]. split; [fold ne; lia|]. split.
      + intros a Ra. destruct (Z.eq_dec a i); [|apply So; lia]. subst a. rewrite ZO.
        destruct (efin _ (zO_range (i - 1) ltac:(lia))) as [_ [_ [_ [RL1 _]]]]. lia.
      + intro F. destruct (Fx F) as [Cn Us]. rewrite F in CK. simpl in CK. b2z.
        assert (CO' : forall e', cO (i + 1) e' = cO i e' + (if Z.eq_dec e e' then 1 else 0)) by (intro; apply cO_succ; assumption).
        pose proof (Cn e). pose proof (Us e Re). pose proof (cO_nonneg OO i e).
        split.
        * intro e'. rewrite CO'. specialize (Cn e'). destruct (Z.eq_dec e e'); [subst; lia|lia].
        * intros e' Re'. rewrite CO'. rewrite (nth_upd t _ _ _ _ NA) by lia.
          destruct (Z.eq_dec e' e), (Z.eq_dec e e'); subst; try congruence; try lia.
          rewrite (Us e' Re'). lia.
    - exists u'. exact E.
  Qed.

  Theorem tree_complete : exists n, check_tree_integrity_with v t II OO = Ok n /\ n = num_trees_spec t Lz.
  Proof.
    unfold check_tree_integrity_with.
    set (s0 := mkSW 0 0 F0 (repeat TSK_NULL (length (node_time t))) (repeat 0 (length (edge_left t))) 0 0 0).
    assert (SI0 : sinv t II OO Lz s0) by (apply sinv_init; auto using HI).
    destruct SI0 as [x0 [EX0 [INV0 MINV0]]]. cbn in EX0. inversion EX0; subst x0.
    assert (C0 : cinv s0 0).
    { unfold cinv. cbn [s0 sw_j sw_k sw_left sw_parent sw_used sw_site sw_mut sw_trees].
      split; [reflexivity|]. split; [assumption|]. split; [assumption|]. split; [|split; [left; reflexivity|]].
      - split; [intros; lia|]. split; [|split; [intros; lia|]].
        + intros a Ra. destruct (efin _ (zI_range a Ra)) as [_ [_ [Q _]]]. lia.
        + intros a Ra. destruct (efin _ (zO_range a Ra)) as [_ [_ [Q _]]]. lia.
      - simpl (0 =? 0). pose proof ne0. split; [lia|]. split; [lia|]. symmetry. apply cntlt_0.
        intros b Hb. unfold bps in Hb. fold ne in Hb. destruct Hb as [Hb|Hb]; [lia|].
        apply in_app_or in Hb. destruct Hb as [Hb|Hb]; apply in_map_iff in Hb; destruct Hb as [e [Ee Re]];
          apply zrange_In in Re; subst b; destruct (efin e Re) as [_ [_ [Q _]]]; lia. }
    destruct (sweep_complete (sweep_fuel t) s0 0 C0) as [s1 [x1 [E1 [C1 EXIT]]]].
    { cbn [s0 sw_j sw_k]. simpl (0 =? 0). unfold sweep_fuel. fold ne. pose proof ne0. lia. }
    rewrite E1. cbn [bind].
    destruct C1 as [EX [INV [MINV [[J1 [J2 [K1 K2]]] [_ [_ [_ TC]]]]]]].
    rewrite EX, HL, flt_fin in EXIT. apply orb_false_iff in EXIT as [X1 X2]. b2z.
    assert (EJ : sw_j s1 = ne) by (destruct INV; lia).
    assert (EXL : x1 = Lz) by (destruct INV; lia). subst x1.
    destruct (tail_complete (sw_k s1) (sw_used s1)) as [u' ET].
    - destruct INV as [Ij Ik Ix Lp Lu Cn Us Pa A1 Dj Rg oI oO sI sO]. rewrite EJ in *.
      split; [fold ne; lia|]. split; [assumption|]. split; [assumption|]. intros _. split; assumption.
    - intros a Ra. specialize (K2 a Ra). destruct (efin _ (zO_range a ltac:(destruct INV; lia))) as [_ [_ [_ [Q _]]]]. lia.
    - rewrite ET. cbn [bind]. eexists. split; [reflexivity|]. exact TC.
  Qed.
End SweepComplete.

(* ---- the whole gate ---- *)
Lemma index_complete t : WF t -> IndexOK t -> check_index_integrity t = Ok tt.
Proof.
  intros W [I [O [EI [[PI _] [PO _]]]]]. unfold check_index_integrity. rewrite EI.
  destruct (wf_idx t W I O EI) as [LI LO].
  apply for_loop_unit_iff. intros j R.
  assert (ZI : zlen I = num_edges t) by (unfold zlen, num_edges; rewrite LI; reflexivity).
  assert (ZO : zlen O = num_edges t) by (unfold zlen, num_edges; rewrite LO; reflexivity).
  assert (Rj : 0 <= j < num_edges t) by (unfold num_edges, zlen; lia).
  rewrite aget_zat by lia. cbn [bind].
  assert (R1 : 0 <= zat I j < num_edges t).
  { apply (perm_zrange_In _ _ _ PI). unfold zat. apply nth_In. unfold zlen in ZI. lia. }
  rewrite err_if_false by (apply range_chk; assumption).
  rewrite aget_zat by lia. cbn [bind].
  assert (R2 : 0 <= zat O j < num_edges t).
  { apply (perm_zrange_In _ _ _ PO). unfold zat. apply nth_In. unfold zlen in ZO. lia. }
  rewrite err_if_false by (apply range_chk; assumption). reflexivity.
Qed.

(* the per-table phase for the option set of build_index (TSK_CHECK_EDGE_ORDERING only) *)
Lemma check_edge_ordering_complete v t :
  WF t -> SeqlenOK t -> OffsetsOK t -> NodesOK t -> EdgeRowsOK t -> EdgeOrderOK t -> SitesOK t ->
  MutRowsOK t -> MutOrderOK t -> MutKnownUnknownOK t -> MigsOK t -> IndsOK t ->
  check_integrity v opts_edge_ordering t = Ok 0.
Proof.
  intros W [Lz [HL HLpos]] VOff VN VER VEO VS VMR VMO VMX VMig VInd. unfold check_integrity.
  change (imply_trees opts_edge_ordering) with opts_edge_ordering.
  rewrite err_if_false.
  2:{ rewrite HL. unfold F0. rewrite fle_fin. simpl. rewrite andb_false_r.
      apply orb_false_intro'; [apply Z.leb_gt; lia|reflexivity]. }
  rewrite (offsets_complete t W VOff). cbn [bind].
  rewrite (nodes_complete t opts_edge_ordering eq_refl W VN). cbn [bind].
  rewrite (edges_complete t opts_edge_ordering eq_refl W VN VER VEO). cbn [bind].
  rewrite (sites_complete t opts_edge_ordering VS). cbn [bind].
  rewrite (muts_complete t opts_edge_ordering W VN VMR VMO VMX). cbn [bind].
  rewrite (migs_complete t opts_edge_ordering eq_refl W VMig). cbn [bind].
  rewrite (inds_complete t opts_edge_ordering eq_refl W VInd). cbn [bind].
  reflexivity.
Qed.

Theorem check_complete_lemma v t :
  WF t -> ValidTS t -> 2 * num_edges t + 1 < TSK_MAX_ID ->
  exists n, check_integrity v opts_trees t = Ok n /\
            forall Lz, seqlen t = Fin Lz -> n = num_trees_spec t Lz.
Proof.
  intros W V HOV. unfold check_integrity. fold oT.
  destruct (v_seqlen t V) as [Lz [HL HLpos]].
  rewrite err_if_false.
  2:{ rewrite HL. unfold F0. rewrite fle_fin. simpl. rewrite andb_false_r.
      apply orb_false_intro'; [apply Z.leb_gt; lia|reflexivity]. }
  rewrite (offsets_complete t W (v_offsets t V)). cbn [bind].
  rewrite (nodes_complete t oT eq_refl W (v_nodes t V)). cbn [bind].
  rewrite (edges_complete t oT eq_refl W (v_nodes t V) (v_edge_rows t V) (v_edge_order t V)). cbn [bind].
  rewrite (sites_complete t oT (v_sites t V)). cbn [bind].
  rewrite (muts_complete t oT W (v_nodes t V) (v_mut_rows t V) (v_mut_order t V) (v_mut_mix t V)). cbn [bind].
  rewrite (migs_complete t oT eq_refl W (v_migs t V)). cbn [bind].
  rewrite (inds_complete t oT eq_refl W (v_inds t V)). cbn [bind].
  cbn [oT imply_trees opts_trees o_trees o_indexes].
  rewrite (index_complete t W (v_index t V)). cbn [bind].
  destruct (v_index t V) as [I [O [EI [PI PO]]]].
  unfold check_tree_integrity. rewrite EI.
  destruct (wf_idx t W I O EI) as [LI LO].
  destruct (tree_complete v t I O Lz W HL HLpos (v_nodes t V) (v_edge_rows t V) (v_sites t V)
           (v_mut_rows t V) (v_mut_order t V) (v_disjoint t V) (v_mut_below t V) PI PO LI LO HOV) as [n [E C]].
  exists n. split; [exact E|]. intros Lz' HL'. rewrite HL in HL'. inversion HL'; subst. reflexivity.
Qed.

Example complete_nonvacuous : exists n, check_integrity faithful opts_trees ex_valid = Ok n.
Proof. exists 1. vm_compute. reflexivity. Qed.

Example num_trees_spec_example : num_trees_spec ex_valid 4 = 1.
Proof. vm_compute. reflexivity. Qed.
