(* C02/Wrapper.v — the entry points around the gate:
     TableCollection.tree_sequence()      tree_sequence_gate : has_index() ? gate : build_index; gate
     TreeSequence.load_tables(b)          load_tables_gate b : b ? (build_index; gate) : gate
     tskit.load / TreeSequence.load       load_gate          : gate
   A user-supplied (or stale) index is never silently replaced by tree_sequence(): the verdict is the
   gate's verdict on THAT index; on indexed tables tree_sequence(), load_tables() and load agree. *)
From Coq Require Import List ZArith Bool Lia.
From TskVerif Require Import Base.Common C02.Fl C02.Model C02.Spec C02.Sound C02.Top C02.BuildIndex.
Import ListNotations.
Open Scope Z_scope.

Lemma tree_sequence_keeps_index_lemma : forall t i, idx t = Some i -> tree_sequence_gate t = check t.
Proof. intros t i H. unfold tree_sequence_gate. rewrite H. reflexivity. Qed.

Lemma paths_agree_indexed_lemma : forall t i, idx t = Some i ->
  tree_sequence_gate t = load_gate t /\ load_tables_gate false t = load_gate t.
Proof. intros t i H. split; [apply (tree_sequence_keeps_index_lemma t i H)|reflexivity]. Qed.

(* the point of seeded change C02-7: an index that is present but inconsistent is REJECTED by
   tree_sequence(), not repaired behind the user's back *)
Lemma tree_sequence_rejects_bad_index_lemma : forall t i n, WF t -> idx t = Some i -> ~ IndexOK t ->
  tree_sequence_gate t <> Ok n.
Proof.
  intros t i n W H N E. rewrite (tree_sequence_keeps_index_lemma t i H) in E.
  apply N. exact (v_index t (check_sound_top t n W E)).
Qed.

(* on unindexed tables tree_sequence() is load_tables(build_indexes=True) *)
Lemma tree_sequence_unindexed_lemma : forall t, idx t = None -> tree_sequence_gate t = load_tables_gate true t.
Proof. intros t H. unfold tree_sequence_gate, load_tables_gate. rewrite H. reflexivity. Qed.

(* non-vacuity / the two really differ: a stale index (edge 0 shortened after build_index) *)
Example stale_index_paths :
  let t := mkTables (Fin 4) 0 0 [] [0] [Fin 0; Fin 0; Fin 2] [-1; -1; -1] [-1; -1; -1]
             [Fin 0; Fin 0] [Fin 2; Fin 4] [2; 2] [0; 1] [] [] [] [] [] [] [] [] [] [] [] []
             (Some ([0; 1], [1; 0])) in
  tree_sequence_gate t = Err E_TABLES_BAD_INDEXES /\ load_gate t = Err E_TABLES_BAD_INDEXES /\
  load_tables_gate true t = Ok 2.
Proof. repeat split; vm_compute; reflexivity. Qed.
