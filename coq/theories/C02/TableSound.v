(* C02/TableSound.v — soundness of the per-table integrity checks: a check that returns
   Ok establishes the corresponding clause of ValidTS (C02/Spec.v). *)
From Coq Require Import List ZArith Bool Lia.
From TskVerif Require Import Base.Common C02.Fl C02.Model C02.Arr C02.Tac C02.Spec.
Import ListNotations.
Open Scope Z_scope.

Lemma zat_aget l i a : aget l i = Ok a -> zat l i = a.
Proof. intro H. unfold zat. eapply aget_nth; eauto. Qed.
Lemma fat_aget l i a : aget l i = Ok a -> fat l i = a.
Proof. intro H. unfold fat. eapply aget_nth; eauto. Qed.

Lemma zlen_nat {A} (l : list A) : Z.of_nat (length l) = zlen l. Proof. reflexivity. Qed.

(* ---- decomposition of the top-level check ---- *)
Definition oT := imply_trees opts_trees.

Lemma check_integrity_trees_inv v t n :
  check_integrity v opts_trees t = Ok n ->
  fle (seqlen t) F0 || (fix_f14 v && negb (isfinite (seqlen t))) = false /\
  check_all_offsets (ragged t) = Ok tt /\
  check_node_integrity oT t = Ok tt /\
  check_edge_integrity oT t = Ok tt /\
  check_site_integrity oT t = Ok tt /\
  check_mutation_integrity oT t = Ok tt /\
  check_migration_integrity oT t = Ok tt /\
  check_individual_integrity oT t = Ok tt /\
  check_index_integrity t = Ok tt /\
  check_tree_integrity v t = Ok n.
Proof.
  unfold check_integrity. fold oT. intro H.
  step H. split; [reflexivity|].
  repeat (step H; match goal with u : unit |- _ => destruct u end; split; [reflexivity|]).
  cbn in H. step H. match goal with u : unit |- _ => destruct u end. split; [reflexivity|]. exact H.
Qed.

(* ---- sequence length ---- *)
Lemma seqlen_sound v t :
  fle (seqlen t) F0 || (fix_f14 v && negb (isfinite (seqlen t))) = false ->
  fle (seqlen t) F0 = false /\ (fix_f14 v = true -> SeqlenOK t).
Proof.
  intro H. apply orb_false_iff in H as [H1 H2]. split; [assumption|]. intro F.
  rewrite F in H2; simpl in H2. apply negb_false_iff in H2.
  apply isfinite_fin in H2 as [z E]. exists z. split; [assumption|].
  rewrite E in H1. unfold F0 in H1. rewrite fle_fin in H1. b2z. lia.
Qed.

(* with a finite sequence length the unrepaired test is enough *)
Lemma seqlen_sound_fin t z : seqlen t = Fin z -> fle (seqlen t) F0 = false -> SeqlenOK t.
Proof. intros E H. exists z. split; [assumption|]. rewrite E in H. unfold F0 in H. rewrite fle_fin in H. b2z. lia. Qed.

(* ---- offsets ---- *)
Lemma check_offsets_sound n o len :
  check_offsets n o len = Ok tt ->
  zat o 0 = 0 /\ zat o n = len /\ forall j, 0 <= j < n -> zat o j <= zat o (j + 1).
Proof.
  unfold check_offsets. intro H. steps H.
  apply zat_aget in G, G0. b2z. repeat split; try congruence.
  intros j R. rewrite for_loop_unit_iff in H. specialize (H j).
  assert (R' : 0 <= j < 0 + Z.of_nat (Z.to_nat n)) by lia. specialize (H R').
  steps H. apply zat_aget in G1, G2. b2z. lia.
Qed.

Lemma offsets_sound l : check_all_offsets l = Ok tt ->
  Forall (fun '(n, o, len) => zat o 0 = 0 /\ zat o n = len /\
                              forall j, 0 <= j < n -> zat o j <= zat o (j + 1)) l.
Proof.
  induction l as [|[[n o] len] r IH]; simpl; intro H; [constructor|].
  step H. match goal with u : unit |- _ => destruct u end. constructor; [apply check_offsets_sound; assumption | auto].
Qed.

(* ---- nodes ---- *)
Lemma nodes_sound t : check_node_integrity oT t = Ok tt -> NodesOK t.
Proof.
  unfold check_node_integrity, NodesOK. intros H j R.
  rewrite for_loop_unit_iff in H. specialize (H j).
  unfold num_nodes, zlen in R. specialize (H ltac:(lia)).
  cbn [oT imply_trees opts_trees o_trees o_no_check_population_refs negb] in H.
  steps H. apply fat_aget in G. apply zat_aget in G1, G0.
  unfold TSK_NULL in *. b2z. rewrite G, G0, G1. repeat split; try assumption; lia.
Qed.


(* ---- sites ---- *)
Lemma site_row_sound t s : check_site_integrity oT t = Ok tt -> 0 <= s < num_sites t ->
  exists x, fat (site_pos t) s = Fin x /\ 0 <= x /\ fge (Fin x) (seqlen t) = false.
Proof.
  unfold check_site_integrity. intros H R. rewrite for_loop_unit_iff in H. specialize (H s).
  unfold num_sites, zlen in R. specialize (H ltac:(lia)).
  step H. step H. step H. clear H. fins. apply fat_aget in G.
  exists z. b2z. unfold F0 in *. simpl in H. b2z. repeat split; auto; lia.
Qed.

Lemma sites_sound t : check_site_integrity oT t = Ok tt -> SitesOK t.
Proof.
  intro H. split; [intros s R; apply site_row_sound; assumption|]. intros s R.
  destruct (site_row_sound t s H ltac:(lia)) as [x [Ex _]].
  destruct (site_row_sound t (s - 1) H ltac:(lia)) as [y [Ey _]].
  unfold check_site_integrity in H. rewrite for_loop_unit_iff in H. specialize (H s).
  unfold num_sites, zlen in R. specialize (H ltac:(lia)).
  cbn [oT imply_trees opts_trees o_trees o_site_duplicates o_site_ordering andb] in H.
  steps H; try lia. apply fat_aget in G, G0. rewrite Ex in G. rewrite Ey in G0. subst.
  rewrite Ex, Ey. unfold fgt in *. simpl in *. b2z. apply Z.ltb_lt. lia.
Qed.

(* ---- migrations ---- *)
Lemma mig_row_sound t g : check_migration_integrity oT t = Ok tt -> 0 <= g < num_migrations t ->
  0 <= zat (mig_node t) g < num_nodes t /\ 0 <= zat (mig_source t) g < npop t /\ 0 <= zat (mig_dest t) g < npop t /\
  isfinite (fat (mig_time t) g) = true /\
  exists l r, fat (mig_left t) g = Fin l /\ fat (mig_right t) g = Fin r /\ 0 <= l < r /\
              fgt (Fin r) (seqlen t) = false.
Proof.
  unfold check_migration_integrity. intros H R. rewrite for_loop_unit_iff in H. specialize (H g).
  unfold num_migrations, zlen in R. specialize (H ltac:(lia)).
  cbn [oT imply_trees opts_trees o_trees o_no_check_population_refs o_migration_ordering negb andb] in H.
  step H. step H. step H. steps G0. step H. step H. step H. clear G3. steps H.
  fins.
  repeat match goal with G : aget _ _ = Ok _ |- _ => first [apply zat_aget in G | apply fat_aget in G]; rewrite G end.
  b2z. unfold F0, fge, fgt in *. rewrite fle_fin in *. simpl in *. b2z.
  repeat split; try lia; try assumption. eexists _, _. repeat split; try lia; try reflexivity.
  assumption.
Qed.

Lemma migs_sound t : check_migration_integrity oT t = Ok tt -> MigsOK t.
Proof.
  intro H. split; [intros g R; apply mig_row_sound; assumption|]. intros g R.
  destruct (mig_row_sound t g H ltac:(lia)) as [_ [_ [_ [Fg _]]]].
  destruct (mig_row_sound t (g - 1) H ltac:(lia)) as [_ [_ [_ [Fp _]]]].
  unfold check_migration_integrity in H. rewrite for_loop_unit_iff in H. specialize (H g).
  unfold num_migrations, zlen in R. specialize (H ltac:(lia)).
  cbn [oT imply_trees opts_trees o_trees o_no_check_population_refs o_migration_ordering negb andb] in H.
  steps H; [|b2z; lia].
  repeat match goal with G : aget (mig_time t) _ = Ok _ |- _ => apply fat_aget in G; rewrite G in * end.
  apply isfinite_fin in Fg as [x Fg]. apply isfinite_fin in Fp as [y Fp].
  rewrite Fg, Fp in *. unfold fgt in *. rewrite fle_fin. simpl in *. b2z. apply Z.leb_le. lia.
Qed.

(* ---- individuals ---- *)
Lemma inds_sound t : check_individual_integrity oT t = Ok tt -> IndsOK t.
Proof.
  unfold check_individual_integrity, IndsOK. intros H j R k Rk.
  rewrite for_loop_unit_iff in H. specialize (H j ltac:(lia)).
  step H. step H. apply zat_aget in G, G0. rewrite G, G0 in Rk.
  rewrite for_loop_unit_iff in H. specialize (H k ltac:(lia)).
  cbn [oT imply_trees opts_trees o_trees o_individual_ordering andb] in H.
  steps H. apply zat_aget in G1. cbv zeta. rewrite G1. unfold TSK_NULL in *.
  apply andb_false_iff in B. split; [|b2z; assumption].
  destruct B as [B|B]; b2z; [left; assumption | right; lia].
Qed.

(* ---- index: presence and range of the entries ---- *)
Lemma index_range_sound t : check_index_integrity t = Ok tt ->
  exists I O, idx t = Some (I, O) /\
    forall a, 0 <= a < num_edges t ->
      (exists e, aget I a = Ok e /\ 0 <= e < num_edges t) /\
      (exists e, aget O a = Ok e /\ 0 <= e < num_edges t).
Proof.
  unfold check_index_integrity. destruct (idx t) as [[I O]|]; [|discriminate].
  intro H. exists I, O. split; [reflexivity|]. intros a R.
  rewrite for_loop_unit_iff in H. specialize (H a). unfold num_edges, zlen in R.
  specialize (H ltac:(lia)). steps H. b2z. unfold num_edges, zlen in *.
  split; eexists; (split; [reflexivity|lia]).
Qed.

